pub fn case_0(vars: &Vars) -> InferredGoal<DU, DE, Goal<DU, DE>> {
    let qa = vars.v[0].clone();
    let qb = vars.v[1].clone();
    let coll0: Vec<LT> = vec![lterm!(2), lterm!([2]), lterm!([1])];
    proto_vulcan!([for e in &coll0 { |x| { [[3], [[]]] == [[2 | 2], [x], [3, qa | qb]], [[false], [x] | x] == [[[], []]], true } }])
}
pub fn case_1(vars: &Vars) -> InferredGoal<DU, DE, Goal<DU, DE>> {
    let qa = vars.v[0].clone();
    let qb = vars.v[1].clone();
    let coll0: Vec<LT> = vec![lterm!([2]), lterm!(2)];
    proto_vulcan!([for e in &coll0 { qa != [3, [3, 1, qa], [1]] }])
}
pub fn case_2(vars: &Vars) -> InferredGoal<DU, DE, Goal<DU, DE>> {
    let qa = vars.v[0].clone();
    let qb = vars.v[1].clone();
    let coll0: Vec<LT> = vec![lterm!(3), lterm!(2)];
    proto_vulcan!([[[false]] == qa, for e in &coll0 { qb != e, [] == qa }])
}
pub fn case_3(vars: &Vars) -> InferredGoal<DU, DE, Goal<DU, DE>> {
    let qa = vars.v[0].clone();
    let qb = vars.v[1].clone();
    let coll0: Vec<LT> = vec![lterm!(1)];
    proto_vulcan!([[1 | qb] == [[qb, 1]], for e in &coll0 { [[1], 1, [[], [], 3 | e] | _] == e }])
}
pub fn case_4(vars: &Vars) -> InferredGoal<DU, DE, Goal<DU, DE>> {
    let qa = vars.v[0].clone();
    let qb = vars.v[1].clone();
    let coll0: Vec<LT> = vec![];
    proto_vulcan!([for e in &coll0 { |z| { member(qa, [2, 1]), [["a", _ | qb]] == z, [] == qb } }])
}
pub fn case_5(vars: &Vars) -> InferredGoal<DU, DE, Goal<DU, DE>> {
    let qa = vars.v[0].clone();
    let qb = vars.v[1].clone();
    let coll0: Vec<LT> = vec![lterm!(3)];
    proto_vulcan!([[[qb, qa], [qb, 2, []]] == qb, for e in &coll0 { |z, x| { 3 == [[3, qb, [] | qb], qb, [qb, x, 'b']], e != z }, member(e, []) }])
}
pub fn case_6(vars: &Vars) -> InferredGoal<DU, DE, Goal<DU, DE>> {
    let qa = vars.v[0].clone();
    let qb = vars.v[1].clone();
    let coll0: Vec<LT> = vec![];
    proto_vulcan!([for e in &coll0 { false == qa, [e == [[_, 1], [qb, _, qb]], false] }])
}
pub fn case_7(vars: &Vars) -> InferredGoal<DU, DE, Goal<DU, DE>> {
    let qa = vars.v[0].clone();
    let qb = vars.v[1].clone();
    let coll0: Vec<LT> = vec![lterm!(3)];
    proto_vulcan!([for e in &coll0 { 2 == qb }])
}
pub fn case_8(vars: &Vars) -> InferredGoal<DU, DE, Goal<DU, DE>> {
    let qa = vars.v[0].clone();
    let qb = vars.v[1].clone();
    let coll0: Vec<LT> = vec![lterm!(3), lterm!(3), qa.clone()];
    proto_vulcan!([[[qb, 2] | 1] != qb, for e in &coll0 { member(qa, [3, 1, 1]), 2 == [[false, e, _ | qa], [qa, qa]] }])
}
pub fn case_9(vars: &Vars) -> InferredGoal<DU, DE, Goal<DU, DE>> {
    let qa = vars.v[0].clone();
    let qb = vars.v[1].clone();
    let coll0: Vec<LT> = vec![qb.clone(), lterm!(3), lterm!(1)];
    proto_vulcan!([conde { [] != qa, _ == qb }, for e in &coll0 { qb == [[qa, 3, qb]], conde { [[[], [], qa], e] == e, [false, false], [qa == qb, member(qa, [1, 3])] } }])
}
pub fn case_10(vars: &Vars) -> InferredGoal<DU, DE, Goal<DU, DE>> {
    let qa = vars.v[0].clone();
    let qb = vars.v[1].clone();
    let coll0: Vec<LT> = vec![lterm!(3), lterm!(3)];
    proto_vulcan!([qa != [[_, qa]], for e in &coll0 { conde { true, [_ == [e], e == qa], [append(e, qb, []), 3 != e] } }])
}
pub fn case_11(vars: &Vars) -> InferredGoal<DU, DE, Goal<DU, DE>> {
    let qa = vars.v[0].clone();
    let qb = vars.v[1].clone();
    let coll0: Vec<LT> = vec![lterm!(2)];
    proto_vulcan!([for e in &coll0 { [[2, 1, [] | 1], qb] == qb }])
}
pub fn case_12(vars: &Vars) -> InferredGoal<DU, DE, Goal<DU, DE>> {
    let qa = vars.v[0].clone();
    let qb = vars.v[1].clone();
    let coll0: Vec<LT> = vec![lterm!([1]), qb.clone()];
    proto_vulcan!([for e in &coll0 { |t| { qb == e } }])
}
pub fn case_13(vars: &Vars) -> InferredGoal<DU, DE, Goal<DU, DE>> {
    let qa = vars.v[0].clone();
    let qb = vars.v[1].clone();
    let coll0: Vec<LT> = vec![lterm!(2), lterm!(1)];
    proto_vulcan!([for e in &coll0 { 2 == qa }])
}
pub fn case_14(vars: &Vars) -> InferredGoal<DU, DE, Goal<DU, DE>> {
    let qa = vars.v[0].clone();
    let qb = vars.v[1].clone();
    let coll0: Vec<LT> = vec![];
    proto_vulcan!([for e in &coll0 { append(e, e, []) }])
}
pub fn case_15(vars: &Vars) -> InferredGoal<DU, DE, Goal<DU, DE>> {
    let qa = vars.v[0].clone();
    let qb = vars.v[1].clone();
    let coll0: Vec<LT> = vec![lterm!(2), qa.clone()];
    proto_vulcan!([append(qb, qa, [3]), for e in &coll0 { |y| { 3 == e, y != 3 } }])
}
pub fn case_16(vars: &Vars) -> InferredGoal<DU, DE, Goal<DU, DE>> {
    let qa = vars.v[0].clone();
    let qb = vars.v[1].clone();
    let coll0: Vec<LT> = vec![];
    proto_vulcan!([for e in &coll0 { |x, t| { e == [[qb, 3, x]], [[1, 2], [] | x] != e, t == [] } }])
}
pub fn case_17(vars: &Vars) -> InferredGoal<DU, DE, Goal<DU, DE>> {
    let qa = vars.v[0].clone();
    let qb = vars.v[1].clone();
    let coll0: Vec<LT> = vec![qa.clone()];
    proto_vulcan!([[[_]] == qb, for e in &coll0 { |z| { append(z, qa, [1, 3]) } }])
}
pub fn case_18(vars: &Vars) -> InferredGoal<DU, DE, Goal<DU, DE>> {
    let qa = vars.v[0].clone();
    let qb = vars.v[1].clone();
    let coll0: Vec<LT> = vec![qa.clone(), qb.clone()];
    proto_vulcan!([for e in &coll0 { [[_, 1], [qa, qb]] == e }])
}
pub fn case_19(vars: &Vars) -> InferredGoal<DU, DE, Goal<DU, DE>> {
    let qa = vars.v[0].clone();
    let qb = vars.v[1].clone();
    let coll0: Vec<LT> = vec![lterm!(2), lterm!(3)];
    proto_vulcan!([append(qb, qb, [2]), for e in &coll0 { [e == 2] }])
}
pub fn case_20(vars: &Vars) -> InferredGoal<DU, DE, Goal<DU, DE>> {
    let qa = vars.v[0].clone();
    let qb = vars.v[1].clone();
    let coll0: Vec<LT> = vec![];
    proto_vulcan!([for e in &coll0 { conde { 2 == e, 2 == qa, qb != qb } }])
}
pub fn case_21(vars: &Vars) -> InferredGoal<DU, DE, Goal<DU, DE>> {
    let qa = vars.v[0].clone();
    let qb = vars.v[1].clone();
    let coll0: Vec<LT> = vec![lterm!([2]), qa.clone()];
    proto_vulcan!([append(qb, qb, []), for e in &coll0 { member(qa, [1, 1, 1]), [1, [e], 2] != [[qb], qa] }])
}
pub fn case_22(vars: &Vars) -> InferredGoal<DU, DE, Goal<DU, DE>> {
    let qa = vars.v[0].clone();
    let qb = vars.v[1].clone();
    let coll0: Vec<LT> = vec![];
    proto_vulcan!([qb != qb, for e in &coll0 { [[_]] != qb }])
}
pub fn case_23(vars: &Vars) -> InferredGoal<DU, DE, Goal<DU, DE>> {
    let qa = vars.v[0].clone();
    let qb = vars.v[1].clone();
    let coll0: Vec<LT> = vec![lterm!(3), lterm!(1)];
    proto_vulcan!([conde { [false, [2] == [[2, _ | qa], [2, 2]]], [append(qa, qb, []), qa == [[2, 2 | qa], [1, qb] | qa]], [[qa, qb, [1]] != [[], ["bc", qa, qb | qb], 1], [[qb], [1, _, 2] | qa] == [2, qa, 1 | 1]] }, for e in &coll0 { |y| { [1] == [[false, 3, y] | qa] } }])
}
pub fn case_24(vars: &Vars) -> InferredGoal<DU, DE, Goal<DU, DE>> {
    let qa = vars.v[0].clone();
    let qb = vars.v[1].clone();
    let coll0: Vec<LT> = vec![lterm!(3)];
    proto_vulcan!([for e in &coll0 { 1 == 2 }])
}
pub fn case_25(vars: &Vars) -> InferredGoal<DU, DE, Goal<DU, DE>> {
    let qa = vars.v[0].clone();
    let qb = vars.v[1].clone();
    let coll0: Vec<LT> = vec![lterm!(1), qa.clone()];
    proto_vulcan!([[[[] | 2], _ | qa] == [qa], for e in &coll0 { |h, t| { qb == [['b']] }, [[3, e]] != [true, [2, e]] }])
}
pub fn case_26(vars: &Vars) -> InferredGoal<DU, DE, Goal<DU, DE>> {
    let qa = vars.v[0].clone();
    let qb = vars.v[1].clone();
    let coll0: Vec<LT> = vec![lterm!(3), qa.clone()];
    proto_vulcan!([false, for e in &coll0 { "bc" == 'a' }])
}
pub fn case_27(vars: &Vars) -> InferredGoal<DU, DE, Goal<DU, DE>> {
    let qa = vars.v[0].clone();
    let qb = vars.v[1].clone();
    let coll0: Vec<LT> = vec![lterm!([2]), lterm!([1]), lterm!(2)];
    proto_vulcan!([for e in &coll0 { qb != qa, |h| { qa == 3 } }])
}
pub fn case_28(vars: &Vars) -> InferredGoal<DU, DE, Goal<DU, DE>> {
    let qa = vars.v[0].clone();
    let qb = vars.v[1].clone();
    let coll0: Vec<LT> = vec![qa.clone(), qa.clone(), qb.clone()];
    proto_vulcan!([for e in &coll0 { false }])
}
pub fn case_29(vars: &Vars) -> InferredGoal<DU, DE, Goal<DU, DE>> {
    let qa = vars.v[0].clone();
    let qb = vars.v[1].clone();
    let coll0: Vec<LT> = vec![lterm!([1]), lterm!(2)];
    proto_vulcan!([for e in &coll0 { qb == [[qa, 2], 3, [qa, 2 | qb]] }])
}
pub fn case_30(vars: &Vars) -> InferredGoal<DU, DE, Goal<DU, DE>> {
    let qa = vars.v[0].clone();
    let qb = vars.v[1].clone();
    let coll0: Vec<LT> = vec![lterm!(1), qb.clone(), lterm!(3)];
    proto_vulcan!([for e in &coll0 { qa == [['b', 2, 1], 2], [true] }])
}
pub fn case_31(vars: &Vars) -> InferredGoal<DU, DE, Goal<DU, DE>> {
    let qa = vars.v[0].clone();
    let qb = vars.v[1].clone();
    let coll0: Vec<LT> = vec![lterm!([1])];
    proto_vulcan!([[qa] != qa, for e in &coll0 { conde { [true, member(qb, [2])], [false, [[2, qa | e], [1, 2 | e], [e, qa] | qb] == [[qb, qb, 2]]], [append(e, qa, [3]), false] }, conde { [[e, qa, 'b']] != e, qb == qa, [false, false] } }])
}
pub fn case_32(vars: &Vars) -> InferredGoal<DU, DE, Goal<DU, DE>> {
    let qa = vars.v[0].clone();
    let qb = vars.v[1].clone();
    let coll0: Vec<LT> = vec![qb.clone(), qb.clone(), lterm!(1)];
    proto_vulcan!([for e in &coll0 { conde { [2 == e, member(e, [2, 2, 1])], qb != qa, qa == [["a"], []] } }])
}
pub fn case_33(vars: &Vars) -> InferredGoal<DU, DE, Goal<DU, DE>> {
    let qa = vars.v[0].clone();
    let qb = vars.v[1].clone();
    let coll0: Vec<LT> = vec![lterm!(3), lterm!([2]), qa.clone()];
    proto_vulcan!([for e in &coll0 { qb == _, [1, e | _] == 'a' }])
}
pub fn case_34(vars: &Vars) -> InferredGoal<DU, DE, Goal<DU, DE>> {
    let qa = vars.v[0].clone();
    let qb = vars.v[1].clone();
    let coll0: Vec<LT> = vec![qb.clone()];
    proto_vulcan!([append(qb, qb, [3, 3]), for e in &coll0 { qb == qb, qb == [[1, qa], 2] }])
}
pub fn case_35(vars: &Vars) -> InferredGoal<DU, DE, Goal<DU, DE>> {
    let qa = vars.v[0].clone();
    let qb = vars.v[1].clone();
    let coll0: Vec<LT> = vec![];
    proto_vulcan!([true, for e in &coll0 { conde { [qa == [['b', "bc", qb | e], qa, [qa] | e], member(e, [2, 3])], [qb == qb, qa == qb] }, [[[]]] == [[], [1, []], [qa]] }])
}
pub fn case_36(vars: &Vars) -> InferredGoal<DU, DE, Goal<DU, DE>> {
    let qa = vars.v[0].clone();
    let qb = vars.v[1].clone();
    let coll0: Vec<LT> = vec![qa.clone(), qb.clone(), lterm!([2])];
    proto_vulcan!([true, for e in &coll0 { qa != _, e == _ }])
}
pub fn case_37(vars: &Vars) -> InferredGoal<DU, DE, Goal<DU, DE>> {
    let qa = vars.v[0].clone();
    let qb = vars.v[1].clone();
    let coll0: Vec<LT> = vec![lterm!([1])];
    proto_vulcan!([for e in &coll0 { 2 == [qb, "a"] }])
}
pub fn case_38(vars: &Vars) -> InferredGoal<DU, DE, Goal<DU, DE>> {
    let qa = vars.v[0].clone();
    let qb = vars.v[1].clone();
    let coll0: Vec<LT> = vec![qb.clone(), lterm!([2])];
    proto_vulcan!([[qa] == qb, for e in &coll0 { |y, x| { [y, 'a'] == [2, ['a', qa, 1], [[], [], "bc"] | qa], false, true } }])
}
pub fn case_39(vars: &Vars) -> InferredGoal<DU, DE, Goal<DU, DE>> {
    let qa = vars.v[0].clone();
    let qb = vars.v[1].clone();
    let coll0: Vec<LT> = vec![lterm!([2])];
    proto_vulcan!([[[], qb, qb | qb] == [[1], 3], for e in &coll0 { [[e, 1, e]] != qb, [[[1], [1 | qa], [3, "bc"]] == qa, false == qb, append(qb, qb, [3, 3])] }])
}
pub fn case_40(vars: &Vars) -> InferredGoal<DU, DE, Goal<DU, DE>> {
    let qa = vars.v[0].clone();
    let qb = vars.v[1].clone();
    let coll0: Vec<LT> = vec![];
    proto_vulcan!([[[_ | qb], [qa, 2]] != qb, for e in &coll0 { [[qa, 2]] != [_, [qb, qa], [1, qa, [] | e]], |t, y| { qb == [2, 2, [t, qb, 2]], [[[], "a", []], [3] | 'a'] == [_, [e, true | t]] } }])
}
pub fn case_41(vars: &Vars) -> InferredGoal<DU, DE, Goal<DU, DE>> {
    let qa = vars.v[0].clone();
    let qb = vars.v[1].clone();
    let coll0: Vec<LT> = vec![qa.clone(), lterm!(3), lterm!([2])];
    proto_vulcan!([for e in &coll0 { qa == 3, true }])
}
pub fn case_42(vars: &Vars) -> InferredGoal<DU, DE, Goal<DU, DE>> {
    let qa = vars.v[0].clone();
    let qb = vars.v[1].clone();
    let coll0: Vec<LT> = vec![lterm!([2])];
    proto_vulcan!([for e in &coll0 { [[qb], 3, [2, 3, e] | qa] != _, [[qb | qb], [2]] == e }])
}
pub fn case_43(vars: &Vars) -> InferredGoal<DU, DE, Goal<DU, DE>> {
    let qa = vars.v[0].clone();
    let qb = vars.v[1].clone();
    let coll0: Vec<LT> = vec![];
    proto_vulcan!([[qb == [1, ["bc"], [[], [], qa | qb]]], for e in &coll0 { false }])
}
pub fn case_44(vars: &Vars) -> InferredGoal<DU, DE, Goal<DU, DE>> {
    let qa = vars.v[0].clone();
    let qb = vars.v[1].clone();
    let coll0: Vec<LT> = vec![lterm!(1), lterm!(2)];
    proto_vulcan!([for e in &coll0 { qa == qb }])
}
pub fn case_45(vars: &Vars) -> InferredGoal<DU, DE, Goal<DU, DE>> {
    let qa = vars.v[0].clone();
    let qb = vars.v[1].clone();
    let coll0: Vec<LT> = vec![lterm!(3), lterm!(3), lterm!(3)];
    proto_vulcan!([for e in &coll0 { [member(qa, [3, 2, 2]), member(qb, [3])] }])
}
pub fn case_46(vars: &Vars) -> InferredGoal<DU, DE, Goal<DU, DE>> {
    let qa = vars.v[0].clone();
    let qb = vars.v[1].clone();
    let coll0: Vec<LT> = vec![];
    proto_vulcan!([for e in &coll0 { conde { [[3, 1], qb, qb] != [[_, 3]], true }, [[e, e, []], [e]] == [] }])
}
pub fn case_47(vars: &Vars) -> InferredGoal<DU, DE, Goal<DU, DE>> {
    let qa = vars.v[0].clone();
    let qb = vars.v[1].clone();
    let coll0: Vec<LT> = vec![lterm!(2)];
    proto_vulcan!([qb == qa, for e in &coll0 { true }])
}
pub fn case_48(vars: &Vars) -> InferredGoal<DU, DE, Goal<DU, DE>> {
    let qa = vars.v[0].clone();
    let qb = vars.v[1].clone();
    let coll0: Vec<LT> = vec![qa.clone(), qa.clone()];
    proto_vulcan!([for e in &coll0 { [e, [[], 'b']] == 3, [[[], qa, []], [qb, e | e], [e, []] | e] == qb }])
}
pub fn case_49(vars: &Vars) -> InferredGoal<DU, DE, Goal<DU, DE>> {
    let qa = vars.v[0].clone();
    let qb = vars.v[1].clone();
    let coll0: Vec<LT> = vec![lterm!(3), qa.clone(), qb.clone()];
    proto_vulcan!([for e in &coll0 { qb == [[qb, 2 | qa], [[], e]] }])
}
pub fn case_50(vars: &Vars) -> InferredGoal<DU, DE, Goal<DU, DE>> {
    let qa = vars.v[0].clone();
    let qb = vars.v[1].clone();
    let coll0: Vec<LT> = vec![lterm!(2)];
    proto_vulcan!([[member(qb, [2]), [[qb, qa], [_]] == qb], for e in &coll0 { 3 == 2, 1 == _ }])
}
pub fn case_51(vars: &Vars) -> InferredGoal<DU, DE, Goal<DU, DE>> {
    let qa = vars.v[0].clone();
    let qb = vars.v[1].clone();
    let coll0: Vec<LT> = vec![];
    proto_vulcan!([for e in &coll0 { [[e, "bc", []], ['a'], _] == 2 }])
}
pub fn case_52(vars: &Vars) -> InferredGoal<DU, DE, Goal<DU, DE>> {
    let qa = vars.v[0].clone();
    let qb = vars.v[1].clone();
    let coll0: Vec<LT> = vec![];
    proto_vulcan!([for e in &coll0 { [1, false] == qa }])
}
pub fn case_53(vars: &Vars) -> InferredGoal<DU, DE, Goal<DU, DE>> {
    let qa = vars.v[0].clone();
    let qb = vars.v[1].clone();
    let coll0: Vec<LT> = vec![qa.clone(), qa.clone()];
    proto_vulcan!([for e in &coll0 { [[_, "bc" | qb], [_, qb], [_] | e] != e, e == [[3, qb], [_, true, []], "a"] }])
}
pub fn case_54(vars: &Vars) -> InferredGoal<DU, DE, Goal<DU, DE>> {
    let qa = vars.v[0].clone();
    let qb = vars.v[1].clone();
    let coll0: Vec<LT> = vec![];
    proto_vulcan!([|z| { member(qb, [3]), false }, for e in &coll0 { |t, h| { qb == ["a", [qb, 1, e], [_, 2, h | qb] | 'b'] }, true }])
}
pub fn case_55(vars: &Vars) -> InferredGoal<DU, DE, Goal<DU, DE>> {
    let qa = vars.v[0].clone();
    let qb = vars.v[1].clone();
    let coll0: Vec<LT> = vec![];
    proto_vulcan!([|z| { [[[], _, z], z] != qb, [z, 2, 2 | z] == [[1, _, qa], [z, z], [[], 2, [] | qb] | qa], member(qa, []) }, for e in &coll0 { 'a' == e }])
}
pub fn case_56(vars: &Vars) -> InferredGoal<DU, DE, Goal<DU, DE>> {
    let qa = vars.v[0].clone();
    let qb = vars.v[1].clone();
    let coll0: Vec<LT> = vec![lterm!([2]), lterm!([1])];
    proto_vulcan!([qb == [[2, 2]], for e in &coll0 { [qb, qb, qb] != [[[], [], 2], [] | qa], [1] == qa }])
}
pub fn case_57(vars: &Vars) -> InferredGoal<DU, DE, Goal<DU, DE>> {
    let qa = vars.v[0].clone();
    let qb = vars.v[1].clone();
    let coll0: Vec<LT> = vec![lterm!(2), qb.clone()];
    proto_vulcan!([[[3, qb]] != qb, for e in &coll0 { conde { [2 == [[[], 1, 2], qa, 3], qa == [qb]], 1 == qa, member(qb, [1, 2, 2]) } }])
}
pub fn case_58(vars: &Vars) -> InferredGoal<DU, DE, Goal<DU, DE>> {
    let qa = vars.v[0].clone();
    let qb = vars.v[1].clone();
    let coll0: Vec<LT> = vec![lterm!([1]), qa.clone()];
    proto_vulcan!([[qa] == [[], qa], for e in &coll0 { [[qa, qb], [qb | e]] == qb }])
}
pub fn case_59(vars: &Vars) -> InferredGoal<DU, DE, Goal<DU, DE>> {
    let qa = vars.v[0].clone();
    let qb = vars.v[1].clone();
    let coll0: Vec<LT> = vec![];
    proto_vulcan!([for e in &coll0 { e == qb }])
}
pub fn case_60(vars: &Vars) -> InferredGoal<DU, DE, Goal<DU, DE>> {
    let qa = vars.v[0].clone();
    let qb = vars.v[1].clone();
    let coll0: Vec<LT> = vec![lterm!([2]), lterm!(1), lterm!(2)];
    proto_vulcan!([[[] | qb] == qb, for e in &coll0 { append(qa, qb, [3]), append(e, e, [1]) }])
}
pub fn case_61(vars: &Vars) -> InferredGoal<DU, DE, Goal<DU, DE>> {
    let qa = vars.v[0].clone();
    let qb = vars.v[1].clone();
    let coll0: Vec<LT> = vec![qa.clone(), qa.clone(), lterm!(2)];
    proto_vulcan!([for e in &coll0 { conde { [[[2], [e, e], [qa, qa, 2]] == e, member(qa, [2, 2, 3])], [false, member(qb, [])] } }])
}
pub fn case_62(vars: &Vars) -> InferredGoal<DU, DE, Goal<DU, DE>> {
    let qa = vars.v[0].clone();
    let qb = vars.v[1].clone();
    let coll0: Vec<LT> = vec![lterm!(1), lterm!(3), lterm!([1])];
    proto_vulcan!([for e in &coll0 { [true, [2, [e, 'a', 2] | qa] == [[2, qa], [true, 1 | qa] | qb], true], [[3, 3], [[], 2, []] | e] == qa }])
}
pub fn case_63(vars: &Vars) -> InferredGoal<DU, DE, Goal<DU, DE>> {
    let qa = vars.v[0].clone();
    let qb = vars.v[1].clone();
    let coll0: Vec<LT> = vec![lterm!([2])];
    proto_vulcan!([for e in &coll0 { e == qb, |t, y| { false, member(qb, [3]), [2, 1] != [[y, qb | 2], qb] } }])
}
pub fn case_64(vars: &Vars) -> InferredGoal<DU, DE, Goal<DU, DE>> {
    let qa = vars.v[0].clone();
    let qb = vars.v[1].clone();
    let coll0: Vec<LT> = vec![lterm!([2])];
    proto_vulcan!([for e in &coll0 { _ == [e | qa] }])
}
pub fn case_65(vars: &Vars) -> InferredGoal<DU, DE, Goal<DU, DE>> {
    let qa = vars.v[0].clone();
    let qb = vars.v[1].clone();
    let coll0: Vec<LT> = vec![qb.clone()];
    proto_vulcan!([for e in &coll0 { [[[1]] == [[]], qb == [[e, 3], [] | e]] }])
}
pub fn case_66(vars: &Vars) -> InferredGoal<DU, DE, Goal<DU, DE>> {
    let qa = vars.v[0].clone();
    let qb = vars.v[1].clone();
    let coll0: Vec<LT> = vec![lterm!(1), qb.clone()];
    proto_vulcan!([qa == [qa | qb], for e in &coll0 { [1, e, ['b', 2, 2]] == [[], ["a", _, qb]] }])
}
pub fn case_67(vars: &Vars) -> InferredGoal<DU, DE, Goal<DU, DE>> {
    let qa = vars.v[0].clone();
    let qb = vars.v[1].clone();
    let coll0: Vec<LT> = vec![qa.clone()];
    proto_vulcan!([[[qa, []] | qb] == _, for e in &coll0 { |z, t| { z == [[true, t, "bc"]] } }])
}
pub fn case_68(vars: &Vars) -> InferredGoal<DU, DE, Goal<DU, DE>> {
    let qa = vars.v[0].clone();
    let qb = vars.v[1].clone();
    let coll0: Vec<LT> = vec![qb.clone(), qb.clone()];
    proto_vulcan!([for e in &coll0 { |h| { [1 | _] != [1] } }])
}
pub fn case_69(vars: &Vars) -> InferredGoal<DU, DE, Goal<DU, DE>> {
    let qa = vars.v[0].clone();
    let qb = vars.v[1].clone();
    let coll0: Vec<LT> = vec![lterm!(1), lterm!([1])];
    proto_vulcan!([[member(qb, [1])], for e in &coll0 { [true == qb] }])
}
pub fn case_70(vars: &Vars) -> InferredGoal<DU, DE, Goal<DU, DE>> {
    let qa = vars.v[0].clone();
    let qb = vars.v[1].clone();
    let coll0: Vec<LT> = vec![lterm!([2])];
    proto_vulcan!([_ == qb, for e in &coll0 { [[qb, _, []], 1, [2, qb, qa]] == qa }])
}
pub fn case_71(vars: &Vars) -> InferredGoal<DU, DE, Goal<DU, DE>> {
    let qa = vars.v[0].clone();
    let qb = vars.v[1].clone();
    let coll0: Vec<LT> = vec![qb.clone(), lterm!(3)];
    proto_vulcan!([for e in &coll0 { qa != [[_]] }])
}
pub fn case_72(vars: &Vars) -> InferredGoal<DU, DE, Goal<DU, DE>> {
    let qa = vars.v[0].clone();
    let qb = vars.v[1].clone();
    let coll0: Vec<LT> = vec![qb.clone()];
    proto_vulcan!([for e in &coll0 { |y, h| { true, qa == e, [[2, h, 3] | "bc"] == y }, qb == [[qa]] }])
}
pub fn case_73(vars: &Vars) -> InferredGoal<DU, DE, Goal<DU, DE>> {
    let qa = vars.v[0].clone();
    let qb = vars.v[1].clone();
    let coll0: Vec<LT> = vec![];
    proto_vulcan!([[["bc" | qb] | qb] == [1], for e in &coll0 { conde { [[qa, qb | qb] == qb, member(qa, [1])], 1 == qb } }])
}
pub fn case_74(vars: &Vars) -> InferredGoal<DU, DE, Goal<DU, DE>> {
    let qa = vars.v[0].clone();
    let qb = vars.v[1].clone();
    let coll0: Vec<LT> = vec![lterm!([2])];
    proto_vulcan!([for e in &coll0 { _ != [[1, qa] | qa], false }])
}
pub fn case_75(vars: &Vars) -> InferredGoal<DU, DE, Goal<DU, DE>> {
    let qa = vars.v[0].clone();
    let qb = vars.v[1].clone();
    let coll0: Vec<LT> = vec![];
    proto_vulcan!([for e in &coll0 { conde { 1 == e, false, [e != e, qa == qa] }, |z| { member(z, [2, 1, 3]) } }])
}
pub fn case_76(vars: &Vars) -> InferredGoal<DU, DE, Goal<DU, DE>> {
    let qa = vars.v[0].clone();
    let qb = vars.v[1].clone();
    let coll0: Vec<LT> = vec![lterm!(3), lterm!(2)];
    proto_vulcan!([for e in &coll0 { e == e }])
}
pub fn case_77(vars: &Vars) -> InferredGoal<DU, DE, Goal<DU, DE>> {
    let qa = vars.v[0].clone();
    let qb = vars.v[1].clone();
    let coll0: Vec<LT> = vec![];
    proto_vulcan!([conde { qa != 3, 1 != qa }, for e in &coll0 { member(qb, [3, 2, 2]), qb != [[qb, false, qb], 3, [2, 2, qa]] }])
}
pub fn case_78(vars: &Vars) -> InferredGoal<DU, DE, Goal<DU, DE>> {
    let qa = vars.v[0].clone();
    let qb = vars.v[1].clone();
    let coll0: Vec<LT> = vec![lterm!(1), lterm!(3)];
    proto_vulcan!([for e in &coll0 { conde { [[qa], [qb, []]] == qb, [qb == "bc", e == qb], [e != e, e == qa] } }])
}
pub fn case_79(vars: &Vars) -> InferredGoal<DU, DE, Goal<DU, DE>> {
    let qa = vars.v[0].clone();
    let qb = vars.v[1].clone();
    let coll0: Vec<LT> = vec![lterm!(3)];
    proto_vulcan!([[[3, false | 2], [3, qb | qa], 1] == qa, for e in &coll0 { [[e, "bc" | e], [qa, 2]] == e, qa != [3 | e] }])
}
pub fn case_80(vars: &Vars) -> InferredGoal<DU, DE, Goal<DU, DE>> {
    let qa = vars.v[0].clone();
    let qb = vars.v[1].clone();
    let coll0: Vec<LT> = vec![];
    proto_vulcan!([member(qb, []), for e in &coll0 { [qa == 1, qb == 3], qa == e }])
}
pub fn case_81(vars: &Vars) -> InferredGoal<DU, DE, Goal<DU, DE>> {
    let qa = vars.v[0].clone();
    let qb = vars.v[1].clone();
    let coll0: Vec<LT> = vec![];
    proto_vulcan!([for e in &coll0 { conde { member(qa, []), 1 == [[[], qb], qb], false } }])
}
pub fn case_82(vars: &Vars) -> InferredGoal<DU, DE, Goal<DU, DE>> {
    let qa = vars.v[0].clone();
    let qb = vars.v[1].clone();
    let coll0: Vec<LT> = vec![];
    proto_vulcan!([[2 == qa, true], for e in &coll0 { append(qb, e, []), 'a' == qb }])
}
pub fn case_83(vars: &Vars) -> InferredGoal<DU, DE, Goal<DU, DE>> {
    let qa = vars.v[0].clone();
    let qb = vars.v[1].clone();
    let coll0: Vec<LT> = vec![qa.clone()];
    proto_vulcan!([for e in &coll0 { |t| { append(e, t, [1, 1]) }, [e, [[], true, 2], false] == qb }])
}
pub fn case_84(vars: &Vars) -> InferredGoal<DU, DE, Goal<DU, DE>> {
    let qa = vars.v[0].clone();
    let qb = vars.v[1].clone();
    let coll0: Vec<LT> = vec![lterm!(2), lterm!([1]), qa.clone()];
    proto_vulcan!([for e in &coll0 { _ == qa }])
}
pub fn case_85(vars: &Vars) -> InferredGoal<DU, DE, Goal<DU, DE>> {
    let qa = vars.v[0].clone();
    let qb = vars.v[1].clone();
    let coll0: Vec<LT> = vec![];
    proto_vulcan!([[[qb, _, _ | qa]] == qa, for e in &coll0 { [[] | qb] != 3 }])
}
pub fn case_86(vars: &Vars) -> InferredGoal<DU, DE, Goal<DU, DE>> {
    let qa = vars.v[0].clone();
    let qb = vars.v[1].clone();
    let coll0: Vec<LT> = vec![lterm!(3), lterm!([2])];
    proto_vulcan!([qb == 2, for e in &coll0 { qa == [[[] | qa]] }])
}
pub fn case_87(vars: &Vars) -> InferredGoal<DU, DE, Goal<DU, DE>> {
    let qa = vars.v[0].clone();
    let qb = vars.v[1].clone();
    let coll0: Vec<LT> = vec![lterm!(1)];
    proto_vulcan!([for e in &coll0 { conde { [[[e, 'a' | e]] == qb, append(qa, e, [])], [[qb, qa, _], [3, _] | qa] != e, [[['a'], e, qa] == qa, [[qb, 2, _ | e], qb, e | qb] == [[2, e | qb], 2, 1 | qb]] }, true }])
}
pub fn case_88(vars: &Vars) -> InferredGoal<DU, DE, Goal<DU, DE>> {
    let qa = vars.v[0].clone();
    let qb = vars.v[1].clone();
    let coll0: Vec<LT> = vec![lterm!(3)];
    proto_vulcan!([|z| { member(qb, []) }, for e in &coll0 { |x| { qa != [x | x], [[_, x | e], 1] == _, x != qa } }])
}
pub fn case_89(vars: &Vars) -> InferredGoal<DU, DE, Goal<DU, DE>> {
    let qa = vars.v[0].clone();
    let qb = vars.v[1].clone();
    let coll0: Vec<LT> = vec![qa.clone()];
    proto_vulcan!([[] == [qb, qb | 2], for e in &coll0 { conde { [[[qa, qb, 1 | qb]] == qa, true], [qa == qa, member(qb, [])] }, [true, qa == qb, true] }])
}
pub fn case_90(vars: &Vars) -> InferredGoal<DU, DE, Goal<DU, DE>> {
    let qa = vars.v[0].clone();
    let qb = vars.v[1].clone();
    let coll0: Vec<LT> = vec![qa.clone(), lterm!(1), lterm!([2])];
    proto_vulcan!([for e in &coll0 { append(e, qb, [1]), false == e }])
}
pub fn case_91(vars: &Vars) -> InferredGoal<DU, DE, Goal<DU, DE>> {
    let qa = vars.v[0].clone();
    let qb = vars.v[1].clone();
    let coll0: Vec<LT> = vec![];
    proto_vulcan!([for e in &coll0 { [qb, qb] != e }])
}
pub fn case_92(vars: &Vars) -> InferredGoal<DU, DE, Goal<DU, DE>> {
    let qa = vars.v[0].clone();
    let qb = vars.v[1].clone();
    let coll0: Vec<LT> = vec![lterm!([2])];
    proto_vulcan!([qa == 1, for e in &coll0 { qb == [[2]], qb != [] }])
}
pub fn case_93(vars: &Vars) -> InferredGoal<DU, DE, Goal<DU, DE>> {
    let qa = vars.v[0].clone();
    let qb = vars.v[1].clone();
    let coll0: Vec<LT> = vec![];
    proto_vulcan!([|z| { member(qb, [3, 2]), member(z, [1, 1]) }, for e in &coll0 { [2] == ['a', e], conde { append(e, e, [2, 1]), [2] == [['b', []] | e] } }])
}
pub fn case_94(vars: &Vars) -> InferredGoal<DU, DE, Goal<DU, DE>> {
    let qa = vars.v[0].clone();
    let qb = vars.v[1].clone();
    let coll0: Vec<LT> = vec![];
    proto_vulcan!([|h| { [[3, false | qa] | qa] == qb, [h, [[], 3 | qb] | qb] == qb }, for e in &coll0 { qb == [[[]], _, [3, 1, qb | qb]], |x, y| { qb == 3 } }])
}
pub fn case_95(vars: &Vars) -> InferredGoal<DU, DE, Goal<DU, DE>> {
    let qa = vars.v[0].clone();
    let qb = vars.v[1].clone();
    let coll0: Vec<LT> = vec![];
    proto_vulcan!([for e in &coll0 { [qa == [[1, []], [2, qb]], 2 == qb] }])
}
pub fn case_96(vars: &Vars) -> InferredGoal<DU, DE, Goal<DU, DE>> {
    let qa = vars.v[0].clone();
    let qb = vars.v[1].clone();
    let coll0: Vec<LT> = vec![];
    proto_vulcan!([for e in &coll0 { qa == [[1 | 1], [1, qb, 2 | 2] | e], append(e, qb, [3]) }])
}
pub fn case_97(vars: &Vars) -> InferredGoal<DU, DE, Goal<DU, DE>> {
    let qa = vars.v[0].clone();
    let qb = vars.v[1].clone();
    let coll0: Vec<LT> = vec![lterm!(2), qb.clone(), lterm!(1)];
    proto_vulcan!([1 == qa, for e in &coll0 { qa == [_ | e], conde { [[2, [e], [2, 1, qa] | e] == qa, 'b' != [e, [qa] | qb]], 1 != [e, [[], e] | qa], [false, true] } }])
}
pub fn case_98(vars: &Vars) -> InferredGoal<DU, DE, Goal<DU, DE>> {
    let qa = vars.v[0].clone();
    let qb = vars.v[1].clone();
    let coll0: Vec<LT> = vec![lterm!(2)];
    proto_vulcan!([member(qa, []), for e in &coll0 { [qa != [[2, [] | _]], append(qa, qb, [3, 1])] }])
}
pub fn case_99(vars: &Vars) -> InferredGoal<DU, DE, Goal<DU, DE>> {
    let qa = vars.v[0].clone();
    let qb = vars.v[1].clone();
    let coll0: Vec<LT> = vec![];
    proto_vulcan!([for e in &coll0 { conde { [[[[] | qa], e, ['a', 3 | qa]] == qb, [] == qb], [member(e, []), true], [[e], "a", qb | qb] == 1 } }])
}
pub fn case_100(vars: &Vars) -> InferredGoal<DU, DE, Goal<DU, DE>> {
    let qa = vars.v[0].clone();
    let qb = vars.v[1].clone();
    let coll0: Vec<LT> = vec![lterm!(1)];
    proto_vulcan!([[["bc", 2, 3] | qa] == qb, for e in &coll0 { [qa != qa, 'b' == e, qa != [2]] }])
}
pub fn case_101(vars: &Vars) -> InferredGoal<DU, DE, Goal<DU, DE>> {
    let qa = vars.v[0].clone();
    let qb = vars.v[1].clone();
    let coll0: Vec<LT> = vec![lterm!([1]), lterm!(2), lterm!(3)];
    proto_vulcan!([[[qa, 2], [qb, 1, []]] == [[3, qa], [_], qa], for e in &coll0 { [] == e, true }])
}
pub fn case_102(vars: &Vars) -> InferredGoal<DU, DE, Goal<DU, DE>> {
    let qa = vars.v[0].clone();
    let qb = vars.v[1].clone();
    let coll0: Vec<LT> = vec![];
    proto_vulcan!([for e in &coll0 { |x| { e != [_, [2] | e] } }])
}
pub fn case_103(vars: &Vars) -> InferredGoal<DU, DE, Goal<DU, DE>> {
    let qa = vars.v[0].clone();
    let qb = vars.v[1].clone();
    let coll0: Vec<LT> = vec![qb.clone(), lterm!(1), qb.clone()];
    proto_vulcan!([for e in &coll0 { qa != _ }])
}
pub fn case_104(vars: &Vars) -> InferredGoal<DU, DE, Goal<DU, DE>> {
    let qa = vars.v[0].clone();
    let qb = vars.v[1].clone();
    let coll0: Vec<LT> = vec![lterm!([1]), lterm!(2)];
    proto_vulcan!([conde { qa == 1, [qa == [[[]], [qb, []]], true] }, for e in &coll0 { |z| { [[2] | qa] == e }, qb == [] }])
}
pub fn case_105(vars: &Vars) -> InferredGoal<DU, DE, Goal<DU, DE>> {
    let qa = vars.v[0].clone();
    let qb = vars.v[1].clone();
    let coll0: Vec<LT> = vec![lterm!(2), lterm!(3), qb.clone()];
    proto_vulcan!([conde { true, [[qa, [2] | 1] != qa, member(qb, [3, 3])] }, for e in &coll0 { 'b' == [[qb, 3]], [false, append(e, e, [])] }])
}
pub fn case_106(vars: &Vars) -> InferredGoal<DU, DE, Goal<DU, DE>> {
    let qa = vars.v[0].clone();
    let qb = vars.v[1].clone();
    let coll0: Vec<LT> = vec![lterm!(3), lterm!(1), lterm!([2])];
    proto_vulcan!([|z, y| { [[[], 1], [qa], [[], qb, 2 | 1]] != qb }, for e in &coll0 { append(e, qa, []), 3 == qa }])
}
pub fn case_107(vars: &Vars) -> InferredGoal<DU, DE, Goal<DU, DE>> {
    let qa = vars.v[0].clone();
    let qb = vars.v[1].clone();
    let coll0: Vec<LT> = vec![lterm!(2)];
    proto_vulcan!([for e in &coll0 { qb == e, [[1, qa, qa], [2, qb, e], ["bc" | qa]] == qb }])
}
pub fn case_108(vars: &Vars) -> InferredGoal<DU, DE, Goal<DU, DE>> {
    let qa = vars.v[0].clone();
    let qb = vars.v[1].clone();
    let coll0: Vec<LT> = vec![];
    proto_vulcan!([for e in &coll0 { _ == 2 }])
}
pub fn case_109(vars: &Vars) -> InferredGoal<DU, DE, Goal<DU, DE>> {
    let qa = vars.v[0].clone();
    let qb = vars.v[1].clone();
    let coll0: Vec<LT> = vec![];
    proto_vulcan!([|y, t| { false, [[3, y, qb], [y, qb]] == t, member(qa, []) }, for e in &coll0 { qb == [[3, true, []], [[], [], 3 | qa]] }])
}
pub fn case_110(vars: &Vars) -> InferredGoal<DU, DE, Goal<DU, DE>> {
    let qa = vars.v[0].clone();
    let qb = vars.v[1].clone();
    let coll0: Vec<LT> = vec![];
    proto_vulcan!([for e in &coll0 { qa != e }])
}
pub fn case_111(vars: &Vars) -> InferredGoal<DU, DE, Goal<DU, DE>> {
    let qa = vars.v[0].clone();
    let qb = vars.v[1].clone();
    let coll0: Vec<LT> = vec![lterm!(3), lterm!(2)];
    proto_vulcan!([for e in &coll0 { [2, _, [e]] == e, member(e, [1, 1, 2]) }])
}
pub fn case_112(vars: &Vars) -> InferredGoal<DU, DE, Goal<DU, DE>> {
    let qa = vars.v[0].clone();
    let qb = vars.v[1].clone();
    let coll0: Vec<LT> = vec![lterm!(1), lterm!(2)];
    proto_vulcan!([for e in &coll0 { 1 == [[qb], [e, 1], 3] }])
}
pub fn case_113(vars: &Vars) -> InferredGoal<DU, DE, Goal<DU, DE>> {
    let qa = vars.v[0].clone();
    let qb = vars.v[1].clone();
    let coll0: Vec<LT> = vec![qa.clone()];
    proto_vulcan!([|h, x| { member(x, [1, 1]), [[_, qa], h, ["bc", h] | h] == h }, for e in &coll0 { [[2, 2 | qb], _, 1] != e }])
}
pub fn case_114(vars: &Vars) -> InferredGoal<DU, DE, Goal<DU, DE>> {
    let qa = vars.v[0].clone();
    let qb = vars.v[1].clone();
    let coll0: Vec<LT> = vec![lterm!([1])];
    proto_vulcan!([[] == [[true, 1, _], ["bc", qb, qa | 3]], for e in &coll0 { [qb, [3]] == [1, [e], [qa, 3 | 3]] }])
}
pub fn case_115(vars: &Vars) -> InferredGoal<DU, DE, Goal<DU, DE>> {
    let qa = vars.v[0].clone();
    let qb = vars.v[1].clone();
    let coll0: Vec<LT> = vec![lterm!(3)];
    proto_vulcan!([for e in &coll0 { "a" == ['a', [e, _, []], [[]] | e] }])
}
pub fn case_116(vars: &Vars) -> InferredGoal<DU, DE, Goal<DU, DE>> {
    let qa = vars.v[0].clone();
    let qb = vars.v[1].clone();
    let coll0: Vec<LT> = vec![];
    proto_vulcan!([|x| { [_, [1, qb, [] | 2], qa] == qa, append(x, qb, []), qb != qa }, for e in &coll0 { |z, x| { member(qb, [1, 1]), qa == _ }, [] != [[qa, []], e, [1]] }])
}
pub fn case_117(vars: &Vars) -> InferredGoal<DU, DE, Goal<DU, DE>> {
    let qa = vars.v[0].clone();
    let qb = vars.v[1].clone();
    let coll0: Vec<LT> = vec![];
    proto_vulcan!([for e in &coll0 { conde { [3 == qa, qa != [2, [[]]]], qb == ["a"], [member(qb, [2, 1]), [[1, qa], [[], 1] | qb] == qb] }, [[qb, "bc", qb | qa], false | qa] == qb }])
}
pub fn case_118(vars: &Vars) -> InferredGoal<DU, DE, Goal<DU, DE>> {
    let qa = vars.v[0].clone();
    let qb = vars.v[1].clone();
    let coll0: Vec<LT> = vec![];
    proto_vulcan!([for e in &coll0 { [[], [qb], [1, 2, qb | qa] | qb] == qb, [3, [false, 1 | 'a']] != [[e], _ | qb] }])
}
pub fn case_119(vars: &Vars) -> InferredGoal<DU, DE, Goal<DU, DE>> {
    let qa = vars.v[0].clone();
    let qb = vars.v[1].clone();
    let coll0: Vec<LT> = vec![lterm!([1])];
    proto_vulcan!([for e in &coll0 { member(qb, [2]) }])
}
pub fn case_120(vars: &Vars) -> InferredGoal<DU, DE, Goal<DU, DE>> {
    let qa = vars.v[0].clone();
    let qb = vars.v[1].clone();
    let coll0: Vec<LT> = vec![lterm!(3)];
    proto_vulcan!([for e in &coll0 { qb == e, conde { [true, 2 == e], member(e, [3, 3]) } }])
}
pub fn case_121(vars: &Vars) -> InferredGoal<DU, DE, Goal<DU, DE>> {
    let qa = vars.v[0].clone();
    let qb = vars.v[1].clone();
    let coll0: Vec<LT> = vec![lterm!(3)];
    proto_vulcan!([[member(qa, [2, 3, 2]), true, member(qa, [])], for e in &coll0 { e == [[qa, true | true], [[], 2], []] }])
}
pub fn case_122(vars: &Vars) -> InferredGoal<DU, DE, Goal<DU, DE>> {
    let qa = vars.v[0].clone();
    let qb = vars.v[1].clone();
    let coll0: Vec<LT> = vec![lterm!(2)];
    proto_vulcan!([qb == qb, for e in &coll0 { append(qb, qa, []), e != [[[], _], qb, [qa, 1, []]] }])
}
pub fn case_123(vars: &Vars) -> InferredGoal<DU, DE, Goal<DU, DE>> {
    let qa = vars.v[0].clone();
    let qb = vars.v[1].clone();
    let coll0: Vec<LT> = vec![lterm!([1])];
    proto_vulcan!([for e in &coll0 { e != false }])
}
pub fn case_124(vars: &Vars) -> InferredGoal<DU, DE, Goal<DU, DE>> {
    let qa = vars.v[0].clone();
    let qb = vars.v[1].clone();
    let coll0: Vec<LT> = vec![lterm!(1), lterm!([2])];
    proto_vulcan!([qb != [[], 1], for e in &coll0 { 1 == e, |z| { true, [qa, [1]] == e } }])
}
pub fn case_125(vars: &Vars) -> InferredGoal<DU, DE, Goal<DU, DE>> {
    let qa = vars.v[0].clone();
    let qb = vars.v[1].clone();
    let coll0: Vec<LT> = vec![qa.clone(), qb.clone()];
    proto_vulcan!([|t, x| { append(qa, qb, []), false, [t, t, [1, x | qb]] != x }, for e in &coll0 { member(qb, [2]) }])
}
pub fn case_126(vars: &Vars) -> InferredGoal<DU, DE, Goal<DU, DE>> {
    let qa = vars.v[0].clone();
    let qb = vars.v[1].clone();
    let coll0: Vec<LT> = vec![lterm!(2)];
    proto_vulcan!([true, for e in &coll0 { [] == qa, e == e }])
}
pub fn case_127(vars: &Vars) -> InferredGoal<DU, DE, Goal<DU, DE>> {
    let qa = vars.v[0].clone();
    let qb = vars.v[1].clone();
    let coll0: Vec<LT> = vec![lterm!(3), qb.clone(), qb.clone()];
    proto_vulcan!([[['a', 'a' | qa], [qa, 3], [[], 1, qb | qb]] == qa, for e in &coll0 { conde { [[] == _, [[_, e, 'b' | 1], e] == qb], qb == 1 } }])
}
pub fn case_128(vars: &Vars) -> InferredGoal<DU, DE, Goal<DU, DE>> {
    let qa = vars.v[0].clone();
    let qb = vars.v[1].clone();
    let coll0: Vec<LT> = vec![];
    proto_vulcan!([for e in &coll0 { 3 == [], conde { 1 != [e, [2, qb | qa], [qb, 'a'] | qa], [[[1, e, []] | qa] != qb, false], [e == e, [[e, _], [[], _]] == ['a', [], [e, e, e]]] } }])
}
pub fn case_129(vars: &Vars) -> InferredGoal<DU, DE, Goal<DU, DE>> {
    let qa = vars.v[0].clone();
    let qb = vars.v[1].clone();
    let coll0: Vec<LT> = vec![];
    proto_vulcan!([for e in &coll0 { |h, z| { [] == qa, false != z }, qb != 3 }])
}
pub fn case_130(vars: &Vars) -> InferredGoal<DU, DE, Goal<DU, DE>> {
    let qa = vars.v[0].clone();
    let qb = vars.v[1].clone();
    let coll0: Vec<LT> = vec![lterm!(3), lterm!([2]), qa.clone()];
    proto_vulcan!([conde { [qa == [[_, 'b', qb], qa], [[qb], qb | qb] == qb], qb == [[_, qb], qa] }, for e in &coll0 { [e == 1, qb != "bc", append(qb, qa, [1])], [[[]], true] == e }])
}
pub fn case_131(vars: &Vars) -> InferredGoal<DU, DE, Goal<DU, DE>> {
    let qa = vars.v[0].clone();
    let qb = vars.v[1].clone();
    let coll0: Vec<LT> = vec![lterm!(3), qb.clone(), lterm!(3)];
    proto_vulcan!([qa == [], for e in &coll0 { conde { member(e, [1, 2, 2]), [false, append(qb, e, [1, 2])] }, [e, [e, 'b', e | qa], [e]] == qb }])
}
pub fn case_132(vars: &Vars) -> InferredGoal<DU, DE, Goal<DU, DE>> {
    let qa = vars.v[0].clone();
    let qb = vars.v[1].clone();
    let coll0: Vec<LT> = vec![];
    proto_vulcan!([for e in &coll0 { e == ["bc", _, qb] }])
}
pub fn case_133(vars: &Vars) -> InferredGoal<DU, DE, Goal<DU, DE>> {
    let qa = vars.v[0].clone();
    let qb = vars.v[1].clone();
    let coll0: Vec<LT> = vec![lterm!(3), lterm!(3), lterm!(3)];
    proto_vulcan!([for e in &coll0 { [e == [qb, 'b', [qa, 3, false | 2]], append(e, qb, [1])], qb != [1, [e, qa]] }])
}
pub fn case_134(vars: &Vars) -> InferredGoal<DU, DE, Goal<DU, DE>> {
    let qa = vars.v[0].clone();
    let qb = vars.v[1].clone();
    let coll0: Vec<LT> = vec![];
    proto_vulcan!([for e in &coll0 { qa != [_, []], qa == qb }])
}
pub fn case_135(vars: &Vars) -> InferredGoal<DU, DE, Goal<DU, DE>> {
    let qa = vars.v[0].clone();
    let qb = vars.v[1].clone();
    let coll0: Vec<LT> = vec![lterm!(2)];
    proto_vulcan!([for e in &coll0 { [[[2, e], 'b', 3] != qa, append(qb, qb, []), true] }])
}
pub fn case_136(vars: &Vars) -> InferredGoal<DU, DE, Goal<DU, DE>> {
    let qa = vars.v[0].clone();
    let qb = vars.v[1].clone();
    let coll0: Vec<LT> = vec![qa.clone(), lterm!(1), lterm!(3)];
    proto_vulcan!([qa != [qa, [], qa], for e in &coll0 { ["bc", 1] == qb }])
}
pub fn case_137(vars: &Vars) -> InferredGoal<DU, DE, Goal<DU, DE>> {
    let qa = vars.v[0].clone();
    let qb = vars.v[1].clone();
    let coll0: Vec<LT> = vec![lterm!([1]), lterm!(1), lterm!([1])];
    proto_vulcan!([for e in &coll0 { [[2, qa], [2, 1, 'a'] | 2] == 2, [] == qb }])
}
pub fn case_138(vars: &Vars) -> InferredGoal<DU, DE, Goal<DU, DE>> {
    let qa = vars.v[0].clone();
    let qb = vars.v[1].clone();
    let coll0: Vec<LT> = vec![lterm!([1])];
    proto_vulcan!([for e in &coll0 { conde { [[qa, qb, 3], [e, [] | qb] | e] != qa, [[2, [], [qb | e] | qa] == qb, qa == [["a", []]]], [append(e, e, [1, 3]), e != 'b'] } }])
}
pub fn case_139(vars: &Vars) -> InferredGoal<DU, DE, Goal<DU, DE>> {
    let qa = vars.v[0].clone();
    let qb = vars.v[1].clone();
    let coll0: Vec<LT> = vec![lterm!([2])];
    proto_vulcan!([for e in &coll0 { |z, y| { qb == [[e, 2, y | qa], [y | e], [1 | qb]], _ != qa, [[_] | e] == qb }, [[qb, [qb], [[], true, qb]] == e] }])
}
pub fn case_140(vars: &Vars) -> InferredGoal<DU, DE, Goal<DU, DE>> {
    let x = vars.v[0].clone();
    proto_vulcan!([match x { [x | _] => x == 1, }])
}
pub fn case_141(vars: &Vars) -> InferredGoal<DU, DE, Goal<DU, DE>> {
    let x = vars.v[0].clone();
    let y = vars.v[1].clone();
    proto_vulcan!([match x { [h, h] => h == y, }])
}
pub fn case_142(vars: &Vars) -> InferredGoal<DU, DE, Goal<DU, DE>> {
    let x = vars.v[0].clone();
    proto_vulcan!([match x { [] | [_] => , [_, _ | t] => t == [], }])
}
pub fn case_143(vars: &Vars) -> InferredGoal<DU, DE, Goal<DU, DE>> {
    let x = vars.v[0].clone();
    let y = vars.v[1].clone();
    proto_vulcan!([member(x, [1, 2]), matcha x { 1 => y == 10, _ => y == 20, }])
}
pub fn case_144(vars: &Vars) -> InferredGoal<DU, DE, Goal<DU, DE>> {
    let x = vars.v[0].clone();
    let y = vars.v[1].clone();
    proto_vulcan!([matchu [x, y] { [h, _] => member(h, [1, 2]), _ => , }])
}
pub fn case_145(vars: &Vars) -> InferredGoal<DU, DE, Goal<DU, DE>> {
    let x = vars.v[0].clone();
    proto_vulcan!([matche x { 1 | z => { [x == [x, _, 2]], [member(x, [1, 3]), false, x != [[x, 1, 2], [x, 1, 3 | x]]] }, }])
}
pub fn case_146(vars: &Vars) -> InferredGoal<DU, DE, Goal<DU, DE>> {
    let q = vars.v[0].clone();
    let x = vars.v[1].clone();
    proto_vulcan!([[q == []], matcha q { [[t, t] | x] | t => { [append(t, q, [])], q == [[[]], []] }, [[x]] => { x != ['b', [x] | x], [["a", x | 2]] == x }, [y, [2, x, z]] => true, }])
}
pub fn case_147(vars: &Vars) -> InferredGoal<DU, DE, Goal<DU, DE>> {
    let x = vars.v[0].clone();
    let y = vars.v[1].clone();
    proto_vulcan!([matchu x { 1 | [[_, 3, _], [[] | t], [1, t | _] | h] => , [[2, [] | y], [], 'a' | _] => , }])
}
pub fn case_148(vars: &Vars) -> InferredGoal<DU, DE, Goal<DU, DE>> {
    let x = vars.v[0].clone();
    proto_vulcan!([matcha x { [[x | t], x, 1 | _] => [|y| { append(x, x, [2, 3]) }, match t { ["bc"] => append(x, x, []), "a" => , }], [] => matchu x { [[1, 1], 1, ['a'] | t] | 1 => , [h, true] => [[[h, x, 1], ['b']] == x, true], }, }])
}
pub fn case_149(vars: &Vars) -> InferredGoal<DU, DE, Goal<DU, DE>> {
    let x = vars.v[0].clone();
    let y = vars.v[1].clone();
    proto_vulcan!([[true, [[y, [], x]] == [x, _, [x, "a", x] | x], true], matcha [1, 1 | x] { [[z]] => , [[[] | h], ["a", _, 1]] => , y | h => , }])
}
pub fn case_150(vars: &Vars) -> InferredGoal<DU, DE, Goal<DU, DE>> {
    let q = vars.v[0].clone();
    let x = vars.v[1].clone();
    proto_vulcan!([match 3 { y => , }])
}
pub fn case_151(vars: &Vars) -> InferredGoal<DU, DE, Goal<DU, DE>> {
    let x = vars.v[0].clone();
    proto_vulcan!([match x { [2] | [[x | t], 1] => , 2 => { [[2], [2 | x]] != [[[], _], x, [x] | x] }, y => [[2] == x, condu { "bc" == x }], }])
}
pub fn case_152(vars: &Vars) -> InferredGoal<DU, DE, Goal<DU, DE>> {
    let x = vars.v[0].clone();
    let y = vars.v[1].clone();
    proto_vulcan!([|t, h| { h == [[y, _] | h] }, matche x { [[1, z, 1 | _], [h, h, 'a' | _], z | false] => [x == [y], z == [[_, 2, x | z], [[], [], _]]], [[1 | x], [_, _], [1, _]] | t => matche y { 2 => { y == [[y, y, 3], y, 1 | 'b'], append(y, y, [2]) }, }, [['b', 2], [3 | _] | y] => , }])
}
pub fn case_153(vars: &Vars) -> InferredGoal<DU, DE, Goal<DU, DE>> {
    let x = vars.v[0].clone();
    let y = vars.v[1].clone();
    proto_vulcan!([member(y, [1, 3]), matche x { 2 | y => { onceo { x != [[3 | x], [2, 3 | x]] } }, }])
}
pub fn case_154(vars: &Vars) -> InferredGoal<DU, DE, Goal<DU, DE>> {
    let x = vars.v[0].clone();
    let y = vars.v[1].clone();
    proto_vulcan!([matcha y { z => { matcha y { [[[], x], [h | x], ['a', z] | 3] | z => { 1 == z }, [2, t] => { z != [[1, z, x]] }, }, matchu [z, z, _] { [['b', 1] | y] | [x, [y, t | _]] => [z != [[[]], false | z], z == [[2]]], [[t] | _] => , [[]] => { member(z, [1, 2, 1]) }, } }, [[1, h, []]] => { true }, }])
}
pub fn case_155(vars: &Vars) -> InferredGoal<DU, DE, Goal<DU, DE>> {
    let x = vars.v[0].clone();
    proto_vulcan!([x != x, matcha [2, _, x] { [_ | 1] | [3, h, [_, 1] | t] => , 1 | x => , }])
}
pub fn case_156(vars: &Vars) -> InferredGoal<DU, DE, Goal<DU, DE>> {
    let x = vars.v[0].clone();
    proto_vulcan!([condu { [[[_, x]] == _, append(x, x, [])], [false, true], [x] == [false, [_, x], _] }, matchu [x, 1, 1] { [[x], [[], 2]] => , }])
}
pub fn case_157(vars: &Vars) -> InferredGoal<DU, DE, Goal<DU, DE>> {
    let x = vars.v[0].clone();
    proto_vulcan!([matchu x { [h] => [match x { t => [append(t, h, [3]), t == [[2], [2, 1] | x]], }, |y| { true, x != x, y != [['a', x, 3 | y], [2, _, h | 1]] }], [] => , }])
}
pub fn case_158(vars: &Vars) -> InferredGoal<DU, DE, Goal<DU, DE>> {
    let q = vars.v[0].clone();
    let x = vars.v[1].clone();
    proto_vulcan!([|t| { t == [[q], x, _], [3 | 1] == t, x == [[t, x, x]] }, matcha q { _ => { [q, [2], [2, 3, [] | q]] == [q, [x, x, 1 | x]] }, x | [[x] | y] => [append(x, x, [3]), true], t => { conde { [[t, [[], t, x | q]] != q, t != [[], [2 | x], [x, 2 | q]]], [t != [[2 | q], [_, 3, q | q], [t] | 2], true], [true, false] }, x != 1 }, }])
}
pub fn case_159(vars: &Vars) -> InferredGoal<DU, DE, Goal<DU, DE>> {
    let x = vars.v[0].clone();
    proto_vulcan!([match x { [[_, 3], _, 'b'] => , [x, _] | _ => , [t, []] | [_, [3, t, x] | y] => , }])
}
pub fn case_160(vars: &Vars) -> InferredGoal<DU, DE, Goal<DU, DE>> {
    let q = vars.v[0].clone();
    let x = vars.v[1].clone();
    proto_vulcan!([matcha q { 'b' => , [[_], [_, _, h], _] | [[1], _, [h, h]] => { matcha q { [] | 'a' => , } }, }])
}
pub fn case_161(vars: &Vars) -> InferredGoal<DU, DE, Goal<DU, DE>> {
    let x = vars.v[0].clone();
    let y = vars.v[1].clone();
    proto_vulcan!([matcha x { 1 => [[_, y, x | 1]] == [x, x, y | y], [2] | [x, [z], false] => [matcha y { [[]] | [y, x | z] => , 2 => , }, y != [[y, "bc", _ | y], [y, y], [y, _]]], }])
}
pub fn case_162(vars: &Vars) -> InferredGoal<DU, DE, Goal<DU, DE>> {
    let q = vars.v[0].clone();
    let x = vars.v[1].clone();
    proto_vulcan!([matcha q { 2 => { |x, y| { q == q }, condu { [false, 2 == [2, [x, [], q], q | q]] } }, [[x, 1, t], y, y] => , [2, [z, _, 'a'] | h] | t => { conde { true, [[2, x], [3, 3] | 2] == q, append(q, q, [2]) } }, }])
}
pub fn case_163(vars: &Vars) -> InferredGoal<DU, DE, Goal<DU, DE>> {
    let x = vars.v[0].clone();
    let y = vars.v[1].clone();
    proto_vulcan!([conde { x == [1], [x == x, x == 2] }, matcha y { [[x, 3, 1], [[], 3, 2 | 3], 2] | [[x, 3, _], [z]] => { false, |t| { [[1 | 2], [t | x]] == [t], 2 == 'b', y == [2] } }, 'b' => , [[y, "a"] | true] => conda { false, [[y | 3] != y, [[y, y, 1 | y], [2, y, false] | x] == [[y, 1, 2 | y]]] }, }])
}
pub fn case_164(vars: &Vars) -> InferredGoal<DU, DE, Goal<DU, DE>> {
    let q = vars.v[0].clone();
    let x = vars.v[1].clone();
    proto_vulcan!([match [q, 3] { true | [x | _] => { [[[3 | q], [q], q | q] == q, q == [[1, q, 3 | q], [q]], true] }, [[_]] => { false }, x => , }])
}
pub fn case_165(vars: &Vars) -> InferredGoal<DU, DE, Goal<DU, DE>> {
    let q = vars.v[0].clone();
    let x = vars.v[1].clone();
    proto_vulcan!([[[q, ['b', x | q], [x, 'a', x] | q] == x, true, false], matchu q { [2, [2 | z], [3, [] | _] | _] => , [1] => { matchu q { [x | _] => { [[2, _, 'b']] == 2 }, [z, [z, 2, 1], [1, y | x]] => [member(z, [3, 3, 1]), true], } }, 'b' | z => { onceo { [true, [q, q] | "a"] != [_, [x, 2, 'b'], _] } }, }])
}
pub fn case_166(vars: &Vars) -> InferredGoal<DU, DE, Goal<DU, DE>> {
    let q = vars.v[0].clone();
    let x = vars.v[1].clone();
    proto_vulcan!([matche x { [[x | x], [1], t] => x == [[x], [q, x], _ | x], _ => onceo { append(x, q, [1]) }, [z | x] | z => , }])
}
pub fn case_167(vars: &Vars) -> InferredGoal<DU, DE, Goal<DU, DE>> {
    let x = vars.v[0].clone();
    proto_vulcan!([x == _, matche x { 2 => , [z, [t, t]] | 2 => , x => , }])
}
pub fn case_168(vars: &Vars) -> InferredGoal<DU, DE, Goal<DU, DE>> {
    let q = vars.v[0].clone();
    let x = vars.v[1].clone();
    proto_vulcan!([matchu x { [2, [1], 2 | _] | [[h], [y, y, y]] => [x == [[q, 1, x], [false, 2, []]], conda { [[2, 3, x | x], [q, 3, 1] | q] == x }], [3, [z, 1, y | t]] => , }])
}
pub fn case_169(vars: &Vars) -> InferredGoal<DU, DE, Goal<DU, DE>> {
    let x = vars.v[0].clone();
    let y = vars.v[1].clone();
    proto_vulcan!([matche x { [["bc", _ | x], 2] => { true }, [[1 | 2], [1], 1] | 3 => [append(y, x, [3]), [[x, y], [2, y], [x, 2, _]] == x], }])
}
pub fn case_170(vars: &Vars) -> InferredGoal<DU, DE, Goal<DU, DE>> {
    let x = vars.v[0].clone();
    let y = vars.v[1].clone();
    proto_vulcan!([conde { member(x, [3, 2, 2]), [] == x }, matche y { 3 | x => { [[y] | y] == y, |z, x| { member(y, [3, 3, 1]), 'a' == [x, [1, 3, 1], 1] } }, h => conde { y == [[3], _], true, [x, [y, _, []]] == y }, [z, [x], [[], x, []]] | [[z], [y | _], [t, [], y] | 2] => |z| { 2 != z, 'a' == z }, }])
}
pub fn case_171(vars: &Vars) -> InferredGoal<DU, DE, Goal<DU, DE>> {
    let x = vars.v[0].clone();
    proto_vulcan!([onceo { append(x, x, [3]) }, matchu x { [[z, t | y], []] | 2 => { [2, [x, x], [_, 2 | x]] == x }, }])
}
pub fn case_172(vars: &Vars) -> InferredGoal<DU, DE, Goal<DU, DE>> {
    let x = vars.v[0].clone();
    let y = vars.v[1].clone();
    proto_vulcan!([matchu [2] { [[1, [], x], 2] => , }])
}
pub fn case_173(vars: &Vars) -> InferredGoal<DU, DE, Goal<DU, DE>> {
    let q = vars.v[0].clone();
    let x = vars.v[1].clone();
    proto_vulcan!([matcha q { 1 => , }])
}
pub fn case_174(vars: &Vars) -> InferredGoal<DU, DE, Goal<DU, DE>> {
    let x = vars.v[0].clone();
    proto_vulcan!([conde { append(x, x, []), [x != x, member(x, [1, 1, 1])] }, matcha x { [3, 1, [_, 'a', 1]] => conde { [false, x != [["bc" | x], x | x]], [[[x | x], [_, []], 2] == x, [_, 'b'] != 2], [member(x, [3]), member(x, [2])] }, t => { match x { y => true, }, [true] }, [[[], 3, _] | 2] => [[3, 1, true], [1, x], [x, x]] != x, }])
}
pub fn case_175(vars: &Vars) -> InferredGoal<DU, DE, Goal<DU, DE>> {
    let q = vars.v[0].clone();
    let x = vars.v[1].clone();
    proto_vulcan!([match q { [[h | 2], [x, false, _], h] => , _ => , }])
}
pub fn case_176(vars: &Vars) -> InferredGoal<DU, DE, Goal<DU, DE>> {
    let q = vars.v[0].clone();
    let x = vars.v[1].clone();
    proto_vulcan!([|z| { x == _, [[x, _, 1] | z] == z, false }, matcha [x] { t | [[]] => { onceo { [[3], 2, x] != [2 | 3] }, conde { [append(q, q, [1, 1]), append(x, x, [2])], [x == q, [1 | x] == q], [x == x, [q, [1, [], 1 | q], [x, q | q]] == q] } }, }])
}
pub fn case_177(vars: &Vars) -> InferredGoal<DU, DE, Goal<DU, DE>> {
    let q = vars.v[0].clone();
    let x = vars.v[1].clone();
    proto_vulcan!([false, matche q { x => { [[q, x], 1] == q }, 1 => [[[], q], [x, 2]] == _, h => { [3, [[], h], ["a", h]] == h, q == [[1, h | x], [[], q]] }, }])
}
pub fn case_178(vars: &Vars) -> InferredGoal<DU, DE, Goal<DU, DE>> {
    let q = vars.v[0].clone();
    let x = vars.v[1].clone();
    proto_vulcan!([matcha q { [[1, y, []] | x] => match x { [[2, 'b', x] | h] | [[[]]] => { false, 'b' == q }, 1 => , }, }])
}
pub fn case_179(vars: &Vars) -> InferredGoal<DU, DE, Goal<DU, DE>> {
    let x = vars.v[0].clone();
    let y = vars.v[1].clone();
    proto_vulcan!([matchu [2, []] { 2 => , [_, 1, [1, t] | x] | [3] => { y != [_] }, }])
}
pub fn case_180(vars: &Vars) -> InferredGoal<DU, DE, Goal<DU, DE>> {
    let x = vars.v[0].clone();
    let y = vars.v[1].clone();
    proto_vulcan!([[append(y, y, [3, 1])], matche y { ['b', [x, _, [] | x], 1 | t] => [t, 3, [2, 2, x]] != y, }])
}
pub fn case_181(vars: &Vars) -> InferredGoal<DU, DE, Goal<DU, DE>> {
    let x = vars.v[0].clone();
    let y = vars.v[1].clone();
    proto_vulcan!([matche x { [z, [_, 2 | h]] => , t | [[z]] => { _ == ["a", y, ['a', 2 | x]], |h| { true } }, ["a", [z, _, y], [h, [], y]] => h == [3, [x], [_, 2] | x], }])
}
pub fn case_182(vars: &Vars) -> InferredGoal<DU, DE, Goal<DU, DE>> {
    let q = vars.v[0].clone();
    let x = vars.v[1].clone();
    proto_vulcan!([[q] == q, matchu x { [[x, t | x], [2] | _] => { matchu [2, 3, []] { [[[], h, y], [3, y, _]] => { [[], [true, q, y | x]] == t }, } }, }])
}
pub fn case_183(vars: &Vars) -> InferredGoal<DU, DE, Goal<DU, DE>> {
    let x = vars.v[0].clone();
    proto_vulcan!([[_, 1 | x] != [[x, 1, []], [2, x]], matche x { 1 => , y | [[2, z], z | z] => [x != x, [[], [3, []]] == [3, [x, x, _ | x], [x, x]]], [[3 | 1]] => , }])
}
pub fn case_184(vars: &Vars) -> InferredGoal<DU, DE, Goal<DU, DE>> {
    let x = vars.v[0].clone();
    let y = vars.v[1].clone();
    proto_vulcan!([matcha y { h => , }])
}
pub fn case_185(vars: &Vars) -> InferredGoal<DU, DE, Goal<DU, DE>> {
    let x = vars.v[0].clone();
    let y = vars.v[1].clone();
    proto_vulcan!([matche x { [[h], ["a" | t]] => [onceo { [x, [y]] == x }, |h| { [[h, 2 | h], [[], 2]] == h }], [[2, t], [y | _] | _] => { |z| { false }, y == y }, }])
}
pub fn case_186(vars: &Vars) -> InferredGoal<DU, DE, Goal<DU, DE>> {
    let x = vars.v[0].clone();
    let y = vars.v[1].clone();
    proto_vulcan!([match y { "bc" => , }])
}
pub fn case_187(vars: &Vars) -> InferredGoal<DU, DE, Goal<DU, DE>> {
    let x = vars.v[0].clone();
    let y = vars.v[1].clone();
    proto_vulcan!([condu { [x == [["bc"], [true]], append(x, x, [])] }, matche [1 | y] { [[2], _, [t, y | h]] => , x | [['b' | 1], _ | t] => { [[y | y], [] | y] == y }, }])
}
pub fn case_188(vars: &Vars) -> InferredGoal<DU, DE, Goal<DU, DE>> {
    let x = vars.v[0].clone();
    proto_vulcan!([[false, true == x, [[x, x]] != x], matcha x { h => { |t, z| { false, [h | x] == [_ | x], member(t, []) }, matchu x { 3 => { [[x]] == x, false }, [[1, 1, z] | h] => , z | [[], [h, y], [x, z, t]] => { append(z, z, [2, 2]) }, } }, }])
}
pub fn case_189(vars: &Vars) -> InferredGoal<DU, DE, Goal<DU, DE>> {
    let x = vars.v[0].clone();
    proto_vulcan!([|h| { false }, matche _ { [['a', y]] => [condu { member(y, [1, 2]), false, true }, |y, x| { member(y, [1, 2]) }], }])
}
pub fn case_190(vars: &Vars) -> InferredGoal<DU, DE, Goal<DU, DE>> {
    let x = vars.v[0].clone();
    let y = vars.v[1].clone();
    proto_vulcan!([matchu y { [] => { onceo { member(x, [1, 3, 2]) } }, [] | x => [append(y, y, [3, 2])], [3 | y] | [[z, _, x], [1, z] | y] => [true, [[1, y, y] | y] == y, y != [[y] | y]], }])
}
pub fn case_191(vars: &Vars) -> InferredGoal<DU, DE, Goal<DU, DE>> {
    let x = vars.v[0].clone();
    let y = vars.v[1].clone();
    proto_vulcan!([matchu y { [2] => , z => { x == [[1]], conda { [[y, y, 2], [_, x]] == x, z == [_ | z] } }, [[t], ["a"] | h] => { |z| { t == z }, |x, z| { member(x, [3, 2]), member(t, [1, 2, 2]) } }, }])
}
pub fn case_192(vars: &Vars) -> InferredGoal<DU, DE, Goal<DU, DE>> {
    let x = vars.v[0].clone();
    proto_vulcan!([matche [x] { [z, [3] | _] => [conde { [[] != [["a", x, 2], [], 1], [x, [x, []], z] == z], [x == [[z | z], [z, 1 | x]], 'b' == [3, [], [3, z | x]]] }, false], y => { [y, [x, false, 1], [2, 3 | x]] == ['b', x], member(x, [2]) }, [3, y, t] | 2 => true, }])
}
pub fn case_193(vars: &Vars) -> InferredGoal<DU, DE, Goal<DU, DE>> {
    let x = vars.v[0].clone();
    proto_vulcan!([onceo { [["a"], [[]], 2 | x] == x }, match x { [[t, y | y]] => [conde { 1 == [[true, t, 'b' | x], 1], 1 == y, true }, |h, x| { true, [t] != [x], h == 1 }], [[h, [], _ | x], [], 2 | t] | 2 => , [[[], z], ["bc", t, 1], [] | _] => onceo { t == x }, }])
}
pub fn case_194(vars: &Vars) -> InferredGoal<DU, DE, Goal<DU, DE>> {
    let q = vars.v[0].clone();
    let x = vars.v[1].clone();
    proto_vulcan!([matcha x { false => { x != x, matchu q { 3 => { member(x, [1]), _ == x }, [t] => , 1 => { true }, } }, }])
}
pub fn case_195(vars: &Vars) -> InferredGoal<DU, DE, Goal<DU, DE>> {
    let x = vars.v[0].clone();
    proto_vulcan!([match x { [] | 2 => x != [x, [x, 2, [] | x] | x], [[_, _, z | h]] => [[[], 2 | x] != [[x, h, h], [z, "a"]], [2 == false]], }])
}
pub fn case_196(vars: &Vars) -> InferredGoal<DU, DE, Goal<DU, DE>> {
    let x = vars.v[0].clone();
    proto_vulcan!([matche x { [[z], [[]] | _] => |z| { z == z, x == [[_] | x], z == [[[], x, "bc"] | 2] }, }])
}
pub fn case_197(vars: &Vars) -> InferredGoal<DU, DE, Goal<DU, DE>> {
    let q = vars.v[0].clone();
    let x = vars.v[1].clone();
    proto_vulcan!([|x, t| { 2 == x, t == x }, matche x { 1 | [[], t, 'a' | x] => [q != 3, q == [q]], 1 => { |z, y| { [[z, _, 1] | y] != z, q != q, append(x, z, []) }, conde { [q == [[3 | x]], [[1], q, [q] | q] == [1, ['a', 1, q] | q]], [false, x == q] } }, [[3, h, 2], [1, _, y], [[], z, x]] => [onceo { member(z, [3, 3, 3]) }, |t| { x != x, member(x, [3, 2, 1]), t == [x] }], }])
}
pub fn case_198(vars: &Vars) -> InferredGoal<DU, DE, Goal<DU, DE>> {
    let x = vars.v[0].clone();
    let y = vars.v[1].clone();
    proto_vulcan!([y == 2, match y { [[2, y, h]] => { true }, x => { match [_, y] { [[_], []] => { x == [[3, 3, 2]], x == [[x, false | x], [y, [], y | 3], _ | "bc"] }, } }, }])
}
pub fn case_199(vars: &Vars) -> InferredGoal<DU, DE, Goal<DU, DE>> {
    let q = vars.v[0].clone();
    let x = vars.v[1].clone();
    proto_vulcan!([matchu q { [false] | x => { [[q, q, q]] == [[q]] }, [[h, 2], []] => [2 != _, [q | h] == h], }])
}
pub fn case_200(vars: &Vars) -> InferredGoal<DU, DE, Goal<DU, DE>> {
    let q = vars.v[0].clone();
    let x = vars.v[1].clone();
    proto_vulcan!([q == 3, match q { [2, [y, _ | _] | h] | [[x, 2, 3], [h, [] | x], y] => [true, false], }])
}
pub fn case_201(vars: &Vars) -> InferredGoal<DU, DE, Goal<DU, DE>> {
    let x = vars.v[0].clone();
    proto_vulcan!([matchu x { [[1], x, [true, 1, 1] | _] => , }])
}
pub fn case_202(vars: &Vars) -> InferredGoal<DU, DE, Goal<DU, DE>> {
    let x = vars.v[0].clone();
    let y = vars.v[1].clone();
    proto_vulcan!([y == "a", matche [] { t => , 2 => [_ != [], |x, h| { false, member(h, [1, 1]) }], _ => , }])
}
pub fn case_203(vars: &Vars) -> InferredGoal<DU, DE, Goal<DU, DE>> {
    let x = vars.v[0].clone();
    let y = vars.v[1].clone();
    proto_vulcan!([matchu x { [[true, 3, _]] | [[z], [z, [], false | x] | t] => { |t| { [y, [y, y], [y, t]] == t } }, t | [[2 | h]] => , y | [[h, _, t], [_, []]] => [append(x, x, []), 1 == [1, [x, false, x], x]], }])
}
pub fn case_204(vars: &Vars) -> InferredGoal<DU, DE, Goal<DU, DE>> {
    let q = vars.v[0].clone();
    let x = vars.v[1].clone();
    proto_vulcan!([|h| { 3 == x, h != [q, [1, []]], 2 != [2] }, match x { [[3 | 2]] | [[[] | h], ['a'], 2 | _] => { x == x, |z| { true, member(q, [3, 1, 2]), [[]] != z } }, 'a' => , }])
}
pub fn case_205(vars: &Vars) -> InferredGoal<DU, DE, Goal<DU, DE>> {
    let q = vars.v[0].clone();
    let x = vars.v[1].clone();
    proto_vulcan!([matchu [true, 'b' | q] { [[2 | 2] | t] => , [_ | 3] => , [[1, x] | z] => , }])
}
pub fn case_206(vars: &Vars) -> InferredGoal<DU, DE, Goal<DU, DE>> {
    let x = vars.v[0].clone();
    proto_vulcan!([onceo { false }, matche x { [1] => , [[[] | z]] | [[y | t]] => { 2 == x, |t, y| { [[], ['b']] == 2, false, x == 2 } }, [[[], []], [y]] => , }])
}
pub fn case_207(vars: &Vars) -> InferredGoal<DU, DE, Goal<DU, DE>> {
    let q = vars.v[0].clone();
    let x = vars.v[1].clone();
    proto_vulcan!([matchu q { [x, [1, x], [h, y]] => { condu { append(x, y, [1]), [[2, h] | q] != [[q, 2], [x, h, y], [q, 3, h]], [false, false] }, "a" != 2 }, _ => [[[x, x]] != x, false], }])
}
pub fn case_208(vars: &Vars) -> InferredGoal<DU, DE, Goal<DU, DE>> {
    let x = vars.v[0].clone();
    proto_vulcan!([x != [[x], 3], matche x { [1, [true, t, h | y], [1, 1 | t] | x] => y != [1], _ => { x == x }, }])
}
pub fn case_209(vars: &Vars) -> InferredGoal<DU, DE, Goal<DU, DE>> {
    let q = vars.v[0].clone();
    let x = vars.v[1].clone();
    proto_vulcan!([|y, t| { true, append(y, x, [3]) }, match [3, x, [] | x] { [[1, h, 1 | x] | z] => , [t] => , [[t, [], 1], [false | t], z] => { match t { [[h], h] | 2 => [[[2, t]] == z, false], } }, }])
}
pub fn case_210(vars: &Vars) -> InferredGoal<DU, DE, Goal<DU, DE>> {
    let q = vars.v[0].clone();
    let x = vars.v[1].clone();
    proto_vulcan!([|y| { x == [["bc", y]], true }, matche x { [h, _ | x] | h => [q != [[_], [_, 2], [[]] | q], |y, t| { h == [[2, y, 1 | t]], t == [1, [1, h] | h], false }], h => , [z] => |x| { z == [z], append(q, x, [1]) }, }])
}
pub fn case_211(vars: &Vars) -> InferredGoal<DU, DE, Goal<DU, DE>> {
    let q = vars.v[0].clone();
    let x = vars.v[1].clone();
    proto_vulcan!([[[[q, 1 | x], q, [[], q, "bc"] | false] != x, _ == x, [q] == x], match [x | x] { [y, [h, [], z | t], _] | [[t, h], 1, "a"] => onceo { [["a", h, 3], [_ | q]] == [[h, t, 2], [h, q], 1 | q] }, _ | [] => { true }, }])
}
pub fn case_212(vars: &Vars) -> InferredGoal<DU, DE, Goal<DU, DE>> {
    let x = vars.v[0].clone();
    let y = vars.v[1].clone();
    proto_vulcan!([true != [[x, _], [2, [] | y]], match x { [[2, [], 3 | z], z, _] | [[y], [y, 3], [[], 1 | z]] => { conde { [member(z, [2]), z == [z, [z, z]]], [[z | x], [x], 2 | z] == x } }, }])
}
pub fn case_213(vars: &Vars) -> InferredGoal<DU, DE, Goal<DU, DE>> {
    let x = vars.v[0].clone();
    let y = vars.v[1].clone();
    proto_vulcan!([['a' == [2, y]], matchu x { [["bc", 2, z] | t] => { conda { [[[z, []], t | 2] == x, y == ['b', [2], 2]], 2 == y } }, }])
}
pub fn case_214(vars: &Vars) -> InferredGoal<DU, DE, Goal<DU, DE>> {
    let x = vars.v[0].clone();
    proto_vulcan!([matcha x { [[1 | "bc"]] => { [x == [[x, x, x]], append(x, x, [1, 1]), [] != ['a']] }, [1, [[], 2, 1] | y] => , }])
}
pub fn case_215(vars: &Vars) -> InferredGoal<DU, DE, Goal<DU, DE>> {
    let q = vars.v[0].clone();
    let x = vars.v[1].clone();
    proto_vulcan!([matche x { [[z, 2], 3, [3, z, 2] | x] => [z == [[2], [[], x, 3] | z], x == 2], }])
}
pub fn case_216(vars: &Vars) -> InferredGoal<DU, DE, Goal<DU, DE>> {
    let x = vars.v[0].clone();
    proto_vulcan!([matche x { h => { true, |h, x| { [h, ["bc"], h | h] == h, true, [[2, x, "bc" | x], [1, _, 1 | x] | 2] != x } }, [[y, 1, x | _]] | ['a', [y | _]] => match y { [h, 1, [1, h] | x] | [h, 2, [x, false] | x] => { x == [[y], x] }, }, [1, 3, t | 3] => { match x { [[] | x] | 1 => , [[t, z]] => [[2, _, true] == 1, x == 2], } }, }])
}
pub fn case_217(vars: &Vars) -> InferredGoal<DU, DE, Goal<DU, DE>> {
    let x = vars.v[0].clone();
    let y = vars.v[1].clone();
    proto_vulcan!([matcha y { [[3, [], []], [1]] | [] => , }])
}
pub fn case_218(vars: &Vars) -> InferredGoal<DU, DE, Goal<DU, DE>> {
    let q = vars.v[0].clone();
    let x = vars.v[1].clone();
    proto_vulcan!([[['a', x | q] | q] == [q], matchu q { [h] => conda { [[[[] | q], false | 'a'] == [["a"]], x != [[2], [q, 2, x], [h, x | x]]] }, [z] | [[], [y, y, y], z] => [q == [["bc"], [false, z, 'a'], [q, 2 | x] | q], [member(z, [1, 2]), q != [['a', "a", []]], true]], [y | h] | "bc" => , }])
}
pub fn case_219(vars: &Vars) -> InferredGoal<DU, DE, Goal<DU, DE>> {
    let q = vars.v[0].clone();
    let x = vars.v[1].clone();
    proto_vulcan!([matche x { [z | _] => [|z| { x == [1, [z, z, q]], [[2, x], [1, 2] | 1] != [[1, 1, "bc"]] }, [[], 1] == z], [_] => , [[2]] | ["bc"] => { [q == x], x == [q] }, }])
}
pub fn case_220(vars: &Vars) -> InferredGoal<DU, DE, Goal<DU, DE>> {
    let x = vars.v[0].clone();
    let y = vars.v[1].clone();
    proto_vulcan!([matche x { [2, [_, t]] | [["a"], y | 2] => { false, onceo { false } }, }])
}
pub fn case_221(vars: &Vars) -> InferredGoal<DU, DE, Goal<DU, DE>> {
    let q = vars.v[0].clone();
    let x = vars.v[1].clone();
    proto_vulcan!([q == x, matchu x { ["bc", [_, x]] => , x | [[[], 2, _]] => , [y, [3, false], [2, []]] => , }])
}
pub fn case_222(vars: &Vars) -> InferredGoal<DU, DE, Goal<DU, DE>> {
    let q = vars.v[0].clone();
    let x = vars.v[1].clone();
    proto_vulcan!([x != [q, q], matcha q { y => [matche x { 1 => { member(y, [3, 2, 2]), [] == x }, }, |t, h| { append(y, x, [3, 3]), [[q, t, h | t] | q] == x, member(x, [1, 2, 1]) }], y | "a" => true, }])
}
pub fn case_223(vars: &Vars) -> InferredGoal<DU, DE, Goal<DU, DE>> {
    let x = vars.v[0].clone();
    proto_vulcan!([matchu x { [2, [[], [], t], h] => |h, y| { [y, [2, 1, h], [h, true, x | h]] != [['b', 'a', []], _], member(h, [2]), [[1, 'a', 2 | h]] != x }, }])
}
pub fn case_224(vars: &Vars) -> InferredGoal<DU, DE, Goal<DU, DE>> {
    let q = vars.v[0].clone();
    let x = vars.v[1].clone();
    proto_vulcan!([|y, z| { [x, x, [y, y, []]] == z }, match q { t => { match x { [[y], 3, y] | [[]] => , } }, [[false | _], 3, z | t] => , }])
}
pub fn case_225(vars: &Vars) -> InferredGoal<DU, DE, Goal<DU, DE>> {
    let x = vars.v[0].clone();
    proto_vulcan!([matche [2, 'a', _ | x] { [[h, 1, z] | x] | [[false, 1 | t], [t, x, 1] | 2] => onceo { [[3, [], x | x]] == ["a", [x, 1]] }, }])
}
pub fn case_226(vars: &Vars) -> InferredGoal<DU, DE, Goal<DU, DE>> {
    let x = vars.v[0].clone();
    proto_vulcan!([[[2, [] | x], "bc", x] == [[], 2], matche x { [[t], _, x | 1] => , z | [[1, z | z], [z], t | _] => { [[x, x], [2, _], [_, 1]] == x, |t| { append(t, x, [1, 3]), true } }, [] => , }])
}
pub fn case_227(vars: &Vars) -> InferredGoal<DU, DE, Goal<DU, DE>> {
    let x = vars.v[0].clone();
    proto_vulcan!([|x| { x == x, [[x, 2, x], [_ | 1], ["bc", x]] == [[x], [], [x] | x], [[x, 'a']] != x }, match x { t | [[_, z], false, [h | _]] => append(x, x, []), [["bc", 1 | x], [2] | h] => { |z| { [x, [true | h], []] == z }, conde { append(x, x, [2]), [[_] == [x, [], [1]], x == []], [[3] == h, append(x, x, [])] } }, [[x]] | [_, h, [h] | x] => { [1 | x] == [x, [[], x] | _] }, }])
}
pub fn case_228(vars: &Vars) -> InferredGoal<DU, DE, Goal<DU, DE>> {
    let x = vars.v[0].clone();
    proto_vulcan!([match x { [[2], 1] | [["bc"], [2 | _], [[], [], []]] => [[[1, _, _ | x], 2 | x] != x, matche x { 2 => [_, true, [x, 1 | 1]] == x, 2 => , }], [2, [z]] | x => , h => , }])
}
pub fn case_229(vars: &Vars) -> InferredGoal<DU, DE, Goal<DU, DE>> {
    let x = vars.v[0].clone();
    let y = vars.v[1].clone();
    proto_vulcan!([[append(x, y, [1]), x == y], matcha x { [[_, _]] => , [[_, y], [x, h, 1] | _] => , }])
}
pub fn case_230(vars: &Vars) -> InferredGoal<DU, DE, Goal<DU, DE>> {
    let q = vars.v[0].clone();
    let x = vars.v[1].clone();
    proto_vulcan!([|x| { [[1], x, [x, q] | x] != [3, ['a'], [1]], x == [[q, true, 3], 2 | x] }, matche q { h => , [[1, _ | z], [y, y | _], ["a", 2, 'b' | 2]] => { |y, t| { member(x, [1, 2]), q == [[1, q]], x == [[], [[], [] | _], [t]] } }, }])
}
pub fn case_231(vars: &Vars) -> InferredGoal<DU, DE, Goal<DU, DE>> {
    let x = vars.v[0].clone();
    let y = vars.v[1].clone();
    proto_vulcan!([1 == [[y, []]], matchu y { x => [[[x | y], [x, x, x | x], 2] == [[1, x, _]], condu { [[x, 3 | x] == [[true]], [y, [3], [x] | x] == x], [[y, y, y], [[], 2, "a"] | x] == x }], }])
}
pub fn case_232(vars: &Vars) -> InferredGoal<DU, DE, Goal<DU, DE>> {
    let x = vars.v[0].clone();
    let y = vars.v[1].clone();
    proto_vulcan!([matche x { 2 => [2, [1, 'b']] == [[3 | y], 1 | _], [x | t] | [x] => { matcha x { z => , [_, [h, 2, t | 1] | _] => { append(y, h, [2, 1]), false }, [x, h, 3] | [[h | y], [[], []]] => member(h, [2, 2, 2]), }, x == 'a' }, }])
}
pub fn case_233(vars: &Vars) -> InferredGoal<DU, DE, Goal<DU, DE>> {
    let x = vars.v[0].clone();
    let y = vars.v[1].clone();
    proto_vulcan!([matchu x { [[h, 3, z], 2, [3, z, h | x]] => { matcha x { [[t, 2]] | _ => [[[1, _, _ | x], [1, _], [h] | _] == 2, y == [_]], [[1, x, x]] => , _ | false => , } }, }])
}
pub fn case_234(vars: &Vars) -> InferredGoal<DU, DE, Goal<DU, DE>> {
    let x = vars.v[0].clone();
    proto_vulcan!([x == x, matcha 2 { 2 => [match x { [true, [z, "bc", y] | 1] => { append(y, z, [2]), [z] == y }, [[t, z] | z] => { false }, }, [false, append(x, x, [1])]], }])
}
pub fn case_235(vars: &Vars) -> InferredGoal<DU, DE, Goal<DU, DE>> {
    let x = vars.v[0].clone();
    let y = vars.v[1].clone();
    proto_vulcan!([member(y, []), matche x { [true | 1] => { matche y { [t] => [[y, t], 2, [1, y]] == [[false, false, _], [1, x]], y => { member(y, [3]), [[3, [], y]] == [[[] | x]] }, } }, }])
}
pub fn case_236(vars: &Vars) -> InferredGoal<DU, DE, Goal<DU, DE>> {
    let x = vars.v[0].clone();
    let y = vars.v[1].clone();
    proto_vulcan!([matchu [y] { [[3, 1, x]] | y => , [[1, _, false], ['a' | z], _] => , 2 | ["bc", _ | _] => [|t, h| { t == [[x, 2, 1 | t], [false], y], [2] == y }, member(x, [1])], }])
}
pub fn case_237(vars: &Vars) -> InferredGoal<DU, DE, Goal<DU, DE>> {
    let x = vars.v[0].clone();
    let y = vars.v[1].clone();
    proto_vulcan!([matchu x { [[_, t, _], [z, "bc"], 1] => conda { [true, [[z]] == y], [[[2], 2 | t] == z, [x, []] == x], [[2, x, t | x] == [2], [[x, _, t], [y, 3, 3]] == [y, [z], t | _]] }, [[z, true], [1, z | _], [t, z, 3]] => , [[2, [], y], [1, true, h]] | 2 => { matche [x | x] { 2 | 2 => [[[x, 2, "bc"], [[]], [_, [] | x] | x] == 2, x == [[x, x, []], [[]] | 3]], } }, }])
}
pub fn case_238(vars: &Vars) -> InferredGoal<DU, DE, Goal<DU, DE>> {
    let x = vars.v[0].clone();
    proto_vulcan!([[] == [[x, 1, x], [3], [[]]], matcha x { [y, [_, z], _ | _] => { |z| { append(x, y, [1, 1]), [[[], y, x] | 1] == z, [[2, [], x], [1, _ | z], 'b'] == x }, [1 == [[[]]]] }, }])
}
pub fn case_239(vars: &Vars) -> InferredGoal<DU, DE, Goal<DU, DE>> {
    let q = vars.v[0].clone();
    let x = vars.v[1].clone();
    proto_vulcan!([match x { h | "bc" => , 1 | _ => { x == q }, [[x, x, y]] | [[false, "bc", _], x] => { [x == [[x, x, 2]], [2, 1, 2] == _, false], [2, x, "a"] == q }, }])
}
pub fn case_240(vars: &Vars) -> InferredGoal<DU, DE, Goal<DU, DE>> {
    let q = vars.v[0].clone();
    let x = vars.v[1].clone();
    proto_vulcan!([matchu x { z | 3 => , [[3]] => { [["bc", 'a' | q] | x] == [[q], [_, 3]] }, 2 => [[[2, 2, _ | x], 3 | q] != [q | 3], _ == q], }])
}
pub fn case_241(vars: &Vars) -> InferredGoal<DU, DE, Goal<DU, DE>> {
    let q = vars.v[0].clone();
    let x = vars.v[1].clone();
    proto_vulcan!([matcha x { 2 => , [[1]] => , [[1], [] | 2] | [[h, x, 3]] => |y| { append(q, y, []) }, }])
}
pub fn case_242(vars: &Vars) -> InferredGoal<DU, DE, Goal<DU, DE>> {
    let x = vars.v[0].clone();
    let y = vars.v[1].clone();
    proto_vulcan!([3 == x, matche x { [[x], ['b']] => , }])
}
pub fn case_243(vars: &Vars) -> InferredGoal<DU, DE, Goal<DU, DE>> {
    let x = vars.v[0].clone();
    let y = vars.v[1].clone();
    proto_vulcan!([|z| { [false, ['a' | x], [x, x]] == [[1, _], [z, 2, []]], y == [[x, x | z], [_ | x], x] }, matchu x { [_, [2], 2] => conde { y == [[1, 3, x | y] | x], [1 == _, x == [[], [_, 3]]] }, }])
}
pub fn case_244(vars: &Vars) -> InferredGoal<DU, DE, Goal<DU, DE>> {
    let q = vars.v[0].clone();
    let x = vars.v[1].clone();
    proto_vulcan!([matchu x { [[x]] | 3 => [onceo { append(q, q, [1, 3]) }, condu { [member(q, [1, 3]), [[q, 3]] == q] }], }])
}
pub fn case_245(vars: &Vars) -> InferredGoal<DU, DE, Goal<DU, DE>> {
    let x = vars.v[0].clone();
    let y = vars.v[1].clone();
    proto_vulcan!([matcha x { [[2, 3], [y, 1 | z], z] => [2, ['b', 'b' | y], [y, y | 2]] != [[2, y, y], 1], [[], [x]] => , }])
}
pub fn case_246(vars: &Vars) -> InferredGoal<DU, DE, Goal<DU, DE>> {
    let x = vars.v[0].clone();
    let y = vars.v[1].clone();
    proto_vulcan!([append(x, x, []), matcha y { [1, h] | [[y]] => [false], [3] => { x == ["a", ['b', 1, x] | x], conde { true, y != 1, [x == 2, 2 != x] } }, [[2, t], [2 | 1]] => { |y, h| { y == [[2, _ | y], [t, _, x], [t, t, t | h]] } }, }])
}
pub fn case_247(vars: &Vars) -> InferredGoal<DU, DE, Goal<DU, DE>> {
    let x = vars.v[0].clone();
    let y = vars.v[1].clone();
    proto_vulcan!([matche y { ['a', [2, _]] => , _ => [|t, h| { x == y }, conde { [false, [[2, y, 2]] == x], x == [[], [2, _], [[]]] }], [[false, 1, x], []] => x == x, }])
}
pub fn case_248(vars: &Vars) -> InferredGoal<DU, DE, Goal<DU, DE>> {
    let x = vars.v[0].clone();
    let y = vars.v[1].clone();
    proto_vulcan!([matcha x { [t] => { matchu [3, _] { [[t]] => , } }, }])
}
pub fn case_249(vars: &Vars) -> InferredGoal<DU, DE, Goal<DU, DE>> {
    let x = vars.v[0].clone();
    let y = vars.v[1].clone();
    proto_vulcan!([match [x] { [[h], [z, _ | _]] => [|t, y| { [[1], [[], true], 2] != z, _ != h, false }, [h == ['a', [1, h, _]], [[1, 1], [[]]] != x, y != ['a', [[], "bc"], y]]], [[t, h, 2], 1, [_, 1] | x] => , }])
}
pub fn case_250(vars: &Vars) -> InferredGoal<DU, DE, Goal<DU, DE>> {
    let x = vars.v[0].clone();
    proto_vulcan!([matcha x { [[[], z | 2], true, 1 | 1] | [[h, t, h]] => , }])
}
pub fn case_251(vars: &Vars) -> InferredGoal<DU, DE, Goal<DU, DE>> {
    let x = vars.v[0].clone();
    proto_vulcan!([false, match x { [2, [x, 1]] => [matche x { 2 | z => , }, |h| { x == x }], [["bc", 1, [] | _]] => { onceo { [[], [[], []]] == x }, conde { member(x, []), [x == [[[]], [x, "a"] | x], false], [1, [1, x]] == x } }, [z | _] => [z != x, matchu z { 1 | 2 => 3 == z, [h] => 2 == _, [[2, [] | y], _, t] => , }], }])
}
pub fn case_252(vars: &Vars) -> InferredGoal<DU, DE, Goal<DU, DE>> {
    let x = vars.v[0].clone();
    let y = vars.v[1].clone();
    proto_vulcan!([conde { [append(x, x, [2]), member(y, [1, 1, 3])], [y == [y], member(y, [])] }, matcha y { [[], "bc", [[], []]] => , }])
}
pub fn case_253(vars: &Vars) -> InferredGoal<DU, DE, Goal<DU, DE>> {
    let x = vars.v[0].clone();
    proto_vulcan!([matcha x { [[3, [], 2], [3, y, x | z], [3, y, z]] | [] => , h => { |h, x| { member(x, [2, 2]) }, [member(x, [1]), 2 != [], x == [[x, x, _ | x]]] }, [[2, t], h | _] => , }])
}
pub fn case_254(vars: &Vars) -> InferredGoal<DU, DE, Goal<DU, DE>> {
    let q = vars.v[0].clone();
    let x = vars.v[1].clone();
    proto_vulcan!([conde { member(q, []), [[x, [[]] | q] == [[q, 3 | x], [false], [3, "a"]], q == q] }, matche [1 | x] { [[t, [] | _]] | [2 | t] => , }])
}
pub fn case_255(vars: &Vars) -> InferredGoal<DU, DE, Goal<DU, DE>> {
    let x = vars.v[0].clone();
    proto_vulcan!([matcha _ { 1 => [onceo { [] != [x] }, matche x { [[[], 'b' | h] | _] => "a" != [[x, _], "bc", x | _], [[1]] => 1 == x, [[h, true], [_, 2, y]] => y == [[y, h | x] | y], }], }])
}
pub fn case_256(vars: &Vars) -> InferredGoal<DU, DE, Goal<DU, DE>> {
    let x = vars.v[0].clone();
    let y = vars.v[1].clone();
    proto_vulcan!([match x { 2 => [true, 'a' == x], }])
}
pub fn case_257(vars: &Vars) -> InferredGoal<DU, DE, Goal<DU, DE>> {
    let x = vars.v[0].clone();
    proto_vulcan!([[x != 1], matche x { y => { |y, z| { [[z, []], x, []] == [[z]], member(y, [2, 2, 1]), member(y, [2]) } }, }])
}
pub fn case_258(vars: &Vars) -> InferredGoal<DU, DE, Goal<DU, DE>> {
    let x = vars.v[0].clone();
    let y = vars.v[1].clone();
    proto_vulcan!([y != [[_, y, x] | x], matchu y { [] => , [[z], 2, [x, h, 'b' | 1]] => [matchu h { [] => , [[z], 2, [h, _, h | h]] => { member(h, [2, 3]) }, t => { true, [[1], x] != t }, }, matcha y { ["a", [t], [1, x]] => member(z, [2]), [2, [t, 2], ['a', []]] => , }], [2, [] | _] => [[3, [2, y, 2]] == 'a', |z| { member(z, [1, 1, 3]), x == [[z], x, z | x], z == z }], }])
}
pub fn case_259(vars: &Vars) -> InferredGoal<DU, DE, Goal<DU, DE>> {
    let q = vars.v[0].clone();
    let x = vars.v[1].clone();
    proto_vulcan!([matchu x { [[x], []] => , }])
}
pub fn case_260(vars: &Vars) -> InferredGoal<DU, DE, Goal<DU, DE>> {
    let q = vars.v[0].clone();
    let x = vars.v[1].clone();
    proto_vulcan!([matche x { [[2, z, z], [y, 'b']] => , [[x], [y, z]] => [condu { x != 1 }, true], [h, h] | z => { onceo { [1, x] == [[q, 3, x], 3, [q, 1]] } }, }])
}
pub fn case_261(vars: &Vars) -> InferredGoal<DU, DE, Goal<DU, DE>> {
    let x = vars.v[0].clone();
    let y = vars.v[1].clone();
    proto_vulcan!([[x, [1, 1]] == y, matchu y { [[z | z], ['b'] | t] => { conda { append(z, z, [3, 2]) } }, 1 | [] => { [true, [y, [x, 'a', 1]] == [1 | x]] }, x => { [y, [2, true, 1], [x | y]] == y }, }])
}
pub fn case_262(vars: &Vars) -> InferredGoal<DU, DE, Goal<DU, DE>> {
    let x = vars.v[0].clone();
    let y = vars.v[1].clone();
    proto_vulcan!([matche y { z => y == [[x, x | y], 3, _], [_, [y, h], y | y] => [member(y, []), conde { [y == [true, [2]], h == [[h | x], _, [x | y]]], [[2]] != [y, [2]], [[[], [h, 2 | 2], h] != [[1, x, y | y], h, ['b', _ | y]], false] }], [[x, _], [2, [] | x] | y] | [[h | _], [[], 3, []]] => , }])
}
pub fn case_263(vars: &Vars) -> InferredGoal<DU, DE, Goal<DU, DE>> {
    let q = vars.v[0].clone();
    let x = vars.v[1].clone();
    proto_vulcan!([|x, z| { [q | x] == [[q], [_, false | x]] }, match q { [[h, _], [x] | x] | [1, [z, 1, y], [y, 1, z | y] | _] => { match [1, q, q] { [] => { q == [[[], 1], q, [q | "a"]] }, }, [[3, [q, true]] == 3] }, [] => |z| { z != [[[], x], [[], false]], [[x], []] == x }, y => , }])
}
pub fn case_264(vars: &Vars) -> InferredGoal<DU, DE, Goal<DU, DE>> {
    let q = vars.v[0].clone();
    let x = vars.v[1].clone();
    proto_vulcan!([member(q, [2]), matcha [3, 2] { [t, [1]] => , [z, [x, _, h | z], "bc"] => , }])
}
pub fn case_265(vars: &Vars) -> InferredGoal<DU, DE, Goal<DU, DE>> {
    let x = vars.v[0].clone();
    proto_vulcan!([matcha x { 1 => { |z| { x == 1, x == [z, x], [['b', 2, 2 | x]] != x }, x == x }, }])
}
pub fn case_266(vars: &Vars) -> InferredGoal<DU, DE, Goal<DU, DE>> {
    let x = vars.v[0].clone();
    proto_vulcan!([[[2, x], [x | x], [_, [], x] | x] != x, matcha x { [[]] | [] => , false => { [] == [[x, x, _]] }, [[], [1, 1, z], [h]] => { matche z { [3 | y] | 1 => [append(h, z, [1, 2]), z == h], } }, }])
}
pub fn case_267(vars: &Vars) -> InferredGoal<DU, DE, Goal<DU, DE>> {
    let q = vars.v[0].clone();
    let x = vars.v[1].clone();
    proto_vulcan!([2 == x, matchu q { [[3, z | z], [2, x]] => , [[h, _, false], [1, _, 2 | 2], [2, 'a' | x]] => [|h| { member(h, []) }, false], }])
}
pub fn case_268(vars: &Vars) -> InferredGoal<DU, DE, Goal<DU, DE>> {
    let x = vars.v[0].clone();
    let y = vars.v[1].clone();
    proto_vulcan!([x != [[3, 1], x], matche x { [[h], [h, 2]] | [t, [t, 2]] => conde { false, [[y | 1] == _, y == [[3], x, [y, 2, x]]], [member(x, []), append(x, x, [])] }, }])
}
pub fn case_269(vars: &Vars) -> InferredGoal<DU, DE, Goal<DU, DE>> {
    let x = vars.v[0].clone();
    proto_vulcan!([matchu x { [2] => { [[[x, _, 1], [x, 1, x], x | 'b'] != x], |t| { t == _, 2 == x, true } }, }])
}
pub fn case_270(vars: &Vars) -> InferredGoal<DU, DE, Goal<DU, DE>> {
    let x = vars.v[0].clone();
    let y = vars.v[1].clone();
    proto_vulcan!([match x { [t, [h, h, 2], ['b', 3, 'a']] => |x, t| { true, [[x, 1, 1 | t]] != [[1, 2 | t]] }, }])
}
pub fn case_271(vars: &Vars) -> InferredGoal<DU, DE, Goal<DU, DE>> {
    let q = vars.v[0].clone();
    let x = vars.v[1].clone();
    proto_vulcan!([matchu x { [[x, h], 1, [_, _, 2]] | [[y, []], [3] | _] => , [[t | t], ['b' | z], z] => , }])
}
pub fn case_272(vars: &Vars) -> InferredGoal<DU, DE, Goal<DU, DE>> {
    let x = vars.v[0].clone();
    let y = vars.v[1].clone();
    proto_vulcan!([matche x { [2, x, 2] | [[[], [], _], [x, _, 3 | x], z] => { false, [y, 2] == y }, [[1, 2 | z], [1]] | _ => { x == 2 }, [h, [x], [y, t, z | x] | z] | [] => , }])
}
pub fn case_273(vars: &Vars) -> InferredGoal<DU, DE, Goal<DU, DE>> {
    let x = vars.v[0].clone();
    proto_vulcan!([|t, z| { append(z, t, []) }, matchu x { [[[]], [y | t]] => , }])
}
pub fn case_274(vars: &Vars) -> InferredGoal<DU, DE, Goal<DU, DE>> {
    let x = vars.v[0].clone();
    proto_vulcan!([append(x, x, [2, 1]), matchu x { [[x, z]] => { [[[[], 1, 1], [], [true, 2] | z] != x, [[x, 2, x]] == x, [[3, x], [false]] != [[]]] }, z => , x => , }])
}
pub fn case_275(vars: &Vars) -> InferredGoal<DU, DE, Goal<DU, DE>> {
    let x = vars.v[0].clone();
    let y = vars.v[1].clone();
    proto_vulcan!([|t| { [t] == x }, matcha x { [[h, h, false | t]] => { matche x { [[] | _] | [[1, z, y], x, 2] => , [_] => { member(x, [3, 3]), [[y, 'a', 1 | x], 'a', h] == [x, t | x] }, }, 1 != x }, [z] => onceo { member(x, [1]) }, }])
}
pub fn case_276(vars: &Vars) -> InferredGoal<DU, DE, Goal<DU, DE>> {
    let q = vars.v[0].clone();
    let x = vars.v[1].clone();
    proto_vulcan!([1 == [x, [1, 1]], matche x { [1, _ | h] => { conda { x == [x | q], [] == [h, [], h], [[[2, x], x, h | x] == x, false] } }, }])
}
pub fn case_277(vars: &Vars) -> InferredGoal<DU, DE, Goal<DU, DE>> {
    let x = vars.v[0].clone();
    proto_vulcan!([_ == x, match [x, 2 | x] { [2, [x, y], 1] => , }])
}
pub fn case_278(vars: &Vars) -> InferredGoal<DU, DE, Goal<DU, DE>> {
    let q = vars.v[0].clone();
    let x = vars.v[1].clone();
    proto_vulcan!([match 1 { [h, _] => { false, matcha q { 3 => , } }, [[[], y]] => , }])
}
pub fn case_279(vars: &Vars) -> InferredGoal<DU, DE, Goal<DU, DE>> {
    let x = vars.v[0].clone();
    proto_vulcan!([matche x { [[2, _, true], [_, _, _ | x], t | 3] => |y, t| { "a" != "bc", 1 == t, [[1, 3, true], x, [x]] == [[_, [], y], [] | x] }, }])
}
pub fn case_280(vars: &Vars) -> InferredGoal<DU, DE, Goal<DU, DE>> {
    let q = vars.v[0].clone();
    let x = vars.v[1].clone();
    proto_vulcan!([3 != x, matche x { [3, [t, 1] | _] => , }])
}
pub fn case_281(vars: &Vars) -> InferredGoal<DU, DE, Goal<DU, DE>> {
    let x = vars.v[0].clone();
    proto_vulcan!([x == [[], [x, "a", x | x]], matche x { [y, [1, t | _], 1 | _] => , [[z, t | h] | x] => { conde { 2 == t, [t == [1], 3 == x] }, ['b' == [[_, 1], [2, x, h], [[], 3]]] }, y => [[2, y]] == 2, }])
}
pub fn case_282(vars: &Vars) -> InferredGoal<DU, DE, Goal<DU, DE>> {
    let x = vars.v[0].clone();
    proto_vulcan!([[x, true, [x]] != x, matcha x { [[[]] | y] | [1, _, [_, 2, "bc"]] => [[[3, 2], [x, x | _]] == x, conde { [[x | x], [1, _, x]] == x, [[[x, 2]] == x, append(x, x, [3, 1])], [[[] | x], [x, x], [false]] == x }], [] => 1 == x, }])
}
pub fn case_283(vars: &Vars) -> InferredGoal<DU, DE, Goal<DU, DE>> {
    let x = vars.v[0].clone();
    proto_vulcan!([true, match x { [[[]]] => { [x == _] }, }])
}
pub fn case_284(vars: &Vars) -> InferredGoal<DU, DE, Goal<DU, DE>> {
    let x = vars.v[0].clone();
    proto_vulcan!([[1 | x] == [[_], [x, x, _ | x]], matcha x { [_, [x | h] | h] => { 3 == [_ | x], [x == [[[], x], [x, x]], member(x, [3, 2, 1]), x == [[3, []], ['a' | x], h | h]] }, [[1, 1 | x], [x], 3 | 1] => , }])
}
pub fn case_285(vars: &Vars) -> InferredGoal<DU, DE, Goal<DU, DE>> {
    let x = vars.v[0].clone();
    let y = vars.v[1].clone();
    proto_vulcan!([x == [1, [2, _] | y], y != []])
}
pub fn case_286(vars: &Vars) -> InferredGoal<DU, DE, Goal<DU, DE>> {
    let x = vars.v[0].clone();
    proto_vulcan!([conde { x == 'a', [x == "bc", true], false }])
}
pub fn case_287(vars: &Vars) -> InferredGoal<DU, DE, Goal<DU, DE>> {
    let q = vars.v[0].clone();
    let x = vars.v[1].clone();
    proto_vulcan!([|x| { x == 1, q == [x, true] }])
}
pub fn case_288(vars: &Vars) -> InferredGoal<DU, DE, Goal<DU, DE>> {
    let x = vars.v[0].clone();
    proto_vulcan!([closure { [x == 1, conde { true, true }] }])
}
pub fn case_289(vars: &Vars) -> InferredGoal<DU, DE, Goal<DU, DE>> {
    let x = vars.v[0].clone();
    let y = vars.v[1].clone();
    proto_vulcan!([[] == x, y == [[]]])
}
pub fn case_290(vars: &Vars) -> InferredGoal<DU, DE, Goal<DU, DE>> {
    let q = vars.v[0].clone();
    let x = vars.v[1].clone();
    proto_vulcan!([q == [], append(q, x, [2, 1])])
}
pub fn case_291(vars: &Vars) -> InferredGoal<DU, DE, Goal<DU, DE>> {
    let q = vars.v[0].clone();
    let x = vars.v[1].clone();
    proto_vulcan!([|y| { x == [[y, x, 2], y, ["bc", 3]] }, q == [x | x], closure { [|h| { [[[false, []], x, [h, "a"] | q] != x], conde { [[[1, 2, 1 | h]] == [[q, x, h], [[], 1 | h] | x], [[3]] == h], h == [1] } }, [_, [_, q, x], [x, []]] == [[q | x]]] }])
}
pub fn case_292(vars: &Vars) -> InferredGoal<DU, DE, Goal<DU, DE>> {
    let q = vars.v[0].clone();
    let x = vars.v[1].clone();
    proto_vulcan!([conde { 1 == q, conda { [[] == 2, [member(x, [3, 3]), [[2, x], [x, _, x], [q, 3, [] | x]] == x, [x, [x, 'a', 'a'], q] != q]], [onceo { x == [[1, false], 3] }, [q | q] == [_, 'b', [q, _, 'a']]] }, x == x }, q == q, x != "a", closure { [|h| { conde { [true, false], [[[_]] == q, [[x, q | x], q, 3] == h], h == 3 }, onceo { q == [[[]], x, 3] } }, [x == 1, x == [[false | 2], [x, x]], [q != 1]]] }])
}
pub fn case_293(vars: &Vars) -> InferredGoal<DU, DE, Goal<DU, DE>> {
    let x = vars.v[0].clone();
    let y = vars.v[1].clone();
    proto_vulcan!([conda { [true != [[[], 2, 1], true], false], [|h, x| { conde { [false, h == []], [[[[], 2 | y], [[] | x], [_]] == _, 2 == [[true | y]]] }, x == [[2, []]] }, |y| { y != ['a', y, [_] | y], false }] }, closure { [y == [[2, x] | y], [3, y] != y] }])
}
pub fn case_294(vars: &Vars) -> InferredGoal<DU, DE, Goal<DU, DE>> {
    let x = vars.v[0].clone();
    let y = vars.v[1].clone();
    proto_vulcan!([condu { x != [[y]] }, [[3, x, _], x] != x, y == _])
}
pub fn case_295(vars: &Vars) -> InferredGoal<DU, DE, Goal<DU, DE>> {
    let x = vars.v[0].clone();
    let y = vars.v[1].clone();
    proto_vulcan!([member(y, [3]), member(y, [2, 1])])
}
pub fn case_296(vars: &Vars) -> InferredGoal<DU, DE, Goal<DU, DE>> {
    let q = vars.v[0].clone();
    let x = vars.v[1].clone();
    proto_vulcan!([x == [1 | q]])
}
pub fn case_297(vars: &Vars) -> InferredGoal<DU, DE, Goal<DU, DE>> {
    let x = vars.v[0].clone();
    let y = vars.v[1].clone();
    proto_vulcan!([|y| { y == [[_, _, y], [3, x, y | x], [1, y] | y], member(x, [1, 2]) }, closure { conde { [3 != x, conde { true, [member(y, [1, 3, 3]), x == [[_, [], 1], [], [1, [], 1 | y]]] }], |x, y| { 3 != x, [[1, y, y], y, [_, x, 3]] == x, append(y, x, [1]) } } }])
}
pub fn case_298(vars: &Vars) -> InferredGoal<DU, DE, Goal<DU, DE>> {
    let x = vars.v[0].clone();
    proto_vulcan!([conda { [x == [[_, x], x], [x, [2, _, 2], [_, "bc"]] != x], [|x, h| { [[[]] != [[], _ | x], 3 == h] }, onceo { [2, [x, x], [_, 1] | false] == x }], [|x| { x == x, x == [[1, 2, x]], [[2, 3, _], x, 2] == [[x | x], 3, [3, _, 3]] }, 2 == [[3, []], [false, x, x], [x]]] }, append(x, x, [1, 2]), closure { [[[2]] == x, ["a" == [3, [[], x, x], [x, "bc"]], conde { [1 | 1] == [1 | x], [[1] | x] == x, [[x, 1, x | 2], x, x] != [[]] }, _ == [_, ['b'] | x]]] }])
}
pub fn case_299(vars: &Vars) -> InferredGoal<DU, DE, Goal<DU, DE>> {
    let x = vars.v[0].clone();
    proto_vulcan!([x == x, [x, [_, 2] | 3] == x, conda { |x, h| { [] == [_, [[], h, 2 | x] | x], [1, x | h] != x, onceo { false } } }])
}
pub fn case_300(vars: &Vars) -> InferredGoal<DU, DE, Goal<DU, DE>> {
    let q = vars.v[0].clone();
    let x = vars.v[1].clone();
    proto_vulcan!([[x, _, [[], true]] == x, q != [[x], [x, _, 'a'] | x], member(q, [])])
}
pub fn case_301(vars: &Vars) -> InferredGoal<DU, DE, Goal<DU, DE>> {
    let x = vars.v[0].clone();
    proto_vulcan!([|y| { x == x }, x == x, closure { [|h| { conde { [append(h, x, [2, 3]), member(x, [2, 1])], [[1, 1] == x, [[h | h]] == h], [[1, h], [[], 1, []], [2]] == x }, |h| { append(h, h, [1]), true, [[h, 1], 2, 3 | h] == h } }, onceo { x != 'a' }] }])
}
pub fn case_302(vars: &Vars) -> InferredGoal<DU, DE, Goal<DU, DE>> {
    let x = vars.v[0].clone();
    let y = vars.v[1].clone();
    proto_vulcan!([member(y, [2]), _ == [[false], [x, []]], |h| { |h| { x == h, [] == [[2, h, 2 | 2], [h], [x, 3]], [false, [[h]] == h, [h, x, [h | h] | h] != x] } }])
}
pub fn case_303(vars: &Vars) -> InferredGoal<DU, DE, Goal<DU, DE>> {
    let x = vars.v[0].clone();
    let y = vars.v[1].clone();
    proto_vulcan!([[['b', y, "bc" | y]] != [[1 | _], x, [[], x] | 2], y == x])
}
pub fn case_304(vars: &Vars) -> InferredGoal<DU, DE, Goal<DU, DE>> {
    let x = vars.v[0].clone();
    let y = vars.v[1].clone();
    proto_vulcan!([[x, [x, x, 2]] == x, |x| { conde { [conde { [x == [x], false], x == y, [[x] == y, x == _] }, member(y, [2, 3, 2])], [true, [_, 2, [x, x, 2]] != x], ['a' == x, [[[]]] == 1] }, y != [[2], [], [x, 1]] }, closure { [|z| { x == [], _ == x }, x == [2 | 1]] }])
}
pub fn case_305(vars: &Vars) -> InferredGoal<DU, DE, Goal<DU, DE>> {
    let x = vars.v[0].clone();
    let y = vars.v[1].clone();
    proto_vulcan!([y == [[x], [2]], |y| { conde { [y == "bc", [[y, 1, 3], [y], [y, _, 2]] == y], 2 == y } }])
}
pub fn case_306(vars: &Vars) -> InferredGoal<DU, DE, Goal<DU, DE>> {
    let q = vars.v[0].clone();
    let x = vars.v[1].clone();
    proto_vulcan!([conda { [] == q }, conde { [|x| { 2 != _, conde { [[false, x]] != x, append(x, q, [3]), "bc" != [[1], [3 | x] | x] }, [false, x == [q, [x, _, 'b' | q]]] }, [["bc", q], [false, x] | x] == [q]], x == [[x, x, 2 | _], true, [_, []]] }, q == [x, 1, [_, true | q]]])
}
pub fn case_307(vars: &Vars) -> InferredGoal<DU, DE, Goal<DU, DE>> {
    let x = vars.v[0].clone();
    proto_vulcan!([x == x, _ == x, conda { condu { [[_, x | x], x, x] == x }, conde { [[x == [x], true], [[2, x, [] | x]] == x], [x == x] }, [[[2]] == [x | x], conde { [condu { true, member(x, [2, 2, 2]), [] == [x, [2, 2 | x] | x] }, [[[2, [], x], x, 2] == [["bc", 2 | x], [3, 2, [] | x] | x]]], condu { [x == [[x, 1]], append(x, x, [])] } }] }])
}
pub fn case_308(vars: &Vars) -> InferredGoal<DU, DE, Goal<DU, DE>> {
    let x = vars.v[0].clone();
    let y = vars.v[1].clone();
    proto_vulcan!([x == x, |z, h| { h == h }])
}
pub fn case_309(vars: &Vars) -> InferredGoal<DU, DE, Goal<DU, DE>> {
    let x = vars.v[0].clone();
    proto_vulcan!([[[x, [] | x]] != [[2], [[]], [] | true]])
}
pub fn case_310(vars: &Vars) -> InferredGoal<DU, DE, Goal<DU, DE>> {
    let q = vars.v[0].clone();
    let x = vars.v[1].clone();
    proto_vulcan!([[|x| { conda { [append(x, x, [1]), [[x, 3 | _], x, [x, x]] == [[q], [x, x, x | x], [] | x]], 1 == q, [member(q, [3, 2]), [[], x, [_ | 'b'] | q] == x] }, [[q, _], [x, []]] == ['a'], [x == [[2, x]]] }, append(q, x, [2, 3])], [2] != x, onceo { onceo { x != x } }])
}
pub fn case_311(vars: &Vars) -> InferredGoal<DU, DE, Goal<DU, DE>> {
    let x = vars.v[0].clone();
    let y = vars.v[1].clone();
    proto_vulcan!([2 == y])
}
pub fn case_312(vars: &Vars) -> InferredGoal<DU, DE, Goal<DU, DE>> {
    let q = vars.v[0].clone();
    let x = vars.v[1].clone();
    proto_vulcan!([conde { [[x, [_, 2], [] | q] == q, onceo { [x != 2] }], q == _ }, [x | q] == q, closure { [[[]] == q, false] }])
}
pub fn case_313(vars: &Vars) -> InferredGoal<DU, DE, Goal<DU, DE>> {
    let q = vars.v[0].clone();
    let x = vars.v[1].clone();
    proto_vulcan!([true, conde { [|h, y| { |t, h| { true }, y == [[q, y | 2], 1], conda { [y == 3, [[q, "bc", y], 1, [y | y] | h] == h] } }, [onceo { [[2, 1], [q | q], [q, 3]] == x }, [append(x, q, [2])]]], [x != 1, |h| { [[1, 1], [1], _] != x }], [[true], [q, 2], [2, q | q] | x] == x }])
}
pub fn case_314(vars: &Vars) -> InferredGoal<DU, DE, Goal<DU, DE>> {
    let q = vars.v[0].clone();
    let x = vars.v[1].clone();
    proto_vulcan!([conde { [onceo { [q == [], 2 != q] }, [x == [_, ["a", 3, 2]]]], [append(q, x, [])], [[[q, 1, x], [2, _, 1] | q] != 2, [conde { x == 3, [x == 1, false], [false, 2 != [1]] }]] }, conda { [append(x, q, [2]), q == [[q, q]]] }, closure { [[1], [q, 1 | q], [2, q, x]] == q }])
}
pub fn case_315(vars: &Vars) -> InferredGoal<DU, DE, Goal<DU, DE>> {
    let x = vars.v[0].clone();
    let y = vars.v[1].clone();
    proto_vulcan!([append(x, y, [2]), |z| { conde { [[[1, _ | 2]] == y, x == [z, [1], "bc" | y]], [append(z, z, []), conde { member(x, [2, 1, 1]), x != [[_ | z] | y] }], conde { [false] == z, [member(z, [2, 1]), y == [y, 3, [_, 3, []]]], [false, x == 3] } }, [[3], y, [3, x, y]] == [2, [z, 3, x | true], [y] | z], z == [] }, append(x, y, [2, 2])])
}
pub fn case_316(vars: &Vars) -> InferredGoal<DU, DE, Goal<DU, DE>> {
    let q = vars.v[0].clone();
    let x = vars.v[1].clone();
    proto_vulcan!([|x| { [[2], _, [_, 2, x]] == x }, |h| { |h| { h != 3, [[h, q, false], [[], _, 3], [2, "bc" | q]] != h, conda { [append(q, q, [1]), false] } }, conde { [conde { [[[1, 2 | h], ['a'], [[], x, q]] == [q, [2, q, []], 1], member(x, [2, 3])], [[q | x] == q, false], [q == [[x, q | x], [_, h], [2] | h], member(h, [1, 3])] }, [[[2, true], [1, _, []], [q, 1, 3] | q] == [h, [3, 2 | 'a'], [[]]]]], |y, t| { x == [] }, [[[3 | h], x, [1, 1, true | q]] == [[q, 2] | q], false] } }])
}
pub fn case_317(vars: &Vars) -> InferredGoal<DU, DE, Goal<DU, DE>> {
    let x = vars.v[0].clone();
    proto_vulcan!([|h| { |t, x| { [_, x, [t | x] | t] != h, |y, h| { 2 != h, member(x, [3]), 2 != t } }, [_, [x]] != h, member(h, [2, 3]) }])
}
pub fn case_318(vars: &Vars) -> InferredGoal<DU, DE, Goal<DU, DE>> {
    let x = vars.v[0].clone();
    let y = vars.v[1].clone();
    proto_vulcan!([member(x, [1, 2]), closure { [|x| { x != [[_, 3], [x, x, []], [2, 1 | x]], conde { [[1 | x], _] == x, append(y, y, [1]), [x != [[_, 'b']], append(x, y, [])] }, [1] == y }, [y, true, [_ | x]] == y] }])
}
pub fn case_319(vars: &Vars) -> InferredGoal<DU, DE, Goal<DU, DE>> {
    let q = vars.v[0].clone();
    let x = vars.v[1].clone();
    proto_vulcan!([conde { [[2 | x], 1, q] != 1, [1 | x] != [[x, [], _], x] }, [true, [_, 2, 1 | x], [3]] == [[_]], |z| { x == x }])
}
pub fn case_320(vars: &Vars) -> InferredGoal<DU, DE, Goal<DU, DE>> {
    let x = vars.v[0].clone();
    let y = vars.v[1].clone();
    proto_vulcan!([x == [true], onceo { [_, [y, [] | x]] == x }, |t| { |x| { [[1, t], ['b', 2 | x] | 1] == y }, 'b' == [2, _], t != [y] }, closure { [[[1, _, _], ['b', _], [[], []]] == x, [onceo { 2 == _ }, y == y, |t| { 1 == x, [['b'] | y] == y, member(y, []) }]] }])
}
pub fn case_321(vars: &Vars) -> InferredGoal<DU, DE, Goal<DU, DE>> {
    let x = vars.v[0].clone();
    let y = vars.v[1].clone();
    proto_vulcan!([y == _, |z, t| { [member(t, []), [[t, x, t] | y] != z, conde { [append(y, t, [3, 2]), true], z == [y, [2, []], [t, 2, z | t]] }], [y, [_, 1]] != y }, conde { true, y != [] }])
}
pub fn case_322(vars: &Vars) -> InferredGoal<DU, DE, Goal<DU, DE>> {
    let q = vars.v[0].clone();
    let x = vars.v[1].clone();
    proto_vulcan!([conde { [[3, 'a', x]] == x, x != [[[]], _], [[1] == x, append(x, q, [1])] }])
}
pub fn case_323(vars: &Vars) -> InferredGoal<DU, DE, Goal<DU, DE>> {
    let x = vars.v[0].clone();
    let y = vars.v[1].clone();
    proto_vulcan!([[x == [[x] | y], [[3]] == [3, y | x]], y == x])
}
pub fn case_324(vars: &Vars) -> InferredGoal<DU, DE, Goal<DU, DE>> {
    let x = vars.v[0].clone();
    proto_vulcan!([conde { [condu { [conda { false }, onceo { [x] != [[2, 'a', 2 | x] | x] }], [x == 2, |z| { z == z, x == [[]], [x, "a", x] == x }], [conde { x != [[x, _]], [false, append(x, x, [])], x == x }, [2, 2, x] == false] }, |z, h| { |t| { h == 3, member(x, [1, 1]) }, conde { [3 != [[1, z, 1 | z], [x, 1]], [[1, _, h | x], 1, [h, h, 'b' | z]] == h], x == [[], _], member(h, [2]) } }], [[3, x, x], [[], [], x], [x] | x] == [x, [_, x | x], [2, x | x]] }, [[[1, 3, x] == x, conda { [x == [['a', 'b']], x == [[x, _, 'b' | "a"], [3, x, x] | x]] }]], closure { x == _ }])
}
pub fn case_325(vars: &Vars) -> InferredGoal<DU, DE, Goal<DU, DE>> {
    let q = vars.v[0].clone();
    let x = vars.v[1].clone();
    proto_vulcan!([append(x, q, [3, 2]), |h| { [[true, q == x, [1, [[]]] == [q | true]], 2 != q], condu { [conde { [2 == h, q == [q]], q != 1, 3 == [[], h] }, q == [1, [2], x]], [true, true], [2, q, [3]] == [["a"], 2] }, q == [q | h] }, closure { [q != q, conde { [true, q == x], [[append(x, x, [3])], x != 3], |h, t| { x == [], true, [2, [t], ["bc" | h] | 2] == t } }] }])
}
pub fn case_326(vars: &Vars) -> InferredGoal<DU, DE, Goal<DU, DE>> {
    let x = vars.v[0].clone();
    proto_vulcan!([false, "bc" != x, x == 2, closure { false }])
}
pub fn case_327(vars: &Vars) -> InferredGoal<DU, DE, Goal<DU, DE>> {
    let x = vars.v[0].clone();
    let y = vars.v[1].clone();
    proto_vulcan!([|h| { y == h, [1 == x] }, y == y])
}
pub fn case_328(vars: &Vars) -> InferredGoal<DU, DE, Goal<DU, DE>> {
    let x = vars.v[0].clone();
    proto_vulcan!([[[x, _], [3, x, _]] == [[x]], conde { |h| { conde { [h == h, member(x, [2])], [1 == x, [[_, [], h | 3], h, [x, h, 3]] != [[h, x, x | h], 1]] } }, true, 3 == [[2 | _], [3, x, _ | x] | "a"] }, onceo { x == [x, _] }, closure { [[x, [1, 2, x]] == x, [[x] == x, |h| { h == [], x == x, h == [1, h, [x, 'b', h]] }]] }])
}
pub fn case_329(vars: &Vars) -> InferredGoal<DU, DE, Goal<DU, DE>> {
    let q = vars.v[0].clone();
    let x = vars.v[1].clone();
    proto_vulcan!([[|y| { [append(q, q, [3, 1]), [[1, [], 2 | q]] != [[3, x, 1], q | 3]], [q == [_]] }], |x| { _ == x, x == x, x == [[[], x]] }, conde { [[x, "a", x | x]] == [q], [onceo { conde { [x == x, member(x, [2, 3, 3])], [q == [[x], [[], q, q | x], [x, _ | x]], [] == 2], false } }, [x == []]] }, closure { conde { 2 == x, [true, q == x], q == [] } }])
}
pub fn case_330(vars: &Vars) -> InferredGoal<DU, DE, Goal<DU, DE>> {
    let x = vars.v[0].clone();
    proto_vulcan!([x != x])
}
pub fn case_331(vars: &Vars) -> InferredGoal<DU, DE, Goal<DU, DE>> {
    let q = vars.v[0].clone();
    let x = vars.v[1].clone();
    proto_vulcan!([conda { x == [q, [q, 3, q], [true, q] | x], [|z| { append(x, q, []) }, |y| { [[]] != false, [[q, 1, x], [3, [], y | _], [false]] == [[1, y, 2], [1, 2], [1]], |t, y| { _ == t, x != x } }] }, ['b', [2 | q], [_, x]] == q, |z| { [_ == [x, [z], 3], |t| { q != x, append(q, q, []), [t] != [[2, q | q], 1 | 1] }, [[x | q], 3] != x], 1 == [q, x] }])
}
pub fn case_332(vars: &Vars) -> InferredGoal<DU, DE, Goal<DU, DE>> {
    let q = vars.v[0].clone();
    let x = vars.v[1].clone();
    proto_vulcan!([|h| { |x| { x == _, x == [_], [_ | q] != q } }])
}
pub fn case_333(vars: &Vars) -> InferredGoal<DU, DE, Goal<DU, DE>> {
    let x = vars.v[0].clone();
    proto_vulcan!([conde { [[x] != x, [member(x, [1, 3, 1]), [append(x, x, [2]), [] == x, member(x, [1])]]], [|h| { ["a", [_, h], h] == [[false, x, h] | h], [true, x == 2] }, append(x, x, [2, 3])] }, [[3, _] | x] != x, |z| { conde { [|t, z| { true, z == x }, condu { z == 2, x == z, [3 == x, [x, _] == x] }], [[[x | z] | z] == [[x, 1 | x]], |y| { member(x, [3, 2]) }], conde { [member(z, [3]), [2] == x], true } }, [[_, "bc", z] == z] }])
}
pub fn case_334(vars: &Vars) -> InferredGoal<DU, DE, Goal<DU, DE>> {
    let x = vars.v[0].clone();
    let y = vars.v[1].clone();
    proto_vulcan!([conde { [x != x, append(y, x, [])], |t| { x == [1, [y, []], [t, true, x]], conda { x != [x, [y]], t == [[1 | 1]], [[[false | t], x] == x, t == [[x, 2], [x]]] }, y == [[x, y], [2 | t], [1, x, [] | y]] } }])
}
pub fn case_335(vars: &Vars) -> InferredGoal<DU, DE, Goal<DU, DE>> {
    let q = vars.v[0].clone();
    let x = vars.v[1].clone();
    proto_vulcan!([[x] == x, append(q, x, []), q != [1, "bc"]])
}
pub fn case_336(vars: &Vars) -> InferredGoal<DU, DE, Goal<DU, DE>> {
    let x = vars.v[0].clone();
    let y = vars.v[1].clone();
    proto_vulcan!([|h, t| { onceo { 1 == "a" } }])
}
pub fn case_337(vars: &Vars) -> InferredGoal<DU, DE, Goal<DU, DE>> {
    let q = vars.v[0].clone();
    let x = vars.v[1].clone();
    proto_vulcan!([[[1, 1, 2]] == q, |y, x| { [x] != y }])
}
pub fn case_338(vars: &Vars) -> InferredGoal<DU, DE, Goal<DU, DE>> {
    let x = vars.v[0].clone();
    proto_vulcan!([|z| { member(x, []) }, closure { conde { ["a", 3] != x, append(x, x, []), 2 == [[x | x]] } }])
}
pub fn case_339(vars: &Vars) -> InferredGoal<DU, DE, Goal<DU, DE>> {
    let x = vars.v[0].clone();
    let y = vars.v[1].clone();
    proto_vulcan!([|y| { |h| { conde { true, [member(h, [2]), x == [y]], [_, [y], y] == 1 } }, conde { y == [2, y, [x, 2, y]], [conde { [[[2, _], [y, 2, []]] == y, true], 3 != [[_], x, [1, x]], [[2, 3, x | x], [[], false]] != [y | y] }, y != [[x, y], [y, 2], [1] | y]], [[2, 'b', _], [2]] == y }, onceo { 2 != [[y, _], [2, x, true | y] | y] } }, |z| { condu { [|z| { [[z | y], 2, [y, 2 | z]] == [[z]], 3 != [[2, 1], [x], [3] | z] }, [[x], [2, 3 | y]] == z], [3, [x]] != z, condu { [x != 2, y != z], false } }, z == [1] }, x == [[2, 3, 1], [1, y, 2]]])
}
pub fn case_340(vars: &Vars) -> InferredGoal<DU, DE, Goal<DU, DE>> {
    let q = vars.v[0].clone();
    let x = vars.v[1].clone();
    proto_vulcan!([[x, []] == x])
}
pub fn case_341(vars: &Vars) -> InferredGoal<DU, DE, Goal<DU, DE>> {
    let q = vars.v[0].clone();
    let x = vars.v[1].clone();
    proto_vulcan!([append(x, x, [])])
}
pub fn case_342(vars: &Vars) -> InferredGoal<DU, DE, Goal<DU, DE>> {
    let q = vars.v[0].clone();
    let x = vars.v[1].clone();
    proto_vulcan!(['a' != [x, 1], 'b' == [q], [["a", [x, false], [q, _, []]] == q], closure { [1 | 1] == [[[], q] | x] }])
}
pub fn case_343(vars: &Vars) -> InferredGoal<DU, DE, Goal<DU, DE>> {
    let x = vars.v[0].clone();
    let y = vars.v[1].clone();
    proto_vulcan!([x == [[y, x], [1, 3, y | y], [x] | 2], [1, [true, 3], [x | y] | x] != x, x == [[_], [[], [] | y], 2], closure { x == [] }])
}
pub fn case_344(vars: &Vars) -> InferredGoal<DU, DE, Goal<DU, DE>> {
    let x = vars.v[0].clone();
    let y = vars.v[1].clone();
    proto_vulcan!([x == [_, [y | x]], [[y, 2, y | x] | 2] == y, [x, [1, 3]] != [[x, y, 1 | y] | y], closure { true }])
}
pub fn case_345(vars: &Vars) -> InferredGoal<DU, DE, Goal<DU, DE>> {
    let x = vars.v[0].clone();
    proto_vulcan!([[2, 1, x] == x])
}
pub fn case_346(vars: &Vars) -> InferredGoal<DU, DE, Goal<DU, DE>> {
    let x = vars.v[0].clone();
    proto_vulcan!([x == [[[], 1, 2], 3 | x], closure { [[1 == [2, x, x | x], [[[], x, _], []] == x, x == x], |h, x| { conde { append(h, x, [1]), ['b' == 2, true] }, |z, x| { h == z, true }, 2 == [[2, 2, 2], 1] }] }])
}
pub fn case_347(vars: &Vars) -> InferredGoal<DU, DE, Goal<DU, DE>> {
    let x = vars.v[0].clone();
    let y = vars.v[1].clone();
    proto_vulcan!([true, conde { condu { x != [[2, y, x], ['a', y, _] | y] }, [[x, x], 1, y | "a"] == x, y == [[3, 2] | x] }, closure { [3 == [['b'] | x], [true, 3 == y]] }])
}
pub fn case_348(vars: &Vars) -> InferredGoal<DU, DE, Goal<DU, DE>> {
    let q = vars.v[0].clone();
    let x = vars.v[1].clone();
    proto_vulcan!([|x, z| { condu { [x == [[_, x]], false] } }, [_ == _]])
}
pub fn case_349(vars: &Vars) -> InferredGoal<DU, DE, Goal<DU, DE>> {
    let q = vars.v[0].clone();
    let x = vars.v[1].clone();
    proto_vulcan!([[1] != q, 3 == 1])
}
pub fn case_350(vars: &Vars) -> InferredGoal<DU, DE, Goal<DU, DE>> {
    let x = vars.v[0].clone();
    proto_vulcan!([true, x != x, closure { [|h| { conde { [[[1, h, 1], 3, x] != x, x == [[3 | false]]], [h == [1], false], true } }, [[x], 3, x | x] == x] }])
}
pub fn case_351(vars: &Vars) -> InferredGoal<DU, DE, Goal<DU, DE>> {
    let x = vars.v[0].clone();
    proto_vulcan!(["a" == [[x, x], [2 | _] | x], conde { true, x == [[1, [], x | x], [x, _ | x], 1] }, _ != x])
}
pub fn case_352(vars: &Vars) -> InferredGoal<DU, DE, Goal<DU, DE>> {
    let q = vars.v[0].clone();
    let x = vars.v[1].clone();
    proto_vulcan!([q != [[q], ["a" | x], [3]], conde { [[[2, 1], [q, 2, 3 | x]] != x, conde { [x == [2], conda { x != [q | x], [q == [[x, _, _]], q == [[[], 1], [x], [1, x]]] }], conde { [[_, x], [1, [], 2]] == [[_, x], [q, _], 3], [[[x, x, _], [x] | x] == x, member(x, [1])], [[[x, _, 1], [x, q], q] != [1, [1, 1] | 1], [[[]]] == x] } }], [3 == x, q == 1] }, closure { ["a"] == q }])
}
pub fn case_353(vars: &Vars) -> InferredGoal<DU, DE, Goal<DU, DE>> {
    let x = vars.v[0].clone();
    proto_vulcan!([|x| { |h| { [h != [[2, h, h | h], 1], member(x, []), true] }, append(x, x, []), false }, [_, [false, 2, 2]] == 1, onceo { [[x, x, 3], 3, [x]] == x }])
}
pub fn case_354(vars: &Vars) -> InferredGoal<DU, DE, Goal<DU, DE>> {
    let x = vars.v[0].clone();
    proto_vulcan!([[[true], [3, x | 2], 2] == [[_], [x, []]], [_, ['a', x] | "bc"] == [[2, _, x | x], [x, x, 2 | x]]])
}
pub fn case_355(vars: &Vars) -> InferredGoal<DU, DE, Goal<DU, DE>> {
    let x = vars.v[0].clone();
    proto_vulcan!([[[x, 2, []], x] == x, |x, h| { [x, [_ | x], [1, 1 | h]] == h, |z| { [x != z, member(x, [1, 1]), false] } }])
}
pub fn case_356(vars: &Vars) -> InferredGoal<DU, DE, Goal<DU, DE>> {
    let x = vars.v[0].clone();
    let y = vars.v[1].clone();
    proto_vulcan!([x != [["a" | x] | y], member(x, [2]), append(y, x, [2, 1]), closure { [[x, y]] != x }])
}
pub fn case_357(vars: &Vars) -> InferredGoal<DU, DE, Goal<DU, DE>> {
    let x = vars.v[0].clone();
    proto_vulcan!([conde { [|y| { 2 == x }, [x != [x, x, [1, x, x] | 3], member(x, [1]), |h| { 'b' != [h, ["a", h, 3 | h], h], member(x, [1, 2, 3]), append(h, x, [1]) }]], [x == [_, _], [[x == x]]] }, [[1] | x] == [[_, 3, x], _]])
}
pub fn case_358(vars: &Vars) -> InferredGoal<DU, DE, Goal<DU, DE>> {
    let x = vars.v[0].clone();
    let y = vars.v[1].clone();
    proto_vulcan!([y == [[2, 'b', "a" | x], [false, 2], _], _ == [y], |h| { [condu { true, [y == [[1]], [[2], [[], 3]] != [[2 | x], [[], 2], [x]]], [[y, 1, _] | h] == h }, conda { append(x, x, []), [[[] | x], 2] == h, [x == [[[], y | y]], [[x, 1], [1 | x] | x] == [2, [x, x]]] }, conde { x == 'a', [true, x == x], 'a' == [x] }], |z| { [3, [[]], [[] | x] | y] == z, [[_, h | y]] == [_, x, [2 | z]], z == [x, [y, 1], 2 | z] } }])
}
pub fn case_359(vars: &Vars) -> InferredGoal<DU, DE, Goal<DU, DE>> {
    let x = vars.v[0].clone();
    proto_vulcan!([[[_, _], [] | x] != [false, [1 | x] | x], [[x | x] == x, [[true, 3, 1]] == [[x], [x, x, 1 | x], [x, 3]], onceo { [[_, 1 | x], x, [x, "bc"]] == x }], closure { condu { [x == [x, x | x], |y, x| { false }], |x, h| { append(x, h, []), [[h, "bc"], [x, x, x], 1] == h } } }])
}
pub fn case_360(vars: &Vars) -> InferredGoal<DU, DE, Goal<DU, DE>> {
    let x = vars.v[0].clone();
    proto_vulcan!([[1, x, [x, 2, 1]] == x, closure { [conda { [true, x == [1, 2]], [onceo { x == [[2, x], ['b' | x], x] }, conde { [[3] == x, x == [[_, [] | x], [x, 1, "a"] | x]], [false, x == x], [[[_, 2, 1 | x], ['b', x, "a"], [false]] == x, x == x] }], x == x }, x == [[1, x, 2 | _] | x]] }])
}
pub fn case_361(vars: &Vars) -> InferredGoal<DU, DE, Goal<DU, DE>> {
    let x = vars.v[0].clone();
    proto_vulcan!([append(x, x, []), onceo { 1 != x }])
}
pub fn case_362(vars: &Vars) -> InferredGoal<DU, DE, Goal<DU, DE>> {
    let x = vars.v[0].clone();
    let y = vars.v[1].clone();
    proto_vulcan!([|t| { conde { conde { [1, [y, _ | false]] == [[y, 1]], 1 == 3, [x == t, "bc" == [1, _, [_, 1, t]]] }, append(x, t, [3, 2]) }, |x, t| { [1, [2, 2, 1]] == x, y == 2, [x, x | x] == _ } }])
}
pub fn case_363(vars: &Vars) -> InferredGoal<DU, DE, Goal<DU, DE>> {
    let q = vars.v[0].clone();
    let x = vars.v[1].clone();
    proto_vulcan!([|h| { x != x, [1, [_]] != q, q != [[true, 3 | h], [1 | x], 3 | h] }, onceo { conda { [false, [[false, []] == q]], [false, q != [false, [1 | _] | q]] } }, 3 == q, closure { [[x]] == q }])
}
pub fn case_364(vars: &Vars) -> InferredGoal<DU, DE, Goal<DU, DE>> {
    let q = vars.v[0].clone();
    let x = vars.v[1].clone();
    proto_vulcan!([|t| { |t, z| { append(q, t, [2]) }, false }, condu { [|t, y| { [[[true | t], [x, y] | 2] != q], |x, z| { [[_, _, q | x], y, [z] | 1] == y } }, 3 == [x, [x, x, true] | q]], [[[true, 2], [q, x]] == q, |h, z| { [z, [[], "bc", x] | q] == h, x == z }], [conde { [q != 3, false], append(x, q, []), [member(x, [3]), x != [[[], [] | q]]] }, [[2, [], q], [2 | x], _] != []] }, [q != [[q, x, false], [1, [] | q] | x], |h| { 3 == [[3 | x]] }, x == "bc"], closure { q != [[x, _, 2 | x], [_, q, 1], [_, q, _ | x]] }])
}
pub fn case_365(vars: &Vars) -> InferredGoal<DU, DE, Goal<DU, DE>> {
    let q = vars.v[0].clone();
    let x = vars.v[1].clone();
    proto_vulcan!([conde { [[[2]] == q, [1, [x, [], _]] == x], [[x, [2], [2 | q]] == [2, [1]], x == [[2 | 2], [2, 3] | x], |z| { false, [[2, z, z], [], z] == q }] }])
}
pub fn case_366(vars: &Vars) -> InferredGoal<DU, DE, Goal<DU, DE>> {
    let x = vars.v[0].clone();
    let y = vars.v[1].clone();
    proto_vulcan!([true, onceo { |t| { |t| { append(x, t, [2]), [[_], [1, 2 | 1], [x, 1, x]] != t }, [[] | y] != [x] } }])
}
pub fn case_367(vars: &Vars) -> InferredGoal<DU, DE, Goal<DU, DE>> {
    let q = vars.v[0].clone();
    let x = vars.v[1].clone();
    proto_vulcan!([[_ != q, conde { [true, [[2, x, 2 | x]] == [[3, x], [2], true]], member(q, [2]), x != [[_, 2, 1 | x] | x] }, conda { conda { [true, 3 == x], member(x, [3, 2, 3]) }, [q == q, onceo { q == [] }] }], conde { [[|x| { q == [[], [[], x], [x]], member(x, []), [[q, q, q], x | x] != [[x, [] | x]] }, |x| { [[x | q], 2] == 'b' }], q == q], [_ == q, [[3, _, 1], [1, 'a'], [q, q, _]] != 1] }, closure { [_ == x, |y, t| { y == 3, [x, [3], []] == y }] }])
}
pub fn case_368(vars: &Vars) -> InferredGoal<DU, DE, Goal<DU, DE>> {
    let x = vars.v[0].clone();
    proto_vulcan!([x == [[], 3], [[x, 3 | x]] != x, 3 == x])
}
pub fn case_369(vars: &Vars) -> InferredGoal<DU, DE, Goal<DU, DE>> {
    let x = vars.v[0].clone();
    proto_vulcan!([x == 1])
}
pub fn case_370(vars: &Vars) -> InferredGoal<DU, DE, Goal<DU, DE>> {
    let x = vars.v[0].clone();
    proto_vulcan!([false, [[[3, _, x], 'a' | x] == x, |z| { |h| { z == [[z, 2]], [2, [z, z, 2], [1 | z]] == h }, |t| { append(t, x, [2]), true, append(t, z, [1]) } }, x == x]])
}
pub fn case_371(vars: &Vars) -> InferredGoal<DU, DE, Goal<DU, DE>> {
    let q = vars.v[0].clone();
    let x = vars.v[1].clone();
    proto_vulcan!([[x == 3, [[member(q, [2, 3, 2])], x == [[3, 2, 1 | x] | _]], 2 == _]])
}
pub fn case_372(vars: &Vars) -> InferredGoal<DU, DE, Goal<DU, DE>> {
    let x = vars.v[0].clone();
    let y = vars.v[1].clone();
    proto_vulcan!([[|z, y| { z != 1 }]])
}
pub fn case_373(vars: &Vars) -> InferredGoal<DU, DE, Goal<DU, DE>> {
    let x = vars.v[0].clone();
    let y = vars.v[1].clone();
    proto_vulcan!([false, |h| { [1] != x }, onceo { |x| { append(x, y, []), [2] == [[2], y | x] } }])
}
pub fn case_374(vars: &Vars) -> InferredGoal<DU, DE, Goal<DU, DE>> {
    let q = vars.v[0].clone();
    let x = vars.v[1].clone();
    proto_vulcan!([conda { x == x, [x == 1, |z, x| { |t| { x == 'a' }, |x| { [x | x] == x, [x, 2] == x, q == [[false], [], []] }, |y, x| { [2] != z } }], [x == 1, _ == x] }, [x == [[q, q | x], [true | x]]], [x] == [1]])
}
pub fn case_375(vars: &Vars) -> InferredGoal<DU, DE, Goal<DU, DE>> {
    let q = vars.v[0].clone();
    let x = vars.v[1].clone();
    proto_vulcan!(["a" != q, conde { [onceo { condu { [false, 3 == q] } }, [['b', []], [[], 2], x] == q], [["bc", x | q], [2, "a"] | x] != q, |t| { |y, x| { y == [2 | t], [] == q } } }, [false, [q == q], [[[2, [] | x]] == 2]]])
}
pub fn case_376(vars: &Vars) -> InferredGoal<DU, DE, Goal<DU, DE>> {
    let x = vars.v[0].clone();
    let y = vars.v[1].clone();
    proto_vulcan!([false])
}
pub fn case_377(vars: &Vars) -> InferredGoal<DU, DE, Goal<DU, DE>> {
    let x = vars.v[0].clone();
    proto_vulcan!([[conde { [[] != [x], [[2, 2, 1]] == x], [|y| { [3, [2, 'b'], [x, x]] == y }, conde { true, [x != x, append(x, x, [])], append(x, x, [3]) }], [append(x, x, [2, 2]), x == [[x], [[], [], x], [[]] | x]] }, conde { [|z| { [[1]] == 3, [[x], x, z] == z, [[z]] == z }, false], x == [2], [x == [[1, 'b']], x != 2] }, [[3, 1 | 2], x, [x, 2, x]] != x], 1 != x, closure { conde { [conda { [[[], []], [x, x | x], [] | x] != [x, [_, 2], [x, [], 1] | x] }, onceo { append(x, x, [2, 3]) }], [x, [2, 'b'], [3, [], []]] == 1, [|x| { false }, x == x] } }])
}
pub fn case_378(vars: &Vars) -> InferredGoal<DU, DE, Goal<DU, DE>> {
    let q = vars.v[0].clone();
    let x = vars.v[1].clone();
    proto_vulcan!([true, q == [[q, "bc"]], q != [['a' | 1], [false, 3, q | x]]])
}
pub fn case_379(vars: &Vars) -> InferredGoal<DU, DE, Goal<DU, DE>> {
    let x = vars.v[0].clone();
    let y = vars.v[1].clone();
    proto_vulcan!([onceo { [[x, x, x], [2, [] | 2], 2] != x }, member(x, [1, 2]), closure { x == ['a'] }])
}
pub fn case_380(vars: &Vars) -> InferredGoal<DU, DE, Goal<DU, DE>> {
    let x = vars.v[0].clone();
    proto_vulcan!([|h, y| { [[h], [], h] == x, true }, _ != [[x, 2, _] | x], closure { [_ != [1, [2], "a"], x == _] }])
}
pub fn case_381(vars: &Vars) -> InferredGoal<DU, DE, Goal<DU, DE>> {
    let x = vars.v[0].clone();
    proto_vulcan!([[x] == x, x == x])
}
pub fn case_382(vars: &Vars) -> InferredGoal<DU, DE, Goal<DU, DE>> {
    let x = vars.v[0].clone();
    let y = vars.v[1].clone();
    proto_vulcan!([[[3, x], [y, y, _]] == x, [1 == [[y, y]]], conde { [2] != y, [[y] | x] == [] }])
}
pub fn case_383(vars: &Vars) -> InferredGoal<DU, DE, Goal<DU, DE>> {
    let x = vars.v[0].clone();
    let y = vars.v[1].clone();
    proto_vulcan!([[[2, 3 | y], [1, y, false], [y, x, [] | x]] == x, [] == x, x == [[x, _], [x], [y, y] | y], closure { [|h, t| { conda { [y == _, [y, _ | h] != [y | h]], [[[y, true, []], [false, x], [y, 1, t] | t] != [[t | h], 1], true], [_ != [[t, 2 | y], [t, "bc", []]], h == y] }, |z, h| { [[3], z, [_, t] | z] == h, true, false } }, 1 == y] }])
}
pub fn case_384(vars: &Vars) -> InferredGoal<DU, DE, Goal<DU, DE>> {
    let x = vars.v[0].clone();
    proto_vulcan!([[] == [[x, _], [1, _]]])
}
pub fn case_385(vars: &Vars) -> InferredGoal<DU, DE, Goal<DU, DE>> {
    let x = vars.v[0].clone();
    proto_vulcan!([conda { [member(x, [3, 3]), "bc" != x], [x == 2, x == x] }])
}
pub fn case_386(vars: &Vars) -> InferredGoal<DU, DE, Goal<DU, DE>> {
    let q = vars.v[0].clone();
    let x = vars.v[1].clone();
    proto_vulcan!([1 == [[x], [] | q], conde { [_ == x], [x, [3, q | x], [q]] != x, x == q }, [[x, [], _] | x] != [[3, [], []], 3, x], closure { [condu { conde { [[] | x] == x, [x == [[1]], [] == x], [q == x, [[q, x], [[]]] == [[q, x, 3], 2 | "a"]] }, x == q, [q == _, x == 1] }, true] }])
}
pub fn case_387(vars: &Vars) -> InferredGoal<DU, DE, Goal<DU, DE>> {
    let x = vars.v[0].clone();
    proto_vulcan!([member(x, [3, 1]), x == [[3, _, 1], [_, 1]], x == [[x], [x, x, []], 2]])
}
pub fn case_388(vars: &Vars) -> InferredGoal<DU, DE, Goal<DU, DE>> {
    let q = vars.v[0].clone();
    let x = vars.v[1].clone();
    proto_vulcan!([x == q, 2 == q, |y, x| { |h, x| { [[x, [_, x] | x] == h, y == [[]]], x == 1, [3, [h, _], [[], _, _ | h]] == [1, [_, _, y]] } }])
}
pub fn case_389(vars: &Vars) -> InferredGoal<DU, DE, Goal<DU, DE>> {
    let q = vars.v[0].clone();
    let x = vars.v[1].clone();
    proto_vulcan!([true, q != [[true, x, "a"], [2], [_, "a"]], conde { append(q, x, [1]), [|h, x| { h != [[q, _, []], [3, false]] }, conda { x == [[q | x], [q, q | x]] }], [append(x, q, [3, 3]), append(x, q, [3, 1])] }])
}
pub fn case_390(vars: &Vars) -> InferredGoal<DU, DE, Goal<DU, DE>> {
    let q = vars.v[0].clone();
    let x = vars.v[1].clone();
    proto_vulcan!([q == [[_ | q] | x], conde { [[] != [], x == 1], [append(q, x, []), [[x | x], [x, q | q] | q] != q] }, x == q])
}
pub fn case_391(vars: &Vars) -> InferredGoal<DU, DE, Goal<DU, DE>> {
    let x = vars.v[0].clone();
    proto_vulcan!([[x, x | x] == x, conde { [1, [1 | x]] == 3, |x, z| { false } }, append(x, x, [])])
}
pub fn case_392(vars: &Vars) -> InferredGoal<DU, DE, Goal<DU, DE>> {
    let x = vars.v[0].clone();
    proto_vulcan!([|y| { [[3, x, x], x, y] != x }, [[1 | x], [_, x]] == x, |x, h| { |h, x| { |t, y| { [[t, x, t]] == [x, 2], t != x }, conde { [[[3, 2], "a", x] != [], true], [h == 2, [[x | h], [h, x | h], 2] == x], [] != x } }, h != 2 }])
}
pub fn case_393(vars: &Vars) -> InferredGoal<DU, DE, Goal<DU, DE>> {
    let q = vars.v[0].clone();
    let x = vars.v[1].clone();
    proto_vulcan!([[[q, 1]] == q])
}
pub fn case_394(vars: &Vars) -> InferredGoal<DU, DE, Goal<DU, DE>> {
    let q = vars.v[0].clone();
    let x = vars.v[1].clone();
    proto_vulcan!([x == 1])
}
pub fn case_395(vars: &Vars) -> InferredGoal<DU, DE, Goal<DU, DE>> {
    let x = vars.v[0].clone();
    let y = vars.v[1].clone();
    proto_vulcan!([true, closure { [x == [[y], [[], y, 1], [] | y], [x, [1], [y, y, _]] == y] }])
}
pub fn case_396(vars: &Vars) -> InferredGoal<DU, DE, Goal<DU, DE>> {
    let q = vars.v[0].clone();
    let x = vars.v[1].clone();
    proto_vulcan!([conde { [[[_, [], x | _], [q, []], [x, _, x]] == q, _ != [[true | x], _, 1]], [[1, _ | x], [1, 2 | x], 1 | x] == [[q], [], q | q], [[[q], [q, [], 2] | x] == x, [[q]] == x] }, condu { false }])
}
pub fn case_397(vars: &Vars) -> InferredGoal<DU, DE, Goal<DU, DE>> {
    let x = vars.v[0].clone();
    proto_vulcan!([2 != x, onceo { conda { [conda { x == [[3, 2, false], [false]], x == [2] }, x == x], [[member(x, [2])], 'b' == 1] } }])
}
pub fn case_398(vars: &Vars) -> InferredGoal<DU, DE, Goal<DU, DE>> {
    let x = vars.v[0].clone();
    let y = vars.v[1].clone();
    proto_vulcan!([[1, [_, [], y], [1, [], []] | x] == x, |z| { z == [[y, y] | y], y != x }, conde { [[3, [2] | y] == [[1, "bc"], 1], 2 != [x, [_, y | x], [x, _, 1] | x]], [append(y, x, [3, 1]), [[y | y], y, [] | y] == _], x == x }, closure { [["a", 1] == y, [[y, 'b' | x] | x] == y] }])
}
pub fn case_399(vars: &Vars) -> InferredGoal<DU, DE, Goal<DU, DE>> {
    let q = vars.v[0].clone();
    let x = vars.v[1].clone();
    proto_vulcan!([true, onceo { member(q, [2]) }, |z, h| { condu { [false, member(h, [])], false }, |z| { z != [[x, 2, "a" | 'a'], [_, z]], [true, h != _] }, onceo { [[[h, h | z], [q, q, x], q] != [[[], 2, q | x]]] } }])
}
pub fn case_400(vars: &Vars) -> InferredGoal<DU, DE, Goal<DU, DE>> {
    let x = vars.v[0].clone();
    let y = vars.v[1].clone();
    proto_vulcan!([y != [], true, closure { ["a" != [x], 1 == y] }])
}
pub fn case_401(vars: &Vars) -> InferredGoal<DU, DE, Goal<DU, DE>> {
    let x = vars.v[0].clone();
    proto_vulcan!([x == [x, [_, 'a', 2]]])
}
pub fn case_402(vars: &Vars) -> InferredGoal<DU, DE, Goal<DU, DE>> {
    let q = vars.v[0].clone();
    let x = vars.v[1].clone();
    proto_vulcan!([3 == [[x, q, []]], 1 == [[] | _], x == [2, 2, [x] | x]])
}
pub fn case_403(vars: &Vars) -> InferredGoal<DU, DE, Goal<DU, DE>> {
    let x = vars.v[0].clone();
    proto_vulcan!([[_] == x, false, [[_, x], [x, 1, x | x], [3]] == [[x, x, 2], x, [false | x] | x], closure { |y, t| { [y, [1, _, x], [t, t, t | x]] == 2 } }])
}
pub fn case_404(vars: &Vars) -> InferredGoal<DU, DE, Goal<DU, DE>> {
    let x = vars.v[0].clone();
    proto_vulcan!([x != [[[], x], [3, x] | x], x == [], [_ | x] == x])
}
pub fn case_405(vars: &Vars) -> InferredGoal<DU, DE, Goal<DU, DE>> {
    let x = vars.v[0].clone();
    let y = vars.v[1].clone();
    proto_vulcan!([[3 | x] == 2, [[false | true], [[]], [y, 'a', 2]] == y])
}
pub fn case_406(vars: &Vars) -> InferredGoal<DU, DE, Goal<DU, DE>> {
    let x = vars.v[0].clone();
    proto_vulcan!([conde { [1 == 1, x == x], x != x, [3, [_, 'b' | x] | x] == x }, x == x, |z| { conde { [] == _, [[[[]] | z] == [[3, x], 3], |x, h| { [[2, _, 'a'] | 2] == z, false }], [[[_], [[], x, _ | z] | x] == z, append(x, z, [2, 3])] } }])
}
pub fn case_407(vars: &Vars) -> InferredGoal<DU, DE, Goal<DU, DE>> {
    let q = vars.v[0].clone();
    let x = vars.v[1].clone();
    proto_vulcan!([conde { q == [[x, 1 | _], x | q], [[1] != 3, onceo { x == [_, 2] }] }, [] != q, 1 != x, closure { [[q, ['b', 3]] == x, |z| { |t, z| { z != [[_ | t]], true, t != [[q | z], [x | z], t | 3] } }] }])
}
pub fn case_408(vars: &Vars) -> InferredGoal<DU, DE, Goal<DU, DE>> {
    let x = vars.v[0].clone();
    let y = vars.v[1].clone();
    proto_vulcan!([2 != x])
}
pub fn case_409(vars: &Vars) -> InferredGoal<DU, DE, Goal<DU, DE>> {
    let x = vars.v[0].clone();
    proto_vulcan!([[["bc", 1, _], _, [x | x] | x] == x, conda { [conde { [onceo { [[1, [], 3], [x, 2, false], x] == [[[]], x] }, conde { [1 != x, 1 == [[x, x, x], [x, x]]], [[[_, 2], [[]], 3] == [[x | x], [x, 2, _], "a"], x == x], [2 != x, member(x, [])] }], [x == x, [2, [x, x, 1 | x], [x, true, 1] | _] == x], false }, |z| { [] == [[1, 1 | x], 1, [z, x | x] | x], x == [x, [2]] }], [|x| { true, [true], [2] == x }, |z, t| { |y, z| { x == [[_]] }, _ == t }], |x| { |y| { [x] == y }, x == 3, [[x, x] == x, x == [[x]]] } }, member(x, [2, 1]), closure { [conda { conde { [[[x, 3]] == [x, 1, 2], true], 1 != [[x] | x], [x != [[x, x, _ | x], false, [1, x]], [[x, x, 1], [x], x | 2] == x] }, [conde { x == [[x, _, 3 | x], [x], [1, true]], append(x, x, [1]), [x == [[1, x, x | x] | _], false] }, append(x, x, [3])], [] == x }, [[member(x, [2])], 2 == [['a', 'a', 'a'], [_, 2, []], x], conde { append(x, x, [3]), append(x, x, [3, 1]), x == [[x, 1, 3], [x, x], [x, 3, x]] }]] }])
}
pub fn case_410(vars: &Vars) -> InferredGoal<DU, DE, Goal<DU, DE>> {
    let q = vars.v[0].clone();
    let x = vars.v[1].clone();
    proto_vulcan!([[[[q] == q, conde { [[_, q], [x, 2, 2], [_, 1, 'a'] | q] == [2], x == 1 }, [[_, ["bc", q | x], [x | x] | q] == [[q, q]], q == q, true]]], q == q, closure { [|t| { conde { [[[3, t, q], [x, q, 3] | q] == q, 2 == [t, ["bc", q, x] | q]], [member(t, [1, 2]), member(q, [1, 3])], [member(x, [1, 2]), member(t, [])] }, q != [[2, _, 2], [q, "a", _ | q], true], onceo { t == [x, 2, [x]] } }, [[3, _ | q], 1, _ | q] != [[1, _, "a"], [_], [1, q, 3]]] }])
}
pub fn case_411(vars: &Vars) -> InferredGoal<DU, DE, Goal<DU, DE>> {
    let q = vars.v[0].clone();
    let x = vars.v[1].clone();
    proto_vulcan!([[[x], [q]] == q])
}
pub fn case_412(vars: &Vars) -> InferredGoal<DU, DE, Goal<DU, DE>> {
    let x = vars.v[0].clone();
    proto_vulcan!([x == [x, _ | "bc"], onceo { x == [[2], [x, false] | x] }, condu { [[[_, 2, 2], x] == _, onceo { [2 == 1, x == [[_, _]]] }], [true, conde { true, [append(x, x, []), [x] == [[_], [x, "bc"], [x]], x == [[x, 1, x]]], append(x, x, []) }] }])
}
pub fn case_413(vars: &Vars) -> InferredGoal<DU, DE, Goal<DU, DE>> {
    let x = vars.v[0].clone();
    let y = vars.v[1].clone();
    proto_vulcan!([conde { conde { [[[[]] | x] == [false, y, [x, 2] | x], [[2, x, y], [1], [1] | y] == y], y == x, 2 == x }, [conda { ["bc" == [[], [[], x | 1], [2, _, y]], [y, y, [y | y] | 2] == y] }, member(y, [3, 1, 2])], [x == [[x], 'a'], [[x], [x, 1], x] != 3] }, [[_] | 1] == x, closure { |z, t| { |x| { [z, [z, 3, 3]] != [[1, z, z | t] | t] } } }])
}
pub fn case_414(vars: &Vars) -> InferredGoal<DU, DE, Goal<DU, DE>> {
    let x = vars.v[0].clone();
    proto_vulcan!([conde { conda { [conde { [[[x, x, 2]] == x, [[_, _, _]] != x], member(x, [3, 1]), [member(x, [2, 3]), x == x] }, [append(x, x, [3, 2]), [[_, [], x]] != x]], conde { [[x, [x], 2] == x, [[x, x | x], [x], [x, 3]] == x], x != [[[]]] } }, |t| { conde { ['b' == t, true], [3 == true, true], [t == 'b', true] }, conde { t == 3, [[x | t]] != [[x | t], [x, t, x], [_, 2]] }, [[x | t], ["bc" | x]] != [1 | t] } }, closure { |y| { |h| { true, [1, 3] == h }, [append(x, y, [3]), y == [[], [2, 1], [false]], false], 3 == x } }])
}
pub fn case_415(vars: &Vars) -> InferredGoal<DU, DE, Goal<DU, DE>> {
    let x = vars.v[0].clone();
    let y = vars.v[1].clone();
    proto_vulcan!([x != [[x, y] | y], |x, h| { [true] }])
}
pub fn case_416(vars: &Vars) -> InferredGoal<DU, DE, Goal<DU, DE>> {
    let x = vars.v[0].clone();
    proto_vulcan!([[[1, x, x], [[], x, true], [x, 'b', x]] == [["a", [], true | x], [x, []], _ | 'b'], [1, [1, x, 2], [[] | x]] == x])
}
pub fn case_417(vars: &Vars) -> InferredGoal<DU, DE, Goal<DU, DE>> {
    let q = vars.v[0].clone();
    let x = vars.v[1].clone();
    proto_vulcan!([x == ['a', [q, 2, 3 | 2], [q]], [1, 2, [x | q]] == q, q == x])
}
pub fn case_418(vars: &Vars) -> InferredGoal<DU, DE, Goal<DU, DE>> {
    let x = vars.v[0].clone();
    let y = vars.v[1].clone();
    proto_vulcan!([|h, x| { [1, 3 | x] != x }])
}
pub fn case_419(vars: &Vars) -> InferredGoal<DU, DE, Goal<DU, DE>> {
    let x = vars.v[0].clone();
    proto_vulcan!([[[2], x, ["a", x | _]] != x, |h| { 2 == [[h | h], _], [[x, x, h | _], x | h] == [[[], 3], [[]], _ | h], member(h, [1]) }])
}
pub fn case_420(vars: &Vars) -> InferredGoal<DU, DE, Goal<DU, DE>> {
    let x = vars.v[0].clone();
    let y = vars.v[1].clone();
    proto_vulcan!([[[y, _ | y]] == y, |z, x| { [[x, _, _ | _] | x] == y, [] == x, true }, |x, z| { [x == 2, [[[]], [[], z, 1], [3]] == y], [|x, h| { append(x, y, [1]), [[3, x, 2], [_, z | x], [_, z, x] | 3] == ['b', [h, 1] | z] }, 3 != x, [x == [["bc", x], [y, [] | z] | y], [] != [[]]]], ['a', [z], x] == 'a' }, closure { |z| { conda { [x == [[2, "a"]], [[1], [_, 1 | y]] != y], [[[1, x | 3], ['b'], [y, [], []]] == y, [x] == [[x, _] | z]] }, |x, t| { x == [2, [y] | x] } } }])
}
pub fn case_421(vars: &Vars) -> InferredGoal<DU, DE, Goal<DU, DE>> {
    let x = vars.v[0].clone();
    let y = vars.v[1].clone();
    proto_vulcan!([conde { x == [[], 'a', 2], [|z| { [[_, x, []]] != [[], 'a' | 2], |h| { x == [[1, 1, 1 | h], [y, 2, 2]] }, y == [[y]] }, y == x], [|z, t| { true, true }, true] }])
}
pub fn case_422(vars: &Vars) -> InferredGoal<DU, DE, Goal<DU, DE>> {
    let x = vars.v[0].clone();
    proto_vulcan!([|y| { y == x, [conde { y == [[1 | x], [x, 1, []] | y], [[[1, "a" | x], y | y] == 2, false] }] }, [|z| { z != [[_]], x == [[2], 3] }]])
}
pub fn case_423(vars: &Vars) -> InferredGoal<DU, DE, Goal<DU, DE>> {
    let x = vars.v[0].clone();
    proto_vulcan!([[append(x, x, []), [[2, 3 | x], x, [2]] == x]])
}
pub fn case_424(vars: &Vars) -> InferredGoal<DU, DE, Goal<DU, DE>> {
    let x = vars.v[0].clone();
    let y = vars.v[1].clone();
    proto_vulcan!([[x | _] == y, conde { onceo { [[2, y | 2], [2, y]] == [y] }, conde { [[x, _, [] | 2], [y, 2, [] | x], [x, x, 'a']] != x, [append(x, y, [1, 2])] } }, conde { [3 == x, _ != y], [x == [], onceo { [] == [[x] | y] }], [[[2, x | y]] == x, |t, h| { h == [_, ['a', y, 'a'], [_]], [h] == t }] }])
}
pub fn case_425(vars: &Vars) -> InferredGoal<DU, DE, Goal<DU, DE>> {
    let q = vars.v[0].clone();
    let x = vars.v[1].clone();
    proto_vulcan!([conde { q == [false, [1]], [[_, _], [q] | q] == x }, |x, h| { x == [x, 2], member(x, []), h != [[x, x, [] | x]] }, x == false, closure { condu { [2 == true, [[1, x], [x, x, "bc"], ["a", x, 3]] != x] } }])
}
pub fn case_426(vars: &Vars) -> InferredGoal<DU, DE, Goal<DU, DE>> {
    let q = vars.v[0].clone();
    let x = vars.v[1].clone();
    proto_vulcan!([conde { conda { [|y, z| { q == [[q]] }, |x| { [[[], 1 | _], 2] == x, [x] == x, [[x, x, 'b'], [], q | x] == x }] }, [x, [x, x, 3] | 3] == x }, condu { [|z| { |t, z| { member(x, [3, 2, 3]), [[1, 'b', z]] == z }, |y| { [[q, q]] == z, [[y, []]] != x }, [false] }, |y| { [_, y, 2] != 2, _ == 1 }] }])
}
pub fn case_427(vars: &Vars) -> InferredGoal<DU, DE, Goal<DU, DE>> {
    let x = vars.v[0].clone();
    let y = vars.v[1].clone();
    proto_vulcan!([|z| { append(x, z, [1]), [[[2, y, 2]] != x, 'a' == z, [[x], [x, z, z]] != [1, y, "a"]], [[3]] == [[z], [_, 3, x] | x] }, true, onceo { [[y, x]] == [[x]] }])
}
pub fn case_428(vars: &Vars) -> InferredGoal<DU, DE, Goal<DU, DE>> {
    let q = vars.v[0].clone();
    let x = vars.v[1].clone();
    proto_vulcan!([|x| { |z| { [3] == x, |t| { [[1, 2, z], ['a' | q], x | q] == x, [[[], true, x | x], [x, q, 'a'], ['a', t]] != [3, [[]]], z == [z, [t], []] }, |t| { true, member(x, []) } }, x == x, append(q, q, [2]) }, [x == [[x, _, []] | x], member(q, [])], true])
}
pub fn case_429(vars: &Vars) -> InferredGoal<DU, DE, Goal<DU, DE>> {
    let x = vars.v[0].clone();
    let y = vars.v[1].clone();
    proto_vulcan!([conda { [[[], [[]] | x] == x, [[y, []], 'a'] == x], append(x, x, [3, 2]) }, y == _])
}
pub fn case_430(vars: &Vars) -> InferredGoal<DU, DE, Goal<DU, DE>> {
    let x = vars.v[0].clone();
    let y = vars.v[1].clone();
    proto_vulcan!([matche [3, "a" | y] { [[z], [y, 3, 1 | _], 1 | _] | h => { match x { 1 => { match x { ["a", 3, [t, x]] => , [[1, h, t | y], [[], _], [z]] => , [h, 2] | [[1 | x], [1 | _], [t, 1, h | 3] | h] => [[h, [_, h, h]] == [["a", [], h], [2 | 3]], [["bc", h], ['a', 1], [1] | h] == 2], }, x != _ }, [[3, _, y], [2, 2, t]] => , }, 1 == 3 }, true => { [[y, 1], [x, 1, x | x], 1] == [[3], false] }, "bc" | 3 => , }, y == [[[] | y]], x != []])
}
pub fn case_431(vars: &Vars) -> InferredGoal<DU, DE, Goal<DU, DE>> {
    let x = vars.v[0].clone();
    let y = vars.v[1].clone();
    proto_vulcan!([matche [3, "a" | y] { [[z], [y, 3, 1 | _], 1 | _] | h => { match x { 1 => { match x { ["a", 3, [t, x]] => , [[1, h, t | y], [[], _], [fresh_name_9]] => , [h, 2] | [[1 | x], [1 | _], [t, 1, h | 3] | h] => [[h, [_, h, h]] == [["a", [], h], [2 | 3]], [["bc", h], ['a', 1], [1] | h] == 2], }, x != _ }, [[3, _, y], [2, 2, t]] => , }, 1 == 3 }, true => { [[y, 1], [x, 1, x | x], 1] == [[3], false] }, "bc" | 3 => , }, y == [[[] | y]], x != []])
}
pub fn case_432(vars: &Vars) -> InferredGoal<DU, DE, Goal<DU, DE>> {
    let x = vars.v[0].clone();
    proto_vulcan!([match x { [[2, true, 1 | 2]] => { matche x { [] => , [[h, 1, "bc"]] => { [[_ | x], [1, 3 | h], x] == [3, ["a", 3, x], [[], 'b'] | h] }, h => { x == x }, }, 'a' == [2] }, [[2, _, 1], [3 | h], 1] | [[x, true, 2], [x, 2], false] => , }, [x, [x], [x, 1, x] | x] == [[x], [2, 2, x], [x | x]]])
}
pub fn case_433(vars: &Vars) -> InferredGoal<DU, DE, Goal<DU, DE>> {
    let x = vars.v[0].clone();
    proto_vulcan!([match x { [[2, true, 1 | 2]] => { matche x { [] => , [[fresh_name_9, 1, "bc"]] => { [[_ | x], [1, 3 | fresh_name_9], x] == [3, ["a", 3, x], [[], 'b'] | fresh_name_9] }, h => { x == x }, }, 'a' == [2] }, [[2, _, 1], [3 | h], 1] | [[x, true, 2], [x, 2], false] => , }, [x, [x], [x, 1, x] | x] == [[x], [2, 2, x], [x | x]]])
}
pub fn case_434(vars: &Vars) -> InferredGoal<DU, DE, Goal<DU, DE>> {
    let x = vars.v[0].clone();
    proto_vulcan!([|h| { [[2, _, 3], 'a' | x] != [h, [h, x]], x == x }, |z| { conde { [[] == [[x, x]], false], [[[1, x, x], [x, true, "bc"]] == [[3 | z], _], z != _] } }, closure { [[[x], ['b', 1, 3], 2] == x, match x { x => , [1, 2, [h]] => |z, h| { [[z, h, 3 | x] | x] == 1, append(h, x, []), append(h, z, [3, 2]) }, [[y, 'b'], [1, h], [[]]] | 1 => , }] }])
}
pub fn case_435(vars: &Vars) -> InferredGoal<DU, DE, Goal<DU, DE>> {
    let x = vars.v[0].clone();
    proto_vulcan!([|h| { [[2, _, 3], 'a' | x] != [h, [h, x]], x == x }, |z| { conde { [[] == [[x, x]], false], [[[1, x, x], [x, true, "bc"]] == [[3 | z], _], z != _] } }, closure { [[[x], ['b', 1, 3], 2] == x, match x { x => , [1, 2, [h]] => |z, fresh_name_9| { [[z, fresh_name_9, 3 | x] | x] == 1, append(fresh_name_9, x, []), append(fresh_name_9, z, [3, 2]) }, [[y, 'b'], [1, h], [[]]] | 1 => , }] }])
}
pub fn case_436(vars: &Vars) -> InferredGoal<DU, DE, Goal<DU, DE>> {
    let x = vars.v[0].clone();
    let y = vars.v[1].clone();
    proto_vulcan!([match x { t => { match y { ["bc", 2] => , y => , } }, }, |t| { [append(x, y, [3]), conde { member(t, [1, 2, 2]), [_, [y, 2 | x], 1] == [2, [2, t], 1 | y] }, match [3, []] { [[1, 3, y], h, 2 | z] => , [[[], h | 'b'], y] => , [] => { x != t }, }], [[x, x, t], [2 | x]] != 2 }, closure { [conde { |t| { [[1, y, []], y, [1, 1, _] | x] != x }, [y != 'a', matche x { 2 => x == _, [[x], [h, "bc", 1], z] | x => , }], [[member(x, [1]), member(x, [1]), [[1, x], ['a'] | y] == x], x == 2] }, x == x] }])
}
pub fn case_437(vars: &Vars) -> InferredGoal<DU, DE, Goal<DU, DE>> {
    let x = vars.v[0].clone();
    let y = vars.v[1].clone();
    proto_vulcan!([match x { t => { match y { ["bc", 2] => , y => , } }, }, |t| { [append(x, y, [3]), conde { member(t, [1, 2, 2]), [_, [y, 2 | x], 1] == [2, [2, t], 1 | y] }, match [3, []] { [[1, 3, y], h, 2 | fresh_name_9] => , [[[], h | 'b'], y] => , [] => { x != t }, }], [[x, x, t], [2 | x]] != 2 }, closure { [conde { |t| { [[1, y, []], y, [1, 1, _] | x] != x }, [y != 'a', matche x { 2 => x == _, [[x], [h, "bc", 1], z] | x => , }], [[member(x, [1]), member(x, [1]), [[1, x], ['a'] | y] == x], x == 2] }, x == x] }])
}
pub fn case_438(vars: &Vars) -> InferredGoal<DU, DE, Goal<DU, DE>> {
    let q = vars.v[0].clone();
    let x = vars.v[1].clone();
    proto_vulcan!([match x { [3, [3], z | _] => [match z { [[1], t] => { [q == q], [x == [[2, z | q]], [q, []] == z, [2, [[]], [x, 1, []]] == [[t], t, 2]] }, z => , t => , }, |t| { [_] == q }], }])
}
pub fn case_439(vars: &Vars) -> InferredGoal<DU, DE, Goal<DU, DE>> {
    let q = vars.v[0].clone();
    let x = vars.v[1].clone();
    proto_vulcan!([match x { [3, [3], z | _] => [match z { [[1], t] => { [q == q], [x == [[2, z | q]], [q, []] == z, [2, [[]], [x, 1, []]] == [[t], t, 2]] }, z => , t => , }, |fresh_name_9| { [_] == q }], }])
}
pub fn case_440(vars: &Vars) -> InferredGoal<DU, DE, Goal<DU, DE>> {
    let q = vars.v[0].clone();
    let x = vars.v[1].clone();
    proto_vulcan!([conde { [q == [[[] | x]], conde { ["a" != [], true], [2 == q, x == x] }, x == []], [[[1] | 1] == [q, [q], [[]]], [[false, x, q | q], [q]] == [q, [3] | q]] }, conde { [matche q { x => , [[2, [], 2] | t] => { match t { [2, ["a"], [z] | y] | ['a'] => , [[y, h, "bc" | y]] => , }, false == [[]] }, }, conde { [conde { [[3, 2, 1], [x, _ | 2]] == [], [[2, "bc", x]] == [[q], [_]], [q != [], [[[]], 1, []] == [[2, x, q | q], [2, 2, _ | q], [q, q, 1]]] }, |y, t| { append(y, t, []), x != 3, [['b', q]] == q }], x == [[_, 3, 2]] }], [|t, z| { matche q { [[[], 3] | x] => { x == x }, 1 => { x == [[_ | z] | q] }, } }, conde { [[true], [x, [], 1 | x]] != 3, 1 == q }] }])
}
pub fn case_441(vars: &Vars) -> InferredGoal<DU, DE, Goal<DU, DE>> {
    let q = vars.v[0].clone();
    let x = vars.v[1].clone();
    proto_vulcan!([conde { [q == [[[] | x]], conde { ["a" != [], true], [2 == q, x == x] }, x == []], [[[1] | 1] == [q, [q], [[]]], [[false, x, q | q], [q]] == [q, [3] | q]] }, conde { [matche q { x => , [[2, [], 2] | t] => { match t { [2, ["a"], [z] | y] | ['a'] => , [[y, h, "bc" | y]] => , }, false == [[]] }, }, conde { [conde { [[3, 2, 1], [x, _ | 2]] == [], [[2, "bc", x]] == [[q], [_]], [q != [], [[[]], 1, []] == [[2, x, q | q], [2, 2, _ | q], [q, q, 1]]] }, |y, fresh_name_9| { append(y, fresh_name_9, []), x != 3, [['b', q]] == q }], x == [[_, 3, 2]] }], [|t, z| { matche q { [[[], 3] | x] => { x == x }, 1 => { x == [[_ | z] | q] }, } }, conde { [[true], [x, [], 1 | x]] != 3, 1 == q }] }])
}
pub fn case_442(vars: &Vars) -> InferredGoal<DU, DE, Goal<DU, DE>> {
    let q = vars.v[0].clone();
    let x = vars.v[1].clone();
    proto_vulcan!([[[x, x], ["a", _, q]] == x, |y, t| { match y { [t, [3, 2] | h] => , }, append(x, q, [1]) }, x == [[1, 3, x | q], [x, false, 3]]])
}
pub fn case_443(vars: &Vars) -> InferredGoal<DU, DE, Goal<DU, DE>> {
    let q = vars.v[0].clone();
    let x = vars.v[1].clone();
    proto_vulcan!([[[x, x], ["a", _, q]] == x, |fresh_name_9, t| { match fresh_name_9 { [t, [3, 2] | h] => , }, append(x, q, [1]) }, x == [[1, 3, x | q], [x, false, 3]]])
}
pub fn case_444(vars: &Vars) -> InferredGoal<DU, DE, Goal<DU, DE>> {
    let x = vars.v[0].clone();
    let y = vars.v[1].clone();
    proto_vulcan!([[append(x, y, [1]), [[x], [1, y], [y, "bc"]] == y], match x { [[y, 2, h], "bc"] => , [1, [[]], [t, _] | y] => { |t| { |z| { append(z, y, [2]) }, [1] == _, conde { [false, x == [[y | y]]], t == [y, []] } } }, }, [x, [1, _], x | x] == x])
}
pub fn case_445(vars: &Vars) -> InferredGoal<DU, DE, Goal<DU, DE>> {
    let x = vars.v[0].clone();
    let y = vars.v[1].clone();
    proto_vulcan!([[append(x, y, [1]), [[x], [1, y], [y, "bc"]] == y], match x { [[y, 2, h], "bc"] => , [1, [[]], [fresh_name_9, _] | y] => { |t| { |z| { append(z, y, [2]) }, [1] == _, conde { [false, x == [[y | y]]], t == [y, []] } } }, }, [x, [1, _], x | x] == x])
}
pub fn case_446(vars: &Vars) -> InferredGoal<DU, DE, Goal<DU, DE>> {
    let q = vars.v[0].clone();
    let x = vars.v[1].clone();
    proto_vulcan!([matche q { t => , h | [y, [1 | _]] => [q != [[q, 3, x | q], [q, 'a'] | q], [[x, _ | x] | q] == [[], _, false | x]], }, [x, _] == [3]])
}
pub fn case_447(vars: &Vars) -> InferredGoal<DU, DE, Goal<DU, DE>> {
    let q = vars.v[0].clone();
    let x = vars.v[1].clone();
    proto_vulcan!([matche q { fresh_name_9 => , h | [y, [1 | _]] => [q != [[q, 3, x | q], [q, 'a'] | q], [[x, _ | x] | q] == [[], _, false | x]], }, [x, _] == [3]])
}
pub fn case_448(vars: &Vars) -> InferredGoal<DU, DE, Goal<DU, DE>> {
    let x = vars.v[0].clone();
    proto_vulcan!([match [[], 2] { [[false, z, 1], t] => { [[1, [z | z] | z] == [true], false, [[x, x, []] | x] == z], conde { [match z { [_, [] | x] | [y, y] => { false }, _ => [[['b', 2 | z], [x], 1 | x] == z, [[2, x], [] | t] != 1], }, false], [member(x, []), conde { append(x, t, [2, 3]), [member(t, [2, 1, 3]), append(x, x, [2])] }], z == [['b', t | z]] } }, 1 => match x { _ => { [_, [x | 1] | x] == x, [[false | x]] == x }, [x, [2, z, []] | _] => , }, }])
}
pub fn case_449(vars: &Vars) -> InferredGoal<DU, DE, Goal<DU, DE>> {
    let x = vars.v[0].clone();
    proto_vulcan!([match [[], 2] { [[false, z, 1], t] => { [[1, [z | z] | z] == [true], false, [[x, x, []] | x] == z], conde { [match z { [_, [] | x] | [y, y] => { false }, _ => [[['b', 2 | z], [x], 1 | x] == z, [[2, x], [] | t] != 1], }, false], [member(x, []), conde { append(x, t, [2, 3]), [member(t, [2, 1, 3]), append(x, x, [2])] }], z == [['b', t | z]] } }, 1 => match x { _ => { [_, [x | 1] | x] == x, [[false | x]] == x }, [fresh_name_9, [2, z, []] | _] => , }, }])
}
pub fn case_450(vars: &Vars) -> InferredGoal<DU, DE, Goal<DU, DE>> {
    let q = vars.v[0].clone();
    let x = vars.v[1].clone();
    proto_vulcan!([q == [[[]]], |y| { 1 == q, conde { [[[[_, q, 1], y | x] == q, [] == [[y, y, false | x], [1, 1, 1 | y], [2 | _]]], [[q, q, q] | y] != [[q, x, q | _] | x]], [y == "bc", [[[], 1, _], "a"] == [[], [x, _]]], [y == [[q], [2 | y], [y, x] | _], y == [[], [1], q | y]] }, |z| { [[2, q], 2 | q] == q } }, [|y| { match q { [[_, _, []], [y, 1] | z] => , }, [y == [[x, [], 2] | y], false], match q { 3 => , } }], closure { [false, conde { true, [[false, [q, 3, _], "a"] != [x, [2, q], [q, x] | q], [q, [x, [] | 1], [q, 3, 2 | x]] != q], x == q }, [[x | x]] == q] }])
}
pub fn case_451(vars: &Vars) -> InferredGoal<DU, DE, Goal<DU, DE>> {
    let q = vars.v[0].clone();
    let x = vars.v[1].clone();
    proto_vulcan!([q == [[[]]], |y| { 1 == q, conde { [[[[_, q, 1], y | x] == q, [] == [[y, y, false | x], [1, 1, 1 | y], [2 | _]]], [[q, q, q] | y] != [[q, x, q | _] | x]], [y == "bc", [[[], 1, _], "a"] == [[], [x, _]]], [y == [[q], [2 | y], [y, x] | _], y == [[], [1], q | y]] }, |z| { [[2, q], 2 | q] == q } }, [|y| { match q { [[_, _, []], [fresh_name_9, 1] | z] => , }, [y == [[x, [], 2] | y], false], match q { 3 => , } }], closure { [false, conde { true, [[false, [q, 3, _], "a"] != [x, [2, q], [q, x] | q], [q, [x, [] | 1], [q, 3, 2 | x]] != q], x == q }, [[x | x]] == q] }])
}
pub fn case_452(vars: &Vars) -> InferredGoal<DU, DE, Goal<DU, DE>> {
    let x = vars.v[0].clone();
    proto_vulcan!([conde { [3, x | x] == [], [[x] != [[2, 'b' | x], x, 2], match [2, _] { [y, [x, "bc", 3]] => [member(x, [2]), member(x, [])], [[3 | t] | x] => , }], [[[[], x | x], []] == x, [[], x] == x] }, |h, z| { [[3, 2, 1 | z], "a", [z] | x] == [x, [z]], false, member(x, []) }])
}
pub fn case_453(vars: &Vars) -> InferredGoal<DU, DE, Goal<DU, DE>> {
    let x = vars.v[0].clone();
    proto_vulcan!([conde { [3, x | x] == [], [[x] != [[2, 'b' | x], x, 2], match [2, _] { [y, [x, "bc", 3]] => [member(x, [2]), member(x, [])], [[3 | t] | x] => , }], [[[[], x | x], []] == x, [[], x] == x] }, |fresh_name_9, z| { [[3, 2, 1 | z], "a", [z] | x] == [x, [z]], false, member(x, []) }])
}
pub fn case_454(vars: &Vars) -> InferredGoal<DU, DE, Goal<DU, DE>> {
    let q = vars.v[0].clone();
    let x = vars.v[1].clone();
    proto_vulcan!([|t| { [x == [_, t, 1], conde { [q != q, _ != t], q != q }], t != [[_, q, []], [t, q], ["a" | _]], 'a' == t }, q == q, q == [3, 2, [x, 1, "a"] | x]])
}
pub fn case_455(vars: &Vars) -> InferredGoal<DU, DE, Goal<DU, DE>> {
    let q = vars.v[0].clone();
    let x = vars.v[1].clone();
    proto_vulcan!([|fresh_name_9| { [x == [_, fresh_name_9, 1], conde { [q != q, _ != fresh_name_9], q != q }], fresh_name_9 != [[_, q, []], [fresh_name_9, q], ["a" | _]], 'a' == fresh_name_9 }, q == q, q == [3, 2, [x, 1, "a"] | x]])
}
pub fn case_456(vars: &Vars) -> InferredGoal<DU, DE, Goal<DU, DE>> {
    let q = vars.v[0].clone();
    let x = vars.v[1].clone();
    proto_vulcan!([|t, y| { [matche y { [[z, y]] => { false }, [[x, y]] => { q == x }, }, t == [[x]]], [match q { _ => , [y, [z, 2, h | y], [3, 2, _]] => [member(y, [2]), [2 | x] == [[[], false, 1 | t], [2, q, 3] | h]], z | [[2, z], h | y] => , }] }, conde { [[[x, x, x], [1, q]] == [[1, q, 1 | x], [q, q, _], [x, q, x] | q]], q == [[], q, [1]], q == [["bc"]] }, append(x, x, [3]), closure { [[_], x, [x] | x] == [[true, 3 | q], [], [_]] }])
}
pub fn case_457(vars: &Vars) -> InferredGoal<DU, DE, Goal<DU, DE>> {
    let q = vars.v[0].clone();
    let x = vars.v[1].clone();
    proto_vulcan!([|t, fresh_name_9| { [matche fresh_name_9 { [[z, y]] => { false }, [[x, y]] => { q == x }, }, t == [[x]]], [match q { _ => , [y, [z, 2, h | y], [3, 2, _]] => [member(y, [2]), [2 | x] == [[[], false, 1 | t], [2, q, 3] | h]], z | [[2, z], h | y] => , }] }, conde { [[[x, x, x], [1, q]] == [[1, q, 1 | x], [q, q, _], [x, q, x] | q]], q == [[], q, [1]], q == [["bc"]] }, append(x, x, [3]), closure { [[_], x, [x] | x] == [[true, 3 | q], [], [_]] }])
}
pub fn case_458(vars: &Vars) -> InferredGoal<DU, DE, Goal<DU, DE>> {
    let q = vars.v[0].clone();
    let x = vars.v[1].clone();
    proto_vulcan!([q == [[x, _, q], 2], |t| { [[[t, x], [_, x], ['b', t, 2 | q] | q] == _, conde { [t == 3, append(t, x, [3])], [q == [], false] }, member(x, [])] }])
}
pub fn case_459(vars: &Vars) -> InferredGoal<DU, DE, Goal<DU, DE>> {
    let q = vars.v[0].clone();
    let x = vars.v[1].clone();
    proto_vulcan!([q == [[x, _, q], 2], |fresh_name_9| { [[[fresh_name_9, x], [_, x], ['b', fresh_name_9, 2 | q] | q] == _, conde { [fresh_name_9 == 3, append(fresh_name_9, x, [3])], [q == [], false] }, member(x, [])] }])
}
pub fn case_460(vars: &Vars) -> InferredGoal<DU, DE, Goal<DU, DE>> {
    let x = vars.v[0].clone();
    let y = vars.v[1].clone();
    proto_vulcan!([[_] == x, match x { y => { x == y }, [[x, y, []]] => [x == [2, 3 | 2], |x, h| { append(h, x, [1]), conde { false, 1 != x } }], [[t, z, []], [_], [t, 1 | 2]] => { z != [x, [2, _, 2]], [[t, t, 'b' | t], [t, x]] == [[x, _, 3], x] }, }, y == [[2], 'a' | x]])
}
pub fn case_461(vars: &Vars) -> InferredGoal<DU, DE, Goal<DU, DE>> {
    let x = vars.v[0].clone();
    let y = vars.v[1].clone();
    proto_vulcan!([[_] == x, match x { y => { x == y }, [[x, y, []]] => [x == [2, 3 | 2], |fresh_name_9, h| { append(h, fresh_name_9, [1]), conde { false, 1 != fresh_name_9 } }], [[t, z, []], [_], [t, 1 | 2]] => { z != [x, [2, _, 2]], [[t, t, 'b' | t], [t, x]] == [[x, _, 3], x] }, }, y == [[2], 'a' | x]])
}
pub fn case_462(vars: &Vars) -> InferredGoal<DU, DE, Goal<DU, DE>> {
    let x = vars.v[0].clone();
    proto_vulcan!([x == [[2, 2, 3 | 'b'], "a", [x]], |x, t| { [[t, x, x], [[], _], t] == t, t != x }, [] == x])
}
pub fn case_463(vars: &Vars) -> InferredGoal<DU, DE, Goal<DU, DE>> {
    let x = vars.v[0].clone();
    proto_vulcan!([x == [[2, 2, 3 | 'b'], "a", [x]], |fresh_name_9, t| { [[t, fresh_name_9, fresh_name_9], [[], _], t] == t, t != fresh_name_9 }, [] == x])
}
pub fn case_464(vars: &Vars) -> InferredGoal<DU, DE, Goal<DU, DE>> {
    let x = vars.v[0].clone();
    let y = vars.v[1].clone();
    proto_vulcan!([[[1, _, x], [2 | y] | x] != y, [matche y { [[t, _ | t], 2, [1, y | h]] => [1 != t, [[y, "a" | true], [2, y, _ | 'a']] != [h, y]], 1 => , [[3, y, 2], [3, "a", 2] | _] => , }, x == [y, _ | x], false], |y| { [[_]] == y, |y, t| { true }, [[[], _, 'b'], [3, y]] == y }])
}
pub fn case_465(vars: &Vars) -> InferredGoal<DU, DE, Goal<DU, DE>> {
    let x = vars.v[0].clone();
    let y = vars.v[1].clone();
    proto_vulcan!([[[1, _, x], [2 | y] | x] != y, [matche y { [[fresh_name_9, _ | fresh_name_9], 2, [1, y | h]] => [1 != fresh_name_9, [[y, "a" | true], [2, y, _ | 'a']] != [h, y]], 1 => , [[3, y, 2], [3, "a", 2] | _] => , }, x == [y, _ | x], false], |y| { [[_]] == y, |y, t| { true }, [[[], _, 'b'], [3, y]] == y }])
}
pub fn case_466(vars: &Vars) -> InferredGoal<DU, DE, Goal<DU, DE>> {
    let q = vars.v[0].clone();
    let x = vars.v[1].clone();
    proto_vulcan!([q == ["a" | x], match x { [[z, z, t]] => , }, closure { [[x] == 1, x == 'a'] }])
}
pub fn case_467(vars: &Vars) -> InferredGoal<DU, DE, Goal<DU, DE>> {
    let q = vars.v[0].clone();
    let x = vars.v[1].clone();
    proto_vulcan!([q == ["a" | x], match x { [[fresh_name_9, fresh_name_9, t]] => , }, closure { [[x] == 1, x == 'a'] }])
}
pub fn case_468(vars: &Vars) -> InferredGoal<DU, DE, Goal<DU, DE>> {
    let x = vars.v[0].clone();
    proto_vulcan!([match [x, 2] { h | _ => , [y] | ["a", [h, _]] => [[] == [["bc", 1, true]], conde { append(x, x, [1, 2]), conde { x == [2 | x], [2 != _, [2, [2], [1, true, 2]] != x], x == [[x, _, 3], "bc"] }, [[[_ | x]] != x, [["bc"]] != [1]] }], [[false | 'b'], [2, h], []] => , }, [_ | "a"] == [[x, x, x], _, x], closure { [matche [x, x, 2] { _ => , }, |h| { conde { false, [true, [h, [h]] != [[], h, []]], x != ['b'] }, append(x, h, [3]), [2 != [[1 | x], x]] }] }])
}
pub fn case_469(vars: &Vars) -> InferredGoal<DU, DE, Goal<DU, DE>> {
    let x = vars.v[0].clone();
    proto_vulcan!([match [x, 2] { h | _ => , [y] | ["a", [h, _]] => [[] == [["bc", 1, true]], conde { append(x, x, [1, 2]), conde { x == [2 | x], [2 != _, [2, [2], [1, true, 2]] != x], x == [[x, _, 3], "bc"] }, [[[_ | x]] != x, [["bc"]] != [1]] }], [[false | 'b'], [2, fresh_name_9], []] => , }, [_ | "a"] == [[x, x, x], _, x], closure { [matche [x, x, 2] { _ => , }, |h| { conde { false, [true, [h, [h]] != [[], h, []]], x != ['b'] }, append(x, h, [3]), [2 != [[1 | x], x]] }] }])
}
pub fn case_470(vars: &Vars) -> InferredGoal<DU, DE, Goal<DU, DE>> {
    let q = vars.v[0].clone();
    let x = vars.v[1].clone();
    proto_vulcan!([false, |h, x| { [3, ["a"], 'b'] == q }, closure { _ == x }])
}
pub fn case_471(vars: &Vars) -> InferredGoal<DU, DE, Goal<DU, DE>> {
    let q = vars.v[0].clone();
    let x = vars.v[1].clone();
    proto_vulcan!([false, |fresh_name_9, x| { [3, ["a"], 'b'] == q }, closure { _ == x }])
}
pub fn case_472(vars: &Vars) -> InferredGoal<DU, DE, Goal<DU, DE>> {
    let q = vars.v[0].clone();
    let x = vars.v[1].clone();
    proto_vulcan!([true, match 1 { [z, h, _] => { q != 3, 'b' == _ }, }])
}
pub fn case_473(vars: &Vars) -> InferredGoal<DU, DE, Goal<DU, DE>> {
    let q = vars.v[0].clone();
    let x = vars.v[1].clone();
    proto_vulcan!([true, match 1 { [z, fresh_name_9, _] => { q != 3, 'b' == _ }, }])
}
pub fn case_474(vars: &Vars) -> InferredGoal<DU, DE, Goal<DU, DE>> {
    let q = vars.v[0].clone();
    let x = vars.v[1].clone();
    proto_vulcan!([|x, z| { |y, x| { y != [[2, [] | y] | 3], x == [[1 | x] | z] }, conde { [match z { [["bc", 2]] | [_, ["bc", y], [[], y, 1 | x]] => , [[true, h], [x, 'b' | h], [y, z, _]] | y => [[y, _], [[], 2, y]] != [[1]], }, matche [x, x] { [[3, z, []], [y, 3]] => [append(y, q, [2]), true], }], q != [[z], [q | x], [x, [], x] | x], conde { [false, [1, [_, z | true], [[], [], 2] | q] == 1], x == ['b'], [3, 2, 2] == x } }, [x, 2 | _] == 3 }, [[x, 1, 1], 1, q] == x, x == _, closure { [|y, t| { conde { [t == [[2, y, []], y, [x, 2]], t == [[x], [1, 1, 3] | y]], false, append(y, x, [2, 1]) } }, [matche [q, "bc" | x] { [y, 3] | h => { x == 2, 2 == q }, [[2], false] => [append(q, x, []), [[[]], x] == _], [z] => [z != [[q], [3]], append(q, x, [3])], }, matche q { [[1] | 1] | _ => [true != q, x == [[q, q, q | x], [1] | x]], [3 | _] | _ => { true }, [] => { append(q, q, []) }, }]] }])
}
pub fn case_475(vars: &Vars) -> InferredGoal<DU, DE, Goal<DU, DE>> {
    let q = vars.v[0].clone();
    let x = vars.v[1].clone();
    proto_vulcan!([|x, z| { |y, x| { y != [[2, [] | y] | 3], x == [[1 | x] | z] }, conde { [match z { [["bc", 2]] | [_, ["bc", y], [[], y, 1 | x]] => , [[true, h], [x, 'b' | h], [y, z, _]] | y => [[y, _], [[], 2, y]] != [[1]], }, matche [x, x] { [[3, fresh_name_9, []], [y, 3]] => [append(y, q, [2]), true], }], q != [[z], [q | x], [x, [], x] | x], conde { [false, [1, [_, z | true], [[], [], 2] | q] == 1], x == ['b'], [3, 2, 2] == x } }, [x, 2 | _] == 3 }, [[x, 1, 1], 1, q] == x, x == _, closure { [|y, t| { conde { [t == [[2, y, []], y, [x, 2]], t == [[x], [1, 1, 3] | y]], false, append(y, x, [2, 1]) } }, [matche [q, "bc" | x] { [y, 3] | h => { x == 2, 2 == q }, [[2], false] => [append(q, x, []), [[[]], x] == _], [z] => [z != [[q], [3]], append(q, x, [3])], }, matche q { [[1] | 1] | _ => [true != q, x == [[q, q, q | x], [1] | x]], [3 | _] | _ => { true }, [] => { append(q, q, []) }, }]] }])
}
pub fn case_476(vars: &Vars) -> InferredGoal<DU, DE, Goal<DU, DE>> {
    let q = vars.v[0].clone();
    let x = vars.v[1].clone();
    proto_vulcan!([[conde { [q == true, matche q { [[2], [1, h] | h] => { [['a' | 2], x, [1 | q]] == h, append(x, h, []) }, ['a'] => { append(q, q, [1, 2]), member(x, [2, 3, 2]) }, }], [false, |h, z| { [[2], 1] == x, [[], [x | q], z] == [z, [1, true | 1], false], [] != [[3] | x] }], |t| { 2 == x, append(q, x, [3]), false } }], [x, [x, _, x]] == q])
}
pub fn case_477(vars: &Vars) -> InferredGoal<DU, DE, Goal<DU, DE>> {
    let q = vars.v[0].clone();
    let x = vars.v[1].clone();
    proto_vulcan!([[conde { [q == true, matche q { [[2], [1, h] | h] => { [['a' | 2], x, [1 | q]] == h, append(x, h, []) }, ['a'] => { append(q, q, [1, 2]), member(x, [2, 3, 2]) }, }], [false, |fresh_name_9, z| { [[2], 1] == x, [[], [x | q], z] == [z, [1, true | 1], false], [] != [[3] | x] }], |t| { 2 == x, append(q, x, [3]), false } }], [x, [x, _, x]] == q])
}
pub fn case_478(vars: &Vars) -> InferredGoal<DU, DE, Goal<DU, DE>> {
    let x = vars.v[0].clone();
    proto_vulcan!([append(x, x, []), conde { 3 == x, [[[x, x, x], [x], [x | x]] == x, x != 2], [|t, x| { conde { t == [[2, _], 3], [false, x == [[x]]] }, "a" == x, [false, x == [[], [t, []], x | t], x == x] }, [[], [_, x], [1, 1]] != [[[], 2], 1]] }, conde { [[x] == x, [[[], x, x], []] == x, match [x, x, 3 | x] { t => { member(x, []), [_, [t | t], [1, t] | x] != [t, [3, x, x], x] }, 'b' => [x == [[_ | x], [2, x, _ | x] | x], [false, [x, x | x], 2 | x] == [2, _, x]], }], [[[2]] == ["bc", [3, []], true], [|h, x| { append(x, h, [2]) }, [[x | _], [2, 1], [1]] != x]], |t| { conde { [t != t, append(t, t, [1])], [member(x, [2, 3, 3]), t == 2], t == [1, [_, t, []]] }, [[t | x] != t] } }])
}
pub fn case_479(vars: &Vars) -> InferredGoal<DU, DE, Goal<DU, DE>> {
    let x = vars.v[0].clone();
    proto_vulcan!([append(x, x, []), conde { 3 == x, [[[x, x, x], [x], [x | x]] == x, x != 2], [|t, x| { conde { t == [[2, _], 3], [false, x == [[x]]] }, "a" == x, [false, x == [[], [t, []], x | t], x == x] }, [[], [_, x], [1, 1]] != [[[], 2], 1]] }, conde { [[x] == x, [[[], x, x], []] == x, match [x, x, 3 | x] { fresh_name_9 => { member(x, []), [_, [fresh_name_9 | fresh_name_9], [1, fresh_name_9] | x] != [fresh_name_9, [3, x, x], x] }, 'b' => [x == [[_ | x], [2, x, _ | x] | x], [false, [x, x | x], 2 | x] == [2, _, x]], }], [[[2]] == ["bc", [3, []], true], [|h, x| { append(x, h, [2]) }, [[x | _], [2, 1], [1]] != x]], |t| { conde { [t != t, append(t, t, [1])], [member(x, [2, 3, 3]), t == 2], t == [1, [_, t, []]] }, [[t | x] != t] } }])
}
pub fn case_480(vars: &Vars) -> InferredGoal<DU, DE, Goal<DU, DE>> {
    let x = vars.v[0].clone();
    proto_vulcan!([true, |y| { x == [[], 'b' | x], [match y { [t, [[], y], [true, y]] | [[2, 1, []], _, z | z] => , _ => , }, |t| { [] == [[_, t], [[]], [t, 2, 1] | x], false, [[_, 2, 1] | y] == [y] }] }, closure { [x == x, matche x { h | 3 => , [[z, 3, x], z] | [[t, 'a' | x], y] => [2] == 'a', }] }])
}
pub fn case_481(vars: &Vars) -> InferredGoal<DU, DE, Goal<DU, DE>> {
    let x = vars.v[0].clone();
    proto_vulcan!([true, |y| { x == [[], 'b' | x], [match y { [t, [[], y], [true, y]] | [[2, 1, []], _, z | z] => , _ => , }, |fresh_name_9| { [] == [[_, fresh_name_9], [[]], [fresh_name_9, 2, 1] | x], false, [[_, 2, 1] | y] == [y] }] }, closure { [x == x, matche x { h | 3 => , [[z, 3, x], z] | [[t, 'a' | x], y] => [2] == 'a', }] }])
}
pub fn case_482(vars: &Vars) -> InferredGoal<DU, DE, Goal<DU, DE>> {
    let x = vars.v[0].clone();
    let y = vars.v[1].clone();
    proto_vulcan!([conde { [y != [[]], y == []], [match x { 1 | [x] => , }, [x == _, match x { 'a' => { "a" == 3, [[y, x | _], 3 | x] == y }, }, |z| { y == [[1, _ | y], 'b', true], z != [y], append(x, x, []) }]] }, "bc" != x, conde { |y| { x != [["a"] | y], x == [[y, y, [] | y], [_, y, _ | 'b'] | "bc"] }, [x | "bc"] == y }, closure { [y == _, |x| { |h, y| { y != y, member(h, []), x == x }, x == 1 }] }])
}
pub fn case_483(vars: &Vars) -> InferredGoal<DU, DE, Goal<DU, DE>> {
    let x = vars.v[0].clone();
    let y = vars.v[1].clone();
    proto_vulcan!([conde { [y != [[]], y == []], [match x { 1 | [x] => , }, [x == _, match x { 'a' => { "a" == 3, [[y, x | _], 3 | x] == y }, }, |fresh_name_9| { y == [[1, _ | y], 'b', true], fresh_name_9 != [y], append(x, x, []) }]] }, "bc" != x, conde { |y| { x != [["a"] | y], x == [[y, y, [] | y], [_, y, _ | 'b'] | "bc"] }, [x | "bc"] == y }, closure { [y == _, |x| { |h, y| { y != y, member(h, []), x == x }, x == 1 }] }])
}
pub fn case_484(vars: &Vars) -> InferredGoal<DU, DE, Goal<DU, DE>> {
    let q = vars.v[0].clone();
    let x = vars.v[1].clone();
    proto_vulcan!([append(q, q, [1]), matche x { [[_, y | 1], [3], x | t] => , }])
}
pub fn case_485(vars: &Vars) -> InferredGoal<DU, DE, Goal<DU, DE>> {
    let q = vars.v[0].clone();
    let x = vars.v[1].clone();
    proto_vulcan!([append(q, q, [1]), matche x { [[_, fresh_name_9 | 1], [3], x | t] => , }])
}
pub fn case_486(vars: &Vars) -> InferredGoal<DU, DE, Goal<DU, DE>> {
    let q = vars.v[0].clone();
    let x = vars.v[1].clone();
    proto_vulcan!([x != "bc", closure { match x { [1, [], y | z] | [[z, [], h], 2 | x] => { match q { [[], ['b', 1]] => { q == [[3 | 1]], false }, [[_, 1, []], 3, 2] => z != q, 3 => append(q, z, [2]), }, match [_, z | z] { [[z, t, x], [true], [2, x | "bc"] | z] => , } }, false => , 2 | [1, [2, z, 2], [[], [], _]] => { [member(q, [3]), true, true], [] != [] }, } }])
}
pub fn case_487(vars: &Vars) -> InferredGoal<DU, DE, Goal<DU, DE>> {
    let q = vars.v[0].clone();
    let x = vars.v[1].clone();
    proto_vulcan!([x != "bc", closure { match x { [1, [], y | z] | [[z, [], h], 2 | x] => { match q { [[], ['b', 1]] => { q == [[3 | 1]], false }, [[_, 1, []], 3, 2] => z != q, 3 => append(q, z, [2]), }, match [_, z | z] { [[z, t, fresh_name_9], [true], [2, fresh_name_9 | "bc"] | z] => , } }, false => , 2 | [1, [2, z, 2], [[], [], _]] => { [member(q, [3]), true, true], [] != [] }, } }])
}
pub fn case_488(vars: &Vars) -> InferredGoal<DU, DE, Goal<DU, DE>> {
    let q = vars.v[0].clone();
    let x = vars.v[1].clone();
    proto_vulcan!([matche q { y => , [[]] | [2, [[], _]] => , }])
}
pub fn case_489(vars: &Vars) -> InferredGoal<DU, DE, Goal<DU, DE>> {
    let q = vars.v[0].clone();
    let x = vars.v[1].clone();
    proto_vulcan!([matche q { fresh_name_9 => , [[]] | [2, [[], _]] => , }])
}
pub fn case_490(vars: &Vars) -> InferredGoal<DU, DE, Goal<DU, DE>> {
    let x = vars.v[0].clone();
    let y = vars.v[1].clone();
    proto_vulcan!([|h, t| { t != [[1 | x], [h, h, 2 | x]], false }, [[x, [], "a" | y], [], [y, 1]] == x, |t| { [[[], 3 | "a"], [y, _, []] | y] == x, y != [_], 1 != x }, closure { |h| { x == [[1, [], []]], x != h, member(x, [1, 3, 2]) } }])
}
pub fn case_491(vars: &Vars) -> InferredGoal<DU, DE, Goal<DU, DE>> {
    let x = vars.v[0].clone();
    let y = vars.v[1].clone();
    proto_vulcan!([|fresh_name_9, t| { t != [[1 | x], [fresh_name_9, fresh_name_9, 2 | x]], false }, [[x, [], "a" | y], [], [y, 1]] == x, |t| { [[[], 3 | "a"], [y, _, []] | y] == x, y != [_], 1 != x }, closure { |h| { x == [[1, [], []]], x != h, member(x, [1, 3, 2]) } }])
}
pub fn case_492(vars: &Vars) -> InferredGoal<DU, DE, Goal<DU, DE>> {
    let x = vars.v[0].clone();
    proto_vulcan!([x == x, conde { [x == x, [false, x == [3], [1, x, [[], 1, 1] | x] == x]], [|y, z| { y == x, matche z { [[], "a", _] => , 3 | [_, [x, 'b', x]] => , } }, match x { [["bc", 3 | y], []] | [[3, x, "a" | z], [3, y, 2]] => { match y { [[y], z] => { true, [[z, 1, 1], 2, _] == y }, } }, }], x != 3 }, x == ["bc" | x], closure { |h, t| { |x, t| { append(t, x, [3]) }, |y, t| { [[x, h], t, t | y] == t, [[2 | t], 1 | y] == 2 }, |z, x| { false } } }])
}
pub fn case_493(vars: &Vars) -> InferredGoal<DU, DE, Goal<DU, DE>> {
    let x = vars.v[0].clone();
    proto_vulcan!([x == x, conde { [x == x, [false, x == [3], [1, x, [[], 1, 1] | x] == x]], [|y, z| { y == x, matche z { [[], "a", _] => , 3 | [_, [x, 'b', x]] => , } }, match x { [["bc", 3 | y], []] | [[3, x, "a" | z], [3, y, 2]] => { match y { [[y], z] => { true, [[z, 1, 1], 2, _] == y }, } }, }], x != 3 }, x == ["bc" | x], closure { |fresh_name_9, t| { |x, t| { append(t, x, [3]) }, |y, t| { [[x, fresh_name_9], t, t | y] == t, [[2 | t], 1 | y] == 2 }, |z, x| { false } } }])
}
pub fn case_494(vars: &Vars) -> InferredGoal<DU, DE, Goal<DU, DE>> {
    let q = vars.v[0].clone();
    let x = vars.v[1].clone();
    proto_vulcan!([q == x, |x| { conde { [false, [[2, q | x]] == [false, [_] | x]], conde { ['a', ["bc", 3]] == [], [[] == q, append(q, x, [2, 3])] } }, |t, y| { |h| { [[t, 3] | "bc"] == q }, [x != [[x, t | x], [[], y], [[]]], q == [1, y, [3, x, 1] | 1]], |z, t| { [[_] | t] == x, [[1]] == t, member(x, [1]) } } }, conde { q == [[[], q], [2, q | q]], conde { x == q, append(x, q, [2]) } }])
}
pub fn case_495(vars: &Vars) -> InferredGoal<DU, DE, Goal<DU, DE>> {
    let q = vars.v[0].clone();
    let x = vars.v[1].clone();
    proto_vulcan!([q == x, |x| { conde { [false, [[2, q | x]] == [false, [_] | x]], conde { ['a', ["bc", 3]] == [], [[] == q, append(q, x, [2, 3])] } }, |t, y| { |h| { [[t, 3] | "bc"] == q }, [x != [[x, t | x], [[], y], [[]]], q == [1, y, [3, x, 1] | 1]], |z, fresh_name_9| { [[_] | fresh_name_9] == x, [[1]] == fresh_name_9, member(x, [1]) } } }, conde { q == [[[], q], [2, q | q]], conde { x == q, append(x, q, [2]) } }])
}
pub fn case_496(vars: &Vars) -> InferredGoal<DU, DE, Goal<DU, DE>> {
    let x = vars.v[0].clone();
    let y = vars.v[1].clone();
    proto_vulcan!([x == _, conde { [matche [2] { [t, [x], [x, [], 2 | _]] => { [false, false], [[x, [], true | x] | t] == [1, 1, _] }, [[_], 1 | _] | y => , "bc" => 2 == y, }, [match x { [[x], [t, 2], x | y] => [false, x != [1, [1], [1 | _] | y]], [2, 2, [2, x, x]] => , [[3, t], [3, x | _], y | z] => , }, conde { [_ == y, y != 'b'], [[3, [1, 2]] != x, [x, _, [2, 2, x | x]] == y], [['a' | x], [x] | y] == [y, [2, [], _], [3, 2, y] | x] }]], conde { [[[[], y, [] | x], [2, 'b', x] | 1] == y, y != [1 | 2]], [matche y { [[t, y]] => { false, true }, }, [y == [[y], [[]]]]], [[y, "a"] == y, _ == 1] } }, true])
}
pub fn case_497(vars: &Vars) -> InferredGoal<DU, DE, Goal<DU, DE>> {
    let x = vars.v[0].clone();
    let y = vars.v[1].clone();
    proto_vulcan!([x == _, conde { [matche [2] { [t, [x], [x, [], 2 | _]] => { [false, false], [[x, [], true | x] | t] == [1, 1, _] }, [[_], 1 | _] | y => , "bc" => 2 == y, }, [match x { [[x], [fresh_name_9, 2], x | y] => [false, x != [1, [1], [1 | _] | y]], [2, 2, [2, x, x]] => , [[3, t], [3, x | _], y | z] => , }, conde { [_ == y, y != 'b'], [[3, [1, 2]] != x, [x, _, [2, 2, x | x]] == y], [['a' | x], [x] | y] == [y, [2, [], _], [3, 2, y] | x] }]], conde { [[[[], y, [] | x], [2, 'b', x] | 1] == y, y != [1 | 2]], [matche y { [[t, y]] => { false, true }, }, [y == [[y], [[]]]]], [[y, "a"] == y, _ == 1] } }, true])
}
pub fn case_498(vars: &Vars) -> InferredGoal<DU, DE, Goal<DU, DE>> {
    let q = vars.v[0].clone();
    let x = vars.v[1].clone();
    proto_vulcan!([matche q { y => { [1, []] == [x | x] }, [[1 | x]] | [z] => { matche q { [[2, 1, 2], 1 | _] | [[2] | y] => , [t | _] | [[]] => true, }, match q { y => { append(y, q, [2]) }, } }, [[x, 2]] => , }, closure { [x == x, conde { |y, x| { [[x, [], []], [1, q], false | q] == y }, [false, |z| { x == [[1], [_]] }], [match q { [[_ | z], 1, [_, 1] | 1] => , [x, 'b', h | 1] | h => , }, [[x, 1], [q] | x] == x] }] }])
}
pub fn case_499(vars: &Vars) -> InferredGoal<DU, DE, Goal<DU, DE>> {
    let q = vars.v[0].clone();
    let x = vars.v[1].clone();
    proto_vulcan!([matche q { y => { [1, []] == [x | x] }, [[1 | x]] | [z] => { matche q { [[2, 1, 2], 1 | _] | [[2] | y] => , [t | _] | [[]] => true, }, match q { y => { append(y, q, [2]) }, } }, [[x, 2]] => , }, closure { [x == x, conde { |y, fresh_name_9| { [[fresh_name_9, [], []], [1, q], false | q] == y }, [false, |z| { x == [[1], [_]] }], [match q { [[_ | z], 1, [_, 1] | 1] => , [x, 'b', h | 1] | h => , }, [[x, 1], [q] | x] == x] }] }])
}
pub fn case_500(vars: &Vars) -> InferredGoal<DU, DE, Goal<DU, DE>> {
    let x = vars.v[0].clone();
    let y = vars.v[1].clone();
    proto_vulcan!([true, match x { [_, [z, t, 1]] => [conde { [member(t, [2]), matche 'b' { [[[]], y, [y, false, t]] => [t != [[], false, 1 | y], [[1, 1], [t | z]] != [3, false]], [true, [2, h | x], h | y] => , }], [conde { [t == [1, true, y | y], [[2 | y], [_], t | t] == y], true }, |y| { y != [[z], [1, x]] }], [conde { [x == 1, [1] == t], [t != t, true], [[[z, 3], 3] == z, false] }, |t| { member(t, [3, 3, 2]), true, x == 'a' }] }, [y == z, |t, h| { [3 | x] == x }, [3, [x, t], [true]] != [true, y, t | 'a']]], 1 => match x { 2 | "bc" => [|h, x| { 3 == h, [[y, x, []], 3] == 2 }, match x { z => [y == 2, true], }], [[x, h, 2], [[] | _]] => , [[y]] => y == [y, [_, 2] | true], }, t => x != t, }, [[1, y | x]] == x])
}
pub fn case_501(vars: &Vars) -> InferredGoal<DU, DE, Goal<DU, DE>> {
    let x = vars.v[0].clone();
    let y = vars.v[1].clone();
    proto_vulcan!([true, match x { [_, [z, t, 1]] => [conde { [member(t, [2]), matche 'b' { [[[]], y, [y, false, fresh_name_9]] => [fresh_name_9 != [[], false, 1 | y], [[1, 1], [fresh_name_9 | z]] != [3, false]], [true, [2, h | x], h | y] => , }], [conde { [t == [1, true, y | y], [[2 | y], [_], t | t] == y], true }, |y| { y != [[z], [1, x]] }], [conde { [x == 1, [1] == t], [t != t, true], [[[z, 3], 3] == z, false] }, |t| { member(t, [3, 3, 2]), true, x == 'a' }] }, [y == z, |t, h| { [3 | x] == x }, [3, [x, t], [true]] != [true, y, t | 'a']]], 1 => match x { 2 | "bc" => [|h, x| { 3 == h, [[y, x, []], 3] == 2 }, match x { z => [y == 2, true], }], [[x, h, 2], [[] | _]] => , [[y]] => y == [y, [_, 2] | true], }, t => x != t, }, [[1, y | x]] == x])
}
pub fn case_502(vars: &Vars) -> InferredGoal<DU, DE, Goal<DU, DE>> {
    let x = vars.v[0].clone();
    let y = vars.v[1].clone();
    proto_vulcan!([1 != [1 | y], closure { [append(y, y, [2, 2]), conde { [|h, y| { x == [2], member(x, [3]) }, |t| { x == [["bc", _], [t, x, _] | x], [[1, x]] != t, [t] != [x, y] }], y == [3 | x] }] }])
}
pub fn case_503(vars: &Vars) -> InferredGoal<DU, DE, Goal<DU, DE>> {
    let x = vars.v[0].clone();
    let y = vars.v[1].clone();
    proto_vulcan!([1 != [1 | y], closure { [append(y, y, [2, 2]), conde { [|h, y| { x == [2], member(x, [3]) }, |fresh_name_9| { x == [["bc", _], [fresh_name_9, x, _] | x], [[1, x]] != fresh_name_9, [fresh_name_9] != [x, y] }], y == [3 | x] }] }])
}
pub fn case_504(vars: &Vars) -> InferredGoal<DU, DE, Goal<DU, DE>> {
    let x = vars.v[0].clone();
    proto_vulcan!([[[x], x, [_, 3, "bc"] | x] != [[x | x], ["bc" | x] | 1], conde { [|y| { [["bc", 1, true], 2] != y }, [_, [1 | x] | _] == x, conde { 'a' != 'b', [[x], [2], [[]]] == [[_], [[], [] | x], x | x] }], matche x { [[3, z, y | 2], 2] => conde { [z == ['a', 2 | y], 1 == "a"], [y == y, append(y, x, [])], [[1 | z] == x, [[x, _ | _]] == [3, z, z]] }, [[y, false], [t, "bc", 1], [h | _] | _] | z => , } }, closure { conde { [|x, y| { [[[], x, 3 | x], 3, y] == y }, conde { x != [[x | false]], [[x, _, 2 | x], [x, []]] == 2 }], [conde { [append(x, x, []), [[x], [x | x], [1, 2]] == x], [x | x] == [1, x, x], [_ == 2, x == [[], [1], [x]]] }, 3 == "bc"] } }])
}
pub fn case_505(vars: &Vars) -> InferredGoal<DU, DE, Goal<DU, DE>> {
    let x = vars.v[0].clone();
    proto_vulcan!([[[x], x, [_, 3, "bc"] | x] != [[x | x], ["bc" | x] | 1], conde { [|y| { [["bc", 1, true], 2] != y }, [_, [1 | x] | _] == x, conde { 'a' != 'b', [[x], [2], [[]]] == [[_], [[], [] | x], x | x] }], matche x { [[3, z, y | 2], 2] => conde { [z == ['a', 2 | y], 1 == "a"], [y == y, append(y, x, [])], [[1 | z] == x, [[x, _ | _]] == [3, z, z]] }, [[y, false], [t, "bc", 1], [h | _] | _] | z => , } }, closure { conde { [|x, fresh_name_9| { [[[], x, 3 | x], 3, fresh_name_9] == fresh_name_9 }, conde { x != [[x | false]], [[x, _, 2 | x], [x, []]] == 2 }], [conde { [append(x, x, []), [[x], [x | x], [1, 2]] == x], [x | x] == [1, x, x], [_ == 2, x == [[], [1], [x]]] }, 3 == "bc"] } }])
}
pub fn case_506(vars: &Vars) -> InferredGoal<DU, DE, Goal<DU, DE>> {
    let q = vars.v[0].clone();
    let x = vars.v[1].clone();
    proto_vulcan!([conde { [match [q, q] { _ | [_, _] => { q == x, matche x { [] => { member(x, [1, 3]) }, x | [[[], h | _]] => { q == [[q, 3], [q, 1, [] | q] | q], [_, [2, false]] == q }, } }, 1 => { x == [[2, 'b'], [2 | q], []], |z, t| { q == z, true } }, [[true | 2]] => , }, 2 == q], [q == [], member(q, [])] }, 'b' == [[q, q], x, true | x], match ['b' | x] { t => , [[h], [true | z], [h, t] | h] => , }])
}
pub fn case_507(vars: &Vars) -> InferredGoal<DU, DE, Goal<DU, DE>> {
    let q = vars.v[0].clone();
    let x = vars.v[1].clone();
    proto_vulcan!([conde { [match [q, q] { _ | [_, _] => { q == x, matche x { [] => { member(x, [1, 3]) }, x | [[[], h | _]] => { q == [[q, 3], [q, 1, [] | q] | q], [_, [2, false]] == q }, } }, 1 => { x == [[2, 'b'], [2 | q], []], |z, t| { q == z, true } }, [[true | 2]] => , }, 2 == q], [q == [], member(q, [])] }, 'b' == [[q, q], x, true | x], match ['b' | x] { t => , [[h], [true | fresh_name_9], [h, t] | h] => , }])
}
pub fn case_508(vars: &Vars) -> InferredGoal<DU, DE, Goal<DU, DE>> {
    let x = vars.v[0].clone();
    proto_vulcan!([false, "a" == 2, closure { [3 == x, matche x { [[t, []], [_], [3, t | y]] | [[1, 1, 2], [z], [3, z, 1]] => , 2 | [] => conde { [x == [[x | x], x | 'a'], 2 != [x | x]], [1 == [[], 3, 1], false], x == [[x], [2], [1, x | x]] }, 3 => { match [2 | x] { [[[], 1, z], [_, "bc"], h] | [[1, 2], _ | _] => { [x, [x, 2 | x], [_, _, 'a'] | x] == x }, [[[], "a", 3] | y] => { 2 == 1, y == [[1, []], [_, y, x | y] | x] }, [2, [x], 1 | _] => [x != x, [[1, x]] == x], } }, }] }])
}
pub fn case_509(vars: &Vars) -> InferredGoal<DU, DE, Goal<DU, DE>> {
    let x = vars.v[0].clone();
    proto_vulcan!([false, "a" == 2, closure { [3 == x, matche x { [[t, []], [_], [3, t | y]] | [[1, 1, 2], [z], [3, z, 1]] => , 2 | [] => conde { [x == [[x | x], x | 'a'], 2 != [x | x]], [1 == [[], 3, 1], false], x == [[x], [2], [1, x | x]] }, 3 => { match [2 | x] { [[[], 1, z], [_, "bc"], h] | [[1, 2], _ | _] => { [x, [x, 2 | x], [_, _, 'a'] | x] == x }, [[[], "a", 3] | y] => { 2 == 1, y == [[1, []], [_, y, x | y] | x] }, [2, [fresh_name_9], 1 | _] => [fresh_name_9 != fresh_name_9, [[1, fresh_name_9]] == fresh_name_9], } }, }] }])
}
pub fn case_510(vars: &Vars) -> InferredGoal<DU, DE, Goal<DU, DE>> {
    let x = vars.v[0].clone();
    let y = vars.v[1].clone();
    proto_vulcan!([match [[], "bc" | x] { y => , [[_, [], 2], [x | false]] | 1 => [false, conde { match y { [_, [y, "bc"], z] => [true, y == 1], [t, [3], [z] | t] => [append(z, z, [2]), true], }, [matche y { [] => , }, conde { [true, [[2, 3]] == y], [[y, 1] | y] == [y, 3, [y, 1, 'a'] | y], [_ == [true, [_, 1, _]], [3, [y, y | y], y] == y] }] }], [_ | y] | [[2, "bc"], _] => [[x, x], [1, 1] | x] != [[2, x, x], [x], [_, x, x] | 2], }, [member(x, [2, 3]), matche x { z => [["bc" == [[x, false, y]]], matche z { [[2, _, 'b']] => { true, [[3, 1], [y, 1, 3]] == [_] }, [1 | _] => { true }, }], }], [[|t| { false, t != 3, append(y, y, []) }, |x| { false, 1 != x, x != [[2, y, x]] }], y != [[3], [y]], |z| { |x| { [[1, y | x], y | z] != z }, conde { [[_, []]] == y, member(z, [2, 3]), [[z], 1] == y }, conde { true, member(x, []) } }], closure { [[[_], [true] | false] != [_, [[], 3], [[]]], [[x], [y], [x] | x] == x] }])
}
pub fn case_511(vars: &Vars) -> InferredGoal<DU, DE, Goal<DU, DE>> {
    let x = vars.v[0].clone();
    let y = vars.v[1].clone();
    proto_vulcan!([match [[], "bc" | x] { fresh_name_9 => , [[_, [], 2], [x | false]] | 1 => [false, conde { match y { [_, [y, "bc"], z] => [true, y == 1], [t, [3], [z] | t] => [append(z, z, [2]), true], }, [matche y { [] => , }, conde { [true, [[2, 3]] == y], [[y, 1] | y] == [y, 3, [y, 1, 'a'] | y], [_ == [true, [_, 1, _]], [3, [y, y | y], y] == y] }] }], [_ | y] | [[2, "bc"], _] => [[x, x], [1, 1] | x] != [[2, x, x], [x], [_, x, x] | 2], }, [member(x, [2, 3]), matche x { z => [["bc" == [[x, false, y]]], matche z { [[2, _, 'b']] => { true, [[3, 1], [y, 1, 3]] == [_] }, [1 | _] => { true }, }], }], [[|t| { false, t != 3, append(y, y, []) }, |x| { false, 1 != x, x != [[2, y, x]] }], y != [[3], [y]], |z| { |x| { [[1, y | x], y | z] != z }, conde { [[_, []]] == y, member(z, [2, 3]), [[z], 1] == y }, conde { true, member(x, []) } }], closure { [[[_], [true] | false] != [_, [[], 3], [[]]], [[x], [y], [x] | x] == x] }])
}
pub fn case_512(vars: &Vars) -> InferredGoal<DU, DE, Goal<DU, DE>> {
    let q = vars.v[0].clone();
    let x = vars.v[1].clone();
    proto_vulcan!([[[2, _, 3 | x], 'b', [3, x]] == x, match q { [[h, 3, x] | h] => , [[_, h, y | _], t, 1 | _] => [|t, z| { z == [[2, t]], member(t, [2, 2, 1]) }], [[[], 2]] => { |t| { match q { 2 => { [3, [q, x, _ | 1], [_]] != [[_, x, x], 2, [1, x, t]], false == q }, y => { t == [[1, 1], q, _] }, }, |x, h| { [[2], [1, 1, h], x] == h, [[[]], [], [3]] == h, [x, q] == q } } }, }, closure { [conde { x == [[q, x, q], x | q], [[[[]], [3, x, 1], [_, [], x]] == q, [x, [[], 2, 2], [[] | x] | q] == q], [q] == q }, conde { [matche q { [3, [[], 2, z | _], 2] | [["bc", y, []], []] => { x == q, 1 == [[false, 1] | 1] }, [[_, 2, y], [1, y, y]] => false, 1 => false, }, [[q, q], [1]] == x], [1 != [[x, 3 | q], [[], 2, []], []], q == 1, x == [['a', false | q], [x], [_]]] }] }])
}
pub fn case_513(vars: &Vars) -> InferredGoal<DU, DE, Goal<DU, DE>> {
    let q = vars.v[0].clone();
    let x = vars.v[1].clone();
    proto_vulcan!([[[2, _, 3 | x], 'b', [3, x]] == x, match q { [[fresh_name_9, 3, x] | fresh_name_9] => , [[_, h, y | _], t, 1 | _] => [|t, z| { z == [[2, t]], member(t, [2, 2, 1]) }], [[[], 2]] => { |t| { match q { 2 => { [3, [q, x, _ | 1], [_]] != [[_, x, x], 2, [1, x, t]], false == q }, y => { t == [[1, 1], q, _] }, }, |x, h| { [[2], [1, 1, h], x] == h, [[[]], [], [3]] == h, [x, q] == q } } }, }, closure { [conde { x == [[q, x, q], x | q], [[[[]], [3, x, 1], [_, [], x]] == q, [x, [[], 2, 2], [[] | x] | q] == q], [q] == q }, conde { [matche q { [3, [[], 2, z | _], 2] | [["bc", y, []], []] => { x == q, 1 == [[false, 1] | 1] }, [[_, 2, y], [1, y, y]] => false, 1 => false, }, [[q, q], [1]] == x], [1 != [[x, 3 | q], [[], 2, []], []], q == 1, x == [['a', false | q], [x], [_]]] }] }])
}
pub fn case_514(vars: &Vars) -> InferredGoal<DU, DE, Goal<DU, DE>> {
    let q = vars.v[0].clone();
    let x = vars.v[1].clone();
    proto_vulcan!([conde { |z| { [[_, [], [z] | x] == z, [2] == x, member(x, [])] }, [[x, 1] == [[q, _, 3], 3, 2], matche x { 1 => |y| { [x | q] == q, member(q, [1]) }, [[_, y, _ | y], [h, h, 2 | y] | 2] => { x != [] }, }], member(x, [3]) }, x != ["a" | q]])
}
pub fn case_515(vars: &Vars) -> InferredGoal<DU, DE, Goal<DU, DE>> {
    let q = vars.v[0].clone();
    let x = vars.v[1].clone();
    proto_vulcan!([conde { |z| { [[_, [], [z] | x] == z, [2] == x, member(x, [])] }, [[x, 1] == [[q, _, 3], 3, 2], matche x { 1 => |y| { [x | q] == q, member(q, [1]) }, [[_, fresh_name_9, _ | fresh_name_9], [h, h, 2 | fresh_name_9] | 2] => { x != [] }, }], member(x, [3]) }, x != ["a" | q]])
}
pub fn case_516(vars: &Vars) -> InferredGoal<DU, DE, Goal<DU, DE>> {
    let x = vars.v[0].clone();
    let y = vars.v[1].clone();
    proto_vulcan!([|z| { [1, [y, z, 3], [_, []] | y] == y, |t| { y != y, match t { [[[], 2, false]] => , [z, [y, x | y], 2] | [[_, y], [x, 3, 1 | _], h] => { [[x | y], 1] == [[x], 2, x] }, [] => t == [[2, 1, y | false], [[]] | z], } } }])
}
pub fn case_517(vars: &Vars) -> InferredGoal<DU, DE, Goal<DU, DE>> {
    let x = vars.v[0].clone();
    let y = vars.v[1].clone();
    proto_vulcan!([|z| { [1, [y, z, 3], [_, []] | y] == y, |fresh_name_9| { y != y, match fresh_name_9 { [[[], 2, false]] => , [z, [y, x | y], 2] | [[_, y], [x, 3, 1 | _], h] => { [[x | y], 1] == [[x], 2, x] }, [] => fresh_name_9 == [[2, 1, y | false], [[]] | z], } } }])
}
pub fn case_518(vars: &Vars) -> InferredGoal<DU, DE, Goal<DU, DE>> {
    let x = vars.v[0].clone();
    proto_vulcan!([conde { [[append(x, x, [1, 3]), |z| { [[], [z | x]] == z, [[[]], 2] != [[1 | 1], true, [[], x]], [x, [x], z] == z }, |h| { [[3, 2, x], [x | true], [x]] != [], append(h, x, [1]) }], member(x, [])], [conde { [append(x, x, []), [[x | x], [_], x] == x], [|z| { append(x, z, [3, 2]), _ == x }, [false, 1] == x] }, [[x, x | x], [1]] == x], |t| { conde { [true, [[x, t, t] | t] == x], false } } }, closure { matche x { h | [[] | z] => , [] => { x != x }, } }])
}
pub fn case_519(vars: &Vars) -> InferredGoal<DU, DE, Goal<DU, DE>> {
    let x = vars.v[0].clone();
    proto_vulcan!([conde { [[append(x, x, [1, 3]), |z| { [[], [z | x]] == z, [[[]], 2] != [[1 | 1], true, [[], x]], [x, [x], z] == z }, |h| { [[3, 2, x], [x | true], [x]] != [], append(h, x, [1]) }], member(x, [])], [conde { [append(x, x, []), [[x | x], [_], x] == x], [|z| { append(x, z, [3, 2]), _ == x }, [false, 1] == x] }, [[x, x | x], [1]] == x], |fresh_name_9| { conde { [true, [[x, fresh_name_9, fresh_name_9] | fresh_name_9] == x], false } } }, closure { matche x { h | [[] | z] => , [] => { x != x }, } }])
}
pub fn case_520(vars: &Vars) -> InferredGoal<DU, DE, Goal<DU, DE>> {
    let q = vars.v[0].clone();
    let x = vars.v[1].clone();
    proto_vulcan!([|x| { x == [[1, 3, q], ['a', x], q] }, [] != x])
}
pub fn case_521(vars: &Vars) -> InferredGoal<DU, DE, Goal<DU, DE>> {
    let q = vars.v[0].clone();
    let x = vars.v[1].clone();
    proto_vulcan!([|fresh_name_9| { fresh_name_9 == [[1, 3, q], ['a', fresh_name_9], q] }, [] != x])
}
pub fn case_522(vars: &Vars) -> InferredGoal<DU, DE, Goal<DU, DE>> {
    let x = vars.v[0].clone();
    proto_vulcan!([[[x], "bc"] == [x, x, x], |z| { append(x, z, [1, 3]), |z| { matche z { [[true, 2, h | x], [x, z], ['b', x | _] | t] => t == [[1, []], x], }, false == _, matche x { [1, [3, y | true]] => [["a", z, []] != z, [[z, y, x]] == y], } } }, |y| { matche 2 { 2 | [[z, y | _], 3, [y, 1]] => { conde { member(x, [3]), x == [[x, [], x], [1, x, x], 1 | x], [member(x, [2, 2, 1]), 2 == x] }, false }, } }, closure { [x != [[[], _], x, [3, x]], |y, z| { conde { true, [y != [1, [y, false]], [1, [[], z]] == z], [append(x, x, [1, 3]), [z, [x, 2, "a"] | y] != x] } }] }])
}
pub fn case_523(vars: &Vars) -> InferredGoal<DU, DE, Goal<DU, DE>> {
    let x = vars.v[0].clone();
    proto_vulcan!([[[x], "bc"] == [x, x, x], |z| { append(x, z, [1, 3]), |z| { matche z { [[true, 2, h | x], [x, z], ['b', x | _] | fresh_name_9] => fresh_name_9 == [[1, []], x], }, false == _, matche x { [1, [3, y | true]] => [["a", z, []] != z, [[z, y, x]] == y], } } }, |y| { matche 2 { 2 | [[z, y | _], 3, [y, 1]] => { conde { member(x, [3]), x == [[x, [], x], [1, x, x], 1 | x], [member(x, [2, 2, 1]), 2 == x] }, false }, } }, closure { [x != [[[], _], x, [3, x]], |y, z| { conde { true, [y != [1, [y, false]], [1, [[], z]] == z], [append(x, x, [1, 3]), [z, [x, 2, "a"] | y] != x] } }] }])
}
pub fn case_524(vars: &Vars) -> InferredGoal<DU, DE, Goal<DU, DE>> {
    let q = vars.v[0].clone();
    let x = vars.v[1].clone();
    proto_vulcan!([conde { [|y, z| { [y] != x, matche 3 { [[2] | z] | [[_, y | x], [3, h], [_, _] | y] => , }, match q { y => , } }, match [q | x] { [[t | x]] => , }], conde { [match x { [[t | t], 'b'] => q == false, [[x, [] | t], true | z] => , }, [2, q, [[], q, x]] == x], member(x, [1]), 2 == [[1 | false]] }, x != q }, closure { [|z| { |h, x| { [[x, 'a', h], [3, x | h] | x] == q, [[false] | x] != [[h | q], [true, 1] | x] }, [[z], [1 | q], "a" | 2] == z, match [1, _, x | x] { [h, 2, [1, _, []] | _] => { [[1, 'b']] == h }, [[t], [2] | t] => { false }, [1, [z]] => { [] == x, [[z, [] | z], 2, [1] | z] == 'b' }, } }, conde { [[2 | 1], x] != q, [match q { [2, [h, _, 2], 1] => { false }, [y, h, [1]] => [false, append(y, y, [2, 2])], }, q == ['a']], matche q { _ | [[3 | y], [y, t, h], [z, _]] => member(x, [2, 2]), } }] }])
}
pub fn case_525(vars: &Vars) -> InferredGoal<DU, DE, Goal<DU, DE>> {
    let q = vars.v[0].clone();
    let x = vars.v[1].clone();
    proto_vulcan!([conde { [|y, z| { [y] != x, matche 3 { [[2] | z] | [[_, y | x], [3, h], [_, _] | y] => , }, match q { y => , } }, match [q | x] { [[t | x]] => , }], conde { [match x { [[t | t], 'b'] => q == false, [[x, [] | t], true | z] => , }, [2, q, [[], q, x]] == x], member(x, [1]), 2 == [[1 | false]] }, x != q }, closure { [|z| { |fresh_name_9, x| { [[x, 'a', fresh_name_9], [3, x | fresh_name_9] | x] == q, [[false] | x] != [[fresh_name_9 | q], [true, 1] | x] }, [[z], [1 | q], "a" | 2] == z, match [1, _, x | x] { [h, 2, [1, _, []] | _] => { [[1, 'b']] == h }, [[t], [2] | t] => { false }, [1, [z]] => { [] == x, [[z, [] | z], 2, [1] | z] == 'b' }, } }, conde { [[2 | 1], x] != q, [match q { [2, [h, _, 2], 1] => { false }, [y, h, [1]] => [false, append(y, y, [2, 2])], }, q == ['a']], matche q { _ | [[3 | y], [y, t, h], [z, _]] => member(x, [2, 2]), } }] }])
}
pub fn case_526(vars: &Vars) -> InferredGoal<DU, DE, Goal<DU, DE>> {
    let q = vars.v[0].clone();
    let x = vars.v[1].clone();
    proto_vulcan!([|y| { |h, y| { member(q, [2, 1, 3]), y == y }, [conde { [x != y, true], [y != [false, "a", [[]]], append(y, y, [])], y == x }, [[[true, _, _], 2, [2, q] | x] == [2]]] }, match q { true => , }, [[x, [x, _] | x] == x, x == []]])
}
pub fn case_527(vars: &Vars) -> InferredGoal<DU, DE, Goal<DU, DE>> {
    let q = vars.v[0].clone();
    let x = vars.v[1].clone();
    proto_vulcan!([|y| { |h, fresh_name_9| { member(q, [2, 1, 3]), fresh_name_9 == fresh_name_9 }, [conde { [x != y, true], [y != [false, "a", [[]]], append(y, y, [])], y == x }, [[[true, _, _], 2, [2, q] | x] == [2]]] }, match q { true => , }, [[x, [x, _] | x] == x, x == []]])
}
pub fn case_528(vars: &Vars) -> InferredGoal<DU, DE, Goal<DU, DE>> {
    let x = vars.v[0].clone();
    proto_vulcan!([|y| { [[y, _ | 'b'] | 3] == y, match y { h => { member(x, [3, 3, 1]) }, [[x, x, t | h] | y] | [[3, [], x], [[]]] => conde { [[2, 1 | x]] == x, [x != [[x, x | x] | 1], x == [[1, _], x | x]], [true == x, x == [[_, x, _], [x | x], 1]] }, }, [[], false, 'a'] == y }, [[x, x, 3 | x]] == [x, [x | x], x], |x| { [x, 1] == x, match _ { [[1], 1] => , }, |y| { |y, t| { member(y, [1, 1]), false, [[3, 3], [x]] == [y, 1, _ | y] }, y == [x, [2, x, x] | x] } }])
}
pub fn case_529(vars: &Vars) -> InferredGoal<DU, DE, Goal<DU, DE>> {
    let x = vars.v[0].clone();
    proto_vulcan!([|fresh_name_9| { [[fresh_name_9, _ | 'b'] | 3] == fresh_name_9, match fresh_name_9 { h => { member(x, [3, 3, 1]) }, [[x, x, t | h] | y] | [[3, [], x], [[]]] => conde { [[2, 1 | x]] == x, [x != [[x, x | x] | 1], x == [[1, _], x | x]], [true == x, x == [[_, x, _], [x | x], 1]] }, }, [[], false, 'a'] == fresh_name_9 }, [[x, x, 3 | x]] == [x, [x | x], x], |x| { [x, 1] == x, match _ { [[1], 1] => , }, |y| { |y, t| { member(y, [1, 1]), false, [[3, 3], [x]] == [y, 1, _ | y] }, y == [x, [2, x, x] | x] } }])
}
pub fn case_530(vars: &Vars) -> InferredGoal<DU, DE, Goal<DU, DE>> {
    let q = vars.v[0].clone();
    let x = vars.v[1].clone();
    proto_vulcan!([[[]] == [[1, 'b', 1], q], |y| { conde { [|t| { false, true }, true], [|t, h| { append(h, q, [3]) }, y == q], ["a", [x | x]] != y }, _ != q, conde { [2 == y, y == [y, q | y], append(y, q, [3, 3])], [match y { [y] => { _ == y }, [[], [h, z, 1], [y] | y] => { append(y, q, [3, 2]), 1 == z }, [[2, _], 2] | [[2], 3, [_]] => { [[q, q | 1], [2, q], [] | q] != y, [[x]] != y }, }, match q { 3 => , [z, [], [y]] => [[_] != y, q == [true, [1, _, "a"], [z | y]]], }], x == [[], [y, y, x | q] | y] } }, [match q { 3 => [1, [3, q, x]] == [[q, [], 2], [x, 1 | q]], [[[], false, t], [_], [y, true]] => { [2 != x, append(t, y, [2, 1]), 1 == t], conde { [y == [[q, 1, 1] | q], [[q], [q | y], [3, y] | t] == [[x], x | x]], [member(y, [2, 1, 2]), [[x], 2] == 2], [['b', y, q | y], [y, 2, 3] | x] == q } }, z => { append(z, q, [2]), [[[q, []], 2, ["a", 1]] != z, [x, q, z | 'b'] == z, true] }, }, conde { [x == [[1, _, []] | 2], [q, [x, q, 'b']] != q], [[[[] | q] != q], |x, t| { x == [[3, t], [t | q]] }], [match x { [3 | h] => , 2 => , }, append(x, x, [2])] }, match q { [['a', true], z, [x | y] | _] => [[member(y, []), x == 1, false], matche q { [[t, t, h]] => , [[[] | h]] => { [[2, 1]] == x }, y => { y == [z], [[1, x, q], [y]] == [[x, []]] }, }], }]])
}
pub fn case_531(vars: &Vars) -> InferredGoal<DU, DE, Goal<DU, DE>> {
    let q = vars.v[0].clone();
    let x = vars.v[1].clone();
    proto_vulcan!([[[]] == [[1, 'b', 1], q], |y| { conde { [|t| { false, true }, true], [|t, h| { append(h, q, [3]) }, y == q], ["a", [x | x]] != y }, _ != q, conde { [2 == y, y == [y, q | y], append(y, q, [3, 3])], [match y { [y] => { _ == y }, [[], [h, z, 1], [y] | y] => { append(y, q, [3, 2]), 1 == z }, [[2, _], 2] | [[2], 3, [_]] => { [[q, q | 1], [2, q], [] | q] != y, [[x]] != y }, }, match q { 3 => , [z, [], [y]] => [[_] != y, q == [true, [1, _, "a"], [z | y]]], }], x == [[], [y, y, x | q] | y] } }, [match q { 3 => [1, [3, q, x]] == [[q, [], 2], [x, 1 | q]], [[[], false, t], [_], [y, true]] => { [2 != x, append(t, y, [2, 1]), 1 == t], conde { [y == [[q, 1, 1] | q], [[q], [q | y], [3, y] | t] == [[x], x | x]], [member(y, [2, 1, 2]), [[x], 2] == 2], [['b', y, q | y], [y, 2, 3] | x] == q } }, z => { append(z, q, [2]), [[[q, []], 2, ["a", 1]] != z, [x, q, z | 'b'] == z, true] }, }, conde { [x == [[1, _, []] | 2], [q, [x, q, 'b']] != q], [[[[] | q] != q], |x, t| { x == [[3, t], [t | q]] }], [match x { [3 | h] => , 2 => , }, append(x, x, [2])] }, match q { [['a', true], z, [fresh_name_9 | y] | _] => [[member(y, []), fresh_name_9 == 1, false], matche q { [[t, t, h]] => , [[[] | h]] => { [[2, 1]] == fresh_name_9 }, y => { y == [z], [[1, fresh_name_9, q], [y]] == [[fresh_name_9, []]] }, }], }]])
}
pub fn case_532(vars: &Vars) -> InferredGoal<DU, DE, Goal<DU, DE>> {
    let x = vars.v[0].clone();
    let y = vars.v[1].clone();
    proto_vulcan!([match y { [["bc", 1, 2]] | [[z, _, 1 | y]] => , }, matche y { _ => { [append(x, x, [])] }, [false, [1, z], y] => , }])
}
pub fn case_533(vars: &Vars) -> InferredGoal<DU, DE, Goal<DU, DE>> {
    let x = vars.v[0].clone();
    let y = vars.v[1].clone();
    proto_vulcan!([match y { [["bc", 1, 2]] | [[z, _, 1 | y]] => , }, matche y { _ => { [append(x, x, [])] }, [false, [1, z], fresh_name_9] => , }])
}
pub fn case_534(vars: &Vars) -> InferredGoal<DU, DE, Goal<DU, DE>> {
    let q = vars.v[0].clone();
    let x = vars.v[1].clone();
    proto_vulcan!([|z| { [match x { [[t], [2, _, _], [2, t, h] | 2] => , [_, _, [2, 1, "a" | h] | _] => , }], [['b'], [_, q | "a"], ['a', z, 1]] != [[2], [2, 'b'], x] }, false, |z| { [[z, z, q]] == 2, [q] == x }, closure { q == 1 }])
}
pub fn case_535(vars: &Vars) -> InferredGoal<DU, DE, Goal<DU, DE>> {
    let q = vars.v[0].clone();
    let x = vars.v[1].clone();
    proto_vulcan!([|fresh_name_9| { [match x { [[t], [2, _, _], [2, t, h] | 2] => , [_, _, [2, 1, "a" | h] | _] => , }], [['b'], [_, q | "a"], ['a', fresh_name_9, 1]] != [[2], [2, 'b'], x] }, false, |z| { [[z, z, q]] == 2, [q] == x }, closure { q == 1 }])
}
pub fn case_536(vars: &Vars) -> InferredGoal<DU, DE, Goal<DU, DE>> {
    let x = vars.v[0].clone();
    proto_vulcan!([matche x { [t] | [] => [[[x, x, x]] == x, conde { [|h| { [[_, x | x], x] == x, h == [h] }, |y| { 1 == x }], [[x, "a"], [3, [], 2] | x] == 2, [[1 | 1] == x, member(x, [1, 2, 3])] }], h => [x == [x, [_, "bc", []]], conde { [h == true, 1 == h], [[_] == h, [h, [2, 2, _] | x] == 1] }], }, x != [3 | x], matche x { [t, [_, t], h | y] => 3 != t, }])
}
pub fn case_537(vars: &Vars) -> InferredGoal<DU, DE, Goal<DU, DE>> {
    let x = vars.v[0].clone();
    proto_vulcan!([matche x { [t] | [] => [[[x, x, x]] == x, conde { [|h| { [[_, x | x], x] == x, h == [h] }, |y| { 1 == x }], [[x, "a"], [3, [], 2] | x] == 2, [[1 | 1] == x, member(x, [1, 2, 3])] }], h => [x == [x, [_, "bc", []]], conde { [h == true, 1 == h], [[_] == h, [h, [2, 2, _] | x] == 1] }], }, x != [3 | x], matche x { [fresh_name_9, [_, fresh_name_9], h | y] => 3 != fresh_name_9, }])
}
pub fn case_538(vars: &Vars) -> InferredGoal<DU, DE, Goal<DU, DE>> {
    let x = vars.v[0].clone();
    proto_vulcan!([|h| { 1 == x, h == h }, |y| { match x { h => , [[h], 2 | x] => [[x == 2], [x, h] == x], }, _ == [[3, y, 2], [_], [y, true, y] | x] }, conde { x == [[x, x], x], |x| { |z| { x == [z, [x, [], x], [2] | x], false }, x != [[x | x], 1 | x], x == [] } }])
}
pub fn case_539(vars: &Vars) -> InferredGoal<DU, DE, Goal<DU, DE>> {
    let x = vars.v[0].clone();
    proto_vulcan!([|h| { 1 == x, h == h }, |y| { match x { fresh_name_9 => , [[h], 2 | x] => [[x == 2], [x, h] == x], }, _ == [[3, y, 2], [_], [y, true, y] | x] }, conde { x == [[x, x], x], |x| { |z| { x == [z, [x, [], x], [2] | x], false }, x != [[x | x], 1 | x], x == [] } }])
}
pub fn case_540(vars: &Vars) -> InferredGoal<DU, DE, Goal<DU, DE>> {
    let q = vars.v[0].clone();
    let x = vars.v[1].clone();
    proto_vulcan!([match x { [[3, _ | y], x | z] => { conde { [] == z, [q != [[x, 'b', 2], _], q == [[true], y, _ | q]], [[true, y == x], 1 == [[2, y, x | z]]] }, q == [[2, x, x], [q, 1, z]] }, [[h, [], 2], [] | h] => , [2, 1, 1] | 1 => append(q, q, [3, 3]), }, |h, y| { [[y, h, []], [2], 3] == 2, matche [2, 1, x | _] { [[_, h], false | 1] => [2, true, [y, h] | y] == [[1]], 3 => , [[y] | x] => { matche [2, x, []] { t | 1 => , } }, } }, |t| { |y| { 1 == x }, x != q }, closure { [q == q, q == true] }])
}
pub fn case_541(vars: &Vars) -> InferredGoal<DU, DE, Goal<DU, DE>> {
    let q = vars.v[0].clone();
    let x = vars.v[1].clone();
    proto_vulcan!([match x { [[3, _ | fresh_name_9], x | z] => { conde { [] == z, [q != [[x, 'b', 2], _], q == [[true], fresh_name_9, _ | q]], [[true, fresh_name_9 == x], 1 == [[2, fresh_name_9, x | z]]] }, q == [[2, x, x], [q, 1, z]] }, [[h, [], 2], [] | h] => , [2, 1, 1] | 1 => append(q, q, [3, 3]), }, |h, y| { [[y, h, []], [2], 3] == 2, matche [2, 1, x | _] { [[_, h], false | 1] => [2, true, [y, h] | y] == [[1]], 3 => , [[y] | x] => { matche [2, x, []] { t | 1 => , } }, } }, |t| { |y| { 1 == x }, x != q }, closure { [q == q, q == true] }])
}
pub fn case_542(vars: &Vars) -> InferredGoal<DU, DE, Goal<DU, DE>> {
    let x = vars.v[0].clone();
    let y = vars.v[1].clone();
    proto_vulcan!([match y { [[1]] | h => { conde { [1, [1, 2, _], y | x] == [[1 | y]], [[x | x] == [[true, x]], [[y], 1] != y, [2, [2, 1, x] | 2] == [[y, x, x | y], 3, [1, 2, 1 | y]]], [matche _ { _ => , }, conde { member(y, [1, 2]), _ == x }] }, [[y] | x] == x }, [x, _] => { matche ['a'] { [[y, 1, 'b'], [z, 1], [x, h]] => , x => { x == [[true, x, y | x], ["bc", 2 | x], 'a'] }, }, |x| { true, member(x, [1, 1, 3]), |x, h| { false } } }, }, closure { [conde { x != [y], [matche x { [[t, 3, x], [1, h, t | x] | y] => , }, |y, t| { _ == y, append(x, x, [3, 1]), y == t }], y == 2 }, y == _] }])
}
pub fn case_543(vars: &Vars) -> InferredGoal<DU, DE, Goal<DU, DE>> {
    let x = vars.v[0].clone();
    let y = vars.v[1].clone();
    proto_vulcan!([match y { [[1]] | h => { conde { [1, [1, 2, _], y | x] == [[1 | y]], [[x | x] == [[true, x]], [[y], 1] != y, [2, [2, 1, x] | 2] == [[y, x, x | y], 3, [1, 2, 1 | y]]], [matche _ { _ => , }, conde { member(y, [1, 2]), _ == x }] }, [[y] | x] == x }, [x, _] => { matche ['a'] { [[y, 1, 'b'], [z, 1], [x, h]] => , x => { x == [[true, x, y | x], ["bc", 2 | x], 'a'] }, }, |x| { true, member(x, [1, 1, 3]), |x, h| { false } } }, }, closure { [conde { x != [y], [matche x { [[t, 3, x], [1, h, t | x] | y] => , }, |fresh_name_9, t| { _ == fresh_name_9, append(x, x, [3, 1]), fresh_name_9 == t }], y == 2 }, y == _] }])
}
pub fn case_544(vars: &Vars) -> InferredGoal<DU, DE, Goal<DU, DE>> {
    let x = vars.v[0].clone();
    let y = vars.v[1].clone();
    proto_vulcan!([conde { member(y, []), [[[], x], [[], 3] | 3] == x, [[y, y, "a"] == _, matche x { ['b', ["a", 2 | t], [_, _, "bc"] | _] => , }] }, |z| { conde { [[1, [], [z]] == 2, matche z { ['a' | t] => { [[t, [], 1] | t] == t }, x => true, [[[] | _], [y, 1, 1], h | h] | 2 => { x != [[x, true, z]] }, }], conde { y == [[1] | x], [[x], 2] == [[1], [_, y]] } }, [[], [x], [3, _ | x]] == [[x, _, y | y], [] | _], [conde { [[[x, [], y | z], [x, _, 'b' | y], y] == y, ["bc", [_, y, "bc"], [_, 1] | x] == y], [[[_, 3 | y]] == x, [z] == z], [[[y, "bc"]] != z, [1, false, [x, 2]] == [[y, y | x], z, true]] }, [[[x, 1, []], 2] == []], [append(z, z, [1]), [1, y, [x, []]] == y, y == [[2 | 3], [z], [2, 3, 1] | x]]] }, |t| { _ == [3, 1] }])
}
pub fn case_545(vars: &Vars) -> InferredGoal<DU, DE, Goal<DU, DE>> {
    let x = vars.v[0].clone();
    let y = vars.v[1].clone();
    proto_vulcan!([conde { member(y, []), [[[], x], [[], 3] | 3] == x, [[y, y, "a"] == _, matche x { ['b', ["a", 2 | t], [_, _, "bc"] | _] => , }] }, |z| { conde { [[1, [], [z]] == 2, matche z { ['a' | t] => { [[t, [], 1] | t] == t }, x => true, [[[] | _], [y, 1, 1], h | h] | 2 => { x != [[x, true, z]] }, }], conde { y == [[1] | x], [[x], 2] == [[1], [_, y]] } }, [[], [x], [3, _ | x]] == [[x, _, y | y], [] | _], [conde { [[[x, [], y | z], [x, _, 'b' | y], y] == y, ["bc", [_, y, "bc"], [_, 1] | x] == y], [[[_, 3 | y]] == x, [z] == z], [[[y, "bc"]] != z, [1, false, [x, 2]] == [[y, y | x], z, true]] }, [[[x, 1, []], 2] == []], [append(z, z, [1]), [1, y, [x, []]] == y, y == [[2 | 3], [z], [2, 3, 1] | x]]] }, |fresh_name_9| { _ == [3, 1] }])
}
pub fn case_546(vars: &Vars) -> InferredGoal<DU, DE, Goal<DU, DE>> {
    let x = vars.v[0].clone();
    let y = vars.v[1].clone();
    proto_vulcan!([[conde { match x { _ => { y == [[y | y], [y], [2, 1, y]] }, }, [x | y] == x, [append(y, y, []), |y, h| { append(h, h, [2, 2]), [[h, 2]] == h, false }] }, |h, x| { member(y, [2]) }, |z| { [[[]] == z, 2 != x, y == 2], [3 == [[y, x], [z, z], [z]]] }], conde { _ == y, [3 == [[[], _ | y], 1, ['a', [], 2 | y]], [false, conde { [true, y == [3]], [member(x, [3]), false], [y != [x | y], [[3, 3, x], 1] == [[2], [2], [y, []]]] }, [[[[], [], _], [2 | 1], 1 | x] != y, [[1 | x]] == [[x], y, y]]]], [y] == x }, y == x])
}
pub fn case_547(vars: &Vars) -> InferredGoal<DU, DE, Goal<DU, DE>> {
    let x = vars.v[0].clone();
    let y = vars.v[1].clone();
    proto_vulcan!([[conde { match x { _ => { y == [[y | y], [y], [2, 1, y]] }, }, [x | y] == x, [append(y, y, []), |y, h| { append(h, h, [2, 2]), [[h, 2]] == h, false }] }, |h, fresh_name_9| { member(y, [2]) }, |z| { [[[]] == z, 2 != x, y == 2], [3 == [[y, x], [z, z], [z]]] }], conde { _ == y, [3 == [[[], _ | y], 1, ['a', [], 2 | y]], [false, conde { [true, y == [3]], [member(x, [3]), false], [y != [x | y], [[3, 3, x], 1] == [[2], [2], [y, []]]] }, [[[[], [], _], [2 | 1], 1 | x] != y, [[1 | x]] == [[x], y, y]]]], [y] == x }, y == x])
}
pub fn case_548(vars: &Vars) -> InferredGoal<DU, DE, Goal<DU, DE>> {
    let x = vars.v[0].clone();
    let y = vars.v[1].clone();
    proto_vulcan!([member(x, []), closure { |x| { x == [2 | "a"] } }])
}
pub fn case_549(vars: &Vars) -> InferredGoal<DU, DE, Goal<DU, DE>> {
    let x = vars.v[0].clone();
    let y = vars.v[1].clone();
    proto_vulcan!([member(x, []), closure { |fresh_name_9| { fresh_name_9 == [2 | "a"] } }])
}
pub fn case_550(vars: &Vars) -> InferredGoal<DU, DE, Goal<DU, DE>> {
    let x = vars.v[0].clone();
    let y = vars.v[1].clone();
    proto_vulcan!([false, conde { [|h| { [y | h] == [[x, x, h], y], |t, z| { append(x, x, [2, 2]) } }, append(x, y, [])], |y, h| { [] == h, |z| { [y, [x]] == x, [y, ["bc", y], [_]] == [1, [y, "bc"] | z], [[1, [], z], 1, [[], 'b', 1 | y]] == x } }, [conde { [[[], [_ | y]] == x, y == y], |h| { [['b', 1], [x, h, y | h], [1, x]] != h }, [match y { [[[], y, 1], [y], [2 | z]] | [[y, y]] => , x => [y == ["a", 1 | "bc"], x == x], t | x => [[[]]] == y, }, x == [[x, x, _ | x], [x, 2 | x], 2]] }, y == [x | y]] }, [|h, t| { y == 'a', false, append(t, x, []) }, [[_] == [y, y | y], [[x, [], _ | x], [_, y]] == [[x, y, 2 | y]]], [[false, 1, []]] != 3], closure { [_ == x, [false, "a"] != 1] }])
}
pub fn case_551(vars: &Vars) -> InferredGoal<DU, DE, Goal<DU, DE>> {
    let x = vars.v[0].clone();
    let y = vars.v[1].clone();
    proto_vulcan!([false, conde { [|h| { [y | h] == [[x, x, h], y], |t, z| { append(x, x, [2, 2]) } }, append(x, y, [])], |y, h| { [] == h, |fresh_name_9| { [y, [x]] == x, [y, ["bc", y], [_]] == [1, [y, "bc"] | fresh_name_9], [[1, [], fresh_name_9], 1, [[], 'b', 1 | y]] == x } }, [conde { [[[], [_ | y]] == x, y == y], |h| { [['b', 1], [x, h, y | h], [1, x]] != h }, [match y { [[[], y, 1], [y], [2 | z]] | [[y, y]] => , x => [y == ["a", 1 | "bc"], x == x], t | x => [[[]]] == y, }, x == [[x, x, _ | x], [x, 2 | x], 2]] }, y == [x | y]] }, [|h, t| { y == 'a', false, append(t, x, []) }, [[_] == [y, y | y], [[x, [], _ | x], [_, y]] == [[x, y, 2 | y]]], [[false, 1, []]] != 3], closure { [_ == x, [false, "a"] != 1] }])
}
pub fn case_552(vars: &Vars) -> InferredGoal<DU, DE, Goal<DU, DE>> {
    let q = vars.v[0].clone();
    let x = vars.v[1].clone();
    proto_vulcan!([q == 'a', matche q { [['a', t | y], [2, 3], []] => , [3, [x, x, 1 | t], t] => , }, conde { [[[], q], []] == q, [matche q { [[y, [], x], [3, 1]] => , [_, 1] => , }, conde { [false, [x, [q, [], 2] | q] == [x]], [2] == _, [|t, y| { t != [[t, 1, 2], [_, false | y], 2 | y], true, member(y, [2, 2]) }, conde { q == [_, q], [[[1, q], [q | x], [x, x, q | q]] != q, [[1, 2]] != x] }] }], conde { x == [q], |y| { 1 != x, x == [] } } }])
}
pub fn case_553(vars: &Vars) -> InferredGoal<DU, DE, Goal<DU, DE>> {
    let q = vars.v[0].clone();
    let x = vars.v[1].clone();
    proto_vulcan!([q == 'a', matche q { [['a', t | fresh_name_9], [2, 3], []] => , [3, [x, x, 1 | t], t] => , }, conde { [[[], q], []] == q, [matche q { [[y, [], x], [3, 1]] => , [_, 1] => , }, conde { [false, [x, [q, [], 2] | q] == [x]], [2] == _, [|t, y| { t != [[t, 1, 2], [_, false | y], 2 | y], true, member(y, [2, 2]) }, conde { q == [_, q], [[[1, q], [q | x], [x, x, q | q]] != q, [[1, 2]] != x] }] }], conde { x == [q], |y| { 1 != x, x == [] } } }])
}
pub fn case_554(vars: &Vars) -> InferredGoal<DU, DE, Goal<DU, DE>> {
    let x = vars.v[0].clone();
    let y = vars.v[1].clone();
    proto_vulcan!([conde { [|y| { |y| { y == [_, [3, 3, y | y], [1, false]], append(x, y, [2]) }, [] == x }, matche y { y => [conde { [[[x, _, y], [x, x | x]] == y, [[[]], y] != [[x, 1, x], 2]], append(y, x, [3]) }, matche y { t => { y == 2 }, }], }], [member(y, [3, 3, 3]), |z| { matche z { h | h => [h != 2, h == 2], [[], [3, t], 3] => , }, matche z { "bc" => { false, x == _ }, [3, [2, 2, 2], [t, t, t]] => , }, z == [1 | x] }] }, |t| { [[[[x, 'a'], [] | y] != y, [] == y]], [member(t, [2]), conde { y == 3, t == [[y, "a"], 1, 2], member(t, [2]) }] }, |y| { append(x, x, [2]), 1 == x }])
}
pub fn case_555(vars: &Vars) -> InferredGoal<DU, DE, Goal<DU, DE>> {
    let x = vars.v[0].clone();
    let y = vars.v[1].clone();
    proto_vulcan!([conde { [|y| { |y| { y == [_, [3, 3, y | y], [1, false]], append(x, y, [2]) }, [] == x }, matche y { y => [conde { [[[x, _, y], [x, x | x]] == y, [[[]], y] != [[x, 1, x], 2]], append(y, x, [3]) }, matche y { t => { y == 2 }, }], }], [member(y, [3, 3, 3]), |z| { matche z { h | h => [h != 2, h == 2], [[], [3, t], 3] => , }, matche z { "bc" => { false, x == _ }, [3, [2, 2, 2], [t, t, t]] => , }, z == [1 | x] }] }, |fresh_name_9| { [[[[x, 'a'], [] | y] != y, [] == y]], [member(fresh_name_9, [2]), conde { y == 3, fresh_name_9 == [[y, "a"], 1, 2], member(fresh_name_9, [2]) }] }, |y| { append(x, x, [2]), 1 == x }])
}
pub fn case_556(vars: &Vars) -> InferredGoal<DU, DE, Goal<DU, DE>> {
    let q = vars.v[0].clone();
    let x = vars.v[1].clone();
    proto_vulcan!([[|x| { |x| { append(x, x, []) } }, conde { [x == 3, [false, true]], [[[q]] == x, matche [2] { [[x, _, false], [t, "bc", z | _], [t, "bc", z | t]] => { x == _, t == "a" }, [[_, 2, 2 | t], [1 | _], [2, []] | h] => { q == [[], [2], [t, [], 1]], false }, [[3 | _], []] | t => [x == x, [[1, 3, x | q], 2] != x], }], [[[[x] | q] == x], conde { [x == _, false], [[1, [1, 3] | q] == q, true], [x, x] == q }] }], closure { [[[] == q], [match x { h | z => { [[x, _, true | x], q] == x, [[x, _], q] == [_] }, [[t, x]] => [member(t, [1, 3]), t != [[[], 1, x], [_], x]], }, true, 3 == 2]] }])
}
pub fn case_557(vars: &Vars) -> InferredGoal<DU, DE, Goal<DU, DE>> {
    let q = vars.v[0].clone();
    let x = vars.v[1].clone();
    proto_vulcan!([[|x| { |x| { append(x, x, []) } }, conde { [x == 3, [false, true]], [[[q]] == x, matche [2] { [[fresh_name_9, _, false], [t, "bc", z | _], [t, "bc", z | t]] => { fresh_name_9 == _, t == "a" }, [[_, 2, 2 | t], [1 | _], [2, []] | h] => { q == [[], [2], [t, [], 1]], false }, [[3 | _], []] | t => [x == x, [[1, 3, x | q], 2] != x], }], [[[[x] | q] == x], conde { [x == _, false], [[1, [1, 3] | q] == q, true], [x, x] == q }] }], closure { [[[] == q], [match x { h | z => { [[x, _, true | x], q] == x, [[x, _], q] == [_] }, [[t, x]] => [member(t, [1, 3]), t != [[[], 1, x], [_], x]], }, true, 3 == 2]] }])
}
pub fn case_558(vars: &Vars) -> InferredGoal<DU, DE, Goal<DU, DE>> {
    let q = vars.v[0].clone();
    let x = vars.v[1].clone();
    proto_vulcan!([match x { 3 => , }, closure { [|z, y| { [[[]], [z, "bc"], [3] | _] == [[2, q, 3], [[]], x | 3], [] == y }, conde { [|z, x| { append(q, z, [1]), x == [['b', x, _], [[], 1, 3]] }, [[_, q, x], [[], 2, _ | _]] != [1 | 2]], |t| { "bc" != q, true } }] }])
}
pub fn case_559(vars: &Vars) -> InferredGoal<DU, DE, Goal<DU, DE>> {
    let q = vars.v[0].clone();
    let x = vars.v[1].clone();
    proto_vulcan!([match x { 3 => , }, closure { [|z, fresh_name_9| { [[[]], [z, "bc"], [3] | _] == [[2, q, 3], [[]], x | 3], [] == fresh_name_9 }, conde { [|z, x| { append(q, z, [1]), x == [['b', x, _], [[], 1, 3]] }, [[_, q, x], [[], 2, _ | _]] != [1 | 2]], |t| { "bc" != q, true } }] }])
}
pub fn case_560(vars: &Vars) -> InferredGoal<DU, DE, Goal<DU, DE>> {
    let x = vars.v[0].clone();
    let y = vars.v[1].clone();
    proto_vulcan!([conde { y == 2, [_] == y, [_ == y, [matche x { [[t | _], 2, _] => [t != [], t != [[]]], [] => [[2 | y] == x, true], }, conde { [x == 'a', y != [[2, []]]], [false, 2 == y] }, |y, t| { true, member(y, [2, 2, 2]) }]] }])
}
pub fn case_561(vars: &Vars) -> InferredGoal<DU, DE, Goal<DU, DE>> {
    let x = vars.v[0].clone();
    let y = vars.v[1].clone();
    proto_vulcan!([conde { y == 2, [_] == y, [_ == y, [matche x { [[t | _], 2, _] => [t != [], t != [[]]], [] => [[2 | y] == x, true], }, conde { [x == 'a', y != [[2, []]]], [false, 2 == y] }, |y, fresh_name_9| { true, member(y, [2, 2, 2]) }]] }])
}
pub fn case_562(vars: &Vars) -> InferredGoal<DU, DE, Goal<DU, DE>> {
    let x = vars.v[0].clone();
    proto_vulcan!([|t| { matche t { y | 2 => |h| { [] != h }, }, x == t, t == [1, [t, _ | 3]] }, [x, 1 | x] == 'b'])
}
pub fn case_563(vars: &Vars) -> InferredGoal<DU, DE, Goal<DU, DE>> {
    let x = vars.v[0].clone();
    proto_vulcan!([|fresh_name_9| { matche fresh_name_9 { y | 2 => |h| { [] != h }, }, x == fresh_name_9, fresh_name_9 == [1, [fresh_name_9, _ | 3]] }, [x, 1 | x] == 'b'])
}
pub fn case_564(vars: &Vars) -> InferredGoal<DU, DE, Goal<DU, DE>> {
    let q = vars.v[0].clone();
    let x = vars.v[1].clone();
    proto_vulcan!([|z| { true, match q { [] => , 1 => [x != [[2, 2 | q] | q], member(z, [1, 3])], [[x, 2 | y] | h] => { _ != z, x != x }, }, match q { [[2 | z], [x, _] | y] | [[], [y, 'a'] | 2] => [conde { [[[3, 1]] == [[q], [q], [[]]], true], [[_, q, q], [q, y, 1] | 2] == q }, match [y] { [["a", t] | h] => { q != _, [q | t] != t }, [[3 | h] | t] => , }], } }, [] == x, match x { [x, [2, []] | h] | 2 => [[[q, q], _ | q] == q, conde { |t| { t == [[_, t, true], [t, t, t | q], [t]], false, member(t, [2, 1, 1]) }, [conde { [[[], 1], [_ | q]] == [["a", 'b', 2] | 1], [[q], [q, q, []], [[], _ | q]] != false, [[[q], [q], 2] != q, [3, q] != [2]] }, "a" != q], [q == q] }], }, closure { [[x == [3, [1, q | x] | x], append(q, x, []), [[1, 'a', 2], [q, _, x | q], q | q] == q], [1, true | q] != x, [x, [[]] | q] == q] }])
}
pub fn case_565(vars: &Vars) -> InferredGoal<DU, DE, Goal<DU, DE>> {
    let q = vars.v[0].clone();
    let x = vars.v[1].clone();
    proto_vulcan!([|z| { true, match q { [] => , 1 => [x != [[2, 2 | q] | q], member(z, [1, 3])], [[x, 2 | y] | h] => { _ != z, x != x }, }, match q { [[2 | z], [x, _] | y] | [[], [y, 'a'] | 2] => [conde { [[[3, 1]] == [[q], [q], [[]]], true], [[_, q, q], [q, y, 1] | 2] == q }, match [y] { [["a", t] | h] => { q != _, [q | t] != t }, [[3 | h] | fresh_name_9] => , }], } }, [] == x, match x { [x, [2, []] | h] | 2 => [[[q, q], _ | q] == q, conde { |t| { t == [[_, t, true], [t, t, t | q], [t]], false, member(t, [2, 1, 1]) }, [conde { [[[], 1], [_ | q]] == [["a", 'b', 2] | 1], [[q], [q, q, []], [[], _ | q]] != false, [[[q], [q], 2] != q, [3, q] != [2]] }, "a" != q], [q == q] }], }, closure { [[x == [3, [1, q | x] | x], append(q, x, []), [[1, 'a', 2], [q, _, x | q], q | q] == q], [1, true | q] != x, [x, [[]] | q] == q] }])
}
pub fn case_566(vars: &Vars) -> InferredGoal<DU, DE, Goal<DU, DE>> {
    let x = vars.v[0].clone();
    let y = vars.v[1].clone();
    proto_vulcan!([matche [2 | x] { [[x, 2 | y], [1]] => , 3 | [1, [t | y], [_, _]] => matche x { y => { |x, y| { x == [2 | y], y == [[[], 3, 2 | y] | "a"], "a" == y }, _ == 2 }, [[[], t, y | _], z | 3] => , }, [y, [z, h, h], [3, _, true] | _] => , }, false, match y { y | [3, [t, 2, []]] => [[[x, 3, false], [false]] == x, matche x { ["bc"] => [x != x, [x, [1]] == [[_, 2, 3] | x]], [[], 1, 1] | z => { |x| { x == x } }, }], }])
}
pub fn case_567(vars: &Vars) -> InferredGoal<DU, DE, Goal<DU, DE>> {
    let x = vars.v[0].clone();
    let y = vars.v[1].clone();
    proto_vulcan!([matche [2 | x] { [[x, 2 | y], [1]] => , 3 | [1, [t | y], [_, _]] => matche x { y => { |x, y| { x == [2 | y], y == [[[], 3, 2 | y] | "a"], "a" == y }, _ == 2 }, [[[], t, y | _], z | 3] => , }, [y, [fresh_name_9, h, h], [3, _, true] | _] => , }, false, match y { y | [3, [t, 2, []]] => [[[x, 3, false], [false]] == x, matche x { ["bc"] => [x != x, [x, [1]] == [[_, 2, 3] | x]], [[], 1, 1] | z => { |x| { x == x } }, }], }])
}
pub fn case_568(vars: &Vars) -> InferredGoal<DU, DE, Goal<DU, DE>> {
    let q = vars.v[0].clone();
    let x = vars.v[1].clone();
    proto_vulcan!([[2, [_, q], [x] | 2] == [[q, _, 1], q], closure { [q != 1, matche q { [y] => , [1, [2, x, 2]] => { |t| { true } }, }] }])
}
pub fn case_569(vars: &Vars) -> InferredGoal<DU, DE, Goal<DU, DE>> {
    let q = vars.v[0].clone();
    let x = vars.v[1].clone();
    proto_vulcan!([[2, [_, q], [x] | 2] == [[q, _, 1], q], closure { [q != 1, matche q { [fresh_name_9] => , [1, [2, x, 2]] => { |t| { true } }, }] }])
}
pub fn case_570(vars: &Vars) -> InferredGoal<DU, DE, Goal<DU, DE>> {
    let q = vars.v[0].clone();
    let x = vars.v[1].clone();
    proto_vulcan!([|h| { [q == [[h], _, [x | q] | q]], [2, [], q] == h, conde { [[1], [q, false], [x] | q] == [q], [|x, y| { append(y, y, [2, 1]), append(x, q, [1]), x == x }, |y| { [x] == [[y | y], [1], 2] }], x != 1 } }, [x] == "bc"])
}
pub fn case_571(vars: &Vars) -> InferredGoal<DU, DE, Goal<DU, DE>> {
    let q = vars.v[0].clone();
    let x = vars.v[1].clone();
    proto_vulcan!([|h| { [q == [[h], _, [x | q] | q]], [2, [], q] == h, conde { [[1], [q, false], [x] | q] == [q], [|x, y| { append(y, y, [2, 1]), append(x, q, [1]), x == x }, |fresh_name_9| { [x] == [[fresh_name_9 | fresh_name_9], [1], 2] }], x != 1 } }, [x] == "bc"])
}
pub fn case_572(vars: &Vars) -> InferredGoal<DU, DE, Goal<DU, DE>> {
    let x = vars.v[0].clone();
    proto_vulcan!([match x { [[1]] => { |t, x| { [[t], t] == x, conde { [[[1], [2, 2], 1] != t, 3 == x], [true, member(x, [2, 2])], x == _ } }, [|t, x| { x == [[x, x], [2, x, 2]], ['a', _] == x }, [1] == x, [2 | x] != x] }, t => , 'a' | [[[], z] | x] => , }, [[x, _, [3, 2]] == 2, [[[], false | x], [1, x, 2 | x], [x, "a", 1] | x] == [1, [x, [], x | x], [1, x | x]], |x| { x != x, |t| { t == [[[], _, false | x]], [[_, []]] == [[false, t | x]] } }]])
}
pub fn case_573(vars: &Vars) -> InferredGoal<DU, DE, Goal<DU, DE>> {
    let x = vars.v[0].clone();
    proto_vulcan!([match x { [[1]] => { |t, x| { [[t], t] == x, conde { [[[1], [2, 2], 1] != t, 3 == x], [true, member(x, [2, 2])], x == _ } }, [|t, x| { x == [[x, x], [2, x, 2]], ['a', _] == x }, [1] == x, [2 | x] != x] }, fresh_name_9 => , 'a' | [[[], z] | x] => , }, [[x, _, [3, 2]] == 2, [[[], false | x], [1, x, 2 | x], [x, "a", 1] | x] == [1, [x, [], x | x], [1, x | x]], |x| { x != x, |t| { t == [[[], _, false | x]], [[_, []]] == [[false, t | x]] } }]])
}
pub fn case_574(vars: &Vars) -> InferredGoal<DU, DE, Goal<DU, DE>> {
    let x = vars.v[0].clone();
    let y = vars.v[1].clone();
    proto_vulcan!([[[2, y, y | x] | y] != y, closure { [match x { [] | [[t, _, t | z], 2, [] | z] => , [[false, [], h], [2, x]] => , }, "bc" != y] }])
}
pub fn case_575(vars: &Vars) -> InferredGoal<DU, DE, Goal<DU, DE>> {
    let x = vars.v[0].clone();
    let y = vars.v[1].clone();
    proto_vulcan!([[[2, y, y | x] | y] != y, closure { [match x { [] | [[t, _, t | z], 2, [] | z] => , [[false, [], h], [2, fresh_name_9]] => , }, "bc" != y] }])
}
pub fn case_576(vars: &Vars) -> InferredGoal<DU, DE, Goal<DU, DE>> {
    let x = vars.v[0].clone();
    proto_vulcan!([_ == x, x == [[3, x], [x, 2, x | x] | x], closure { [[[1, "bc", []] | x] != x, conde { |y, h| { h != x }, [x == [3, [1, _, _], [1]], [x != 1]], [[[x, 1, "bc"], [x, x, x | x], "bc" | x] == x, match x { [2] | [[2], t | _] => [true, [[x, x], x | x] != [[[], [] | x], [1, x], [x | _] | x]], [] => , t => [false, t != 2], }] }] }])
}
pub fn case_577(vars: &Vars) -> InferredGoal<DU, DE, Goal<DU, DE>> {
    let x = vars.v[0].clone();
    proto_vulcan!([_ == x, x == [[3, x], [x, 2, x | x] | x], closure { [[[1, "bc", []] | x] != x, conde { |y, fresh_name_9| { fresh_name_9 != x }, [x == [3, [1, _, _], [1]], [x != 1]], [[[x, 1, "bc"], [x, x, x | x], "bc" | x] == x, match x { [2] | [[2], t | _] => [true, [[x, x], x | x] != [[[], [] | x], [1, x], [x | _] | x]], [] => , t => [false, t != 2], }] }] }])
}
pub fn case_578(vars: &Vars) -> InferredGoal<DU, DE, Goal<DU, DE>> {
    let q = vars.v[0].clone();
    let x = vars.v[1].clone();
    proto_vulcan!([|x, y| { matche y { [[_] | z] => { |x, t| { [[1, "a" | 2], [1] | x] == _ } }, [t] | [[t, t, y | t], [y]] => [matche q { 1 | 3 => [[t | q], [q, 2, 1], [1, _]] == x, [[], z] => , _ | [y, 1, [1, true, []]] => { member(t, []) }, }, conde { [member(t, [1]), 2 == t], [3 == x, _ == [[1, x, []]]] }], }, [x == [x, 1 | x], 2 == 2], conde { ["bc", [1]] == q, _ == x, match 3 { 2 | [['a', z, y | h], []] => x == [[[]] | q], [2 | x] => , [[h], t, [1]] => true, } } }, q != [true | x]])
}
pub fn case_579(vars: &Vars) -> InferredGoal<DU, DE, Goal<DU, DE>> {
    let q = vars.v[0].clone();
    let x = vars.v[1].clone();
    proto_vulcan!([|x, y| { matche y { [[_] | z] => { |x, t| { [[1, "a" | 2], [1] | x] == _ } }, [t] | [[t, t, y | t], [y]] => [matche q { 1 | 3 => [[t | q], [q, 2, 1], [1, _]] == x, [[], z] => , _ | [y, 1, [1, true, []]] => { member(t, []) }, }, conde { [member(t, [1]), 2 == t], [3 == x, _ == [[1, x, []]]] }], }, [x == [x, 1 | x], 2 == 2], conde { ["bc", [1]] == q, _ == x, match 3 { 2 | [['a', z, y | h], []] => x == [[[]] | q], [2 | x] => , [[fresh_name_9], t, [1]] => true, } } }, q != [true | x]])
}
pub fn case_580(vars: &Vars) -> InferredGoal<DU, DE, Goal<DU, DE>> {
    let x = vars.v[0].clone();
    proto_vulcan!([matche x { x => , [[1, []], t, [2, 'b']] | [3, [_ | _]] => { [[x], [_, x, "bc"], [[], [], 3]] != [1, [_, x]] }, [[y, _], [z, h], t] => { append(t, x, []), |h| { y != t, [[], [3]] == _ } }, }])
}
pub fn case_581(vars: &Vars) -> InferredGoal<DU, DE, Goal<DU, DE>> {
    let x = vars.v[0].clone();
    proto_vulcan!([matche x { x => , [[1, []], t, [2, 'b']] | [3, [_ | _]] => { [[x], [_, x, "bc"], [[], [], 3]] != [1, [_, x]] }, [[y, _], [fresh_name_9, h], t] => { append(t, x, []), |h| { y != t, [[], [3]] == _ } }, }])
}
pub fn case_582(vars: &Vars) -> InferredGoal<DU, DE, Goal<DU, DE>> {
    let x = vars.v[0].clone();
    proto_vulcan!([[[1, x, x]] == x, |y, h| { conde { matche h { 3 | 1 => { h == [2 | x], [[h | h] | h] == y }, h | [[x], [t, 1, h], y | y] => , t => , }, _ != [[h, x, 2 | y] | h] } }, x == [2, [x], [1, true, 1]], closure { [[[x, 1, x], [x, _, 'b'] | x] == x, x != [[1]]] }])
}
pub fn case_583(vars: &Vars) -> InferredGoal<DU, DE, Goal<DU, DE>> {
    let x = vars.v[0].clone();
    proto_vulcan!([[[1, x, x]] == x, |y, h| { conde { matche h { 3 | 1 => { h == [2 | x], [[h | h] | h] == y }, h | [[x], [t, 1, h], y | y] => , fresh_name_9 => , }, _ != [[h, x, 2 | y] | h] } }, x == [2, [x], [1, true, 1]], closure { [[[x, 1, x], [x, _, 'b'] | x] == x, x != [[1]]] }])
}
pub fn case_584(vars: &Vars) -> InferredGoal<DU, DE, Goal<DU, DE>> {
    let x = vars.v[0].clone();
    proto_vulcan!([|h, y| { x == y, true, [["bc"], [3 | h], y | h] == h }, [x == [2, [[], 3 | x]], conde { append(x, x, []), append(x, x, []) }], closure { [[x != [x]], member(x, [])] }])
}
pub fn case_585(vars: &Vars) -> InferredGoal<DU, DE, Goal<DU, DE>> {
    let x = vars.v[0].clone();
    proto_vulcan!([|fresh_name_9, y| { x == y, true, [["bc"], [3 | fresh_name_9], y | fresh_name_9] == fresh_name_9 }, [x == [2, [[], 3 | x]], conde { append(x, x, []), append(x, x, []) }], closure { [[x != [x]], member(x, [])] }])
}
pub fn case_586(vars: &Vars) -> InferredGoal<DU, DE, Goal<DU, DE>> {
    let q = vars.v[0].clone();
    let x = vars.v[1].clone();
    proto_vulcan!([false != [[_, x, x]], matche x { 1 => { [[2, 2, 3 | x], [q, q, 2] | 2] != x }, [[] | _] => , [[2, 2], []] => { matche x { [y, 2] => [|t| { false, member(x, []), [x, [t], [3, 3]] == x }, [[q, _, [] | q], [x, [], 2]] == 'a'], [[z, t], [3, h]] => , [[1, []]] => { [x == x, [2 | q] != q, 3 == [true, ['a'], [1, 'b', x]]], |h| { true } }, } }, }])
}
pub fn case_587(vars: &Vars) -> InferredGoal<DU, DE, Goal<DU, DE>> {
    let q = vars.v[0].clone();
    let x = vars.v[1].clone();
    proto_vulcan!([false != [[_, x, x]], matche x { 1 => { [[2, 2, 3 | x], [q, q, 2] | 2] != x }, [[] | _] => , [[2, 2], []] => { matche x { [y, 2] => [|t| { false, member(x, []), [x, [t], [3, 3]] == x }, [[q, _, [] | q], [x, [], 2]] == 'a'], [[z, t], [3, fresh_name_9]] => , [[1, []]] => { [x == x, [2 | q] != q, 3 == [true, ['a'], [1, 'b', x]]], |h| { true } }, } }, }])
}
pub fn case_588(vars: &Vars) -> InferredGoal<DU, DE, Goal<DU, DE>> {
    let x = vars.v[0].clone();
    let y = vars.v[1].clone();
    proto_vulcan!([|h| { matche [h] { [[_ | x], []] => { matche x { [[t, 'b'], [z, [], z], [_, x]] => { t == ['b', ["bc", _, 3]], [["bc", false, _], t | y] == t }, [[y, 1], [3, 1, 1], 'b' | t] => { member(h, []), false }, [3 | 1] => , }, _ == [2, [h, _ | y]] }, [[y, 1], [t] | z] => [true, [z != y, [["a" | t]] == z]], }, y != y }, matche x { _ => { [[[2, 1, 2 | y], 'a', [1, 2, 'b'] | x] == x, match x { _ => { true }, [[true | x], [1, 2, _ | h], 'b' | y] => , [z] | [[1] | x] => [y == [[y, y], [_, 1, y]], append(y, y, [1])], }], matche x { [[], [y], h] | 2 => , [[_, 1, 3], [z, true] | t] | [2, ["bc", 3, 'b' | t], y] => |h, z| { append(t, x, []), [3, x] != h, z == x }, } }, [[h, z], 1 | x] => [|y| { append(y, h, [2]) }, [[x, 2, []], [3, 2]] == z], [] | [[[], y], [2, [], x]] => , }, x != y, closure { match y { [1, [2, 2, "bc"], [y, h, y]] => , x | 2 => [[1, y, [1, _] | y] == [], |x| { false, false }], [[_], 1 | t] => , } }])
}
pub fn case_589(vars: &Vars) -> InferredGoal<DU, DE, Goal<DU, DE>> {
    let x = vars.v[0].clone();
    let y = vars.v[1].clone();
    proto_vulcan!([|h| { matche [h] { [[_ | x], []] => { matche x { [[t, 'b'], [z, [], z], [_, x]] => { t == ['b', ["bc", _, 3]], [["bc", false, _], t | y] == t }, [[y, 1], [3, 1, 1], 'b' | t] => { member(h, []), false }, [3 | 1] => , }, _ == [2, [h, _ | y]] }, [[y, 1], [t] | z] => [true, [z != y, [["a" | t]] == z]], }, y != y }, matche x { _ => { [[[2, 1, 2 | y], 'a', [1, 2, 'b'] | x] == x, match x { _ => { true }, [[true | x], [1, 2, _ | h], 'b' | y] => , [z] | [[1] | x] => [y == [[y, y], [_, 1, y]], append(y, y, [1])], }], matche x { [[], [y], h] | 2 => , [[_, 1, 3], [z, true] | t] | [2, ["bc", 3, 'b' | t], y] => |h, z| { append(t, x, []), [3, x] != h, z == x }, } }, [[h, z], 1 | x] => [|fresh_name_9| { append(fresh_name_9, h, [2]) }, [[x, 2, []], [3, 2]] == z], [] | [[[], y], [2, [], x]] => , }, x != y, closure { match y { [1, [2, 2, "bc"], [y, h, y]] => , x | 2 => [[1, y, [1, _] | y] == [], |x| { false, false }], [[_], 1 | t] => , } }])
}
pub fn case_590(vars: &Vars) -> InferredGoal<DU, DE, Goal<DU, DE>> {
    let q = vars.v[0].clone();
    let x = vars.v[1].clone();
    proto_vulcan!([|t, z| { [[[], q, 1], ["a", 3 | 2], []] == t, matche q { y | [[[], [], z], [[], x, x | y]] => , [2, x] => { conde { [[] != x, [] != t], [x | z] == z }, |y| { true, true } }, }, t == [[3, []], [2, 1], [2, x, _] | q] }, |x| { |z| { x != z, conde { [false, [[x, "bc", 3] | x] == x], [1 != [2, 1 | x], z != [2, ['b', 'a'] | x]] } } }, closure { [[q != [[1, 1], [q | x] | q], conde { [[[x]] != q, [x, 2, [_] | 1] != [[x | q], [2, q, false] | q]], false }, ['a', [] | x] != x], match x { [1 | h] => [[[1, 2, _ | x], _, [1] | x] != q], }] }])
}
pub fn case_591(vars: &Vars) -> InferredGoal<DU, DE, Goal<DU, DE>> {
    let q = vars.v[0].clone();
    let x = vars.v[1].clone();
    proto_vulcan!([|fresh_name_9, z| { [[[], q, 1], ["a", 3 | 2], []] == fresh_name_9, matche q { y | [[[], [], z], [[], x, x | y]] => , [2, x] => { conde { [[] != x, [] != fresh_name_9], [x | z] == z }, |y| { true, true } }, }, fresh_name_9 == [[3, []], [2, 1], [2, x, _] | q] }, |x| { |z| { x != z, conde { [false, [[x, "bc", 3] | x] == x], [1 != [2, 1 | x], z != [2, ['b', 'a'] | x]] } } }, closure { [[q != [[1, 1], [q | x] | q], conde { [[[x]] != q, [x, 2, [_] | 1] != [[x | q], [2, q, false] | q]], false }, ['a', [] | x] != x], match x { [1 | h] => [[[1, 2, _ | x], _, [1] | x] != q], }] }])
}
pub fn case_592(vars: &Vars) -> InferredGoal<DU, DE, Goal<DU, DE>> {
    let q = vars.v[0].clone();
    let x = vars.v[1].clone();
    proto_vulcan!([[conde { [q == [[x], [2]], true], [_ == x, match q { 2 => { 2 == [[x, x], 1, [x, x, _]] }, }] }], closure { [matche q { [[1 | y], 1] | [[1], h, true] => , }, |t, h| { conde { [[x, 2, [q, x, x]] == [q], false], append(q, h, [2, 2]), [x != 3, true] }, matche t { _ => [[], t, []] == [[x] | t], } }] }])
}
pub fn case_593(vars: &Vars) -> InferredGoal<DU, DE, Goal<DU, DE>> {
    let q = vars.v[0].clone();
    let x = vars.v[1].clone();
    proto_vulcan!([[conde { [q == [[x], [2]], true], [_ == x, match q { 2 => { 2 == [[x, x], 1, [x, x, _]] }, }] }], closure { [matche q { [[1 | y], 1] | [[1], h, true] => , }, |t, fresh_name_9| { conde { [[x, 2, [q, x, x]] == [q], false], append(q, fresh_name_9, [2, 2]), [x != 3, true] }, matche t { _ => [[], t, []] == [[x] | t], } }] }])
}
pub fn case_594(vars: &Vars) -> InferredGoal<DU, DE, Goal<DU, DE>> {
    let x = vars.v[0].clone();
    proto_vulcan!([|t| { [[3], t | x] == t }, match x { [['b' | z], 'a', [t, y] | 'b'] => , "a" => x == x, [1, [h, 'b'] | 2] => [h == [], [[[], 3, h], [x, 2], _] == [[1, 3]]], }])
}
pub fn case_595(vars: &Vars) -> InferredGoal<DU, DE, Goal<DU, DE>> {
    let x = vars.v[0].clone();
    proto_vulcan!([|t| { [[3], t | x] == t }, match x { [['b' | z], 'a', [t, y] | 'b'] => , "a" => x == x, [1, [fresh_name_9, 'b'] | 2] => [fresh_name_9 == [], [[[], 3, fresh_name_9], [x, 2], _] == [[1, 3]]], }])
}
pub fn case_596(vars: &Vars) -> InferredGoal<DU, DE, Goal<DU, DE>> {
    let x = vars.v[0].clone();
    let y = vars.v[1].clone();
    proto_vulcan!([|x| { [[x, 2 | y], [_, 3], [y | y]] == x, [[_, 1], [2, true | y], [x, 2]] == [[x] | y] }, false, false, closure { y != y }])
}
pub fn case_597(vars: &Vars) -> InferredGoal<DU, DE, Goal<DU, DE>> {
    let x = vars.v[0].clone();
    let y = vars.v[1].clone();
    proto_vulcan!([|fresh_name_9| { [[fresh_name_9, 2 | y], [_, 3], [y | y]] == fresh_name_9, [[_, 1], [2, true | y], [fresh_name_9, 2]] == [[fresh_name_9] | y] }, false, false, closure { y != y }])
}
pub fn case_598(vars: &Vars) -> InferredGoal<DU, DE, Goal<DU, DE>> {
    let x = vars.v[0].clone();
    let y = vars.v[1].clone();
    proto_vulcan!([|y| { y == y, _ == y, y != "a" }, [[1, [], y | y], [_ | y]] == x, closure { [x, [], y | y] == y }])
}
pub fn case_599(vars: &Vars) -> InferredGoal<DU, DE, Goal<DU, DE>> {
    let x = vars.v[0].clone();
    let y = vars.v[1].clone();
    proto_vulcan!([|fresh_name_9| { fresh_name_9 == fresh_name_9, _ == fresh_name_9, fresh_name_9 != "a" }, [[1, [], y | y], [_ | y]] == x, closure { [x, [], y | y] == y }])
}
pub fn case_600(vars: &Vars) -> InferredGoal<DU, DE, Goal<DU, DE>> {
    let x = vars.v[0].clone();
    let y = vars.v[1].clone();
    proto_vulcan!([conde { [y == [[y, y, 1 | y], ["a", 'a'], 1 | x], |t| { [member(t, [1])], matche y { 3 | [h, [], t | 2] => { [[]] == [[y], x], [2, y] == [[y, x]] }, [[], 3] => { [[3]] == x }, 'b' => [[_, [3], [y]] != t, x == [t, x, x]], }, conde { [false, false], [1 == [[2, y, _], [x]], false] } }], [[x != [_, [1 | y], _], [[[], 2 | 2], 'a'] != 1, |h| { member(x, [2]) }], match x { [y, [h]] => , x => { |y| { y == [y, 'a'] }, conde { member(x, []), [y == [[]], [2, x] == 1], [true, _ == x] } }, [[x, _, z], x, [x]] => { member(x, [2, 2, 2]), matche x { _ => member(x, [2, 1]), } }, }], 1 == 2 }])
}
pub fn case_601(vars: &Vars) -> InferredGoal<DU, DE, Goal<DU, DE>> {
    let x = vars.v[0].clone();
    let y = vars.v[1].clone();
    proto_vulcan!([conde { [y == [[y, y, 1 | y], ["a", 'a'], 1 | x], |t| { [member(t, [1])], matche y { 3 | [h, [], t | 2] => { [[]] == [[y], x], [2, y] == [[y, x]] }, [[], 3] => { [[3]] == x }, 'b' => [[_, [3], [y]] != t, x == [t, x, x]], }, conde { [false, false], [1 == [[2, y, _], [x]], false] } }], [[x != [_, [1 | y], _], [[[], 2 | 2], 'a'] != 1, |h| { member(x, [2]) }], match x { [y, [h]] => , x => { |y| { y == [y, 'a'] }, conde { member(x, []), [y == [[]], [2, x] == 1], [true, _ == x] } }, [[x, _, fresh_name_9], x, [x]] => { member(x, [2, 2, 2]), matche x { _ => member(x, [2, 1]), } }, }], 1 == 2 }])
}
pub const NCASES: usize = 602;
pub fn case(i: usize, vars: &Vars) -> Goal<DU, DE> {
    match i {
        0 => case_0(vars).goal,
        1 => case_1(vars).goal,
        2 => case_2(vars).goal,
        3 => case_3(vars).goal,
        4 => case_4(vars).goal,
        5 => case_5(vars).goal,
        6 => case_6(vars).goal,
        7 => case_7(vars).goal,
        8 => case_8(vars).goal,
        9 => case_9(vars).goal,
        10 => case_10(vars).goal,
        11 => case_11(vars).goal,
        12 => case_12(vars).goal,
        13 => case_13(vars).goal,
        14 => case_14(vars).goal,
        15 => case_15(vars).goal,
        16 => case_16(vars).goal,
        17 => case_17(vars).goal,
        18 => case_18(vars).goal,
        19 => case_19(vars).goal,
        20 => case_20(vars).goal,
        21 => case_21(vars).goal,
        22 => case_22(vars).goal,
        23 => case_23(vars).goal,
        24 => case_24(vars).goal,
        25 => case_25(vars).goal,
        26 => case_26(vars).goal,
        27 => case_27(vars).goal,
        28 => case_28(vars).goal,
        29 => case_29(vars).goal,
        30 => case_30(vars).goal,
        31 => case_31(vars).goal,
        32 => case_32(vars).goal,
        33 => case_33(vars).goal,
        34 => case_34(vars).goal,
        35 => case_35(vars).goal,
        36 => case_36(vars).goal,
        37 => case_37(vars).goal,
        38 => case_38(vars).goal,
        39 => case_39(vars).goal,
        40 => case_40(vars).goal,
        41 => case_41(vars).goal,
        42 => case_42(vars).goal,
        43 => case_43(vars).goal,
        44 => case_44(vars).goal,
        45 => case_45(vars).goal,
        46 => case_46(vars).goal,
        47 => case_47(vars).goal,
        48 => case_48(vars).goal,
        49 => case_49(vars).goal,
        50 => case_50(vars).goal,
        51 => case_51(vars).goal,
        52 => case_52(vars).goal,
        53 => case_53(vars).goal,
        54 => case_54(vars).goal,
        55 => case_55(vars).goal,
        56 => case_56(vars).goal,
        57 => case_57(vars).goal,
        58 => case_58(vars).goal,
        59 => case_59(vars).goal,
        60 => case_60(vars).goal,
        61 => case_61(vars).goal,
        62 => case_62(vars).goal,
        63 => case_63(vars).goal,
        64 => case_64(vars).goal,
        65 => case_65(vars).goal,
        66 => case_66(vars).goal,
        67 => case_67(vars).goal,
        68 => case_68(vars).goal,
        69 => case_69(vars).goal,
        70 => case_70(vars).goal,
        71 => case_71(vars).goal,
        72 => case_72(vars).goal,
        73 => case_73(vars).goal,
        74 => case_74(vars).goal,
        75 => case_75(vars).goal,
        76 => case_76(vars).goal,
        77 => case_77(vars).goal,
        78 => case_78(vars).goal,
        79 => case_79(vars).goal,
        80 => case_80(vars).goal,
        81 => case_81(vars).goal,
        82 => case_82(vars).goal,
        83 => case_83(vars).goal,
        84 => case_84(vars).goal,
        85 => case_85(vars).goal,
        86 => case_86(vars).goal,
        87 => case_87(vars).goal,
        88 => case_88(vars).goal,
        89 => case_89(vars).goal,
        90 => case_90(vars).goal,
        91 => case_91(vars).goal,
        92 => case_92(vars).goal,
        93 => case_93(vars).goal,
        94 => case_94(vars).goal,
        95 => case_95(vars).goal,
        96 => case_96(vars).goal,
        97 => case_97(vars).goal,
        98 => case_98(vars).goal,
        99 => case_99(vars).goal,
        100 => case_100(vars).goal,
        101 => case_101(vars).goal,
        102 => case_102(vars).goal,
        103 => case_103(vars).goal,
        104 => case_104(vars).goal,
        105 => case_105(vars).goal,
        106 => case_106(vars).goal,
        107 => case_107(vars).goal,
        108 => case_108(vars).goal,
        109 => case_109(vars).goal,
        110 => case_110(vars).goal,
        111 => case_111(vars).goal,
        112 => case_112(vars).goal,
        113 => case_113(vars).goal,
        114 => case_114(vars).goal,
        115 => case_115(vars).goal,
        116 => case_116(vars).goal,
        117 => case_117(vars).goal,
        118 => case_118(vars).goal,
        119 => case_119(vars).goal,
        120 => case_120(vars).goal,
        121 => case_121(vars).goal,
        122 => case_122(vars).goal,
        123 => case_123(vars).goal,
        124 => case_124(vars).goal,
        125 => case_125(vars).goal,
        126 => case_126(vars).goal,
        127 => case_127(vars).goal,
        128 => case_128(vars).goal,
        129 => case_129(vars).goal,
        130 => case_130(vars).goal,
        131 => case_131(vars).goal,
        132 => case_132(vars).goal,
        133 => case_133(vars).goal,
        134 => case_134(vars).goal,
        135 => case_135(vars).goal,
        136 => case_136(vars).goal,
        137 => case_137(vars).goal,
        138 => case_138(vars).goal,
        139 => case_139(vars).goal,
        140 => case_140(vars).goal,
        141 => case_141(vars).goal,
        142 => case_142(vars).goal,
        143 => case_143(vars).goal,
        144 => case_144(vars).goal,
        145 => case_145(vars).goal,
        146 => case_146(vars).goal,
        147 => case_147(vars).goal,
        148 => case_148(vars).goal,
        149 => case_149(vars).goal,
        150 => case_150(vars).goal,
        151 => case_151(vars).goal,
        152 => case_152(vars).goal,
        153 => case_153(vars).goal,
        154 => case_154(vars).goal,
        155 => case_155(vars).goal,
        156 => case_156(vars).goal,
        157 => case_157(vars).goal,
        158 => case_158(vars).goal,
        159 => case_159(vars).goal,
        160 => case_160(vars).goal,
        161 => case_161(vars).goal,
        162 => case_162(vars).goal,
        163 => case_163(vars).goal,
        164 => case_164(vars).goal,
        165 => case_165(vars).goal,
        166 => case_166(vars).goal,
        167 => case_167(vars).goal,
        168 => case_168(vars).goal,
        169 => case_169(vars).goal,
        170 => case_170(vars).goal,
        171 => case_171(vars).goal,
        172 => case_172(vars).goal,
        173 => case_173(vars).goal,
        174 => case_174(vars).goal,
        175 => case_175(vars).goal,
        176 => case_176(vars).goal,
        177 => case_177(vars).goal,
        178 => case_178(vars).goal,
        179 => case_179(vars).goal,
        180 => case_180(vars).goal,
        181 => case_181(vars).goal,
        182 => case_182(vars).goal,
        183 => case_183(vars).goal,
        184 => case_184(vars).goal,
        185 => case_185(vars).goal,
        186 => case_186(vars).goal,
        187 => case_187(vars).goal,
        188 => case_188(vars).goal,
        189 => case_189(vars).goal,
        190 => case_190(vars).goal,
        191 => case_191(vars).goal,
        192 => case_192(vars).goal,
        193 => case_193(vars).goal,
        194 => case_194(vars).goal,
        195 => case_195(vars).goal,
        196 => case_196(vars).goal,
        197 => case_197(vars).goal,
        198 => case_198(vars).goal,
        199 => case_199(vars).goal,
        200 => case_200(vars).goal,
        201 => case_201(vars).goal,
        202 => case_202(vars).goal,
        203 => case_203(vars).goal,
        204 => case_204(vars).goal,
        205 => case_205(vars).goal,
        206 => case_206(vars).goal,
        207 => case_207(vars).goal,
        208 => case_208(vars).goal,
        209 => case_209(vars).goal,
        210 => case_210(vars).goal,
        211 => case_211(vars).goal,
        212 => case_212(vars).goal,
        213 => case_213(vars).goal,
        214 => case_214(vars).goal,
        215 => case_215(vars).goal,
        216 => case_216(vars).goal,
        217 => case_217(vars).goal,
        218 => case_218(vars).goal,
        219 => case_219(vars).goal,
        220 => case_220(vars).goal,
        221 => case_221(vars).goal,
        222 => case_222(vars).goal,
        223 => case_223(vars).goal,
        224 => case_224(vars).goal,
        225 => case_225(vars).goal,
        226 => case_226(vars).goal,
        227 => case_227(vars).goal,
        228 => case_228(vars).goal,
        229 => case_229(vars).goal,
        230 => case_230(vars).goal,
        231 => case_231(vars).goal,
        232 => case_232(vars).goal,
        233 => case_233(vars).goal,
        234 => case_234(vars).goal,
        235 => case_235(vars).goal,
        236 => case_236(vars).goal,
        237 => case_237(vars).goal,
        238 => case_238(vars).goal,
        239 => case_239(vars).goal,
        240 => case_240(vars).goal,
        241 => case_241(vars).goal,
        242 => case_242(vars).goal,
        243 => case_243(vars).goal,
        244 => case_244(vars).goal,
        245 => case_245(vars).goal,
        246 => case_246(vars).goal,
        247 => case_247(vars).goal,
        248 => case_248(vars).goal,
        249 => case_249(vars).goal,
        250 => case_250(vars).goal,
        251 => case_251(vars).goal,
        252 => case_252(vars).goal,
        253 => case_253(vars).goal,
        254 => case_254(vars).goal,
        255 => case_255(vars).goal,
        256 => case_256(vars).goal,
        257 => case_257(vars).goal,
        258 => case_258(vars).goal,
        259 => case_259(vars).goal,
        260 => case_260(vars).goal,
        261 => case_261(vars).goal,
        262 => case_262(vars).goal,
        263 => case_263(vars).goal,
        264 => case_264(vars).goal,
        265 => case_265(vars).goal,
        266 => case_266(vars).goal,
        267 => case_267(vars).goal,
        268 => case_268(vars).goal,
        269 => case_269(vars).goal,
        270 => case_270(vars).goal,
        271 => case_271(vars).goal,
        272 => case_272(vars).goal,
        273 => case_273(vars).goal,
        274 => case_274(vars).goal,
        275 => case_275(vars).goal,
        276 => case_276(vars).goal,
        277 => case_277(vars).goal,
        278 => case_278(vars).goal,
        279 => case_279(vars).goal,
        280 => case_280(vars).goal,
        281 => case_281(vars).goal,
        282 => case_282(vars).goal,
        283 => case_283(vars).goal,
        284 => case_284(vars).goal,
        285 => case_285(vars).goal,
        286 => case_286(vars).goal,
        287 => case_287(vars).goal,
        288 => case_288(vars).goal,
        289 => case_289(vars).goal,
        290 => case_290(vars).goal,
        291 => case_291(vars).goal,
        292 => case_292(vars).goal,
        293 => case_293(vars).goal,
        294 => case_294(vars).goal,
        295 => case_295(vars).goal,
        296 => case_296(vars).goal,
        297 => case_297(vars).goal,
        298 => case_298(vars).goal,
        299 => case_299(vars).goal,
        300 => case_300(vars).goal,
        301 => case_301(vars).goal,
        302 => case_302(vars).goal,
        303 => case_303(vars).goal,
        304 => case_304(vars).goal,
        305 => case_305(vars).goal,
        306 => case_306(vars).goal,
        307 => case_307(vars).goal,
        308 => case_308(vars).goal,
        309 => case_309(vars).goal,
        310 => case_310(vars).goal,
        311 => case_311(vars).goal,
        312 => case_312(vars).goal,
        313 => case_313(vars).goal,
        314 => case_314(vars).goal,
        315 => case_315(vars).goal,
        316 => case_316(vars).goal,
        317 => case_317(vars).goal,
        318 => case_318(vars).goal,
        319 => case_319(vars).goal,
        320 => case_320(vars).goal,
        321 => case_321(vars).goal,
        322 => case_322(vars).goal,
        323 => case_323(vars).goal,
        324 => case_324(vars).goal,
        325 => case_325(vars).goal,
        326 => case_326(vars).goal,
        327 => case_327(vars).goal,
        328 => case_328(vars).goal,
        329 => case_329(vars).goal,
        330 => case_330(vars).goal,
        331 => case_331(vars).goal,
        332 => case_332(vars).goal,
        333 => case_333(vars).goal,
        334 => case_334(vars).goal,
        335 => case_335(vars).goal,
        336 => case_336(vars).goal,
        337 => case_337(vars).goal,
        338 => case_338(vars).goal,
        339 => case_339(vars).goal,
        340 => case_340(vars).goal,
        341 => case_341(vars).goal,
        342 => case_342(vars).goal,
        343 => case_343(vars).goal,
        344 => case_344(vars).goal,
        345 => case_345(vars).goal,
        346 => case_346(vars).goal,
        347 => case_347(vars).goal,
        348 => case_348(vars).goal,
        349 => case_349(vars).goal,
        350 => case_350(vars).goal,
        351 => case_351(vars).goal,
        352 => case_352(vars).goal,
        353 => case_353(vars).goal,
        354 => case_354(vars).goal,
        355 => case_355(vars).goal,
        356 => case_356(vars).goal,
        357 => case_357(vars).goal,
        358 => case_358(vars).goal,
        359 => case_359(vars).goal,
        360 => case_360(vars).goal,
        361 => case_361(vars).goal,
        362 => case_362(vars).goal,
        363 => case_363(vars).goal,
        364 => case_364(vars).goal,
        365 => case_365(vars).goal,
        366 => case_366(vars).goal,
        367 => case_367(vars).goal,
        368 => case_368(vars).goal,
        369 => case_369(vars).goal,
        370 => case_370(vars).goal,
        371 => case_371(vars).goal,
        372 => case_372(vars).goal,
        373 => case_373(vars).goal,
        374 => case_374(vars).goal,
        375 => case_375(vars).goal,
        376 => case_376(vars).goal,
        377 => case_377(vars).goal,
        378 => case_378(vars).goal,
        379 => case_379(vars).goal,
        380 => case_380(vars).goal,
        381 => case_381(vars).goal,
        382 => case_382(vars).goal,
        383 => case_383(vars).goal,
        384 => case_384(vars).goal,
        385 => case_385(vars).goal,
        386 => case_386(vars).goal,
        387 => case_387(vars).goal,
        388 => case_388(vars).goal,
        389 => case_389(vars).goal,
        390 => case_390(vars).goal,
        391 => case_391(vars).goal,
        392 => case_392(vars).goal,
        393 => case_393(vars).goal,
        394 => case_394(vars).goal,
        395 => case_395(vars).goal,
        396 => case_396(vars).goal,
        397 => case_397(vars).goal,
        398 => case_398(vars).goal,
        399 => case_399(vars).goal,
        400 => case_400(vars).goal,
        401 => case_401(vars).goal,
        402 => case_402(vars).goal,
        403 => case_403(vars).goal,
        404 => case_404(vars).goal,
        405 => case_405(vars).goal,
        406 => case_406(vars).goal,
        407 => case_407(vars).goal,
        408 => case_408(vars).goal,
        409 => case_409(vars).goal,
        410 => case_410(vars).goal,
        411 => case_411(vars).goal,
        412 => case_412(vars).goal,
        413 => case_413(vars).goal,
        414 => case_414(vars).goal,
        415 => case_415(vars).goal,
        416 => case_416(vars).goal,
        417 => case_417(vars).goal,
        418 => case_418(vars).goal,
        419 => case_419(vars).goal,
        420 => case_420(vars).goal,
        421 => case_421(vars).goal,
        422 => case_422(vars).goal,
        423 => case_423(vars).goal,
        424 => case_424(vars).goal,
        425 => case_425(vars).goal,
        426 => case_426(vars).goal,
        427 => case_427(vars).goal,
        428 => case_428(vars).goal,
        429 => case_429(vars).goal,
        430 => case_430(vars).goal,
        431 => case_431(vars).goal,
        432 => case_432(vars).goal,
        433 => case_433(vars).goal,
        434 => case_434(vars).goal,
        435 => case_435(vars).goal,
        436 => case_436(vars).goal,
        437 => case_437(vars).goal,
        438 => case_438(vars).goal,
        439 => case_439(vars).goal,
        440 => case_440(vars).goal,
        441 => case_441(vars).goal,
        442 => case_442(vars).goal,
        443 => case_443(vars).goal,
        444 => case_444(vars).goal,
        445 => case_445(vars).goal,
        446 => case_446(vars).goal,
        447 => case_447(vars).goal,
        448 => case_448(vars).goal,
        449 => case_449(vars).goal,
        450 => case_450(vars).goal,
        451 => case_451(vars).goal,
        452 => case_452(vars).goal,
        453 => case_453(vars).goal,
        454 => case_454(vars).goal,
        455 => case_455(vars).goal,
        456 => case_456(vars).goal,
        457 => case_457(vars).goal,
        458 => case_458(vars).goal,
        459 => case_459(vars).goal,
        460 => case_460(vars).goal,
        461 => case_461(vars).goal,
        462 => case_462(vars).goal,
        463 => case_463(vars).goal,
        464 => case_464(vars).goal,
        465 => case_465(vars).goal,
        466 => case_466(vars).goal,
        467 => case_467(vars).goal,
        468 => case_468(vars).goal,
        469 => case_469(vars).goal,
        470 => case_470(vars).goal,
        471 => case_471(vars).goal,
        472 => case_472(vars).goal,
        473 => case_473(vars).goal,
        474 => case_474(vars).goal,
        475 => case_475(vars).goal,
        476 => case_476(vars).goal,
        477 => case_477(vars).goal,
        478 => case_478(vars).goal,
        479 => case_479(vars).goal,
        480 => case_480(vars).goal,
        481 => case_481(vars).goal,
        482 => case_482(vars).goal,
        483 => case_483(vars).goal,
        484 => case_484(vars).goal,
        485 => case_485(vars).goal,
        486 => case_486(vars).goal,
        487 => case_487(vars).goal,
        488 => case_488(vars).goal,
        489 => case_489(vars).goal,
        490 => case_490(vars).goal,
        491 => case_491(vars).goal,
        492 => case_492(vars).goal,
        493 => case_493(vars).goal,
        494 => case_494(vars).goal,
        495 => case_495(vars).goal,
        496 => case_496(vars).goal,
        497 => case_497(vars).goal,
        498 => case_498(vars).goal,
        499 => case_499(vars).goal,
        500 => case_500(vars).goal,
        501 => case_501(vars).goal,
        502 => case_502(vars).goal,
        503 => case_503(vars).goal,
        504 => case_504(vars).goal,
        505 => case_505(vars).goal,
        506 => case_506(vars).goal,
        507 => case_507(vars).goal,
        508 => case_508(vars).goal,
        509 => case_509(vars).goal,
        510 => case_510(vars).goal,
        511 => case_511(vars).goal,
        512 => case_512(vars).goal,
        513 => case_513(vars).goal,
        514 => case_514(vars).goal,
        515 => case_515(vars).goal,
        516 => case_516(vars).goal,
        517 => case_517(vars).goal,
        518 => case_518(vars).goal,
        519 => case_519(vars).goal,
        520 => case_520(vars).goal,
        521 => case_521(vars).goal,
        522 => case_522(vars).goal,
        523 => case_523(vars).goal,
        524 => case_524(vars).goal,
        525 => case_525(vars).goal,
        526 => case_526(vars).goal,
        527 => case_527(vars).goal,
        528 => case_528(vars).goal,
        529 => case_529(vars).goal,
        530 => case_530(vars).goal,
        531 => case_531(vars).goal,
        532 => case_532(vars).goal,
        533 => case_533(vars).goal,
        534 => case_534(vars).goal,
        535 => case_535(vars).goal,
        536 => case_536(vars).goal,
        537 => case_537(vars).goal,
        538 => case_538(vars).goal,
        539 => case_539(vars).goal,
        540 => case_540(vars).goal,
        541 => case_541(vars).goal,
        542 => case_542(vars).goal,
        543 => case_543(vars).goal,
        544 => case_544(vars).goal,
        545 => case_545(vars).goal,
        546 => case_546(vars).goal,
        547 => case_547(vars).goal,
        548 => case_548(vars).goal,
        549 => case_549(vars).goal,
        550 => case_550(vars).goal,
        551 => case_551(vars).goal,
        552 => case_552(vars).goal,
        553 => case_553(vars).goal,
        554 => case_554(vars).goal,
        555 => case_555(vars).goal,
        556 => case_556(vars).goal,
        557 => case_557(vars).goal,
        558 => case_558(vars).goal,
        559 => case_559(vars).goal,
        560 => case_560(vars).goal,
        561 => case_561(vars).goal,
        562 => case_562(vars).goal,
        563 => case_563(vars).goal,
        564 => case_564(vars).goal,
        565 => case_565(vars).goal,
        566 => case_566(vars).goal,
        567 => case_567(vars).goal,
        568 => case_568(vars).goal,
        569 => case_569(vars).goal,
        570 => case_570(vars).goal,
        571 => case_571(vars).goal,
        572 => case_572(vars).goal,
        573 => case_573(vars).goal,
        574 => case_574(vars).goal,
        575 => case_575(vars).goal,
        576 => case_576(vars).goal,
        577 => case_577(vars).goal,
        578 => case_578(vars).goal,
        579 => case_579(vars).goal,
        580 => case_580(vars).goal,
        581 => case_581(vars).goal,
        582 => case_582(vars).goal,
        583 => case_583(vars).goal,
        584 => case_584(vars).goal,
        585 => case_585(vars).goal,
        586 => case_586(vars).goal,
        587 => case_587(vars).goal,
        588 => case_588(vars).goal,
        589 => case_589(vars).goal,
        590 => case_590(vars).goal,
        591 => case_591(vars).goal,
        592 => case_592(vars).goal,
        593 => case_593(vars).goal,
        594 => case_594(vars).goal,
        595 => case_595(vars).goal,
        596 => case_596(vars).goal,
        597 => case_597(vars).goal,
        598 => case_598(vars).goal,
        599 => case_599(vars).goal,
        600 => case_600(vars).goal,
        601 => case_601(vars).goal,
        _ => unreachable!(),
    }
}
