pub fn case_0(vars: &Vars) -> InferredGoal<DU, DE, Goal<DU, DE>> {
    let qa = vars.v[0].clone();
    let qb = vars.v[1].clone();
    let coll0: Vec<LT> = vec![lterm!(2), lterm!([2]), lterm!([1])];
    proto_vulcan!([qa != [_, 1, 3], for e in &coll0 { |x| { e == [2 | 2], false, qb == true } }])
}
pub fn case_1(vars: &Vars) -> InferredGoal<DU, DE, Goal<DU, DE>> {
    let qa = vars.v[0].clone();
    let qb = vars.v[1].clone();
    let coll0: Vec<LT> = vec![lterm!([2]), lterm!(2)];
    proto_vulcan!([|t| { true, [t] == 1, qa == [true, [qb, 2, 'a' | 2], [t, t | qb] | qb] }, for e in &coll0 { append(qb, qa, [3, 3]) }])
}
pub fn case_2(vars: &Vars) -> InferredGoal<DU, DE, Goal<DU, DE>> {
    let qa = vars.v[0].clone();
    let qb = vars.v[1].clone();
    let coll0: Vec<LT> = vec![lterm!(3), lterm!(2)];
    proto_vulcan!([qa != [qb], for e in &coll0 { member(qa, [1]), |h| { e == [[], qb | qb], _ == h, qa == [[], 2, 2] } }])
}
pub fn case_3(vars: &Vars) -> InferredGoal<DU, DE, Goal<DU, DE>> {
    let qa = vars.v[0].clone();
    let qb = vars.v[1].clone();
    let coll0: Vec<LT> = vec![lterm!(1)];
    proto_vulcan!([[3 | _] == qb, for e in &coll0 { [[] | e] != e }])
}
pub fn case_4(vars: &Vars) -> InferredGoal<DU, DE, Goal<DU, DE>> {
    let qa = vars.v[0].clone();
    let qb = vars.v[1].clone();
    let coll0: Vec<LT> = vec![];
    proto_vulcan!([[member(qa, [2, 1, 3]), true], for e in &coll0 { |z| { [z, [[], "a"] | qb] != e, [] == z, [[_, qb, 2], [z] | 2] == qb } }])
}
pub fn case_5(vars: &Vars) -> InferredGoal<DU, DE, Goal<DU, DE>> {
    let qa = vars.v[0].clone();
    let qb = vars.v[1].clone();
    let coll0: Vec<LT> = vec![lterm!(3)];
    proto_vulcan!([for e in &coll0 { |z, x| { [[1, _, [] | qb]] == 3, [[3, _], [2, z]] == qa }, qb == [2, 2] }])
}
pub fn case_6(vars: &Vars) -> InferredGoal<DU, DE, Goal<DU, DE>> {
    let qa = vars.v[0].clone();
    let qb = vars.v[1].clone();
    let coll0: Vec<LT> = vec![];
    proto_vulcan!([["bc", []] == qb, for e in &coll0 { qa == [1], conde { member(e, [1]), [true, member(e, [2, 2, 2])], 3 == qb } }])
}
pub fn case_7(vars: &Vars) -> InferredGoal<DU, DE, Goal<DU, DE>> {
    let qa = vars.v[0].clone();
    let qb = vars.v[1].clone();
    let coll0: Vec<LT> = vec![lterm!(3)];
    proto_vulcan!([[_, 2, 2] != qa, for e in &coll0 { [e, e] == qb }])
}
pub fn case_8(vars: &Vars) -> InferredGoal<DU, DE, Goal<DU, DE>> {
    let qa = vars.v[0].clone();
    let qb = vars.v[1].clone();
    let coll0: Vec<LT> = vec![lterm!(3), lterm!(3), qa.clone()];
    proto_vulcan!([qb == qa, for e in &coll0 { member(qa, [3, 1, 1]), [[[], 1] | e] == 2 }])
}
pub fn case_9(vars: &Vars) -> InferredGoal<DU, DE, Goal<DU, DE>> {
    let qa = vars.v[0].clone();
    let qb = vars.v[1].clone();
    let coll0: Vec<LT> = vec![qb.clone(), lterm!(3), lterm!(1)];
    proto_vulcan!([for e in &coll0 { qb != [qa | _], e == 2 }])
}
pub fn case_10(vars: &Vars) -> InferredGoal<DU, DE, Goal<DU, DE>> {
    let qa = vars.v[0].clone();
    let qb = vars.v[1].clone();
    let coll0: Vec<LT> = vec![lterm!(3), lterm!(3)];
    proto_vulcan!([append(qa, qa, [3, 3]), for e in &coll0 { conde { qb == [qa], _ == e, [qb == qa, qb == e] } }])
}
pub fn case_11(vars: &Vars) -> InferredGoal<DU, DE, Goal<DU, DE>> {
    let qa = vars.v[0].clone();
    let qb = vars.v[1].clone();
    let coll0: Vec<LT> = vec![lterm!(2)];
    proto_vulcan!([for e in &coll0 { [] != qb }])
}
pub fn case_12(vars: &Vars) -> InferredGoal<DU, DE, Goal<DU, DE>> {
    let qa = vars.v[0].clone();
    let qb = vars.v[1].clone();
    let coll0: Vec<LT> = vec![lterm!([1]), qb.clone()];
    proto_vulcan!([for e in &coll0 { |t| { [] == e } }])
}
pub fn case_13(vars: &Vars) -> InferredGoal<DU, DE, Goal<DU, DE>> {
    let qa = vars.v[0].clone();
    let qb = vars.v[1].clone();
    let coll0: Vec<LT> = vec![lterm!(2), lterm!(1)];
    proto_vulcan!([qb == qb, for e in &coll0 { [2, qb] == e }])
}
pub fn case_14(vars: &Vars) -> InferredGoal<DU, DE, Goal<DU, DE>> {
    let qa = vars.v[0].clone();
    let qb = vars.v[1].clone();
    let coll0: Vec<LT> = vec![];
    proto_vulcan!([qb != [2 | qb], for e in &coll0 { [[qa, []]] != [_ | e] }])
}
pub fn case_15(vars: &Vars) -> InferredGoal<DU, DE, Goal<DU, DE>> {
    let qa = vars.v[0].clone();
    let qb = vars.v[1].clone();
    let coll0: Vec<LT> = vec![lterm!(2), qa.clone()];
    proto_vulcan!([for e in &coll0 { |y| { qb != e, member(y, [3, 3, 3]) } }])
}
pub fn case_16(vars: &Vars) -> InferredGoal<DU, DE, Goal<DU, DE>> {
    let qa = vars.v[0].clone();
    let qb = vars.v[1].clone();
    let coll0: Vec<LT> = vec![];
    proto_vulcan!([for e in &coll0 { |x, t| { true, [qb, 3, x] == e, member(t, []) } }])
}
pub fn case_17(vars: &Vars) -> InferredGoal<DU, DE, Goal<DU, DE>> {
    let qa = vars.v[0].clone();
    let qb = vars.v[1].clone();
    let coll0: Vec<LT> = vec![qa.clone()];
    proto_vulcan!([qb == [[qb, qa], [2, _ | qb], qa], for e in &coll0 { |z| { 1 == [1] } }])
}
pub fn case_18(vars: &Vars) -> InferredGoal<DU, DE, Goal<DU, DE>> {
    let qa = vars.v[0].clone();
    let qb = vars.v[1].clone();
    let coll0: Vec<LT> = vec![qa.clone(), qb.clone()];
    proto_vulcan!([for e in &coll0 { [[_, 1], [qa, qb]] == 1 }])
}
pub fn case_19(vars: &Vars) -> InferredGoal<DU, DE, Goal<DU, DE>> {
    let qa = vars.v[0].clone();
    let qb = vars.v[1].clone();
    let coll0: Vec<LT> = vec![lterm!(2), lterm!(3)];
    proto_vulcan!([for e in &coll0 { [[3] != e] }])
}
pub fn case_20(vars: &Vars) -> InferredGoal<DU, DE, Goal<DU, DE>> {
    let qa = vars.v[0].clone();
    let qb = vars.v[1].clone();
    let coll0: Vec<LT> = vec![];
    proto_vulcan!([for e in &coll0 { conde { false, qa == 1, 2 != [1] } }])
}
pub fn case_21(vars: &Vars) -> InferredGoal<DU, DE, Goal<DU, DE>> {
    let qa = vars.v[0].clone();
    let qb = vars.v[1].clone();
    let coll0: Vec<LT> = vec![lterm!([2]), qa.clone()];
    proto_vulcan!([qb == [1, 2, 1], for e in &coll0 { 1 == e, qa == qb }])
}
pub fn case_22(vars: &Vars) -> InferredGoal<DU, DE, Goal<DU, DE>> {
    let qa = vars.v[0].clone();
    let qb = vars.v[1].clone();
    let coll0: Vec<LT> = vec![];
    proto_vulcan!([[qb, 2, 2 | qb] != qa, for e in &coll0 { [[qb, 2, e], [e | 2], false | e] == qb }])
}
pub fn case_23(vars: &Vars) -> InferredGoal<DU, DE, Goal<DU, DE>> {
    let qa = vars.v[0].clone();
    let qb = vars.v[1].clone();
    let coll0: Vec<LT> = vec![lterm!(3), lterm!(1)];
    proto_vulcan!([for e in &coll0 { |y| { [[false, 3, y] | qa] != 3 } }])
}
pub fn case_24(vars: &Vars) -> InferredGoal<DU, DE, Goal<DU, DE>> {
    let qa = vars.v[0].clone();
    let qb = vars.v[1].clone();
    let coll0: Vec<LT> = vec![lterm!(3)];
    proto_vulcan!([qb == [], for e in &coll0 { 1 != [[1, _ | qb], [qa, 2]] }])
}
pub fn case_25(vars: &Vars) -> InferredGoal<DU, DE, Goal<DU, DE>> {
    let qa = vars.v[0].clone();
    let qb = vars.v[1].clone();
    let coll0: Vec<LT> = vec![lterm!(1), qa.clone()];
    proto_vulcan!([for e in &coll0 { |h, t| { qb == [2, [], []] }, |y, t| { [2, t] == qb, qa == t } }])
}
pub fn case_26(vars: &Vars) -> InferredGoal<DU, DE, Goal<DU, DE>> {
    let qa = vars.v[0].clone();
    let qb = vars.v[1].clone();
    let coll0: Vec<LT> = vec![lterm!(3), qa.clone()];
    proto_vulcan!([for e in &coll0 { 'a' == [qa, 1, []] }])
}
pub fn case_27(vars: &Vars) -> InferredGoal<DU, DE, Goal<DU, DE>> {
    let qa = vars.v[0].clone();
    let qb = vars.v[1].clone();
    let coll0: Vec<LT> = vec![lterm!([2]), lterm!([1]), lterm!(2)];
    proto_vulcan!([for e in &coll0 { [[2, qa, e] | 3] == qb, 3 == [1, "a"] }])
}
pub fn case_28(vars: &Vars) -> InferredGoal<DU, DE, Goal<DU, DE>> {
    let qa = vars.v[0].clone();
    let qb = vars.v[1].clone();
    let coll0: Vec<LT> = vec![qa.clone(), qa.clone(), qb.clone()];
    proto_vulcan!([for e in &coll0 { [1, 1, 3] == qa }])
}
pub fn case_29(vars: &Vars) -> InferredGoal<DU, DE, Goal<DU, DE>> {
    let qa = vars.v[0].clone();
    let qb = vars.v[1].clone();
    let coll0: Vec<LT> = vec![lterm!([1]), lterm!(2)];
    proto_vulcan!([for e in &coll0 { qb == [qb, _, 2] }])
}
pub fn case_30(vars: &Vars) -> InferredGoal<DU, DE, Goal<DU, DE>> {
    let qa = vars.v[0].clone();
    let qb = vars.v[1].clone();
    let coll0: Vec<LT> = vec![lterm!(1), qb.clone(), lterm!(3)];
    proto_vulcan!([for e in &coll0 { qa == e, append(qb, qb, []) }])
}
pub fn case_31(vars: &Vars) -> InferredGoal<DU, DE, Goal<DU, DE>> {
    let qa = vars.v[0].clone();
    let qb = vars.v[1].clone();
    let coll0: Vec<LT> = vec![lterm!([1])];
    proto_vulcan!([for e in &coll0 { conde { [[e] == qb, e == [[1, 3, 2], [[], e]]], [e == e, [qa] != qa], [[] == e, [1, qb, qb] == e] }, qb == [_, qa] }])
}
pub fn case_32(vars: &Vars) -> InferredGoal<DU, DE, Goal<DU, DE>> {
    let qa = vars.v[0].clone();
    let qb = vars.v[1].clone();
    let coll0: Vec<LT> = vec![qb.clone(), qb.clone(), lterm!(1)];
    proto_vulcan!([qa == qa, for e in &coll0 { conde { [[e] == e, true], [[2] != qa, e == [qa, _]], qb != 2 } }])
}
pub fn case_33(vars: &Vars) -> InferredGoal<DU, DE, Goal<DU, DE>> {
    let qa = vars.v[0].clone();
    let qb = vars.v[1].clone();
    let coll0: Vec<LT> = vec![lterm!(3), lterm!([2]), qa.clone()];
    proto_vulcan!([|x, t| { false, [1, t, true | qa] == x }, for e in &coll0 { "a" == qb, e == qa }])
}
pub fn case_34(vars: &Vars) -> InferredGoal<DU, DE, Goal<DU, DE>> {
    let qa = vars.v[0].clone();
    let qb = vars.v[1].clone();
    let coll0: Vec<LT> = vec![qb.clone()];
    proto_vulcan!([for e in &coll0 { [1, 1] == qb, qa == qb }])
}
pub fn case_35(vars: &Vars) -> InferredGoal<DU, DE, Goal<DU, DE>> {
    let qa = vars.v[0].clone();
    let qb = vars.v[1].clone();
    let coll0: Vec<LT> = vec![];
    proto_vulcan!([for e in &coll0 { conde { [qa != [_, 'b' | qa], qa == [3 | e]], qb == [qb, qb, e] }, 3 == [] }])
}
pub fn case_36(vars: &Vars) -> InferredGoal<DU, DE, Goal<DU, DE>> {
    let qa = vars.v[0].clone();
    let qb = vars.v[1].clone();
    let coll0: Vec<LT> = vec![qa.clone(), qb.clone(), lterm!([2])];
    proto_vulcan!([for e in &coll0 { _ == qa, [qa] == _ }])
}
pub fn case_37(vars: &Vars) -> InferredGoal<DU, DE, Goal<DU, DE>> {
    let qa = vars.v[0].clone();
    let qb = vars.v[1].clone();
    let coll0: Vec<LT> = vec![lterm!([1])];
    proto_vulcan!([[[qa, qa, qa]] != "a", for e in &coll0 { [qb, "a"] == qa }])
}
pub fn case_38(vars: &Vars) -> InferredGoal<DU, DE, Goal<DU, DE>> {
    let qa = vars.v[0].clone();
    let qb = vars.v[1].clone();
    let coll0: Vec<LT> = vec![qb.clone(), lterm!([2])];
    proto_vulcan!([member(qb, [2]), for e in &coll0 { |y, x| { [y, 'a'] == [_, ['a', qa, 1], [[], [], "bc"] | qa], x == qb, member(qb, [2, 1]) } }])
}
pub fn case_39(vars: &Vars) -> InferredGoal<DU, DE, Goal<DU, DE>> {
    let qa = vars.v[0].clone();
    let qb = vars.v[1].clone();
    let coll0: Vec<LT> = vec![lterm!([2])];
    proto_vulcan!([for e in &coll0 { "a" == qb, [1] == [[qa], 1] }])
}
pub fn case_40(vars: &Vars) -> InferredGoal<DU, DE, Goal<DU, DE>> {
    let qa = vars.v[0].clone();
    let qb = vars.v[1].clone();
    let coll0: Vec<LT> = vec![];
    proto_vulcan!([for e in &coll0 { qb == _, true }])
}
pub fn case_41(vars: &Vars) -> InferredGoal<DU, DE, Goal<DU, DE>> {
    let qa = vars.v[0].clone();
    let qb = vars.v[1].clone();
    let coll0: Vec<LT> = vec![qa.clone(), lterm!(3), lterm!([2])];
    proto_vulcan!([for e in &coll0 { qa == qb, qa == [1, 2, qa | e] }])
}
pub fn case_42(vars: &Vars) -> InferredGoal<DU, DE, Goal<DU, DE>> {
    let qa = vars.v[0].clone();
    let qb = vars.v[1].clone();
    let coll0: Vec<LT> = vec![lterm!([2])];
    proto_vulcan!([for e in &coll0 { [[qb], 3, [2, 3, e] | qa] == 2, qb == [qa, qb] }])
}
pub fn case_43(vars: &Vars) -> InferredGoal<DU, DE, Goal<DU, DE>> {
    let qa = vars.v[0].clone();
    let qb = vars.v[1].clone();
    let coll0: Vec<LT> = vec![];
    proto_vulcan!([[qa, qb, 2] == qb, for e in &coll0 { [2, 2 | qb] != e }])
}
pub fn case_44(vars: &Vars) -> InferredGoal<DU, DE, Goal<DU, DE>> {
    let qa = vars.v[0].clone();
    let qb = vars.v[1].clone();
    let coll0: Vec<LT> = vec![lterm!(1), lterm!(2)];
    proto_vulcan!([for e in &coll0 { append(qb, qa, [1]) }])
}
pub fn case_45(vars: &Vars) -> InferredGoal<DU, DE, Goal<DU, DE>> {
    let qa = vars.v[0].clone();
    let qb = vars.v[1].clone();
    let coll0: Vec<LT> = vec![lterm!(3), lterm!(3), lterm!(3)];
    proto_vulcan!([for e in &coll0 { [[qb, e | 1] == qa, qb == e] }])
}
pub fn case_46(vars: &Vars) -> InferredGoal<DU, DE, Goal<DU, DE>> {
    let qa = vars.v[0].clone();
    let qb = vars.v[1].clone();
    let coll0: Vec<LT> = vec![];
    proto_vulcan!([for e in &coll0 { conde { qb == [_, 3], qb == [qa, 1, 'b'] }, |x| { e == [] } }])
}
pub fn case_47(vars: &Vars) -> InferredGoal<DU, DE, Goal<DU, DE>> {
    let qa = vars.v[0].clone();
    let qb = vars.v[1].clone();
    let coll0: Vec<LT> = vec![lterm!(2)];
    proto_vulcan!([for e in &coll0 { qa != [qa, 1, 1] }])
}
pub fn case_48(vars: &Vars) -> InferredGoal<DU, DE, Goal<DU, DE>> {
    let qa = vars.v[0].clone();
    let qb = vars.v[1].clone();
    let coll0: Vec<LT> = vec![qa.clone(), qa.clone()];
    proto_vulcan!([[[]] == qb, for e in &coll0 { e == e, qa == 2 }])
}
pub fn case_49(vars: &Vars) -> InferredGoal<DU, DE, Goal<DU, DE>> {
    let qa = vars.v[0].clone();
    let qb = vars.v[1].clone();
    let coll0: Vec<LT> = vec![lterm!(3), qa.clone(), qb.clone()];
    proto_vulcan!([for e in &coll0 { member(qa, []) }])
}
pub fn case_50(vars: &Vars) -> InferredGoal<DU, DE, Goal<DU, DE>> {
    let qa = vars.v[0].clone();
    let qb = vars.v[1].clone();
    let coll0: Vec<LT> = vec![lterm!(2)];
    proto_vulcan!([[_, qa] == qb, for e in &coll0 { e == [[e, 1, [] | qb] | e], [qa == qb, qa == e] }])
}
pub fn case_51(vars: &Vars) -> InferredGoal<DU, DE, Goal<DU, DE>> {
    let qa = vars.v[0].clone();
    let qb = vars.v[1].clone();
    let coll0: Vec<LT> = vec![];
    proto_vulcan!([|y| { false, qb != [[1 | y]], "bc" != y }, for e in &coll0 { qa == [[3], [1, 3, 3], [_, _, 1]] }])
}
pub fn case_52(vars: &Vars) -> InferredGoal<DU, DE, Goal<DU, DE>> {
    let qa = vars.v[0].clone();
    let qb = vars.v[1].clone();
    let coll0: Vec<LT> = vec![];
    proto_vulcan!([qb == [1], for e in &coll0 { qb == [2] }])
}
pub fn case_53(vars: &Vars) -> InferredGoal<DU, DE, Goal<DU, DE>> {
    let qa = vars.v[0].clone();
    let qb = vars.v[1].clone();
    let coll0: Vec<LT> = vec![qa.clone(), qa.clone()];
    proto_vulcan!([conde { [qa == qb, true], ["a", _, qa] != qa }, for e in &coll0 { [qa | qa] == e, [true | e] != e }])
}
pub fn case_54(vars: &Vars) -> InferredGoal<DU, DE, Goal<DU, DE>> {
    let qa = vars.v[0].clone();
    let qb = vars.v[1].clone();
    let coll0: Vec<LT> = vec![];
    proto_vulcan!([|z| { [3] == qa, [[2], [], 1] != qa }, for e in &coll0 { |t, h| { qb == [[true, qb, 1 | h], [_, 2, h | qb] | 'b'] }, true }])
}
pub fn case_55(vars: &Vars) -> InferredGoal<DU, DE, Goal<DU, DE>> {
    let qa = vars.v[0].clone();
    let qb = vars.v[1].clone();
    let coll0: Vec<LT> = vec![];
    proto_vulcan!([for e in &coll0 { e != [true, 2 | e] }])
}
pub fn case_56(vars: &Vars) -> InferredGoal<DU, DE, Goal<DU, DE>> {
    let qa = vars.v[0].clone();
    let qb = vars.v[1].clone();
    let coll0: Vec<LT> = vec![lterm!([2]), lterm!([1])];
    proto_vulcan!([conde { qb == qb, [['b'] == qa, qb != [[true, 1, _ | _] | "a"]], qa != ["a", 1] }, for e in &coll0 { qb == e, [1, []] != qb }])
}
pub fn case_57(vars: &Vars) -> InferredGoal<DU, DE, Goal<DU, DE>> {
    let qa = vars.v[0].clone();
    let qb = vars.v[1].clone();
    let coll0: Vec<LT> = vec![lterm!(2), qb.clone()];
    proto_vulcan!([member(qb, [2, 2]), for e in &coll0 { conde { [2 != ["bc", qb, _], false], [1 == [[2]], 1 == qa], qb == qb } }])
}
pub fn case_58(vars: &Vars) -> InferredGoal<DU, DE, Goal<DU, DE>> {
    let qa = vars.v[0].clone();
    let qb = vars.v[1].clone();
    let coll0: Vec<LT> = vec![lterm!([1]), qa.clone()];
    proto_vulcan!([for e in &coll0 { [qb | 1] == qb }])
}
pub fn case_59(vars: &Vars) -> InferredGoal<DU, DE, Goal<DU, DE>> {
    let qa = vars.v[0].clone();
    let qb = vars.v[1].clone();
    let coll0: Vec<LT> = vec![];
    proto_vulcan!([for e in &coll0 { qb == [_, ['a', true], [qa, e]] }])
}
pub fn case_60(vars: &Vars) -> InferredGoal<DU, DE, Goal<DU, DE>> {
    let qa = vars.v[0].clone();
    let qb = vars.v[1].clone();
    let coll0: Vec<LT> = vec![lterm!([2]), lterm!(1), lterm!(2)];
    proto_vulcan!([for e in &coll0 { 1 == qb, |h| { [[] | h] != qb } }])
}
pub fn case_61(vars: &Vars) -> InferredGoal<DU, DE, Goal<DU, DE>> {
    let qa = vars.v[0].clone();
    let qb = vars.v[1].clone();
    let coll0: Vec<LT> = vec![qa.clone(), qa.clone(), lterm!(2)];
    proto_vulcan!([for e in &coll0 { conde { [[] != e, [e, 2, e | 3] == qb], e == [2, 2] } }])
}
pub fn case_62(vars: &Vars) -> InferredGoal<DU, DE, Goal<DU, DE>> {
    let qa = vars.v[0].clone();
    let qb = vars.v[1].clone();
    let coll0: Vec<LT> = vec![lterm!(1), lterm!(3), lterm!([1])];
    proto_vulcan!([|y, h| { member(qb, [2, 3]) }, for e in &coll0 { [true, [[2, qa], [true, 1 | qa] | qb] == [[[]]], [1 | 3] == e], [3, e, "bc" | e] == e }])
}
pub fn case_63(vars: &Vars) -> InferredGoal<DU, DE, Goal<DU, DE>> {
    let qa = vars.v[0].clone();
    let qb = vars.v[1].clone();
    let coll0: Vec<LT> = vec![lterm!([2])];
    proto_vulcan!([for e in &coll0 { e == [qb, qa], [[qa, e | _] == e, member(qb, [1, 1, 3]), qb == qb] }])
}
pub fn case_64(vars: &Vars) -> InferredGoal<DU, DE, Goal<DU, DE>> {
    let qa = vars.v[0].clone();
    let qb = vars.v[1].clone();
    let coll0: Vec<LT> = vec![lterm!([2])];
    proto_vulcan!([qb == qb, for e in &coll0 { qb == [_] }])
}
pub fn case_65(vars: &Vars) -> InferredGoal<DU, DE, Goal<DU, DE>> {
    let qa = vars.v[0].clone();
    let qb = vars.v[1].clone();
    let coll0: Vec<LT> = vec![qb.clone()];
    proto_vulcan!([for e in &coll0 { [[[1]] == [[]], qb != [e, [_, qb, qa]]] }])
}
pub fn case_66(vars: &Vars) -> InferredGoal<DU, DE, Goal<DU, DE>> {
    let qa = vars.v[0].clone();
    let qb = vars.v[1].clone();
    let coll0: Vec<LT> = vec![lterm!(1), qb.clone()];
    proto_vulcan!([for e in &coll0 { [1, e, ['b', 2, 2]] == [[], e, "a"] }])
}
pub fn case_67(vars: &Vars) -> InferredGoal<DU, DE, Goal<DU, DE>> {
    let qa = vars.v[0].clone();
    let qb = vars.v[1].clone();
    let coll0: Vec<LT> = vec![qa.clone()];
    proto_vulcan!([|t| { t == t, qa == [_, []] }, for e in &coll0 { |z, t| { z == qa } }])
}
pub fn case_68(vars: &Vars) -> InferredGoal<DU, DE, Goal<DU, DE>> {
    let qa = vars.v[0].clone();
    let qb = vars.v[1].clone();
    let coll0: Vec<LT> = vec![qb.clone(), qb.clone()];
    proto_vulcan!([for e in &coll0 { |h| { [1] == [1, _] } }])
}
pub fn case_69(vars: &Vars) -> InferredGoal<DU, DE, Goal<DU, DE>> {
    let qa = vars.v[0].clone();
    let qb = vars.v[1].clone();
    let coll0: Vec<LT> = vec![lterm!(1), lterm!([1])];
    proto_vulcan!([[] == qb, for e in &coll0 { [qb == [e]] }])
}
pub fn case_70(vars: &Vars) -> InferredGoal<DU, DE, Goal<DU, DE>> {
    let qa = vars.v[0].clone();
    let qb = vars.v[1].clone();
    let coll0: Vec<LT> = vec![lterm!([2])];
    proto_vulcan!([conde { [qa == [], _ == qb], [append(qa, qb, [2, 2]), qa == [2, [qa] | qa]], [[qa, qa] == qb, false] }, for e in &coll0 { [1, false, []] == qa }])
}
pub fn case_71(vars: &Vars) -> InferredGoal<DU, DE, Goal<DU, DE>> {
    let qa = vars.v[0].clone();
    let qb = vars.v[1].clone();
    let coll0: Vec<LT> = vec![qb.clone(), lterm!(3)];
    proto_vulcan!([for e in &coll0 { [1] == qa }])
}
pub fn case_72(vars: &Vars) -> InferredGoal<DU, DE, Goal<DU, DE>> {
    let qa = vars.v[0].clone();
    let qb = vars.v[1].clone();
    let coll0: Vec<LT> = vec![qb.clone()];
    proto_vulcan!([conde { [_ == qb, qa == [2 | qa]], [['a', qb, 2] != [_, 2, 2 | 3], qa == [1, 1]] }, for e in &coll0 { |y, h| { qa == qb, y != [h, qb, 2], [_, [], 2] == qa }, [qa, e, 3] != qb }])
}
pub fn case_73(vars: &Vars) -> InferredGoal<DU, DE, Goal<DU, DE>> {
    let qa = vars.v[0].clone();
    let qb = vars.v[1].clone();
    let coll0: Vec<LT> = vec![];
    proto_vulcan!([[qa, qb | qb] == qb, for e in &coll0 { conde { [qb == qb, qa != [e, e, _]], [_ | qb] != 3 } }])
}
pub fn case_74(vars: &Vars) -> InferredGoal<DU, DE, Goal<DU, DE>> {
    let qa = vars.v[0].clone();
    let qb = vars.v[1].clone();
    let coll0: Vec<LT> = vec![lterm!([2])];
    proto_vulcan!([for e in &coll0 { 2 == [[1, qa] | qa], |h| { qb == [_, qa] } }])
}
pub fn case_75(vars: &Vars) -> InferredGoal<DU, DE, Goal<DU, DE>> {
    let qa = vars.v[0].clone();
    let qb = vars.v[1].clone();
    let coll0: Vec<LT> = vec![];
    proto_vulcan!([false, for e in &coll0 { conde { e == 2, [qb != e, qa == [qb]], member(qb, [2, 1, 3]) }, true }])
}
pub fn case_76(vars: &Vars) -> InferredGoal<DU, DE, Goal<DU, DE>> {
    let qa = vars.v[0].clone();
    let qb = vars.v[1].clone();
    let coll0: Vec<LT> = vec![lterm!(3), lterm!(2)];
    proto_vulcan!([for e in &coll0 { e != e }])
}
pub fn case_77(vars: &Vars) -> InferredGoal<DU, DE, Goal<DU, DE>> {
    let qa = vars.v[0].clone();
    let qb = vars.v[1].clone();
    let coll0: Vec<LT> = vec![];
    proto_vulcan!([[qb != [[qb], qb, qa]], for e in &coll0 { e != qa, [[2, [qb, 1 | e], [2] | qb] == _, [3] == qa] }])
}
pub fn case_78(vars: &Vars) -> InferredGoal<DU, DE, Goal<DU, DE>> {
    let qa = vars.v[0].clone();
    let qb = vars.v[1].clone();
    let coll0: Vec<LT> = vec![lterm!(1), lterm!(3)];
    proto_vulcan!([for e in &coll0 { conde { qb == [], [[[]] == qb, append(e, qa, [2])], [3] != e } }])
}
pub fn case_79(vars: &Vars) -> InferredGoal<DU, DE, Goal<DU, DE>> {
    let qa = vars.v[0].clone();
    let qb = vars.v[1].clone();
    let coll0: Vec<LT> = vec![lterm!(3)];
    proto_vulcan!([|z| { [[], "a", false | 2] != qa, qa != 1, qb == [_] }, for e in &coll0 { [2, qa, e | e] == e, qb == [[qa] | qa] }])
}
pub fn case_80(vars: &Vars) -> InferredGoal<DU, DE, Goal<DU, DE>> {
    let qa = vars.v[0].clone();
    let qb = vars.v[1].clone();
    let coll0: Vec<LT> = vec![];
    proto_vulcan!([append(qb, qb, []), for e in &coll0 { [[e] == qa, e == [qa, _ | e]], conde { [qa == 2, e != [qb, qa]], [qb == 1, e == []] } }])
}
pub fn case_81(vars: &Vars) -> InferredGoal<DU, DE, Goal<DU, DE>> {
    let qa = vars.v[0].clone();
    let qb = vars.v[1].clone();
    let coll0: Vec<LT> = vec![];
    proto_vulcan!([for e in &coll0 { conde { member(qa, []), [[], qb] == qa, [qb == [2], qb != _] } }])
}
pub fn case_82(vars: &Vars) -> InferredGoal<DU, DE, Goal<DU, DE>> {
    let qa = vars.v[0].clone();
    let qb = vars.v[1].clone();
    let coll0: Vec<LT> = vec![];
    proto_vulcan!([for e in &coll0 { e != [], qa != [1, false] }])
}
pub fn case_83(vars: &Vars) -> InferredGoal<DU, DE, Goal<DU, DE>> {
    let qa = vars.v[0].clone();
    let qb = vars.v[1].clone();
    let coll0: Vec<LT> = vec![qa.clone()];
    proto_vulcan!([for e in &coll0 { |t| { t == t }, qa == [[], []] }])
}
pub fn case_84(vars: &Vars) -> InferredGoal<DU, DE, Goal<DU, DE>> {
    let qa = vars.v[0].clone();
    let qb = vars.v[1].clone();
    let coll0: Vec<LT> = vec![lterm!(2), lterm!([1]), qa.clone()];
    proto_vulcan!([[member(qb, [3, 3])], for e in &coll0 { 2 == qa }])
}
pub fn case_85(vars: &Vars) -> InferredGoal<DU, DE, Goal<DU, DE>> {
    let qa = vars.v[0].clone();
    let qb = vars.v[1].clone();
    let coll0: Vec<LT> = vec![];
    proto_vulcan!([[qa == [[_]], 'a' == qb], for e in &coll0 { [qb, [false | qa], _] == [[] | qb] }])
}
pub fn case_86(vars: &Vars) -> InferredGoal<DU, DE, Goal<DU, DE>> {
    let qa = vars.v[0].clone();
    let qb = vars.v[1].clone();
    let coll0: Vec<LT> = vec![lterm!(3), lterm!([2])];
    proto_vulcan!([for e in &coll0 { 1 == qa }])
}
pub fn case_87(vars: &Vars) -> InferredGoal<DU, DE, Goal<DU, DE>> {
    let qa = vars.v[0].clone();
    let qb = vars.v[1].clone();
    let coll0: Vec<LT> = vec![lterm!(1)];
    proto_vulcan!([for e in &coll0 { conde { [[[2], e] == qb, [[qb, qa, _], [3, _] | qa] != [[_]]], [qa != qa, _ == qa], ["bc", 2, 'b'] == qb }, conde { [qb == [qb, 2, e | qb], e == qb], true, [2 != qb, [[false, 2, 2], e] != qb] } }])
}
pub fn case_88(vars: &Vars) -> InferredGoal<DU, DE, Goal<DU, DE>> {
    let qa = vars.v[0].clone();
    let qb = vars.v[1].clone();
    let coll0: Vec<LT> = vec![lterm!(3)];
    proto_vulcan!([|x, h| { _ == 2, qb == [false, 'b', x | x], [3] == [[2], [[], [], h] | qb] }, for e in &coll0 { |x| { [[qa], 3] == qa, 2 == 1, [[[], qb], qa, [e, 'b', qb]] == 2 } }])
}
pub fn case_89(vars: &Vars) -> InferredGoal<DU, DE, Goal<DU, DE>> {
    let qa = vars.v[0].clone();
    let qb = vars.v[1].clone();
    let coll0: Vec<LT> = vec![qa.clone()];
    proto_vulcan!([qa == qa, for e in &coll0 { conde { [qa == [_, qa, qb], e == [[]]], [qa == [_, e], _ == qb] }, |h| { qb == h, [e, _ | 2] == e } }])
}
pub fn case_90(vars: &Vars) -> InferredGoal<DU, DE, Goal<DU, DE>> {
    let qa = vars.v[0].clone();
    let qb = vars.v[1].clone();
    let coll0: Vec<LT> = vec![qa.clone(), lterm!(1), lterm!([2])];
    proto_vulcan!([|h| { append(qa, h, [2]) }, for e in &coll0 { 1 != [qb, false], qa == [true] }])
}
pub fn case_91(vars: &Vars) -> InferredGoal<DU, DE, Goal<DU, DE>> {
    let qa = vars.v[0].clone();
    let qb = vars.v[1].clone();
    let coll0: Vec<LT> = vec![];
    proto_vulcan!([qa == 1, for e in &coll0 { qb == qb }])
}
pub fn case_92(vars: &Vars) -> InferredGoal<DU, DE, Goal<DU, DE>> {
    let qa = vars.v[0].clone();
    let qb = vars.v[1].clone();
    let coll0: Vec<LT> = vec![lterm!([2])];
    proto_vulcan!([conde { [3, qa, 1] != qb, [qb != 2, [[], 'a' | qb] == 2], [[qb, 1] != qa, member(qb, [2, 2, 1])] }, for e in &coll0 { [[[], 2, "bc" | qb], []] == qb, qb == [_ | qa] }])
}
pub fn case_93(vars: &Vars) -> InferredGoal<DU, DE, Goal<DU, DE>> {
    let qa = vars.v[0].clone();
    let qb = vars.v[1].clone();
    let coll0: Vec<LT> = vec![];
    proto_vulcan!([[2 | qa] != qb, for e in &coll0 { true, [[1, qa | e], e] == e }])
}
pub fn case_94(vars: &Vars) -> InferredGoal<DU, DE, Goal<DU, DE>> {
    let qa = vars.v[0].clone();
    let qb = vars.v[1].clone();
    let coll0: Vec<LT> = vec![];
    proto_vulcan!([for e in &coll0 { false, qa == [[e, _, []], [1, qb, _], [e, "a" | _] | e] }])
}
pub fn case_95(vars: &Vars) -> InferredGoal<DU, DE, Goal<DU, DE>> {
    let qa = vars.v[0].clone();
    let qb = vars.v[1].clone();
    let coll0: Vec<LT> = vec![];
    proto_vulcan!([qb == qa, for e in &coll0 { [qa == [[qb], [2, qb]], false] }])
}
pub fn case_96(vars: &Vars) -> InferredGoal<DU, DE, Goal<DU, DE>> {
    let qa = vars.v[0].clone();
    let qb = vars.v[1].clone();
    let coll0: Vec<LT> = vec![];
    proto_vulcan!([|h| { h != [qb, 'b'], qa == [qb, 1, qa | qb] }, for e in &coll0 { [[qa], [1, 1, qb]] == qa, |z, t| { z == ['a', _], append(qb, e, [2, 3]) } }])
}
pub fn case_97(vars: &Vars) -> InferredGoal<DU, DE, Goal<DU, DE>> {
    let qa = vars.v[0].clone();
    let qb = vars.v[1].clone();
    let coll0: Vec<LT> = vec![lterm!(2), qb.clone(), lterm!(1)];
    proto_vulcan!([for e in &coll0 { [_] == qa, true }])
}
pub fn case_98(vars: &Vars) -> InferredGoal<DU, DE, Goal<DU, DE>> {
    let qa = vars.v[0].clone();
    let qb = vars.v[1].clone();
    let coll0: Vec<LT> = vec![lterm!(2)];
    proto_vulcan!([|h, z| { [h | qa] != qa, [2, 1 | qb] == [[], [qb]] }, for e in &coll0 { [[e, 2 | _] == qa, qa == 1] }])
}
pub fn case_99(vars: &Vars) -> InferredGoal<DU, DE, Goal<DU, DE>> {
    let qa = vars.v[0].clone();
    let qb = vars.v[1].clone();
    let coll0: Vec<LT> = vec![];
    proto_vulcan!([qb == [1], for e in &coll0 { conde { [[[qa | qb]] == qb, [3] == qb], false, [[qa, qa, e] == qb, member(e, [3, 3, 3])] } }])
}
pub fn case_100(vars: &Vars) -> InferredGoal<DU, DE, Goal<DU, DE>> {
    let qa = vars.v[0].clone();
    let qb = vars.v[1].clone();
    let coll0: Vec<LT> = vec![lterm!(1)];
    proto_vulcan!([qb == [[qb, 1, qa]], for e in &coll0 { [[2] == qa, qb != [[qa, _ | qb], [qb, qb, 3 | qa]], qb != _] }])
}
pub fn case_101(vars: &Vars) -> InferredGoal<DU, DE, Goal<DU, DE>> {
    let qa = vars.v[0].clone();
    let qb = vars.v[1].clone();
    let coll0: Vec<LT> = vec![lterm!([1]), lterm!(2), lterm!(3)];
    proto_vulcan!([|y| { y == 3, ["a", y] != qb }, for e in &coll0 { qb == e, qa == 3 }])
}
pub fn case_102(vars: &Vars) -> InferredGoal<DU, DE, Goal<DU, DE>> {
    let qa = vars.v[0].clone();
    let qb = vars.v[1].clone();
    let coll0: Vec<LT> = vec![];
    proto_vulcan!([for e in &coll0 { |x| { e != _ } }])
}
pub fn case_103(vars: &Vars) -> InferredGoal<DU, DE, Goal<DU, DE>> {
    let qa = vars.v[0].clone();
    let qb = vars.v[1].clone();
    let coll0: Vec<LT> = vec![qb.clone(), lterm!(1), qb.clone()];
    proto_vulcan!([for e in &coll0 { _ == qa }])
}
pub fn case_104(vars: &Vars) -> InferredGoal<DU, DE, Goal<DU, DE>> {
    let qa = vars.v[0].clone();
    let qb = vars.v[1].clone();
    let coll0: Vec<LT> = vec![lterm!([1]), lterm!(2)];
    proto_vulcan!([for e in &coll0 { |z| { e == ['a', qa] }, qa != [[], qa, "a"] }])
}
pub fn case_105(vars: &Vars) -> InferredGoal<DU, DE, Goal<DU, DE>> {
    let qa = vars.v[0].clone();
    let qb = vars.v[1].clone();
    let coll0: Vec<LT> = vec![lterm!(2), lterm!(3), qb.clone()];
    proto_vulcan!([[[[qb, 2], [1, qb, qb], [2, 2, _ | qa]] == [3, qb, "bc"]], for e in &coll0 { [[], [] | qb] != [[qb, 3]], qb == 2 }])
}
pub fn case_106(vars: &Vars) -> InferredGoal<DU, DE, Goal<DU, DE>> {
    let qa = vars.v[0].clone();
    let qb = vars.v[1].clone();
    let coll0: Vec<LT> = vec![lterm!(3), lterm!(1), lterm!([2])];
    proto_vulcan!([for e in &coll0 { [] == qa, e == [1, []] }])
}
pub fn case_107(vars: &Vars) -> InferredGoal<DU, DE, Goal<DU, DE>> {
    let qa = vars.v[0].clone();
    let qb = vars.v[1].clone();
    let coll0: Vec<LT> = vec![lterm!(2)];
    proto_vulcan!([for e in &coll0 { member(qa, [1]), [[[], 2, qa | qa], ["bc" | qa], [2, [], 2]] != [qb | qb] }])
}
pub fn case_108(vars: &Vars) -> InferredGoal<DU, DE, Goal<DU, DE>> {
    let qa = vars.v[0].clone();
    let qb = vars.v[1].clone();
    let coll0: Vec<LT> = vec![];
    proto_vulcan!([for e in &coll0 { false }])
}
pub fn case_109(vars: &Vars) -> InferredGoal<DU, DE, Goal<DU, DE>> {
    let qa = vars.v[0].clone();
    let qb = vars.v[1].clone();
    let coll0: Vec<LT> = vec![];
    proto_vulcan!([qa != [[]], for e in &coll0 { e == qb }])
}
pub fn case_110(vars: &Vars) -> InferredGoal<DU, DE, Goal<DU, DE>> {
    let qa = vars.v[0].clone();
    let qb = vars.v[1].clone();
    let coll0: Vec<LT> = vec![];
    proto_vulcan!([for e in &coll0 { [[], _, 'b'] != qa }])
}
pub fn case_111(vars: &Vars) -> InferredGoal<DU, DE, Goal<DU, DE>> {
    let qa = vars.v[0].clone();
    let qb = vars.v[1].clone();
    let coll0: Vec<LT> = vec![lterm!(3), lterm!(2)];
    proto_vulcan!([for e in &coll0 { qa != e, |h| { member(qb, [1, 3]), e == [2, _] } }])
}
pub fn case_112(vars: &Vars) -> InferredGoal<DU, DE, Goal<DU, DE>> {
    let qa = vars.v[0].clone();
    let qb = vars.v[1].clone();
    let coll0: Vec<LT> = vec![lterm!(1), lterm!(2)];
    proto_vulcan!([[] == [[1, qa | 3], 'a', 1], for e in &coll0 { 2 != 1 }])
}
pub fn case_113(vars: &Vars) -> InferredGoal<DU, DE, Goal<DU, DE>> {
    let qa = vars.v[0].clone();
    let qb = vars.v[1].clone();
    let coll0: Vec<LT> = vec![qa.clone()];
    proto_vulcan!([|z| { [2, qb, 1 | z] == qb }, for e in &coll0 { [1, 2 | qb] != e }])
}
pub fn case_114(vars: &Vars) -> InferredGoal<DU, DE, Goal<DU, DE>> {
    let qa = vars.v[0].clone();
    let qb = vars.v[1].clone();
    let coll0: Vec<LT> = vec![lterm!([1])];
    proto_vulcan!([for e in &coll0 { [1, [e], [qa, 3 | 3]] == [qb, [] | e] }])
}
pub fn case_115(vars: &Vars) -> InferredGoal<DU, DE, Goal<DU, DE>> {
    let qa = vars.v[0].clone();
    let qb = vars.v[1].clone();
    let coll0: Vec<LT> = vec![lterm!(3)];
    proto_vulcan!([for e in &coll0 { [qa, [], 1] == ['a', [e, _, []], [[]] | e] }])
}
pub fn case_116(vars: &Vars) -> InferredGoal<DU, DE, Goal<DU, DE>> {
    let qa = vars.v[0].clone();
    let qb = vars.v[1].clone();
    let coll0: Vec<LT> = vec![];
    proto_vulcan!([for e in &coll0 { |z, x| { [qb, qa, []] != [[_, qb, _] | x], append(e, qb, [1, 3]) }, true }])
}
pub fn case_117(vars: &Vars) -> InferredGoal<DU, DE, Goal<DU, DE>> {
    let qa = vars.v[0].clone();
    let qb = vars.v[1].clone();
    let coll0: Vec<LT> = vec![];
    proto_vulcan!([for e in &coll0 { conde { [qa != [[qb, e], 2, [[]]], [] == e], true, [[qb] != qb, "a" == qa] }, |z| { e == [qa, qa], [3, false | qb] == qa } }])
}
pub fn case_118(vars: &Vars) -> InferredGoal<DU, DE, Goal<DU, DE>> {
    let qa = vars.v[0].clone();
    let qb = vars.v[1].clone();
    let coll0: Vec<LT> = vec![];
    proto_vulcan!([qa != qb, for e in &coll0 { qb == [[], qa], conde { member(qb, [2, 1, 2]), [[2, _, 3 | e], []] == qb } }])
}
pub fn case_119(vars: &Vars) -> InferredGoal<DU, DE, Goal<DU, DE>> {
    let qa = vars.v[0].clone();
    let qb = vars.v[1].clone();
    let coll0: Vec<LT> = vec![lterm!([1])];
    proto_vulcan!([for e in &coll0 { qb == [2] }])
}
pub fn case_120(vars: &Vars) -> InferredGoal<DU, DE, Goal<DU, DE>> {
    let qa = vars.v[0].clone();
    let qb = vars.v[1].clone();
    let coll0: Vec<LT> = vec![lterm!(3)];
    proto_vulcan!([|h| { h == 1, [[h], [1 | _]] == h, qb == [h, 2] }, for e in &coll0 { qb == e, qa == [2, 3] }])
}
pub fn case_121(vars: &Vars) -> InferredGoal<DU, DE, Goal<DU, DE>> {
    let qa = vars.v[0].clone();
    let qb = vars.v[1].clone();
    let coll0: Vec<LT> = vec![lterm!(3)];
    proto_vulcan!([[3, false, _] != qb, for e in &coll0 { e == [qb, 3 | qa] }])
}
pub fn case_122(vars: &Vars) -> InferredGoal<DU, DE, Goal<DU, DE>> {
    let qa = vars.v[0].clone();
    let qb = vars.v[1].clone();
    let coll0: Vec<LT> = vec![lterm!(2)];
    proto_vulcan!([for e in &coll0 { append(qb, qa, []), e != [e, _, e] }])
}
pub fn case_123(vars: &Vars) -> InferredGoal<DU, DE, Goal<DU, DE>> {
    let qa = vars.v[0].clone();
    let qb = vars.v[1].clone();
    let coll0: Vec<LT> = vec![lterm!([1])];
    proto_vulcan!([for e in &coll0 { e == [[2, qb, 1]] }])
}
pub fn case_124(vars: &Vars) -> InferredGoal<DU, DE, Goal<DU, DE>> {
    let qa = vars.v[0].clone();
    let qb = vars.v[1].clone();
    let coll0: Vec<LT> = vec![lterm!(1), lterm!([2])];
    proto_vulcan!([for e in &coll0 { member(e, []), [qb == _, e == e] }])
}
pub fn case_125(vars: &Vars) -> InferredGoal<DU, DE, Goal<DU, DE>> {
    let qa = vars.v[0].clone();
    let qb = vars.v[1].clone();
    let coll0: Vec<LT> = vec![qa.clone(), qb.clone()];
    proto_vulcan!([for e in &coll0 { [3, 2, 1] == qa }])
}
pub fn case_126(vars: &Vars) -> InferredGoal<DU, DE, Goal<DU, DE>> {
    let qa = vars.v[0].clone();
    let qb = vars.v[1].clone();
    let coll0: Vec<LT> = vec![lterm!(2)];
    proto_vulcan!([for e in &coll0 { true, 1 == qa }])
}
pub fn case_127(vars: &Vars) -> InferredGoal<DU, DE, Goal<DU, DE>> {
    let qa = vars.v[0].clone();
    let qb = vars.v[1].clone();
    let coll0: Vec<LT> = vec![lterm!(3), qb.clone(), qb.clone()];
    proto_vulcan!([for e in &coll0 { conde { [_ != ["bc", qa, 1], [1, 1, e] == qb], [2, _] == qa } }])
}
pub fn case_128(vars: &Vars) -> InferredGoal<DU, DE, Goal<DU, DE>> {
    let qa = vars.v[0].clone();
    let qb = vars.v[1].clone();
    let coll0: Vec<LT> = vec![];
    proto_vulcan!([for e in &coll0 { 3 == [_, 2, qa], [[2, qb | qa], [qb, 'a'], e | qb] == e }])
}
pub fn case_129(vars: &Vars) -> InferredGoal<DU, DE, Goal<DU, DE>> {
    let qa = vars.v[0].clone();
    let qb = vars.v[1].clone();
    let coll0: Vec<LT> = vec![];
    proto_vulcan!([for e in &coll0 { |h, z| { append(qb, qa, [3, 3]), false != h }, qb == qb }])
}
pub fn case_130(vars: &Vars) -> InferredGoal<DU, DE, Goal<DU, DE>> {
    let qa = vars.v[0].clone();
    let qb = vars.v[1].clone();
    let coll0: Vec<LT> = vec![lterm!(3), lterm!([2]), qa.clone()];
    proto_vulcan!([for e in &coll0 { [[e] == qa, [3 | qa] == qa, true], conde { [3 == qa, qb != e], qb != _ } }])
}
pub fn case_131(vars: &Vars) -> InferredGoal<DU, DE, Goal<DU, DE>> {
    let qa = vars.v[0].clone();
    let qb = vars.v[1].clone();
    let coll0: Vec<LT> = vec![lterm!(3), qb.clone(), lterm!(3)];
    proto_vulcan!([for e in &coll0 { conde { qa != qa, [2, [e, 1, e]] == 'b' }, [[qb], [_]] == qa }])
}
pub fn case_132(vars: &Vars) -> InferredGoal<DU, DE, Goal<DU, DE>> {
    let qa = vars.v[0].clone();
    let qb = vars.v[1].clone();
    let coll0: Vec<LT> = vec![];
    proto_vulcan!([qa != 3, for e in &coll0 { e != 1 }])
}
pub fn case_133(vars: &Vars) -> InferredGoal<DU, DE, Goal<DU, DE>> {
    let qa = vars.v[0].clone();
    let qb = vars.v[1].clone();
    let coll0: Vec<LT> = vec![lterm!(3), lterm!(3), lterm!(3)];
    proto_vulcan!([for e in &coll0 { [[qb, qa] != e, [_, qa, _] == qa], member(qa, [2]) }])
}
pub fn case_134(vars: &Vars) -> InferredGoal<DU, DE, Goal<DU, DE>> {
    let qa = vars.v[0].clone();
    let qb = vars.v[1].clone();
    let coll0: Vec<LT> = vec![];
    proto_vulcan!([true, for e in &coll0 { append(qb, qa, []), qa == [e, 2] }])
}
pub fn case_135(vars: &Vars) -> InferredGoal<DU, DE, Goal<DU, DE>> {
    let qa = vars.v[0].clone();
    let qb = vars.v[1].clone();
    let coll0: Vec<LT> = vec![lterm!(2)];
    proto_vulcan!([[[1] != [[1, qb, qb | qb], []], append(qa, qb, [2])], for e in &coll0 { [qa == [e, qa], 2 != qa, append(qb, qb, [])] }])
}
pub fn case_136(vars: &Vars) -> InferredGoal<DU, DE, Goal<DU, DE>> {
    let qa = vars.v[0].clone();
    let qb = vars.v[1].clone();
    let coll0: Vec<LT> = vec![qa.clone(), lterm!(1), lterm!(3)];
    proto_vulcan!([conde { [qb == [qb], append(qa, qb, [1])], qa != [_ | qa] }, for e in &coll0 { ["bc" | qb] != qb }])
}
pub fn case_137(vars: &Vars) -> InferredGoal<DU, DE, Goal<DU, DE>> {
    let qa = vars.v[0].clone();
    let qb = vars.v[1].clone();
    let coll0: Vec<LT> = vec![lterm!([1]), lterm!(1), lterm!([1])];
    proto_vulcan!([qa == [2], for e in &coll0 { [[qa, 2], [1, 'a'] | 2] == e, |t, y| { [1, e, e | y] == e, 2 != t } }])
}
pub fn case_138(vars: &Vars) -> InferredGoal<DU, DE, Goal<DU, DE>> {
    let qa = vars.v[0].clone();
    let qb = vars.v[1].clone();
    let coll0: Vec<LT> = vec![lterm!([1])];
    proto_vulcan!([qb == [[1, qb | qb], qa, [qb, qa, true]], for e in &coll0 { conde { qa == [qb, _, qb], [[2, [], [qb | e] | qa] == [[qa | qb] | qa], qa == [[_, e]]], [[qa, 1, 2] == [[qb, e, 'b' | 2], [3, e, 1], [[], e, e] | qb], false] } }])
}
pub fn case_139(vars: &Vars) -> InferredGoal<DU, DE, Goal<DU, DE>> {
    let qa = vars.v[0].clone();
    let qb = vars.v[1].clone();
    let coll0: Vec<LT> = vec![lterm!([2])];
    proto_vulcan!([_ == qa, for e in &coll0 { |z, y| { qb == ['b', 2], true, [e] == y }, _ != [[2, qa]] }])
}
pub fn case_140(vars: &Vars) -> InferredGoal<DU, DE, Goal<DU, DE>> {
    let x = vars.v[0].clone();
    proto_vulcan!([match x { [x | _] => x == 1, }])
}
pub fn case_141(vars: &Vars) -> InferredGoal<DU, DE, Goal<DU, DE>> {
    let x = vars.v[0].clone();
    let y = vars.v[1].clone();
    proto_vulcan!([match x { [h, h] => h == y, }])
}
pub fn case_142(vars: &Vars) -> InferredGoal<DU, DE, Goal<DU, DE>> {
    let x = vars.v[0].clone();
    proto_vulcan!([match x { [] | [_] => , [_, _ | t] => t == [], }])
}
pub fn case_143(vars: &Vars) -> InferredGoal<DU, DE, Goal<DU, DE>> {
    let x = vars.v[0].clone();
    let y = vars.v[1].clone();
    proto_vulcan!([member(x, [1, 2]), matcha x { 1 => y == 10, _ => y == 20, }])
}
pub fn case_144(vars: &Vars) -> InferredGoal<DU, DE, Goal<DU, DE>> {
    let x = vars.v[0].clone();
    let y = vars.v[1].clone();
    proto_vulcan!([matchu [x, y] { [h, _] => member(h, [1, 2]), _ => , }])
}
pub fn case_145(vars: &Vars) -> InferredGoal<DU, DE, Goal<DU, DE>> {
    let x = vars.v[0].clone();
    proto_vulcan!([matche x { 1 | z => { [member(x, [3, 3, 2])], [] == x }, }])
}
pub fn case_146(vars: &Vars) -> InferredGoal<DU, DE, Goal<DU, DE>> {
    let q = vars.v[0].clone();
    let x = vars.v[1].clone();
    proto_vulcan!([[false], matcha [q, q] { [[[]]] | [[t, x]] => , _ => , }])
}
pub fn case_147(vars: &Vars) -> InferredGoal<DU, DE, Goal<DU, DE>> {
    let x = vars.v[0].clone();
    let y = vars.v[1].clone();
    proto_vulcan!([matchu x { 1 | [[_, 3, _], [[] | t], [1, t | _] | h] => , [[2, [] | y], [], 'a' | _] => , }])
}
pub fn case_148(vars: &Vars) -> InferredGoal<DU, DE, Goal<DU, DE>> {
    let x = vars.v[0].clone();
    proto_vulcan!([matcha x { [[x | t], x, 1 | _] => [|y| { append(x, x, [2, 3]) }, match t { ["bc"] => { x != ["a", [[], "bc"], [1]] }, [1, [1, [] | t], [2 | 1]] => , }], [[h], h, [z, y | y]] | [[t, z] | "bc"] => x == [[], z, 3 | z], }])
}
pub fn case_149(vars: &Vars) -> InferredGoal<DU, DE, Goal<DU, DE>> {
    let x = vars.v[0].clone();
    let y = vars.v[1].clone();
    proto_vulcan!([[x != [x], true, [_, 1, y] != x], matche x { 1 => , }])
}
pub fn case_150(vars: &Vars) -> InferredGoal<DU, DE, Goal<DU, DE>> {
    let q = vars.v[0].clone();
    let x = vars.v[1].clone();
    proto_vulcan!([match 3 { y => , }])
}
pub fn case_151(vars: &Vars) -> InferredGoal<DU, DE, Goal<DU, DE>> {
    let x = vars.v[0].clone();
    proto_vulcan!([match x { [2] | [[x | t], 1] => , 2 => x == [[], _], [[t, t]] => , }])
}
pub fn case_152(vars: &Vars) -> InferredGoal<DU, DE, Goal<DU, DE>> {
    let x = vars.v[0].clone();
    let y = vars.v[1].clone();
    proto_vulcan!([|t, h| { h != [t] }, match _ { [[3, z | 1] | h] => , [[h, 'a', 3], z, [false, t, true | y] | t] => [h != [_, 2, h | t], y == z], }])
}
pub fn case_153(vars: &Vars) -> InferredGoal<DU, DE, Goal<DU, DE>> {
    let x = vars.v[0].clone();
    let y = vars.v[1].clone();
    proto_vulcan!([x == [[]], matche x { [] => matchu y { [[2, 1, z], [2, h], [y, x]] => { h == x }, }, [[t | y], [t, "bc", y | x], y] => , }])
}
pub fn case_154(vars: &Vars) -> InferredGoal<DU, DE, Goal<DU, DE>> {
    let x = vars.v[0].clone();
    let y = vars.v[1].clone();
    proto_vulcan!([matcha y { z => [matcha y { [[[], x], [h | x], ['a', z] | 3] | z => [[y, []], 2, z] == z, [[1, x, z]] => , }, [1, _, [1, 3, _ | z]] == y], t => { |h, t| { true, false } }, }])
}
pub fn case_155(vars: &Vars) -> InferredGoal<DU, DE, Goal<DU, DE>> {
    let x = vars.v[0].clone();
    proto_vulcan!([1 == x, matchu x { y => matcha x { 1 | [3, h, [_, 1] | t] => , 1 | x => [append(y, y, [2, 3]), 2 == y], [[z, z] | y] => { member(x, [2, 1, 2]) }, }, [_] | 'a' => , [[z | t]] => [[1, 1] == z, x == [_, z]], }])
}
pub fn case_156(vars: &Vars) -> InferredGoal<DU, DE, Goal<DU, DE>> {
    let x = vars.v[0].clone();
    proto_vulcan!([condu { [[1] == x, [1] == x], x == [false, [_, x], _], [false, append(x, x, [3, 3])] }, matcha x { [] => { conda { [x, x, 2 | x] == x, [member(x, [1, 3, 3]), append(x, x, [])] } }, }])
}
pub fn case_157(vars: &Vars) -> InferredGoal<DU, DE, Goal<DU, DE>> {
    let x = vars.v[0].clone();
    proto_vulcan!([matchu x { [h] => [match x { t => { h == [_, 3], h == [[], 1] }, }, h == [x, x | h]], [[3, x, z | _], [1, 2, _], [t]] | t => { matchu t { 1 => { t != [1, [], 1 | t], false }, } }, }])
}
pub fn case_158(vars: &Vars) -> InferredGoal<DU, DE, Goal<DU, DE>> {
    let q = vars.v[0].clone();
    let x = vars.v[1].clone();
    proto_vulcan!([|t| { t == [q, []], x != _, q == [[], x, [2, q, t | x] | t] }, matcha q { [[], ['a', x, _], x] => { 2 == x }, }])
}
pub fn case_159(vars: &Vars) -> InferredGoal<DU, DE, Goal<DU, DE>> {
    let x = vars.v[0].clone();
    proto_vulcan!([match x { [[_, 3], _, 'b'] => , [x, _] | _ => , [t, []] | [_, [3, t, x] | y] => , }])
}
pub fn case_160(vars: &Vars) -> InferredGoal<DU, DE, Goal<DU, DE>> {
    let q = vars.v[0].clone();
    let x = vars.v[1].clone();
    proto_vulcan!([matcha q { 'b' => , [[_], [_, _, h], _] | [[1], _, [h, h]] => { matcha q { [] | 'a' => , } }, }])
}
pub fn case_161(vars: &Vars) -> InferredGoal<DU, DE, Goal<DU, DE>> {
    let x = vars.v[0].clone();
    let y = vars.v[1].clone();
    proto_vulcan!([matcha x { 1 => { [x, 2 | y] == [[_, y, x | 1]] }, z => |x| { y != 2, x != 1 }, }])
}
pub fn case_162(vars: &Vars) -> InferredGoal<DU, DE, Goal<DU, DE>> {
    let q = vars.v[0].clone();
    let x = vars.v[1].clone();
    proto_vulcan!([matcha q { 2 => [|x, y| { false == q }, |z, y| { z != x, [] == [_, q, y | q], [3 | q] == x }], y | [t] => , [[_, 'a', 1], [x, 2], 1 | x] => { x != [2], conde { [q == [_, x | x], x == x], [q == [_, [3, _, x | q]], append(x, x, [])] } }, }])
}
pub fn case_163(vars: &Vars) -> InferredGoal<DU, DE, Goal<DU, DE>> {
    let x = vars.v[0].clone();
    let y = vars.v[1].clone();
    proto_vulcan!([conde { x != x, _ == x }, matchu x { 2 | [[2], [z, x, 3], h] => [[append(y, y, [3]), y == [y, 3, _], y == [2]], [1 | 2] == y], 2 => [conde { [_, 'b', 3] == x, false }, |x, t| { x != x, t != [t, x], x == [_, 3] }], }])
}
pub fn case_164(vars: &Vars) -> InferredGoal<DU, DE, Goal<DU, DE>> {
    let q = vars.v[0].clone();
    let x = vars.v[1].clone();
    proto_vulcan!([match [q, 3] { true | [x | _] => { [[[], 3 | q] == q, ['a', q | q] == [1, 1], [1] == q] }, x | [[_]] => { q != [q, [] | q] }, [_, [_, z], [t | y]] => { t == [[y, y, x], t, y | x], |x| { 2 != q, member(t, [1, 3, 3]) } }, }])
}
pub fn case_165(vars: &Vars) -> InferredGoal<DU, DE, Goal<DU, DE>> {
    let q = vars.v[0].clone();
    let x = vars.v[1].clone();
    proto_vulcan!([[x == x, [q] == x, member(x, [])], match x { y => [x, x, 2 | y] == y, }])
}
pub fn case_166(vars: &Vars) -> InferredGoal<DU, DE, Goal<DU, DE>> {
    let q = vars.v[0].clone();
    let x = vars.v[1].clone();
    proto_vulcan!([matche x { [[x | x], [1], t] => { [[x], [q, x], _ | x] == t }, [] => [q == [x | x], false], [[2], z | y] => , }])
}
pub fn case_167(vars: &Vars) -> InferredGoal<DU, DE, Goal<DU, DE>> {
    let x = vars.v[0].clone();
    proto_vulcan!([x == x, matche x { 2 => , [z, [t, t]] | 2 => , x => , }])
}
pub fn case_168(vars: &Vars) -> InferredGoal<DU, DE, Goal<DU, DE>> {
    let q = vars.v[0].clone();
    let x = vars.v[1].clone();
    proto_vulcan!([matchu x { [2, [1], 2 | _] | [[h], [y, y, y]] => { false, append(x, q, []) }, [[[], 1, 1 | 2], [[], false, z | _] | z] => [|t, y| { false, [3] == q }, matche z { [2, [[], z, 1 | 1], 2 | h] => { z == _ }, }], }])
}
pub fn case_169(vars: &Vars) -> InferredGoal<DU, DE, Goal<DU, DE>> {
    let x = vars.v[0].clone();
    let y = vars.v[1].clone();
    proto_vulcan!([matche x { [["bc", _ | x], 2] => { x == [1, 3] }, [[x | 1], [2, z, 2]] => [onceo { [_, 2] != x }, x == [3 | x]], }])
}
pub fn case_170(vars: &Vars) -> InferredGoal<DU, DE, Goal<DU, DE>> {
    let x = vars.v[0].clone();
    let y = vars.v[1].clone();
    proto_vulcan!([conde { member(x, [3, 2, 2]), ["bc"] != x }, matcha x { x => { [[], y, true | y] == x, |h| { [x, 2, 2 | x] != 1 } }, [['a' | z], h, 2] => { |h| { x == _, [h] == [y] }, [h == [h], z == [1, z], false] }, }])
}
pub fn case_171(vars: &Vars) -> InferredGoal<DU, DE, Goal<DU, DE>> {
    let x = vars.v[0].clone();
    proto_vulcan!([onceo { [] == x }, matcha true { [[h], z] | 2 => { x == x }, y | [[2, z, t]] => [|y| { x == x, [x, ['a', 2]] == [y], _ == x }, conde { [[2] == x, x == [_, "bc", _]], member(x, [2, 2, 3]) }], [[_]] => [3, x | x] == x, }])
}
pub fn case_172(vars: &Vars) -> InferredGoal<DU, DE, Goal<DU, DE>> {
    let x = vars.v[0].clone();
    let y = vars.v[1].clone();
    proto_vulcan!([matchu [2] { [[1, [], x], 2] => , }])
}
pub fn case_173(vars: &Vars) -> InferredGoal<DU, DE, Goal<DU, DE>> {
    let q = vars.v[0].clone();
    let x = vars.v[1].clone();
    proto_vulcan!([matcha q { 1 => , }])
}
pub fn case_174(vars: &Vars) -> InferredGoal<DU, DE, Goal<DU, DE>> {
    let x = vars.v[0].clone();
    proto_vulcan!([conde { append(x, x, []), [x == [_ | x], x == [[_, 3, 2 | x]]] }, match x { h => , ['a', [2, t]] => , }])
}
pub fn case_175(vars: &Vars) -> InferredGoal<DU, DE, Goal<DU, DE>> {
    let q = vars.v[0].clone();
    let x = vars.v[1].clone();
    proto_vulcan!([match q { [[h | 2], [x, false, _], h] => , _ => , }])
}
pub fn case_176(vars: &Vars) -> InferredGoal<DU, DE, Goal<DU, DE>> {
    let q = vars.v[0].clone();
    let x = vars.v[1].clone();
    proto_vulcan!([|z| { true, q == [q, [], false], q == [z, 3, 1] }, matcha [q | q] { [[t, z | t], 1] => [_ != t], }])
}
pub fn case_177(vars: &Vars) -> InferredGoal<DU, DE, Goal<DU, DE>> {
    let q = vars.v[0].clone();
    let x = vars.v[1].clone();
    proto_vulcan!([[x, q] == q, matche x { x => onceo { true }, _ | [] => { append(x, q, []), |t, z| { q == [3, 1] } }, x => , }])
}
pub fn case_178(vars: &Vars) -> InferredGoal<DU, DE, Goal<DU, DE>> {
    let q = vars.v[0].clone();
    let x = vars.v[1].clone();
    proto_vulcan!([matcha q { [[1, y, []] | x] => match x { [[2, 'b', x] | h] | [[[]]] => ['b' == y, y != []], [] | t => [x == true, [[_], [1, [], 3]] == [[2], y, true]], }, }])
}
pub fn case_179(vars: &Vars) -> InferredGoal<DU, DE, Goal<DU, DE>> {
    let x = vars.v[0].clone();
    let y = vars.v[1].clone();
    proto_vulcan!([matchu [2, []] { 2 => , [_, 1, [1, t] | x] | [3] => { y != [2, [y | y], ['b', 3]] }, }])
}
pub fn case_180(vars: &Vars) -> InferredGoal<DU, DE, Goal<DU, DE>> {
    let x = vars.v[0].clone();
    let y = vars.v[1].clone();
    proto_vulcan!([[append(y, y, [3, 1])], matche y { ['b', [x, _, [] | x], 1 | t] => { y == y }, }])
}
pub fn case_181(vars: &Vars) -> InferredGoal<DU, DE, Goal<DU, DE>> {
    let x = vars.v[0].clone();
    let y = vars.v[1].clone();
    proto_vulcan!([matche x { [z, [_, 2 | h]] => , t | [[z]] => { "a" != y, 2 == x }, _ => { onceo { append(y, x, [1]) } }, }])
}
pub fn case_182(vars: &Vars) -> InferredGoal<DU, DE, Goal<DU, DE>> {
    let q = vars.v[0].clone();
    let x = vars.v[1].clone();
    proto_vulcan!([q != 2, matche x { [[[], x], [h, 3, h], [] | _] => matchu [2, 3, []] { [[[], h, y], [3, y, _]] => { [true] == [[], [true, q, y | x]] }, }, 1 => { [3 | q] == 2, "bc" == x }, [[x, [] | x], _] | 'a' => { |h, y| { y == y, [[_]] == [3] }, q == [1, [], []] }, }])
}
pub fn case_183(vars: &Vars) -> InferredGoal<DU, DE, Goal<DU, DE>> {
    let x = vars.v[0].clone();
    proto_vulcan!([x == _, matcha x { "a" => { |z, t| { append(z, t, [2]), t == [true, 1 | z] } }, [[z], z | z] => [x == [[x, 1, [] | x]], matcha x { [y, z] => { append(z, z, [2]) }, [[2, t, 1 | "a"], [[], _ | _], [h, y]] => { y == [[], z | z] }, }], }])
}
pub fn case_184(vars: &Vars) -> InferredGoal<DU, DE, Goal<DU, DE>> {
    let x = vars.v[0].clone();
    let y = vars.v[1].clone();
    proto_vulcan!([matcha y { h => , }])
}
pub fn case_185(vars: &Vars) -> InferredGoal<DU, DE, Goal<DU, DE>> {
    let x = vars.v[0].clone();
    let y = vars.v[1].clone();
    proto_vulcan!([matche x { [[h], ["a" | t]] => { onceo { [x] == x }, |t| { 2 == x } }, [[1, z, 2], [[], 'a'], [1, x]] | [[y | _], [3] | t] => , }])
}
pub fn case_186(vars: &Vars) -> InferredGoal<DU, DE, Goal<DU, DE>> {
    let x = vars.v[0].clone();
    let y = vars.v[1].clone();
    proto_vulcan!([match y { "bc" => , }])
}
pub fn case_187(vars: &Vars) -> InferredGoal<DU, DE, Goal<DU, DE>> {
    let x = vars.v[0].clone();
    let y = vars.v[1].clone();
    proto_vulcan!([condu { [x == [], [] == [2]] }, matchu x { [1, 2] => [[_, _, 2] == x, x == x], }])
}
pub fn case_188(vars: &Vars) -> InferredGoal<DU, DE, Goal<DU, DE>> {
    let x = vars.v[0].clone();
    proto_vulcan!([[true == x, [2, x | x] != x, [x, x] == x], matche "a" { y => { [[]] == x }, }])
}
pub fn case_189(vars: &Vars) -> InferredGoal<DU, DE, Goal<DU, DE>> {
    let x = vars.v[0].clone();
    proto_vulcan!([|h| { [] == h }, match 'a' { [[t, x, h], [2, h], [_]] => { ["a", 2, h] == h }, [['a' | h], ['a' | y]] => { |t, z| { false, t == _, true } }, ['a'] | [1 | h] => , }])
}
pub fn case_190(vars: &Vars) -> InferredGoal<DU, DE, Goal<DU, DE>> {
    let x = vars.v[0].clone();
    let y = vars.v[1].clone();
    proto_vulcan!([matchu y { [] => { onceo { member(x, [1, 3, 2]) } }, [] | x => [append(y, y, [3, 2])], [3 | y] | [[z, _, x], [1, z] | y] => [y == [y], [2, y] == y, member(y, [1])], }])
}
pub fn case_191(vars: &Vars) -> InferredGoal<DU, DE, Goal<DU, DE>> {
    let x = vars.v[0].clone();
    let y = vars.v[1].clone();
    proto_vulcan!([matchu y { [2] => , z => { [true, 3, 3] == x, matcha y { [t, z] => , [1, 1, [y | z]] | [[1, t], ["a"] | h] => [x == [x, x | x], x == [x, 3]], } }, [[3, y]] => , }])
}
pub fn case_192(vars: &Vars) -> InferredGoal<DU, DE, Goal<DU, DE>> {
    let x = vars.v[0].clone();
    proto_vulcan!([matche [x] { [z, [3] | _] => { conde { [append(x, x, [1, 3]), [z, 1] != [[2, 3] | x]], x != [true] }, |t, y| { [1, _] == t } }, [[t]] => [matcha [t, 3, 3] { [[2], [2, [], y] | 2] | z => t == [[[], t] | x], t | 2 => { x == [1, 2] }, }, onceo { x != t }], [[true], [x, x, x | y] | _] => , }])
}
pub fn case_193(vars: &Vars) -> InferredGoal<DU, DE, Goal<DU, DE>> {
    let x = vars.v[0].clone();
    proto_vulcan!([onceo { x == ["a", [x, false, x], [x, [], x | x] | x] }, matchu [x, _] { [[1, h, h | _], [x, _], 1] => , x => conde { false, [3 | x] == x, [x == x, true] }, [1, [[]]] => { conde { [append(x, x, []), true], [true, x == x] }, onceo { x == [[], x] } }, }])
}
pub fn case_194(vars: &Vars) -> InferredGoal<DU, DE, Goal<DU, DE>> {
    let q = vars.v[0].clone();
    let x = vars.v[1].clone();
    proto_vulcan!([matcha x { false => [x != [2, []], x == 1], }])
}
pub fn case_195(vars: &Vars) -> InferredGoal<DU, DE, Goal<DU, DE>> {
    let x = vars.v[0].clone();
    proto_vulcan!([match x { [] | 2 => { 3 == x }, [[], x | _] => , }])
}
pub fn case_196(vars: &Vars) -> InferredGoal<DU, DE, Goal<DU, DE>> {
    let x = vars.v[0].clone();
    proto_vulcan!([matche x { [[z], [[]] | _] => |z| { z == 1, z == [_], [[], 2] != x }, }])
}
pub fn case_197(vars: &Vars) -> InferredGoal<DU, DE, Goal<DU, DE>> {
    let q = vars.v[0].clone();
    let x = vars.v[1].clone();
    proto_vulcan!([|x, t| { false, append(x, t, [2, 1]) }, match [x, [] | x] { 3 => , [[t, 3], [1], [[], 3, 1]] => q == [x], 1 => { |z, y| { ['b', [], _ | q] != [[z, _, 1] | y], z == [[z, _], [q, [] | y]], false }, x == [_, 'a', 1] }, }])
}
pub fn case_198(vars: &Vars) -> InferredGoal<DU, DE, Goal<DU, DE>> {
    let x = vars.v[0].clone();
    let y = vars.v[1].clone();
    proto_vulcan!([[] == 2, match y { [[2, y, h]] => { true }, x => { match [_, y] { [[_], []] => { x != y, x == [x] }, } }, }])
}
pub fn case_199(vars: &Vars) -> InferredGoal<DU, DE, Goal<DU, DE>> {
    let q = vars.v[0].clone();
    let x = vars.v[1].clone();
    proto_vulcan!([matchu q { [false] | x => { [[q, q, q]] == [_, q, q | q] }, [[2, 2, h | x], _] | [2 | t] => q == 3, }])
}
pub fn case_200(vars: &Vars) -> InferredGoal<DU, DE, Goal<DU, DE>> {
    let q = vars.v[0].clone();
    let x = vars.v[1].clone();
    proto_vulcan!([q == [], match q { [2, [y, _ | _] | h] | [[x, 2, 3], [h, [] | x], y] => { [] != y, matcha y { 1 => { h == [2, q, h] }, } }, }])
}
pub fn case_201(vars: &Vars) -> InferredGoal<DU, DE, Goal<DU, DE>> {
    let x = vars.v[0].clone();
    proto_vulcan!([matchu x { [[1], x, [true, 1, 1] | _] => , }])
}
pub fn case_202(vars: &Vars) -> InferredGoal<DU, DE, Goal<DU, DE>> {
    let x = vars.v[0].clone();
    let y = vars.v[1].clone();
    proto_vulcan!([[x, _, []] == y, matcha y { x | x => , }])
}
pub fn case_203(vars: &Vars) -> InferredGoal<DU, DE, Goal<DU, DE>> {
    let x = vars.v[0].clone();
    let y = vars.v[1].clone();
    proto_vulcan!([matchu x { [[true, 3, _]] | [[z], [z, [], false | x] | t] => |t| { t == [y, [], 1] }, [[2]] | false => { |t, x| { [2, y] != t } }, h | t => { matcha [] { [[1, true]] => , } }, }])
}
pub fn case_204(vars: &Vars) -> InferredGoal<DU, DE, Goal<DU, DE>> {
    let q = vars.v[0].clone();
    let x = vars.v[1].clone();
    proto_vulcan!([|h| { append(x, x, [3]), true, h != [[q, x, 1], 1, 3] }, matche x { 3 => onceo { [[2, q, q | 2], x, 'a'] == q }, _ => { [2] == x, [x == [x, q]] }, }])
}
pub fn case_205(vars: &Vars) -> InferredGoal<DU, DE, Goal<DU, DE>> {
    let q = vars.v[0].clone();
    let x = vars.v[1].clone();
    proto_vulcan!([matchu [true, 'b' | q] { [[2 | 2] | t] => , [_ | 3] => , [[1, x] | z] => , }])
}
pub fn case_206(vars: &Vars) -> InferredGoal<DU, DE, Goal<DU, DE>> {
    let x = vars.v[0].clone();
    proto_vulcan!([onceo { x == [x, x | x] }, matcha x { z => { onceo { false } }, h => { 2 == 1, |t, y| { false, x == [[[], 2], 2, [x, h, h] | t], [[y], h, []] == x } }, }])
}
pub fn case_207(vars: &Vars) -> InferredGoal<DU, DE, Goal<DU, DE>> {
    let q = vars.v[0].clone();
    let x = vars.v[1].clone();
    proto_vulcan!([matchu q { [x, [1, x], [h, y]] => { condu { append(x, y, [1]), [1, x] != x, [y, [q, 'b', []], [h, 1]] != y }, |z, h| { member(x, [1, 1]), append(x, q, []), q == [h, 3, h] } }, [[2, 3, _], t, h] => [onceo { t != ['b', 1] }, onceo { [] != t }], }])
}
pub fn case_208(vars: &Vars) -> InferredGoal<DU, DE, Goal<DU, DE>> {
    let x = vars.v[0].clone();
    proto_vulcan!([false, matchu x { [[x, h, x], [t, h]] => , [[3] | y] | [[1, 3, t | x], h] => , }])
}
pub fn case_209(vars: &Vars) -> InferredGoal<DU, DE, Goal<DU, DE>> {
    let q = vars.v[0].clone();
    let x = vars.v[1].clone();
    proto_vulcan!([|y, t| { [t, "bc", y] == y, q != [t] }, matche q { t | [[t], [t, [], _], [_, z, t] | h] => , }])
}
pub fn case_210(vars: &Vars) -> InferredGoal<DU, DE, Goal<DU, DE>> {
    let q = vars.v[0].clone();
    let x = vars.v[1].clone();
    proto_vulcan!([|y| { true, x == ["bc", y] }, match x { [[_, h | _], [y, h, 1] | t] => , }])
}
pub fn case_211(vars: &Vars) -> InferredGoal<DU, DE, Goal<DU, DE>> {
    let q = vars.v[0].clone();
    let x = vars.v[1].clone();
    proto_vulcan!([[[x, x, q] != x, x == [q, x], member(x, [3])], matchu [q] { [[h], ["bc", 1, z | z], [[], _, y | h]] => , }])
}
pub fn case_212(vars: &Vars) -> InferredGoal<DU, DE, Goal<DU, DE>> {
    let x = vars.v[0].clone();
    let y = vars.v[1].clone();
    proto_vulcan!([[y, x] != true, matche ['a'] { z | "bc" => [x == [2, [], x], [y, 3] == y], [_] => matche y { _ => false, _ => y == [[], y], "a" => , }, h => , }])
}
pub fn case_213(vars: &Vars) -> InferredGoal<DU, DE, Goal<DU, DE>> {
    let x = vars.v[0].clone();
    let y = vars.v[1].clone();
    proto_vulcan!([[[[1, x, _], [x]] == [2, y]], matche [1, _, 1] { [h, [y, z | 2], [[]]] | [[_, x, x], [_, 2, y | t]] => [_ == y, [_] == y, append(y, y, [1])], [[3, z], [h, 2], [2]] => { x == [1, [], h | x] }, [_, [z, [] | x]] => , }])
}
pub fn case_214(vars: &Vars) -> InferredGoal<DU, DE, Goal<DU, DE>> {
    let x = vars.v[0].clone();
    proto_vulcan!([matcha x { [[1 | "bc"]] => { [[[]] == x, [1, [3, _ | 3], 3] != [[], x, 1], [1 | x] == x] }, [2, h, [y] | x] => { ["bc", 'a' | h] == h, [[] == x, false, x != x] }, }])
}
pub fn case_215(vars: &Vars) -> InferredGoal<DU, DE, Goal<DU, DE>> {
    let q = vars.v[0].clone();
    let x = vars.v[1].clone();
    proto_vulcan!([matche x { [[z, 2], 3, [3, z, 2] | x] => [[] == z, conde { [x == true, true], [false, 3 == z], true }], }])
}
pub fn case_216(vars: &Vars) -> InferredGoal<DU, DE, Goal<DU, DE>> {
    let x = vars.v[0].clone();
    proto_vulcan!([matche x { h => [h == ["a", x, 1 | h], conda { [[x, x]] == x, [h == [], true] }], [[x], [3, t], [2, t | t]] => , [[z, x] | _] | _ => , }])
}
pub fn case_217(vars: &Vars) -> InferredGoal<DU, DE, Goal<DU, DE>> {
    let x = vars.v[0].clone();
    let y = vars.v[1].clone();
    proto_vulcan!([matcha y { [[3, [], []], [1]] | [] => , }])
}
pub fn case_218(vars: &Vars) -> InferredGoal<DU, DE, Goal<DU, DE>> {
    let q = vars.v[0].clone();
    let x = vars.v[1].clone();
    proto_vulcan!([true, match x { 2 => , [y, 1 | t] | [3, [_, x]] => |z, x| { 1 == q, true }, 'a' => , }])
}
pub fn case_219(vars: &Vars) -> InferredGoal<DU, DE, Goal<DU, DE>> {
    let q = vars.v[0].clone();
    let x = vars.v[1].clone();
    proto_vulcan!([matche x { [z | _] => [|z| { member(q, [1]), q == [z, z, q] }, z != [[1, "bc", 2], x, [q, 1]]], t => , _ => , }])
}
pub fn case_220(vars: &Vars) -> InferredGoal<DU, DE, Goal<DU, DE>> {
    let x = vars.v[0].clone();
    let y = vars.v[1].clone();
    proto_vulcan!([matche x { [2, [_, t]] | [["a"], y | 2] => [false, onceo { [[], 1] != x }], }])
}
pub fn case_221(vars: &Vars) -> InferredGoal<DU, DE, Goal<DU, DE>> {
    let q = vars.v[0].clone();
    let x = vars.v[1].clone();
    proto_vulcan!([["bc", x] == q, matcha q { [x, [h, 3, x] | _] => , h => , [y, [3, false], [2, []]] => , }])
}
pub fn case_222(vars: &Vars) -> InferredGoal<DU, DE, Goal<DU, DE>> {
    let q = vars.v[0].clone();
    let x = vars.v[1].clone();
    proto_vulcan!([[q, q] == x, matchu x { [_, [z, _] | _] => , }])
}
pub fn case_223(vars: &Vars) -> InferredGoal<DU, DE, Goal<DU, DE>> {
    let x = vars.v[0].clone();
    proto_vulcan!([matchu x { [2, [[], [], t], h] => |h, y| { _ == [['b', 'a', []], _], false, member(y, [3, 1, 3]) }, }])
}
pub fn case_224(vars: &Vars) -> InferredGoal<DU, DE, Goal<DU, DE>> {
    let q = vars.v[0].clone();
    let x = vars.v[1].clone();
    proto_vulcan!([|y, z| { true }, matche [x, q, x] { [[], y] => { true }, t => { match x { [[y], 3, y] | [[]] => , } }, [[false | _], 3, z | t] => , }])
}
pub fn case_225(vars: &Vars) -> InferredGoal<DU, DE, Goal<DU, DE>> {
    let x = vars.v[0].clone();
    proto_vulcan!([matche [2, 'a', _ | x] { [[h, 1, z] | x] | [[false, 1 | t], [t, x, 1] | 2] => { onceo { 3 == [[3, [], x | x]] } }, }])
}
pub fn case_226(vars: &Vars) -> InferredGoal<DU, DE, Goal<DU, DE>> {
    let x = vars.v[0].clone();
    proto_vulcan!([[] != x, matchu x { [[] | x] => , x => [x] == x, _ => |h| { x != x }, }])
}
pub fn case_227(vars: &Vars) -> InferredGoal<DU, DE, Goal<DU, DE>> {
    let x = vars.v[0].clone();
    proto_vulcan!([|x| { append(x, x, []), x == "a", x == [x, "a"] }, matcha x { [[2, _, _ | 1], ["bc", x]] | [2, [t | 'a']] => , }])
}
pub fn case_228(vars: &Vars) -> InferredGoal<DU, DE, Goal<DU, DE>> {
    let x = vars.v[0].clone();
    proto_vulcan!([match x { [[2], 1] | [["bc"], [2 | _], [[], [], []]] => { x == x, true }, t => [[x, 2], [1, 1], _] == t, [t, [2 | h]] | [[1, 1], [2, []]] => { matchu x { [_ | z] => { x == 'a' }, } }, }])
}
pub fn case_229(vars: &Vars) -> InferredGoal<DU, DE, Goal<DU, DE>> {
    let x = vars.v[0].clone();
    let y = vars.v[1].clone();
    proto_vulcan!([[y != [3, _], false], matcha x { [[_, _]] => , [[_, y], [x, h, 1] | _] => , }])
}
pub fn case_230(vars: &Vars) -> InferredGoal<DU, DE, Goal<DU, DE>> {
    let q = vars.v[0].clone();
    let x = vars.v[1].clone();
    proto_vulcan!([|x| { append(x, x, [3, 1]), append(q, q, []) }, matche q { 2 | [[t | _], h, y | z] => , [[1, "bc", h | 3]] => x == [[]], }])
}
pub fn case_231(vars: &Vars) -> InferredGoal<DU, DE, Goal<DU, DE>> {
    let x = vars.v[0].clone();
    let y = vars.v[1].clone();
    proto_vulcan!([append(y, x, []), matche 2 { 1 => [y == 2, [[y]] == y], z => , }])
}
pub fn case_232(vars: &Vars) -> InferredGoal<DU, DE, Goal<DU, DE>> {
    let x = vars.v[0].clone();
    let y = vars.v[1].clone();
    proto_vulcan!([matche x { 2 => 2 == [[3 | y], 1 | _], [2, [], [_] | _] => , }])
}
pub fn case_233(vars: &Vars) -> InferredGoal<DU, DE, Goal<DU, DE>> {
    let x = vars.v[0].clone();
    let y = vars.v[1].clone();
    proto_vulcan!([matchu x { [[h, 3, z], 2, [3, z, h | x]] => { matcha x { [[t, 2]] | _ => { member(z, [2]), [y] == x }, [[_, _], [x, h, _]] | y => { _ == [false, 1 | z] }, [y | _] => , } }, }])
}
pub fn case_234(vars: &Vars) -> InferredGoal<DU, DE, Goal<DU, DE>> {
    let x = vars.v[0].clone();
    proto_vulcan!([x == [[false, 2, [] | x]], matche x { [[true, 1 | "bc"] | 1] | 1 => { x == [x, x, x], match [[]] { x => , } }, [[2, z, "bc" | y], t] => { 1 == z }, [[_, 2, y], 1, [[]]] => , }])
}
pub fn case_235(vars: &Vars) -> InferredGoal<DU, DE, Goal<DU, DE>> {
    let x = vars.v[0].clone();
    let y = vars.v[1].clone();
    proto_vulcan!([[true, true | 1] == 2, match x { [x, [t, 3] | y] | [[2, 'b', 3], t, 3 | h] => , [] | [z, [2, y, y]] => { conda { x == [_ | x], [[x, 1]] == [[], x] }, [] == [[x, 3, x], [x, x, x | x], [_, _, 'a']] }, [2] | z => , }])
}
pub fn case_236(vars: &Vars) -> InferredGoal<DU, DE, Goal<DU, DE>> {
    let x = vars.v[0].clone();
    let y = vars.v[1].clone();
    proto_vulcan!([matchu [y] { [[3, 1, x]] | y => , [[1, _, false], ['a' | z], _] => , 2 | ["bc", _ | _] => [|t, h| { t == 3, 'a' == t }, |x, y| { ["bc", [2, 'a' | y] | y] == [y, x | y] }], }])
}
pub fn case_237(vars: &Vars) -> InferredGoal<DU, DE, Goal<DU, DE>> {
    let x = vars.v[0].clone();
    let y = vars.v[1].clone();
    proto_vulcan!([matchu x { [[_, t, _], [z, "bc"], 1] => { conda { [true, y == [z]], ['a' != z, false], t == z } }, [[y, _, []], [[], 2, 2]] => { conda { [3] == x, [y == x, [3, _ | y] == y], x == [y, 3, 3] } }, [] => [condu { [1, x, _ | y] == y, [false, [3] == x] }, |x, y| { member(x, [3]), [[2, y], 2, y | y] == x, [y, [_, 2, 3]] == 2 }], }])
}
pub fn case_238(vars: &Vars) -> InferredGoal<DU, DE, Goal<DU, DE>> {
    let x = vars.v[0].clone();
    proto_vulcan!([member(x, [3, 2, 3]), match x { z | [[1, []], [[]]] => { onceo { x == [1, _, x] }, match x { 3 => true, } }, h => , [[[], x, h] | 1] => |y, z| { [_] == z, x != [1, []], true }, }])
}
pub fn case_239(vars: &Vars) -> InferredGoal<DU, DE, Goal<DU, DE>> {
    let q = vars.v[0].clone();
    let x = vars.v[1].clone();
    proto_vulcan!([match x { h | "bc" => , 1 | _ => { [[1, q | x]] == x }, [[h, x | y], [x, x, z], 3] => , }])
}
pub fn case_240(vars: &Vars) -> InferredGoal<DU, DE, Goal<DU, DE>> {
    let q = vars.v[0].clone();
    let x = vars.v[1].clone();
    proto_vulcan!([matchu x { z | 3 => , [[3]] => { [["bc", 'a' | q] | x] == [1, _] }, [['b', 1, _], [_] | z] => , }])
}
pub fn case_241(vars: &Vars) -> InferredGoal<DU, DE, Goal<DU, DE>> {
    let q = vars.v[0].clone();
    let x = vars.v[1].clone();
    proto_vulcan!([matcha x { 2 => , [[1]] => , [[1], [] | 2] | [[h, x, 3]] => |y| { 2 == y }, }])
}
pub fn case_242(vars: &Vars) -> InferredGoal<DU, DE, Goal<DU, DE>> {
    let x = vars.v[0].clone();
    let y = vars.v[1].clone();
    proto_vulcan!([2 == x, matchu y { h => { [h | x] == x, |y| { [3, h, 3] == y, [x | 2] == y, y == y } }, x => x != ['a'], h => matche y { true => { [y, x, h | x] == [y, [y | y]] }, [3] => y == [2, 2, 3 | y], }, }])
}
pub fn case_243(vars: &Vars) -> InferredGoal<DU, DE, Goal<DU, DE>> {
    let x = vars.v[0].clone();
    let y = vars.v[1].clone();
    proto_vulcan!([|z| { y != [[_, 2, _], 2], false == 'a' }, matcha x { h | x => [matcha [y, y | y] { t => , }, [y == [_], member(y, []), y == [3, [_], [false, _, 1]]]], [[_, _, []]] => { matche x { z => { 3 == x }, }, match y { [x, 2, [[] | z] | h] => [member(x, [1]), x == y], } }, }])
}
pub fn case_244(vars: &Vars) -> InferredGoal<DU, DE, Goal<DU, DE>> {
    let q = vars.v[0].clone();
    let x = vars.v[1].clone();
    proto_vulcan!([matchu x { [[x]] | 3 => { onceo { q == [false, q, _] }, conde { q == [3], [[2, 1] == q, q == [2]], [q == [[_, 2], [1, q, q | q] | q], ['a'] != q] } }, }])
}
pub fn case_245(vars: &Vars) -> InferredGoal<DU, DE, Goal<DU, DE>> {
    let x = vars.v[0].clone();
    let y = vars.v[1].clone();
    proto_vulcan!([matcha x { [[2, 3], [y, 1 | z], z] => [[y], 3, 2 | _] == y, ['b', h] => , }])
}
pub fn case_246(vars: &Vars) -> InferredGoal<DU, DE, Goal<DU, DE>> {
    let x = vars.v[0].clone();
    let y = vars.v[1].clone();
    proto_vulcan!([x == [y | x], matcha x { [[y]] => { [[[3, "a", x], [3, y]] != [1, y]] }, }])
}
pub fn case_247(vars: &Vars) -> InferredGoal<DU, DE, Goal<DU, DE>> {
    let x = vars.v[0].clone();
    let y = vars.v[1].clone();
    proto_vulcan!([matche y { ['a', [2, _]] => , _ => [|t, h| { [2, [y], [y, h, 2]] != x }, matchu x { [[[]], 2 | 1] | [[3], [x, false] | _] => { member(y, []) }, [y, [_, 2, 2 | _]] => { x != y, false }, 'b' => { [y, 2, []] != y }, }], z => { |h, y| { [2 | y] == y }, |y| { [3, _] == 2 } }, }])
}
pub fn case_248(vars: &Vars) -> InferredGoal<DU, DE, Goal<DU, DE>> {
    let x = vars.v[0].clone();
    let y = vars.v[1].clone();
    proto_vulcan!([matcha x { [t] => { matchu [3, _] { [[t]] => , } }, }])
}
pub fn case_249(vars: &Vars) -> InferredGoal<DU, DE, Goal<DU, DE>> {
    let x = vars.v[0].clone();
    let y = vars.v[1].clone();
    proto_vulcan!([match [x] { [[h], [z, _ | _]] => [|t, y| { z == [1, [], []], y == y, [1] != y }, [[]] == h], z => [x == [[z, 3] | z]], }])
}
pub fn case_250(vars: &Vars) -> InferredGoal<DU, DE, Goal<DU, DE>> {
    let x = vars.v[0].clone();
    proto_vulcan!([matcha x { [[[], z | 2], true, 1 | 1] | [[h, t, h]] => , }])
}
pub fn case_251(vars: &Vars) -> InferredGoal<DU, DE, Goal<DU, DE>> {
    let x = vars.v[0].clone();
    proto_vulcan!([[x, 3] == x, matche x { _ | [y, [t, y, z | h]] => , 1 => { false != x }, }])
}
pub fn case_252(vars: &Vars) -> InferredGoal<DU, DE, Goal<DU, DE>> {
    let x = vars.v[0].clone();
    let y = vars.v[1].clone();
    proto_vulcan!([conde { [y == x, y == [[], 1, y]], [[] | y] == x }, match y { [3, [3 | 3]] => { [member(y, []), [1, [_] | true] == y] }, z => , }])
}
pub fn case_253(vars: &Vars) -> InferredGoal<DU, DE, Goal<DU, DE>> {
    let x = vars.v[0].clone();
    proto_vulcan!([matcha x { [[3, [], 2], [3, y, x | z], [3, y, z]] | [] => , h => [|h, x| { h != [_, h, h | x] }, conde { x == ["bc" | x], [[1, 'b', h]] != [1 | h], x != h }], [x, h, "a"] => , }])
}
pub fn case_254(vars: &Vars) -> InferredGoal<DU, DE, Goal<DU, DE>> {
    let q = vars.v[0].clone();
    let x = vars.v[1].clone();
    proto_vulcan!([conde { q != "bc", [q == x, _ == x] }, matchu q { [[3, "a"], _, [_, y, t | _]] | [h | _] => conda { [true, ['b', x, x] == q], q != true }, [_, ["bc", x], _] => , }])
}
pub fn case_255(vars: &Vars) -> InferredGoal<DU, DE, Goal<DU, DE>> {
    let x = vars.v[0].clone();
    proto_vulcan!([matcha _ { 1 => [onceo { member(x, [1]) }, match x { [[2, _], [2 | h] | h] => , [["a", 1, y]] => { [[[], [] | y] | x] == x }, [[2, 1], [_, x, 'a'] | x] => x == x, }], }])
}
pub fn case_256(vars: &Vars) -> InferredGoal<DU, DE, Goal<DU, DE>> {
    let x = vars.v[0].clone();
    let y = vars.v[1].clone();
    proto_vulcan!([match x { 2 => [[x, 'a', [x, 2, x]] == [y], matchu x { [[y] | t] => [t == y, y == ['a', 2, t | y]], [['a', t, y], [y, _ | t]] => , }], }])
}
pub fn case_257(vars: &Vars) -> InferredGoal<DU, DE, Goal<DU, DE>> {
    let x = vars.v[0].clone();
    proto_vulcan!([[x == [[x, _, x | x]]], matchu [2, 2, 1] { ['a', [], [z, z]] | [2, 3, [h]] => member(x, [1, 3, 2]), }])
}
pub fn case_258(vars: &Vars) -> InferredGoal<DU, DE, Goal<DU, DE>> {
    let x = vars.v[0].clone();
    let y = vars.v[1].clone();
    proto_vulcan!([y != x, matchu x { [[2, _, x]] => , 1 | [[]] => x != y, }])
}
pub fn case_259(vars: &Vars) -> InferredGoal<DU, DE, Goal<DU, DE>> {
    let q = vars.v[0].clone();
    let x = vars.v[1].clone();
    proto_vulcan!([matchu x { [[x], []] => , }])
}
pub fn case_260(vars: &Vars) -> InferredGoal<DU, DE, Goal<DU, DE>> {
    let q = vars.v[0].clone();
    let x = vars.v[1].clone();
    proto_vulcan!([matche x { [[2, z, z], [y, 'b']] => , [[x], [y, z]] => [condu { append(y, x, [3]) }, x == y], h => [[[]] == [q | h]], }])
}
pub fn case_261(vars: &Vars) -> InferredGoal<DU, DE, Goal<DU, DE>> {
    let x = vars.v[0].clone();
    let y = vars.v[1].clone();
    proto_vulcan!([y == [x, x], matche [2] { [[y, [] | z]] => , [1, [2, x | _]] => { match y { [] | x => { _ == y }, }, match y { [[3], z, z | h] => [y == "bc", [[x | 2], x, [true, 'b' | x]] != x], [] => [3, 2 | x] == x, [[true], _ | 2] => { x == x, [x, y] != x }, } }, [2] => { [1, y, 1] == x }, }])
}
pub fn case_262(vars: &Vars) -> InferredGoal<DU, DE, Goal<DU, DE>> {
    let x = vars.v[0].clone();
    let y = vars.v[1].clone();
    proto_vulcan!([matche y { z => y != y, [[3, 1, h] | h] => [conde { false, [x == _, [2, y, [1, 3] | h] != ['b']], 1 == [2] }, [_, 'b', y | x] == y], [[2]] => [conde { y == [], [x != [[3]], x == [y]], [['b'] == y, false] }, 1 != x], }])
}
pub fn case_263(vars: &Vars) -> InferredGoal<DU, DE, Goal<DU, DE>> {
    let q = vars.v[0].clone();
    let x = vars.v[1].clone();
    proto_vulcan!([|x, z| { q != [q] }, matcha x { [2, t | y] => [2, t | y] == y, }])
}
pub fn case_264(vars: &Vars) -> InferredGoal<DU, DE, Goal<DU, DE>> {
    let q = vars.v[0].clone();
    let x = vars.v[1].clone();
    proto_vulcan!([x == [2, 3 | x], matche q { [h] => , }])
}
pub fn case_265(vars: &Vars) -> InferredGoal<DU, DE, Goal<DU, DE>> {
    let x = vars.v[0].clone();
    proto_vulcan!([matcha x { 1 => { |z| { [x, x] != x, z == [_, 2], x == [z, 2 | x] }, matchu x { z | ['b', "bc", [[], _, []] | x] => , } }, }])
}
pub fn case_266(vars: &Vars) -> InferredGoal<DU, DE, Goal<DU, DE>> {
    let x = vars.v[0].clone();
    proto_vulcan!([true, matcha x { [[_], [h | z]] => { [z, 3] == h }, [] | z => , false => { member(x, [1, 1, 3]) }, }])
}
pub fn case_267(vars: &Vars) -> InferredGoal<DU, DE, Goal<DU, DE>> {
    let q = vars.v[0].clone();
    let x = vars.v[1].clone();
    proto_vulcan!([2 == [false], matche x { [[x, z, h | x], [1, 1, h], [_, false, z]] | [[3, 2 | z], [false, x]] => { [2] == x, condu { [x == [[], _, 1 | x], z == [true, 3]], [z == 2, z == 3] } }, 1 => { x == ['a', 2], x != [1, x, 3] }, }])
}
pub fn case_268(vars: &Vars) -> InferredGoal<DU, DE, Goal<DU, DE>> {
    let x = vars.v[0].clone();
    let y = vars.v[1].clone();
    proto_vulcan!([x == [2, x, y], match y { 2 | [[h], [h, 2]] => , [[t, 2], [1, 1]] => conde { [[x, x], [x, 3, []], false] != x, [append(t, t, [2, 2]), x != [_ | x]] }, }])
}
pub fn case_269(vars: &Vars) -> InferredGoal<DU, DE, Goal<DU, DE>> {
    let x = vars.v[0].clone();
    proto_vulcan!([matchu x { [2] => { [x == [x]], x == [["bc" | x], 'b', x] }, }])
}
pub fn case_270(vars: &Vars) -> InferredGoal<DU, DE, Goal<DU, DE>> {
    let x = vars.v[0].clone();
    let y = vars.v[1].clone();
    proto_vulcan!([match x { [t, [h, h, 2], ['b', 3, 'a']] => { |x, t| { [2, t, 1] != t, x != 1 } }, }])
}
pub fn case_271(vars: &Vars) -> InferredGoal<DU, DE, Goal<DU, DE>> {
    let q = vars.v[0].clone();
    let x = vars.v[1].clone();
    proto_vulcan!([matchu x { [[x, h], 1, [_, _, 2]] | [[y, []], [3] | _] => , [[t | t], ['b' | z], z] => , }])
}
pub fn case_272(vars: &Vars) -> InferredGoal<DU, DE, Goal<DU, DE>> {
    let x = vars.v[0].clone();
    let y = vars.v[1].clone();
    proto_vulcan!([matche x { [2, x, 2] | [[[], [], _], [x, _, 3 | x], z] => { [2] == x, matcha [x, 3] { _ | [[1, 1, 3] | _] => { y != [2] }, [[[], t, y]] | [] => , _ => , } }, [[1 | _], _, [t] | t] => { false, x != [2, x] }, [[z | _], [1 | z] | t] => [y == [[], x, 2 | t], |z| { true }], }])
}
pub fn case_273(vars: &Vars) -> InferredGoal<DU, DE, Goal<DU, DE>> {
    let x = vars.v[0].clone();
    proto_vulcan!([|t, z| { append(z, t, []) }, matchu x { [[[]], [y | t]] => , }])
}
pub fn case_274(vars: &Vars) -> InferredGoal<DU, DE, Goal<DU, DE>> {
    let x = vars.v[0].clone();
    proto_vulcan!([[[x]] == x, matchu x { [[y, z, []], [1] | z] => , [3, [z], x] | x => , }])
}
pub fn case_275(vars: &Vars) -> InferredGoal<DU, DE, Goal<DU, DE>> {
    let x = vars.v[0].clone();
    let y = vars.v[1].clone();
    proto_vulcan!([|t| { x == [t, 2] }, matcha x { [[h, false, 3], [2, true | h], _] => , }])
}
pub fn case_276(vars: &Vars) -> InferredGoal<DU, DE, Goal<DU, DE>> {
    let q = vars.v[0].clone();
    let x = vars.v[1].clone();
    proto_vulcan!([[x, [1, 1]] == x, match q { t => , [[3], t] => matche t { [[_]] => [false, t == [t]], [[1, 2, t], y] | [x, z, 1] => , }, }])
}
pub fn case_277(vars: &Vars) -> InferredGoal<DU, DE, Goal<DU, DE>> {
    let x = vars.v[0].clone();
    proto_vulcan!([x != x, match x { [[3, [], _]] => , [[_]] | [[y, 2, y], [_, [], x | z], t] => , z => , }])
}
pub fn case_278(vars: &Vars) -> InferredGoal<DU, DE, Goal<DU, DE>> {
    let q = vars.v[0].clone();
    let x = vars.v[1].clone();
    proto_vulcan!([match 1 { [h, _] => { [[3], [1, h, q | h], h] != [], [append(q, x, [1, 2])] }, [["a", 'a', 3], [_], 2] => { [[], 3 | x] != [[x, "bc"]], matcha ["a" | q] { z => { x == ["bc"] }, h => [x == [[2], [_, x, x]], [q] != h], t => [1 == t, append(q, q, [3])], } }, }])
}
pub fn case_279(vars: &Vars) -> InferredGoal<DU, DE, Goal<DU, DE>> {
    let x = vars.v[0].clone();
    proto_vulcan!([matche x { [[2, _, true], [_, _, _ | x], t | 3] => { |y, t| { ["bc", y, [] | y] == "bc", [_, [], y] != t, member(x, [1]) } }, }])
}
pub fn case_280(vars: &Vars) -> InferredGoal<DU, DE, Goal<DU, DE>> {
    let q = vars.v[0].clone();
    let x = vars.v[1].clone();
    proto_vulcan!([false, match [2, 1, 2] { [_, [2, t, 1], [_, false, 1 | h]] | [z, 3] => , }])
}
pub fn case_281(vars: &Vars) -> InferredGoal<DU, DE, Goal<DU, DE>> {
    let x = vars.v[0].clone();
    proto_vulcan!([x == [[], 1 | x], matcha x { y => , }])
}
pub fn case_282(vars: &Vars) -> InferredGoal<DU, DE, Goal<DU, DE>> {
    let x = vars.v[0].clone();
    proto_vulcan!([x == _, matcha x { [x, 1, _] => , [[3, y, y] | y] => , h => { [x, x] == x, [[], h] != [[h, x, _], [h, x, h] | x] }, }])
}
pub fn case_283(vars: &Vars) -> InferredGoal<DU, DE, Goal<DU, DE>> {
    let x = vars.v[0].clone();
    proto_vulcan!([true, match x { [[[]]] => [false], }])
}
pub fn case_284(vars: &Vars) -> InferredGoal<DU, DE, Goal<DU, DE>> {
    let x = vars.v[0].clone();
    proto_vulcan!([[_] == x, matchu x { ['a', [1, 'a', [] | 3], []] => x == x, 1 => [_ != x, [x, 2, []] == 2], [[x, h], [t]] => [matche h { [z, [h, z, 2]] | [[1 | z], 2, [1, 2, _]] => , [y] => h != [3, true, [] | y], [x, [_, _, "bc" | z], 'b'] => , }, |z, h| { z == x, x != 2 }], }])
}
pub fn case_285(vars: &Vars) -> InferredGoal<DU, DE, Goal<DU, DE>> {
    let x = vars.v[0].clone();
    let y = vars.v[1].clone();
    proto_vulcan!([x == [1, [2, _] | y], y != []])
}
pub fn case_286(vars: &Vars) -> InferredGoal<DU, DE, Goal<DU, DE>> {
    let x = vars.v[0].clone();
    proto_vulcan!([conde { x == 'a', [x == "bc", true], false }])
}
pub fn case_287(vars: &Vars) -> InferredGoal<DU, DE, Goal<DU, DE>> {
    let q = vars.v[0].clone();
    let x = vars.v[1].clone();
    proto_vulcan!([|x| { x == 1, q == [x, true] }])
}
pub fn case_288(vars: &Vars) -> InferredGoal<DU, DE, Goal<DU, DE>> {
    let x = vars.v[0].clone();
    proto_vulcan!([closure { [x == 1, conde { true, true }] }])
}
pub fn case_289(vars: &Vars) -> InferredGoal<DU, DE, Goal<DU, DE>> {
    let x = vars.v[0].clone();
    let y = vars.v[1].clone();
    proto_vulcan!([[] == x, y == [[]]])
}
pub fn case_290(vars: &Vars) -> InferredGoal<DU, DE, Goal<DU, DE>> {
    let q = vars.v[0].clone();
    let x = vars.v[1].clone();
    proto_vulcan!([member(x, []), [[2, [q]] == q]])
}
pub fn case_291(vars: &Vars) -> InferredGoal<DU, DE, Goal<DU, DE>> {
    let q = vars.v[0].clone();
    let x = vars.v[1].clone();
    proto_vulcan!([|y| { x == [[2], [y, y | q], [3]] }, q == _, closure { conde { [[[q], ['a', _, 2] | q] == q, 'b' != q], [conde { [[], q, x] == q, q == x, [q == 1, q != q] }, q == 2], [[q == 1], [[q, 3, _ | x], [[], x, x], [2]] != q] } }])
}
pub fn case_292(vars: &Vars) -> InferredGoal<DU, DE, Goal<DU, DE>> {
    let q = vars.v[0].clone();
    let x = vars.v[1].clone();
    proto_vulcan!([conde { [q] == q, [] == q, [|x| { conde { [[2, x], [x, _, x], [x, 3, [] | x]] == q, q != x }, append(x, x, [2]), |y| { [[_, 'b'], [3 | y]] == 3 } }, q == x] }, conde { [|h| { |t| { member(t, [1, 2]) }, h != h }, _ == q], [q, q, 2 | q] == x }, [[], true] != x])
}
pub fn case_293(vars: &Vars) -> InferredGoal<DU, DE, Goal<DU, DE>> {
    let x = vars.v[0].clone();
    let y = vars.v[1].clone();
    proto_vulcan!([conda { [[2] == [[[], 2, 1], true], |y| { y == y, append(y, y, [2, 3]) }], [[[]] == y, [2, []] == x] }])
}
pub fn case_294(vars: &Vars) -> InferredGoal<DU, DE, Goal<DU, DE>> {
    let x = vars.v[0].clone();
    let y = vars.v[1].clone();
    proto_vulcan!([condu { [y] != y }, |t, z| { |h, t| { |y| { t == [[]], [x, [], y] == y, [1, ['b'] | y] == x }, conde { [[h, y | 'a'], ['b' | t]] == [t], [[[[], 3, 1 | x], [1, z | x]] == t, member(z, [2])] } }, t == [1, [false, false, 2], x] }, x == [false, [], _], closure { [y, y] == x }])
}
pub fn case_295(vars: &Vars) -> InferredGoal<DU, DE, Goal<DU, DE>> {
    let x = vars.v[0].clone();
    let y = vars.v[1].clone();
    proto_vulcan!([y == [[], _, 1], |h| { member(y, [1, 2]) }])
}
pub fn case_296(vars: &Vars) -> InferredGoal<DU, DE, Goal<DU, DE>> {
    let q = vars.v[0].clone();
    let x = vars.v[1].clone();
    proto_vulcan!([x == [1, 2]])
}
pub fn case_297(vars: &Vars) -> InferredGoal<DU, DE, Goal<DU, DE>> {
    let x = vars.v[0].clone();
    let y = vars.v[1].clone();
    proto_vulcan!([|y| { y == y, conde { [conde { [member(y, [1, 3, 2]), y == y], [true, x != 1], [3, y, y] != y }, |x| { [[y], [x, [], _], [y]] == [[], 1 | x], member(x, [1, 3]), 1 == y }], [conde { [1 == x, x == y], [1 == y, [_] == y], [[["a", 3, []], [1 | x], ["a", "bc", 2]] == y, member(y, [3, 3, 2])] }, [_] != [2 | x]] } }, closure { [[[[] | y], [2, x, 'b' | y] | x] == x, y == [[3, x, 3 | x], [2 | 3], [2, 2] | x]] }])
}
pub fn case_298(vars: &Vars) -> InferredGoal<DU, DE, Goal<DU, DE>> {
    let x = vars.v[0].clone();
    proto_vulcan!([conda { [append(x, x, [1]), [condu { [x == [x, []], x == [x, 2]], [[], _ | x] == [[x, 1], true | x] }, [[3, x, 3 | x]] == x, x == [x, x]]], |x| { true, x == x, conda { [true, 3 == x] } }, [x == [x, 3], |y, z| { z == [3, _, 3] }] }, [_, 'b', x] == x, closure { [[3, []], [false, x, x], [x]] == x }])
}
pub fn case_299(vars: &Vars) -> InferredGoal<DU, DE, Goal<DU, DE>> {
    let x = vars.v[0].clone();
    proto_vulcan!([[_, [], [x, _]] != x, 3 == x, conda { |x, h| { x == _, [x, true, 'a' | x] == [[x]], x == x } }])
}
pub fn case_300(vars: &Vars) -> InferredGoal<DU, DE, Goal<DU, DE>> {
    let q = vars.v[0].clone();
    let x = vars.v[1].clone();
    proto_vulcan!([x == [x, _, _ | x], _ != x, x == x])
}
pub fn case_301(vars: &Vars) -> InferredGoal<DU, DE, Goal<DU, DE>> {
    let x = vars.v[0].clone();
    proto_vulcan!([|y| { x == [x] }, [[x == [[3 | x], 1, [x, 'a' | x]]], onceo { [[x, _, 1 | x] | false] == ["a", 'b', 'b'] }]])
}
pub fn case_302(vars: &Vars) -> InferredGoal<DU, DE, Goal<DU, DE>> {
    let x = vars.v[0].clone();
    let y = vars.v[1].clone();
    proto_vulcan!([[[2, 1, [] | y], []] != ['a', _], 2 != x, [y != 3]])
}
pub fn case_303(vars: &Vars) -> InferredGoal<DU, DE, Goal<DU, DE>> {
    let x = vars.v[0].clone();
    let y = vars.v[1].clone();
    proto_vulcan!([y == [['b', y, "bc" | y]], member(x, [3, 2]), closure { [|t| { 2 != [1, t] }, conde { |h, t| { h != 3 }, [|t| { [t | x] == y, y == x, [1, y, 3 | x] != y }, |h, t| { y == [y], t == [_, 1, y | x], true }], [y == [x | x], conde { [x == 3, [] == _], [y == [], x == [x]] }] }] }])
}
pub fn case_304(vars: &Vars) -> InferredGoal<DU, DE, Goal<DU, DE>> {
    let x = vars.v[0].clone();
    let y = vars.v[1].clone();
    proto_vulcan!([[x] == x, y != y])
}
pub fn case_305(vars: &Vars) -> InferredGoal<DU, DE, Goal<DU, DE>> {
    let x = vars.v[0].clone();
    let y = vars.v[1].clone();
    proto_vulcan!([[y, _, y | x] == y, [[x], 1] == x])
}
pub fn case_306(vars: &Vars) -> InferredGoal<DU, DE, Goal<DU, DE>> {
    let q = vars.v[0].clone();
    let x = vars.v[1].clone();
    proto_vulcan!([conda { [_] == q }, conde { |x| { [q, x] == q, x == x, [[q, 1, x | q]] == q }, |x| { member(q, []) }, [condu { |x| { x != [x], append(q, q, []) }, [onceo { [[_, "bc", q], [false, x], [q | x]] != _ }, q == [x, x, 2 | _]] }, [[q, 1], [q, _], x | q] == [q | q]] }, 3 == [[false, q, []]], closure { q == [] }])
}
pub fn case_307(vars: &Vars) -> InferredGoal<DU, DE, Goal<DU, DE>> {
    let x = vars.v[0].clone();
    proto_vulcan!([true, |y, t| { [_, [_], ['b', 1, 2]] == [t, 1, _ | 2] }, x == [x]])
}
pub fn case_308(vars: &Vars) -> InferredGoal<DU, DE, Goal<DU, DE>> {
    let x = vars.v[0].clone();
    let y = vars.v[1].clone();
    proto_vulcan!([[[], y, y | y] != x, x == 2])
}
pub fn case_309(vars: &Vars) -> InferredGoal<DU, DE, Goal<DU, DE>> {
    let x = vars.v[0].clone();
    proto_vulcan!([x == [2], closure { [x != [[], 3, []], x == x] }])
}
pub fn case_310(vars: &Vars) -> InferredGoal<DU, DE, Goal<DU, DE>> {
    let q = vars.v[0].clone();
    let x = vars.v[1].clone();
    proto_vulcan!([[|x| { conda { [append(x, x, [1]), x != [q]], [true, true], [[[] | x] != q, false] }, conde { [member(q, [3]), x == x], ["bc", x] == q }, [_, [], x] == q }, q != 1], onceo { conde { [|z| { x == 3, x != [[z, "a"], [q] | 3] }, [member(x, [])]], [[[_] == q, q == [q, 2], x == [[], x, 1 | x]], x == [[x, x], q | q]] } }, x == q, closure { [onceo { |t, h| { true } }, q == [x, 1]] }])
}
pub fn case_311(vars: &Vars) -> InferredGoal<DU, DE, Goal<DU, DE>> {
    let x = vars.v[0].clone();
    let y = vars.v[1].clone();
    proto_vulcan!([y == [2, true | _], closure { [|h| { [_, 1] == h, conde { [[x, h, [] | 'b'] != h, append(x, h, [3, 3])], [[[2]] == 2, x != [3, 3, x]], member(x, [3, 3, 3]) } }, y == [[x, 'a', y]]] }])
}
pub fn case_312(vars: &Vars) -> InferredGoal<DU, DE, Goal<DU, DE>> {
    let q = vars.v[0].clone();
    let x = vars.v[1].clone();
    proto_vulcan!([conde { [[x, [], q] == q, [q, 3] != q], [onceo { |x| { true } }, false == q] }, conda { member(q, []) }])
}
pub fn case_313(vars: &Vars) -> InferredGoal<DU, DE, Goal<DU, DE>> {
    let q = vars.v[0].clone();
    let x = vars.v[1].clone();
    proto_vulcan!([true, conde { [|h, y| { |t, h| { [x, 1 | y] != x }, false, conde { y != [x, 2], [[y, q, "bc"] == y, y != q], [append(q, h, []), true] } }, [x != _, [1, [[] | q]] == [3, q]]], [onceo { conde { x != [x], [[q, x] == q, q == [[q, x, q | x], [1, true, x], [2, [] | x]]] } }, true], x == 1 }, closure { q != [_, 3, []] }])
}
pub fn case_314(vars: &Vars) -> InferredGoal<DU, DE, Goal<DU, DE>> {
    let q = vars.v[0].clone();
    let x = vars.v[1].clone();
    proto_vulcan!([conde { [onceo { [false, x == q] }, x == [[q | q], _, ["a", 3, 2]]], [append(q, x, [])], [x == 2, conde { [condu { [q, x, 1 | x] == x, [x | q] == q, x == [] }, conde { member(q, [2, 3, 3]), [[x, x, 1 | x] == x, q != q] }], [1, [q, x, q] | q] == q }] }, [['a' | x], 1 | _] == x])
}
pub fn case_315(vars: &Vars) -> InferredGoal<DU, DE, Goal<DU, DE>> {
    let x = vars.v[0].clone();
    let y = vars.v[1].clone();
    proto_vulcan!([append(x, y, [2]), |z| { conde { [[] == y, 'a' != z], [false, z == [1, _, "bc" | y]], [append(z, z, []), conde { y == _, x != [_, 1 | y] }] }, |t| { [false] == [_, z, t], y == 3 }, x == [[z], [2]] }, conda { [y == [[_, y, x]], _ != y] }])
}
pub fn case_316(vars: &Vars) -> InferredGoal<DU, DE, Goal<DU, DE>> {
    let q = vars.v[0].clone();
    let x = vars.v[1].clone();
    proto_vulcan!([|x| { x == [[[]] | 3] }, conde { [[|h| { h != [2 | h], member(x, []) }, q != [[false]]], x == 2], [x != x, q != [1, x]], [condu { x == q, [condu { q == x, q == q }, x == [_]], [x != [q, x], condu { x != [x | q], q == [[1, "a"] | q] }] }, q == x] }])
}
pub fn case_317(vars: &Vars) -> InferredGoal<DU, DE, Goal<DU, DE>> {
    let x = vars.v[0].clone();
    proto_vulcan!([|h| { |t, x| { h == t, |h| { [[h], x, [2]] != h, [_] == h, [2, _] == h } }, h != [[x, h, 2 | h], x, [1 | h] | h], h == [2, x] }])
}
pub fn case_318(vars: &Vars) -> InferredGoal<DU, DE, Goal<DU, DE>> {
    let x = vars.v[0].clone();
    let y = vars.v[1].clone();
    proto_vulcan!([[2] == x])
}
pub fn case_319(vars: &Vars) -> InferredGoal<DU, DE, Goal<DU, DE>> {
    let q = vars.v[0].clone();
    let x = vars.v[1].clone();
    proto_vulcan!([conde { [[q, 2]] == 1, [[1, x, x]] == x }, x == [[x], [] | x], q == [q, 1, "a"]])
}
pub fn case_320(vars: &Vars) -> InferredGoal<DU, DE, Goal<DU, DE>> {
    let x = vars.v[0].clone();
    let y = vars.v[1].clone();
    proto_vulcan!([x == 1, |y| { [_ | y] != x, y == [y, 3], y == [true] }, true])
}
pub fn case_321(vars: &Vars) -> InferredGoal<DU, DE, Goal<DU, DE>> {
    let x = vars.v[0].clone();
    let y = vars.v[1].clone();
    proto_vulcan!([true, conde { conde { [true == x, [_, y, x] == x], [[2 | x] != y, y == [1, y]] }, [[[y, 'b', x], [y, _, y]] == 'b', [[y] != x, false, y != [y, x, 2 | x]], true], [conde { [x != [[], x, []], x == ["a", _, false]], [condu { [_ == x, [1, false] == y] }, |t| { x == x, append(y, x, []) }] }, [x, y, 'a' | 2] == y] }, conde { [|h, x| { [2] == x, y == 'b' }, member(y, [2])], [[x, []] != x, y == 3], onceo { conde { append(x, y, [3]), append(x, x, []) } } }])
}
pub fn case_322(vars: &Vars) -> InferredGoal<DU, DE, Goal<DU, DE>> {
    let q = vars.v[0].clone();
    let x = vars.v[1].clone();
    proto_vulcan!([conde { member(x, [3, 1, 2]), [|y| { 2 == x, member(x, []), append(x, q, [2, 1]) }, |t| { _ == t }], [false, conde { [append(q, x, []), [3] == x], x == x, |t| { t != [q, t, 2], t != q, t == [_, 3] } }] }, closure { |t| { [_, q] != t } }])
}
pub fn case_323(vars: &Vars) -> InferredGoal<DU, DE, Goal<DU, DE>> {
    let x = vars.v[0].clone();
    let y = vars.v[1].clone();
    proto_vulcan!([[y == x, y == ["bc", x, 'a']], condu { x == 2, [x, y, x] == y, [] == x }])
}
pub fn case_324(vars: &Vars) -> InferredGoal<DU, DE, Goal<DU, DE>> {
    let x = vars.v[0].clone();
    proto_vulcan!([conde { [condu { [conda { false }, onceo { x == x }], [x == [2, _ | x], x == x], |z| { [2, z] != z, z == [[], x, 3], x == x } }, x == x], [[x, 'b', _] == x, conde { [[[2, x] == x, x == x], |z| { 2 == z, [[2], x] == [[2]] }], [|z| { true }, [x] == x] }] }, [member(x, [3, 1, 2]), x == x, onceo { x == false }], closure { [append(x, x, [1]), onceo { |z, t| { t == [x, [_, z | z], [2, z | z]] } }] }])
}
pub fn case_325(vars: &Vars) -> InferredGoal<DU, DE, Goal<DU, DE>> {
    let q = vars.v[0].clone();
    let x = vars.v[1].clone();
    proto_vulcan!([q == 3, |t| { [[3, [q, 1] | t] == q, ['b', q, x] == 2, [_ == 1, x == [false, t, q], q != 1]], |t| { conda { [x != [1, x, _], [q, _, 3 | q] != [x, 1]], [[q, 1, 1 | t] != x, t == [[] | t]] }, false } }])
}
pub fn case_326(vars: &Vars) -> InferredGoal<DU, DE, Goal<DU, DE>> {
    let x = vars.v[0].clone();
    proto_vulcan!([x == _, [_, 2 | x] == x, ['b', 3] != [x]])
}
pub fn case_327(vars: &Vars) -> InferredGoal<DU, DE, Goal<DU, DE>> {
    let x = vars.v[0].clone();
    let y = vars.v[1].clone();
    proto_vulcan!([|h| { x != y, x != x }, y != x])
}
pub fn case_328(vars: &Vars) -> InferredGoal<DU, DE, Goal<DU, DE>> {
    let x = vars.v[0].clone();
    proto_vulcan!([[x, _] != x, |y| { conde { x == [y], [x == [1 | x]], [1 == y, _ == y] }, y == [x, 3, []] }, x == [x, x, 2 | x], closure { [[x == _], _ != "a"] }])
}
pub fn case_329(vars: &Vars) -> InferredGoal<DU, DE, Goal<DU, DE>> {
    let q = vars.v[0].clone();
    let x = vars.v[1].clone();
    proto_vulcan!([[|y| { [append(q, q, [3, 1]), 2 != [[1, [], 2 | q]]], q != q }], [append(x, q, [2, 1]), onceo { true }], |z, t| { x == _ }])
}
pub fn case_330(vars: &Vars) -> InferredGoal<DU, DE, Goal<DU, DE>> {
    let x = vars.v[0].clone();
    proto_vulcan!([2 == x])
}
pub fn case_331(vars: &Vars) -> InferredGoal<DU, DE, Goal<DU, DE>> {
    let q = vars.v[0].clone();
    let x = vars.v[1].clone();
    proto_vulcan!([conda { [q] == x, [[q, q] == x] }, condu { conde { [conde { [member(q, [3]), 2 == [2, [], x]], 1 == [1, [x, 1], 2], [x == [3], [x, _, x] == q] }, onceo { q != [q] }], q == 3, [q == q, |t, x| { x == q, [2, 3, t] == q, x == x }] } }, [['a', 3, 1] == x, x == 2, conde { 1 == x, [2, [[], q | q], 3] != x, [q == q, |t| { [[x, 3, q], "bc"] != t, false == q, 2 == t }] }]])
}
pub fn case_332(vars: &Vars) -> InferredGoal<DU, DE, Goal<DU, DE>> {
    let q = vars.v[0].clone();
    let x = vars.v[1].clone();
    proto_vulcan!([|h| { |x| { 1 == x, x == 2, _ != h } }])
}
pub fn case_333(vars: &Vars) -> InferredGoal<DU, DE, Goal<DU, DE>> {
    let x = vars.v[0].clone();
    proto_vulcan!([conde { [x == x, conda { [member(x, [1, 3, 1]), [x == [x, _ | 3], ['a', 1, [[]] | x] == [1, false | _], [[], 1, 1 | x] == x]] }], conda { [conde { [append(x, x, [2, 3]), [[]] == x], x != x, [x != [2, 2, [] | x], true] }, [x, _ | x] == x], |t, y| { [[[]], [_, 3, x] | 2] != y, y == [x, 'a', t | t] } } }, conda { [|x, y| { y != x }, |t| { |y| { false, 1 == t }, |y| { y == [y, y], [[y | x], [y], x] == [[y]] }, [3, _, t] != x }] }, |h, z| { onceo { z == [[] | h] } }, closure { x != "a" }])
}
pub fn case_334(vars: &Vars) -> InferredGoal<DU, DE, Goal<DU, DE>> {
    let x = vars.v[0].clone();
    let y = vars.v[1].clone();
    proto_vulcan!([conde { [append(x, x, [2]), false], [x == x, conde { [y != [2], |z| { member(x, []), false, 'a' == 1 }], [x == [x], [1, x, x] == [x]], [|y| { [[x, _, 1]] == x, y == [false, x], append(y, y, []) }, y == [y, [], [y] | y]] }] }])
}
pub fn case_335(vars: &Vars) -> InferredGoal<DU, DE, Goal<DU, DE>> {
    let q = vars.v[0].clone();
    let x = vars.v[1].clone();
    proto_vulcan!([x == x, |h| { conda { [|y| { member(q, [3, 3]), [y, 'a', 2] != y, h == [q, x] }, onceo { [x] == q }] } }, conda { [|y| { x == [1], |x, z| { x == [[x] | q], true } }, [] == [x, 1, [q, 3, true]]], 1 == q, [[false, 1 | q] != q, conde { [q == _, false, [2] == x], [3] != 1 }] }])
}
pub fn case_336(vars: &Vars) -> InferredGoal<DU, DE, Goal<DU, DE>> {
    let x = vars.v[0].clone();
    let y = vars.v[1].clone();
    proto_vulcan!([|h, t| { onceo { h == [[_, _, _], [[], false, 2], [[], 3 | h]] } }, closure { [x == x] }])
}
pub fn case_337(vars: &Vars) -> InferredGoal<DU, DE, Goal<DU, DE>> {
    let q = vars.v[0].clone();
    let x = vars.v[1].clone();
    proto_vulcan!([q == "bc", [3, q, q] == x, closure { x == [q] }])
}
pub fn case_338(vars: &Vars) -> InferredGoal<DU, DE, Goal<DU, DE>> {
    let x = vars.v[0].clone();
    proto_vulcan!([|z| { x == [1, 1 | x] }, closure { |t, z| { conda { [false, [[1], [[]], 1] == z] }, conde { [[1, t, t] != x, x == [_, z]], [1] == z, [x == [z | x], append(x, t, [2, 3])] }, ['a' == 2, x != _] } }])
}
pub fn case_339(vars: &Vars) -> InferredGoal<DU, DE, Goal<DU, DE>> {
    let x = vars.v[0].clone();
    let y = vars.v[1].clone();
    proto_vulcan!([|y| { |h| { conde { [[y | y], [_, y, x] | y] == y, [x, y | y] == 3, [2, x, [y, 2, h]] == [x | y] } }, y == _, [y, [], y | y] != x }, false, x == [[[]]], closure { [onceo { "a" != y }, x == [[2, y], [y, 1, 1] | 2]] }])
}
pub fn case_340(vars: &Vars) -> InferredGoal<DU, DE, Goal<DU, DE>> {
    let q = vars.v[0].clone();
    let x = vars.v[1].clone();
    proto_vulcan!([x == [x, x, 2 | q], closure { [q == x, 2 == [[1, x | x]]] }])
}
pub fn case_341(vars: &Vars) -> InferredGoal<DU, DE, Goal<DU, DE>> {
    let q = vars.v[0].clone();
    let x = vars.v[1].clone();
    proto_vulcan!([[x, x, q] != x])
}
pub fn case_342(vars: &Vars) -> InferredGoal<DU, DE, Goal<DU, DE>> {
    let q = vars.v[0].clone();
    let x = vars.v[1].clone();
    proto_vulcan!([[2, 2] == [x, 1], 'b' == q, [["a"] == q]])
}
pub fn case_343(vars: &Vars) -> InferredGoal<DU, DE, Goal<DU, DE>> {
    let x = vars.v[0].clone();
    let y = vars.v[1].clone();
    proto_vulcan!([x == x, conde { y == [1], [[onceo { x == x }], conde { x == [y, x | y], [y, true | y] == y }], onceo { true } }, y == [[] | y]])
}
pub fn case_344(vars: &Vars) -> InferredGoal<DU, DE, Goal<DU, DE>> {
    let x = vars.v[0].clone();
    let y = vars.v[1].clone();
    proto_vulcan!([x == _, append(y, y, [3]), |h, y| { 2 == y }])
}
pub fn case_345(vars: &Vars) -> InferredGoal<DU, DE, Goal<DU, DE>> {
    let x = vars.v[0].clone();
    proto_vulcan!([true])
}
pub fn case_346(vars: &Vars) -> InferredGoal<DU, DE, Goal<DU, DE>> {
    let x = vars.v[0].clone();
    proto_vulcan!([x != [1]])
}
pub fn case_347(vars: &Vars) -> InferredGoal<DU, DE, Goal<DU, DE>> {
    let x = vars.v[0].clone();
    let y = vars.v[1].clone();
    proto_vulcan!([_ != y, y != ['b', 2, y], closure { [onceo { [y == 2, x != [y, 2 | 3]] }, x == 'b'] }])
}
pub fn case_348(vars: &Vars) -> InferredGoal<DU, DE, Goal<DU, DE>> {
    let q = vars.v[0].clone();
    let x = vars.v[1].clone();
    proto_vulcan!([|x, z| { condu { [false == [[_, x]], q == [_, x | _]] } }, x != [1, q], closure { [onceo { [x, _, 1] == q }] }])
}
pub fn case_349(vars: &Vars) -> InferredGoal<DU, DE, Goal<DU, DE>> {
    let q = vars.v[0].clone();
    let x = vars.v[1].clone();
    proto_vulcan!([1 == x, onceo { x != 3 }, closure { [false, |x| { x == [_ | 1], [2, [_ | q], [q, "bc"]] == 3 }, q == ['a']] }])
}
pub fn case_350(vars: &Vars) -> InferredGoal<DU, DE, Goal<DU, DE>> {
    let x = vars.v[0].clone();
    proto_vulcan!([[x, _, x] == [2 | 2], x == 1, closure { |z| { |y| { [x] == z, member(x, [2]), z == [1, x, _] }, [member(x, [])] } }])
}
pub fn case_351(vars: &Vars) -> InferredGoal<DU, DE, Goal<DU, DE>> {
    let x = vars.v[0].clone();
    proto_vulcan!(["a" == [x, x, []], x == true, [x] == x, closure { [|h, z| { [x == true] }, x == x] }])
}
pub fn case_352(vars: &Vars) -> InferredGoal<DU, DE, Goal<DU, DE>> {
    let q = vars.v[0].clone();
    let x = vars.v[1].clone();
    proto_vulcan!([q != [_], conda { x == [[], q, 3], ['a' == [[2, 1], [q, 2, 3 | x]], [2] == [[], q | 2]], [true, [q, x | q] == x] }])
}
pub fn case_353(vars: &Vars) -> InferredGoal<DU, DE, Goal<DU, DE>> {
    let x = vars.v[0].clone();
    proto_vulcan!([|x| { |h| { [h == [2, x], h != [x, h, h | x], 3 == x] }, conda { [x == [[], 'b', x | 'b'], "a" == [3, x, 2]] }, [x, 2, x] == x }, x == [3], [[x, x, x]] == x])
}
pub fn case_354(vars: &Vars) -> InferredGoal<DU, DE, Goal<DU, DE>> {
    let x = vars.v[0].clone();
    proto_vulcan!([[[true], [3, x | 2], 2] == x, append(x, x, [3, 3])])
}
pub fn case_355(vars: &Vars) -> InferredGoal<DU, DE, Goal<DU, DE>> {
    let x = vars.v[0].clone();
    proto_vulcan!([[[x, 2, []], x] == 1, x != [[[], x], x]])
}
pub fn case_356(vars: &Vars) -> InferredGoal<DU, DE, Goal<DU, DE>> {
    let x = vars.v[0].clone();
    let y = vars.v[1].clone();
    proto_vulcan!([_ != [["a" | x] | y], member(x, [2]), x == 2])
}
pub fn case_357(vars: &Vars) -> InferredGoal<DU, DE, Goal<DU, DE>> {
    let x = vars.v[0].clone();
    proto_vulcan!([conde { [|y| { x == [[], "bc", 2 | x] }, condu { [|x| { x != [x] }, member(x, [1])], x != 2 }], |t, h| { h != [t, [], 2 | 'a'], 1 == x, [1, t | "a"] == [_, _] } }, [[1] | x] == x])
}
pub fn case_358(vars: &Vars) -> InferredGoal<DU, DE, Goal<DU, DE>> {
    let x = vars.v[0].clone();
    let y = vars.v[1].clone();
    proto_vulcan!([y == [2], |y| { [member(x, [2]), [false, [y, [y], [2, 1]] == [[[]], 3, [y | x] | y]]], member(y, [2, 1]) }, [y, 3] != x])
}
pub fn case_359(vars: &Vars) -> InferredGoal<DU, DE, Goal<DU, DE>> {
    let x = vars.v[0].clone();
    proto_vulcan!([[3] != [false, [1 | x] | x], 1 == x])
}
pub fn case_360(vars: &Vars) -> InferredGoal<DU, DE, Goal<DU, DE>> {
    let x = vars.v[0].clone();
    proto_vulcan!([x == [1, x], closure { [|x| { x == [_, x, 1], 2 == 3, |y, h| { [h, 2] == x } }, x == x] }])
}
pub fn case_361(vars: &Vars) -> InferredGoal<DU, DE, Goal<DU, DE>> {
    let x = vars.v[0].clone();
    proto_vulcan!([[1] != x, |t, h| { [[3, h], [], x] == [[t | h], [2 | 2], [h, t, h | _] | t] }])
}
pub fn case_362(vars: &Vars) -> InferredGoal<DU, DE, Goal<DU, DE>> {
    let x = vars.v[0].clone();
    let y = vars.v[1].clone();
    proto_vulcan!([|t| { conde { conde { [1, 'a', 2 | false] != [[y, 1]], t != [3 | t], [member(x, []), append(y, x, [3, 1])] }, t == y }, [3, _, 1 | 3] == t }])
}
pub fn case_363(vars: &Vars) -> InferredGoal<DU, DE, Goal<DU, DE>> {
    let q = vars.v[0].clone();
    let x = vars.v[1].clone();
    proto_vulcan!([|h| { x == [["bc"], [1, 1]], onceo { [[true, 3 | h], [1 | x], 3 | h] == x }, false }, |y| { condu { [[true], [false] != q] }, |z| { conde { [[_, 2, _] == [y], q == [y]], true } }, y == [x] }, conde { onceo { x == _ }, conde { [q != q, [] != q], false }, [[3, 2 | false] != 1, [[true], x == [], [q, _] != q]] }])
}
pub fn case_364(vars: &Vars) -> InferredGoal<DU, DE, Goal<DU, DE>> {
    let q = vars.v[0].clone();
    let x = vars.v[1].clone();
    proto_vulcan!([|t| { |t, z| { t == t }, |h, y| { onceo { t == [t, 1 | h] }, |h| { false, t == [[3 | x] | x] }, conde { member(x, [1, 1, 3]), [q == [[_, "bc", x] | q], [[] | x] == [1, h, 1]], [member(q, [3, 2, 2]), 2 == h] } } }, conde { x == "a", [conda { conde { [[1 | q], [], [x]] != [[_, 2, 'b'], true], [x == [3, x], x != [_]], append(x, q, [1, 2]) } }, |h, x| { 2 == x, q == q }] }, q == [3, false, []]])
}
pub fn case_365(vars: &Vars) -> InferredGoal<DU, DE, Goal<DU, DE>> {
    let q = vars.v[0].clone();
    let x = vars.v[1].clone();
    proto_vulcan!([conde { [2 == q, condu { |t, y| { false, member(y, [3, 1]) }, [conde { [false, q != [1, q | x]], [[[q], [2, x | x], [q, 1]] == [[], 2 | 2], x != x] }, [true, x == [x, "bc", []], [] == q]] }], condu { onceo { [[[], 2, _ | x], [3, 2, q], [2]] != x }, condu { append(x, x, [1, 2]), x == [2, []], [true, x == [2]] }, append(q, q, [3]) } }, closure { member(q, [2, 2, 2]) }])
}
pub fn case_366(vars: &Vars) -> InferredGoal<DU, DE, Goal<DU, DE>> {
    let x = vars.v[0].clone();
    let y = vars.v[1].clone();
    proto_vulcan!([[_] == [3, [1, 1, 1 | y], 1], member(y, [1])])
}
pub fn case_367(vars: &Vars) -> InferredGoal<DU, DE, Goal<DU, DE>> {
    let q = vars.v[0].clone();
    let x = vars.v[1].clone();
    proto_vulcan!([[[] == q, x == [x], q == [[[]]]], onceo { |t, z| { [t] == x } }, closure { q == _ }])
}
pub fn case_368(vars: &Vars) -> InferredGoal<DU, DE, Goal<DU, DE>> {
    let x = vars.v[0].clone();
    proto_vulcan!([2 == x, [] != x, [x, 3, 2] != x, closure { |z, y| { onceo { [] == x } } }])
}
pub fn case_369(vars: &Vars) -> InferredGoal<DU, DE, Goal<DU, DE>> {
    let x = vars.v[0].clone();
    proto_vulcan!([x == 3])
}
pub fn case_370(vars: &Vars) -> InferredGoal<DU, DE, Goal<DU, DE>> {
    let x = vars.v[0].clone();
    proto_vulcan!([false, [x != [x], |h, z| { 2 != h, |h| { [[z, 3, _], 'b' | h] == h, z == [h] } }, x == [x, "a" | 2]], closure { conde { [|y| { [[_ | x], 3] != x }, false], 2 == x, conde { member(x, [3, 1, 2]), x == [1, x], [x == x, x == [_ | 1]] } } }])
}
pub fn case_371(vars: &Vars) -> InferredGoal<DU, DE, Goal<DU, DE>> {
    let q = vars.v[0].clone();
    let x = vars.v[1].clone();
    proto_vulcan!([[1 == x, conde { [x == x, [2, 1, q] == x], onceo { false } }, q != x], closure { [[[x, x, q | q], ['b', q], [x, q]] == [1 | x], append(q, x, [])] }])
}
pub fn case_372(vars: &Vars) -> InferredGoal<DU, DE, Goal<DU, DE>> {
    let x = vars.v[0].clone();
    let y = vars.v[1].clone();
    proto_vulcan!([[|z, y| { [1] != z }], closure { [x == [_, y], y != [[]]] }])
}
pub fn case_373(vars: &Vars) -> InferredGoal<DU, DE, Goal<DU, DE>> {
    let x = vars.v[0].clone();
    let y = vars.v[1].clone();
    proto_vulcan!([[x] == y, [["a", 2, [] | y], [2, [], x], [y, [], 2]] != x, x == x])
}
pub fn case_374(vars: &Vars) -> InferredGoal<DU, DE, Goal<DU, DE>> {
    let q = vars.v[0].clone();
    let x = vars.v[1].clone();
    proto_vulcan!([conda { append(x, x, [2]), [[2 | x] == q, |z, y| { |h| { false }, z == [[], z], |y| { y == 3, [[3, 1, _ | z] | q] == q } }], conde { |h, x| { append(q, h, [1, 2]) }, x == x, [x != [x, 2], [x == [[] | x], member(q, [1, 3, 1])]] } }, |y| { q == [true, q, y | 1], [1, 1, "bc"] == [x | y] }, q != [[], 2, []], closure { [onceo { member(q, [2]) }, 2 == q] }])
}
pub fn case_375(vars: &Vars) -> InferredGoal<DU, DE, Goal<DU, DE>> {
    let q = vars.v[0].clone();
    let x = vars.v[1].clone();
    proto_vulcan!([true, |h, x| { [[[1]] == h, [q, 1] == x, [x == x, q != x]], |x| { [1, _] == x, [[_] | 2] == _, conde { x == [], [x == 3, h == q], [x != [1, x | h], [_, 2, _ | 1] == h] } } }, 1 == x, closure { [x == q, conde { [[true, append(q, x, [2, 1])], |y, t| { y == _ }], [conde { [[1, 3, 3] != q, q != [[2], [_, _], x]], [] == [[[]], x | q], q != [1] }, [[1, x, _] != q]] }] }])
}
pub fn case_376(vars: &Vars) -> InferredGoal<DU, DE, Goal<DU, DE>> {
    let x = vars.v[0].clone();
    let y = vars.v[1].clone();
    proto_vulcan!([y == [1 | y]])
}
pub fn case_377(vars: &Vars) -> InferredGoal<DU, DE, Goal<DU, DE>> {
    let x = vars.v[0].clone();
    proto_vulcan!([[conde { [[x] == x, ["bc"] != x], [x == x, [3, [2, 'b'], [x, x]] == x], x == [1, [[]] | _] }, x != [[]], conde { [true, |t| { [["bc"], [x], [2, 3, 1]] == x, [1 | t] == x }], [1, x, x] == x, |x| { member(x, [1, 2]), x == x, [2, x] == x } }], [[1, 'b']] == [2], closure { onceo { conde { [append(x, x, [3]), [x, [x, 2, x]] != x], [[]] == x, [[[], 1, x] != [x, x, [2, x, x | x]], [x, x | x] == x] } } }])
}
pub fn case_378(vars: &Vars) -> InferredGoal<DU, DE, Goal<DU, DE>> {
    let q = vars.v[0].clone();
    let x = vars.v[1].clone();
    proto_vulcan!([x == x, conde { conde { |t| { [[x | q] | t] != [q], x != 2 }, q == 3, q == 1 }, [q != x, x == "bc"] }, 'b' == 1, closure { [[[]] == q, [[member(x, [1, 1]), q != [[], _, q], append(q, q, [1, 2])], |x, z| { [[x], x, x] == 1 }]] }])
}
pub fn case_379(vars: &Vars) -> InferredGoal<DU, DE, Goal<DU, DE>> {
    let x = vars.v[0].clone();
    let y = vars.v[1].clone();
    proto_vulcan!([onceo { append(x, y, [3, 3]) }, [conde { [3, [3, x, 3 | x], [[], _ | 1]] == y, |x, t| { x == y, 3 == x, y == [1, y, x] } }]])
}
pub fn case_380(vars: &Vars) -> InferredGoal<DU, DE, Goal<DU, DE>> {
    let x = vars.v[0].clone();
    proto_vulcan!([|h, y| { [[_, h]] == x, x == [[], _, _] }, [_] == [1 | x]])
}
pub fn case_381(vars: &Vars) -> InferredGoal<DU, DE, Goal<DU, DE>> {
    let x = vars.v[0].clone();
    proto_vulcan!([x == x, x != [x, [2, []], x]])
}
pub fn case_382(vars: &Vars) -> InferredGoal<DU, DE, Goal<DU, DE>> {
    let x = vars.v[0].clone();
    let y = vars.v[1].clone();
    proto_vulcan!([append(y, x, [2, 3]), y != [[], y, [_, 2 | x]], conde { [y == 3, [x, _, 2] != x], [2, []] == [], [[1, false | y] != y, conde { member(y, [1]), [[false, y == [[y, 2, y], [1, 2, x] | 'b']], |y| { true, y == [y | y] }], [x == [3, 1 | y], member(y, [])] }] }])
}
pub fn case_383(vars: &Vars) -> InferredGoal<DU, DE, Goal<DU, DE>> {
    let x = vars.v[0].clone();
    let y = vars.v[1].clone();
    proto_vulcan!([false, |t, z| { t != 1, true }, |h, z| { condu { [2, false] == h } }])
}
pub fn case_384(vars: &Vars) -> InferredGoal<DU, DE, Goal<DU, DE>> {
    let x = vars.v[0].clone();
    proto_vulcan!([x == [[x, _], [1, _]]])
}
pub fn case_385(vars: &Vars) -> InferredGoal<DU, DE, Goal<DU, DE>> {
    let x = vars.v[0].clone();
    proto_vulcan!([conda { [[[] | x] != x, |z, t| { |z, y| { [1] == [t | 2], [3, _, [x | z]] == 3, true } }], x != [x] }])
}
pub fn case_386(vars: &Vars) -> InferredGoal<DU, DE, Goal<DU, DE>> {
    let q = vars.v[0].clone();
    let x = vars.v[1].clone();
    proto_vulcan!([[x, 2, x | q] == q, [_, [_, 2, _ | q] | q] != x, |y| { conde { [_, x] == x, [x == ["a"], false, member(y, [3, 1, 3])] } }])
}
pub fn case_387(vars: &Vars) -> InferredGoal<DU, DE, Goal<DU, DE>> {
    let x = vars.v[0].clone();
    proto_vulcan!([member(x, [3, 1]), x == [x, _, _], x == []])
}
pub fn case_388(vars: &Vars) -> InferredGoal<DU, DE, Goal<DU, DE>> {
    let q = vars.v[0].clone();
    let x = vars.v[1].clone();
    proto_vulcan!([[] == q, q == [q, x], q == x])
}
pub fn case_389(vars: &Vars) -> InferredGoal<DU, DE, Goal<DU, DE>> {
    let q = vars.v[0].clone();
    let x = vars.v[1].clone();
    proto_vulcan!([["a"] != 1, |y| { ["a"] == x }, |y, z| { 'b' != z }, closure { [x != [q, _, []], [1, x, 1 | x] != x] }])
}
pub fn case_390(vars: &Vars) -> InferredGoal<DU, DE, Goal<DU, DE>> {
    let q = vars.v[0].clone();
    let x = vars.v[1].clone();
    proto_vulcan!([q != 1, x != ["bc", x | q], condu { [member(x, [2, 1, 2]), condu { onceo { q == [2, x | x] } }] }])
}
pub fn case_391(vars: &Vars) -> InferredGoal<DU, DE, Goal<DU, DE>> {
    let x = vars.v[0].clone();
    proto_vulcan!([x == [x, _ | x], [x, x, 1] == x, x == x])
}
pub fn case_392(vars: &Vars) -> InferredGoal<DU, DE, Goal<DU, DE>> {
    let x = vars.v[0].clone();
    proto_vulcan!([|y| { x == y }, x == x, |t, y| { |z| { append(x, t, []) }, condu { [x == 2, [t == [2, t | 1]]], x == 1 }, conda { [[t != x, x == 1], conde { [[[x, false, x | y], [2, 2, 'a' | y], [y | y]] == [], x != 2], [[x, _, x] == 1, y == ['a', t, x]] }], |y, z| { [[], _, z] != y, y == y, true } } }])
}
pub fn case_393(vars: &Vars) -> InferredGoal<DU, DE, Goal<DU, DE>> {
    let q = vars.v[0].clone();
    let x = vars.v[1].clone();
    proto_vulcan!([false, closure { [[_], [q, x, x | 'a'], q] == q }])
}
pub fn case_394(vars: &Vars) -> InferredGoal<DU, DE, Goal<DU, DE>> {
    let q = vars.v[0].clone();
    let x = vars.v[1].clone();
    proto_vulcan!([append(x, x, [2]), closure { |h| { append(x, x, [1, 2]), q == 1 } }])
}
pub fn case_395(vars: &Vars) -> InferredGoal<DU, DE, Goal<DU, DE>> {
    let x = vars.v[0].clone();
    let y = vars.v[1].clone();
    proto_vulcan!([[y, y | y] == y])
}
pub fn case_396(vars: &Vars) -> InferredGoal<DU, DE, Goal<DU, DE>> {
    let q = vars.v[0].clone();
    let x = vars.v[1].clone();
    proto_vulcan!([conde { [q == 2, [q, []] == x], [[2, [], q] == x, conde { condu { true }, [conde { append(q, x, []), q == [[[], x, q], [2], [_, 1, x]], append(q, x, [1]) }, conde { [x == [1], q == x], [[1] == q, q != x], [true, x != [[x, q | _], [1], [x, _]]] }] }], [q == q, onceo { |h, x| { x != [true | q], true } }] }, conde { [x == _, conde { x == [q | x], [x, [] | q] != x }], [onceo { q == [2] }, |t, x| { append(t, q, []), member(x, [3, 2]), [q] == t }] }])
}
pub fn case_397(vars: &Vars) -> InferredGoal<DU, DE, Goal<DU, DE>> {
    let x = vars.v[0].clone();
    proto_vulcan!([x == [[], []], [x] == x])
}
pub fn case_398(vars: &Vars) -> InferredGoal<DU, DE, Goal<DU, DE>> {
    let x = vars.v[0].clone();
    let y = vars.v[1].clone();
    proto_vulcan!([3 == x, y == [y], x == [x]])
}
pub fn case_399(vars: &Vars) -> InferredGoal<DU, DE, Goal<DU, DE>> {
    let q = vars.v[0].clone();
    let x = vars.v[1].clone();
    proto_vulcan!([[[], x, []] == q, |x| { [[q, 1, 2] == q, [x, [], _ | q] == q], |y| { |t| { member(x, [1]) }, y == [q, 'b'], q == [] }, [[2, x, x] == x, [2, _] != x] }, x == x, closure { [_, q, "a" | x] == q }])
}
pub fn case_400(vars: &Vars) -> InferredGoal<DU, DE, Goal<DU, DE>> {
    let x = vars.v[0].clone();
    let y = vars.v[1].clone();
    proto_vulcan!([[y, false, y] != y, [2, 2, _] == y])
}
pub fn case_401(vars: &Vars) -> InferredGoal<DU, DE, Goal<DU, DE>> {
    let x = vars.v[0].clone();
    proto_vulcan!([x == x])
}
pub fn case_402(vars: &Vars) -> InferredGoal<DU, DE, Goal<DU, DE>> {
    let q = vars.v[0].clone();
    let x = vars.v[1].clone();
    proto_vulcan!([[2, q] == x, condu { true == q }, [[]] == q])
}
pub fn case_403(vars: &Vars) -> InferredGoal<DU, DE, Goal<DU, DE>> {
    let x = vars.v[0].clone();
    proto_vulcan!([[_, x, false | x] == x, conda { [x | x] != x }, 2 != [x | x]])
}
pub fn case_404(vars: &Vars) -> InferredGoal<DU, DE, Goal<DU, DE>> {
    let x = vars.v[0].clone();
    proto_vulcan!([['a', x] == x, [x, 3] == 2, [[x] != 1]])
}
pub fn case_405(vars: &Vars) -> InferredGoal<DU, DE, Goal<DU, DE>> {
    let x = vars.v[0].clone();
    let y = vars.v[1].clone();
    proto_vulcan!([1 == [3 | x], conde { [conde { false, x == [[], 1], y == [_] }], [member(x, [1, 2]), ['b'] != y], |h| { y == [1, h], |y, t| { member(x, [2, 1, 2]), _ == h } } }])
}
pub fn case_406(vars: &Vars) -> InferredGoal<DU, DE, Goal<DU, DE>> {
    let x = vars.v[0].clone();
    proto_vulcan!([conde { [1 == [x | x], [2, x] == x], |x, y| { x != [[], _] }, [x == [x, x, x], [[x] == x, false]] }, true, conde { [|t| { onceo { t != [x] }, |x| { false } }, [] != x], [x == [x, 2], x == [[], 2, x]], [|x| { [x] == x, 3 == [] }, [x == [[[]]], x == [_, [x, x | x], [x]], [_ != x]]] }, closure { [x != [[1, "bc", _], [1], [] | x], ["bc", x | x] != x] }])
}
pub fn case_407(vars: &Vars) -> InferredGoal<DU, DE, Goal<DU, DE>> {
    let q = vars.v[0].clone();
    let x = vars.v[1].clone();
    proto_vulcan!([conde { q != 2, [x == q, |h, x| { 1 == x, |y| { false }, 2 == x }] }, false, append(q, q, [2, 2])])
}
pub fn case_408(vars: &Vars) -> InferredGoal<DU, DE, Goal<DU, DE>> {
    let x = vars.v[0].clone();
    let y = vars.v[1].clone();
    proto_vulcan!([[[false, 1 | y], [y, 2, y | y], 2] == x, closure { y == [[[]]] }])
}
pub fn case_409(vars: &Vars) -> InferredGoal<DU, DE, Goal<DU, DE>> {
    let x = vars.v[0].clone();
    proto_vulcan!([x == 3, x != x, append(x, x, [1]), closure { x == 2 }])
}
pub fn case_410(vars: &Vars) -> InferredGoal<DU, DE, Goal<DU, DE>> {
    let q = vars.v[0].clone();
    let x = vars.v[1].clone();
    proto_vulcan!([[[[q, _] == q, q == [2, _, q], [false, 1, ['a', 1 | q]] != ["a", 2]]], [[1], q, [q, 1, 2 | 3]] != q])
}
pub fn case_411(vars: &Vars) -> InferredGoal<DU, DE, Goal<DU, DE>> {
    let q = vars.v[0].clone();
    let x = vars.v[1].clone();
    proto_vulcan!([member(q, [])])
}
pub fn case_412(vars: &Vars) -> InferredGoal<DU, DE, Goal<DU, DE>> {
    let x = vars.v[0].clone();
    proto_vulcan!([x == [x, x | "bc"], onceo { x == [2, [3, 1 | x] | x] }, condu { [[1, _ | x] == x, [] == [x]], [condu { [[1], x, 3 | x] != [[] | x] }, true] }, closure { onceo { false } }])
}
pub fn case_413(vars: &Vars) -> InferredGoal<DU, DE, Goal<DU, DE>> {
    let x = vars.v[0].clone();
    let y = vars.v[1].clone();
    proto_vulcan!([conde { conde { [x == [[]], |t, x| { false, false, [t] == x }], true, [condu { false }, [x | x] == x] }, [onceo { y == 1 }, |x, t| { conde { [x != [t], [[3, 2, []], [[]], ['b']] == [[]]], [[[3, 1, y | x], [t | 2], 1] != t, member(x, [])], [y == [false, 2], 1 != x] } }], x == x }, [3, 1, x | y] == 1, closure { [[|z, t| { [_, t] == x }], 2 == x] }])
}
pub fn case_414(vars: &Vars) -> InferredGoal<DU, DE, Goal<DU, DE>> {
    let x = vars.v[0].clone();
    proto_vulcan!([conde { conda { [conde { [[x, 3] != x, x == [x, 2, x]], x == [[], 2], x == x }, [x == ["a", [1, []]], [x] != x]], x == x }, conde { [x == [[[], 2], [x]], ["bc", [], 1] == [x, [x, 2 | x], _]], x == [x] } }])
}
pub fn case_415(vars: &Vars) -> InferredGoal<DU, DE, Goal<DU, DE>> {
    let x = vars.v[0].clone();
    let y = vars.v[1].clone();
    proto_vulcan!([false, [x | x] != y, closure { [|x, h| { [h == 3] }, [] == y] }])
}
pub fn case_416(vars: &Vars) -> InferredGoal<DU, DE, Goal<DU, DE>> {
    let x = vars.v[0].clone();
    proto_vulcan!([[["a", [], true | x], [x, []], _ | 'b'] == [[x, 1, 2], [true, 2, x], [2, "a"]], [1] == x])
}
pub fn case_417(vars: &Vars) -> InferredGoal<DU, DE, Goal<DU, DE>> {
    let q = vars.v[0].clone();
    let x = vars.v[1].clone();
    proto_vulcan!([x == ['a'], q == [2, true, 3], [1 | x] == q])
}
pub fn case_418(vars: &Vars) -> InferredGoal<DU, DE, Goal<DU, DE>> {
    let x = vars.v[0].clone();
    let y = vars.v[1].clone();
    proto_vulcan!([|h, x| { _ == x }, closure { [onceo { conde { [_ == [[1, y], [true | y], [1, y, y] | 1], [3, [y, 2 | y], [y]] != [[2, y | x], true, 3]], [x == [1, 1, y], y != y] } }, |t| { t == 2, onceo { true }, onceo { [x, 2, x] == y } }] }])
}
pub fn case_419(vars: &Vars) -> InferredGoal<DU, DE, Goal<DU, DE>> {
    let x = vars.v[0].clone();
    proto_vulcan!([false == x, [[_, 3 | x], 2, [[] | x]] == x])
}
pub fn case_420(vars: &Vars) -> InferredGoal<DU, DE, Goal<DU, DE>> {
    let x = vars.v[0].clone();
    let y = vars.v[1].clone();
    proto_vulcan!([y == [y], y == 3, [1] == y, closure { [[1, 2, [] | x] == [[1, []], [y]]] }])
}
pub fn case_421(vars: &Vars) -> InferredGoal<DU, DE, Goal<DU, DE>> {
    let x = vars.v[0].clone();
    let y = vars.v[1].clone();
    proto_vulcan!([conde { _ == x, [] == x, |z| { [[_, x, []]] != [['a' | 2], 1], z != z, [[2, z, 2]] != [_ | x] } }, closure { [x != 1, x != x] }])
}
pub fn case_422(vars: &Vars) -> InferredGoal<DU, DE, Goal<DU, DE>> {
    let x = vars.v[0].clone();
    proto_vulcan!([|y| { [] == x, [conde { y == [x | x], [member(x, [1]), 2 == x] }] }, |h| { member(x, [2, 1]), |y| { [append(x, h, [3]), false] } }])
}
pub fn case_423(vars: &Vars) -> InferredGoal<DU, DE, Goal<DU, DE>> {
    let x = vars.v[0].clone();
    proto_vulcan!([[x == [[] | x], |x, h| { conda { [append(x, h, [3]), x == ["a", h, h | x]], [h == [x, h], x != []] }, condu { x == true, x != [x, [x, x, false], [1 | x] | h], x != [1, [], 2 | x] }, x == x }]])
}
pub fn case_424(vars: &Vars) -> InferredGoal<DU, DE, Goal<DU, DE>> {
    let x = vars.v[0].clone();
    let y = vars.v[1].clone();
    proto_vulcan!([true, y == 1, x != ["a", y, y | y]])
}
pub fn case_425(vars: &Vars) -> InferredGoal<DU, DE, Goal<DU, DE>> {
    let q = vars.v[0].clone();
    let x = vars.v[1].clone();
    proto_vulcan!([conde { [[[]] | x] == q, |t, h| { |y| { h != [_ | x], q == 2 }, x == true } }, x == [[], x], x == [x, 3]])
}
pub fn case_426(vars: &Vars) -> InferredGoal<DU, DE, Goal<DU, DE>> {
    let q = vars.v[0].clone();
    let x = vars.v[1].clone();
    proto_vulcan!([conde { conda { [|y, z| { [] == q }, [1] == q] }, [[q, 2] == q, conda { [2, [], []] != x, [x == _], [q != [[], x | x], [] == x] }] }, [1, 3, [x, _, q]] == x])
}
pub fn case_427(vars: &Vars) -> InferredGoal<DU, DE, Goal<DU, DE>> {
    let x = vars.v[0].clone();
    let y = vars.v[1].clone();
    proto_vulcan!([|z| { z != z, [2, y, 2] != z, 'a' == y }, [[_ | y] | x] != y, x == y])
}
pub fn case_428(vars: &Vars) -> InferredGoal<DU, DE, Goal<DU, DE>> {
    let q = vars.v[0].clone();
    let x = vars.v[1].clone();
    proto_vulcan!([|x| { |z| { false, x == [[], [], x], conda { x == [z, [1, q, "bc" | z]], append(q, x, [3, 2]), [[z, 2] == x, x != "bc"] } }, |h, z| { |h, y| { z == [[], 2, "bc"] }, [z, true, 2 | z] == h }, conde { conde { [append(q, q, [2]), [[], 2] == x], [[[x, q] | q] == [x, []], 'b' == q] }, conde { [x == [[], _], [[], "bc", true | q] == [x, [x], [q, 1, 3] | x]], q == [[3, _, []]], [_ == q, [true | x] == x] }, |z| { q != [[q, [], [] | x]] } } }, [true, [2, [], _]] == [x], q == [1, "a"]])
}
pub fn case_429(vars: &Vars) -> InferredGoal<DU, DE, Goal<DU, DE>> {
    let x = vars.v[0].clone();
    let y = vars.v[1].clone();
    proto_vulcan!([conda { [[] == y, x == x], conda { y != [[2, []]], y == [3] } }, [false, condu { [true, x == x], [x == [[false, y], [[], y, 1], [x, x, y | x]], [append(x, x, [2]), true]] }], closure { [x == x, condu { _ == x, conda { [[y, "a"], [y, 2], [[], y, _ | y]] == 1, append(y, y, [3, 2]), y != 1 }, [[false, y == [3, [2], 1], _ == x], false] }] }])
}
pub fn case_430(vars: &Vars) -> InferredGoal<DU, DE, Goal<DU, DE>> {
    let x = vars.v[0].clone();
    let y = vars.v[1].clone();
    proto_vulcan!([matche [3, "a" | y] { [[z], [y, 3, 1 | _], 1 | _] | h => [match x { 1 => { match x { ["a", 3, [t, x]] => , [[1, h, t | y], [[], _], [z]] => , [h, 2] | [[1 | x], [1 | _], [t, 1, h | 3] | h] => { [["a", [], h], [2 | 3]] == h, [3, h, 3] != h }, }, matche x { [] => { true }, } }, [[2 | x], ["bc", h | _]] => , }, conde { match x { [[2, t], _, [h, 2, x] | z] => { 3 != z }, y => , }, [x == [x | x], [false, _, [x]] == x, x != [x, x, 2]] }], [[], _] | [2] => [[[x, 2 | y], [true, false, x]] != true, [member(y, [])], y == _], [[2, x, []], t, h | _] | [[x | 1], z, [2, true] | t] => { y == [x] }, }, member(y, []), x != x])
}
pub fn case_431(vars: &Vars) -> InferredGoal<DU, DE, Goal<DU, DE>> {
    let x = vars.v[0].clone();
    let y = vars.v[1].clone();
    proto_vulcan!([matche [3, "a" | y] { [[z], [y, 3, 1 | _], 1 | _] | h => [match x { 1 => { match x { ["a", 3, [t, x]] => , [[1, h, t | y], [[], _], [z]] => , [h, 2] | [[1 | x], [1 | _], [t, 1, h | 3] | h] => { [["a", [], h], [2 | 3]] == h, [3, h, 3] != h }, }, matche x { [] => { true }, } }, [[2 | x], ["bc", h | _]] => , }, conde { match x { [[2, t], _, [fresh_name_9, 2, x] | z] => { 3 != z }, y => , }, [x == [x | x], [false, _, [x]] == x, x != [x, x, 2]] }], [[], _] | [2] => [[[x, 2 | y], [true, false, x]] != true, [member(y, [])], y == _], [[2, x, []], t, h | _] | [[x | 1], z, [2, true] | t] => { y == [x] }, }, member(y, []), x != x])
}
pub fn case_432(vars: &Vars) -> InferredGoal<DU, DE, Goal<DU, DE>> {
    let x = vars.v[0].clone();
    proto_vulcan!([match x { [[2, true, 1 | 2]] => { matche x { [] => , [[h, 1, "bc"]] => h == [_ | x], [[t, x, y], t, [h, _, x] | h] => matche x { x | [] => { ["a"] == y }, }, }, ['a' == x, |h, t| { h != [[3 | h], [1, true], [3 | t]], x == x, false }, [x == x, x == [['b'], [3] | x], [[x, x, _]] == _]] }, [[_, _], 1, h] => [[h, 1] == x, match h { 1 | [1 | t] => [1] != h, [[2, y, []], [], h] => [matche y { z => , [[[], 2, x | _], 1] | h => [[2, []] == y, y != true], [y | z] => , }, [2, 2, h] != x], }], }, conde { [[1 == x, |x, z| { x == [3] }], x == x], [2 != [[3, 1, []], [x, 3 | x] | x], matche x { [[2], [[], z], 1] | [[[]], [[], y, 3 | t], _ | _] => , _ => , }] }])
}
pub fn case_433(vars: &Vars) -> InferredGoal<DU, DE, Goal<DU, DE>> {
    let x = vars.v[0].clone();
    proto_vulcan!([match x { [[2, true, 1 | 2]] => { matche x { [] => , [[h, 1, "bc"]] => h == [_ | x], [[t, x, fresh_name_9], t, [h, _, x] | h] => matche x { x | [] => { ["a"] == fresh_name_9 }, }, }, ['a' == x, |h, t| { h != [[3 | h], [1, true], [3 | t]], x == x, false }, [x == x, x == [['b'], [3] | x], [[x, x, _]] == _]] }, [[_, _], 1, h] => [[h, 1] == x, match h { 1 | [1 | t] => [1] != h, [[2, y, []], [], h] => [matche y { z => , [[[], 2, x | _], 1] | h => [[2, []] == y, y != true], [y | z] => , }, [2, 2, h] != x], }], }, conde { [[1 == x, |x, z| { x == [3] }], x == x], [2 != [[3, 1, []], [x, 3 | x] | x], matche x { [[2], [[], z], 1] | [[[]], [[], y, 3 | t], _ | _] => , _ => , }] }])
}
pub fn case_434(vars: &Vars) -> InferredGoal<DU, DE, Goal<DU, DE>> {
    let q = vars.v[0].clone();
    let x = vars.v[1].clone();
    proto_vulcan!([[1, 2, false | q] != x, q == 1, match q { [[x | y] | 2] | [true] => { [1, 3 | 1] == q }, [[_ | _]] => [[matche x { [[x, 1 | y], [t, [], x], y | t] => [x == [[] | y], [t] != q], _ | [[z] | _] => , }], [x] == [[1, x | q], [x, q, "a"] | _]], }])
}
pub fn case_435(vars: &Vars) -> InferredGoal<DU, DE, Goal<DU, DE>> {
    let q = vars.v[0].clone();
    let x = vars.v[1].clone();
    proto_vulcan!([[1, 2, false | q] != x, q == 1, match q { [[x | y] | 2] | [true] => { [1, 3 | 1] == q }, [[_ | _]] => [[matche x { [[x, 1 | fresh_name_9], [t, [], x], fresh_name_9 | t] => [x == [[] | fresh_name_9], [t] != q], _ | [[z] | _] => , }], [x] == [[1, x | q], [x, q, "a"] | _]], }])
}
pub fn case_436(vars: &Vars) -> InferredGoal<DU, DE, Goal<DU, DE>> {
    let x = vars.v[0].clone();
    proto_vulcan!([|h| { x == h, [_ | x] != x }, |z| { z != [[_, x, x], [[] | z] | x] }, closure { conde { [x == [[]], 2 == x], [conde { [[[2, 2, [] | x] | x] == x, true], x != _ }, [x, 2, 2 | 'b'] == x], ['b', _, 2] == x } }])
}
pub fn case_437(vars: &Vars) -> InferredGoal<DU, DE, Goal<DU, DE>> {
    let x = vars.v[0].clone();
    proto_vulcan!([|fresh_name_9| { x == fresh_name_9, [_ | x] != x }, |z| { z != [[_, x, x], [[] | z] | x] }, closure { conde { [x == [[]], 2 == x], [conde { [[[2, 2, [] | x] | x] == x, true], x != _ }, [x, 2, 2 | 'b'] == x], ['b', _, 2] == x } }])
}
pub fn case_438(vars: &Vars) -> InferredGoal<DU, DE, Goal<DU, DE>> {
    let x = vars.v[0].clone();
    let y = vars.v[1].clone();
    proto_vulcan!([match x { t => { match y { ["bc", 2] => , y => , } }, }, |t| { [append(x, y, [3]), conde { ["bc", 2, 2] == 'b', _ != y }, conde { y == [y, _, y | t], y == [[], 1, 1], [t != t, y != [[], x | y]] }], matche t { y => false, [["bc"], [1, "bc", t]] => , } }, closure { x == 1 }])
}
pub fn case_439(vars: &Vars) -> InferredGoal<DU, DE, Goal<DU, DE>> {
    let x = vars.v[0].clone();
    let y = vars.v[1].clone();
    proto_vulcan!([match x { t => { match y { ["bc", 2] => , fresh_name_9 => , } }, }, |t| { [append(x, y, [3]), conde { ["bc", 2, 2] == 'b', _ != y }, conde { y == [y, _, y | t], y == [[], 1, 1], [t != t, y != [[], x | y]] }], matche t { y => false, [["bc"], [1, "bc", t]] => , } }, closure { x == 1 }])
}
pub fn case_440(vars: &Vars) -> InferredGoal<DU, DE, Goal<DU, DE>> {
    let q = vars.v[0].clone();
    let x = vars.v[1].clone();
    proto_vulcan!([match x { [3, [3], z | _] => { match z { [[1], t] => { [q != [q]], |t, h| { member(t, [1]), member(q, [2, 1, 3]) } }, [[y]] => , [2] | 2 => z != 2, }, |z| { z == [2, q, q] } }, }, closure { [matche x { t => , [[y], t] => |t, y| { y == x }, }, |x| { [3] == q, [x == [[], [2, 2 | x], [2, []] | x], [] == q, q == [1, []]] }] }])
}
pub fn case_441(vars: &Vars) -> InferredGoal<DU, DE, Goal<DU, DE>> {
    let q = vars.v[0].clone();
    let x = vars.v[1].clone();
    proto_vulcan!([match x { [3, [3], z | _] => { match z { [[1], t] => { [q != [q]], |t, h| { member(t, [1]), member(q, [2, 1, 3]) } }, [[y]] => , [2] | 2 => z != 2, }, |z| { z == [2, q, q] } }, }, closure { [matche x { t => , [[y], t] => |t, fresh_name_9| { fresh_name_9 == x }, }, |x| { [3] == q, [x == [[], [2, 2 | x], [2, []] | x], [] == q, q == [1, []]] }] }])
}
pub fn case_442(vars: &Vars) -> InferredGoal<DU, DE, Goal<DU, DE>> {
    let q = vars.v[0].clone();
    let x = vars.v[1].clone();
    proto_vulcan!([conde { [[[]] != q, matche q { x => [_ != x, true], [[_, h, h], 3, [h, y | z]] => append(h, z, [2, 1]), z => , }, true], |h| { false, q != [1, 1, [false, 3, []] | q], [h, 1 | h] == h } }, x == [[], 2 | q], closure { conde { [[2] == [[2, [] | q], [x, _, 3]], match q { _ => , }], [[3] != [[q, []], [1 | x]], q == [1]] } }])
}
pub fn case_443(vars: &Vars) -> InferredGoal<DU, DE, Goal<DU, DE>> {
    let q = vars.v[0].clone();
    let x = vars.v[1].clone();
    proto_vulcan!([conde { [[[]] != q, matche q { fresh_name_9 => [_ != fresh_name_9, true], [[_, h, h], 3, [h, y | z]] => append(h, z, [2, 1]), z => , }, true], |h| { false, q != [1, 1, [false, 3, []] | q], [h, 1 | h] == h } }, x == [[], 2 | q], closure { conde { [[2] == [[2, [] | q], [x, _, 3]], match q { _ => , }], [[3] != [[q, []], [1 | x]], q == [1]] } }])
}
pub fn case_444(vars: &Vars) -> InferredGoal<DU, DE, Goal<DU, DE>> {
    let x = vars.v[0].clone();
    let y = vars.v[1].clone();
    proto_vulcan!([[append(x, y, [1]), y == 2], match y { [] => [2 != [x, 1, []], match y { "bc" => { y != y }, [t | y] => { [[], x] != y, append(y, y, [2]) }, }], }, |h| { x == [y] }])
}
pub fn case_445(vars: &Vars) -> InferredGoal<DU, DE, Goal<DU, DE>> {
    let x = vars.v[0].clone();
    let y = vars.v[1].clone();
    proto_vulcan!([[append(x, y, [1]), y == 2], match y { [] => [2 != [x, 1, []], match y { "bc" => { y != y }, [t | y] => { [[], x] != y, append(y, y, [2]) }, }], }, |fresh_name_9| { x == [y] }])
}
pub fn case_446(vars: &Vars) -> InferredGoal<DU, DE, Goal<DU, DE>> {
    let q = vars.v[0].clone();
    let x = vars.v[1].clone();
    proto_vulcan!([matche q { t => , h | [y, [1 | _]] => [q == "bc", |y| { x != q, conde { [y == [], true], [[] | x] == [2, 1], [false == q, [_, ['a', q, [] | y] | x] == x] }, matche [q] { [[1, []] | z] => , } }], }, x == ["a" | 1]])
}
pub fn case_447(vars: &Vars) -> InferredGoal<DU, DE, Goal<DU, DE>> {
    let q = vars.v[0].clone();
    let x = vars.v[1].clone();
    proto_vulcan!([matche q { t => , h | [y, [1 | _]] => [q == "bc", |fresh_name_9| { x != q, conde { [fresh_name_9 == [], true], [[] | x] == [2, 1], [false == q, [_, ['a', q, [] | fresh_name_9] | x] == x] }, matche [q] { [[1, []] | z] => , } }], }, x == ["a" | 1]])
}
pub fn case_448(vars: &Vars) -> InferredGoal<DU, DE, Goal<DU, DE>> {
    let x = vars.v[0].clone();
    proto_vulcan!([match [[], 2] { [[false, z, 1], t] => { [1 != z, |x| { x != [[true, t, 2], [_], ["bc" | 3]] }, matche z { z => { x != [[z, 2, t]], x != _ }, [['b', 2 | z], [2, _], ['b' | h]] => [[2, h, t | t] != z, t == [z, _, t]], [x, [false], y] => x == [3, y], }], x == [3] }, [z] | [[1, x], y, [[] | _] | x] => , }])
}
pub fn case_449(vars: &Vars) -> InferredGoal<DU, DE, Goal<DU, DE>> {
    let x = vars.v[0].clone();
    proto_vulcan!([match [[], 2] { [[false, z, 1], t] => { [1 != z, |x| { x != [[true, t, 2], [_], ["bc" | 3]] }, matche z { z => { x != [[z, 2, t]], x != _ }, [['b', 2 | z], [2, _], ['b' | fresh_name_9]] => [[2, fresh_name_9, t | t] != z, t == [z, _, t]], [x, [false], y] => x == [3, y], }], x == [3] }, [z] | [[1, x], y, [[] | _] | x] => , }])
}
pub fn case_450(vars: &Vars) -> InferredGoal<DU, DE, Goal<DU, DE>> {
    let q = vars.v[0].clone();
    let x = vars.v[1].clone();
    proto_vulcan!([member(x, [2, 1, 2]), |t, z| { |t| { x == [2, z, false], match [true, 'b' | t] { [[[]] | _] => , [[[], 3, _]] => , }, matche t { ["bc"] => { [[false | t], t | t] == z, [2] == q }, [[1 | y], [x], t | _] | [[z, y], [[]] | y] => q == [true, y, 2], } } }])
}
pub fn case_451(vars: &Vars) -> InferredGoal<DU, DE, Goal<DU, DE>> {
    let q = vars.v[0].clone();
    let x = vars.v[1].clone();
    proto_vulcan!([member(x, [2, 1, 2]), |fresh_name_9, z| { |t| { x == [2, z, false], match [true, 'b' | t] { [[[]] | _] => , [[[], 3, _]] => , }, matche t { ["bc"] => { [[false | t], t | t] == z, [2] == q }, [[1 | y], [x], t | _] | [[z, y], [[]] | y] => q == [true, y, 2], } } }])
}
pub fn case_452(vars: &Vars) -> InferredGoal<DU, DE, Goal<DU, DE>> {
    let x = vars.v[0].clone();
    proto_vulcan!([conde { [3, x | x] == [x | x], [|h, t| { member(x, [3, 2, 2]), [[h, h, 'a'], [[], 3, t]] == [h] }, |x, h| { match 1 { [[], 1] | _ => { 2 == h, x != [[x, x, 1], x] }, [] => h == [h, h, 2], z => , }, conde { h == [2, 1 | _], [x | x] == h }, x == [h, 3, true] }], [x == x, [x == 1]] }, x != true])
}
pub fn case_453(vars: &Vars) -> InferredGoal<DU, DE, Goal<DU, DE>> {
    let x = vars.v[0].clone();
    proto_vulcan!([conde { [3, x | x] == [x | x], [|h, t| { member(x, [3, 2, 2]), [[h, h, 'a'], [[], 3, t]] == [h] }, |x, h| { match 1 { [[], 1] | _ => { 2 == h, x != [[x, x, 1], x] }, [] => h == [h, h, 2], fresh_name_9 => , }, conde { h == [2, 1 | _], [x | x] == h }, x == [h, 3, true] }], [x == x, [x == 1]] }, x != true])
}
pub fn case_454(vars: &Vars) -> InferredGoal<DU, DE, Goal<DU, DE>> {
    let q = vars.v[0].clone();
    let x = vars.v[1].clone();
    proto_vulcan!([|t| { [q == [q], conde { x == t, [3, _] != q, q == [q, [], q | t] }], |h| { |y, x| { t != "a", true, h == 3 } }, matche t { [2, [x, 'b', _]] | 2 => , 1 => , } }, [q, _ | false] == x, x != q])
}
pub fn case_455(vars: &Vars) -> InferredGoal<DU, DE, Goal<DU, DE>> {
    let q = vars.v[0].clone();
    let x = vars.v[1].clone();
    proto_vulcan!([|t| { [q == [q], conde { x == t, [3, _] != q, q == [q, [], q | t] }], |fresh_name_9| { |y, x| { t != "a", true, fresh_name_9 == 3 } }, matche t { [2, [x, 'b', _]] | 2 => , 1 => , } }, [q, _ | false] == x, x != q])
}
pub fn case_456(vars: &Vars) -> InferredGoal<DU, DE, Goal<DU, DE>> {
    let q = vars.v[0].clone();
    let x = vars.v[1].clone();
    proto_vulcan!([|t, y| { [matche y { [[z, y]] => x == [2 | _], [t, [y | h] | false] | [_, ["a", "a", y]] => { [q, _, 2] == x }, }, q == 3], x == [x, 3, y] }, |y, t| { [] != q, [_] != q }, matche x { [['b', z], [h | y] | h] => [[[q, y] | x] != [[1, [], h | x], [false, 1 | y]], [] == q], h => h == h, [] => { x == x, member(x, [2]) }, }, closure { 1 != 3 }])
}
pub fn case_457(vars: &Vars) -> InferredGoal<DU, DE, Goal<DU, DE>> {
    let q = vars.v[0].clone();
    let x = vars.v[1].clone();
    proto_vulcan!([|t, y| { [matche y { [[z, y]] => x == [2 | _], [t, [y | h] | false] | [_, ["a", "a", y]] => { [q, _, 2] == x }, }, q == 3], x == [x, 3, y] }, |y, t| { [] != q, [_] != q }, matche x { [['b', fresh_name_9], [h | y] | h] => [[[q, y] | x] != [[1, [], h | x], [false, 1 | y]], [] == q], h => h == h, [] => { x == x, member(x, [2]) }, }, closure { 1 != 3 }])
}
pub fn case_458(vars: &Vars) -> InferredGoal<DU, DE, Goal<DU, DE>> {
    let q = vars.v[0].clone();
    let x = vars.v[1].clone();
    proto_vulcan!([[q, 1] == x, conde { [[[q], _, [q, x]] != x, |t| { [2] == t, [q] == x }], match q { [[y, 1] | z] | 'b' => , 3 => , } }, matche q { [[2 | _]] => { x == [[x, "bc", 2 | q] | q] }, }])
}
pub fn case_459(vars: &Vars) -> InferredGoal<DU, DE, Goal<DU, DE>> {
    let q = vars.v[0].clone();
    let x = vars.v[1].clone();
    proto_vulcan!([[q, 1] == x, conde { [[[q], _, [q, x]] != x, |fresh_name_9| { [2] == fresh_name_9, [q] == x }], match q { [[y, 1] | z] | 'b' => , 3 => , } }, matche q { [[2 | _]] => { x == [[x, "bc", 2 | q] | q] }, }])
}
pub fn case_460(vars: &Vars) -> InferredGoal<DU, DE, Goal<DU, DE>> {
    let x = vars.v[0].clone();
    let y = vars.v[1].clone();
    proto_vulcan!([[2, [true, 3, 3 | x], [x, y | y]] == x, member(y, [3]), |h, t| { h == [2, y, _ | 2], |x, h| { 1 != [1, y | x], |h, t| { member(x, [2]), h != x, false } }, t != 2 }])
}
pub fn case_461(vars: &Vars) -> InferredGoal<DU, DE, Goal<DU, DE>> {
    let x = vars.v[0].clone();
    let y = vars.v[1].clone();
    proto_vulcan!([[2, [true, 3, 3 | x], [x, y | y]] == x, member(y, [3]), |h, t| { h == [2, y, _ | 2], |x, fresh_name_9| { 1 != [1, y | x], |h, t| { member(x, [2]), h != x, false } }, t != 2 }])
}
pub fn case_462(vars: &Vars) -> InferredGoal<DU, DE, Goal<DU, DE>> {
    let q = vars.v[0].clone();
    let x = vars.v[1].clone();
    proto_vulcan!([q == ["a" | x], match x { [[z, z, t]] => , }, closure { [q != [q, x, _], [match x { [[], [x, 2, 1] | true] => { 1 == x }, }, match q { [[2, t], 1 | t] => { q == t, "bc" == q }, [[_, false, []], [true | _]] => { false, member(q, [1, 3]) }, }]] }])
}
pub fn case_463(vars: &Vars) -> InferredGoal<DU, DE, Goal<DU, DE>> {
    let q = vars.v[0].clone();
    let x = vars.v[1].clone();
    proto_vulcan!([q == ["a" | x], match x { [[z, z, t]] => , }, closure { [q != [q, x, _], [match x { [[], [fresh_name_9, 2, 1] | true] => { 1 == fresh_name_9 }, }, match q { [[2, t], 1 | t] => { q == t, "bc" == q }, [[_, false, []], [true | _]] => { false, member(q, [1, 3]) }, }]] }])
}
pub fn case_464(vars: &Vars) -> InferredGoal<DU, DE, Goal<DU, DE>> {
    let x = vars.v[0].clone();
    proto_vulcan!([match [x, 2] { h | _ => , [y] | ["a", [h, _]] => [x == ["bc", 1, true], [conde { x == [x], x == x, [true, [x, [_, "bc"], "bc" | x] != [3, x | x]] }, conde { [2 == x, append(x, x, [])], false, [3 != x, [_ | x] != x] }]], [[y], [_, [], 1 | _], 'b' | 1] => , }, false, closure { x == 3 }])
}
pub fn case_465(vars: &Vars) -> InferredGoal<DU, DE, Goal<DU, DE>> {
    let x = vars.v[0].clone();
    proto_vulcan!([match [x, 2] { h | _ => , [y] | ["a", [h, _]] => [x == ["bc", 1, true], [conde { x == [x], x == x, [true, [x, [_, "bc"], "bc" | x] != [3, x | x]] }, conde { [2 == x, append(x, x, [])], false, [3 != x, [_ | x] != x] }]], [[fresh_name_9], [_, [], 1 | _], 'b' | 1] => , }, false, closure { x == 3 }])
}
pub fn case_466(vars: &Vars) -> InferredGoal<DU, DE, Goal<DU, DE>> {
    let q = vars.v[0].clone();
    let x = vars.v[1].clone();
    proto_vulcan!([conde { false, matche x { [x, z] => , [z, [], [] | h] => { [[1, h, [] | z] == h] }, [[t, x, 'b'], t] => , } }])
}
pub fn case_467(vars: &Vars) -> InferredGoal<DU, DE, Goal<DU, DE>> {
    let q = vars.v[0].clone();
    let x = vars.v[1].clone();
    proto_vulcan!([conde { false, matche x { [x, z] => , [z, [], [] | fresh_name_9] => { [[1, fresh_name_9, [] | z] == fresh_name_9] }, [[t, x, 'b'], t] => , } }])
}
pub fn case_468(vars: &Vars) -> InferredGoal<DU, DE, Goal<DU, DE>> {
    let q = vars.v[0].clone();
    let x = vars.v[1].clone();
    proto_vulcan!([conde { member(x, []), match x { [[_, t], [1 | h], [h]] => [t == ['a', t], |h, z| { q == [t, [], z], false }], [z, [2, 2, t | h], x] => { |x, h| { true, [z, 2, _] == t, z == [2] }, match h { [_, []] => , [[t, t, "a" | _], 2, true] | y => , } }, 1 => , }, [[x, q, 2 | x] != [[x, q]], x == x] }, closure { [1, 2, x | q] == 2 }])
}
pub fn case_469(vars: &Vars) -> InferredGoal<DU, DE, Goal<DU, DE>> {
    let q = vars.v[0].clone();
    let x = vars.v[1].clone();
    proto_vulcan!([conde { member(x, []), match x { [[_, t], [1 | h], [h]] => [t == ['a', t], |h, z| { q == [t, [], z], false }], [z, [2, 2, t | h], x] => { |x, fresh_name_9| { true, [z, 2, _] == t, z == [2] }, match h { [_, []] => , [[t, t, "a" | _], 2, true] | y => , } }, 1 => , }, [[x, q, 2 | x] != [[x, q]], x == x] }, closure { [1, 2, x | q] == 2 }])
}
pub fn case_470(vars: &Vars) -> InferredGoal<DU, DE, Goal<DU, DE>> {
    let q = vars.v[0].clone();
    let x = vars.v[1].clone();
    proto_vulcan!([|x, z| { |y, x| { y == 2, y == [y, x] }, q != ['a' | x], [match z { [["bc", 2]] | [_, ["bc", y], [[], y, 1 | x]] => , [[true, h], [x, 'b' | h], [y, z, _]] | y => { append(q, q, [1]) }, }] }, [] == x, [conde { 2 == q, [[x == x, x == [q, q, 3]], [[1]] == x], [|z| { [false] == q }, matche q { "bc" => { [3 | q] != x }, }] }, q != [[], 2]]])
}
pub fn case_471(vars: &Vars) -> InferredGoal<DU, DE, Goal<DU, DE>> {
    let q = vars.v[0].clone();
    let x = vars.v[1].clone();
    proto_vulcan!([|x, z| { |y, x| { y == 2, y == [y, x] }, q != ['a' | x], [match z { [["bc", 2]] | [_, ["bc", y], [[], y, 1 | x]] => , [[true, h], [x, 'b' | h], [y, z, _]] | y => { append(q, q, [1]) }, }] }, [] == x, [conde { 2 == q, [[x == x, x == [q, q, 3]], [[1]] == x], [|fresh_name_9| { [false] == q }, matche q { "bc" => { [3 | q] != x }, }] }, q != [[], 2]]])
}
pub fn case_472(vars: &Vars) -> InferredGoal<DU, DE, Goal<DU, DE>> {
    let q = vars.v[0].clone();
    let x = vars.v[1].clone();
    proto_vulcan!([[conde { [[[3, 3]] == q, conde { [[], x] == q, append(q, q, [3]) }], [true], [match _ { [[2, x, y | x]] => { append(x, y, [2]) }, [] => , [[1, 2 | _], [y, 'a']] | 2 => { 1 == q }, }, [_] == q] }], matche x { [h, 1, [true] | z] | [] => [[3] == q, false], 'a' => [[2 == x, _ == x, conde { [q != [], [x, _ | q] != x], "bc" != q }], x == [q, [], q]], }])
}
pub fn case_473(vars: &Vars) -> InferredGoal<DU, DE, Goal<DU, DE>> {
    let q = vars.v[0].clone();
    let x = vars.v[1].clone();
    proto_vulcan!([[conde { [[[3, 3]] == q, conde { [[], x] == q, append(q, q, [3]) }], [true], [match _ { [[2, fresh_name_9, y | fresh_name_9]] => { append(fresh_name_9, y, [2]) }, [] => , [[1, 2 | _], [y, 'a']] | 2 => { 1 == q }, }, [_] == q] }], matche x { [h, 1, [true] | z] | [] => [[3] == q, false], 'a' => [[2 == x, _ == x, conde { [q != [], [x, _ | q] != x], "bc" != q }], x == [q, [], q]], }])
}
pub fn case_474(vars: &Vars) -> InferredGoal<DU, DE, Goal<DU, DE>> {
    let x = vars.v[0].clone();
    proto_vulcan!([x == [x, x, x], |z, x| { conde { [matche x { [h, [true, "bc", 2]] | 3 => { [[], []] != x }, t => [false, [2] == 3], [[1, 1, t], ['b', 1, _], 3] => { false, append(z, x, []) }, }, conde { [z == [x, 1, []], x == x], [[] == z, [z, [], 2] == z] }], [|h, t| { false }, conde { [[] != x, z != x], ["bc", z | x] == x, [[x] == ["a" | x], x == [3, 1]] }], [append(x, x, []), |x| { x == [z, x, x] }] }, z == [x, x] }, conde { [x == x, matche _ { [[2, _]] => { [x | x] == x, x == [x | x] }, }], [[false, ["bc", [3, []], true] == [1, x, 1 | x], |x| { x == x }], x == _] }])
}
pub fn case_475(vars: &Vars) -> InferredGoal<DU, DE, Goal<DU, DE>> {
    let x = vars.v[0].clone();
    proto_vulcan!([x == [x, x, x], |z, x| { conde { [matche x { [h, [true, "bc", 2]] | 3 => { [[], []] != x }, t => [false, [2] == 3], [[1, 1, fresh_name_9], ['b', 1, _], 3] => { false, append(z, x, []) }, }, conde { [z == [x, 1, []], x == x], [[] == z, [z, [], 2] == z] }], [|h, t| { false }, conde { [[] != x, z != x], ["bc", z | x] == x, [[x] == ["a" | x], x == [3, 1]] }], [append(x, x, []), |x| { x == [z, x, x] }] }, z == [x, x] }, conde { [x == x, matche _ { [[2, _]] => { [x | x] == x, x == [x | x] }, }], [[false, ["bc", [3, []], true] == [1, x, 1 | x], |x| { x == x }], x == _] }])
}
pub fn case_476(vars: &Vars) -> InferredGoal<DU, DE, Goal<DU, DE>> {
    let x = vars.v[0].clone();
    proto_vulcan!([x != 1, [[[append(x, x, []), x == [x, [x, x | x] | x], [[], x] != x], |t, x| { x == t, x == [_, 'b'] }, x == x], _ != x], closure { |h, x| { conde { [true, [] == 2], x == [x, _, x | x], [h != [[], x | h], h == [3, []]] }, x != [[2, 1], [[]], x] } }])
}
pub fn case_477(vars: &Vars) -> InferredGoal<DU, DE, Goal<DU, DE>> {
    let x = vars.v[0].clone();
    proto_vulcan!([x != 1, [[[append(x, x, []), x == [x, [x, x | x] | x], [[], x] != x], |t, x| { x == t, x == [_, 'b'] }, x == x], _ != x], closure { |h, fresh_name_9| { conde { [true, [] == 2], fresh_name_9 == [fresh_name_9, _, fresh_name_9 | fresh_name_9], [h != [[], fresh_name_9 | h], h == [3, []]] }, fresh_name_9 != [[2, 1], [[]], fresh_name_9] } }])
}
pub fn case_478(vars: &Vars) -> InferredGoal<DU, DE, Goal<DU, DE>> {
    let x = vars.v[0].clone();
    let y = vars.v[1].clone();
    proto_vulcan!([conde { [y == 2, |t| { matche [1, _, []] { [[x], [1], [false, _ | _] | _] => , 'a' => { [2, "bc" | t] != y, t == y }, } }], [y == ["a", _, y], x == [y]] }, x == _, [_ != y, true, ["bc", ['a'], ['a', [], y | x] | _] != [[]]], closure { [[[]], [_, y, _ | 'b'], ["bc", _, x] | y] == "a" }])
}
pub fn case_479(vars: &Vars) -> InferredGoal<DU, DE, Goal<DU, DE>> {
    let x = vars.v[0].clone();
    let y = vars.v[1].clone();
    proto_vulcan!([conde { [y == 2, |fresh_name_9| { matche [1, _, []] { [[x], [1], [false, _ | _] | _] => , 'a' => { [2, "bc" | fresh_name_9] != y, fresh_name_9 == y }, } }], [y == ["a", _, y], x == [y]] }, x == _, [_ != y, true, ["bc", ['a'], ['a', [], y | x] | _] != [[]]], closure { [[[]], [_, y, _ | 'b'], ["bc", _, x] | y] == "a" }])
}
pub fn case_480(vars: &Vars) -> InferredGoal<DU, DE, Goal<DU, DE>> {
    let x = vars.v[0].clone();
    proto_vulcan!([member(x, []), match x { z => { [x, 2, x | z] == z, |z, t| { |y, x| { member(x, [2, 2]), z == ["a", x] }, [append(t, z, []), "a" == z] } }, "a" => |z, y| { append(z, x, []), 2 != [y, true, y], y != [false] }, }])
}
pub fn case_481(vars: &Vars) -> InferredGoal<DU, DE, Goal<DU, DE>> {
    let x = vars.v[0].clone();
    proto_vulcan!([member(x, []), match x { fresh_name_9 => { [x, 2, x | fresh_name_9] == fresh_name_9, |z, t| { |y, x| { member(x, [2, 2]), z == ["a", x] }, [append(t, z, []), "a" == z] } }, "a" => |z, y| { append(z, x, []), 2 != [y, true, y], y != [false] }, }])
}
pub fn case_482(vars: &Vars) -> InferredGoal<DU, DE, Goal<DU, DE>> {
    let x = vars.v[0].clone();
    proto_vulcan!([x == _, match x { z | [[2, z, z], [2, 2, 2 | _], y] => { true }, 1 => , }, closure { [|x| { match x { 3 | [h, 1] => { [x, x, []] == x, true }, }, x == 2, [true, x == [[], []]] }, conde { [[_, _ | _] == x, match x { 2 => , z => { [2] == x }, [[z]] | [[_, t | h] | t] => [[[1, 2, 1], x | x] == x, [true] == x], }], x != [_, _, x | 1] }] }])
}
pub fn case_483(vars: &Vars) -> InferredGoal<DU, DE, Goal<DU, DE>> {
    let x = vars.v[0].clone();
    proto_vulcan!([x == _, match x { z | [[2, z, z], [2, 2, 2 | _], y] => { true }, 1 => , }, closure { [|x| { match x { 3 | [h, 1] => { [x, x, []] == x, true }, }, x == 2, [true, x == [[], []]] }, conde { [[_, _ | _] == x, match x { 2 => , fresh_name_9 => { [2] == x }, [[z]] | [[_, t | h] | t] => [[[1, 2, 1], x | x] == x, [true] == x], }], x != [_, _, x | 1] }] }])
}
pub fn case_484(vars: &Vars) -> InferredGoal<DU, DE, Goal<DU, DE>> {
    let q = vars.v[0].clone();
    let x = vars.v[1].clone();
    proto_vulcan!([matche q { y => , [[]] | [2, [[], _]] => , }])
}
pub fn case_485(vars: &Vars) -> InferredGoal<DU, DE, Goal<DU, DE>> {
    let q = vars.v[0].clone();
    let x = vars.v[1].clone();
    proto_vulcan!([matche q { fresh_name_9 => , [[]] | [2, [[], _]] => , }])
}
pub fn case_486(vars: &Vars) -> InferredGoal<DU, DE, Goal<DU, DE>> {
    let x = vars.v[0].clone();
    let y = vars.v[1].clone();
    proto_vulcan!([y == x, conde { [x != [x | y], conde { [[y] != x, matche x { [] => { x == ["a"], y == ['a', 2] }, ['b' | y] => { y == [3, y | x], y == y }, [2, h, 1 | _] => , }], [matche x { [y | y] => { [_, _] != y }, x => [] == y, }, [true, y == 'b', 'a' == [[x | x], x]]] }], [] == x }, closure { [[1, 2, x | x] == x] }])
}
pub fn case_487(vars: &Vars) -> InferredGoal<DU, DE, Goal<DU, DE>> {
    let x = vars.v[0].clone();
    let y = vars.v[1].clone();
    proto_vulcan!([y == x, conde { [x != [x | y], conde { [[y] != x, matche x { [] => { x == ["a"], y == ['a', 2] }, ['b' | y] => { y == [3, y | x], y == y }, [2, h, 1 | _] => , }], [matche x { [y | y] => { [_, _] != y }, fresh_name_9 => [] == y, }, [true, y == 'b', 'a' == [[x | x], x]]] }], [] == x }, closure { [[1, 2, x | x] == x] }])
}
pub fn case_488(vars: &Vars) -> InferredGoal<DU, DE, Goal<DU, DE>> {
    let x = vars.v[0].clone();
    let y = vars.v[1].clone();
    proto_vulcan!([|h, t| { t == [1 | x], h == [2] }, matche x { ['a', 1, [z, 1]] => , [y, [t | _] | t] => [|y| { matche x { [[h, 2, 2], t, [y] | z] => [] == x, [[[], 1, 3 | t] | _] | [2, [1], _ | y] => , }, conde { [member(y, []), [['b', "a", "bc" | t]] == _], y == [[2, y], []] }, append(y, y, [3]) }, y == _], [[[], 1, _], [h]] => { [matche y { x => [[y] == [2], true], "a" => , [1, [t, []]] => h != [[[], y, y], [[], _, []], 2 | h], }], match x { [[1, 2, x | h], [true, h | z]] | [_, [2, x], _] => [false, [y, 2, _] == x], } }, }, match y { [[], h] => , x | [2, [1], h | _] => , }])
}
pub fn case_489(vars: &Vars) -> InferredGoal<DU, DE, Goal<DU, DE>> {
    let x = vars.v[0].clone();
    let y = vars.v[1].clone();
    proto_vulcan!([|h, t| { t == [1 | x], h == [2] }, matche x { ['a', 1, [fresh_name_9, 1]] => , [y, [t | _] | t] => [|y| { matche x { [[h, 2, 2], t, [y] | z] => [] == x, [[[], 1, 3 | t] | _] | [2, [1], _ | y] => , }, conde { [member(y, []), [['b', "a", "bc" | t]] == _], y == [[2, y], []] }, append(y, y, [3]) }, y == _], [[[], 1, _], [h]] => { [matche y { x => [[y] == [2], true], "a" => , [1, [t, []]] => h != [[[], y, y], [[], _, []], 2 | h], }], match x { [[1, 2, x | h], [true, h | z]] | [_, [2, x], _] => [false, [y, 2, _] == x], } }, }, match y { [[], h] => , x | [2, [1], h | _] => , }])
}
pub fn case_490(vars: &Vars) -> InferredGoal<DU, DE, Goal<DU, DE>> {
    let x = vars.v[0].clone();
    let y = vars.v[1].clone();
    proto_vulcan!([x == y, conde { matche y { [[h, 3, 2], 2, [1]] => [h != [[] | y], [[], h] == x], }, matche y { [[[], t], [z, z]] => { [t, t | 2] == [[t], [[], x, z | y]] }, t => { true != y }, [[_, false, z], [[], _, x]] | [1, false | z] => [|z| { true, z == 'b' }, z == [y, z, 1]], } }, [x == [1]], closure { [match x { 2 | [2, [_, 2]] => , [[z, 2 | t] | y] | h => match x { _ => [member(x, [1]), [[3, x | x] | 1] == x], x => append(x, x, [3]), [[t, [], x], [[]]] => , }, [_, z] | [x, [2], [[]]] => , }, |h, y| { |h| { true, 2 == x } }] }])
}
pub fn case_491(vars: &Vars) -> InferredGoal<DU, DE, Goal<DU, DE>> {
    let x = vars.v[0].clone();
    let y = vars.v[1].clone();
    proto_vulcan!([x == y, conde { matche y { [[fresh_name_9, 3, 2], 2, [1]] => [fresh_name_9 != [[] | y], [[], fresh_name_9] == x], }, matche y { [[[], t], [z, z]] => { [t, t | 2] == [[t], [[], x, z | y]] }, t => { true != y }, [[_, false, z], [[], _, x]] | [1, false | z] => [|z| { true, z == 'b' }, z == [y, z, 1]], } }, [x == [1]], closure { [match x { 2 | [2, [_, 2]] => , [[z, 2 | t] | y] | h => match x { _ => [member(x, [1]), [[3, x | x] | 1] == x], x => append(x, x, [3]), [[t, [], x], [[]]] => , }, [_, z] | [x, [2], [[]]] => , }, |h, y| { |h| { true, 2 == x } }] }])
}
pub fn case_492(vars: &Vars) -> InferredGoal<DU, DE, Goal<DU, DE>> {
    let q = vars.v[0].clone();
    let x = vars.v[1].clone();
    proto_vulcan!([q == 1, |x| { |h, y| { [x, [h]] == y, append(h, x, []), [member(y, [2, 1]), false, x != [q | q]] }, 1 == x }, [] == q, closure { x != [2, _, 1] }])
}
pub fn case_493(vars: &Vars) -> InferredGoal<DU, DE, Goal<DU, DE>> {
    let q = vars.v[0].clone();
    let x = vars.v[1].clone();
    proto_vulcan!([q == 1, |x| { |fresh_name_9, y| { [x, [fresh_name_9]] == y, append(fresh_name_9, x, []), [member(y, [2, 1]), false, x != [q | q]] }, 1 == x }, [] == q, closure { x != [2, _, 1] }])
}
pub fn case_494(vars: &Vars) -> InferredGoal<DU, DE, Goal<DU, DE>> {
    let q = vars.v[0].clone();
    let x = vars.v[1].clone();
    proto_vulcan!([matche q { y => q == x, [[z, y], t, h] | 1 => [[q == [2, x], [x == [[], 1, q], q == [2, x, true], q == []]], _ == [x, x | x]], [[_, _, true], [2, 'b', t]] => { append(t, x, [2, 1]), conde { |y, x| { [[q, [], []], [1, q], false | y] != 3 }, [|z| { [x, 1] != z, [q, t, t] == z }, q != [1 | x]], matche q { [[x], [x, h | 1], h | y] | z => q == [3], } } }, }])
}
pub fn case_495(vars: &Vars) -> InferredGoal<DU, DE, Goal<DU, DE>> {
    let q = vars.v[0].clone();
    let x = vars.v[1].clone();
    proto_vulcan!([matche q { y => q == x, [[z, y], t, h] | 1 => [[q == [2, x], [x == [[], 1, q], q == [2, x, true], q == []]], _ == [x, x | x]], [[_, _, true], [2, 'b', t]] => { append(t, x, [2, 1]), conde { |fresh_name_9, x| { [[q, [], []], [1, q], false | fresh_name_9] != 3 }, [|z| { [x, 1] != z, [q, t, t] == z }, q != [1 | x]], matche q { [[x], [x, h | 1], h | y] | z => q == [3], } } }, }])
}
pub fn case_496(vars: &Vars) -> InferredGoal<DU, DE, Goal<DU, DE>> {
    let x = vars.v[0].clone();
    let y = vars.v[1].clone();
    proto_vulcan!([[2] == [[y | y], 3, [y] | x], matche 'b' { [[[]], y, [y, false, t]] => { ["a", x, "a" | 3] == [[], false, 1 | t], conde { [y, t, y | y] == t, [conde { [y == y, member(y, [])], [[[2, 3], [true], [y, 1 | 2] | 1] == x, y == [_, y, [[], x] | y]], [t] == y }, matche t { [y] | [[1, y] | t] => { false }, [t, _, [[], 1 | _]] | [[x, 3], 3] => y == [_, y | 2], }], [|y| { true, x == [3, [_, false | y]] }, conde { [x != x, 3 != [y, []]], [_, true, x | t] == y, y == [x, 1] }] } }, [] => { x == [y, y, 'a' | x], 2 == _ }, }, [] == [3]])
}
pub fn case_497(vars: &Vars) -> InferredGoal<DU, DE, Goal<DU, DE>> {
    let x = vars.v[0].clone();
    let y = vars.v[1].clone();
    proto_vulcan!([[2] == [[y | y], 3, [y] | x], matche 'b' { [[[]], y, [y, false, fresh_name_9]] => { ["a", x, "a" | 3] == [[], false, 1 | fresh_name_9], conde { [y, fresh_name_9, y | y] == fresh_name_9, [conde { [y == y, member(y, [])], [[[2, 3], [true], [y, 1 | 2] | 1] == x, y == [_, y, [[], x] | y]], [fresh_name_9] == y }, matche fresh_name_9 { [y] | [[1, y] | t] => { false }, [t, _, [[], 1 | _]] | [[x, 3], 3] => y == [_, y | 2], }], [|y| { true, x == [3, [_, false | y]] }, conde { [x != x, 3 != [y, []]], [_, true, x | fresh_name_9] == y, y == [x, 1] }] } }, [] => { x == [y, y, 'a' | x], 2 == _ }, }, [] == [3]])
}
pub fn case_498(vars: &Vars) -> InferredGoal<DU, DE, Goal<DU, DE>> {
    let q = vars.v[0].clone();
    let x = vars.v[1].clone();
    proto_vulcan!([conde { [match [q, q] { _ | [_, _] => [q == 1, x == x], [x, [1], []] => { true }, [[2, 2], 3, [y]] => , }, 'a' == q], matche q { [2, h] => [[[], 3] == q, append(q, x, [])], 2 => , } }, matche q { 2 => [|x| { x == [1] }, [[_ | 2], x] != x], z => { append(z, q, [1]), x == [3, z] }, [true, [x, h], [1 | z]] => |y| { [[q], [true | y], [1] | x] != [true, z, x], 2 == h }, }, [[[], 2, q], [3]] == q])
}
pub fn case_499(vars: &Vars) -> InferredGoal<DU, DE, Goal<DU, DE>> {
    let q = vars.v[0].clone();
    let x = vars.v[1].clone();
    proto_vulcan!([conde { [match [q, q] { _ | [_, _] => [q == 1, x == x], [x, [1], []] => { true }, [[2, 2], 3, [y]] => , }, 'a' == q], matche q { [2, h] => [[[], 3] == q, append(q, x, [])], 2 => , } }, matche q { 2 => [|fresh_name_9| { fresh_name_9 == [1] }, [[_ | 2], x] != x], z => { append(z, q, [1]), x == [3, z] }, [true, [x, h], [1 | z]] => |y| { [[q], [true | y], [1] | x] != [true, z, x], 2 == h }, }, [[[], 2, q], [3]] == q])
}
pub fn case_500(vars: &Vars) -> InferredGoal<DU, DE, Goal<DU, DE>> {
    let x = vars.v[0].clone();
    proto_vulcan!(["a" == x, match x { [3, z | 1] => [[[[]], [_]] == 2, |y, z| { [[x, x], [3, y, 1], [[]] | z] == y, conde { [x == [], member(z, [])], x == [true], [[z, 2] != y, [[[], z, _], [y, z, x | z]] == [[], 3, 1]] }, append(z, x, []) }], }])
}
pub fn case_501(vars: &Vars) -> InferredGoal<DU, DE, Goal<DU, DE>> {
    let x = vars.v[0].clone();
    proto_vulcan!(["a" == x, match x { [3, z | 1] => [[[[]], [_]] == 2, |fresh_name_9, z| { [[x, x], [3, fresh_name_9, 1], [[]] | z] == fresh_name_9, conde { [x == [], member(z, [])], x == [true], [[z, 2] != fresh_name_9, [[[], z, _], [fresh_name_9, z, x | z]] == [[], 3, 1]] }, append(z, x, []) }], }])
}
pub fn case_502(vars: &Vars) -> InferredGoal<DU, DE, Goal<DU, DE>> {
    let x = vars.v[0].clone();
    proto_vulcan!([[x | x] == 2, match x { z => { conde { |h| { 3 == z }, [3, x, z] != x, [x != x, _ != z] } }, }, "bc" == x, closure { [x == x, "a" != x] }])
}
pub fn case_503(vars: &Vars) -> InferredGoal<DU, DE, Goal<DU, DE>> {
    let x = vars.v[0].clone();
    proto_vulcan!([[x | x] == 2, match x { z => { conde { |fresh_name_9| { 3 == z }, [3, x, z] != x, [x != x, _ != z] } }, }, "bc" == x, closure { [x == x, "a" != x] }])
}
pub fn case_504(vars: &Vars) -> InferredGoal<DU, DE, Goal<DU, DE>> {
    let x = vars.v[0].clone();
    let y = vars.v[1].clone();
    proto_vulcan!([match [[], "bc" | x] { y => , [[_, [], 2], [x | false]] | 1 => { y == [1, y, 1], matche y { 3 => , x => { [3, [2, 1, 2]] == x }, } }, 3 | [3, ['a', true, 1 | t] | _] => { matche x { [[3, 1], 1, [x, 1] | h] => [conde { [[y, 'a', x | x] == [true], x == [1]], false }, matche y { [[3], [z, x, t] | 2] => { h == [x, 2] }, 2 => , [[2, y, z], [h], [_, t, t] | 2] | [[z, h], [1, 1] | z] => , }], "a" | z => { y != x, [[y, x, 2] == [[x, false, y]]] }, }, |h| { [[h] == h, [3, 1] != h], [] == [[h, [], 3 | x]] } }, }, false, [[|t| { false, t == [false, y, 3], t == t }, |x, z| { [[x, x | x], [2, []] | z] != [2] }], |z| { |x| { z != [x | y] }, matche x { [[3, true, []] | 2] => { _ == x, false }, [2] | x => y == [_, "a" | y], [[2, _], [true], [false, "a", _ | x]] => { true }, }, [[z, true, _], [x], [y] | x] == y }, [[]] == x]])
}
pub fn case_505(vars: &Vars) -> InferredGoal<DU, DE, Goal<DU, DE>> {
    let x = vars.v[0].clone();
    let y = vars.v[1].clone();
    proto_vulcan!([match [[], "bc" | x] { y => , [[_, [], 2], [x | false]] | 1 => { y == [1, y, 1], matche y { 3 => , x => { [3, [2, 1, 2]] == x }, } }, 3 | [3, ['a', true, 1 | t] | _] => { matche x { [[3, 1], 1, [x, 1] | h] => [conde { [[y, 'a', x | x] == [true], x == [1]], false }, matche y { [[3], [z, x, t] | 2] => { h == [x, 2] }, 2 => , [[2, y, z], [h], [_, t, t] | 2] | [[z, h], [1, 1] | z] => , }], "a" | z => { y != x, [[y, x, 2] == [[x, false, y]]] }, }, |fresh_name_9| { [[fresh_name_9] == fresh_name_9, [3, 1] != fresh_name_9], [] == [[fresh_name_9, [], 3 | x]] } }, }, false, [[|t| { false, t == [false, y, 3], t == t }, |x, z| { [[x, x | x], [2, []] | z] != [2] }], |z| { |x| { z != [x | y] }, matche x { [[3, true, []] | 2] => { _ == x, false }, [2] | x => y == [_, "a" | y], [[2, _], [true], [false, "a", _ | x]] => { true }, }, [[z, true, _], [x], [y] | x] == y }, [[]] == x]])
}
pub fn case_506(vars: &Vars) -> InferredGoal<DU, DE, Goal<DU, DE>> {
    let x = vars.v[0].clone();
    let y = vars.v[1].clone();
    proto_vulcan!([x != [[2 | x], [1, _, x] | x], match [true] { [[[], [], 3], t, [2, 3, x | _]] => , }])
}
pub fn case_507(vars: &Vars) -> InferredGoal<DU, DE, Goal<DU, DE>> {
    let x = vars.v[0].clone();
    let y = vars.v[1].clone();
    proto_vulcan!([x != [[2 | x], [1, _, x] | x], match [true] { [[[], [], 3], fresh_name_9, [2, 3, x | _]] => , }])
}
pub fn case_508(vars: &Vars) -> InferredGoal<DU, DE, Goal<DU, DE>> {
    let q = vars.v[0].clone();
    let x = vars.v[1].clone();
    proto_vulcan!([conde { |z| { [z == [_, _, []], [3, 1] != 2, [z] != x] }, true, true }, q == [_, [3, x]]])
}
pub fn case_509(vars: &Vars) -> InferredGoal<DU, DE, Goal<DU, DE>> {
    let q = vars.v[0].clone();
    let x = vars.v[1].clone();
    proto_vulcan!([conde { |fresh_name_9| { [fresh_name_9 == [_, _, []], [3, 1] != 2, [fresh_name_9] != x] }, true, true }, q == [_, [3, x]]])
}
pub fn case_510(vars: &Vars) -> InferredGoal<DU, DE, Goal<DU, DE>> {
    let q = vars.v[0].clone();
    let x = vars.v[1].clone();
    proto_vulcan!([x != x, [match q { [[[], [] | y], [x, 3, 2]] => { |t, x| { 3 == x } }, [2, [t, x | _]] => , }, [2, x, x] != [[x, [], "bc"]], [2 | q] == x]])
}
pub fn case_511(vars: &Vars) -> InferredGoal<DU, DE, Goal<DU, DE>> {
    let q = vars.v[0].clone();
    let x = vars.v[1].clone();
    proto_vulcan!([x != x, [match q { [[[], [] | fresh_name_9], [x, 3, 2]] => { |t, x| { 3 == x } }, [2, [t, x | _]] => , }, [2, x, x] != [[x, [], "bc"]], [2 | q] == x]])
}
pub fn case_512(vars: &Vars) -> InferredGoal<DU, DE, Goal<DU, DE>> {
    let x = vars.v[0].clone();
    let y = vars.v[1].clone();
    proto_vulcan!([|z| { [1, 1] == y, [conde { z == [[], 2], [[z, 2] == z, [[z]] == [[x, "bc", []] | z]], [z == 2, false] }, [[z] == z, [y, ['a', y], 2 | 2] == x], [_ == z, y == [[]]]] }])
}
pub fn case_513(vars: &Vars) -> InferredGoal<DU, DE, Goal<DU, DE>> {
    let x = vars.v[0].clone();
    let y = vars.v[1].clone();
    proto_vulcan!([|fresh_name_9| { [1, 1] == y, [conde { fresh_name_9 == [[], 2], [[fresh_name_9, 2] == fresh_name_9, [[fresh_name_9]] == [[x, "bc", []] | fresh_name_9]], [fresh_name_9 == 2, false] }, [[fresh_name_9] == fresh_name_9, [y, ['a', y], 2 | 2] == x], [_ == fresh_name_9, y == [[]]]] }])
}
pub fn case_514(vars: &Vars) -> InferredGoal<DU, DE, Goal<DU, DE>> {
    let x = vars.v[0].clone();
    proto_vulcan!([conde { [[[[2], [x], [] | x] == x, match x { [[1 | 1], true, [[], x]] => [[2, 2, 2 | x] == x, x == 3], }, matche [x, x | 1] { ['b', z, _] | z => , }], match x { [t, [t, 2, []], [2 | _] | z] => [[[t], x] == x, [[z] != [[_, x, z], [t, false, t | x]]]], [[z, t | z], 1] => { |t| { member(t, [3]), t == x }, match t { 1 => [t == false, false], x => { [x | z] != x, true }, } }, y | [[z, []], [_, 3 | _], [[], y | _] | 2] => , }], true, [true == x, [_, 3, [x, x, 3] | x] == [[], x, x]] }])
}
pub fn case_515(vars: &Vars) -> InferredGoal<DU, DE, Goal<DU, DE>> {
    let x = vars.v[0].clone();
    proto_vulcan!([conde { [[[[2], [x], [] | x] == x, match x { [[1 | 1], true, [[], x]] => [[2, 2, 2 | x] == x, x == 3], }, matche [x, x | 1] { ['b', z, _] | z => , }], match x { [t, [t, 2, []], [2 | _] | z] => [[[t], x] == x, [[z] != [[_, x, z], [t, false, t | x]]]], [[z, t | z], 1] => { |t| { member(t, [3]), t == x }, match t { 1 => [t == false, false], fresh_name_9 => { [fresh_name_9 | z] != fresh_name_9, true }, } }, y | [[z, []], [_, 3 | _], [[], y | _] | 2] => , }], true, [true == x, [_, 3, [x, x, 3] | x] == [[], x, x]] }])
}
pub fn case_516(vars: &Vars) -> InferredGoal<DU, DE, Goal<DU, DE>> {
    let q = vars.v[0].clone();
    let x = vars.v[1].clone();
    proto_vulcan!([|x| { x == x }, match q { [[_, 1 | z], [y] | x] | x => , _ | 2 => [[1 | x] != x, ['b', [false], [_, []]] != x], }])
}
pub fn case_517(vars: &Vars) -> InferredGoal<DU, DE, Goal<DU, DE>> {
    let q = vars.v[0].clone();
    let x = vars.v[1].clone();
    proto_vulcan!([|fresh_name_9| { fresh_name_9 == fresh_name_9 }, match q { [[_, 1 | z], [y] | x] | x => , _ | 2 => [[1 | x] != x, ['b', [false], [_, []]] != x], }])
}
pub fn case_518(vars: &Vars) -> InferredGoal<DU, DE, Goal<DU, DE>> {
    let x = vars.v[0].clone();
    proto_vulcan!([x == x, match x { [[x, "bc", []]] => { conde { [append(x, x, [1, 3]), |z| { x == z, z == 2, [x, x] == x }], conde { x == [[x, 1], [1, []], x], [x == x, [_, [_ | x], [x]] != x], 3 == [1, "a", _] }, [[3] != x, x == [x]] } }, 2 => [false, [[x, x | x], 3, [x, 1]] == x], }, x == [3, 3]])
}
pub fn case_519(vars: &Vars) -> InferredGoal<DU, DE, Goal<DU, DE>> {
    let x = vars.v[0].clone();
    proto_vulcan!([x == x, match x { [[x, "bc", []]] => { conde { [append(x, x, [1, 3]), |fresh_name_9| { x == fresh_name_9, fresh_name_9 == 2, [x, x] == x }], conde { x == [[x, 1], [1, []], x], [x == x, [_, [_ | x], [x]] != x], 3 == [1, "a", _] }, [[3] != x, x == [x]] } }, 2 => [false, [[x, x | x], 3, [x, 1]] == x], }, x == [3, 3]])
}
pub fn case_520(vars: &Vars) -> InferredGoal<DU, DE, Goal<DU, DE>> {
    let x = vars.v[0].clone();
    proto_vulcan!([x == x, match x { 1 => , ['b'] | [[_, []], [[], 2, 3 | _] | z] => conde { |h, y| { _ != [y, _, h] }, [|h, z| { [[]] == [[x, 2, _]], z == [], append(x, z, [3, 2]) }, matche x { "a" => , }] }, }])
}
pub fn case_521(vars: &Vars) -> InferredGoal<DU, DE, Goal<DU, DE>> {
    let x = vars.v[0].clone();
    proto_vulcan!([x == x, match x { 1 => , ['b'] | [[_, []], [[], 2, 3 | _] | z] => conde { |h, fresh_name_9| { _ != [fresh_name_9, _, h] }, [|h, z| { [[]] == [[x, 2, _]], z == [], append(x, z, [3, 2]) }, matche x { "a" => , }] }, }])
}
pub fn case_522(vars: &Vars) -> InferredGoal<DU, DE, Goal<DU, DE>> {
    let q = vars.v[0].clone();
    let x = vars.v[1].clone();
    proto_vulcan!([conde { [|y, z| { [2, y, z | z] == y, [x, x, true | 3] == q, match [[], z, q] { [[_, false, 1 | y] | _] | [y, [1, z, [] | _], [t] | h] => { y == 1 }, } }, conde { conde { [append(x, x, [2]), [2, 'b'] == q], [q != q, [[x | q], [1, q | q], x] != x] }, [true, x == x], [|t| { q != x, member(t, []), [[_, 2, t] | x] != x }, [x, q, x] == [[3, 3, x | q], [1, x], x | q]] }], [[q | q], [1, 1]] != q, [true, false] }])
}
pub fn case_523(vars: &Vars) -> InferredGoal<DU, DE, Goal<DU, DE>> {
    let q = vars.v[0].clone();
    let x = vars.v[1].clone();
    proto_vulcan!([conde { [|fresh_name_9, z| { [2, fresh_name_9, z | z] == fresh_name_9, [x, x, true | 3] == q, match [[], z, q] { [[_, false, 1 | y] | _] | [y, [1, z, [] | _], [t] | h] => { y == 1 }, } }, conde { conde { [append(x, x, [2]), [2, 'b'] == q], [q != q, [[x | q], [1, q | q], x] != x] }, [true, x == x], [|t| { q != x, member(t, []), [[_, 2, t] | x] != x }, [x, q, x] == [[3, 3, x | q], [1, x], x | q]] }], [[q | q], [1, 1]] != q, [true, false] }])
}
pub fn case_524(vars: &Vars) -> InferredGoal<DU, DE, Goal<DU, DE>> {
    let x = vars.v[0].clone();
    let y = vars.v[1].clone();
    proto_vulcan!([false, matche y { [[1, h, _], [1, t, z | _]] | x => { match y { 'b' => , [2, [t, 1], [2, h, 2] | _] => [[[], h | t] == y, match [[], 'b'] { [_, [y, [] | t]] => [[y] == y, t == y], z => { y == 2 }, [[z, h], 2, 'b' | z] => [z == [3], 3 == h], }], }, matche y { [[_, 1 | _] | true] => , } }, [[_, 3, x], [1], ["a" | 2]] | x => [x == [[_, _, [] | x], [false, 3, y], [[], x, 2] | 'b'], conde { [_] == [["a", x | x], [3, x | x], [1] | y], match x { [y] => [member(y, [1]), [_] == x], }, |x| { [2] == x } }], t => [y] == true, }])
}
pub fn case_525(vars: &Vars) -> InferredGoal<DU, DE, Goal<DU, DE>> {
    let x = vars.v[0].clone();
    let y = vars.v[1].clone();
    proto_vulcan!([false, matche y { [[1, h, _], [1, t, z | _]] | x => { match y { 'b' => , [2, [t, 1], [2, h, 2] | _] => [[[], h | t] == y, match [[], 'b'] { [_, [y, [] | t]] => [[y] == y, t == y], z => { y == 2 }, [[z, fresh_name_9], 2, 'b' | z] => [z == [3], 3 == fresh_name_9], }], }, matche y { [[_, 1 | _] | true] => , } }, [[_, 3, x], [1], ["a" | 2]] | x => [x == [[_, _, [] | x], [false, 3, y], [[], x, 2] | 'b'], conde { [_] == [["a", x | x], [3, x | x], [1] | y], match x { [y] => [member(y, [1]), [_] == x], }, |x| { [2] == x } }], t => [y] == true, }])
}
pub fn case_526(vars: &Vars) -> InferredGoal<DU, DE, Goal<DU, DE>> {
    let q = vars.v[0].clone();
    let x = vars.v[1].clone();
    proto_vulcan!([|y| { |h, y| { x == y, y == y }, matche x { [[2], [1, h, h], ["bc", [], 3]] => , [[]] => { x == [3], q == y }, } }, [[x | x] == q, conde { [2, 1 | x] == x, [member(x, [2, 3, 1]), [2] == x] }], |h| { |t| { matche x { [[], [1, h | _], [z, 3, h | _]] => false, }, match t { h => { [h | t] == [_, 3 | h] }, 2 => [[] == [[1, 3, 1], [2, 2]], h == x], "bc" => , }, _ == q }, conde { [member(x, []), [1, [2], q] == h], [[q, x, "bc" | x] == q, conde { true, [[3] == h, q == q] }] }, q == _ }])
}
pub fn case_527(vars: &Vars) -> InferredGoal<DU, DE, Goal<DU, DE>> {
    let q = vars.v[0].clone();
    let x = vars.v[1].clone();
    proto_vulcan!([|fresh_name_9| { |h, y| { x == y, y == y }, matche x { [[2], [1, h, h], ["bc", [], 3]] => , [[]] => { x == [3], q == fresh_name_9 }, } }, [[x | x] == q, conde { [2, 1 | x] == x, [member(x, [2, 3, 1]), [2] == x] }], |h| { |t| { matche x { [[], [1, h | _], [z, 3, h | _]] => false, }, match t { h => { [h | t] == [_, 3 | h] }, 2 => [[] == [[1, 3, 1], [2, 2]], h == x], "bc" => , }, _ == q }, conde { [member(x, []), [1, [2], q] == h], [[q, x, "bc" | x] == q, conde { true, [[3] == h, q == q] }] }, q == _ }])
}
pub fn case_528(vars: &Vars) -> InferredGoal<DU, DE, Goal<DU, DE>> {
    let x = vars.v[0].clone();
    proto_vulcan!([|y| { x == y, y == [[[]], []], 1 == [[y, 3, _], 2] }, x == x, [matche x { [[h, 3, 'b'] | t] | [2, 2] => , [[2 | t], h, [x, h] | t] | [[1, _], h | x] => [|t| { x != t }, _ == h], h => , }, [1, 1, []] == x, _ != x], closure { [x == 2, conde { [conde { true, [[3 | x] != x, [] == x] }, |x, h| { false, [] == x }], [[[[1], 1] == x, member(x, [1, 2]), x != [_, [], true]], x == [1]], [|x| { 2 != x, 2 != x }, x == [x, x]] }] }])
}
pub fn case_529(vars: &Vars) -> InferredGoal<DU, DE, Goal<DU, DE>> {
    let x = vars.v[0].clone();
    proto_vulcan!([|y| { x == y, y == [[[]], []], 1 == [[y, 3, _], 2] }, x == x, [matche x { [[h, 3, 'b'] | t] | [2, 2] => , [[2 | t], h, [x, h] | t] | [[1, _], h | x] => [|t| { x != t }, _ == h], h => , }, [1, 1, []] == x, _ != x], closure { [x == 2, conde { [conde { true, [[3 | x] != x, [] == x] }, |x, h| { false, [] == x }], [[[[1], 1] == x, member(x, [1, 2]), x != [_, [], true]], x == [1]], [|fresh_name_9| { 2 != fresh_name_9, 2 != fresh_name_9 }, x == [x, x]] }] }])
}
pub fn case_530(vars: &Vars) -> InferredGoal<DU, DE, Goal<DU, DE>> {
    let q = vars.v[0].clone();
    let x = vars.v[1].clone();
    proto_vulcan!([[1, 'b', 1] == q, [[x | 3], [q, q | x], [x]] != x, |t, x| { match q { [[_, 2, 3], "a"] => , [[2, z, h] | z] => { match t { [[t, []], y, x | y] => , [[]] => append(x, q, [3]), [y] => { q != 3 }, }, |z, y| { x == [false, x, 2], [2, 1] == t } }, [[[], _] | x] | [[2], 3, [_]] => [[[1, true, t], []] == [[q, t | 1], [2, q], [] | q], conde { false, [t == t, [q, [t, 3], [_]] != [[2, q, 2 | q], [q, 1, q | q], [q, q, q]]] }], }, |z| { match [q | t] { t | [[y, y, _ | z], [[], y, 1 | 3]] => , _ => { [[2, 1] | z] != [x, x | "a"], [[_], [x, true], [1, x, 1] | z] != x }, y => , }, [x, 2] == z, t != [1] } }])
}
pub fn case_531(vars: &Vars) -> InferredGoal<DU, DE, Goal<DU, DE>> {
    let q = vars.v[0].clone();
    let x = vars.v[1].clone();
    proto_vulcan!([[1, 'b', 1] == q, [[x | 3], [q, q | x], [x]] != x, |t, x| { match q { [[_, 2, 3], "a"] => , [[2, z, h] | z] => { match t { [[fresh_name_9, []], y, x | y] => , [[]] => append(x, q, [3]), [y] => { q != 3 }, }, |z, y| { x == [false, x, 2], [2, 1] == t } }, [[[], _] | x] | [[2], 3, [_]] => [[[1, true, t], []] == [[q, t | 1], [2, q], [] | q], conde { false, [t == t, [q, [t, 3], [_]] != [[2, q, 2 | q], [q, 1, q | q], [q, q, q]]] }], }, |z| { match [q | t] { t | [[y, y, _ | z], [[], y, 1 | 3]] => , _ => { [[2, 1] | z] != [x, x | "a"], [[_], [x, true], [1, x, 1] | z] != x }, y => , }, [x, 2] == z, t != [1] } }])
}
pub fn case_532(vars: &Vars) -> InferredGoal<DU, DE, Goal<DU, DE>> {
    let x = vars.v[0].clone();
    proto_vulcan!([x == [[3, x, 'a'], [_, x]], closure { conde { [_, 2 | x] == x, [append(x, x, []), matche x { [1] => [x == 1, x == [[1, 1, [] | _], [_] | x]], [[3, t]] => [x != [t, 'a', true], append(t, t, [2])], }], match x { 3 | t => { x == [2] }, [[x, _, "a"], [t, t, x], 'a'] => { [x] == x }, [[z, 3]] => [false, z == z], } } }])
}
pub fn case_533(vars: &Vars) -> InferredGoal<DU, DE, Goal<DU, DE>> {
    let x = vars.v[0].clone();
    proto_vulcan!([x == [[3, x, 'a'], [_, x]], closure { conde { [_, 2 | x] == x, [append(x, x, []), matche x { [1] => [x == 1, x == [[1, 1, [] | _], [_] | x]], [[3, fresh_name_9]] => [x != [fresh_name_9, 'a', true], append(fresh_name_9, fresh_name_9, [2])], }], match x { 3 | t => { x == [2] }, [[x, _, "a"], [t, t, x], 'a'] => { [x] == x }, [[z, 3]] => [false, z == z], } } }])
}
pub fn case_534(vars: &Vars) -> InferredGoal<DU, DE, Goal<DU, DE>> {
    let x = vars.v[0].clone();
    let y = vars.v[1].clone();
    proto_vulcan!([match y { [["bc", 1, 2]] | [[z, _, 1 | y]] => , }, matche y { _ => { [x != [[x, y, []], [x], x]] }, y => [y != x, |z, x| { false, x == [1, z] }], }])
}
pub fn case_535(vars: &Vars) -> InferredGoal<DU, DE, Goal<DU, DE>> {
    let x = vars.v[0].clone();
    let y = vars.v[1].clone();
    proto_vulcan!([match y { [["bc", 1, 2]] | [[z, _, 1 | y]] => , }, matche y { _ => { [x != [[x, y, []], [x], x]] }, fresh_name_9 => [fresh_name_9 != x, |z, x| { false, x == [1, z] }], }])
}
pub fn case_536(vars: &Vars) -> InferredGoal<DU, DE, Goal<DU, DE>> {
    let q = vars.v[0].clone();
    let x = vars.v[1].clone();
    proto_vulcan!([|z| { [match x { [[t], [2, _, _], [2, t, h] | 2] => , [_, _, [2, 1, "a" | h] | _] => , }], true }, conde { [[1, 2, q] == q, 1 != x], x == 2, [|t, y| { [] == q, match x { [[z, t, 1], [[]], [false, "bc" | _]] | _ => { true, member(q, [3, 1]) }, [[[], [], _] | _] => , } }, conde { [|h, z| { member(h, []), false }, q == _], [q, 2, q] == q }] }, conde { [append(q, q, [1]), q == [3]], [[2, 2, q] == q, match x { [[2, 3]] => x != [], }] }, closure { [2, x, x | x] == 2 }])
}
pub fn case_537(vars: &Vars) -> InferredGoal<DU, DE, Goal<DU, DE>> {
    let q = vars.v[0].clone();
    let x = vars.v[1].clone();
    proto_vulcan!([|z| { [match x { [[t], [2, _, _], [2, t, h] | 2] => , [_, _, [2, 1, "a" | h] | _] => , }], true }, conde { [[1, 2, q] == q, 1 != x], x == 2, [|t, y| { [] == q, match x { [[z, t, 1], [[]], [false, "bc" | _]] | _ => { true, member(q, [3, 1]) }, [[[], [], _] | _] => , } }, conde { [|fresh_name_9, z| { member(fresh_name_9, []), false }, q == _], [q, 2, q] == q }] }, conde { [append(q, q, [1]), q == [3]], [[2, 2, q] == q, match x { [[2, 3]] => x != [], }] }, closure { [2, x, x | x] == 2 }])
}
pub fn case_538(vars: &Vars) -> InferredGoal<DU, DE, Goal<DU, DE>> {
    let x = vars.v[0].clone();
    proto_vulcan!([matche x { [t] | [] => [[[x, x, x]] == _, conde { [|h| { true, append(x, x, [3]) }, conde { x == [x, _], [[x, _ | x] == x, x == true] }], [false, x == [x, 2]], [x == 1, matche x { 1 => , h => { member(h, [2]), x == [x] }, }] }], [[_, "bc", []], [x, t]] => , }, x == [x, _, 3 | 1], [_] == x])
}
pub fn case_539(vars: &Vars) -> InferredGoal<DU, DE, Goal<DU, DE>> {
    let x = vars.v[0].clone();
    proto_vulcan!([matche x { [t] | [] => [[[x, x, x]] == _, conde { [|h| { true, append(x, x, [3]) }, conde { x == [x, _], [[x, _ | x] == x, x == true] }], [false, x == [x, 2]], [x == 1, matche x { 1 => , h => { member(h, [2]), x == [x] }, }] }], [[_, "bc", []], [fresh_name_9, t]] => , }, x == [x, _, 3 | 1], [_] == x])
}
pub fn case_540(vars: &Vars) -> InferredGoal<DU, DE, Goal<DU, DE>> {
    let x = vars.v[0].clone();
    proto_vulcan!([|h| { h == [[x | "bc"], 2, [_, 1, x]], [false, [[h], 2 | x] == x] }, [conde { [x != [[2, 1], x], _ != [x]], [false, x == x] }], false])
}
pub fn case_541(vars: &Vars) -> InferredGoal<DU, DE, Goal<DU, DE>> {
    let x = vars.v[0].clone();
    proto_vulcan!([|fresh_name_9| { fresh_name_9 == [[x | "bc"], 2, [_, 1, x]], [false, [[fresh_name_9], 2 | x] == x] }, [conde { [x != [[2, 1], x], _ != [x]], [false, x == x] }], false])
}
pub fn case_542(vars: &Vars) -> InferredGoal<DU, DE, Goal<DU, DE>> {
    let x = vars.v[0].clone();
    proto_vulcan!([conde { [x != [x, [_]], |h, y| { [_, 2 | y] == y }], x != [1], [[x == [[2, 'a', x | x], [[], 1, 1], [x]], x == [[1, []], ["bc", x | x], ['a', x, true | x]]], [false]] }, x != x, closure { x == [x, x, _] }])
}
pub fn case_543(vars: &Vars) -> InferredGoal<DU, DE, Goal<DU, DE>> {
    let x = vars.v[0].clone();
    proto_vulcan!([conde { [x != [x, [_]], |fresh_name_9, y| { [_, 2 | y] == y }], x != [1], [[x == [[2, 'a', x | x], [[], 1, 1], [x]], x == [[1, []], ["bc", x | x], ['a', x, true | x]]], [false]] }, x != x, closure { x == [x, x, _] }])
}
pub fn case_544(vars: &Vars) -> InferredGoal<DU, DE, Goal<DU, DE>> {
    let q = vars.v[0].clone();
    let x = vars.v[1].clone();
    proto_vulcan!([match x { [[3, _ | y], x | z] => { conde { z == [1, y, q], [z == [[_, false], [1]], true], [q, y] == x }, [] == x }, true => { x != q, [matche 3 { 2 | [[false, x | t], [true, z, "a" | t], [] | x] => { q == [_, 2, q], append(q, q, []) }, 2 => [true, q != [['a' | q], 2 | 3]], }] }, [3, [x, 2], [2, 1, h | _]] => { q == q }, }, |t| { |h| { conde { [[q, h] != q, 1 == h], [2, [], q | t] == x, [] == [1] }, false, match q { 1 => , } }, x != [[q, _ | x], [_] | t] }, [x] != x])
}
pub fn case_545(vars: &Vars) -> InferredGoal<DU, DE, Goal<DU, DE>> {
    let q = vars.v[0].clone();
    let x = vars.v[1].clone();
    proto_vulcan!([match x { [[3, _ | fresh_name_9], x | z] => { conde { z == [1, fresh_name_9, q], [z == [[_, false], [1]], true], [q, fresh_name_9] == x }, [] == x }, true => { x != q, [matche 3 { 2 | [[false, x | t], [true, z, "a" | t], [] | x] => { q == [_, 2, q], append(q, q, []) }, 2 => [true, q != [['a' | q], 2 | 3]], }] }, [3, [x, 2], [2, 1, h | _]] => { q == q }, }, |t| { |h| { conde { [[q, h] != q, 1 == h], [2, [], q | t] == x, [] == [1] }, false, match q { 1 => , } }, x != [[q, _ | x], [_] | t] }, [x] != x])
}
pub fn case_546(vars: &Vars) -> InferredGoal<DU, DE, Goal<DU, DE>> {
    let q = vars.v[0].clone();
    let x = vars.v[1].clone();
    proto_vulcan!([append(q, q, [1]), _ == [], matche x { [2, [true, "a", "a"] | x] | ["a", [h | z]] => { _ == [q, q, 'b' | q], false }, z => , }, closure { q != 2 }])
}
pub fn case_547(vars: &Vars) -> InferredGoal<DU, DE, Goal<DU, DE>> {
    let q = vars.v[0].clone();
    let x = vars.v[1].clone();
    proto_vulcan!([append(q, q, [1]), _ == [], matche x { [2, [true, "a", "a"] | x] | ["a", [h | z]] => { _ == [q, q, 'b' | q], false }, fresh_name_9 => , }, closure { q != 2 }])
}
pub fn case_548(vars: &Vars) -> InferredGoal<DU, DE, Goal<DU, DE>> {
    let x = vars.v[0].clone();
    let y = vars.v[1].clone();
    proto_vulcan!([match y { [[1]] | h => { conde { false, |t| { x == 2, t == [1 | x] }, [[y == [1 | 2], [[x, y], [3 | x] | y] != 1, 1 == ["a", 1]], conde { [false, [y, [1], [3, "bc", y]] == [[_ | 1], [1, _ | y], _ | x]], y == x, x == x }] }, [1] != [1, y, 2] }, [[_ | t], [h, y, 1], [z, h] | h] => { member(x, [3, 2]) }, }])
}
pub fn case_549(vars: &Vars) -> InferredGoal<DU, DE, Goal<DU, DE>> {
    let x = vars.v[0].clone();
    let y = vars.v[1].clone();
    proto_vulcan!([match y { [[1]] | h => { conde { false, |t| { x == 2, t == [1 | x] }, [[y == [1 | 2], [[x, y], [3 | x] | y] != 1, 1 == ["a", 1]], conde { [false, [y, [1], [3, "bc", y]] == [[_ | 1], [1, _ | y], _ | x]], y == x, x == x }] }, [1] != [1, y, 2] }, [[_ | fresh_name_9], [h, y, 1], [z, h] | h] => { member(x, [3, 2]) }, }])
}
pub fn case_550(vars: &Vars) -> InferredGoal<DU, DE, Goal<DU, DE>> {
    let x = vars.v[0].clone();
    let y = vars.v[1].clone();
    proto_vulcan!([conde { [x, x, 2 | "a"] == x, x == y, [[matche x { [[y, true, x], [z], 'b'] => { member(x, [1, 3]) }, }, x == _, y == [1 | x]], append(y, x, [1, 3])] }, 1 != [1], x != y, closure { |y| { matche x { [h] => [y != 1, [_, 3 | y] != h], y | [[3] | y] => , }, match x { t => { member(x, []), _ == t }, } } }])
}
pub fn case_551(vars: &Vars) -> InferredGoal<DU, DE, Goal<DU, DE>> {
    let x = vars.v[0].clone();
    let y = vars.v[1].clone();
    proto_vulcan!([conde { [x, x, 2 | "a"] == x, x == y, [[matche x { [[y, true, x], [z], 'b'] => { member(x, [1, 3]) }, }, x == _, y == [1 | x]], append(y, x, [1, 3])] }, 1 != [1], x != y, closure { |y| { matche x { [fresh_name_9] => [y != 1, [_, 3 | y] != fresh_name_9], y | [[3] | y] => , }, match x { t => { member(x, []), _ == t }, } } }])
}
pub fn case_552(vars: &Vars) -> InferredGoal<DU, DE, Goal<DU, DE>> {
    let x = vars.v[0].clone();
    let y = vars.v[1].clone();
    proto_vulcan!([[conde { match x { _ => true == y, }, [[2 | y] == y, [_ | y] == y], [y] == [] }, y == [['b', y | x], 2, [[], y, 2] | 2], conde { |y| { [[]] == y, x == [[1, y], [[]], 1], y == 3 }, y != x }], |z| { conde { x == x, [|z| { x != [], false }, match z { [[[], t, _]] => member(y, []), }], [false, z == [1 | z]] }, y != y, x == x }, matche y { [3] => [[true, [[2] == y, false]], match [[] | x] { [[[], [], _], [2 | 1], 1 | _] => { [[1 | x]] == [x, 'b', y | x] }, }], [[y]] => conde { x == x, |h| { x == 1 } }, }, closure { matche x { [y | _] => matche y { [h, [h] | h] => [y != y, y == y], }, true | [[], 3 | _] => , } }])
}
pub fn case_553(vars: &Vars) -> InferredGoal<DU, DE, Goal<DU, DE>> {
    let x = vars.v[0].clone();
    let y = vars.v[1].clone();
    proto_vulcan!([[conde { match x { _ => true == y, }, [[2 | y] == y, [_ | y] == y], [y] == [] }, y == [['b', y | x], 2, [[], y, 2] | 2], conde { |y| { [[]] == y, x == [[1, y], [[]], 1], y == 3 }, y != x }], |z| { conde { x == x, [|z| { x != [], false }, match z { [[[], t, _]] => member(y, []), }], [false, z == [1 | z]] }, y != y, x == x }, matche y { [3] => [[true, [[2] == y, false]], match [[] | x] { [[[], [], _], [2 | 1], 1 | _] => { [[1 | x]] == [x, 'b', y | x] }, }], [[fresh_name_9]] => conde { x == x, |h| { x == 1 } }, }, closure { matche x { [y | _] => matche y { [h, [h] | h] => [y != y, y == y], }, true | [[], 3 | _] => , } }])
}
pub fn case_554(vars: &Vars) -> InferredGoal<DU, DE, Goal<DU, DE>> {
    let x = vars.v[0].clone();
    let y = vars.v[1].clone();
    proto_vulcan!([x == [x, x, [x, 'a', x | y]], conde { [[x, [], 2 | y] != y, [x != y]], [y] != y, [true, conde { match x { ["bc", [2, "bc"]] => { [_] == x }, [[z, false, 3 | z], 1] => , [1, [[], 'b', 1 | y]] => { [[2, x]] == [x] }, }, [[y == [2, _, y], x == [[2, 3], y]], y != [[y], [y, "bc", y]]], [match [[]] { 2 => , }, [y != y, x == x, x == "a"]] }] }, [[] | x] == [[[], _, y], ["bc", false, 3], x]])
}
pub fn case_555(vars: &Vars) -> InferredGoal<DU, DE, Goal<DU, DE>> {
    let x = vars.v[0].clone();
    let y = vars.v[1].clone();
    proto_vulcan!([x == [x, x, [x, 'a', x | y]], conde { [[x, [], 2 | y] != y, [x != y]], [y] != y, [true, conde { match x { ["bc", [2, "bc"]] => { [_] == x }, [[z, false, 3 | z], 1] => , [1, [[], 'b', 1 | fresh_name_9]] => { [[2, x]] == [x] }, }, [[y == [2, _, y], x == [[2, 3], y]], y != [[y], [y, "bc", y]]], [match [[]] { 2 => , }, [y != y, x == x, x == "a"]] }] }, [[] | x] == [[[], _, y], ["bc", false, 3], x]])
}
pub fn case_556(vars: &Vars) -> InferredGoal<DU, DE, Goal<DU, DE>> {
    let q = vars.v[0].clone();
    let x = vars.v[1].clone();
    proto_vulcan!([[_, "bc"] == q, match q { [[1 | _], [2, 3]] | [[h, 2], x] => [_ == q, q == q], 1 => { q != [] }, }, |t| { t == [q, [], q], |h| { [3, _] == [['a'], [x]], q != [], [t == [x]] } }])
}
pub fn case_557(vars: &Vars) -> InferredGoal<DU, DE, Goal<DU, DE>> {
    let q = vars.v[0].clone();
    let x = vars.v[1].clone();
    proto_vulcan!([[_, "bc"] == q, match q { [[1 | _], [2, 3]] | [[h, 2], x] => [_ == q, q == q], 1 => { q != [] }, }, |fresh_name_9| { fresh_name_9 == [q, [], q], |h| { [3, _] == [['a'], [x]], q != [], [fresh_name_9 == [x]] } }])
}
pub fn case_558(vars: &Vars) -> InferredGoal<DU, DE, Goal<DU, DE>> {
    let x = vars.v[0].clone();
    let y = vars.v[1].clone();
    proto_vulcan!([conde { [|y| { |y| { member(y, [1, 3, 1]), y == [y] }, x == [y] }, true], [[[2, "bc", 1], x] == y, [[], 'a' | x] == y] }, matche y { [] | [3] => y == [x, x, y], }, conde { [|t, h| { _ == [1, _, y], match y { [1] | [x, [z, 2], [2 | _]] => , [] | 3 => , }, |t| { y == [t, x] } }, y == 3], matche x { "bc" => { matche x { 'b' | [2] => , [[2, t], [3] | _] => , [1 | _] => y == [3, y | x], }, conde { [false, member(x, [])], member(y, []) } }, h => { [[y, [], 2 | x] == 1, append(h, h, [1])] }, }, [[1, y | x] == y, |y| { match y { 1 => , [2, _] => , } }] }])
}
pub fn case_559(vars: &Vars) -> InferredGoal<DU, DE, Goal<DU, DE>> {
    let x = vars.v[0].clone();
    let y = vars.v[1].clone();
    proto_vulcan!([conde { [|fresh_name_9| { |y| { member(y, [1, 3, 1]), y == [y] }, x == [fresh_name_9] }, true], [[[2, "bc", 1], x] == y, [[], 'a' | x] == y] }, matche y { [] | [3] => y == [x, x, y], }, conde { [|t, h| { _ == [1, _, y], match y { [1] | [x, [z, 2], [2 | _]] => , [] | 3 => , }, |t| { y == [t, x] } }, y == 3], matche x { "bc" => { matche x { 'b' | [2] => , [[2, t], [3] | _] => , [1 | _] => y == [3, y | x], }, conde { [false, member(x, [])], member(y, []) } }, h => { [[y, [], 2 | x] == 1, append(h, h, [1])] }, }, [[1, y | x] == y, |y| { match y { 1 => , [2, _] => , } }] }])
}
pub fn case_560(vars: &Vars) -> InferredGoal<DU, DE, Goal<DU, DE>> {
    let q = vars.v[0].clone();
    let x = vars.v[1].clone();
    proto_vulcan!([[|x| { |x| { 2 == x } }, |y, x| { y == [[x | x] | y], q == [1 | q], y == _ }]])
}
pub fn case_561(vars: &Vars) -> InferredGoal<DU, DE, Goal<DU, DE>> {
    let q = vars.v[0].clone();
    let x = vars.v[1].clone();
    proto_vulcan!([[|x| { |fresh_name_9| { 2 == fresh_name_9 } }, |y, x| { y == [[x | x] | y], q == [1 | q], y == _ }]])
}
pub fn case_562(vars: &Vars) -> InferredGoal<DU, DE, Goal<DU, DE>> {
    let q = vars.v[0].clone();
    let x = vars.v[1].clone();
    proto_vulcan!([match x { 3 => , }, closure { [|z, y| { [[2, q, 3], [[]], x | 3] != ["a"], y == [3] }, q == x] }])
}
pub fn case_563(vars: &Vars) -> InferredGoal<DU, DE, Goal<DU, DE>> {
    let q = vars.v[0].clone();
    let x = vars.v[1].clone();
    proto_vulcan!([match x { 3 => , }, closure { [|fresh_name_9, y| { [[2, q, 3], [[]], x | 3] != ["a"], y == [3] }, q == x] }])
}
pub fn case_564(vars: &Vars) -> InferredGoal<DU, DE, Goal<DU, DE>> {
    let x = vars.v[0].clone();
    let y = vars.v[1].clone();
    proto_vulcan!([conde { y != [[y, 3, [] | _], [y, x | x] | y], [matche x { [[t | _], 2, _] => { false, member(t, [3]) }, _ => { member(y, [2]) }, }, true, append(y, y, [3, 3])], x == [1, y] }])
}
pub fn case_565(vars: &Vars) -> InferredGoal<DU, DE, Goal<DU, DE>> {
    let x = vars.v[0].clone();
    let y = vars.v[1].clone();
    proto_vulcan!([conde { y != [[y, 3, [] | _], [y, x | x] | y], [matche x { [[fresh_name_9 | _], 2, _] => { false, member(fresh_name_9, [3]) }, _ => { member(y, [2]) }, }, true, append(y, y, [3, 3])], x == [1, y] }])
}
pub fn case_566(vars: &Vars) -> InferredGoal<DU, DE, Goal<DU, DE>> {
    let x = vars.v[0].clone();
    proto_vulcan!([|t| { matche t { y | 2 => |h| { h == [t, 3] }, }, [[t, t]] == x, [false | t] == x }, [2 | x] == [[[], x], [3, 1 | x], true]])
}
pub fn case_567(vars: &Vars) -> InferredGoal<DU, DE, Goal<DU, DE>> {
    let x = vars.v[0].clone();
    proto_vulcan!([|fresh_name_9| { matche fresh_name_9 { y | 2 => |h| { h == [fresh_name_9, 3] }, }, [[fresh_name_9, fresh_name_9]] == x, [false | fresh_name_9] == x }, [2 | x] == [[[], x], [3, 1 | x], true]])
}
pub fn case_568(vars: &Vars) -> InferredGoal<DU, DE, Goal<DU, DE>> {
    let q = vars.v[0].clone();
    let x = vars.v[1].clone();
    proto_vulcan!([|z| { true, match q { [] => , 1 => [2 != x, x != [[[], z]]], [[x, 2 | y] | h] => [2 == z, y == [[2, _ | y], [1, 2 | x], [3, z, 1 | _]]], }, [2, x, []] == 'a' }, match q { [[1, []], true, 3 | y] => match x { [_] | y => [x != q, x == 3], z => , }, [1 | h] => { 2 == h, false }, }, match q { 3 => , [t, ["bc" | z], [y]] => { match z { [x, [2, []] | h] | 2 => [[t, [t, _ | y], [t]] == z, match t { [h, [_], [t, h, x | z] | x] => { [[1 | t], z] == z, append(t, h, [1, 3]) }, 2 => true, }], } }, }, closure { [|z| { [z] == q }, [matche [_, x, []] { z => { q == x, 3 == q }, t => , [[y, y, 3], 3] => x == 2, }, q == [x, 3, [x, q, x | q]]]] }])
}
pub fn case_569(vars: &Vars) -> InferredGoal<DU, DE, Goal<DU, DE>> {
    let q = vars.v[0].clone();
    let x = vars.v[1].clone();
    proto_vulcan!([|z| { true, match q { [] => , 1 => [2 != x, x != [[[], z]]], [[x, 2 | y] | h] => [2 == z, y == [[2, _ | y], [1, 2 | x], [3, z, 1 | _]]], }, [2, x, []] == 'a' }, match q { [[1, []], true, 3 | y] => match x { [_] | y => [x != q, x == 3], fresh_name_9 => , }, [1 | h] => { 2 == h, false }, }, match q { 3 => , [t, ["bc" | z], [y]] => { match z { [x, [2, []] | h] | 2 => [[t, [t, _ | y], [t]] == z, match t { [h, [_], [t, h, x | z] | x] => { [[1 | t], z] == z, append(t, h, [1, 3]) }, 2 => true, }], } }, }, closure { [|z| { [z] == q }, [matche [_, x, []] { z => { q == x, 3 == q }, t => , [[y, y, 3], 3] => x == 2, }, q == [x, 3, [x, q, x | q]]]] }])
}
pub fn case_570(vars: &Vars) -> InferredGoal<DU, DE, Goal<DU, DE>> {
    let x = vars.v[0].clone();
    let y = vars.v[1].clone();
    proto_vulcan!([matche [2 | x] { [[x, 2 | y], [1]] => , 3 | [1, [t | y], [_, _]] => { matche x { y => [|x, y| { _ == x, 1 == x, y == [[2, y, _], [3, 3, false], y] }, [[3, y, x] | x] == y], y | [[y], [y, true, 1]] => [[x == []], [x == y, x == [y, 2, []]]], } }, [[], [1, h, 1]] | false => [x == 2, [2 == y]], }, conde { y != [x, 1], [|t| { t == x }, |z| { false, y == [] }], |h| { matche x { [[_, 1], 2 | 'a'] | h => , [[_], [3, 3], 3 | z] => , [[z, 1, 2], 1 | _] => [2] == x, } } }, |z| { matche z { [[y, z | y], _, _ | "bc"] => , y | h => [matche x { [] => [[[1], [x, [], 2 | z]] == [x, false], z == x], [[[], z], [x], [h | h]] => member(z, [3]), x => { false }, }, false], "a" => { z != y }, }, y != true, member(x, [1]) }])
}
pub fn case_571(vars: &Vars) -> InferredGoal<DU, DE, Goal<DU, DE>> {
    let x = vars.v[0].clone();
    let y = vars.v[1].clone();
    proto_vulcan!([matche [2 | x] { [[x, 2 | y], [1]] => , 3 | [1, [t | y], [_, _]] => { matche x { y => [|x, y| { _ == x, 1 == x, y == [[2, y, _], [3, 3, false], y] }, [[3, y, x] | x] == y], y | [[y], [y, true, 1]] => [[x == []], [x == y, x == [y, 2, []]]], } }, [[], [1, h, 1]] | false => [x == 2, [2 == y]], }, conde { y != [x, 1], [|t| { t == x }, |fresh_name_9| { false, y == [] }], |h| { matche x { [[_, 1], 2 | 'a'] | h => , [[_], [3, 3], 3 | z] => , [[z, 1, 2], 1 | _] => [2] == x, } } }, |z| { matche z { [[y, z | y], _, _ | "bc"] => , y | h => [matche x { [] => [[[1], [x, [], 2 | z]] == [x, false], z == x], [[[], z], [x], [h | h]] => member(z, [3]), x => { false }, }, false], "a" => { z != y }, }, y != true, member(x, [1]) }])
}
pub fn case_572(vars: &Vars) -> InferredGoal<DU, DE, Goal<DU, DE>> {
    let x = vars.v[0].clone();
    proto_vulcan!([false, conde { [conde { [match x { [['a'], ['a', _]] => , }, ["a", [2] | x] == x], [[1, 3, 1] != x, [x != false, x == ['b', 1 | x], member(x, [2])]] }, [2] == x], match x { [[_, z]] | [[h, 2, 1]] => { match [x, x | x] { 1 => false, x => , [[false]] => { x != x, _ == x }, } }, [[3 | _], [2], [[], 3 | 1] | t] => { |h, z| { [h, t, []] == t }, |z, y| { append(z, x, [3]), z != y, 'b' == z } }, 1 => , } }])
}
pub fn case_573(vars: &Vars) -> InferredGoal<DU, DE, Goal<DU, DE>> {
    let x = vars.v[0].clone();
    proto_vulcan!([false, conde { [conde { [match x { [['a'], ['a', _]] => , }, ["a", [2] | x] == x], [[1, 3, 1] != x, [x != false, x == ['b', 1 | x], member(x, [2])]] }, [2] == x], match x { [[_, z]] | [[h, 2, 1]] => { match [x, x | x] { 1 => false, x => , [[false]] => { x != x, _ == x }, } }, [[3 | _], [2], [[], 3 | 1] | t] => { |h, z| { [h, t, []] == t }, |fresh_name_9, y| { append(fresh_name_9, x, [3]), fresh_name_9 != y, 'b' == fresh_name_9 } }, 1 => , } }])
}
pub fn case_574(vars: &Vars) -> InferredGoal<DU, DE, Goal<DU, DE>> {
    let q = vars.v[0].clone();
    let x = vars.v[1].clone();
    proto_vulcan!([2 == q, closure { [q == [[], x, x], |t| { x == [_, x, []] }] }])
}
pub fn case_575(vars: &Vars) -> InferredGoal<DU, DE, Goal<DU, DE>> {
    let q = vars.v[0].clone();
    let x = vars.v[1].clone();
    proto_vulcan!([2 == q, closure { [q == [[], x, x], |fresh_name_9| { x == [_, x, []] }] }])
}
pub fn case_576(vars: &Vars) -> InferredGoal<DU, DE, Goal<DU, DE>> {
    let q = vars.v[0].clone();
    let x = vars.v[1].clone();
    proto_vulcan!([|h| { [q == q], match q { [[true | x], z | _] => , [z, z, z | h] => , }, conde { [[x == q], q != _], h != h } }, match q { y | [[h, x, 1 | _], [1, h, x | _]] => , }, closure { [|y| { q == 3, [[]] == y, member(x, [1]) }, 2 == 1, x == [1, x]] }])
}
pub fn case_577(vars: &Vars) -> InferredGoal<DU, DE, Goal<DU, DE>> {
    let q = vars.v[0].clone();
    let x = vars.v[1].clone();
    proto_vulcan!([|h| { [q == q], match q { [[true | x], z | _] => , [z, z, z | fresh_name_9] => , }, conde { [[x == q], q != _], h != h } }, match q { y | [[h, x, 1 | _], [1, h, x | _]] => , }, closure { [|y| { q == 3, [[]] == y, member(x, [1]) }, 2 == 1, x == [1, x]] }])
}
pub fn case_578(vars: &Vars) -> InferredGoal<DU, DE, Goal<DU, DE>> {
    let x = vars.v[0].clone();
    proto_vulcan!([match x { [[1]] => { |t, x| { x != x, |y| { t != [x], [y] != t, y == [t, x | t] } }, matche x { [[[], _, 1 | h], [_, []]] => { conde { true, x == x, [h == [[]], x == _] } }, } }, [[z]] => , 1 => [2 == x, |x| { |y| { [false, [] | x] == x, 1 != y, x == [y] }, match x { [[1, [] | _], [[] | _], [1, y, 2 | _] | x] => , [[t | t]] | [[], [x | _], [1, x | h]] => , }, x == [1] }], }, |t| { match t { [[y | y]] => |t| { [t, 1, [_, []]] == y, [y, []] == x, [['b', t], _] != [2, 1, _] }, [[2, _, 2]] | [] => { matche t { [t, [z, h, t | 'a'], [_, t, 'b']] => { [] == z }, }, x == [] }, [] => { matche t { h | 1 => , [[[]]] => { 1 != [_, [t, t] | 1], [2] == t }, }, conde { [[], x, "a"] == x, [[1, 2, x] == t, member(t, [1, 1])] } }, }, t == [x, t | x] }, closure { [[x] == x, _ != x] }])
}
pub fn case_579(vars: &Vars) -> InferredGoal<DU, DE, Goal<DU, DE>> {
    let x = vars.v[0].clone();
    proto_vulcan!([match x { [[1]] => { |t, x| { x != x, |y| { t != [x], [y] != t, y == [t, x | t] } }, matche x { [[[], _, 1 | h], [_, []]] => { conde { true, x == x, [h == [[]], x == _] } }, } }, [[z]] => , 1 => [2 == x, |x| { |y| { [false, [] | x] == x, 1 != y, x == [y] }, match x { [[1, [] | _], [[] | _], [1, y, 2 | _] | x] => , [[t | t]] | [[], [x | _], [1, x | h]] => , }, x == [1] }], }, |t| { match t { [[y | y]] => |t| { [t, 1, [_, []]] == y, [y, []] == x, [['b', t], _] != [2, 1, _] }, [[2, _, 2]] | [] => { matche t { [t, [fresh_name_9, h, t | 'a'], [_, t, 'b']] => { [] == fresh_name_9 }, }, x == [] }, [] => { matche t { h | 1 => , [[[]]] => { 1 != [_, [t, t] | 1], [2] == t }, }, conde { [[], x, "a"] == x, [[1, 2, x] == t, member(t, [1, 1])] } }, }, t == [x, t | x] }, closure { [[x] == x, _ != x] }])
}
pub fn case_580(vars: &Vars) -> InferredGoal<DU, DE, Goal<DU, DE>> {
    let q = vars.v[0].clone();
    let x = vars.v[1].clone();
    proto_vulcan!([[x, [q, 2, q | x], [3] | x] == q, closure { |h| { q == x, _ == q, append(h, q, [2, 2]) } }])
}
pub fn case_581(vars: &Vars) -> InferredGoal<DU, DE, Goal<DU, DE>> {
    let q = vars.v[0].clone();
    let x = vars.v[1].clone();
    proto_vulcan!([[x, [q, 2, q | x], [3] | x] == q, closure { |fresh_name_9| { q == x, _ == q, append(fresh_name_9, q, [2, 2]) } }])
}
pub fn case_582(vars: &Vars) -> InferredGoal<DU, DE, Goal<DU, DE>> {
    let q = vars.v[0].clone();
    let x = vars.v[1].clone();
    proto_vulcan!([|x, y| { matche y { [[_] | z] => |x, t| { [[1, "a" | 2], [1] | x] == t }, t => { matche 3 { 2 => { x != x }, }, |t| { [_, [t, 3], [q, t]] != [[2, [], _]], false, x == [_, [] | t] } }, }, member(x, [1, 3]), match x { true => matche [1, x, q] { [[2, 2] | _] => [x != [3, 3], x == [3, [], y]], [[_, x | _], [_] | x] => , 2 => [true, y == ["a", 2, "bc"]], }, [x, [_, _, 1]] | [[3, []], 2, [x, 'a' | y] | h] => [|z, t| { q != [1 | t], q != [["bc"]], false }, x == 2], [y, [x, _, true | x]] => , } }, conde { |z| { member(q, [2, 2]), |h, x| { [3] == z, h == [h, 1] } }, [[1] == x, conde { q == [x | q], [[[x, [_, 'a' | q], [2] | x] == [q], q == [_ | q], x == q], q == ['b', q, x]], [matche q { [[h, h], x, [_]] => q == [true, 2], h => [[q, 1, []] == x, [[]] == q], }, match [[] | q] { t => { [[t], [], [x]] == x }, }] }], |x, t| { match [q, x, 1 | x] { [t] => [t == t, q == t], }, q == t } }, closure { q != x }])
}
pub fn case_583(vars: &Vars) -> InferredGoal<DU, DE, Goal<DU, DE>> {
    let q = vars.v[0].clone();
    let x = vars.v[1].clone();
    proto_vulcan!([|fresh_name_9, y| { matche y { [[_] | z] => |x, t| { [[1, "a" | 2], [1] | x] == t }, t => { matche 3 { 2 => { fresh_name_9 != fresh_name_9 }, }, |t| { [_, [t, 3], [q, t]] != [[2, [], _]], false, fresh_name_9 == [_, [] | t] } }, }, member(fresh_name_9, [1, 3]), match fresh_name_9 { true => matche [1, fresh_name_9, q] { [[2, 2] | _] => [fresh_name_9 != [3, 3], fresh_name_9 == [3, [], y]], [[_, x | _], [_] | x] => , 2 => [true, y == ["a", 2, "bc"]], }, [x, [_, _, 1]] | [[3, []], 2, [x, 'a' | y] | h] => [|z, t| { q != [1 | t], q != [["bc"]], false }, x == 2], [y, [x, _, true | x]] => , } }, conde { |z| { member(q, [2, 2]), |h, x| { [3] == z, h == [h, 1] } }, [[1] == x, conde { q == [x | q], [[[x, [_, 'a' | q], [2] | x] == [q], q == [_ | q], x == q], q == ['b', q, x]], [matche q { [[h, h], x, [_]] => q == [true, 2], h => [[q, 1, []] == x, [[]] == q], }, match [[] | q] { t => { [[t], [], [x]] == x }, }] }], |x, t| { match [q, x, 1 | x] { [t] => [t == t, q == t], }, q == t } }, closure { q != x }])
}
pub fn case_584(vars: &Vars) -> InferredGoal<DU, DE, Goal<DU, DE>> {
    let x = vars.v[0].clone();
    proto_vulcan!([matche x { x => , [[1, []], t, [2, 'b']] | [3, [_ | _]] => { _ == [[x], [_, x, "bc"], [[], [], 3]] }, t | y => , }])
}
pub fn case_585(vars: &Vars) -> InferredGoal<DU, DE, Goal<DU, DE>> {
    let x = vars.v[0].clone();
    proto_vulcan!([matche x { fresh_name_9 => , [[1, []], t, [2, 'b']] | [3, [_ | _]] => { _ == [[x], [_, x, "bc"], [[], [], 3]] }, t | y => , }])
}
pub fn case_586(vars: &Vars) -> InferredGoal<DU, DE, Goal<DU, DE>> {
    let x = vars.v[0].clone();
    proto_vulcan!([3 == x, |h| { [|y, h| { [3] != [[[]]] }, h == 2, false], |t, y| { |t| { [[true], 'b' | x] == h, x == [[y]], 1 == t } } }, [[x, x, 2 | x] | x] == x, closure { [[x], [1, true, 1], [x, 2]] == [[] | x] }])
}
pub fn case_587(vars: &Vars) -> InferredGoal<DU, DE, Goal<DU, DE>> {
    let x = vars.v[0].clone();
    proto_vulcan!([3 == x, |h| { [|fresh_name_9, h| { [3] != [[[]]] }, h == 2, false], |t, y| { |t| { [[true], 'b' | x] == h, x == [[y]], 1 == t } } }, [[x, x, 2 | x] | x] == x, closure { [[x], [1, true, 1], [x, 2]] == [[] | x] }])
}
pub fn case_588(vars: &Vars) -> InferredGoal<DU, DE, Goal<DU, DE>> {
    let x = vars.v[0].clone();
    proto_vulcan!([|h, y| { y != [h | x], match y { [[[], t], h, [t, _, 2] | 2] | [[1, 2], [[], [], 3 | _]] => , [[h | _], h, [2] | t] => , z | [[t, 1, _], [x, h] | _] => { |x| { y == y, false }, y == [y, "a", y] }, }, h == 2 }, match x { [[1 | _], 3 | h] => , 1 | 1 => , }, closure { false }])
}
pub fn case_589(vars: &Vars) -> InferredGoal<DU, DE, Goal<DU, DE>> {
    let x = vars.v[0].clone();
    proto_vulcan!([|h, y| { y != [h | x], match y { [[[], t], h, [t, _, 2] | 2] | [[1, 2], [[], [], 3 | _]] => , [[h | _], h, [2] | t] => , z | [[t, 1, _], [x, h] | _] => { |fresh_name_9| { y == y, false }, y == [y, "a", y] }, }, h == 2 }, match x { [[1 | _], 3 | h] => , 1 | 1 => , }, closure { false }])
}
pub fn case_590(vars: &Vars) -> InferredGoal<DU, DE, Goal<DU, DE>> {
    let q = vars.v[0].clone();
    let x = vars.v[1].clone();
    proto_vulcan!([[1, x | x] != x, |h| { conde { [[h == x], |t, z| { false }], [append(q, h, [3]), conde { [member(q, []), h == [h, [x | q] | q]], [x == x, 2 == [[], []]], x == [_, 3] }] }, match x { [[y]] | 3 => { conde { [q != 'a', x != [[] | q]], q == 2, [_] != x }, [2 == h, ['a', _, [] | q] != q] }, 'a' => { x == 2 }, [[] | z] => { [z, 2, x] == h }, }, x == q }])
}
pub fn case_591(vars: &Vars) -> InferredGoal<DU, DE, Goal<DU, DE>> {
    let q = vars.v[0].clone();
    let x = vars.v[1].clone();
    proto_vulcan!([[1, x | x] != x, |fresh_name_9| { conde { [[fresh_name_9 == x], |t, z| { false }], [append(q, fresh_name_9, [3]), conde { [member(q, []), fresh_name_9 == [fresh_name_9, [x | q] | q]], [x == x, 2 == [[], []]], x == [_, 3] }] }, match x { [[y]] | 3 => { conde { [q != 'a', x != [[] | q]], q == 2, [_] != x }, [2 == fresh_name_9, ['a', _, [] | q] != q] }, 'a' => { x == 2 }, [[] | z] => { [z, 2, x] == fresh_name_9 }, }, x == q }])
}
pub fn case_592(vars: &Vars) -> InferredGoal<DU, DE, Goal<DU, DE>> {
    let x = vars.v[0].clone();
    let y = vars.v[1].clone();
    proto_vulcan!([|h| { matche [h] { [[_ | x], []] => { matche x { [[t, 'b'], [z, [], z], [_, x]] => [t != z, [x] == [_, [2, "bc", _], [[], []]]], [_, z] => [y == _, true], [3, [[], []]] => , }, conde { [3 != y, ['b'] == h], [3 == x, h == [[], x]] } }, t => [true, match x { [1, z | "a"] => , [1, ["bc"], t | h] => { y == [_] }, }], }, [[[]] != y, matche y { [z, [2]] => [[2, z] == y, "bc" != y], [[3] | 1] | y => , }] }, [[3] == [y]], y == [y], closure { [|h| { h == [1 | y] }, match y { 3 => { |h| { 'a' == [_], true, append(y, x, [3]) }, y == x }, }] }])
}
pub fn case_593(vars: &Vars) -> InferredGoal<DU, DE, Goal<DU, DE>> {
    let x = vars.v[0].clone();
    let y = vars.v[1].clone();
    proto_vulcan!([|h| { matche [h] { [[_ | fresh_name_9], []] => { matche fresh_name_9 { [[t, 'b'], [z, [], z], [_, x]] => [t != z, [x] == [_, [2, "bc", _], [[], []]]], [_, z] => [y == _, true], [3, [[], []]] => , }, conde { [3 != y, ['b'] == h], [3 == fresh_name_9, h == [[], fresh_name_9]] } }, t => [true, match x { [1, z | "a"] => , [1, ["bc"], t | h] => { y == [_] }, }], }, [[[]] != y, matche y { [z, [2]] => [[2, z] == y, "bc" != y], [[3] | 1] | y => , }] }, [[3] == [y]], y == [y], closure { [|h| { h == [1 | y] }, match y { 3 => { |h| { 'a' == [_], true, append(y, x, [3]) }, y == x }, }] }])
}
pub fn case_594(vars: &Vars) -> InferredGoal<DU, DE, Goal<DU, DE>> {
    let q = vars.v[0].clone();
    let x = vars.v[1].clone();
    proto_vulcan!([|t, z| { t == [2], [3 | 2] != z, |h| { t == x, conde { [h == [[q, []], [1]], [2, 3, q] != q], [[x | x] == x, z == _], [[1, [], h] == z, [1] == t] }, [3] == z } }, [member(q, [1, 2])]])
}
pub fn case_595(vars: &Vars) -> InferredGoal<DU, DE, Goal<DU, DE>> {
    let q = vars.v[0].clone();
    let x = vars.v[1].clone();
    proto_vulcan!([|fresh_name_9, z| { fresh_name_9 == [2], [3 | 2] != z, |h| { fresh_name_9 == x, conde { [h == [[q, []], [1]], [2, 3, q] != q], [[x | x] == x, z == _], [[1, [], h] == z, [1] == fresh_name_9] }, [3] == z } }, [member(q, [1, 2])]])
}
pub fn case_596(vars: &Vars) -> InferredGoal<DU, DE, Goal<DU, DE>> {
    let q = vars.v[0].clone();
    let x = vars.v[1].clone();
    proto_vulcan!([true, closure { [[[false, x == [x | x]]], conde { match [[], 3, q] { y => [y != 3, [] == y], [] | y => { x == [_, "a"], 'b' == x }, }, [match x { [[3, x], 2, [y]] => , [[z], [[]] | _] => [x == 'b', true], }, [member(x, [3, 1, 2])]], 'a' != q }] }])
}
pub fn case_597(vars: &Vars) -> InferredGoal<DU, DE, Goal<DU, DE>> {
    let q = vars.v[0].clone();
    let x = vars.v[1].clone();
    proto_vulcan!([true, closure { [[[false, x == [x | x]]], conde { match [[], 3, q] { fresh_name_9 => [fresh_name_9 != 3, [] == fresh_name_9], [] | y => { x == [_, "a"], 'b' == x }, }, [match x { [[3, x], 2, [y]] => , [[z], [[]] | _] => [x == 'b', true], }, [member(x, [3, 1, 2])]], 'a' != q }] }])
}
pub fn case_598(vars: &Vars) -> InferredGoal<DU, DE, Goal<DU, DE>> {
    let q = vars.v[0].clone();
    let x = vars.v[1].clone();
    proto_vulcan!([[conde { [append(q, q, []), q == []], [|h| { true }, [true | q] == [_]] }]])
}
pub fn case_599(vars: &Vars) -> InferredGoal<DU, DE, Goal<DU, DE>> {
    let q = vars.v[0].clone();
    let x = vars.v[1].clone();
    proto_vulcan!([[conde { [append(q, q, []), q == []], [|fresh_name_9| { true }, [true | q] == [_]] }]])
}
pub fn case_600(vars: &Vars) -> InferredGoal<DU, DE, Goal<DU, DE>> {
    let x = vars.v[0].clone();
    proto_vulcan!([|t| { [_, 3, x] == t }, |t| { conde { conde { [[x, "a", 3], _] == t, true, [append(t, t, [2, 3]), t == [t]] }, [conde { x != t, [x != t, member(x, [2, 3])], [x == [t, 1, _], 1 == x] }, 3 == x], match t { 3 => { t == [1, true] }, 2 | [[[]], z, ['a', [], true]] => , } }, conde { [] == x, [x != x, x == ["bc"]], [t == x, false] } }])
}
pub fn case_601(vars: &Vars) -> InferredGoal<DU, DE, Goal<DU, DE>> {
    let x = vars.v[0].clone();
    proto_vulcan!([|t| { [_, 3, x] == t }, |fresh_name_9| { conde { conde { [[x, "a", 3], _] == fresh_name_9, true, [append(fresh_name_9, fresh_name_9, [2, 3]), fresh_name_9 == [fresh_name_9]] }, [conde { x != fresh_name_9, [x != fresh_name_9, member(x, [2, 3])], [x == [fresh_name_9, 1, _], 1 == x] }, 3 == x], match fresh_name_9 { 3 => { fresh_name_9 == [1, true] }, 2 | [[[]], z, ['a', [], true]] => , } }, conde { [] == x, [x != x, x == ["bc"]], [fresh_name_9 == x, false] } }])
}
pub fn case_602(vars: &Vars) -> InferredGoal<DU, DE, Goal<DU, DE>> {
    let x = vars.v[0].clone();
    let y = vars.v[1].clone();
    proto_vulcan!([|x| { true, [_, 2 | y] == x }, 1 == y, [[_, 1], [2, true | x], [x, 2]] == x])
}
pub fn case_603(vars: &Vars) -> InferredGoal<DU, DE, Goal<DU, DE>> {
    let x = vars.v[0].clone();
    let y = vars.v[1].clone();
    proto_vulcan!([|fresh_name_9| { true, [_, 2 | y] == fresh_name_9 }, 1 == y, [[_, 1], [2, true | x], [x, 2]] == x])
}
pub fn case_604(vars: &Vars) -> InferredGoal<DU, DE, Goal<DU, DE>> {
    let x = vars.v[0].clone();
    let y = vars.v[1].clone();
    proto_vulcan!([|y| { [_, x, 'a' | 1] == y, [[1], [y, 1], [x, []] | x] != y, conde { [[y != [y, [], y | x], false], matche y { [2, y, [2, 3, y | _]] => { true, y != false }, [h, [], 1] => y == [2, [x, 1]], [[2 | _] | z] => 2 != x, }], [matche [2, 'b', _] { [[y] | _] => { y == [2], [1, 1, y | 2] == y }, [[y], [], [2, [], t | 2] | "a"] | z => [append(x, x, []), x == x], }, |y| { y == [[false, false, _], _, 1] }] } }, 'b' != _])
}
pub fn case_605(vars: &Vars) -> InferredGoal<DU, DE, Goal<DU, DE>> {
    let x = vars.v[0].clone();
    let y = vars.v[1].clone();
    proto_vulcan!([|fresh_name_9| { [_, x, 'a' | 1] == fresh_name_9, [[1], [fresh_name_9, 1], [x, []] | x] != fresh_name_9, conde { [[fresh_name_9 != [fresh_name_9, [], fresh_name_9 | x], false], matche fresh_name_9 { [2, y, [2, 3, y | _]] => { true, y != false }, [h, [], 1] => fresh_name_9 == [2, [x, 1]], [[2 | _] | z] => 2 != x, }], [matche [2, 'b', _] { [[y] | _] => { y == [2], [1, 1, y | 2] == y }, [[y], [], [2, [], t | 2] | "a"] | z => [append(x, x, []), x == x], }, |y| { y == [[false, false, _], _, 1] }] } }, 'b' != _])
}
pub fn case_606(vars: &Vars) -> InferredGoal<DU, DE, Goal<DU, DE>> {
    let x = vars.v[0].clone();
    proto_vulcan!([[[x]] == x, member(x, [2, 1]), closure { match x { [[h, 1], [1, x]] => { "a" == x }, } }])
}
pub fn case_607(vars: &Vars) -> InferredGoal<DU, DE, Goal<DU, DE>> {
    let x = vars.v[0].clone();
    proto_vulcan!([[[x]] == x, member(x, [2, 1]), closure { match x { [[fresh_name_9, 1], [1, x]] => { "a" == x }, } }])
}
pub fn case_608(vars: &Vars) -> InferredGoal<DU, DE, Goal<DU, DE>> {
    let x = vars.v[0].clone();
    let y = vars.v[1].clone();
    proto_vulcan!([conde { [true, conde { [[y] == x, [x != _, x != y, [x] == [y, y]]], matche y { [[t], [y, h, _]] => [t == y, h != []], y | [2, h] => { member(x, [2, 2, 3]), append(x, x, [3, 2]) }, h | [[y, 3, "a"]] => [_, _, x] == x, } }], |z| { [append(z, x, [])], conde { [[2 | z] == x, z == 2], [[y, [z, "a", z]] == [], x == [1 | z]] } }, [conde { [conde { [y != [[3, x], 1, 2], [3, 1] == y], ['b', y] == x }, conde { [3 == x, [x] == x], [y == [], x == [x, 2, 3 | x]] }], "bc" == x, false }, [1, x] == y] }])
}
pub fn case_609(vars: &Vars) -> InferredGoal<DU, DE, Goal<DU, DE>> {
    let x = vars.v[0].clone();
    let y = vars.v[1].clone();
    proto_vulcan!([conde { [true, conde { [[y] == x, [x != _, x != y, [x] == [y, y]]], matche y { [[fresh_name_9], [y, h, _]] => [fresh_name_9 == y, h != []], y | [2, h] => { member(x, [2, 2, 3]), append(x, x, [3, 2]) }, h | [[y, 3, "a"]] => [_, _, x] == x, } }], |z| { [append(z, x, [])], conde { [[2 | z] == x, z == 2], [[y, [z, "a", z]] == [], x == [1 | z]] } }, [conde { [conde { [y != [[3, x], 1, 2], [3, 1] == y], ['b', y] == x }, conde { [3 == x, [x] == x], [y == [], x == [x, 2, 3 | x]] }], "bc" == x, false }, [1, x] == y] }])
}
pub const NCASES: usize = 610;
pub fn case(i: usize, vars: &Vars) -> Goal<DU, DE> {
    match i {
        0 => case_0(vars).goal,
        1 => case_1(vars).goal,
        2 => case_2(vars).goal,
        3 => case_3(vars).goal,
        4 => case_4(vars).goal,
        5 => case_5(vars).goal,
        6 => case_6(vars).goal,
        7 => case_7(vars).goal,
        8 => case_8(vars).goal,
        9 => case_9(vars).goal,
        10 => case_10(vars).goal,
        11 => case_11(vars).goal,
        12 => case_12(vars).goal,
        13 => case_13(vars).goal,
        14 => case_14(vars).goal,
        15 => case_15(vars).goal,
        16 => case_16(vars).goal,
        17 => case_17(vars).goal,
        18 => case_18(vars).goal,
        19 => case_19(vars).goal,
        20 => case_20(vars).goal,
        21 => case_21(vars).goal,
        22 => case_22(vars).goal,
        23 => case_23(vars).goal,
        24 => case_24(vars).goal,
        25 => case_25(vars).goal,
        26 => case_26(vars).goal,
        27 => case_27(vars).goal,
        28 => case_28(vars).goal,
        29 => case_29(vars).goal,
        30 => case_30(vars).goal,
        31 => case_31(vars).goal,
        32 => case_32(vars).goal,
        33 => case_33(vars).goal,
        34 => case_34(vars).goal,
        35 => case_35(vars).goal,
        36 => case_36(vars).goal,
        37 => case_37(vars).goal,
        38 => case_38(vars).goal,
        39 => case_39(vars).goal,
        40 => case_40(vars).goal,
        41 => case_41(vars).goal,
        42 => case_42(vars).goal,
        43 => case_43(vars).goal,
        44 => case_44(vars).goal,
        45 => case_45(vars).goal,
        46 => case_46(vars).goal,
        47 => case_47(vars).goal,
        48 => case_48(vars).goal,
        49 => case_49(vars).goal,
        50 => case_50(vars).goal,
        51 => case_51(vars).goal,
        52 => case_52(vars).goal,
        53 => case_53(vars).goal,
        54 => case_54(vars).goal,
        55 => case_55(vars).goal,
        56 => case_56(vars).goal,
        57 => case_57(vars).goal,
        58 => case_58(vars).goal,
        59 => case_59(vars).goal,
        60 => case_60(vars).goal,
        61 => case_61(vars).goal,
        62 => case_62(vars).goal,
        63 => case_63(vars).goal,
        64 => case_64(vars).goal,
        65 => case_65(vars).goal,
        66 => case_66(vars).goal,
        67 => case_67(vars).goal,
        68 => case_68(vars).goal,
        69 => case_69(vars).goal,
        70 => case_70(vars).goal,
        71 => case_71(vars).goal,
        72 => case_72(vars).goal,
        73 => case_73(vars).goal,
        74 => case_74(vars).goal,
        75 => case_75(vars).goal,
        76 => case_76(vars).goal,
        77 => case_77(vars).goal,
        78 => case_78(vars).goal,
        79 => case_79(vars).goal,
        80 => case_80(vars).goal,
        81 => case_81(vars).goal,
        82 => case_82(vars).goal,
        83 => case_83(vars).goal,
        84 => case_84(vars).goal,
        85 => case_85(vars).goal,
        86 => case_86(vars).goal,
        87 => case_87(vars).goal,
        88 => case_88(vars).goal,
        89 => case_89(vars).goal,
        90 => case_90(vars).goal,
        91 => case_91(vars).goal,
        92 => case_92(vars).goal,
        93 => case_93(vars).goal,
        94 => case_94(vars).goal,
        95 => case_95(vars).goal,
        96 => case_96(vars).goal,
        97 => case_97(vars).goal,
        98 => case_98(vars).goal,
        99 => case_99(vars).goal,
        100 => case_100(vars).goal,
        101 => case_101(vars).goal,
        102 => case_102(vars).goal,
        103 => case_103(vars).goal,
        104 => case_104(vars).goal,
        105 => case_105(vars).goal,
        106 => case_106(vars).goal,
        107 => case_107(vars).goal,
        108 => case_108(vars).goal,
        109 => case_109(vars).goal,
        110 => case_110(vars).goal,
        111 => case_111(vars).goal,
        112 => case_112(vars).goal,
        113 => case_113(vars).goal,
        114 => case_114(vars).goal,
        115 => case_115(vars).goal,
        116 => case_116(vars).goal,
        117 => case_117(vars).goal,
        118 => case_118(vars).goal,
        119 => case_119(vars).goal,
        120 => case_120(vars).goal,
        121 => case_121(vars).goal,
        122 => case_122(vars).goal,
        123 => case_123(vars).goal,
        124 => case_124(vars).goal,
        125 => case_125(vars).goal,
        126 => case_126(vars).goal,
        127 => case_127(vars).goal,
        128 => case_128(vars).goal,
        129 => case_129(vars).goal,
        130 => case_130(vars).goal,
        131 => case_131(vars).goal,
        132 => case_132(vars).goal,
        133 => case_133(vars).goal,
        134 => case_134(vars).goal,
        135 => case_135(vars).goal,
        136 => case_136(vars).goal,
        137 => case_137(vars).goal,
        138 => case_138(vars).goal,
        139 => case_139(vars).goal,
        140 => case_140(vars).goal,
        141 => case_141(vars).goal,
        142 => case_142(vars).goal,
        143 => case_143(vars).goal,
        144 => case_144(vars).goal,
        145 => case_145(vars).goal,
        146 => case_146(vars).goal,
        147 => case_147(vars).goal,
        148 => case_148(vars).goal,
        149 => case_149(vars).goal,
        150 => case_150(vars).goal,
        151 => case_151(vars).goal,
        152 => case_152(vars).goal,
        153 => case_153(vars).goal,
        154 => case_154(vars).goal,
        155 => case_155(vars).goal,
        156 => case_156(vars).goal,
        157 => case_157(vars).goal,
        158 => case_158(vars).goal,
        159 => case_159(vars).goal,
        160 => case_160(vars).goal,
        161 => case_161(vars).goal,
        162 => case_162(vars).goal,
        163 => case_163(vars).goal,
        164 => case_164(vars).goal,
        165 => case_165(vars).goal,
        166 => case_166(vars).goal,
        167 => case_167(vars).goal,
        168 => case_168(vars).goal,
        169 => case_169(vars).goal,
        170 => case_170(vars).goal,
        171 => case_171(vars).goal,
        172 => case_172(vars).goal,
        173 => case_173(vars).goal,
        174 => case_174(vars).goal,
        175 => case_175(vars).goal,
        176 => case_176(vars).goal,
        177 => case_177(vars).goal,
        178 => case_178(vars).goal,
        179 => case_179(vars).goal,
        180 => case_180(vars).goal,
        181 => case_181(vars).goal,
        182 => case_182(vars).goal,
        183 => case_183(vars).goal,
        184 => case_184(vars).goal,
        185 => case_185(vars).goal,
        186 => case_186(vars).goal,
        187 => case_187(vars).goal,
        188 => case_188(vars).goal,
        189 => case_189(vars).goal,
        190 => case_190(vars).goal,
        191 => case_191(vars).goal,
        192 => case_192(vars).goal,
        193 => case_193(vars).goal,
        194 => case_194(vars).goal,
        195 => case_195(vars).goal,
        196 => case_196(vars).goal,
        197 => case_197(vars).goal,
        198 => case_198(vars).goal,
        199 => case_199(vars).goal,
        200 => case_200(vars).goal,
        201 => case_201(vars).goal,
        202 => case_202(vars).goal,
        203 => case_203(vars).goal,
        204 => case_204(vars).goal,
        205 => case_205(vars).goal,
        206 => case_206(vars).goal,
        207 => case_207(vars).goal,
        208 => case_208(vars).goal,
        209 => case_209(vars).goal,
        210 => case_210(vars).goal,
        211 => case_211(vars).goal,
        212 => case_212(vars).goal,
        213 => case_213(vars).goal,
        214 => case_214(vars).goal,
        215 => case_215(vars).goal,
        216 => case_216(vars).goal,
        217 => case_217(vars).goal,
        218 => case_218(vars).goal,
        219 => case_219(vars).goal,
        220 => case_220(vars).goal,
        221 => case_221(vars).goal,
        222 => case_222(vars).goal,
        223 => case_223(vars).goal,
        224 => case_224(vars).goal,
        225 => case_225(vars).goal,
        226 => case_226(vars).goal,
        227 => case_227(vars).goal,
        228 => case_228(vars).goal,
        229 => case_229(vars).goal,
        230 => case_230(vars).goal,
        231 => case_231(vars).goal,
        232 => case_232(vars).goal,
        233 => case_233(vars).goal,
        234 => case_234(vars).goal,
        235 => case_235(vars).goal,
        236 => case_236(vars).goal,
        237 => case_237(vars).goal,
        238 => case_238(vars).goal,
        239 => case_239(vars).goal,
        240 => case_240(vars).goal,
        241 => case_241(vars).goal,
        242 => case_242(vars).goal,
        243 => case_243(vars).goal,
        244 => case_244(vars).goal,
        245 => case_245(vars).goal,
        246 => case_246(vars).goal,
        247 => case_247(vars).goal,
        248 => case_248(vars).goal,
        249 => case_249(vars).goal,
        250 => case_250(vars).goal,
        251 => case_251(vars).goal,
        252 => case_252(vars).goal,
        253 => case_253(vars).goal,
        254 => case_254(vars).goal,
        255 => case_255(vars).goal,
        256 => case_256(vars).goal,
        257 => case_257(vars).goal,
        258 => case_258(vars).goal,
        259 => case_259(vars).goal,
        260 => case_260(vars).goal,
        261 => case_261(vars).goal,
        262 => case_262(vars).goal,
        263 => case_263(vars).goal,
        264 => case_264(vars).goal,
        265 => case_265(vars).goal,
        266 => case_266(vars).goal,
        267 => case_267(vars).goal,
        268 => case_268(vars).goal,
        269 => case_269(vars).goal,
        270 => case_270(vars).goal,
        271 => case_271(vars).goal,
        272 => case_272(vars).goal,
        273 => case_273(vars).goal,
        274 => case_274(vars).goal,
        275 => case_275(vars).goal,
        276 => case_276(vars).goal,
        277 => case_277(vars).goal,
        278 => case_278(vars).goal,
        279 => case_279(vars).goal,
        280 => case_280(vars).goal,
        281 => case_281(vars).goal,
        282 => case_282(vars).goal,
        283 => case_283(vars).goal,
        284 => case_284(vars).goal,
        285 => case_285(vars).goal,
        286 => case_286(vars).goal,
        287 => case_287(vars).goal,
        288 => case_288(vars).goal,
        289 => case_289(vars).goal,
        290 => case_290(vars).goal,
        291 => case_291(vars).goal,
        292 => case_292(vars).goal,
        293 => case_293(vars).goal,
        294 => case_294(vars).goal,
        295 => case_295(vars).goal,
        296 => case_296(vars).goal,
        297 => case_297(vars).goal,
        298 => case_298(vars).goal,
        299 => case_299(vars).goal,
        300 => case_300(vars).goal,
        301 => case_301(vars).goal,
        302 => case_302(vars).goal,
        303 => case_303(vars).goal,
        304 => case_304(vars).goal,
        305 => case_305(vars).goal,
        306 => case_306(vars).goal,
        307 => case_307(vars).goal,
        308 => case_308(vars).goal,
        309 => case_309(vars).goal,
        310 => case_310(vars).goal,
        311 => case_311(vars).goal,
        312 => case_312(vars).goal,
        313 => case_313(vars).goal,
        314 => case_314(vars).goal,
        315 => case_315(vars).goal,
        316 => case_316(vars).goal,
        317 => case_317(vars).goal,
        318 => case_318(vars).goal,
        319 => case_319(vars).goal,
        320 => case_320(vars).goal,
        321 => case_321(vars).goal,
        322 => case_322(vars).goal,
        323 => case_323(vars).goal,
        324 => case_324(vars).goal,
        325 => case_325(vars).goal,
        326 => case_326(vars).goal,
        327 => case_327(vars).goal,
        328 => case_328(vars).goal,
        329 => case_329(vars).goal,
        330 => case_330(vars).goal,
        331 => case_331(vars).goal,
        332 => case_332(vars).goal,
        333 => case_333(vars).goal,
        334 => case_334(vars).goal,
        335 => case_335(vars).goal,
        336 => case_336(vars).goal,
        337 => case_337(vars).goal,
        338 => case_338(vars).goal,
        339 => case_339(vars).goal,
        340 => case_340(vars).goal,
        341 => case_341(vars).goal,
        342 => case_342(vars).goal,
        343 => case_343(vars).goal,
        344 => case_344(vars).goal,
        345 => case_345(vars).goal,
        346 => case_346(vars).goal,
        347 => case_347(vars).goal,
        348 => case_348(vars).goal,
        349 => case_349(vars).goal,
        350 => case_350(vars).goal,
        351 => case_351(vars).goal,
        352 => case_352(vars).goal,
        353 => case_353(vars).goal,
        354 => case_354(vars).goal,
        355 => case_355(vars).goal,
        356 => case_356(vars).goal,
        357 => case_357(vars).goal,
        358 => case_358(vars).goal,
        359 => case_359(vars).goal,
        360 => case_360(vars).goal,
        361 => case_361(vars).goal,
        362 => case_362(vars).goal,
        363 => case_363(vars).goal,
        364 => case_364(vars).goal,
        365 => case_365(vars).goal,
        366 => case_366(vars).goal,
        367 => case_367(vars).goal,
        368 => case_368(vars).goal,
        369 => case_369(vars).goal,
        370 => case_370(vars).goal,
        371 => case_371(vars).goal,
        372 => case_372(vars).goal,
        373 => case_373(vars).goal,
        374 => case_374(vars).goal,
        375 => case_375(vars).goal,
        376 => case_376(vars).goal,
        377 => case_377(vars).goal,
        378 => case_378(vars).goal,
        379 => case_379(vars).goal,
        380 => case_380(vars).goal,
        381 => case_381(vars).goal,
        382 => case_382(vars).goal,
        383 => case_383(vars).goal,
        384 => case_384(vars).goal,
        385 => case_385(vars).goal,
        386 => case_386(vars).goal,
        387 => case_387(vars).goal,
        388 => case_388(vars).goal,
        389 => case_389(vars).goal,
        390 => case_390(vars).goal,
        391 => case_391(vars).goal,
        392 => case_392(vars).goal,
        393 => case_393(vars).goal,
        394 => case_394(vars).goal,
        395 => case_395(vars).goal,
        396 => case_396(vars).goal,
        397 => case_397(vars).goal,
        398 => case_398(vars).goal,
        399 => case_399(vars).goal,
        400 => case_400(vars).goal,
        401 => case_401(vars).goal,
        402 => case_402(vars).goal,
        403 => case_403(vars).goal,
        404 => case_404(vars).goal,
        405 => case_405(vars).goal,
        406 => case_406(vars).goal,
        407 => case_407(vars).goal,
        408 => case_408(vars).goal,
        409 => case_409(vars).goal,
        410 => case_410(vars).goal,
        411 => case_411(vars).goal,
        412 => case_412(vars).goal,
        413 => case_413(vars).goal,
        414 => case_414(vars).goal,
        415 => case_415(vars).goal,
        416 => case_416(vars).goal,
        417 => case_417(vars).goal,
        418 => case_418(vars).goal,
        419 => case_419(vars).goal,
        420 => case_420(vars).goal,
        421 => case_421(vars).goal,
        422 => case_422(vars).goal,
        423 => case_423(vars).goal,
        424 => case_424(vars).goal,
        425 => case_425(vars).goal,
        426 => case_426(vars).goal,
        427 => case_427(vars).goal,
        428 => case_428(vars).goal,
        429 => case_429(vars).goal,
        430 => case_430(vars).goal,
        431 => case_431(vars).goal,
        432 => case_432(vars).goal,
        433 => case_433(vars).goal,
        434 => case_434(vars).goal,
        435 => case_435(vars).goal,
        436 => case_436(vars).goal,
        437 => case_437(vars).goal,
        438 => case_438(vars).goal,
        439 => case_439(vars).goal,
        440 => case_440(vars).goal,
        441 => case_441(vars).goal,
        442 => case_442(vars).goal,
        443 => case_443(vars).goal,
        444 => case_444(vars).goal,
        445 => case_445(vars).goal,
        446 => case_446(vars).goal,
        447 => case_447(vars).goal,
        448 => case_448(vars).goal,
        449 => case_449(vars).goal,
        450 => case_450(vars).goal,
        451 => case_451(vars).goal,
        452 => case_452(vars).goal,
        453 => case_453(vars).goal,
        454 => case_454(vars).goal,
        455 => case_455(vars).goal,
        456 => case_456(vars).goal,
        457 => case_457(vars).goal,
        458 => case_458(vars).goal,
        459 => case_459(vars).goal,
        460 => case_460(vars).goal,
        461 => case_461(vars).goal,
        462 => case_462(vars).goal,
        463 => case_463(vars).goal,
        464 => case_464(vars).goal,
        465 => case_465(vars).goal,
        466 => case_466(vars).goal,
        467 => case_467(vars).goal,
        468 => case_468(vars).goal,
        469 => case_469(vars).goal,
        470 => case_470(vars).goal,
        471 => case_471(vars).goal,
        472 => case_472(vars).goal,
        473 => case_473(vars).goal,
        474 => case_474(vars).goal,
        475 => case_475(vars).goal,
        476 => case_476(vars).goal,
        477 => case_477(vars).goal,
        478 => case_478(vars).goal,
        479 => case_479(vars).goal,
        480 => case_480(vars).goal,
        481 => case_481(vars).goal,
        482 => case_482(vars).goal,
        483 => case_483(vars).goal,
        484 => case_484(vars).goal,
        485 => case_485(vars).goal,
        486 => case_486(vars).goal,
        487 => case_487(vars).goal,
        488 => case_488(vars).goal,
        489 => case_489(vars).goal,
        490 => case_490(vars).goal,
        491 => case_491(vars).goal,
        492 => case_492(vars).goal,
        493 => case_493(vars).goal,
        494 => case_494(vars).goal,
        495 => case_495(vars).goal,
        496 => case_496(vars).goal,
        497 => case_497(vars).goal,
        498 => case_498(vars).goal,
        499 => case_499(vars).goal,
        500 => case_500(vars).goal,
        501 => case_501(vars).goal,
        502 => case_502(vars).goal,
        503 => case_503(vars).goal,
        504 => case_504(vars).goal,
        505 => case_505(vars).goal,
        506 => case_506(vars).goal,
        507 => case_507(vars).goal,
        508 => case_508(vars).goal,
        509 => case_509(vars).goal,
        510 => case_510(vars).goal,
        511 => case_511(vars).goal,
        512 => case_512(vars).goal,
        513 => case_513(vars).goal,
        514 => case_514(vars).goal,
        515 => case_515(vars).goal,
        516 => case_516(vars).goal,
        517 => case_517(vars).goal,
        518 => case_518(vars).goal,
        519 => case_519(vars).goal,
        520 => case_520(vars).goal,
        521 => case_521(vars).goal,
        522 => case_522(vars).goal,
        523 => case_523(vars).goal,
        524 => case_524(vars).goal,
        525 => case_525(vars).goal,
        526 => case_526(vars).goal,
        527 => case_527(vars).goal,
        528 => case_528(vars).goal,
        529 => case_529(vars).goal,
        530 => case_530(vars).goal,
        531 => case_531(vars).goal,
        532 => case_532(vars).goal,
        533 => case_533(vars).goal,
        534 => case_534(vars).goal,
        535 => case_535(vars).goal,
        536 => case_536(vars).goal,
        537 => case_537(vars).goal,
        538 => case_538(vars).goal,
        539 => case_539(vars).goal,
        540 => case_540(vars).goal,
        541 => case_541(vars).goal,
        542 => case_542(vars).goal,
        543 => case_543(vars).goal,
        544 => case_544(vars).goal,
        545 => case_545(vars).goal,
        546 => case_546(vars).goal,
        547 => case_547(vars).goal,
        548 => case_548(vars).goal,
        549 => case_549(vars).goal,
        550 => case_550(vars).goal,
        551 => case_551(vars).goal,
        552 => case_552(vars).goal,
        553 => case_553(vars).goal,
        554 => case_554(vars).goal,
        555 => case_555(vars).goal,
        556 => case_556(vars).goal,
        557 => case_557(vars).goal,
        558 => case_558(vars).goal,
        559 => case_559(vars).goal,
        560 => case_560(vars).goal,
        561 => case_561(vars).goal,
        562 => case_562(vars).goal,
        563 => case_563(vars).goal,
        564 => case_564(vars).goal,
        565 => case_565(vars).goal,
        566 => case_566(vars).goal,
        567 => case_567(vars).goal,
        568 => case_568(vars).goal,
        569 => case_569(vars).goal,
        570 => case_570(vars).goal,
        571 => case_571(vars).goal,
        572 => case_572(vars).goal,
        573 => case_573(vars).goal,
        574 => case_574(vars).goal,
        575 => case_575(vars).goal,
        576 => case_576(vars).goal,
        577 => case_577(vars).goal,
        578 => case_578(vars).goal,
        579 => case_579(vars).goal,
        580 => case_580(vars).goal,
        581 => case_581(vars).goal,
        582 => case_582(vars).goal,
        583 => case_583(vars).goal,
        584 => case_584(vars).goal,
        585 => case_585(vars).goal,
        586 => case_586(vars).goal,
        587 => case_587(vars).goal,
        588 => case_588(vars).goal,
        589 => case_589(vars).goal,
        590 => case_590(vars).goal,
        591 => case_591(vars).goal,
        592 => case_592(vars).goal,
        593 => case_593(vars).goal,
        594 => case_594(vars).goal,
        595 => case_595(vars).goal,
        596 => case_596(vars).goal,
        597 => case_597(vars).goal,
        598 => case_598(vars).goal,
        599 => case_599(vars).goal,
        600 => case_600(vars).goal,
        601 => case_601(vars).goal,
        602 => case_602(vars).goal,
        603 => case_603(vars).goal,
        604 => case_604(vars).goal,
        605 => case_605(vars).goal,
        606 => case_606(vars).goal,
        607 => case_607(vars).goal,
        608 => case_608(vars).goal,
        609 => case_609(vars).goal,
        _ => unreachable!(),
    }
}
