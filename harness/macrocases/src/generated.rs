pub fn case_0(vars: &Vars) -> InferredGoal<DU, DE, Goal<DU, DE>> {
    let qa = vars.v[0].clone();
    let qb = vars.v[1].clone();
    let coll0: LT = LT::from_vec(vec![lterm!([1])]);
    proto_vulcan!([for e in &coll0 { e == [[1]] }])
}
pub fn case_1(vars: &Vars) -> InferredGoal<DU, DE, Goal<DU, DE>> {
    let qa = vars.v[0].clone();
    let qb = vars.v[1].clone();
    let coll0: Vec<LT> = vec![];
    proto_vulcan!([for e in &coll0 { e == qa, qb == 2 }])
}
pub fn case_2(vars: &Vars) -> InferredGoal<DU, DE, Goal<DU, DE>> {
    let qa = vars.v[0].clone();
    let qb = vars.v[1].clone();
    let coll0: Vec<LT> = vec![];
    proto_vulcan!([for e in &coll0 { [[2, []] != qb, (e, qa) == qb, [] != ([2], e)] }])
}
pub fn case_3(vars: &Vars) -> InferredGoal<DU, DE, Goal<DU, DE>> {
    let qa = vars.v[0].clone();
    let qb = vars.v[1].clone();
    let coll0: Vec<LT> = vec![lterm!(3), lterm!(2)];
    proto_vulcan!([for e in &coll0 { qb != _, |h| { |tz| { tz == [1], [1 | tz] != [1, 1] }, [qb, 2, e] == [[[] | qa], [_, true | h], []] } }])
}
pub fn case_4(vars: &Vars) -> InferredGoal<DU, DE, Goal<DU, DE>> {
    let qa = vars.v[0].clone();
    let qb = vars.v[1].clone();
    let coll0: Vec<LT> = vec![];
    proto_vulcan!([for e in &coll0 { e == "a", member(qb, [3, 2]) }])
}
pub fn case_5(vars: &Vars) -> InferredGoal<DU, DE, Goal<DU, DE>> {
    let qa = vars.v[0].clone();
    let qb = vars.v[1].clone();
    let coll0: LT = LT::from_vec(vec![lterm!(2), qb.clone(), lterm!([2])]);
    proto_vulcan!([for e in &coll0 { conde { [|tz| { [2 | tz] != [2, 3, 3], tz == [3, 3] }, qa == e], [false, qa == qb], [2] == e }, |tz| { [1, 3, 2, 1] != [1, 3 | tz], tz == [2, 1] } }])
}
pub fn case_6(vars: &Vars) -> InferredGoal<DU, DE, Goal<DU, DE>> {
    let qa = vars.v[0].clone();
    let qb = vars.v[1].clone();
    let coll0: LT = LT::from_vec(vec![lterm!([1]), lterm!(1), lterm!(2)]);
    proto_vulcan!([P3([], [[]], [1, 2]) == qb, for e in &coll0 { qa == qa, qa == 3 }])
}
pub fn case_7(vars: &Vars) -> InferredGoal<DU, DE, Goal<DU, DE>> {
    let qa = vars.v[0].clone();
    let qb = vars.v[1].clone();
    let coll0: LT = LT::from_vec(vec![lterm!(3)]);
    proto_vulcan!([for e in &coll0 { qa != e, member(qb, [3, 2, 2]) }])
}
pub fn case_8(vars: &Vars) -> InferredGoal<DU, DE, Goal<DU, DE>> {
    let qa = vars.v[0].clone();
    let qb = vars.v[1].clone();
    let coll0: LT = LT::from_vec(vec![lterm!(2)]);
    proto_vulcan!([for e in &coll0 { |tz| { [1, 3, 3] != [1 | tz], tz == [3, 3] } }])
}
pub fn case_9(vars: &Vars) -> InferredGoal<DU, DE, Goal<DU, DE>> {
    let qa = vars.v[0].clone();
    let qb = vars.v[1].clone();
    let coll0: Vec<LT> = vec![qb.clone(), qa.clone()];
    proto_vulcan!([|h| {  }, for e in &coll0 { [], e == [qb | qa] }])
}
pub fn case_10(vars: &Vars) -> InferredGoal<DU, DE, Goal<DU, DE>> {
    let qa = vars.v[0].clone();
    let qb = vars.v[1].clone();
    let coll0: LT = LT::from_vec(vec![lterm!(2)]);
    proto_vulcan!([(1, 2) != [[_, 1], []], for e in &coll0 { e != e, |z| { qb == e, "bc" == [z | e] } }])
}
pub fn case_11(vars: &Vars) -> InferredGoal<DU, DE, Goal<DU, DE>> {
    let qa = vars.v[0].clone();
    let qb = vars.v[1].clone();
    let coll0: LT = LT::from_vec(vec![qb.clone()]);
    proto_vulcan!([for e in &coll0 { conde { [qb == [qb | qb], e == [1, qa]], [], e == [qb, 2, qb] }, [qb, "bc", 2] != e }])
}
pub fn case_12(vars: &Vars) -> InferredGoal<DU, DE, Goal<DU, DE>> {
    let qa = vars.v[0].clone();
    let qb = vars.v[1].clone();
    let coll0: Vec<LT> = vec![];
    proto_vulcan!([|t, y| { [2, qa, 2 | qb] == t }, for e in &coll0 { member(qa, [3, 2, 2]) }])
}
pub fn case_13(vars: &Vars) -> InferredGoal<DU, DE, Goal<DU, DE>> {
    let qa = vars.v[0].clone();
    let qb = vars.v[1].clone();
    let coll0: LT = LT::from_vec(vec![lterm!([1])]);
    proto_vulcan!([for e in &coll0 { e == e, e == [[qb], [qb, qa, false]] }])
}
pub fn case_14(vars: &Vars) -> InferredGoal<DU, DE, Goal<DU, DE>> {
    let qa = vars.v[0].clone();
    let qb = vars.v[1].clone();
    let coll0: LT = LT::from_vec(vec![qa.clone()]);
    proto_vulcan!([for e in &coll0 { [|tz| { [1, 3 | tz] != [1, 3, 3, 2], tz == [3, 2] }, e != []], qb == [2, qb] }])
}
pub fn case_15(vars: &Vars) -> InferredGoal<DU, DE, Goal<DU, DE>> {
    let qa = vars.v[0].clone();
    let qb = vars.v[1].clone();
    let coll0: LT = LT::from_vec(vec![lterm!(3), lterm!(2), lterm!(3)]);
    proto_vulcan!([for e in &coll0 { [2] == qb, e != e }])
}
pub fn case_16(vars: &Vars) -> InferredGoal<DU, DE, Goal<DU, DE>> {
    let qa = vars.v[0].clone();
    let qb = vars.v[1].clone();
    let coll0: LT = LT::from_vec(vec![lterm!(1), lterm!(2), qa.clone()]);
    proto_vulcan!([for e in &coll0 { |tz| { [3, 1 | tz] != [3, 1, 2, 2], tz == [2, 2] } }])
}
pub fn case_17(vars: &Vars) -> InferredGoal<DU, DE, Goal<DU, DE>> {
    let qa = vars.v[0].clone();
    let qb = vars.v[1].clone();
    let coll0: LT = LT::from_vec(vec![lterm!(1), lterm!([2]), qa.clone()]);
    proto_vulcan!([for e in &coll0 { |t| { qb == [2, 2, _], qb == e, [2, _, [e, qa | qa]] == qb }, conde { [|tz| { tz == [2], [3, 2, 2] != [3, 2 | tz] }, ["a", qa] == qa], [qb == [1], true], false } }])
}
pub fn case_18(vars: &Vars) -> InferredGoal<DU, DE, Goal<DU, DE>> {
    let qa = vars.v[0].clone();
    let qb = vars.v[1].clone();
    let coll0: Vec<LT> = vec![];
    proto_vulcan!([|t| { false, (_, _) == qa, t == [1, [], qb | qa] }, for e in &coll0 { e == 1, [[1] | e] != qb }])
}
pub fn case_19(vars: &Vars) -> InferredGoal<DU, DE, Goal<DU, DE>> {
    let qa = vars.v[0].clone();
    let qb = vars.v[1].clone();
    let coll0: LT = LT::from_vec(vec![lterm!(2)]);
    proto_vulcan!([([3, _], [_, qa]) == qa, for e in &coll0 { true, |t| { append(qa, t, [1, 3]) } }])
}
pub fn case_20(vars: &Vars) -> InferredGoal<DU, DE, Goal<DU, DE>> {
    let qa = vars.v[0].clone();
    let qb = vars.v[1].clone();
    let coll0: LT = LT::from_vec(vec![lterm!(3)]);
    proto_vulcan!([qb == [1, []], for e in &coll0 { conde { qa == (1, [qb]), e == [1], [[false, 3 | e], [2 | qa] | qa] == [qa, "bc" | e] }, |x, h| { [true | h] == [1, _, 1], qb != x } }])
}
pub fn case_21(vars: &Vars) -> InferredGoal<DU, DE, Goal<DU, DE>> {
    let qa = vars.v[0].clone();
    let qb = vars.v[1].clone();
    let coll0: LT = LT::from_vec(vec![lterm!(2)]);
    proto_vulcan!([[false, ["a", qb, 1] == qb], for e in &coll0 { |z, x| { e == qb, x == ([], 3) }, |z, h| { qa != [2, [h, 2 | z] | 1], |tz| { [2, 1 | tz] != [2, 1, 1, 1], tz == [1, 1] } } }])
}
pub fn case_22(vars: &Vars) -> InferredGoal<DU, DE, Goal<DU, DE>> {
    let qa = vars.v[0].clone();
    let qb = vars.v[1].clone();
    let coll0: Vec<LT> = vec![];
    proto_vulcan!([for e in &coll0 { |x, y| { e == 1, |tz| { [2, 1, 3] != [2 | tz], tz == [1, 3] }, qb == [qb | qa] } }])
}
pub fn case_23(vars: &Vars) -> InferredGoal<DU, DE, Goal<DU, DE>> {
    let qa = vars.v[0].clone();
    let qb = vars.v[1].clone();
    let coll0: Vec<LT> = vec![];
    proto_vulcan!([[(_, [3]) != qb, qa != qa, qb == [_, 3]], for e in &coll0 { 'b' == [[e | _], [3, e], [e, qa]] }])
}
pub fn case_24(vars: &Vars) -> InferredGoal<DU, DE, Goal<DU, DE>> {
    let qa = vars.v[0].clone();
    let qb = vars.v[1].clone();
    let coll0: LT = LT::from_vec(vec![lterm!([1])]);
    proto_vulcan!([for e in &coll0 { qa == qb }])
}
pub fn case_25(vars: &Vars) -> InferredGoal<DU, DE, Goal<DU, DE>> {
    let qa = vars.v[0].clone();
    let qb = vars.v[1].clone();
    let coll0: Vec<LT> = vec![];
    proto_vulcan!([qa == P3([], qb, qb), for e in &coll0 { conde { [], [qa != [[], e, qb | qb], [qb | qa] == e] }, 1 == qb }])
}
pub fn case_26(vars: &Vars) -> InferredGoal<DU, DE, Goal<DU, DE>> {
    let qa = vars.v[0].clone();
    let qb = vars.v[1].clone();
    let coll0: LT = LT::from_vec(vec![lterm!(2), lterm!([1]), lterm!(3)]);
    proto_vulcan!([for e in &coll0 { append(qa, qb, []) }])
}
pub fn case_27(vars: &Vars) -> InferredGoal<DU, DE, Goal<DU, DE>> {
    let qa = vars.v[0].clone();
    let qb = vars.v[1].clone();
    let coll0: LT = LT::from_vec(vec![lterm!(1)]);
    proto_vulcan!([for e in &coll0 { |x| { append(x, x, [2]) }, e == 1 }])
}
pub fn case_28(vars: &Vars) -> InferredGoal<DU, DE, Goal<DU, DE>> {
    let qa = vars.v[0].clone();
    let qb = vars.v[1].clone();
    let coll0: LT = LT::from_vec(vec![lterm!([1]), lterm!(2), qa.clone()]);
    proto_vulcan!([qb == qb, for e in &coll0 { conde { [], [[] != qb, qb == []] }, [[], qb, qb] == qa }])
}
pub fn case_29(vars: &Vars) -> InferredGoal<DU, DE, Goal<DU, DE>> {
    let qa = vars.v[0].clone();
    let qb = vars.v[1].clone();
    let coll0: Vec<LT> = vec![];
    proto_vulcan!([[qb, 1, _] == qb, for e in &coll0 { qb == [1, [], e | qa], [true] }])
}
pub fn case_30(vars: &Vars) -> InferredGoal<DU, DE, Goal<DU, DE>> {
    let qa = vars.v[0].clone();
    let qb = vars.v[1].clone();
    let coll0: Vec<LT> = vec![];
    proto_vulcan!([[1 == qa, qa == 1], for e in &coll0 { e == qb }])
}
pub fn case_31(vars: &Vars) -> InferredGoal<DU, DE, Goal<DU, DE>> {
    let qa = vars.v[0].clone();
    let qb = vars.v[1].clone();
    let coll0: LT = LT::from_vec(vec![lterm!([2])]);
    proto_vulcan!([|tz| { tz == [1, 3], [2, 1, 3] != [2 | tz] }, for e in &coll0 { |t| { qb == P3(1, [qb], []), false, |tz| { [1, 1 | tz] != [1, 1, 2, 2], tz == [2, 2] } }, |tz| { [1, 2 | tz] != [1, 2, 2], tz == [2] } }])
}
pub fn case_32(vars: &Vars) -> InferredGoal<DU, DE, Goal<DU, DE>> {
    let qa = vars.v[0].clone();
    let qb = vars.v[1].clone();
    let coll0: LT = LT::from_vec(vec![lterm!([2]), lterm!([1]), lterm!(3)]);
    proto_vulcan!([for e in &coll0 { 1 != [1 | qb] }])
}
pub fn case_33(vars: &Vars) -> InferredGoal<DU, DE, Goal<DU, DE>> {
    let qa = vars.v[0].clone();
    let qb = vars.v[1].clone();
    let coll0: LT = LT::from_vec(vec![lterm!(1), lterm!([1]), lterm!(2)]);
    proto_vulcan!([for e in &coll0 { conde { |tz| { [2, 1, 3] != [2 | tz], tz == [1, 3] }, append(e, qa, [3, 3]), [|tz| { tz == [1], [1, 1 | tz] != [1, 1, 1] }, member(qa, [1, 3, 3])] } }])
}
pub fn case_34(vars: &Vars) -> InferredGoal<DU, DE, Goal<DU, DE>> {
    let qa = vars.v[0].clone();
    let qb = vars.v[1].clone();
    let coll0: Vec<LT> = vec![qa.clone(), lterm!([1])];
    proto_vulcan!([for e in &coll0 { [[[qb, _, 1 | e]] != 2, [1] == qb] }])
}
pub fn case_35(vars: &Vars) -> InferredGoal<DU, DE, Goal<DU, DE>> {
    let qa = vars.v[0].clone();
    let qb = vars.v[1].clone();
    let coll0: Vec<LT> = vec![];
    proto_vulcan!([[qb == ["bc", 1, _], [1, 2, 3] == qb], for e in &coll0 { 2 != qb }])
}
pub fn case_36(vars: &Vars) -> InferredGoal<DU, DE, Goal<DU, DE>> {
    let qa = vars.v[0].clone();
    let qb = vars.v[1].clone();
    let coll0: LT = LT::from_vec(vec![qa.clone()]);
    proto_vulcan!([|h| { P3(3, [3], [h, h]) == [3, h, qa | qb], |tz| { tz == [2], [2 | tz] != [2, 2] } }, for e in &coll0 { [], qb == qa }])
}
pub fn case_37(vars: &Vars) -> InferredGoal<DU, DE, Goal<DU, DE>> {
    let qa = vars.v[0].clone();
    let qb = vars.v[1].clone();
    let coll0: LT = LT::from_vec(vec![lterm!([1])]);
    proto_vulcan!([[[3, qb], [true] | qb] != qb, for e in &coll0 { P3([e, _], [e], [3]) == qb, [qa == P3([_, _], [qb], qb), [qa] == e] }])
}
pub fn case_38(vars: &Vars) -> InferredGoal<DU, DE, Goal<DU, DE>> {
    let qa = vars.v[0].clone();
    let qb = vars.v[1].clone();
    let coll0: LT = LT::from_vec(vec![qa.clone(), lterm!(1), lterm!(1)]);
    proto_vulcan!([(_, qb) != qa, for e in &coll0 { |tz| { [2 | tz] != [2, 3], tz == [3] } }])
}
pub fn case_39(vars: &Vars) -> InferredGoal<DU, DE, Goal<DU, DE>> {
    let qa = vars.v[0].clone();
    let qb = vars.v[1].clone();
    let coll0: Vec<LT> = vec![];
    proto_vulcan!([for e in &coll0 { |z, x| { |tz| { [1, 2, 3] != [1 | tz], tz == [2, 3] }, qb == P3([_, 1], e, 3), false } }])
}
pub fn case_40(vars: &Vars) -> InferredGoal<DU, DE, Goal<DU, DE>> {
    let qa = vars.v[0].clone();
    let qb = vars.v[1].clone();
    let coll0: Vec<LT> = vec![qa.clone(), lterm!(1)];
    proto_vulcan!([qa == [qa, _ | qb], for e in &coll0 { |y| { member(y, [1, 1, 1]), [1, _, e] != qa }, e == qa }])
}
pub fn case_41(vars: &Vars) -> InferredGoal<DU, DE, Goal<DU, DE>> {
    let qa = vars.v[0].clone();
    let qb = vars.v[1].clone();
    let coll0: Vec<LT> = vec![];
    proto_vulcan!([for e in &coll0 { |x| { |tz| { [2, 1, 1] != [2 | tz], tz == [1, 1] }, member(qa, []), 1 == qa }, |y| { qb != y, append(y, qa, []), qa != ([], y) } }])
}
pub fn case_42(vars: &Vars) -> InferredGoal<DU, DE, Goal<DU, DE>> {
    let qa = vars.v[0].clone();
    let qb = vars.v[1].clone();
    let coll0: Vec<LT> = vec![];
    proto_vulcan!([[[], qa, 1] == qa, for e in &coll0 { conde { [append(qb, qa, [1]), append(qa, qb, [3, 2])], [[e, _, 1] == qb, e == qb] }, qa != [qb | qa] }])
}
pub fn case_43(vars: &Vars) -> InferredGoal<DU, DE, Goal<DU, DE>> {
    let qa = vars.v[0].clone();
    let qb = vars.v[1].clone();
    let coll0: LT = LT::from_vec(vec![lterm!([2]), qa.clone(), lterm!(2)]);
    proto_vulcan!([for e in &coll0 { [[_ | qa] == qa] }])
}
pub fn case_44(vars: &Vars) -> InferredGoal<DU, DE, Goal<DU, DE>> {
    let qa = vars.v[0].clone();
    let qb = vars.v[1].clone();
    let coll0: LT = LT::from_vec(vec![lterm!([2])]);
    proto_vulcan!([for e in &coll0 { conde { false }, e != [[e, qb, qa], [[] | e], [qb, _, false]] }])
}
pub fn case_45(vars: &Vars) -> InferredGoal<DU, DE, Goal<DU, DE>> {
    let qa = vars.v[0].clone();
    let qb = vars.v[1].clone();
    let coll0: Vec<LT> = vec![lterm!([1]), lterm!(2)];
    proto_vulcan!([qa == [2, qb | qa], for e in &coll0 { [([3], [_]) == e, e == (3, [])], conde { [], [e == qa, 3 != qa], append(e, qb, [2]) } }])
}
pub fn case_46(vars: &Vars) -> InferredGoal<DU, DE, Goal<DU, DE>> {
    let qa = vars.v[0].clone();
    let qb = vars.v[1].clone();
    let coll0: Vec<LT> = vec![qb.clone(), qb.clone()];
    proto_vulcan!([for e in &coll0 { [] != qb }])
}
pub fn case_47(vars: &Vars) -> InferredGoal<DU, DE, Goal<DU, DE>> {
    let qa = vars.v[0].clone();
    let qb = vars.v[1].clone();
    let coll0: Vec<LT> = vec![lterm!([1]), qa.clone()];
    proto_vulcan!([for e in &coll0 { |z, x| { z != x }, |t| { |tz| { [2, 2 | tz] != [2, 2, 2, 1], tz == [2, 1] }, [1 | t] == t } }])
}
pub fn case_48(vars: &Vars) -> InferredGoal<DU, DE, Goal<DU, DE>> {
    let qa = vars.v[0].clone();
    let qb = vars.v[1].clone();
    let coll0: Vec<LT> = vec![lterm!(1), lterm!(1)];
    proto_vulcan!([qa == qb, for e in &coll0 { |z| { qa != ([], qa) }, ([qa], qa) == qa }])
}
pub fn case_49(vars: &Vars) -> InferredGoal<DU, DE, Goal<DU, DE>> {
    let qa = vars.v[0].clone();
    let qb = vars.v[1].clone();
    let coll0: Vec<LT> = vec![];
    proto_vulcan!([for e in &coll0 { qb == qa }])
}
pub fn case_50(vars: &Vars) -> InferredGoal<DU, DE, Goal<DU, DE>> {
    let qa = vars.v[0].clone();
    let qb = vars.v[1].clone();
    let coll0: Vec<LT> = vec![];
    proto_vulcan!([[2, 1, qa | 2] == qb, for e in &coll0 { qa == [false, [qb, qb, 3], [_, qa]] }])
}
pub fn case_51(vars: &Vars) -> InferredGoal<DU, DE, Goal<DU, DE>> {
    let qa = vars.v[0].clone();
    let qb = vars.v[1].clone();
    let coll0: LT = LT::from_vec(vec![lterm!([1]), lterm!(2), qa.clone()]);
    proto_vulcan!([qa == P3([qb, []], 3, qa), for e in &coll0 { |h, t| { false, qa == P3(2, [2, []], [2, 2]) }, [[2, _], [1, qa | qa], e] != [1 | 2] }])
}
pub fn case_52(vars: &Vars) -> InferredGoal<DU, DE, Goal<DU, DE>> {
    let qa = vars.v[0].clone();
    let qb = vars.v[1].clone();
    let coll0: LT = LT::from_vec(vec![qa.clone(), qb.clone(), lterm!(2)]);
    proto_vulcan!([qb == [qb, 1, qa], for e in &coll0 { false, [append(e, e, [])] }])
}
pub fn case_53(vars: &Vars) -> InferredGoal<DU, DE, Goal<DU, DE>> {
    let qa = vars.v[0].clone();
    let qb = vars.v[1].clone();
    let coll0: LT = LT::from_vec(vec![lterm!([2]), lterm!(2), lterm!([2])]);
    proto_vulcan!([|z, x| { [z, _, x] != [qb | x] }, for e in &coll0 { qb != (1, qa), [e, 2] == [e, qa] }])
}
pub fn case_54(vars: &Vars) -> InferredGoal<DU, DE, Goal<DU, DE>> {
    let qa = vars.v[0].clone();
    let qb = vars.v[1].clone();
    let coll0: Vec<LT> = vec![lterm!(2), qb.clone()];
    proto_vulcan!([for e in &coll0 { e == (e, [3]), false }])
}
pub fn case_55(vars: &Vars) -> InferredGoal<DU, DE, Goal<DU, DE>> {
    let qa = vars.v[0].clone();
    let qb = vars.v[1].clone();
    let coll0: Vec<LT> = vec![qb.clone(), lterm!(1)];
    proto_vulcan!([qb != qb, for e in &coll0 { qa != 1 }])
}
pub fn case_56(vars: &Vars) -> InferredGoal<DU, DE, Goal<DU, DE>> {
    let qa = vars.v[0].clone();
    let qb = vars.v[1].clone();
    let coll0: Vec<LT> = vec![];
    proto_vulcan!([[[qa, qa] != qb, "bc" == qb], for e in &coll0 { [] == [2], |x, t| { qa == P3(qa, qb, qb), [["a", x, _] | qb] != qa } }])
}
pub fn case_57(vars: &Vars) -> InferredGoal<DU, DE, Goal<DU, DE>> {
    let qa = vars.v[0].clone();
    let qb = vars.v[1].clone();
    let coll0: LT = LT::from_vec(vec![lterm!(2), lterm!([2]), lterm!([2])]);
    proto_vulcan!([true, for e in &coll0 { |y| { y == [[2, [] | e]], member(e, [3, 3, 1]), append(e, qa, [1]) }, conde { append(e, e, []), qb == qb } }])
}
pub fn case_58(vars: &Vars) -> InferredGoal<DU, DE, Goal<DU, DE>> {
    let qa = vars.v[0].clone();
    let qb = vars.v[1].clone();
    let coll0: LT = LT::from_vec(vec![lterm!(3)]);
    proto_vulcan!([for e in &coll0 { |z| { e == e, member(qb, [3, 2]) } }])
}
pub fn case_59(vars: &Vars) -> InferredGoal<DU, DE, Goal<DU, DE>> {
    let qa = vars.v[0].clone();
    let qb = vars.v[1].clone();
    let coll0: Vec<LT> = vec![lterm!(2), lterm!([1])];
    proto_vulcan!([for e in &coll0 { qa != [3, qb], |y, t| { qa == [1, 2, []], y != [[]], y == P3([], 2, _) } }])
}
pub fn case_60(vars: &Vars) -> InferredGoal<DU, DE, Goal<DU, DE>> {
    let qa = vars.v[0].clone();
    let qb = vars.v[1].clone();
    let coll0: Vec<LT> = vec![];
    proto_vulcan!([|tz| { tz == [3, 1], [1, 3, 1] != [1 | tz] }, for e in &coll0 { qa != qb }])
}
pub fn case_61(vars: &Vars) -> InferredGoal<DU, DE, Goal<DU, DE>> {
    let qa = vars.v[0].clone();
    let qb = vars.v[1].clone();
    let coll0: Vec<LT> = vec![lterm!(3), lterm!(1)];
    proto_vulcan!([for e in &coll0 { 2 == qb, conde { qb == [_, []], e == qa, [|tz| { [3 | tz] != [3, 1], tz == [1] }, e == [qb, 'b', []]] } }])
}
pub fn case_62(vars: &Vars) -> InferredGoal<DU, DE, Goal<DU, DE>> {
    let qa = vars.v[0].clone();
    let qb = vars.v[1].clone();
    let coll0: LT = LT::from_vec(vec![lterm!(1)]);
    proto_vulcan!([for e in &coll0 { qa == [], conde { P3([1, _], e, [3, qb]) == qa, qb == e, qa == [2, 2, e] } }])
}
pub fn case_63(vars: &Vars) -> InferredGoal<DU, DE, Goal<DU, DE>> {
    let qa = vars.v[0].clone();
    let qb = vars.v[1].clone();
    let coll0: Vec<LT> = vec![];
    proto_vulcan!([for e in &coll0 { qb == qa }])
}
pub fn case_64(vars: &Vars) -> InferredGoal<DU, DE, Goal<DU, DE>> {
    let qa = vars.v[0].clone();
    let qb = vars.v[1].clone();
    let coll0: Vec<LT> = vec![];
    proto_vulcan!([qb == qa, for e in &coll0 { append(e, e, [2, 2]), conde { [true, _ == qa] } }])
}
pub fn case_65(vars: &Vars) -> InferredGoal<DU, DE, Goal<DU, DE>> {
    let qa = vars.v[0].clone();
    let qb = vars.v[1].clone();
    let coll0: LT = LT::from_vec(vec![qb.clone(), lterm!([2]), qb.clone()]);
    proto_vulcan!([true, for e in &coll0 { qa == 3 }])
}
pub fn case_66(vars: &Vars) -> InferredGoal<DU, DE, Goal<DU, DE>> {
    let qa = vars.v[0].clone();
    let qb = vars.v[1].clone();
    let coll0: LT = LT::from_vec(vec![lterm!([1]), qb.clone(), qa.clone()]);
    proto_vulcan!([for e in &coll0 { true }])
}
pub fn case_67(vars: &Vars) -> InferredGoal<DU, DE, Goal<DU, DE>> {
    let qa = vars.v[0].clone();
    let qb = vars.v[1].clone();
    let coll0: LT = LT::from_vec(vec![lterm!(3)]);
    proto_vulcan!([P3(qa, 2, [1]) == qa, for e in &coll0 { [3] == qa, qb == [_, false] }])
}
pub fn case_68(vars: &Vars) -> InferredGoal<DU, DE, Goal<DU, DE>> {
    let qa = vars.v[0].clone();
    let qb = vars.v[1].clone();
    let coll0: LT = LT::from_vec(vec![lterm!([1]), lterm!(3), qa.clone()]);
    proto_vulcan!([qa != (qb, _), for e in &coll0 { [[_, 1], [3, _, qa | qb], [e, 3]] == e, false }])
}
pub fn case_69(vars: &Vars) -> InferredGoal<DU, DE, Goal<DU, DE>> {
    let qa = vars.v[0].clone();
    let qb = vars.v[1].clone();
    let coll0: Vec<LT> = vec![];
    proto_vulcan!([for e in &coll0 { append(qb, qb, [1, 1]), |y| { qa == 1, |tz| { [2, 1, 1] != [2, 1 | tz], tz == [1] } } }])
}
pub fn case_70(vars: &Vars) -> InferredGoal<DU, DE, Goal<DU, DE>> {
    let qa = vars.v[0].clone();
    let qb = vars.v[1].clone();
    let coll0: LT = LT::from_vec(vec![qa.clone(), qb.clone(), lterm!(2)]);
    proto_vulcan!([for e in &coll0 { e == [true | 1], |x, t| { e == qa } }])
}
pub fn case_71(vars: &Vars) -> InferredGoal<DU, DE, Goal<DU, DE>> {
    let qa = vars.v[0].clone();
    let qb = vars.v[1].clone();
    let coll0: LT = LT::from_vec(vec![lterm!(2)]);
    proto_vulcan!([for e in &coll0 { [1 | e] != e, [(1, qa) == qa, [[1, 1] | e] != e, true] }])
}
pub fn case_72(vars: &Vars) -> InferredGoal<DU, DE, Goal<DU, DE>> {
    let qa = vars.v[0].clone();
    let qb = vars.v[1].clone();
    let coll0: Vec<LT> = vec![];
    proto_vulcan!([_ == qa, for e in &coll0 { P3([1], 1, e) == qb }])
}
pub fn case_73(vars: &Vars) -> InferredGoal<DU, DE, Goal<DU, DE>> {
    let qa = vars.v[0].clone();
    let qb = vars.v[1].clone();
    let coll0: LT = LT::from_vec(vec![qb.clone(), qa.clone(), qa.clone()]);
    proto_vulcan!([|tz| { tz == [1], [3 | tz] != [3, 1] }, for e in &coll0 { qa == [1, [3, e, "bc" | e] | e] }])
}
pub fn case_74(vars: &Vars) -> InferredGoal<DU, DE, Goal<DU, DE>> {
    let qa = vars.v[0].clone();
    let qb = vars.v[1].clone();
    let coll0: LT = LT::from_vec(vec![lterm!([1])]);
    proto_vulcan!([qa == [[[], qb, qa | qb], [false, qb | qa], [qb, "a", 'a' | qb]], for e in &coll0 { [qa, []] == e }])
}
pub fn case_75(vars: &Vars) -> InferredGoal<DU, DE, Goal<DU, DE>> {
    let qa = vars.v[0].clone();
    let qb = vars.v[1].clone();
    let coll0: Vec<LT> = vec![lterm!(1), lterm!(2)];
    proto_vulcan!([for e in &coll0 { qb == [_], [qa, qb] == e }])
}
pub fn case_76(vars: &Vars) -> InferredGoal<DU, DE, Goal<DU, DE>> {
    let qa = vars.v[0].clone();
    let qb = vars.v[1].clone();
    let coll0: Vec<LT> = vec![];
    proto_vulcan!([qa == [2, qa, 3], for e in &coll0 { [e] != qb, false }])
}
pub fn case_77(vars: &Vars) -> InferredGoal<DU, DE, Goal<DU, DE>> {
    let qa = vars.v[0].clone();
    let qb = vars.v[1].clone();
    let coll0: LT = LT::from_vec(vec![lterm!(1)]);
    proto_vulcan!([for e in &coll0 { member(e, [1, 1]) }])
}
pub fn case_78(vars: &Vars) -> InferredGoal<DU, DE, Goal<DU, DE>> {
    let qa = vars.v[0].clone();
    let qb = vars.v[1].clone();
    let coll0: LT = LT::from_vec(vec![lterm!([2]), lterm!([2]), lterm!([1])]);
    proto_vulcan!([for e in &coll0 { e == 1, P3(_, [_, _], 2) == qb }])
}
pub fn case_79(vars: &Vars) -> InferredGoal<DU, DE, Goal<DU, DE>> {
    let qa = vars.v[0].clone();
    let qb = vars.v[1].clone();
    let coll0: LT = LT::from_vec(vec![lterm!(1), lterm!(1), lterm!(2)]);
    proto_vulcan!([for e in &coll0 { |z| { z == e } }])
}
pub fn case_80(vars: &Vars) -> InferredGoal<DU, DE, Goal<DU, DE>> {
    let qa = vars.v[0].clone();
    let qb = vars.v[1].clone();
    let coll0: LT = LT::from_vec(vec![qa.clone(), lterm!(2), qb.clone()]);
    proto_vulcan!([for e in &coll0 { e == [qa, qb] }])
}
pub fn case_81(vars: &Vars) -> InferredGoal<DU, DE, Goal<DU, DE>> {
    let qa = vars.v[0].clone();
    let qb = vars.v[1].clone();
    let coll0: LT = LT::from_vec(vec![lterm!([1]), lterm!(1), lterm!([1])]);
    proto_vulcan!([for e in &coll0 { |tz| { [2, 3] != [2 | tz], tz == [3] } }])
}
pub fn case_82(vars: &Vars) -> InferredGoal<DU, DE, Goal<DU, DE>> {
    let qa = vars.v[0].clone();
    let qb = vars.v[1].clone();
    let coll0: Vec<LT> = vec![];
    proto_vulcan!([for e in &coll0 { qa == [e, [qb, [], []] | qa] }])
}
pub fn case_83(vars: &Vars) -> InferredGoal<DU, DE, Goal<DU, DE>> {
    let qa = vars.v[0].clone();
    let qb = vars.v[1].clone();
    let coll0: Vec<LT> = vec![lterm!(3), lterm!(3)];
    proto_vulcan!([for e in &coll0 { qb == qb }])
}
pub fn case_84(vars: &Vars) -> InferredGoal<DU, DE, Goal<DU, DE>> {
    let qa = vars.v[0].clone();
    let qb = vars.v[1].clone();
    let coll0: LT = LT::from_vec(vec![lterm!(3)]);
    proto_vulcan!([for e in &coll0 { true }])
}
pub fn case_85(vars: &Vars) -> InferredGoal<DU, DE, Goal<DU, DE>> {
    let qa = vars.v[0].clone();
    let qb = vars.v[1].clone();
    let coll0: LT = LT::from_vec(vec![lterm!([2])]);
    proto_vulcan!([[], for e in &coll0 { conde { [], [[3, 3, qb] == e, qb != (1, 3)], [append(qb, e, []), e == [true, [qa, 1 | qa]]] } }])
}
pub fn case_86(vars: &Vars) -> InferredGoal<DU, DE, Goal<DU, DE>> {
    let qa = vars.v[0].clone();
    let qb = vars.v[1].clone();
    let coll0: Vec<LT> = vec![lterm!(1), lterm!(1)];
    proto_vulcan!([for e in &coll0 { [e == [3, 'b' | qa]], |z, y| { [1, y, 1] == qb } }])
}
pub fn case_87(vars: &Vars) -> InferredGoal<DU, DE, Goal<DU, DE>> {
    let qa = vars.v[0].clone();
    let qb = vars.v[1].clone();
    let coll0: LT = LT::from_vec(vec![lterm!(2)]);
    proto_vulcan!([for e in &coll0 { append(e, qb, []) }])
}
pub fn case_88(vars: &Vars) -> InferredGoal<DU, DE, Goal<DU, DE>> {
    let qa = vars.v[0].clone();
    let qb = vars.v[1].clone();
    let coll0: LT = LT::from_vec(vec![lterm!(3)]);
    proto_vulcan!([for e in &coll0 { qa != [[1 | qa], [qa, e, 'a'] | e], e == [qb, e, 1 | 2] }])
}
pub fn case_89(vars: &Vars) -> InferredGoal<DU, DE, Goal<DU, DE>> {
    let qa = vars.v[0].clone();
    let qb = vars.v[1].clone();
    let coll0: LT = LT::from_vec(vec![qa.clone(), qa.clone(), lterm!(2)]);
    proto_vulcan!([for e in &coll0 { member(qa, [3, 3, 3]), e == qa }])
}
pub fn case_90(vars: &Vars) -> InferredGoal<DU, DE, Goal<DU, DE>> {
    let qa = vars.v[0].clone();
    let qb = vars.v[1].clone();
    let coll0: Vec<LT> = vec![];
    proto_vulcan!([for e in &coll0 { qb == e, [qb == [[e, 2], [qb | e], [qb, 2] | "bc"], [[], e, qb | qb] == qb] }])
}
pub fn case_91(vars: &Vars) -> InferredGoal<DU, DE, Goal<DU, DE>> {
    let qa = vars.v[0].clone();
    let qb = vars.v[1].clone();
    let coll0: LT = LT::from_vec(vec![qb.clone(), qa.clone(), lterm!([1])]);
    proto_vulcan!([for e in &coll0 { [true, P3([], [_, []], []) == qb], |x| { [e, e, 'a'] != qb, [_] != e } }])
}
pub fn case_92(vars: &Vars) -> InferredGoal<DU, DE, Goal<DU, DE>> {
    let qa = vars.v[0].clone();
    let qb = vars.v[1].clone();
    let coll0: Vec<LT> = vec![];
    proto_vulcan!([for e in &coll0 { e == qb }])
}
pub fn case_93(vars: &Vars) -> InferredGoal<DU, DE, Goal<DU, DE>> {
    let qa = vars.v[0].clone();
    let qb = vars.v[1].clone();
    let coll0: LT = LT::from_vec(vec![qa.clone(), lterm!([2]), lterm!(1)]);
    proto_vulcan!([for e in &coll0 { [qa == [3], [3] != qb] }])
}
pub fn case_94(vars: &Vars) -> InferredGoal<DU, DE, Goal<DU, DE>> {
    let qa = vars.v[0].clone();
    let qb = vars.v[1].clone();
    let coll0: Vec<LT> = vec![];
    proto_vulcan!([for e in &coll0 { [[2, qa], "bc", [qb | e]] == 3 }])
}
pub fn case_95(vars: &Vars) -> InferredGoal<DU, DE, Goal<DU, DE>> {
    let qa = vars.v[0].clone();
    let qb = vars.v[1].clone();
    let coll0: Vec<LT> = vec![qa.clone(), lterm!([2])];
    proto_vulcan!([for e in &coll0 { |x, y| {  }, [qb, [], 2] == qb }])
}
pub fn case_96(vars: &Vars) -> InferredGoal<DU, DE, Goal<DU, DE>> {
    let qa = vars.v[0].clone();
    let qb = vars.v[1].clone();
    let coll0: Vec<LT> = vec![lterm!([1]), lterm!([2])];
    proto_vulcan!([for e in &coll0 { qa != [['a', 'a' | qa]] }])
}
pub fn case_97(vars: &Vars) -> InferredGoal<DU, DE, Goal<DU, DE>> {
    let qa = vars.v[0].clone();
    let qb = vars.v[1].clone();
    let coll0: LT = LT::from_vec(vec![lterm!(3)]);
    proto_vulcan!([for e in &coll0 { |z| { e != z } }])
}
pub fn case_98(vars: &Vars) -> InferredGoal<DU, DE, Goal<DU, DE>> {
    let qa = vars.v[0].clone();
    let qb = vars.v[1].clone();
    let coll0: LT = LT::from_vec(vec![qa.clone()]);
    proto_vulcan!([for e in &coll0 { true, true }])
}
pub fn case_99(vars: &Vars) -> InferredGoal<DU, DE, Goal<DU, DE>> {
    let qa = vars.v[0].clone();
    let qb = vars.v[1].clone();
    let coll0: LT = LT::from_vec(vec![lterm!(1), qa.clone(), qb.clone()]);
    proto_vulcan!([[[], 1] == qb, for e in &coll0 { |y, z| { e == [qb] } }])
}
pub fn case_100(vars: &Vars) -> InferredGoal<DU, DE, Goal<DU, DE>> {
    let qa = vars.v[0].clone();
    let qb = vars.v[1].clone();
    let coll0: LT = LT::from_vec(vec![lterm!([2])]);
    proto_vulcan!([for e in &coll0 { |h| { append(h, h, [3]), h == P3([e], 1, e), [3, qb | qa] == qb } }])
}
pub fn case_101(vars: &Vars) -> InferredGoal<DU, DE, Goal<DU, DE>> {
    let qa = vars.v[0].clone();
    let qb = vars.v[1].clone();
    let coll0: LT = LT::from_vec(vec![lterm!(2), qa.clone(), lterm!(2)]);
    proto_vulcan!([[qa, qa, [] | qa] == qb, for e in &coll0 { [[1, qb, e | qb] == qb], |tz| { tz == [3], [1, 3 | tz] != [1, 3, 3] } }])
}
pub fn case_102(vars: &Vars) -> InferredGoal<DU, DE, Goal<DU, DE>> {
    let qa = vars.v[0].clone();
    let qb = vars.v[1].clone();
    let coll0: LT = LT::from_vec(vec![lterm!(2)]);
    proto_vulcan!([for e in &coll0 { qa != qb, 2 != qa }])
}
pub fn case_103(vars: &Vars) -> InferredGoal<DU, DE, Goal<DU, DE>> {
    let qa = vars.v[0].clone();
    let qb = vars.v[1].clone();
    let coll0: LT = LT::from_vec(vec![lterm!([1])]);
    proto_vulcan!([conde { [3 == qa, true], [false, |tz| { tz == [2], [2, 1 | tz] != [2, 1, 2] }], |tz| { tz == [2, 1], [1 | tz] != [1, 2, 1] } }, for e in &coll0 { conde { [[qa | qb] == [[qb, [], 2], e | true], qa == [qa, e]], [append(qa, qb, [2]), e == qa] }, qa != e }])
}
pub fn case_104(vars: &Vars) -> InferredGoal<DU, DE, Goal<DU, DE>> {
    let qa = vars.v[0].clone();
    let qb = vars.v[1].clone();
    let coll0: Vec<LT> = vec![];
    proto_vulcan!([for e in &coll0 { 1 != qa, [P3(2, qb, e) == e, P3([], [], []) == qa] }])
}
pub fn case_105(vars: &Vars) -> InferredGoal<DU, DE, Goal<DU, DE>> {
    let qa = vars.v[0].clone();
    let qb = vars.v[1].clone();
    let coll0: LT = LT::from_vec(vec![lterm!(1), lterm!(2), qa.clone()]);
    proto_vulcan!([|tz| { [1 | tz] != [1, 2, 2], tz == [2, 2] }, for e in &coll0 { qb == ['a' | qa] }])
}
pub fn case_106(vars: &Vars) -> InferredGoal<DU, DE, Goal<DU, DE>> {
    let qa = vars.v[0].clone();
    let qb = vars.v[1].clone();
    let coll0: Vec<LT> = vec![lterm!(2), lterm!([1])];
    proto_vulcan!([for e in &coll0 { (qa, [3]) == e }])
}
pub fn case_107(vars: &Vars) -> InferredGoal<DU, DE, Goal<DU, DE>> {
    let qa = vars.v[0].clone();
    let qb = vars.v[1].clone();
    let coll0: LT = LT::from_vec(vec![lterm!(1), lterm!(1), lterm!(3)]);
    proto_vulcan!([|y, h| { qb != 2 }, for e in &coll0 { [e == e, qa == [[], 2], true == qb] }])
}
pub fn case_108(vars: &Vars) -> InferredGoal<DU, DE, Goal<DU, DE>> {
    let qa = vars.v[0].clone();
    let qb = vars.v[1].clone();
    let coll0: LT = LT::from_vec(vec![lterm!(3), qb.clone(), qa.clone()]);
    proto_vulcan!([|y, z| { [[], [], [_] | qa] == qa }, for e in &coll0 { qa == [qb, qb, 1] }])
}
pub fn case_109(vars: &Vars) -> InferredGoal<DU, DE, Goal<DU, DE>> {
    let qa = vars.v[0].clone();
    let qb = vars.v[1].clone();
    let coll0: Vec<LT> = vec![];
    proto_vulcan!([[[[3], _ | _] != P3(qb, [qb, qa], [3])], for e in &coll0 { qb != 1, [qa] == ([_, 2], [e]) }])
}
pub fn case_110(vars: &Vars) -> InferredGoal<DU, DE, Goal<DU, DE>> {
    let qa = vars.v[0].clone();
    let qb = vars.v[1].clone();
    let coll0: LT = LT::from_vec(vec![lterm!(1)]);
    proto_vulcan!([qb == [qa, [], _], for e in &coll0 { e == [["bc", 3, _ | e], false, [true, qb | e]], qa == 2 }])
}
pub fn case_111(vars: &Vars) -> InferredGoal<DU, DE, Goal<DU, DE>> {
    let qa = vars.v[0].clone();
    let qb = vars.v[1].clone();
    let coll0: Vec<LT> = vec![];
    proto_vulcan!([true, for e in &coll0 { |y| { true, qb == [_, 2 | y] }, e == [2, [], qb | e] }])
}
pub fn case_112(vars: &Vars) -> InferredGoal<DU, DE, Goal<DU, DE>> {
    let qa = vars.v[0].clone();
    let qb = vars.v[1].clone();
    let coll0: Vec<LT> = vec![lterm!(3), lterm!(1)];
    proto_vulcan!([for e in &coll0 { [_, 1, qa] == [e, [false, 2 | e]] }])
}
pub fn case_113(vars: &Vars) -> InferredGoal<DU, DE, Goal<DU, DE>> {
    let qa = vars.v[0].clone();
    let qb = vars.v[1].clone();
    let coll0: Vec<LT> = vec![lterm!(2), qb.clone()];
    proto_vulcan!([for e in &coll0 { [qa == e] }])
}
pub fn case_114(vars: &Vars) -> InferredGoal<DU, DE, Goal<DU, DE>> {
    let qa = vars.v[0].clone();
    let qb = vars.v[1].clone();
    let coll0: Vec<LT> = vec![qa.clone(), qa.clone()];
    proto_vulcan!([qa == (2, []), for e in &coll0 { qa == [3, 3, qb | qa], |t, h| { h != [_, h, e], t != ['b'] } }])
}
pub fn case_115(vars: &Vars) -> InferredGoal<DU, DE, Goal<DU, DE>> {
    let qa = vars.v[0].clone();
    let qb = vars.v[1].clone();
    let coll0: Vec<LT> = vec![lterm!(3), lterm!(2)];
    proto_vulcan!([for e in &coll0 { P3(qb, qb, []) == qa }])
}
pub fn case_116(vars: &Vars) -> InferredGoal<DU, DE, Goal<DU, DE>> {
    let qa = vars.v[0].clone();
    let qb = vars.v[1].clone();
    let coll0: Vec<LT> = vec![qa.clone(), qb.clone()];
    proto_vulcan!([conde { qb == 2, ["a" == qb, qb == qb], |tz| { tz == [2, 2], [2 | tz] != [2, 2, 2] } }, for e in &coll0 { P3(3, _, [[], qa]) != qa, |h, t| { member(qb, [3, 1]), |tz| { tz == [2, 2], [2 | tz] != [2, 2, 2] } } }])
}
pub fn case_117(vars: &Vars) -> InferredGoal<DU, DE, Goal<DU, DE>> {
    let qa = vars.v[0].clone();
    let qb = vars.v[1].clone();
    let coll0: LT = LT::from_vec(vec![lterm!([1]), lterm!(3), lterm!([1])]);
    proto_vulcan!([for e in &coll0 { [[2, e] == qb] }])
}
pub fn case_118(vars: &Vars) -> InferredGoal<DU, DE, Goal<DU, DE>> {
    let qa = vars.v[0].clone();
    let qb = vars.v[1].clone();
    let coll0: Vec<LT> = vec![];
    proto_vulcan!([true, for e in &coll0 { 2 == _, conde { [_ != qb, e == qa], [append(qb, qa, [1, 3]), [qa, 2 | qa] != qa] } }])
}
pub fn case_119(vars: &Vars) -> InferredGoal<DU, DE, Goal<DU, DE>> {
    let qa = vars.v[0].clone();
    let qb = vars.v[1].clone();
    let coll0: Vec<LT> = vec![lterm!(1), lterm!([1])];
    proto_vulcan!([for e in &coll0 { conde { qa == qa, [qa, [2, qa, _], qb | e] == qa, |tz| { tz == [3, 3], [2, 2, 3, 3] != [2, 2 | tz] } }, [1, _ | 1] == qb }])
}
pub fn case_120(vars: &Vars) -> InferredGoal<DU, DE, Goal<DU, DE>> {
    let qa = vars.v[0].clone();
    let qb = vars.v[1].clone();
    let coll0: LT = LT::from_vec(vec![qb.clone(), lterm!(1), lterm!(3)]);
    proto_vulcan!([[1, 2, qa] == qb, for e in &coll0 { [[e | e] == qb, e == qb, e == _] }])
}
pub fn case_121(vars: &Vars) -> InferredGoal<DU, DE, Goal<DU, DE>> {
    let qa = vars.v[0].clone();
    let qb = vars.v[1].clone();
    let coll0: LT = LT::from_vec(vec![lterm!([2])]);
    proto_vulcan!([conde { qb == [qb] }, for e in &coll0 { false }])
}
pub fn case_122(vars: &Vars) -> InferredGoal<DU, DE, Goal<DU, DE>> {
    let qa = vars.v[0].clone();
    let qb = vars.v[1].clone();
    let coll0: LT = LT::from_vec(vec![lterm!(3), qa.clone(), lterm!(2)]);
    proto_vulcan!([for e in &coll0 { e == [qa, e], false == [["a"], [qa | e], [1, qb] | e] }])
}
pub fn case_123(vars: &Vars) -> InferredGoal<DU, DE, Goal<DU, DE>> {
    let qa = vars.v[0].clone();
    let qb = vars.v[1].clone();
    let coll0: LT = LT::from_vec(vec![lterm!(3), qb.clone(), lterm!(1)]);
    proto_vulcan!([for e in &coll0 { (1, _) == [_, 1, [e] | e], member(qa, [3, 2, 1]) }])
}
pub fn case_124(vars: &Vars) -> InferredGoal<DU, DE, Goal<DU, DE>> {
    let qa = vars.v[0].clone();
    let qb = vars.v[1].clone();
    let coll0: LT = LT::from_vec(vec![lterm!(2), lterm!(1), lterm!(3)]);
    proto_vulcan!([for e in &coll0 { |tz| { [3 | tz] != [3, 2], tz == [2] }, [|tz| { [3, 1 | tz] != [3, 1, 3, 3], tz == [3, 3] }, |tz| { tz == [3, 1], [1, 2 | tz] != [1, 2, 3, 1] }] }])
}
pub fn case_125(vars: &Vars) -> InferredGoal<DU, DE, Goal<DU, DE>> {
    let qa = vars.v[0].clone();
    let qb = vars.v[1].clone();
    let coll0: Vec<LT> = vec![];
    proto_vulcan!([for e in &coll0 { [[3]] == P3(3, [e, 1], qb) }])
}
pub fn case_126(vars: &Vars) -> InferredGoal<DU, DE, Goal<DU, DE>> {
    let qa = vars.v[0].clone();
    let qb = vars.v[1].clone();
    let coll0: Vec<LT> = vec![qa.clone(), lterm!(1)];
    proto_vulcan!([|z, x| { member(x, [1, 1, 1]), qb == qb, |tz| { [2, 3, 1] != [2 | tz], tz == [3, 1] } }, for e in &coll0 { qb == e }])
}
pub fn case_127(vars: &Vars) -> InferredGoal<DU, DE, Goal<DU, DE>> {
    let qa = vars.v[0].clone();
    let qb = vars.v[1].clone();
    let coll0: LT = LT::from_vec(vec![lterm!(1)]);
    proto_vulcan!([qb != [qa, [_ | qb] | qb], for e in &coll0 { [3, 1, qb] != qb, append(qb, e, [1, 2]) }])
}
pub fn case_128(vars: &Vars) -> InferredGoal<DU, DE, Goal<DU, DE>> {
    let qa = vars.v[0].clone();
    let qb = vars.v[1].clone();
    let coll0: Vec<LT> = vec![qb.clone(), lterm!(2)];
    proto_vulcan!([for e in &coll0 { [3] == [], qa == e }])
}
pub fn case_129(vars: &Vars) -> InferredGoal<DU, DE, Goal<DU, DE>> {
    let qa = vars.v[0].clone();
    let qb = vars.v[1].clone();
    let coll0: LT = LT::from_vec(vec![qb.clone(), lterm!(1), lterm!(2)]);
    proto_vulcan!([[true], for e in &coll0 { P3(2, 1, 1) != [3], append(e, qa, []) }])
}
pub fn case_130(vars: &Vars) -> InferredGoal<DU, DE, Goal<DU, DE>> {
    let qa = vars.v[0].clone();
    let qb = vars.v[1].clone();
    let coll0: LT = LT::from_vec(vec![qa.clone(), lterm!([2]), lterm!(2)]);
    proto_vulcan!([for e in &coll0 { |y| { qb == 1 } }])
}
pub fn case_131(vars: &Vars) -> InferredGoal<DU, DE, Goal<DU, DE>> {
    let qa = vars.v[0].clone();
    let qb = vars.v[1].clone();
    let coll0: LT = LT::from_vec(vec![qb.clone()]);
    proto_vulcan!([|y, x| { (3, qa) == x }, for e in &coll0 { conde { [[[], qb] == qa, e != P3([], 2, e)], [qa != [e], ["a"] == qb] } }])
}
pub fn case_132(vars: &Vars) -> InferredGoal<DU, DE, Goal<DU, DE>> {
    let qa = vars.v[0].clone();
    let qb = vars.v[1].clone();
    let coll0: Vec<LT> = vec![lterm!([1]), lterm!(1)];
    proto_vulcan!([qa == qa, for e in &coll0 { e == [] }])
}
pub fn case_133(vars: &Vars) -> InferredGoal<DU, DE, Goal<DU, DE>> {
    let qa = vars.v[0].clone();
    let qb = vars.v[1].clone();
    let coll0: LT = LT::from_vec(vec![qb.clone(), qa.clone(), lterm!([1])]);
    proto_vulcan!([qa == qb, for e in &coll0 { P3(2, _, e) == [qb, false, 2] }])
}
pub fn case_134(vars: &Vars) -> InferredGoal<DU, DE, Goal<DU, DE>> {
    let qa = vars.v[0].clone();
    let qb = vars.v[1].clone();
    let coll0: LT = LT::from_vec(vec![lterm!(1)]);
    proto_vulcan!([|h, z| { qa == [[h, 2, 'a'], [], [qa, 1, qa]], [3, qa] == h, |tz| { tz == [1], [3 | tz] != [3, 1] } }, for e in &coll0 { conde { [P3([e], [3, e], qa) == 1, e == "bc"], |tz| { tz == [2], [1, 3 | tz] != [1, 3, 2] } } }])
}
pub fn case_135(vars: &Vars) -> InferredGoal<DU, DE, Goal<DU, DE>> {
    let qa = vars.v[0].clone();
    let qb = vars.v[1].clone();
    let coll0: LT = LT::from_vec(vec![lterm!(1), lterm!([2]), qa.clone()]);
    proto_vulcan!([for e in &coll0 { qb == [2, qb] }])
}
pub fn case_136(vars: &Vars) -> InferredGoal<DU, DE, Goal<DU, DE>> {
    let qa = vars.v[0].clone();
    let qb = vars.v[1].clone();
    let coll0: Vec<LT> = vec![lterm!(3), lterm!(2)];
    proto_vulcan!([(qa, qb) == [qa, [] | _], for e in &coll0 { [[[_, 2, _ | qb], [_, 1, 3], [qb, [] | e]] != (qb, _), P3(_, _, 3) != P3(_, _, [qb]), qb == qa] }])
}
pub fn case_137(vars: &Vars) -> InferredGoal<DU, DE, Goal<DU, DE>> {
    let qa = vars.v[0].clone();
    let qb = vars.v[1].clone();
    let coll0: Vec<LT> = vec![];
    proto_vulcan!([_ != [["a", qb, qa | qb], [2, 1, qb]], for e in &coll0 { [_, qb, e] == [[2 | e], "bc", [qa]], [[_, qb, qb], [qa, _, _], 2] == P3(1, e, qa) }])
}
pub fn case_138(vars: &Vars) -> InferredGoal<DU, DE, Goal<DU, DE>> {
    let qa = vars.v[0].clone();
    let qb = vars.v[1].clone();
    let coll0: Vec<LT> = vec![];
    proto_vulcan!([for e in &coll0 { qa == [], qa == qb }])
}
pub fn case_139(vars: &Vars) -> InferredGoal<DU, DE, Goal<DU, DE>> {
    let qa = vars.v[0].clone();
    let qb = vars.v[1].clone();
    let coll0: LT = LT::from_vec(vec![lterm!(3), lterm!(2), lterm!(2)]);
    proto_vulcan!([true, for e in &coll0 { qb == [qb, 'b'], [true] }])
}
pub fn case_140(vars: &Vars) -> InferredGoal<DU, DE, Goal<DU, DE>> {
    let x = vars.v[0].clone();
    proto_vulcan!([match x { [x | _] => x == 1, }])
}
pub fn case_141(vars: &Vars) -> InferredGoal<DU, DE, Goal<DU, DE>> {
    let x = vars.v[0].clone();
    let y = vars.v[1].clone();
    proto_vulcan!([match x { [h, h] => h == y, }])
}
pub fn case_142(vars: &Vars) -> InferredGoal<DU, DE, Goal<DU, DE>> {
    let x = vars.v[0].clone();
    proto_vulcan!([match x { [] | [_] => , [_, _ | t] => t == [], }])
}
pub fn case_143(vars: &Vars) -> InferredGoal<DU, DE, Goal<DU, DE>> {
    let x = vars.v[0].clone();
    let y = vars.v[1].clone();
    proto_vulcan!([member(x, [1, 2]), matcha x { 1 => y == 10, _ => y == 20, }])
}
pub fn case_144(vars: &Vars) -> InferredGoal<DU, DE, Goal<DU, DE>> {
    let x = vars.v[0].clone();
    let y = vars.v[1].clone();
    proto_vulcan!([matchu [x, y] { [h, _] => member(h, [1, 2]), _ => , }])
}
pub fn case_145(vars: &Vars) -> InferredGoal<DU, DE, Goal<DU, DE>> {
    let x = vars.v[0].clone();
    proto_vulcan!([match x { [x, 3, [[], false, 1]] => , _ => [onceo { [x, 1, 2] == x }, x != [x]], [] => [[x == [], [x] == 1, [1, [x, false | _] | _] == x]], }])
}
pub fn case_146(vars: &Vars) -> InferredGoal<DU, DE, Goal<DU, DE>> {
    let x = vars.v[0].clone();
    let y = vars.v[1].clone();
    proto_vulcan!([[[3], x, [y]] == x, matcha y { P3([_, z], 1, _) | [y, [h, 1 | _], [1 | _] | t] => [x == [1, x, x | x], 'a' == false], [] => { "a" == [3, y], P3(x, [2], []) != 2 }, Named { a: _, b: [] } => [append(x, y, [3]), [x, 1 | 1] == x], }])
}
pub fn case_147(vars: &Vars) -> InferredGoal<DU, DE, Goal<DU, DE>> {
    let q = vars.v[0].clone();
    let x = vars.v[1].clone();
    proto_vulcan!([match x { _ => , x => , }])
}
pub fn case_148(vars: &Vars) -> InferredGoal<DU, DE, Goal<DU, DE>> {
    let x = vars.v[0].clone();
    let y = vars.v[1].clone();
    proto_vulcan!([x == [x, y], match x { [y, [z | z]] => { z == [x, 'a' | 2], matcha x { Named { a: [_, _], b: 1 } => [z == [[_, y, x], 2, y], false], [[], x] | h => , } }, [[z, _, x]] => , _ => { |y| { [3, 3] == y, 1 == ([], [2, 3]), _ == x }, matchu [2, 'b'] { 1 | [false, [z, [] | 1], x] => y == _, [[[]], [_, [] | z], 2] => [false, |tz| { [3, 2, 1] != [3, 2 | tz], tz == [1] }], x | _ => { y == _, [_, y, _ | y] == y }, } }, }])
}
pub fn case_149(vars: &Vars) -> InferredGoal<DU, DE, Goal<DU, DE>> {
    let x = vars.v[0].clone();
    let y = vars.v[1].clone();
    proto_vulcan!([match x { h => , }])
}
pub fn case_150(vars: &Vars) -> InferredGoal<DU, DE, Goal<DU, DE>> {
    let x = vars.v[0].clone();
    proto_vulcan!([[x != x], matcha x { [2, [], [1, h, z] | _] => { onceo { x != P3(_, [2], x) } }, _ => { [] }, }])
}
pub fn case_151(vars: &Vars) -> InferredGoal<DU, DE, Goal<DU, DE>> {
    let x = vars.v[0].clone();
    let y = vars.v[1].clone();
    proto_vulcan!([matche y { [[y, x] | 2] => [|z, h| { z == 1 }, conda { [x == P3(2, _, 2), [] == y], [false, true] }], [[z | y], ['a', 3, true | t], ['b', y, 1 | _]] | _ => { x == [2, x, x | x] }, }])
}
pub fn case_152(vars: &Vars) -> InferredGoal<DU, DE, Goal<DU, DE>> {
    let x = vars.v[0].clone();
    let y = vars.v[1].clone();
    proto_vulcan!([matchu x { Named { a: 3, b: [x, _] } | [1] => { |x| { member(x, [1]), [[], y] == x }, conde { append(y, y, []), y == y } }, }])
}
pub fn case_153(vars: &Vars) -> InferredGoal<DU, DE, Goal<DU, DE>> {
    let x = vars.v[0].clone();
    let y = vars.v[1].clone();
    proto_vulcan!([match x { [] => , }])
}
pub fn case_154(vars: &Vars) -> InferredGoal<DU, DE, Goal<DU, DE>> {
    let q = vars.v[0].clone();
    let x = vars.v[1].clone();
    proto_vulcan!([matcha x { h => { x != _ }, }])
}
pub fn case_155(vars: &Vars) -> InferredGoal<DU, DE, Goal<DU, DE>> {
    let x = vars.v[0].clone();
    proto_vulcan!([|tz| { tz == [2, 3], [2 | tz] != [2, 2, 3] }, matchu x { h => { h == false, matche x { 2 => [append(x, h, []), member(x, [2])], } }, P3(x, 1, z) => [x == (x, x), |z, y| { P3(_, x, y) != z, x == P3(_, x, []) }], }])
}
pub fn case_156(vars: &Vars) -> InferredGoal<DU, DE, Goal<DU, DE>> {
    let x = vars.v[0].clone();
    let y = vars.v[1].clone();
    proto_vulcan!([matche ['b'] { [h] => [false, matcha h { 3 => { 3 == [[]], false }, 1 | _ => { h == [3, x, x] }, x | P3(x, [2, h], [[]]) => , }], _ => [y == 7, y == 8], }])
}
pub fn case_157(vars: &Vars) -> InferredGoal<DU, DE, Goal<DU, DE>> {
    let x = vars.v[0].clone();
    proto_vulcan!([|z, y| { true }, matchu [3, x, 1] { _ => { member(x, [1, 2, 3]) }, P3([_], 2, 3) => { [x, 1 | x] == x, x != (2, 1) }, }])
}
pub fn case_158(vars: &Vars) -> InferredGoal<DU, DE, Goal<DU, DE>> {
    let x = vars.v[0].clone();
    let y = vars.v[1].clone();
    proto_vulcan!([onceo { [2, y | x] == x }, matcha y { z => matcha z { [2, 'a', [2, 2, 1] | x] => , }, _ => onceo { [x, y | x] == y }, [[1, 2, 1], [x, 2], [x, x, []] | 'b'] | [[_, 1 | _], [[]], [h, t, _ | x]] => { y == [1, 3], conde { 'b' != y } }, }])
}
pub fn case_159(vars: &Vars) -> InferredGoal<DU, DE, Goal<DU, DE>> {
    let x = vars.v[0].clone();
    proto_vulcan!([[_] == x, match x { [[_, [], 1]] => { match x { Named { a: x, b: y } => { y == y }, x => , _ => { member(x, [1, 2, 3]) }, }, |z| { x == [2, x, 1], x != P3([2], x, _), x == z } }, z => , [[false, _], h, [3, 3 | z]] | _ => [|x, h| { h != x, h == x }, conde { (x, _) == x, false == (3, 3) }], }])
}
pub fn case_160(vars: &Vars) -> InferredGoal<DU, DE, Goal<DU, DE>> {
    let x = vars.v[0].clone();
    proto_vulcan!([match x { 1 => x == [x, true, _], }])
}
pub fn case_161(vars: &Vars) -> InferredGoal<DU, DE, Goal<DU, DE>> {
    let x = vars.v[0].clone();
    let y = vars.v[1].clone();
    proto_vulcan!([matcha y { _ => { match y { y => , [t | _] => y == ([[], y], 2), "bc" => , }, match x { [3, [2, 2], 1] => { y != "a", member(y, [2, 1, 2]) }, [[t, [], true]] => ["bc"] != x, } }, [[h], z, t] => [matcha x { P3([], [_, []], [z, y]) | "a" => h == t, }, []], }])
}
pub fn case_162(vars: &Vars) -> InferredGoal<DU, DE, Goal<DU, DE>> {
    let x = vars.v[0].clone();
    let y = vars.v[1].clone();
    proto_vulcan!([x == [_, [] | y], match y { [[1, 2]] => { [[x, 3] | x] != y }, _ | [z, [2], [3, 2, 3 | _] | y] => [|y, x| { member(x, [2, 1, 1]), x == [_, 1, 1 | x] }, matchu x { P3([3, x], t, x) => [[x, 1, 3 | x] == t, |tz| { [3 | tz] != [3, 1], tz == [1] }], [t] => { [["bc"]] != t, P3(_, x, t) == x }, }], }])
}
pub fn case_163(vars: &Vars) -> InferredGoal<DU, DE, Goal<DU, DE>> {
    let x = vars.v[0].clone();
    proto_vulcan!([|y| { append(y, x, [1, 3]), y == [y] }, matchu [] { Named { a: [], b: 2 } | [[z], z] => , _ => , P3(x, _, 2) => { [_] == x, conde { x == [[], x, 1] } }, }])
}
pub fn case_164(vars: &Vars) -> InferredGoal<DU, DE, Goal<DU, DE>> {
    let x = vars.v[0].clone();
    let y = vars.v[1].clone();
    proto_vulcan!([|x, z| { P3([_, y], x, [x]) == z, |tz| { tz == [1, 2], [3, 1 | tz] != [3, 1, 1, 2] } }, match y { [[y | _], x, [3]] => { |z, h| { false, member(y, [3]), x == 1 } }, }])
}
pub fn case_165(vars: &Vars) -> InferredGoal<DU, DE, Goal<DU, DE>> {
    let x = vars.v[0].clone();
    let y = vars.v[1].clone();
    proto_vulcan!([[x, [y, _, 1 | x], [1, y, y | x]] != (2, [y]), match y { _ => [true == [y, y, 2], ['b'] != [[y, y], ['b', y, 'a']]], false => { |h, x| { [_, x] == y, x == x } }, _ => { member(x, [1, 2, 3]) }, }])
}
pub fn case_166(vars: &Vars) -> InferredGoal<DU, DE, Goal<DU, DE>> {
    let q = vars.v[0].clone();
    let x = vars.v[1].clone();
    proto_vulcan!([matche q { P3(y, z, [1]) => [matche z { [z, [t, 2, z], h] | [["a", []]] => [|tz| { tz == [2], [3 | tz] != [3, 2] }, [_, x | x] == q], _ | P3(_, z, z) => , }, [q, z, y] == y], }])
}
pub fn case_167(vars: &Vars) -> InferredGoal<DU, DE, Goal<DU, DE>> {
    let x = vars.v[0].clone();
    proto_vulcan!([x == [x, x], matchu x { Named { a: h, b: [] } => , }])
}
pub fn case_168(vars: &Vars) -> InferredGoal<DU, DE, Goal<DU, DE>> {
    let x = vars.v[0].clone();
    proto_vulcan!([matcha x { _ | Named { a: y, b: 1 } => [[x != x, 'a' != x]], [y, [h | y]] => { conde { [|tz| { [1 | tz] != [1, 1], tz == [1] }, h == [_, []]], true }, h != ([1, _], x) }, }])
}
pub fn case_169(vars: &Vars) -> InferredGoal<DU, DE, Goal<DU, DE>> {
    let x = vars.v[0].clone();
    proto_vulcan!([matchu x { Named { a: [_], b: [] } => , }])
}
pub fn case_170(vars: &Vars) -> InferredGoal<DU, DE, Goal<DU, DE>> {
    let q = vars.v[0].clone();
    let x = vars.v[1].clone();
    proto_vulcan!([[member(x, [2]), member(q, [1]), q == [[x, q], [q, _, true] | x]], matche q { Named { a: [], b: z } => { |y, x| { true == y, 1 == z }, onceo { (_, 1) == z } }, }])
}
pub fn case_171(vars: &Vars) -> InferredGoal<DU, DE, Goal<DU, DE>> {
    let x = vars.v[0].clone();
    let y = vars.v[1].clone();
    proto_vulcan!([matchu y { _ => { onceo { x != x } }, }])
}
pub fn case_172(vars: &Vars) -> InferredGoal<DU, DE, Goal<DU, DE>> {
    let x = vars.v[0].clone();
    proto_vulcan!([matchu x { [[1, 'b']] => [false, onceo { [x, 1, 1 | x] != x }], 1 | [] => [[x, x, 'b'] == x, [2 == [[x, x | x], [2, "bc", x]]]], }])
}
pub fn case_173(vars: &Vars) -> InferredGoal<DU, DE, Goal<DU, DE>> {
    let x = vars.v[0].clone();
    proto_vulcan!([|y, h| {  }, match _ { 3 | [[[], 'b']] => conde { [], [] }, [[x], [z], [] | z] => { z == x, false }, }])
}
pub fn case_174(vars: &Vars) -> InferredGoal<DU, DE, Goal<DU, DE>> {
    let x = vars.v[0].clone();
    proto_vulcan!([|tz| { tz == [1], [3, 1 | tz] != [3, 1, 1] }, matcha x { [3, [1, t | 3], z | z] | _ => |x, z| { z == x, ["bc", 2 | z] == z, [true] != x }, 3 => , }])
}
pub fn case_175(vars: &Vars) -> InferredGoal<DU, DE, Goal<DU, DE>> {
    let q = vars.v[0].clone();
    let x = vars.v[1].clone();
    proto_vulcan!([|t| {  }, matcha q { 2 => { [3, q] == q }, P3(_, x, _) | _ => , }])
}
pub fn case_176(vars: &Vars) -> InferredGoal<DU, DE, Goal<DU, DE>> {
    let x = vars.v[0].clone();
    let y = vars.v[1].clone();
    proto_vulcan!([member(y, [1, 1]), matche y { P3(y, [_], _) => { member(y, [1, 2, 2]), y != y }, 2 => |z| { append(z, y, [3]), P3(3, _, y) == x }, P3(_, _, _) => , }])
}
pub fn case_177(vars: &Vars) -> InferredGoal<DU, DE, Goal<DU, DE>> {
    let q = vars.v[0].clone();
    let x = vars.v[1].clone();
    proto_vulcan!([x != _, matchu [_, x] { Named { a: 3, b: 1 } => [[] == q, onceo { append(x, x, [1, 1]) }], 1 | _ => , }])
}
pub fn case_178(vars: &Vars) -> InferredGoal<DU, DE, Goal<DU, DE>> {
    let x = vars.v[0].clone();
    proto_vulcan!([|tz| { [3, 2 | tz] != [3, 2, 2], tz == [2] }, matche x { [['b', 3 | t]] => , P3(_, t, x) => { (x, x) == t }, }])
}
pub fn case_179(vars: &Vars) -> InferredGoal<DU, DE, Goal<DU, DE>> {
    let x = vars.v[0].clone();
    proto_vulcan!([[x == [["bc", x, x], x], x == x, |tz| { [1, 1 | tz] != [1, 1, 3], tz == [3] }], matche x { [[t], t, [1, [], y | _] | _] | [[y, y | h], [t, t]] => { matchu t { [[h, x, z], _, y] => , _ | _ => member(t, [1, 2, 3]), [2, [1 | false] | y] => , }, t == x }, P3(_, t, t) => onceo { _ != x }, [[]] => match x { _ => { x == 7, x == 8 }, 1 => , }, }])
}
pub fn case_180(vars: &Vars) -> InferredGoal<DU, DE, Goal<DU, DE>> {
    let x = vars.v[0].clone();
    proto_vulcan!([x == 2, matche x { _ => { member(x, [1, 2, 3]) }, _ => member(x, [1, 2, 3]), [[1, 2, _ | z], [[], []]] => |x, z| { member(z, [1, 3, 1]), ["bc"] == z, ['b', z] == 'a' }, }])
}
pub fn case_181(vars: &Vars) -> InferredGoal<DU, DE, Goal<DU, DE>> {
    let x = vars.v[0].clone();
    let y = vars.v[1].clone();
    proto_vulcan!([onceo { [[x]] == 'b' }, matcha [3, 1] { 'b' | [[x, true, _ | x], y, t | z] => , t => { [t] == y, 1 != [1, y, 2 | t] }, 3 => { [member(x, [3, 2, 3])], true == y }, }])
}
pub fn case_182(vars: &Vars) -> InferredGoal<DU, DE, Goal<DU, DE>> {
    let q = vars.v[0].clone();
    let x = vars.v[1].clone();
    proto_vulcan!([match x { [[1, 1 | _], ['b', h, 3]] => { matchu q { _ => [x == ["bc", 2, false], true], } }, }])
}
pub fn case_183(vars: &Vars) -> InferredGoal<DU, DE, Goal<DU, DE>> {
    let x = vars.v[0].clone();
    let y = vars.v[1].clone();
    proto_vulcan!([matcha ["bc", 2 | x] { [[true, "bc"] | y] => { y == y, [x] != ['a' | y] }, }])
}
pub fn case_184(vars: &Vars) -> InferredGoal<DU, DE, Goal<DU, DE>> {
    let q = vars.v[0].clone();
    let x = vars.v[1].clone();
    proto_vulcan!([matcha q { [[[], h, t]] => { [x] != t, condu { false, t == h, member(h, [3, 2]) } }, [[t, "a" | _], z, 3 | h] | Named { a: y, b: [] } => { append(q, q, [3]) }, [x | _] => , }])
}
pub fn case_185(vars: &Vars) -> InferredGoal<DU, DE, Goal<DU, DE>> {
    let x = vars.v[0].clone();
    let y = vars.v[1].clone();
    proto_vulcan!([match y { [[t, z, 2], [2, 2 | y], [y]] => { y == y }, x => { conde { 1 == x, [[], [], _] == [false, [3], x | x], [x == [y, 2, 2], [[2, _, 1], 3] != [1, false | x]] } }, [[z, h | z]] => , }])
}
pub fn case_186(vars: &Vars) -> InferredGoal<DU, DE, Goal<DU, DE>> {
    let x = vars.v[0].clone();
    proto_vulcan!([matche x { y => , }])
}
pub fn case_187(vars: &Vars) -> InferredGoal<DU, DE, Goal<DU, DE>> {
    let x = vars.v[0].clone();
    let y = vars.v[1].clone();
    proto_vulcan!([matche y { _ => { member(x, [1, 2, 3]) }, [] | [[x, 2], _] => , _ => { |y| { P3(x, 1, []) != 1, true } }, }])
}
pub fn case_188(vars: &Vars) -> InferredGoal<DU, DE, Goal<DU, DE>> {
    let q = vars.v[0].clone();
    let x = vars.v[1].clone();
    proto_vulcan!([|x, z| { |tz| { tz == [3, 3], [2, 3, 3] != [2 | tz] }, q == [2, [], z], member(q, [1, 1, 1]) }, match q { [[1], ['a', 2]] => { [[2], [q, 2, false]] == x }, z => [|x| { x == x, true }, [2, _, _] == z], [2 | _] => , }])
}
pub fn case_189(vars: &Vars) -> InferredGoal<DU, DE, Goal<DU, DE>> {
    let x = vars.v[0].clone();
    proto_vulcan!([|y, x| { P3(y, y, 1) != y }, matche x { _ => member(x, [1, 2, 3]), _ => { member(x, [1, 2, 3]) }, }])
}
pub fn case_190(vars: &Vars) -> InferredGoal<DU, DE, Goal<DU, DE>> {
    let q = vars.v[0].clone();
    let x = vars.v[1].clone();
    proto_vulcan!([onceo { 3 == [[2, x, []], [q], [q, q] | x] }, matcha q { _ => [x == 7, x == 8], _ => { append(q, x, []) }, [[[]], [t, [], 3]] | _ => , }])
}
pub fn case_191(vars: &Vars) -> InferredGoal<DU, DE, Goal<DU, DE>> {
    let x = vars.v[0].clone();
    let y = vars.v[1].clone();
    proto_vulcan!([[y == 1, true], matcha x { _ => { x == 7, x == 8 }, }])
}
pub fn case_192(vars: &Vars) -> InferredGoal<DU, DE, Goal<DU, DE>> {
    let x = vars.v[0].clone();
    proto_vulcan!([true, matche x { [[3, h, 'b'], 2] | _ => { [P3(3, [_, []], 2) != x] }, [[y, y, y], [false], [false]] => { |z| { member(y, [1]), true } }, }])
}
pub fn case_193(vars: &Vars) -> InferredGoal<DU, DE, Goal<DU, DE>> {
    let x = vars.v[0].clone();
    proto_vulcan!([matcha x { P3(h, [[], []], [2, t]) => , }])
}
pub fn case_194(vars: &Vars) -> InferredGoal<DU, DE, Goal<DU, DE>> {
    let q = vars.v[0].clone();
    let x = vars.v[1].clone();
    proto_vulcan!([matcha q { _ => { member(x, [1, 2, 3]) }, }])
}
pub fn case_195(vars: &Vars) -> InferredGoal<DU, DE, Goal<DU, DE>> {
    let q = vars.v[0].clone();
    let x = vars.v[1].clone();
    proto_vulcan!([q != [3, _], match q { _ => [x == 7, x == 8], }])
}
pub fn case_196(vars: &Vars) -> InferredGoal<DU, DE, Goal<DU, DE>> {
    let x = vars.v[0].clone();
    let y = vars.v[1].clone();
    proto_vulcan!([x == 2, matchu x { [[x, _, t | t], h, [[]]] | [[[], 3, 2], z, z] => true, [[t, t, y] | z] => { [1, t] == x }, [[[], h, _ | z]] | _ => onceo { 2 != x }, }])
}
pub fn case_197(vars: &Vars) -> InferredGoal<DU, DE, Goal<DU, DE>> {
    let x = vars.v[0].clone();
    proto_vulcan!([x == [x, [x, x, []]], matche x { Named { a: [[]], b: [1] } => [[x | x] == x, onceo { (_, 3) != [x, [x, x, x], 'a'] }], [[y, _], [_, _]] | Named { a: [t, 1], b: [3, y] } => [|tz| { [1, 3 | tz] != [1, 3, 2, 2], tz == [2, 2] }, y != y], _ => { member(x, [1, 2, 3]) }, }])
}
pub fn case_198(vars: &Vars) -> InferredGoal<DU, DE, Goal<DU, DE>> {
    let x = vars.v[0].clone();
    let y = vars.v[1].clone();
    proto_vulcan!([conda { P3(_, _, 3) != y, [x == y, x == [3, 2]] }, matche x { "a" => , }])
}
pub fn case_199(vars: &Vars) -> InferredGoal<DU, DE, Goal<DU, DE>> {
    let x = vars.v[0].clone();
    let y = vars.v[1].clone();
    proto_vulcan!([matche y { [_] => [condu { [(2, 1) == [y, [x, true]], x != x], [y == false, y == (y, 3)] }, y != P3([_], 3, [_])], }])
}
pub fn case_200(vars: &Vars) -> InferredGoal<DU, DE, Goal<DU, DE>> {
    let q = vars.v[0].clone();
    let x = vars.v[1].clone();
    proto_vulcan!([matcha [2, _, x | x] { P3(2, 1, _) => , y | [[], [1, [], t], x | h] => conde { true, [([_], []) == [], q == [1, [], q]] }, }])
}
pub fn case_201(vars: &Vars) -> InferredGoal<DU, DE, Goal<DU, DE>> {
    let x = vars.v[0].clone();
    proto_vulcan!([matchu x { [2, 2, [h, t, 1 | t]] => { [t == h] }, t => , }])
}
pub fn case_202(vars: &Vars) -> InferredGoal<DU, DE, Goal<DU, DE>> {
    let x = vars.v[0].clone();
    proto_vulcan!([matchu x { 3 | 1 => , }])
}
pub fn case_203(vars: &Vars) -> InferredGoal<DU, DE, Goal<DU, DE>> {
    let x = vars.v[0].clone();
    let y = vars.v[1].clone();
    proto_vulcan!([match y { P3(h, 2, 2) => { [false, h == P3([_], x, [_, []]), h == 2] }, }])
}
pub fn case_204(vars: &Vars) -> InferredGoal<DU, DE, Goal<DU, DE>> {
    let x = vars.v[0].clone();
    proto_vulcan!([match x { x => { append(x, x, [2, 3]), [[x, [1, x, true]] != x, [3, 1, _] != x] }, _ => [x == 7, x == 8], }])
}
pub fn case_205(vars: &Vars) -> InferredGoal<DU, DE, Goal<DU, DE>> {
    let x = vars.v[0].clone();
    proto_vulcan!([x == P3([1, 3], [3, 3], x), matchu x { P3([2, 2], [h], [3, z]) => , _ | 2 => { x == _ }, [[2, []]] => { append(x, x, [2]) }, }])
}
pub fn case_206(vars: &Vars) -> InferredGoal<DU, DE, Goal<DU, DE>> {
    let x = vars.v[0].clone();
    let y = vars.v[1].clone();
    proto_vulcan!([onceo { P3([_], x, 1) == y }, matcha y { [[t, t], y, [2, _, 2 | x] | _] | P3(y, 2, [[], 3]) => , P3(1, 2, [[], t]) | [[x], [3, 2 | z] | y] => , }])
}
pub fn case_207(vars: &Vars) -> InferredGoal<DU, DE, Goal<DU, DE>> {
    let x = vars.v[0].clone();
    proto_vulcan!([matche x { _ => match x { [[t | 1], [t, [], 2], y] => , [[x, 2], [_, [], 2 | x]] => , }, _ => , z => , }])
}
pub fn case_208(vars: &Vars) -> InferredGoal<DU, DE, Goal<DU, DE>> {
    let x = vars.v[0].clone();
    proto_vulcan!([true, match x { [[[]], [1, z, y | _], [[], 3, [] | _]] => , Named { a: [], b: z } => { true }, }])
}
pub fn case_209(vars: &Vars) -> InferredGoal<DU, DE, Goal<DU, DE>> {
    let x = vars.v[0].clone();
    proto_vulcan!([matchu x { [1, y, 3] | [[], 2, [t | z] | h] => { true }, P3(x, [h, _], []) => { match x { h => , [['b', 3 | y], 3, _ | _] => [['a'] == [[3], [_], [2, x, y]], h != y], [['a', z | z], ["a", _], [[]]] => { ([], x) == 3 }, } }, _ | "a" => { [x == [[false | x]], |tz| { tz == [1], [3 | tz] != [3, 1] }], [member(x, [1]), [2, _, 2] == P3([2, _], 1, [1, 1]), append(x, x, [1])] }, }])
}
pub fn case_210(vars: &Vars) -> InferredGoal<DU, DE, Goal<DU, DE>> {
    let x = vars.v[0].clone();
    let y = vars.v[1].clone();
    proto_vulcan!([|y| { "bc" != y, 1 == y, 1 == [_, y | y] }, matche x { Named { a: _, b: z } => , [[2 | _], z] => { |t| { z == P3(_, 1, [z]), y == [_, 1, z], [[_, 2 | x], [y, 3, 2 | x], [z]] == z } }, [true | y] | 2 => { x != [x], conde { [x != [x, x, "a"], true], [x == [x], [true, x, 3 | x] == x] } }, }])
}
pub fn case_211(vars: &Vars) -> InferredGoal<DU, DE, Goal<DU, DE>> {
    let q = vars.v[0].clone();
    let x = vars.v[1].clone();
    proto_vulcan!([[|tz| { [3, 3, 2, 1] != [3, 3 | tz], tz == [2, 1] }, false], matcha x { _ | [[y | h], [t, h, 'a'], [2, t | _]] => [[]], }])
}
pub fn case_212(vars: &Vars) -> InferredGoal<DU, DE, Goal<DU, DE>> {
    let x = vars.v[0].clone();
    let y = vars.v[1].clone();
    proto_vulcan!([P3(_, [2], [_]) == y, matcha x { t => [member(x, []), y == _], _ => { condu { [y == [y, x, 3], true] }, [2 | y] == y }, _ => member(x, [1, 2, 3]), }])
}
pub fn case_213(vars: &Vars) -> InferredGoal<DU, DE, Goal<DU, DE>> {
    let x = vars.v[0].clone();
    proto_vulcan!([match x { [[t, x, 2], [1]] => , [y] => , 2 | [[1]] => , }])
}
pub fn case_214(vars: &Vars) -> InferredGoal<DU, DE, Goal<DU, DE>> {
    let x = vars.v[0].clone();
    let y = vars.v[1].clone();
    proto_vulcan!([matcha [1, y, 'b'] { P3(2, [1, t], 3) => , [[[]]] => , }])
}
pub fn case_215(vars: &Vars) -> InferredGoal<DU, DE, Goal<DU, DE>> {
    let x = vars.v[0].clone();
    let y = vars.v[1].clone();
    proto_vulcan!([member(y, [3]), match y { z | z => { matchu x { [['a', _]] => [z, x | x] != y, _ => [x == 7, x == 8], } }, _ => { P3([], 2, 3) == ([], 1) }, [['b', _], [t, x, _ | _], [x, x, h | t]] => { |tz| { [1 | tz] != [1, 2], tz == [2] }, conde { x == 3 } }, }])
}
pub fn case_216(vars: &Vars) -> InferredGoal<DU, DE, Goal<DU, DE>> {
    let x = vars.v[0].clone();
    let y = vars.v[1].clone();
    proto_vulcan!([matcha x { _ => { [_ != x], y == [[x, 2]] }, [[3, 2, _], 1, 1 | _] => { onceo { x == [y] } }, Named { a: 1, b: [] } => [member(y, [2, 1, 3]), |y| { [[3, 1, false], [y, y, []] | y] == [[x, y, 2], [2]], |tz| { tz == [1], [1 | tz] != [1, 1] }, false }], }])
}
pub fn case_217(vars: &Vars) -> InferredGoal<DU, DE, Goal<DU, DE>> {
    let x = vars.v[0].clone();
    let y = vars.v[1].clone();
    proto_vulcan!([P3([], [2, 2], []) == x, matchu x { [[true, false] | y] => { [_ != y], |t, z| { P3([], [[]], 1) == y, member(z, [1]), y != [_, x, _] } }, }])
}
pub fn case_218(vars: &Vars) -> InferredGoal<DU, DE, Goal<DU, DE>> {
    let q = vars.v[0].clone();
    let x = vars.v[1].clone();
    proto_vulcan!([onceo { true }, match [q | x] { [[1, []], z] => , 2 => { x != _, [_, x, 3] == x }, [1, x | _] | [t, 1] => , }])
}
pub fn case_219(vars: &Vars) -> InferredGoal<DU, DE, Goal<DU, DE>> {
    let x = vars.v[0].clone();
    let y = vars.v[1].clone();
    proto_vulcan!([matche x { Named { a: [[]], b: [] } => [2 == x, |y| {  }], [z, 3] | _ => { [] }, }])
}
pub fn case_220(vars: &Vars) -> InferredGoal<DU, DE, Goal<DU, DE>> {
    let x = vars.v[0].clone();
    let y = vars.v[1].clone();
    proto_vulcan!([matche y { _ | [[z, h, _]] => { matcha y { Named { a: y, b: [] } => { y != [y, x, [] | y] }, [[_, h]] | [[[], h, [] | _]] => h == y, x => , }, conde { |tz| { tz == [1, 3], [1 | tz] != [1, 1, 3] }, P3(_, [[]], y) != y } }, x | y => , [[x, x, [] | h] | _] => h == [1], }])
}
pub fn case_221(vars: &Vars) -> InferredGoal<DU, DE, Goal<DU, DE>> {
    let q = vars.v[0].clone();
    let x = vars.v[1].clone();
    proto_vulcan!([[1, 3 | "bc"] != q, matcha x { P3(_, 3, []) | h => { x == [_, ["bc" | q]], [true] }, }])
}
pub fn case_222(vars: &Vars) -> InferredGoal<DU, DE, Goal<DU, DE>> {
    let x = vars.v[0].clone();
    proto_vulcan!([matcha x { _ | _ => { x == 7, x == 8 }, _ | [[2 | t]] => [|y| { [] == y, x == [[3], [1]], [[1, x, y], _, x] == x }, conde { [false, (3, [[]]) != x], [append(x, x, [2]), x == _] }], }])
}
pub fn case_223(vars: &Vars) -> InferredGoal<DU, DE, Goal<DU, DE>> {
    let x = vars.v[0].clone();
    let y = vars.v[1].clone();
    proto_vulcan!([conde { [_ == ([_], []), y == y], [x == [x, x], y == P3(_, x, _)], x == [1, 2] }, matcha y { [['b', y | 2], z | z] => , }])
}
pub fn case_224(vars: &Vars) -> InferredGoal<DU, DE, Goal<DU, DE>> {
    let x = vars.v[0].clone();
    let y = vars.v[1].clone();
    proto_vulcan!([y == [[y, "bc" | x], [x, 2, y] | y], matchu x { [1, [2, [] | z], [2] | y] => { (y, _) != z }, h => |y, x| { (_, y) == [x | y] }, }])
}
pub fn case_225(vars: &Vars) -> InferredGoal<DU, DE, Goal<DU, DE>> {
    let x = vars.v[0].clone();
    proto_vulcan!([[x, x, 3 | x] == x, match x { [[[], x, _]] => { x == x, x == [[1, false, x | x] | 1] }, [[1]] => [[[2, _]] == x, conde { [], false, [x == [], x == []] }], }])
}
pub fn case_226(vars: &Vars) -> InferredGoal<DU, DE, Goal<DU, DE>> {
    let x = vars.v[0].clone();
    proto_vulcan!([x == [x], matcha x { _ => conde { [|tz| { [2, 1, 2, 1] != [2, 1 | tz], tz == [2, 1] }, 1 != x], [x == 1, |tz| { [1, 2] != [1 | tz], tz == [2] }], [false, |tz| { [2 | tz] != [2, 3], tz == [3] }] }, }])
}
pub fn case_227(vars: &Vars) -> InferredGoal<DU, DE, Goal<DU, DE>> {
    let x = vars.v[0].clone();
    let y = vars.v[1].clone();
    proto_vulcan!([matchu y { z => { [x, 2] == z }, [[t, [] | 1], [t | y]] => { condu { [P3(3, 3, t) != x, x == [y, 2 | y]], ['b', t] != t }, true }, [[1, _, 3 | z], [true]] => , }])
}
pub fn case_228(vars: &Vars) -> InferredGoal<DU, DE, Goal<DU, DE>> {
    let q = vars.v[0].clone();
    let x = vars.v[1].clone();
    proto_vulcan!([matchu x { _ => [q == 7, q == 8], _ => member(q, [1, 2, 3]), [[[], 3, "bc"], [x, 'a']] => { x == [_, q], append(q, x, [1, 2]) }, }])
}
pub fn case_229(vars: &Vars) -> InferredGoal<DU, DE, Goal<DU, DE>> {
    let q = vars.v[0].clone();
    let x = vars.v[1].clone();
    proto_vulcan!([matchu q { _ => { member(q, [1, 2, 3]) }, }])
}
pub fn case_230(vars: &Vars) -> InferredGoal<DU, DE, Goal<DU, DE>> {
    let q = vars.v[0].clone();
    let x = vars.v[1].clone();
    proto_vulcan!([matche q { _ => , [[_, z | _], "bc"] => , [[_, y], [t, y, 3 | _] | _] => [matchu t { [[t, false], [1, _]] => [[], [2, 1, y | t], 1] == q, [[], [2, h | y], t | y] => [[[2, h | 2], [3, y, _] | h] == [x], _ == y], }, |t| { [y] != t }], }])
}
pub fn case_231(vars: &Vars) -> InferredGoal<DU, DE, Goal<DU, DE>> {
    let x = vars.v[0].clone();
    proto_vulcan!([[[] == 2, x != [[x, x], [x | x] | x]], matcha x { [true | _] => [x == [x, _], x != 1], }])
}
pub fn case_232(vars: &Vars) -> InferredGoal<DU, DE, Goal<DU, DE>> {
    let x = vars.v[0].clone();
    proto_vulcan!([|tz| { [2, 1 | tz] != [2, 1, 2], tz == [2] }, matcha x { [x, [_, x], []] => [[[x, x, [2, _ | 3]] == x, x == ['a']]], _ => { member(x, [1, 2, 3]) }, }])
}
pub fn case_233(vars: &Vars) -> InferredGoal<DU, DE, Goal<DU, DE>> {
    let x = vars.v[0].clone();
    proto_vulcan!([append(x, x, []), matcha x { [3, 1, y] => , _ => { member(x, [1, 2, 3]) }, }])
}
pub fn case_234(vars: &Vars) -> InferredGoal<DU, DE, Goal<DU, DE>> {
    let q = vars.v[0].clone();
    let x = vars.v[1].clone();
    proto_vulcan!([matche x { 3 => [conde { false }, [q == q, 2 == [[x, q]]]], }])
}
pub fn case_235(vars: &Vars) -> InferredGoal<DU, DE, Goal<DU, DE>> {
    let x = vars.v[0].clone();
    let y = vars.v[1].clone();
    proto_vulcan!([match y { _ => { |h| { true, [x, h, y | x] == y } }, y => [[x != [_, _]]], }])
}
pub fn case_236(vars: &Vars) -> InferredGoal<DU, DE, Goal<DU, DE>> {
    let x = vars.v[0].clone();
    let y = vars.v[1].clone();
    proto_vulcan!([matchu x { [['a', t] | _] => [true, x != [y, [y, t, 'b' | x], [[] | y]]], }])
}
pub fn case_237(vars: &Vars) -> InferredGoal<DU, DE, Goal<DU, DE>> {
    let x = vars.v[0].clone();
    proto_vulcan!([matche x { 2 => { |h, z| { z == x, z == [x], false }, x == (1, _) }, [[] | _] => [[[x, x, "a"], ["a"], x | x] == [3, x], x == x], }])
}
pub fn case_238(vars: &Vars) -> InferredGoal<DU, DE, Goal<DU, DE>> {
    let q = vars.v[0].clone();
    let x = vars.v[1].clone();
    proto_vulcan!([[|tz| { [3, 1] != [3 | tz], tz == [1] }, true], match x { [[h, 1, []], [1, [] | h], [t, [] | z]] | [1, t, [[] | z] | z] => [[[[] | z] == [_], append(z, t, [3])]], [] => matche [3] { [[false, x], [2, 'b', z | 2] | _] => , [[2, 1 | z] | t] => , [3, [z, true], "bc" | 3] => [false, append(q, x, [2, 3])], }, y => { |z| { x == y, y == z, append(z, x, [2]) }, matcha x { [_, ["bc"]] => [y == [_, 'b', 'b'], q == y], Named { a: [y, 3], b: [_] } => { y != [['b', q | y]], "bc" == y }, } }, }])
}
pub fn case_239(vars: &Vars) -> InferredGoal<DU, DE, Goal<DU, DE>> {
    let q = vars.v[0].clone();
    let x = vars.v[1].clone();
    proto_vulcan!([x == [2 | x], match q { [[t, t], h] => { |h| { t == h }, 3 == [x, 3 | h] }, [3, [] | _] | [1] => { true }, }])
}
pub fn case_240(vars: &Vars) -> InferredGoal<DU, DE, Goal<DU, DE>> {
    let x = vars.v[0].clone();
    proto_vulcan!([[1, 3 | x] == x, matche x { [2, [y, t | 'a']] => , }])
}
pub fn case_241(vars: &Vars) -> InferredGoal<DU, DE, Goal<DU, DE>> {
    let q = vars.v[0].clone();
    let x = vars.v[1].clone();
    proto_vulcan!([match q { Named { a: 2, b: [3, 1] } => , [3] | [[], [1, 2 | _]] => , }])
}
pub fn case_242(vars: &Vars) -> InferredGoal<DU, DE, Goal<DU, DE>> {
    let x = vars.v[0].clone();
    proto_vulcan!([conde { [[true] != x, false], [], |tz| { tz == [2, 1], [3 | tz] != [3, 2, 1] } }, matche x { _ | 2 => , [h, h | _] | [h | x] => , }])
}
pub fn case_243(vars: &Vars) -> InferredGoal<DU, DE, Goal<DU, DE>> {
    let x = vars.v[0].clone();
    let y = vars.v[1].clone();
    proto_vulcan!([matcha x { P3(3, [y], _) | y => { |z| { true, z == ['a'], z == [3, 2, []] }, |x| { [x, _, []] == y, |tz| { [1, 2, 1, 1] != [1, 2 | tz], tz == [1, 1] }, append(y, y, [2]) } }, }])
}
pub fn case_244(vars: &Vars) -> InferredGoal<DU, DE, Goal<DU, DE>> {
    let q = vars.v[0].clone();
    let x = vars.v[1].clone();
    proto_vulcan!([[[2, 3] != x], matcha x { [[2, x, [] | _]] => [q == ['a', _, 1 | x], conde { [], x == ([_], x), [x] == x }], h => , }])
}
pub fn case_245(vars: &Vars) -> InferredGoal<DU, DE, Goal<DU, DE>> {
    let q = vars.v[0].clone();
    let x = vars.v[1].clone();
    proto_vulcan!([matche [q, 1, []] { [[t, _], [1, 3], [x] | x] => { [member(t, []), 1 == q, [x, t, 2] == x] }, }])
}
pub fn case_246(vars: &Vars) -> InferredGoal<DU, DE, Goal<DU, DE>> {
    let x = vars.v[0].clone();
    proto_vulcan!([matcha x { 2 => [conde { [x == [x | x], x != x], [P3(x, [], [_]) == x, x == [x, x]] }, |tz| { tz == [2], [3, 1 | tz] != [3, 1, 2] }], _ => member(x, [1, 2, 3]), _ => { conde { [x != x, |tz| { [1, 3 | tz] != [1, 3, 2], tz == [2] }], [false, member(x, [1, 1])], false } }, }])
}
pub fn case_247(vars: &Vars) -> InferredGoal<DU, DE, Goal<DU, DE>> {
    let q = vars.v[0].clone();
    let x = vars.v[1].clone();
    proto_vulcan!([conde { q == _, |tz| { tz == [2, 2], [1, 2, 2] != [1 | tz] } }, matcha q { [[1 | 1], [h, 1, z]] => , Named { a: t, b: 1 } => member(t, [3, 3]), "a" => , }])
}
pub fn case_248(vars: &Vars) -> InferredGoal<DU, DE, Goal<DU, DE>> {
    let q = vars.v[0].clone();
    let x = vars.v[1].clone();
    proto_vulcan!([[append(x, q, [])], matche q { y => |t, z| { append(t, z, []), [_] == q, [y, "a", "a" | q] == z }, 2 | [["bc"]] => { x == x, [[] == 1] }, }])
}
pub fn case_249(vars: &Vars) -> InferredGoal<DU, DE, Goal<DU, DE>> {
    let x = vars.v[0].clone();
    proto_vulcan!([x == (2, 3), matcha [] { [[y], [1, z, x | _], 1] => , }])
}
pub fn case_250(vars: &Vars) -> InferredGoal<DU, DE, Goal<DU, DE>> {
    let x = vars.v[0].clone();
    let y = vars.v[1].clone();
    proto_vulcan!([|x| { true }, matche y { Named { a: h, b: [1] } => { |t| { false, true, member(x, []) }, matchu y { [[[], false], [h]] => [h == [3], true], [] => , [2, [t, 2] | t] | [[1, y], false] => [[false, 2, [2, x]] == [[], h], h == (x, _)], } }, }])
}
pub fn case_251(vars: &Vars) -> InferredGoal<DU, DE, Goal<DU, DE>> {
    let q = vars.v[0].clone();
    let x = vars.v[1].clone();
    proto_vulcan!([match x { [[2 | 2] | _] => , _ => member(q, [1, 2, 3]), }])
}
pub fn case_252(vars: &Vars) -> InferredGoal<DU, DE, Goal<DU, DE>> {
    let q = vars.v[0].clone();
    let x = vars.v[1].clone();
    proto_vulcan!([[x, x] != q, matche q { P3(z, [[]], z) | _ => , [_, [x | y], [h, z] | h] | 'a' => { false }, }])
}
pub fn case_253(vars: &Vars) -> InferredGoal<DU, DE, Goal<DU, DE>> {
    let q = vars.v[0].clone();
    let x = vars.v[1].clone();
    proto_vulcan!([matche _ { 3 => [q == 1, |h| { [1, q | q] == [[2, h, 1]] }], t => |tz| { tz == [1], [1, 3 | tz] != [1, 3, 1] }, }])
}
pub fn case_254(vars: &Vars) -> InferredGoal<DU, DE, Goal<DU, DE>> {
    let q = vars.v[0].clone();
    let x = vars.v[1].clone();
    proto_vulcan!([onceo { member(q, []) }, matcha x { [[3, 2, 1], [[] | 3], [false | t]] => , }])
}
pub fn case_255(vars: &Vars) -> InferredGoal<DU, DE, Goal<DU, DE>> {
    let x = vars.v[0].clone();
    proto_vulcan!([|h| { false, 3 == h }, matche x { [[x | x], [2]] => { [|tz| { tz == [1, 1], [3 | tz] != [3, 1, 1] }] }, }])
}
pub fn case_256(vars: &Vars) -> InferredGoal<DU, DE, Goal<DU, DE>> {
    let q = vars.v[0].clone();
    let x = vars.v[1].clone();
    proto_vulcan!([[[x, 3, [[]] | q] == q, q == ([_], x), x == P3([1], [q, 1], [2])], matcha q { _ => , [2, [1, _, x | 1], h | t] | Named { a: 3, b: 3 } => [onceo { [q] == q }, (q, _) == (3, 2)], _ | [[] | x] => { condu { ['a', 1] != q } }, }])
}
pub fn case_257(vars: &Vars) -> InferredGoal<DU, DE, Goal<DU, DE>> {
    let x = vars.v[0].clone();
    proto_vulcan!([onceo { x == [[x]] }, match x { P3(1, 1, []) => , y | ['a' | _] => [[[x | x]] == [[], x | x], conde { member(x, [2]), true, [['b', "bc" | x] == x, x == [_, 2, 1]] }], P3(_, z, [_]) => , }])
}
pub fn case_258(vars: &Vars) -> InferredGoal<DU, DE, Goal<DU, DE>> {
    let x = vars.v[0].clone();
    proto_vulcan!([matche x { x => , _ => member(x, [1, 2, 3]), }])
}
pub fn case_259(vars: &Vars) -> InferredGoal<DU, DE, Goal<DU, DE>> {
    let x = vars.v[0].clone();
    let y = vars.v[1].clone();
    proto_vulcan!([x == [], matche y { [[h] | _] | t => { |h, x| { P3([], 2, []) == h } }, }])
}
pub fn case_260(vars: &Vars) -> InferredGoal<DU, DE, Goal<DU, DE>> {
    let x = vars.v[0].clone();
    let y = vars.v[1].clone();
    proto_vulcan!([append(x, x, []), matcha y { Named { a: h, b: [] } => { match x { Named { a: 2, b: 2 } | 2 => [true, [1] == h], [[y | z]] => { x == [[h, z, []], [], [2, _, z]], true }, }, conda { [y == "bc", x == P3(h, [x], [])], ['b' == h, true == h] } }, _ => { conde { append(y, y, []), [append(y, x, [1]), append(x, x, [])] } }, [] => , }])
}
pub fn case_261(vars: &Vars) -> InferredGoal<DU, DE, Goal<DU, DE>> {
    let x = vars.v[0].clone();
    let y = vars.v[1].clone();
    proto_vulcan!([[1, y | x] == P3(_, _, []), matche x { 2 => { [[[], y] != _], conde { [true, y == [_]], P3([x, 1], 3, 3) != y } }, }])
}
pub fn case_262(vars: &Vars) -> InferredGoal<DU, DE, Goal<DU, DE>> {
    let x = vars.v[0].clone();
    proto_vulcan!([x != P3(x, x, []), matcha x { _ | 3 => , _ => conde { [x == (2, _), x == true], x != [[] | x] }, }])
}
pub fn case_263(vars: &Vars) -> InferredGoal<DU, DE, Goal<DU, DE>> {
    let x = vars.v[0].clone();
    let y = vars.v[1].clone();
    proto_vulcan!([(2, [[]]) == y, matche x { _ => { y != ([_], [_, []]) }, [[h, 3 | y] | 1] => [conde { false, [append(x, h, []), (2, [3, y]) != h] }, |y| { append(x, y, [3]), append(y, x, [2, 2]) }], P3(h, _, [2, h]) => conde { h == P3(x, _, [x, 2]), [], [] }, }])
}
pub fn case_264(vars: &Vars) -> InferredGoal<DU, DE, Goal<DU, DE>> {
    let x = vars.v[0].clone();
    proto_vulcan!([[(x, []) == x, x == (_, 3)], match x { _ => { x == 7, x == 8 }, [[y, _], [h, x, 1]] => [member(h, [3, 1, 1]), x == [["bc", h], [_], [_, x]]], }])
}
pub fn case_265(vars: &Vars) -> InferredGoal<DU, DE, Goal<DU, DE>> {
    let x = vars.v[0].clone();
    let y = vars.v[1].clone();
    proto_vulcan!([x != _, match x { Named { a: 3, b: 1 } => false, [z, 2 | x] => match x { P3(_, t, z) => , t => z == [z, _, "bc"], }, }])
}
pub fn case_266(vars: &Vars) -> InferredGoal<DU, DE, Goal<DU, DE>> {
    let x = vars.v[0].clone();
    proto_vulcan!([onceo { |tz| { tz == [3], [1, 1 | tz] != [1, 1, 3] } }, matche x { [[3, z | z], h] | _ => , [[]] => , }])
}
pub fn case_267(vars: &Vars) -> InferredGoal<DU, DE, Goal<DU, DE>> {
    let x = vars.v[0].clone();
    proto_vulcan!([x == 'a', matchu x { 'a' => { conde { [[], []] == ([], []), [_] != x } }, [] => [|t| { t != t, [[1, 2, [] | t], t, [x]] != x, x == x }, |z, y| { append(x, x, [2]), [[]] == x, x == x }], P3(1, 2, t) => , }])
}
pub fn case_268(vars: &Vars) -> InferredGoal<DU, DE, Goal<DU, DE>> {
    let x = vars.v[0].clone();
    let y = vars.v[1].clone();
    proto_vulcan!([conde { ([], y) == x, [[x] == 2, member(x, [2, 2])] }, matchu [] { [[_ | y] | z] => matche y { [[t, h, []]] => [y == P3(2, x, []), false], }, P3(3, h, []) => { matcha [x, 3, h | h] { z | _ => false, P3(t, [[]], [y, z]) => { |tz| { [2 | tz] != [2, 3, 1], tz == [3, 1] }, [3 | y] == z }, [[y], [] | t] | "bc" => , }, matchu x { 'b' => { x == 1 }, _ => x == h, z => h != P3([[], 1], 3, 1), } }, [[1, 'b', false]] => , }])
}
pub fn case_269(vars: &Vars) -> InferredGoal<DU, DE, Goal<DU, DE>> {
    let q = vars.v[0].clone();
    let x = vars.v[1].clone();
    proto_vulcan!([[[[] | q]] == q, matche q { _ => |h, t| { x != false, t == [h] }, 3 | P3([], _, _) => , [[2, [], z | y]] => , }])
}
pub fn case_270(vars: &Vars) -> InferredGoal<DU, DE, Goal<DU, DE>> {
    let x = vars.v[0].clone();
    let y = vars.v[1].clone();
    proto_vulcan!([onceo { [x, y, _ | x] == y }, matche y { [h, [[], [], 3], 2] => |h| { y == [], [h, y | x] == h }, [[_, 2], [z, [], [] | y]] => { conde { [member(x, [3]), append(z, x, [3])] } }, }])
}
pub fn case_271(vars: &Vars) -> InferredGoal<DU, DE, Goal<DU, DE>> {
    let x = vars.v[0].clone();
    proto_vulcan!([false, matchu x { t | _ => , }])
}
pub fn case_272(vars: &Vars) -> InferredGoal<DU, DE, Goal<DU, DE>> {
    let q = vars.v[0].clone();
    let x = vars.v[1].clone();
    proto_vulcan!([match [q, _, _] { _ => member(q, [1, 2, 3]), _ => { member(q, [1, 2, 3]) }, Named { a: t, b: t } => [[t == P3([3], q, [t, 2]), x == 1], conda { false }], }])
}
pub fn case_273(vars: &Vars) -> InferredGoal<DU, DE, Goal<DU, DE>> {
    let q = vars.v[0].clone();
    let x = vars.v[1].clone();
    proto_vulcan!([match x { 2 => { match [3, "a", 2] { _ => , } }, }])
}
pub fn case_274(vars: &Vars) -> InferredGoal<DU, DE, Goal<DU, DE>> {
    let x = vars.v[0].clone();
    let y = vars.v[1].clone();
    proto_vulcan!([|y, h| { y == [[[], "bc"]], y == (_, y) }, match y { [[t, z] | t] => [match t { [t | _] => { t != z }, [_, z] => { z == [t, 2, y], false }, [[z, h, 1], []] => , }, |z| {  }], }])
}
pub fn case_275(vars: &Vars) -> InferredGoal<DU, DE, Goal<DU, DE>> {
    let x = vars.v[0].clone();
    let y = vars.v[1].clone();
    proto_vulcan!([[append(y, y, []), x != [false, y, y]], matche x { ["bc", t] => , 3 | [[true, [], z | t], [3, _] | 3] => |y, z| { z != [], y == _, 'b' == x }, }])
}
pub fn case_276(vars: &Vars) -> InferredGoal<DU, DE, Goal<DU, DE>> {
    let q = vars.v[0].clone();
    let x = vars.v[1].clone();
    proto_vulcan!([[3 | q] == x, matche x { _ => [q == 7, q == 8], ['b', [3], [h, [], z]] | P3(2, y, []) => , }])
}
pub fn case_277(vars: &Vars) -> InferredGoal<DU, DE, Goal<DU, DE>> {
    let q = vars.v[0].clone();
    let x = vars.v[1].clone();
    proto_vulcan!([matche q { [[_, 1], h | y] => "a" != y, }])
}
pub fn case_278(vars: &Vars) -> InferredGoal<DU, DE, Goal<DU, DE>> {
    let x = vars.v[0].clone();
    let y = vars.v[1].clone();
    proto_vulcan!([matchu y { [[false], [1, true]] => { P3(2, y, y) == x, y == [[[], _, x], [[], y] | 2] }, "a" => matche x { [x, [z, "bc", _]] => y == [x, [_, x, []] | x], }, }])
}
pub fn case_279(vars: &Vars) -> InferredGoal<DU, DE, Goal<DU, DE>> {
    let x = vars.v[0].clone();
    let y = vars.v[1].clone();
    proto_vulcan!([matche y { [1 | _] => , P3(3, y, 3) => { y == y, matchu y { [true] => , P3(t, [t, 3], [3, 1]) => , } }, [[_, _ | y], 2, 2] => , }])
}
pub fn case_280(vars: &Vars) -> InferredGoal<DU, DE, Goal<DU, DE>> {
    let q = vars.v[0].clone();
    let x = vars.v[1].clone();
    proto_vulcan!([q == [q | q], matcha q { [[3, false] | y] => { |tz| { tz == [3, 3], [1, 1 | tz] != [1, 1, 3, 3] }, matchu x { y => [true, q == 3], } }, [_, []] => { |x, y| { q != y, y == (y, 1) }, conde { [|tz| { [2, 2 | tz] != [2, 2, 2], tz == [2] }, q == [q]], [([q, q], _) == [[2, x] | x], [q | q] == x] } }, _ => [|x| { q == [x, q, 1], [x, x] != q }, [q == (x, q), 'b' == x]], }])
}
pub fn case_281(vars: &Vars) -> InferredGoal<DU, DE, Goal<DU, DE>> {
    let q = vars.v[0].clone();
    let x = vars.v[1].clone();
    proto_vulcan!([[x, "bc", _] == q, matcha x { t => , }])
}
pub fn case_282(vars: &Vars) -> InferredGoal<DU, DE, Goal<DU, DE>> {
    let q = vars.v[0].clone();
    let x = vars.v[1].clone();
    proto_vulcan!([match x { [[z, 2 | _] | h] => , }])
}
pub fn case_283(vars: &Vars) -> InferredGoal<DU, DE, Goal<DU, DE>> {
    let q = vars.v[0].clone();
    let x = vars.v[1].clone();
    proto_vulcan!([q == ([], 3), matchu q { [[_, z, 1 | z], [_, _] | h] => [[1 != [[1, x], 'a', [_] | "a"]]], }])
}
pub fn case_284(vars: &Vars) -> InferredGoal<DU, DE, Goal<DU, DE>> {
    let q = vars.v[0].clone();
    let x = vars.v[1].clone();
    proto_vulcan!([|t, y| { t != t }, matchu [2, 3, []] { [[3], [2, h, "a" | x]] | Named { a: [_], b: h } => , _ => , ['b', [_ | _], [[], false]] => [true, matchu q { [[z | h], 2, [false, 1]] | _ => { 1 == _ }, _ => [x == 7, x == 8], [2, [3], [h, _]] | [[y, x, _]] => [true, true], }], }])
}
pub fn case_285(vars: &Vars) -> InferredGoal<DU, DE, Goal<DU, DE>> {
    let x = vars.v[0].clone();
    let y = vars.v[1].clone();
    proto_vulcan!([x == [1, [2, _] | y], y != []])
}
pub fn case_286(vars: &Vars) -> InferredGoal<DU, DE, Goal<DU, DE>> {
    let x = vars.v[0].clone();
    proto_vulcan!([conde { x == 'a', [x == "bc", true], false }])
}
pub fn case_287(vars: &Vars) -> InferredGoal<DU, DE, Goal<DU, DE>> {
    let q = vars.v[0].clone();
    let x = vars.v[1].clone();
    proto_vulcan!([|x| { x == 1, q == [x, true] }])
}
pub fn case_288(vars: &Vars) -> InferredGoal<DU, DE, Goal<DU, DE>> {
    let x = vars.v[0].clone();
    proto_vulcan!([closure { [x == 1, conde { true, true }] }])
}
pub fn case_289(vars: &Vars) -> InferredGoal<DU, DE, Goal<DU, DE>> {
    let x = vars.v[0].clone();
    let y = vars.v[1].clone();
    proto_vulcan!([[] == x, y == [[]]])
}
pub fn case_290(vars: &Vars) -> InferredGoal<DU, DE, Goal<DU, DE>> {
    let x = vars.v[0].clone();
    let y = vars.v[1].clone();
    proto_vulcan!([y == [y, y], closure { [condu { [[append(y, y, []), y == [y | 1], x != [[], 1, "a"]]], conde { [], [x == 'a', false] }, x == [[y, 2]] }, conda { [y != ['b', y, _], conda { [] == y, [P3(2, x, _) == y, x != [3, 1, 2 | x]] }], 3 != x, y == P3([], [x, _], 2) }] }])
}
pub fn case_291(vars: &Vars) -> InferredGoal<DU, DE, Goal<DU, DE>> {
    let x = vars.v[0].clone();
    let y = vars.v[1].clone();
    proto_vulcan!([([], []) == P3([2, 2], [], x), closure { [[1 | x] == x, |tz| { [2, 1 | tz] != [2, 1, 2, 3], tz == [2, 3] }] }])
}
pub fn case_292(vars: &Vars) -> InferredGoal<DU, DE, Goal<DU, DE>> {
    let q = vars.v[0].clone();
    let x = vars.v[1].clone();
    proto_vulcan!([[[]] == [[q, 1], [x, 2 | _], [_ | q] | q]])
}
pub fn case_293(vars: &Vars) -> InferredGoal<DU, DE, Goal<DU, DE>> {
    let x = vars.v[0].clone();
    proto_vulcan!([|y, z| { conde { [], [|tz| { [1 | tz] != [1, 1], tz == [1] }, _ == [x, []]] }, conde { conde { member(x, [3]), [z != ([[], 2], 2), true] }, ['b' | y] != y }, true }, true, conda { [|h| { [h == []], [x, 'b'] == x }, condu { [onceo { x == [[[], x, _ | x], [2, "a", x], [1 | x]] }, x != ([], [_])], [x != _, P3([[], _], [2, _], [x, _]) != x] }], conde { [[x] == x, [[x, x] | 3] == x], [], [] }, |h, z| { conde { [false, [_, 'a' | x] != x], [x != z, append(x, h, [])], [h == [[], [], 2], h == [h, [] | z]] }, conda { [x != [h], x == [z]] } } }, closure { [x != [], |tz| { tz == [2], [2 | tz] != [2, 2] }] }])
}
pub fn case_294(vars: &Vars) -> InferredGoal<DU, DE, Goal<DU, DE>> {
    let x = vars.v[0].clone();
    let y = vars.v[1].clone();
    proto_vulcan!([condu { [|tz| { [2, 1 | tz] != [2, 1, 1], tz == [1] }, |t| { conde { [], [[[_]] == y, _ != t], [[3, [], 2] == t, [3, 2, t | y] == y] }, conde { [false, t != [_, [x, 1, y] | x]], x == ([], []) } }], [P3([[]], 1, [2, 2]) != [2], [x, x | y] == (y, [y, _])], conda { member(x, [2]), [|tz| { [2, 3 | tz] != [2, 3, 1, 2], tz == [1, 2] }, conde { [(y, 1) == y, y == "a"], [x == [1, 1, 1], [2, [] | y] == y] }] } }, y == _])
}
pub fn case_295(vars: &Vars) -> InferredGoal<DU, DE, Goal<DU, DE>> {
    let q = vars.v[0].clone();
    let x = vars.v[1].clone();
    proto_vulcan!([x == [[]], (_, 1) != P3([], 2, 2), closure { q == 1 }])
}
pub fn case_296(vars: &Vars) -> InferredGoal<DU, DE, Goal<DU, DE>> {
    let x = vars.v[0].clone();
    proto_vulcan!([[[[[], 2, x], [3, x], [3, _]] == [2, _, x | x]], false])
}
pub fn case_297(vars: &Vars) -> InferredGoal<DU, DE, Goal<DU, DE>> {
    let x = vars.v[0].clone();
    proto_vulcan!([|tz| { tz == [3], [3 | tz] != [3, 3] }, [[x, x, 2]] == x, closure { append(x, x, []) }])
}
pub fn case_298(vars: &Vars) -> InferredGoal<DU, DE, Goal<DU, DE>> {
    let x = vars.v[0].clone();
    proto_vulcan!([x == (x, x), conde { [|y| { |t, h| {  }, |x| {  }, x == [x, y | x] }, [x] == [2, [x, 1, x], x]] }])
}
pub fn case_299(vars: &Vars) -> InferredGoal<DU, DE, Goal<DU, DE>> {
    let q = vars.v[0].clone();
    let x = vars.v[1].clone();
    proto_vulcan!([x == [2 | x], [[3 | x], q | q] == [[x] | q], P3(1, q, q) == P3(x, _, x), closure { [conde { true }, x == [x, x]] }])
}
pub fn case_300(vars: &Vars) -> InferredGoal<DU, DE, Goal<DU, DE>> {
    let x = vars.v[0].clone();
    proto_vulcan!([x != [x, 'b']])
}
pub fn case_301(vars: &Vars) -> InferredGoal<DU, DE, Goal<DU, DE>> {
    let x = vars.v[0].clone();
    let y = vars.v[1].clone();
    proto_vulcan!([onceo { |y| { y == 2, x == ["bc" | y], x != x } }, [[y, 3 | x], [x, x]] == x, |tz| { tz == [3, 2], [1 | tz] != [1, 3, 2] }, closure { |y, x| { [], [3, 1, x] != [x, 1 | x], [["bc", 1], [y, 1 | y], [1, y, y]] == x } }])
}
pub fn case_302(vars: &Vars) -> InferredGoal<DU, DE, Goal<DU, DE>> {
    let x = vars.v[0].clone();
    let y = vars.v[1].clone();
    proto_vulcan!([y == y, x == [[], 2, 3]])
}
pub fn case_303(vars: &Vars) -> InferredGoal<DU, DE, Goal<DU, DE>> {
    let x = vars.v[0].clone();
    let y = vars.v[1].clone();
    proto_vulcan!([|y| { [P3(1, [], [2]) == y, [y, x, []] == y], y == x }, [true] == y, 3 != y])
}
pub fn case_304(vars: &Vars) -> InferredGoal<DU, DE, Goal<DU, DE>> {
    let q = vars.v[0].clone();
    let x = vars.v[1].clone();
    proto_vulcan!([|tz| { [2 | tz] != [2, 2, 2], tz == [2, 2] }])
}
pub fn case_305(vars: &Vars) -> InferredGoal<DU, DE, Goal<DU, DE>> {
    let q = vars.v[0].clone();
    let x = vars.v[1].clone();
    proto_vulcan!([q != ['a', q, "bc" | q], [[], q, x] != x])
}
pub fn case_306(vars: &Vars) -> InferredGoal<DU, DE, Goal<DU, DE>> {
    let x = vars.v[0].clone();
    let y = vars.v[1].clone();
    proto_vulcan!([[_ != x, y == [y, [x]], []], 'a' != [[x, 3, y]], closure { [y == ['a', x, y], |tz| { [3, 2 | tz] != [3, 2, 3], tz == [3] }] }])
}
pub fn case_307(vars: &Vars) -> InferredGoal<DU, DE, Goal<DU, DE>> {
    let x = vars.v[0].clone();
    let y = vars.v[1].clone();
    proto_vulcan!([|t| { y == t }, [y, false, 2] != [x, x, [2, 1]], closure { [y != 2, append(y, y, [])] }])
}
pub fn case_308(vars: &Vars) -> InferredGoal<DU, DE, Goal<DU, DE>> {
    let q = vars.v[0].clone();
    let x = vars.v[1].clone();
    proto_vulcan!([[q, x] == q, closure { [[x == 1, member(q, [2, 2, 1])]] }])
}
pub fn case_309(vars: &Vars) -> InferredGoal<DU, DE, Goal<DU, DE>> {
    let q = vars.v[0].clone();
    let x = vars.v[1].clone();
    proto_vulcan!([conde { condu { [[append(x, x, [1, 2]), [_, 1, x] == q, _ == q], [[2, q, "a" | 3], [_, x]] == [x, 1]] } }])
}
pub fn case_310(vars: &Vars) -> InferredGoal<DU, DE, Goal<DU, DE>> {
    let q = vars.v[0].clone();
    let x = vars.v[1].clone();
    proto_vulcan!([q == [true, 2 | x], |x| { q == [3, 2, _], |t| { conda { [append(t, x, [3]), t == ["a"]], x != 2 }, |y| { P3(q, 3, 3) == x, [[y | 3] | q] == y, [[], _ | x] == t } }, conde { conde { [3, _] == x, [[2, x, q] == x, 2 == x], [member(q, [3]), [[2, x], [q, 2, []], 2 | x] != [x]] }, [[[q] != x, member(q, [2])]], [[x, [], _ | x] != x, ([x, 3], _) != q] } }])
}
pub fn case_311(vars: &Vars) -> InferredGoal<DU, DE, Goal<DU, DE>> {
    let x = vars.v[0].clone();
    let y = vars.v[1].clone();
    proto_vulcan!([[3, 2] == x, conde { [|z, x| {  }, y != [y, 2, 2]], onceo { y != 2 }, [[y == [1]], conde { true != y }] }, condu { [conde { |h| { x == h } }, x == []] }])
}
pub fn case_312(vars: &Vars) -> InferredGoal<DU, DE, Goal<DU, DE>> {
    let q = vars.v[0].clone();
    let x = vars.v[1].clone();
    proto_vulcan!([conde { [q == (2, [_, _]), false], condu { [conde { [append(q, x, []), true], [append(x, x, []), P3(3, 1, q) == x], [[1, []] == x, (3, 2) == x] }, [q, x, [2, x, 1]] == x] } }, |t| { conda { [[append(q, q, [1, 3]), q == x, [t, _] == t], [[[], q, t], x] != [[], q, []]], t != ["bc" | x], [|x| { member(t, [1, 3]) }, |z, t| {  }] }, [[[], t], [_, 2, 1], [2 | q]] == 'b', q != ["a", []] }])
}
pub fn case_313(vars: &Vars) -> InferredGoal<DU, DE, Goal<DU, DE>> {
    let q = vars.v[0].clone();
    let x = vars.v[1].clone();
    proto_vulcan!([[x, x] == 2, x == x, x == x])
}
pub fn case_314(vars: &Vars) -> InferredGoal<DU, DE, Goal<DU, DE>> {
    let x = vars.v[0].clone();
    proto_vulcan!([[x, _] == x, [|tz| { [2, 2] != [2 | tz], tz == [2] }], closure { x == [1 | x] }])
}
pub fn case_315(vars: &Vars) -> InferredGoal<DU, DE, Goal<DU, DE>> {
    let x = vars.v[0].clone();
    let y = vars.v[1].clone();
    proto_vulcan!([[conde { ["bc" != y, [(1, x) == ["bc", 1, y], 2 == x]], [|t| {  }, conde { [|tz| { [2, 1, 1] != [2, 1 | tz], tz == [1] }, ["bc", x, y | 1] == x], [[[y, x, 2 | y], [x, y], [2, []]] == 1, y == [[], 1, 2]] }], [2] == y }, (x, y) == _, y == [[y, y, 2], x]], closure { P3(2, [], [x, _]) != y }])
}
pub fn case_316(vars: &Vars) -> InferredGoal<DU, DE, Goal<DU, DE>> {
    let q = vars.v[0].clone();
    let x = vars.v[1].clone();
    proto_vulcan!([([], x) == q, |y| { q == (2, []), onceo { |h| { [[], [], q] == [2, [] | 2], (2, [_, []]) != h } }, y != [q, "a"] }, [q == [[], [], x | x], P3(x, [], _) == x, member(q, [2, 2])]])
}
pub fn case_317(vars: &Vars) -> InferredGoal<DU, DE, Goal<DU, DE>> {
    let q = vars.v[0].clone();
    let x = vars.v[1].clone();
    proto_vulcan!([(q, q) == q, closure { [x, q] == q }])
}
pub fn case_318(vars: &Vars) -> InferredGoal<DU, DE, Goal<DU, DE>> {
    let x = vars.v[0].clone();
    let y = vars.v[1].clone();
    proto_vulcan!([[2, _] == y])
}
pub fn case_319(vars: &Vars) -> InferredGoal<DU, DE, Goal<DU, DE>> {
    let x = vars.v[0].clone();
    proto_vulcan!([_ == x])
}
pub fn case_320(vars: &Vars) -> InferredGoal<DU, DE, Goal<DU, DE>> {
    let q = vars.v[0].clone();
    let x = vars.v[1].clone();
    proto_vulcan!([conda { [[], [x, x, true] == q], [x == q, |z| { x == [2], conda { [q == P3([], [q], 3), q != [2, q, z | z]], [[[], []] != q, z == [z, x]] } }] }, q == [[[]], "a"], [false] == [[q, x]], closure { q == (3, []) }])
}
pub fn case_321(vars: &Vars) -> InferredGoal<DU, DE, Goal<DU, DE>> {
    let x = vars.v[0].clone();
    proto_vulcan!([|t, h| { append(h, h, [2, 2]), [[1 | x] == t, onceo { P3(1, _, [x, []]) == h }, [[t, t], [x, [] | 3]] != []] }, [x, x] == x, [x, 2, x] == x])
}
pub fn case_322(vars: &Vars) -> InferredGoal<DU, DE, Goal<DU, DE>> {
    let x = vars.v[0].clone();
    proto_vulcan!([(2, x) == (1, 2), |t| { conde { |tz| { tz == [3], [2, 1, 3] != [2, 1 | tz] } }, |t| { [] == x, append(t, t, [1, 1]), [2 == x, x == [[_, 2, _]]] } }, x != _, closure { x == [2 | x] }])
}
pub fn case_323(vars: &Vars) -> InferredGoal<DU, DE, Goal<DU, DE>> {
    let x = vars.v[0].clone();
    let y = vars.v[1].clone();
    proto_vulcan!([x != [1, _ | y]])
}
pub fn case_324(vars: &Vars) -> InferredGoal<DU, DE, Goal<DU, DE>> {
    let x = vars.v[0].clone();
    let y = vars.v[1].clone();
    proto_vulcan!([_ == y, |x, y| { _ == y, |x| { conde { [x != [x, y, y | x], x == P3(_, [], [[]])] }, conda { x == (x, []), [[[], y] == y, (x, _) == 'b'], [[["bc"], x] == y, [] == y] }, false } }, closure { [|x, t| { false, x == P3([1], [3, x], 1), conde { member(y, [1, 2, 2]), [t == [t, x, "bc"], [_ | t] != t] } }, append(y, x, [])] }])
}
pub fn case_325(vars: &Vars) -> InferredGoal<DU, DE, Goal<DU, DE>> {
    let x = vars.v[0].clone();
    let y = vars.v[1].clone();
    proto_vulcan!([|h, x| { |tz| { tz == [3, 2], [3, 3, 2] != [3 | tz] } }])
}
pub fn case_326(vars: &Vars) -> InferredGoal<DU, DE, Goal<DU, DE>> {
    let x = vars.v[0].clone();
    proto_vulcan!([|y| { |z| {  }, conde { onceo { |tz| { [3, 2, 3] != [3, 2 | tz], tz == [3] } }, [|h| { h == [[], _, 3 | h], y == 3 }, conda { y == (_, y), x != [y, 'a'] }] } }, conde { [true, [[2, x, _], [x]] == _], _ != x }, _ == x])
}
pub fn case_327(vars: &Vars) -> InferredGoal<DU, DE, Goal<DU, DE>> {
    let x = vars.v[0].clone();
    let y = vars.v[1].clone();
    proto_vulcan!([[[_, []]] == "bc"])
}
pub fn case_328(vars: &Vars) -> InferredGoal<DU, DE, Goal<DU, DE>> {
    let x = vars.v[0].clone();
    proto_vulcan!([x == [x, x], |z| { conda { |tz| { [1, 2] != [1 | tz], tz == [2] } } }, closure { ([[], []], x) != x }])
}
pub fn case_329(vars: &Vars) -> InferredGoal<DU, DE, Goal<DU, DE>> {
    let q = vars.v[0].clone();
    let x = vars.v[1].clone();
    proto_vulcan!([x == [q | x], [2, q, x] == q, conde { conde { [], x == [[[] | q], x, 2 | x] }, x == P3(x, q, []) }])
}
pub fn case_330(vars: &Vars) -> InferredGoal<DU, DE, Goal<DU, DE>> {
    let x = vars.v[0].clone();
    proto_vulcan!([conde { [|x, z| { |h, t| { ([_, z], x) != t, z == ([], z), |tz| { [2, 2 | tz] != [2, 2, 1, 2], tz == [1, 2] } }, [["bc", z, _], x] == z }, |t| { |h| { x != [1, false, _], 1 == x, true } }], [[onceo { x == x }, conda { [([2, x], 2) == x, x == [false, 3]] }], conde { |y| { true, [_] == y }, [P3([], [x], [_, x]) != 1, |z| {  }], x != [[], x] }] }, closure { |tz| { [3, 2 | tz] != [3, 2, 3, 3], tz == [3, 3] } }])
}
pub fn case_331(vars: &Vars) -> InferredGoal<DU, DE, Goal<DU, DE>> {
    let q = vars.v[0].clone();
    let x = vars.v[1].clone();
    proto_vulcan!([x == P3(x, [[], q], q), member(x, [3, 3]), conda { [|t, z| { x == (t, 2) }, x == [[[], 'a', 'a'], 1, [q, q, q | q] | q]] }])
}
pub fn case_332(vars: &Vars) -> InferredGoal<DU, DE, Goal<DU, DE>> {
    let x = vars.v[0].clone();
    proto_vulcan!([|y| { x == [[x], [x, []]] }, conde { [x == [1, 1, 2], false], onceo { [x] == x } }])
}
pub fn case_333(vars: &Vars) -> InferredGoal<DU, DE, Goal<DU, DE>> {
    let x = vars.v[0].clone();
    let y = vars.v[1].clone();
    proto_vulcan!([append(x, x, []), x == 2, closure { [[[false, [3] == ["bc", 2 | y], P3(y, [y, []], [3, 3]) == [[3, 2], x, [x, 3 | x]]]], x == ([x], 3)] }])
}
pub fn case_334(vars: &Vars) -> InferredGoal<DU, DE, Goal<DU, DE>> {
    let x = vars.v[0].clone();
    proto_vulcan!([conde { [[1, 1]] == [] }])
}
pub fn case_335(vars: &Vars) -> InferredGoal<DU, DE, Goal<DU, DE>> {
    let x = vars.v[0].clone();
    proto_vulcan!([|tz| { [2, 1, 2] != [2, 1 | tz], tz == [2] }, append(x, x, [3]), 1 != x])
}
pub fn case_336(vars: &Vars) -> InferredGoal<DU, DE, Goal<DU, DE>> {
    let q = vars.v[0].clone();
    let x = vars.v[1].clone();
    proto_vulcan!([conde { |y| { false }, [|y| { q != false, [member(x, [])], |t, y| { [1] == x, x != [x], q == [[]] } }, x == [[_], ["bc", x, "bc"]]], [member(q, [2, 1]), |x| { q != [x, 3], [] == x }] }, true == q, |y, h| { |z| { conde { |tz| { tz == [1], [2, 1 | tz] != [2, 1, 1] }, [q | z] == y, false }, z != z, x == [z, [], 2] }, |t, h| { h != [[], h], [append(t, x, []), true, q == [q, 2, x | "a"]], conde { [h == (_, []), [1, x] == h], append(t, t, [3]), [h != ([q], h), (1, _) == [3]] } } }])
}
pub fn case_337(vars: &Vars) -> InferredGoal<DU, DE, Goal<DU, DE>> {
    let x = vars.v[0].clone();
    proto_vulcan!([[|tz| { [2, 3, 1] != [2, 3 | tz], tz == [1] }, x == 2, P3([[]], [], x) != x], |z| { [z, z, 1] == x, [conde { z != z, [z == z, [[], 3, x | _] == z], member(x, [2, 2, 3]) }], [[2 | x] | z] == z }])
}
pub fn case_338(vars: &Vars) -> InferredGoal<DU, DE, Goal<DU, DE>> {
    let x = vars.v[0].clone();
    let y = vars.v[1].clone();
    proto_vulcan!([x == [1 | _], y == [1, x | x], conda { [true, y != P3(3, _, _)] }, closure { [conda { [[false]], [append(x, x, [3, 1]), onceo { ['a', [y, 2]] == [[[], "bc" | y], [_, 1, 1] | y] }] }, x != 1] }])
}
pub fn case_339(vars: &Vars) -> InferredGoal<DU, DE, Goal<DU, DE>> {
    let q = vars.v[0].clone();
    let x = vars.v[1].clone();
    proto_vulcan!([[2 | q] == q, |z| { [[q != [[3, 2]], |tz| { [3, 2 | tz] != [3, 2, 2], tz == [2] }, [2, 1] == [[_, 1, x], _]], member(x, [2, 1])], onceo { conde { x != 1, [x != 2, member(q, [2, 3, 2])] } }, member(q, [2, 3, 2]) }, conde { _ == x }, closure { [P3([], _, [3]) == [[1]], true] }])
}
pub fn case_340(vars: &Vars) -> InferredGoal<DU, DE, Goal<DU, DE>> {
    let q = vars.v[0].clone();
    let x = vars.v[1].clone();
    proto_vulcan!([|x| { append(x, q, [3, 2]), |y| { [x, 2, x] != x, conde { |tz| { [1 | tz] != [1, 2, 3], tz == [2, 3] }, [[], y] != x, 2 == q }, onceo { [3, 2, 'b' | 2] != y } }, conde { true, |y, h| { x == [1, x | x], [1, x, 2] == x, [x | h] == x } } }, P3(2, _, q) != [], closure { [q == [2, [_] | x], |t| { conde { 1 == t, x == [x], [] } }] }])
}
pub fn case_341(vars: &Vars) -> InferredGoal<DU, DE, Goal<DU, DE>> {
    let x = vars.v[0].clone();
    proto_vulcan!([x != [x, x | _], closure { [onceo { |t| { _ == x, x == [3, [], x], member(t, []) } }, [|z, y| { z != [3, y, x | z] }]] }])
}
pub fn case_342(vars: &Vars) -> InferredGoal<DU, DE, Goal<DU, DE>> {
    let q = vars.v[0].clone();
    let x = vars.v[1].clone();
    proto_vulcan!([append(x, q, []), (1, [x, 3]) != P3(2, _, 1), closure { conde { [[append(q, q, []), [[x, _] | q] == x, [1] == [[2 | x] | x]], [3, x, "a" | q] == q], q == [_, true], [|x| { |tz| { tz == [3], [1, 1 | tz] != [1, 1, 3] } }, _ != q] } }])
}
pub fn case_343(vars: &Vars) -> InferredGoal<DU, DE, Goal<DU, DE>> {
    let x = vars.v[0].clone();
    let y = vars.v[1].clone();
    proto_vulcan!([y == (x, _), y == (y, [[]])])
}
pub fn case_344(vars: &Vars) -> InferredGoal<DU, DE, Goal<DU, DE>> {
    let x = vars.v[0].clone();
    proto_vulcan!([x == [x]])
}
pub fn case_345(vars: &Vars) -> InferredGoal<DU, DE, Goal<DU, DE>> {
    let x = vars.v[0].clone();
    proto_vulcan!([true, x == x, |y| { y == P3([[], x], x, x), y == (2, 1), (y, x) == P3([[], 1], x, _) }])
}
pub fn case_346(vars: &Vars) -> InferredGoal<DU, DE, Goal<DU, DE>> {
    let x = vars.v[0].clone();
    proto_vulcan!([[[x, x, 1 | 1], [x, x | _]] != x])
}
pub fn case_347(vars: &Vars) -> InferredGoal<DU, DE, Goal<DU, DE>> {
    let q = vars.v[0].clone();
    let x = vars.v[1].clone();
    proto_vulcan!([|z| { condu { 1 != q, [|x| { true, member(z, [1]), x == [3, [x, 1, x | 2]] }, [z == x, ['a', []] == [x, [2, x]]]], [|tz| { tz == [1, 1], [2 | tz] != [2, 1, 1] }, q == [q | q]] }, [[3, 1 | true] | true] != 3, q != x }, |z| { conde { [q == P3(3, 2, []), q == [["bc", 1, x], [2, _ | q], [[], true, q]]], [[]] }, |tz| { tz == [3, 3], [3, 2 | tz] != [3, 2, 3, 3] }, |y| { [[[y, x, _], x | 2] == x], [], 'b' == [[2 | 2], [] | q] } }])
}
pub fn case_348(vars: &Vars) -> InferredGoal<DU, DE, Goal<DU, DE>> {
    let x = vars.v[0].clone();
    let y = vars.v[1].clone();
    proto_vulcan!([3 == P3([], [x], [y, 1]), |t, y| { false, onceo { conde { [[y] == y, [] == y], x == ["bc", 3], [y, 1] == [1] } }, |y| { (3, []) == [[y], [[], y], [y, 2]], y == [t, []] } }, [x, 2] == [3], closure { _ == y }])
}
pub fn case_349(vars: &Vars) -> InferredGoal<DU, DE, Goal<DU, DE>> {
    let q = vars.v[0].clone();
    let x = vars.v[1].clone();
    proto_vulcan!([q != [x, [[] | q], [q, q, x]], onceo { |tz| { [1 | tz] != [1, 2], tz == [2] } }, q == q])
}
pub fn case_350(vars: &Vars) -> InferredGoal<DU, DE, Goal<DU, DE>> {
    let x = vars.v[0].clone();
    let y = vars.v[1].clone();
    proto_vulcan!([onceo { x == [_] }, [], |x| {  }])
}
pub fn case_351(vars: &Vars) -> InferredGoal<DU, DE, Goal<DU, DE>> {
    let x = vars.v[0].clone();
    proto_vulcan!([[[x, []]] == P3(3, [[]], 2), onceo { append(x, x, []) }, |y, h| { |h| { |tz| { [3 | tz] != [3, 2], tz == [2] }, |y| { y == [2, x], 1 == P3([2], [y], 1) } }, [] }, closure { |z| { onceo { "a" != P3(z, _, z) }, z == [z | x], [[1, _ | x]] == (2, _) } }])
}
pub fn case_352(vars: &Vars) -> InferredGoal<DU, DE, Goal<DU, DE>> {
    let x = vars.v[0].clone();
    let y = vars.v[1].clone();
    proto_vulcan!([|tz| { [3, 2] != [3 | tz], tz == [2] }, y == [x, [] | y]])
}
pub fn case_353(vars: &Vars) -> InferredGoal<DU, DE, Goal<DU, DE>> {
    let x = vars.v[0].clone();
    proto_vulcan!([x == ["a", x, x], [[], x == [1, _], P3(x, x, 3) == x], x == x, closure { [onceo { [["bc" != x]] }, [] == 2] }])
}
pub fn case_354(vars: &Vars) -> InferredGoal<DU, DE, Goal<DU, DE>> {
    let x = vars.v[0].clone();
    proto_vulcan!([[2, x] == [[true, _, x], x, []], conda { [P3(2, 3, [3]) == x, conde { [P3(x, [x, 1], 3) == ([_, []], 2), 1 == x], [], [onceo { x == _ }, []] }], [[], member(x, [])], [|t, h| { t != t, h == [[], [], 2 | x] }, conde { ["bc" == [[x, x], x, [_ | x]], [x, x | x] != x] }] }, closure { [|z, t| { conde { [1] != [["a", z]], [x, false, 1] == (3, []) }, onceo { [false | 3] == [[2, _, x]] } }, x == 3] }])
}
pub fn case_355(vars: &Vars) -> InferredGoal<DU, DE, Goal<DU, DE>> {
    let q = vars.v[0].clone();
    let x = vars.v[1].clone();
    proto_vulcan!([conde { [2 == 2, x == _], append(q, q, []) }, closure { [x == [q, [q, 3, 3]], x == q] }])
}
pub fn case_356(vars: &Vars) -> InferredGoal<DU, DE, Goal<DU, DE>> {
    let x = vars.v[0].clone();
    proto_vulcan!([conde { x == 2, [] }])
}
pub fn case_357(vars: &Vars) -> InferredGoal<DU, DE, Goal<DU, DE>> {
    let x = vars.v[0].clone();
    let y = vars.v[1].clone();
    proto_vulcan!([[y, [y]] == y])
}
pub fn case_358(vars: &Vars) -> InferredGoal<DU, DE, Goal<DU, DE>> {
    let x = vars.v[0].clone();
    let y = vars.v[1].clone();
    proto_vulcan!([[[]] == x, x == x, x == 'b'])
}
pub fn case_359(vars: &Vars) -> InferredGoal<DU, DE, Goal<DU, DE>> {
    let x = vars.v[0].clone();
    let y = vars.v[1].clone();
    proto_vulcan!([false, y != [y], [|tz| { tz == [1], [1, 1, 1] != [1, 1 | tz] }, [false], [[], y] == y]])
}
pub fn case_360(vars: &Vars) -> InferredGoal<DU, DE, Goal<DU, DE>> {
    let x = vars.v[0].clone();
    proto_vulcan!([|x, z| { |x| { |x| {  }, x == x, |tz| { tz == [3, 2], [3, 2, 3, 2] != [3, 2 | tz] } } }])
}
pub fn case_361(vars: &Vars) -> InferredGoal<DU, DE, Goal<DU, DE>> {
    let q = vars.v[0].clone();
    let x = vars.v[1].clone();
    proto_vulcan!([x == [[2, q, 3], 3, [[], _, q] | x]])
}
pub fn case_362(vars: &Vars) -> InferredGoal<DU, DE, Goal<DU, DE>> {
    let x = vars.v[0].clone();
    let y = vars.v[1].clone();
    proto_vulcan!([member(x, []), conde { [[x] == P3([2], [], 3), conde { [], [] }], [x == [y, x], [_ | x] != y] }])
}
pub fn case_363(vars: &Vars) -> InferredGoal<DU, DE, Goal<DU, DE>> {
    let q = vars.v[0].clone();
    let x = vars.v[1].clone();
    proto_vulcan!([conde { [q != q, onceo { conde { [true, |tz| { tz == [3, 3], [1, 1 | tz] != [1, 1, 3, 3] }] } }] }, onceo { x == x }])
}
pub fn case_364(vars: &Vars) -> InferredGoal<DU, DE, Goal<DU, DE>> {
    let q = vars.v[0].clone();
    let x = vars.v[1].clone();
    proto_vulcan!([[x] == x, closure { q != [q | x] }])
}
pub fn case_365(vars: &Vars) -> InferredGoal<DU, DE, Goal<DU, DE>> {
    let x = vars.v[0].clone();
    let y = vars.v[1].clone();
    proto_vulcan!([conde { [2 == y, [member(x, [2]), []]], [[2, y] != y, ["a"] == x] }])
}
pub fn case_366(vars: &Vars) -> InferredGoal<DU, DE, Goal<DU, DE>> {
    let q = vars.v[0].clone();
    let x = vars.v[1].clone();
    proto_vulcan!([[x == [x, _], [(_, 3) == q], conde { condu { x == 3, |tz| { [2, 1 | tz] != [2, 1, 3], tz == [3] }, [x != x, [[1, q, q], [q | x]] == P3(3, [], q)] }, [q, x, _] == P3(q, 3, x), |t, x| { true } }], q != [x, q, x], q == (x, q), closure { [conde { [|tz| { tz == [3], [1, 3] != [1 | tz] }, |tz| { tz == [1], [3, 1 | tz] != [3, 1, 1] }], [conde { [P3(x, 2, q) == [2, [1, x, true] | x], (x, []) == P3(q, [x, []], 1)], true, true }, [false]] }, condu { |t| { P3(_, 1, q) == x, [_] != x, append(x, t, [1]) } }] }])
}
pub fn case_367(vars: &Vars) -> InferredGoal<DU, DE, Goal<DU, DE>> {
    let q = vars.v[0].clone();
    let x = vars.v[1].clone();
    proto_vulcan!([x == [1, q, q], x == q, [[1, q], [x, 2, x]] == [[q, _, x], [[]] | 1]])
}
pub fn case_368(vars: &Vars) -> InferredGoal<DU, DE, Goal<DU, DE>> {
    let x = vars.v[0].clone();
    let y = vars.v[1].clone();
    proto_vulcan!([|y, z| {  }, [[2 | x] | x] != x, y != "a", closure { condu { [|t, z| { [3, y, z | t] == [[z, 3], z, [3]], [_] == y, [2] != t }, onceo { x == [[1], x, [2, x]] }], x == x } }])
}
pub fn case_369(vars: &Vars) -> InferredGoal<DU, DE, Goal<DU, DE>> {
    let x = vars.v[0].clone();
    let y = vars.v[1].clone();
    proto_vulcan!([|y, x| { |y| { y != y, condu { [x == (1, 3), (2, 1) == x], member(x, [3, 2]), [member(y, [3]), [_ | 2] == x] } } }, true != x, conde { [conda { [[[3]] == y, y == P3([], [], [y, y])], [conda { x != P3([3], [], 3), append(y, y, [2]), [x == 1, 1 == y] }, [x] == x], |x, y| {  } }, |tz| { tz == [3], [2, 3] != [2 | tz] }], [conda { [[3, y, 2] == x, y != P3(_, [1, []], 1)], [append(x, x, []), conde { y == 2, y == x, [false, false] }] }, x == P3(x, [1, 1], [])], [[x, x] == x, |t| {  }] }])
}
pub fn case_370(vars: &Vars) -> InferredGoal<DU, DE, Goal<DU, DE>> {
    let x = vars.v[0].clone();
    let y = vars.v[1].clone();
    proto_vulcan!([_ == x, |y| { |x| { condu { P3([], [3, 1], y) == [_, "a" | y], [true, y == [1 | 1]] } }, y == ([], y), 2 == P3([y, 3], [], 1) }])
}
pub fn case_371(vars: &Vars) -> InferredGoal<DU, DE, Goal<DU, DE>> {
    let q = vars.v[0].clone();
    let x = vars.v[1].clone();
    proto_vulcan!([x != [x | x], |h, y| { h == h }, |tz| { tz == [3, 3], [2 | tz] != [2, 3, 3] }, closure { q == ([[]], [1, []]) }])
}
pub fn case_372(vars: &Vars) -> InferredGoal<DU, DE, Goal<DU, DE>> {
    let x = vars.v[0].clone();
    let y = vars.v[1].clone();
    proto_vulcan!([[3, 2, 1] == y, conda { [[], true], [|t| { y == [], |h| { t != P3(_, t, [h]) } }, |x| { false, [_ | x] == P3(_, 2, x) }] }, [|x| { condu { [[y]] == ["a", []], false } }, append(y, y, [1, 1]), y != ([_, x], x)]])
}
pub fn case_373(vars: &Vars) -> InferredGoal<DU, DE, Goal<DU, DE>> {
    let x = vars.v[0].clone();
    let y = vars.v[1].clone();
    proto_vulcan!([condu { [y == [[], _], (x, [[]]) == [[x], [], [y, 1, 3 | 1]]], [[3, 'a', x | y] == x, [[y, 2]] == y] }, |tz| { [1, 3, 2, 1] != [1, 3 | tz], tz == [2, 1] }, x == [_ | y]])
}
pub fn case_374(vars: &Vars) -> InferredGoal<DU, DE, Goal<DU, DE>> {
    let q = vars.v[0].clone();
    let x = vars.v[1].clone();
    proto_vulcan!([conde { [[q, [], false | q] == q, member(q, [2])], condu { 1 == q } }, conda { onceo { |t, z| {  } }, [[q != P3(q, x, x), q == [1, q, true], x == 3], q != [x, [] | q]] }, closure { x == false }])
}
pub fn case_375(vars: &Vars) -> InferredGoal<DU, DE, Goal<DU, DE>> {
    let x = vars.v[0].clone();
    let y = vars.v[1].clone();
    proto_vulcan!([|z, x| { 1 == z, z == z, y == [[]] }, [append(x, y, [2, 1]), y == x]])
}
pub fn case_376(vars: &Vars) -> InferredGoal<DU, DE, Goal<DU, DE>> {
    let q = vars.v[0].clone();
    let x = vars.v[1].clone();
    proto_vulcan!([true, 1 == [_, q, 'b']])
}
pub fn case_377(vars: &Vars) -> InferredGoal<DU, DE, Goal<DU, DE>> {
    let x = vars.v[0].clone();
    let y = vars.v[1].clone();
    proto_vulcan!([|x, y| { [] }, onceo { y == y }, conde { [|x, y| { false == y, condu { false, [P3(2, y, _) == x, true] }, x == [["a", 1], 3, [] | x] }, [[3, y] | y] == [_, _, [_, 2]]] }])
}
pub fn case_378(vars: &Vars) -> InferredGoal<DU, DE, Goal<DU, DE>> {
    let x = vars.v[0].clone();
    let y = vars.v[1].clone();
    proto_vulcan!([onceo { x == ([_], 1) }, x != ([], []), y == y])
}
pub fn case_379(vars: &Vars) -> InferredGoal<DU, DE, Goal<DU, DE>> {
    let x = vars.v[0].clone();
    let y = vars.v[1].clone();
    proto_vulcan!([y == P3([y], [], []), 2 != y])
}
pub fn case_380(vars: &Vars) -> InferredGoal<DU, DE, Goal<DU, DE>> {
    let q = vars.v[0].clone();
    let x = vars.v[1].clone();
    proto_vulcan!([|tz| { tz == [2], [3, 3 | tz] != [3, 3, 2] }, q == [true, q | x], conde { [q == [[], 'a'], true] }])
}
pub fn case_381(vars: &Vars) -> InferredGoal<DU, DE, Goal<DU, DE>> {
    let x = vars.v[0].clone();
    let y = vars.v[1].clone();
    proto_vulcan!([member(y, [1]), conda { [[], y == (_, [[], []])], [member(x, [2]), |z| { |y| { |tz| { [1, 1, 3] != [1 | tz], tz == [1, 3] }, [x, [[], y, y | y]] == [3 | y], member(z, []) }, _ == z }], [true, conde { x != y, |t, y| { x == t, [_, 1, y] == t, ([], 3) == [1] } }] }])
}
pub fn case_382(vars: &Vars) -> InferredGoal<DU, DE, Goal<DU, DE>> {
    let q = vars.v[0].clone();
    let x = vars.v[1].clone();
    proto_vulcan!([conde { [|z| { conde { [q == [x, 1], z == [1, [] | q]], [1, 2, q] == q, |tz| { [3, 1] != [3 | tz], tz == [1] } } }, [] != [_, 3, x]], [conde { [], [conde { [[_, x, _ | q]] == [[_], [_]], [|tz| { [2, 2, 2] != [2 | tz], tz == [2, 2] }, member(q, [])], [[[x]] != q, |tz| { tz == [1, 2], [3, 1, 2] != [3 | tz] }] }, []], [|tz| { [1 | tz] != [1, 3], tz == [3] }, [q != [[], q, 3 | 2]]] }, |h| { [3, q | x] == x, false == h }], [conde { conde { q == [q, 1, 2] }, [[P3([x, []], [], _) == x, q == 1, [_] == (_, q)]], [q == x, onceo { true }] }, |y| { |z, h| { append(y, h, []), append(q, x, [3]), P3(3, q, []) == x } }] }])
}
pub fn case_383(vars: &Vars) -> InferredGoal<DU, DE, Goal<DU, DE>> {
    let x = vars.v[0].clone();
    proto_vulcan!([|tz| { tz == [1, 3], [1, 3 | tz] != [1, 3, 1, 3] }])
}
pub fn case_384(vars: &Vars) -> InferredGoal<DU, DE, Goal<DU, DE>> {
    let q = vars.v[0].clone();
    let x = vars.v[1].clone();
    proto_vulcan!([conde { [], [q == x, q == [1, 2]] }, 2 == q])
}
pub fn case_385(vars: &Vars) -> InferredGoal<DU, DE, Goal<DU, DE>> {
    let x = vars.v[0].clone();
    let y = vars.v[1].clone();
    proto_vulcan!([1 == x])
}
pub fn case_386(vars: &Vars) -> InferredGoal<DU, DE, Goal<DU, DE>> {
    let x = vars.v[0].clone();
    let y = vars.v[1].clone();
    proto_vulcan!([conde { false, conde { [conde { [x == y, [] != x], [[3, 3, x | _] == [[x, x], x], y != P3(y, _, y)], 'a' != (x, y) }, conde { y == [x, [true, y | x]], [member(x, [2, 2]), [['a', x | x], [y | x]] == [[3, 1, 3], [3, true, 2] | x]], [x != [y, x], append(y, y, [1])] }], [|tz| { tz == [3], [1, 2 | tz] != [1, 2, 3] }, |h, y| {  }] }, [x == [], onceo { onceo { x == _ } }] }, closure { |h| { [] == [x, x] } }])
}
pub fn case_387(vars: &Vars) -> InferredGoal<DU, DE, Goal<DU, DE>> {
    let q = vars.v[0].clone();
    let x = vars.v[1].clone();
    proto_vulcan!([2 != q, false, |y| { condu { |tz| { [2 | tz] != [2, 3], tz == [3] }, [|t| { false, [3, 2] == x }, |t| { [y, []] == x }] }, append(x, q, [3]) }])
}
pub fn case_388(vars: &Vars) -> InferredGoal<DU, DE, Goal<DU, DE>> {
    let x = vars.v[0].clone();
    let y = vars.v[1].clone();
    proto_vulcan!([conda { onceo { conde { P3([x], [1], y) == y, [], |tz| { [3 | tz] != [3, 2], tz == [2] } } }, x == [3, []] }, closure { conde { condu { [[3, _, 1 | x] == x, member(y, [2, 1])], [x == P3([], [], x), ([y], [1, 2]) == x], append(x, y, [2, 2]) }, false } }])
}
pub fn case_389(vars: &Vars) -> InferredGoal<DU, DE, Goal<DU, DE>> {
    let x = vars.v[0].clone();
    let y = vars.v[1].clone();
    proto_vulcan!([onceo { y == [2, x] }, onceo { _ == y }, y == _])
}
pub fn case_390(vars: &Vars) -> InferredGoal<DU, DE, Goal<DU, DE>> {
    let x = vars.v[0].clone();
    let y = vars.v[1].clone();
    proto_vulcan!([y == P3(1, y, []), onceo { onceo { 'a' != [y, y] } }, [false, x == [1], 1 != x], closure { onceo { |y| { false, append(x, y, [3]) } } }])
}
pub fn case_391(vars: &Vars) -> InferredGoal<DU, DE, Goal<DU, DE>> {
    let x = vars.v[0].clone();
    proto_vulcan!([x == [[], x], closure { [[3, 3] != x, [x] == x] }])
}
pub fn case_392(vars: &Vars) -> InferredGoal<DU, DE, Goal<DU, DE>> {
    let x = vars.v[0].clone();
    proto_vulcan!([[false | _] == [[[], 2 | 2]]])
}
pub fn case_393(vars: &Vars) -> InferredGoal<DU, DE, Goal<DU, DE>> {
    let x = vars.v[0].clone();
    proto_vulcan!([x == x, closure { [conde { conde { x == [x], [false, true == [x, x, 2]], [append(x, x, []), [x, _, 1] == x] }, [[append(x, x, [3, 1])]] }, onceo { conde { x != [[], [1, x, 2 | x]], [|tz| { tz == [2, 1], [2 | tz] != [2, 2, 1] }, P3([_, []], _, x) == 2] } }] }])
}
pub fn case_394(vars: &Vars) -> InferredGoal<DU, DE, Goal<DU, DE>> {
    let x = vars.v[0].clone();
    proto_vulcan!([(x, x) != x])
}
pub fn case_395(vars: &Vars) -> InferredGoal<DU, DE, Goal<DU, DE>> {
    let x = vars.v[0].clone();
    let y = vars.v[1].clone();
    proto_vulcan!([x == x, y != "bc", 3 == x])
}
pub fn case_396(vars: &Vars) -> InferredGoal<DU, DE, Goal<DU, DE>> {
    let q = vars.v[0].clone();
    let x = vars.v[1].clone();
    proto_vulcan!([q != [2, 2], conde { [[[] | x] != q, onceo { [[[1 | x] == _, 2 != 1, true]] }] }, q == q, closure { [false, [2, "bc"] != x] }])
}
pub fn case_397(vars: &Vars) -> InferredGoal<DU, DE, Goal<DU, DE>> {
    let x = vars.v[0].clone();
    let y = vars.v[1].clone();
    proto_vulcan!([onceo { y == ["a", 'a'] }, conde { |tz| { [1, 3] != [1 | tz], tz == [3] } }, [2, [y, x, x | x], [y, [], y | y]] != x])
}
pub fn case_398(vars: &Vars) -> InferredGoal<DU, DE, Goal<DU, DE>> {
    let q = vars.v[0].clone();
    let x = vars.v[1].clone();
    proto_vulcan!([x == [3, q, x]])
}
pub fn case_399(vars: &Vars) -> InferredGoal<DU, DE, Goal<DU, DE>> {
    let q = vars.v[0].clone();
    let x = vars.v[1].clone();
    proto_vulcan!([conde { true, q != (_, 1), (_, [x, _]) == q }, conde { [3 == q, |tz| { [2, 1, 2, 2] != [2, 1 | tz], tz == [2, 2] }] }, P3(q, 1, [x]) == x])
}
pub fn case_400(vars: &Vars) -> InferredGoal<DU, DE, Goal<DU, DE>> {
    let q = vars.v[0].clone();
    let x = vars.v[1].clone();
    proto_vulcan!([([], []) == ([], 2), |h| { h == P3([_], x, 2), q == [1, [2, false, 1]] }, closure { [2, _] == x }])
}
pub fn case_401(vars: &Vars) -> InferredGoal<DU, DE, Goal<DU, DE>> {
    let x = vars.v[0].clone();
    let y = vars.v[1].clone();
    proto_vulcan!([[['b' | 1], ["bc" | y]] == y, conda { y == P3([x], [1, 3], [[], _]), [false, |x, z| { (y, y) == x, conde { [], [[[1, 3], [x, 1, y], [x, 2]] != z, x == y], x != [] }, P3(y, [_, []], []) == x }], [|z| { [y, [] | _] == P3([], x, [x, _]), P3(y, [1], []) != z, onceo { member(y, [2]) } }, member(y, [1, 1, 2])] }])
}
pub fn case_402(vars: &Vars) -> InferredGoal<DU, DE, Goal<DU, DE>> {
    let x = vars.v[0].clone();
    let y = vars.v[1].clone();
    proto_vulcan!([[y == 2], closure { [y == [y, x | 'a'], x == [x]] }])
}
pub fn case_403(vars: &Vars) -> InferredGoal<DU, DE, Goal<DU, DE>> {
    let x = vars.v[0].clone();
    proto_vulcan!([["a" == x], x == [x, x | x]])
}
pub fn case_404(vars: &Vars) -> InferredGoal<DU, DE, Goal<DU, DE>> {
    let x = vars.v[0].clone();
    let y = vars.v[1].clone();
    proto_vulcan!([conde { [x == [[y | y] | y], |tz| { tz == [3, 3], [1, 3, 3, 3] != [1, 3 | tz] }], [_ | x] == y }])
}
pub fn case_405(vars: &Vars) -> InferredGoal<DU, DE, Goal<DU, DE>> {
    let x = vars.v[0].clone();
    proto_vulcan!([[onceo { x != [_] }], (1, [[]]) != ([x], x)])
}
pub fn case_406(vars: &Vars) -> InferredGoal<DU, DE, Goal<DU, DE>> {
    let q = vars.v[0].clone();
    let x = vars.v[1].clone();
    proto_vulcan!([x == [[], [] | q], [1, q, q] == q, q == [1], closure { [conde { [] == q }, [x, q, 1] == "bc"] }])
}
pub fn case_407(vars: &Vars) -> InferredGoal<DU, DE, Goal<DU, DE>> {
    let q = vars.v[0].clone();
    let x = vars.v[1].clone();
    proto_vulcan!([P3(3, _, 1) != [q], [2, 2] == q, |y| { x == x, q == x }])
}
pub fn case_408(vars: &Vars) -> InferredGoal<DU, DE, Goal<DU, DE>> {
    let q = vars.v[0].clone();
    let x = vars.v[1].clone();
    proto_vulcan!([q != (2, 3), (x, x) == q, x == q])
}
pub fn case_409(vars: &Vars) -> InferredGoal<DU, DE, Goal<DU, DE>> {
    let x = vars.v[0].clone();
    let y = vars.v[1].clone();
    proto_vulcan!([[x, 1] == x, y == [[x, _, false] | x]])
}
pub fn case_410(vars: &Vars) -> InferredGoal<DU, DE, Goal<DU, DE>> {
    let x = vars.v[0].clone();
    let y = vars.v[1].clone();
    proto_vulcan!([true, y == [1], closure { conde { [[[[_, x, []], [x, 3, 1 | x] | x] == y, y == [2, x, 1]]], [|t, h| { false, [h, 2, [2]] != x, member(h, [3]) }, [2, 2, []] == x], |y, t| { y != ([], 3), [2, 2, t] == x } } }])
}
pub fn case_411(vars: &Vars) -> InferredGoal<DU, DE, Goal<DU, DE>> {
    let x = vars.v[0].clone();
    proto_vulcan!([[[], x, 1] == x, [], closure { [[_ | 2] != [3], |tz| { [3, 3, 1, 2] != [3, 3 | tz], tz == [1, 2] }] }])
}
pub fn case_412(vars: &Vars) -> InferredGoal<DU, DE, Goal<DU, DE>> {
    let x = vars.v[0].clone();
    proto_vulcan!([|t| { onceo { condu { [[1] == [], P3(x, x, _) == x], false, P3(3, t, [t, []]) != 3 } }, false }])
}
pub fn case_413(vars: &Vars) -> InferredGoal<DU, DE, Goal<DU, DE>> {
    let x = vars.v[0].clone();
    proto_vulcan!([member(x, [2, 2]), |h, y| { [true, [y, 1, x], "bc" | x] == y, conde { y == ([], 2), conde { [1 == h, y == 3], |tz| { tz == [2, 1], [2, 2, 1] != [2 | tz] } } } }, |t| { |tz| { [1, 3, 2] != [1 | tz], tz == [3, 2] }, (1, _) == x }])
}
pub fn case_414(vars: &Vars) -> InferredGoal<DU, DE, Goal<DU, DE>> {
    let x = vars.v[0].clone();
    proto_vulcan!([condu { [x == P3([_, 3], [_], [[]]), |h| { x == x, conda { [h == (1, []), h == [2, _]], [[[_, h | h] | h] == x, x != [[1, _, []], 'a']] } }] }, P3(_, [1, []], 2) == x, closure { [|z| { condu { [[1] == x, x == x], [append(x, z, [2, 1]), x == 1] }, [] }, |tz| { [1, 3 | tz] != [1, 3, 1], tz == [1] }] }])
}
pub fn case_415(vars: &Vars) -> InferredGoal<DU, DE, Goal<DU, DE>> {
    let x = vars.v[0].clone();
    let y = vars.v[1].clone();
    proto_vulcan!([[[[3, y, _], y] == [1], [x | y] == x, conda { [P3([_], [y, _], 3) == x, |tz| { [2, 2, 2, 1] != [2, 2 | tz], tz == [2, 1] }], ['a' == x, conde { member(y, [3, 2, 2]) }], [[[], x] == x, x != x] }], x == ([_, 1], x), [[y, 1, x | x]] == y])
}
pub fn case_416(vars: &Vars) -> InferredGoal<DU, DE, Goal<DU, DE>> {
    let x = vars.v[0].clone();
    let y = vars.v[1].clone();
    proto_vulcan!([[|z| { conde { [member(x, []), y == z], [x == ([[], 1], [_]), |tz| { tz == [1, 3], [2, 2, 1, 3] != [2, 2 | tz] }], x == [y] }, |h, y| { _ == x, |tz| { tz == [1, 2], [1, 1, 1, 2] != [1, 1 | tz] } }, |x| { [3, z, z] != y, P3(3, [x, []], 2) == y } }], closure { |h| { x != y } }])
}
pub fn case_417(vars: &Vars) -> InferredGoal<DU, DE, Goal<DU, DE>> {
    let x = vars.v[0].clone();
    proto_vulcan!([x != 2, closure { false }])
}
pub fn case_418(vars: &Vars) -> InferredGoal<DU, DE, Goal<DU, DE>> {
    let q = vars.v[0].clone();
    let x = vars.v[1].clone();
    proto_vulcan!([|tz| { [3, 1, 1, 1] != [3, 1 | tz], tz == [1, 1] }, x != x])
}
pub fn case_419(vars: &Vars) -> InferredGoal<DU, DE, Goal<DU, DE>> {
    let q = vars.v[0].clone();
    let x = vars.v[1].clone();
    proto_vulcan!([|x| { q != [[x, _, _] | q] }, |x| { q == 2 }, q != [1]])
}
pub fn case_420(vars: &Vars) -> InferredGoal<DU, DE, Goal<DU, DE>> {
    let x = vars.v[0].clone();
    let y = vars.v[1].clone();
    proto_vulcan!([y != x, x != [], conde { [y == ([_, y], y), conde { [false, |x, t| { P3(2, [[]], []) == x }], [P3([2], x, [_]) != [[1, x, 2], [y, 1, true | y], [false, y]], y == (x, 1)] }], |h| {  } }])
}
pub fn case_421(vars: &Vars) -> InferredGoal<DU, DE, Goal<DU, DE>> {
    let x = vars.v[0].clone();
    let y = vars.v[1].clone();
    proto_vulcan!([|tz| { tz == [3], [3, 1, 3] != [3, 1 | tz] }, closure { conde { [1, 1, y | y] == y, [|h| { append(h, x, [3, 3]) }, (_, y) == [false, _, 'b']], [3 == x, |z, y| { y != (_, [_, y]), true }] } }])
}
pub fn case_422(vars: &Vars) -> InferredGoal<DU, DE, Goal<DU, DE>> {
    let x = vars.v[0].clone();
    proto_vulcan!([[], x == [[]], false])
}
pub fn case_423(vars: &Vars) -> InferredGoal<DU, DE, Goal<DU, DE>> {
    let x = vars.v[0].clone();
    proto_vulcan!([[[3, 2, 2] | x] == x, conde { [], [x != P3([], [1, []], 3), 'a' != x] }, closure { (x, x) != [[], [3] | x] }])
}
pub fn case_424(vars: &Vars) -> InferredGoal<DU, DE, Goal<DU, DE>> {
    let x = vars.v[0].clone();
    proto_vulcan!([x == ([1], 1), closure { |h| { [] != h, [[h, 1, h | 1], [h]] == [[2, 2, h]] } }])
}
pub fn case_425(vars: &Vars) -> InferredGoal<DU, DE, Goal<DU, DE>> {
    let x = vars.v[0].clone();
    let y = vars.v[1].clone();
    proto_vulcan!([onceo { |z, y| { [z != [3, z | y], [3, 3, false] == z], append(z, x, [3]), 3 != y } }, [[y, 'a' | x], [y | 'a']] == (x, [x]), closure { [[append(y, x, [2, 3])]] }])
}
pub fn case_426(vars: &Vars) -> InferredGoal<DU, DE, Goal<DU, DE>> {
    let x = vars.v[0].clone();
    let y = vars.v[1].clone();
    proto_vulcan!([onceo { [y, y | 'a'] == y }])
}
pub fn case_427(vars: &Vars) -> InferredGoal<DU, DE, Goal<DU, DE>> {
    let x = vars.v[0].clone();
    proto_vulcan!([|y, t| { conde { [] }, [[2, t, y], [t] | x] != t }])
}
pub fn case_428(vars: &Vars) -> InferredGoal<DU, DE, Goal<DU, DE>> {
    let x = vars.v[0].clone();
    proto_vulcan!([conde { [[[[], x, 3 | x], x | x] == x, [x] == 1], |y| { conde { [true, y == [y, x, 1]], [] }, |t, h| { append(t, h, []) } }, [conde { x == [], 2 != [2 | x] }, x == ([], x)] }])
}
pub fn case_429(vars: &Vars) -> InferredGoal<DU, DE, Goal<DU, DE>> {
    let x = vars.v[0].clone();
    let y = vars.v[1].clone();
    proto_vulcan!([(x, x) == x])
}
pub fn case_430(vars: &Vars) -> InferredGoal<DU, DE, Goal<DU, DE>> {
    let q = vars.v[0].clone();
    let x = vars.v[1].clone();
    proto_vulcan!([|h| { |y, z| { [1, x | h] == x, match x { [[_], 1, [2, z, _ | _]] => { [[1, "a" | x], []] == z }, [[3, z, 1] | h] => [x == [[h, 2, _], [h, _, 3]], |tz| { tz == [3, 3], [1, 3, 3] != [1 | tz] }], } }, |z, h| { 1 == ([_], z), match z { [[t | _], [2, z | "bc"], "bc" | x] => , } }, h != h }, [|t| { [[x | x]] != q }, |y| { |h, z| { [] == h, [z | x] == q }, |h, t| { [_, [false, q | 'a'], 1 | h] == x } }, matche q { [x, [_, z]] => { x == x, [[1, 1, q] | q] == [[1, x] | 2] }, 1 => { |tz| { [3 | tz] != [3, 2, 3], tz == [2, 3] }, |t, x| { [[], 1, x] != x, append(q, x, [1]), x != _ } }, }], closure { [1 != [_], match [1, [], 1] { _ => { true }, [2 | x] => , t | y => , }] }])
}
pub fn case_431(vars: &Vars) -> InferredGoal<DU, DE, Goal<DU, DE>> {
    let q = vars.v[0].clone();
    let x = vars.v[1].clone();
    proto_vulcan!([|h| { |y, z| { [1, x | h] == x, match x { [[_], 1, [2, z, _ | _]] => { [[1, "a" | x], []] == z }, [[3, z, 1] | h] => [x == [[h, 2, _], [h, _, 3]], |tz| { tz == [3, 3], [1, 3, 3] != [1 | tz] }], } }, |fresh_name_9, h| { 1 == ([_], fresh_name_9), match fresh_name_9 { [[t | _], [2, z | "bc"], "bc" | x] => , } }, h != h }, [|t| { [[x | x]] != q }, |y| { |h, z| { [] == h, [z | x] == q }, |h, t| { [_, [false, q | 'a'], 1 | h] == x } }, matche q { [x, [_, z]] => { x == x, [[1, 1, q] | q] == [[1, x] | 2] }, 1 => { |tz| { [3 | tz] != [3, 2, 3], tz == [2, 3] }, |t, x| { [[], 1, x] != x, append(q, x, [1]), x != _ } }, }], closure { [1 != [_], match [1, [], 1] { _ => { true }, [2 | x] => , t | y => , }] }])
}
pub fn case_432(vars: &Vars) -> InferredGoal<DU, DE, Goal<DU, DE>> {
    let q = vars.v[0].clone();
    let x = vars.v[1].clone();
    proto_vulcan!([match q { 1 => { matche x { x => match x { [[_ | _], 1] | P3(1, [[], h], _) => [|tz| { tz == [2, 2], [2, 2, 2] != [2 | tz] }, [2, [1, x, false], [q] | x] == q], }, } }, x => , }, [_, q, 3] != x])
}
pub fn case_433(vars: &Vars) -> InferredGoal<DU, DE, Goal<DU, DE>> {
    let q = vars.v[0].clone();
    let x = vars.v[1].clone();
    proto_vulcan!([match q { 1 => { matche x { fresh_name_9 => match fresh_name_9 { [[_ | _], 1] | P3(1, [[], h], _) => [|tz| { tz == [2, 2], [2, 2, 2] != [2 | tz] }, [2, [1, fresh_name_9, false], [q] | fresh_name_9] == q], }, } }, x => , }, [_, q, 3] != x])
}
pub fn case_434(vars: &Vars) -> InferredGoal<DU, DE, Goal<DU, DE>> {
    let q = vars.v[0].clone();
    let x = vars.v[1].clone();
    proto_vulcan!([conde { [conde { [x] == x, [x == (_, _), x != P3([3, []], x, 3)] }, [1, "a"] == x], 2 == P3(x, 3, 3) }, { let c__: InferredGoal<DU, DE, Goal<DU, DE>> = proto_vulcan_closure!(|yy| { conde { [q == [yy | _], yy == 1], [q == [_, yy | _], yy == 2] } }); let g__: Goal<DU, DE> = ::proto_vulcan::GoalCast::cast_into(c__); let r__: InferredGoal<DU, DE, Goal<DU, DE>> = proto_vulcan!([g__.clone(), g__]); r__ }])
}
pub fn case_435(vars: &Vars) -> InferredGoal<DU, DE, Goal<DU, DE>> {
    let q = vars.v[0].clone();
    let x = vars.v[1].clone();
    proto_vulcan!([conde { [conde { [x] == x, [x == (_, _), x != P3([3, []], x, 3)] }, [1, "a"] == x], 2 == P3(x, 3, 3) }, { let c__: InferredGoal<DU, DE, Goal<DU, DE>> = proto_vulcan_closure!(|fresh_name_9| { conde { [q == [fresh_name_9 | _], fresh_name_9 == 1], [q == [_, fresh_name_9 | _], fresh_name_9 == 2] } }); let g__: Goal<DU, DE> = ::proto_vulcan::GoalCast::cast_into(c__); let r__: InferredGoal<DU, DE, Goal<DU, DE>> = proto_vulcan!([g__.clone(), g__]); r__ }])
}
pub fn case_436(vars: &Vars) -> InferredGoal<DU, DE, Goal<DU, DE>> {
    let x = vars.v[0].clone();
    proto_vulcan!([false, match x { [[y, 2 | _], [[]], []] => [|t, z| { y == y }, |y| { match y { [_] => , [x, [2, h], ['a', z]] | x => member(x, [3, 1]), }, x == [[]] }], Named { a: z, b: [x, t] } | [[x, 2], 1, x] => { |z, t| { [t != 2, true] }, P3([2], 2, []) != x }, t => [1 == 3, 2 != 3], }])
}
pub fn case_437(vars: &Vars) -> InferredGoal<DU, DE, Goal<DU, DE>> {
    let x = vars.v[0].clone();
    proto_vulcan!([false, match x { [[y, 2 | _], [[]], []] => [|t, z| { y == y }, |y| { match y { [_] => , [x, [2, h], ['a', z]] | x => member(x, [3, 1]), }, x == [[]] }], Named { a: z, b: [x, t] } | [[x, 2], 1, x] => { |fresh_name_9, t| { [t != 2, true] }, P3([2], 2, []) != x }, t => [1 == 3, 2 != 3], }])
}
pub fn case_438(vars: &Vars) -> InferredGoal<DU, DE, Goal<DU, DE>> {
    let x = vars.v[0].clone();
    proto_vulcan!([|y| { [true, [], false | 1] == y, y != [[] | x] }, |z| { match x { P3(y, [], [3, t]) => , [[], y, [_ | 1] | z] => , } }, matche x { Named { a: [2], b: [[]] } => match x { [[y | y], h] => { match y { [[_], [3, h, 2 | 1], [x, h]] => [h, x | x] == y, 1 | P3(_, [3], _) => [|tz| { [1 | tz] != [1, 3, 1], tz == [3, 1] }, P3(y, [], y) == [2, []]], [[t, [] | "bc"]] => , } }, }, [2] => , }, closure { x == 1 }])
}
pub fn case_439(vars: &Vars) -> InferredGoal<DU, DE, Goal<DU, DE>> {
    let x = vars.v[0].clone();
    proto_vulcan!([|y| { [true, [], false | 1] == y, y != [[] | x] }, |fresh_name_9| { match x { P3(y, [], [3, t]) => , [[], y, [_ | 1] | z] => , } }, matche x { Named { a: [2], b: [[]] } => match x { [[y | y], h] => { match y { [[_], [3, h, 2 | 1], [x, h]] => [h, x | x] == y, 1 | P3(_, [3], _) => [|tz| { [1 | tz] != [1, 3, 1], tz == [3, 1] }, P3(y, [], y) == [2, []]], [[t, [] | "bc"]] => , } }, }, [2] => , }, closure { x == 1 }])
}
pub fn case_440(vars: &Vars) -> InferredGoal<DU, DE, Goal<DU, DE>> {
    let x = vars.v[0].clone();
    proto_vulcan!([|t| {  }, matche [x | 2] { [1, h, 1] => { conde { [|y, h| { h == [x, _, h] }, |x| {  }], [|y| { _ == x }, P3(3, 2, h) == x] }, [] == x }, [[false, t], [_], _] => { x != [x, [], t] }, h => , }, x == [3, _, x]])
}
pub fn case_441(vars: &Vars) -> InferredGoal<DU, DE, Goal<DU, DE>> {
    let x = vars.v[0].clone();
    proto_vulcan!([|t| {  }, matche [x | 2] { [1, fresh_name_9, 1] => { conde { [|y, h| { h == [x, _, h] }, |x| {  }], [|y| { _ == x }, P3(3, 2, fresh_name_9) == x] }, [] == x }, [[false, t], [_], _] => { x != [x, [], t] }, h => , }, x == [3, _, x]])
}
pub fn case_442(vars: &Vars) -> InferredGoal<DU, DE, Goal<DU, DE>> {
    let x = vars.v[0].clone();
    proto_vulcan!([matche x { _ => { x == 7, x == 8 }, Named { a: [z, _], b: y } => { [_, [x] | z] != z, append(x, x, []) }, [1] | [_] => x == [x, 2], }, x != P3(x, _, _), |tz| { [3 | tz] != [3, 2], tz == [2] }])
}
pub fn case_443(vars: &Vars) -> InferredGoal<DU, DE, Goal<DU, DE>> {
    let x = vars.v[0].clone();
    proto_vulcan!([matche x { _ => { x == 7, x == 8 }, Named { a: [z, _], b: y } => { [_, [x] | z] != z, append(x, x, []) }, [1] | [_] => x == [x, 2], }, x != P3(x, _, _), |fresh_name_9| { [3 | fresh_name_9] != [3, 2], fresh_name_9 == [2] }])
}
pub fn case_444(vars: &Vars) -> InferredGoal<DU, DE, Goal<DU, DE>> {
    let x = vars.v[0].clone();
    let y = vars.v[1].clone();
    proto_vulcan!([[[conde { [] }, [true], [] == y]], |y| { |x| {  }, append(y, y, []), 1 == x }])
}
pub fn case_445(vars: &Vars) -> InferredGoal<DU, DE, Goal<DU, DE>> {
    let x = vars.v[0].clone();
    let y = vars.v[1].clone();
    proto_vulcan!([[[conde { [] }, [true], [] == y]], |y| { |fresh_name_9| {  }, append(y, y, []), 1 == x }])
}
pub fn case_446(vars: &Vars) -> InferredGoal<DU, DE, Goal<DU, DE>> {
    let x = vars.v[0].clone();
    let y = vars.v[1].clone();
    proto_vulcan!([[y] != x, { let c__: InferredGoal<DU, DE, Goal<DU, DE>> = proto_vulcan_closure!([|yy| { conde { [x == [yy | _], yy == 1], [x == [_, yy | _], yy == 2] } }, |t| { x == y, [y, []] != y, [[]] != P3(_, 1, y) }]); let g__: Goal<DU, DE> = ::proto_vulcan::GoalCast::cast_into(c__); let r__: InferredGoal<DU, DE, Goal<DU, DE>> = proto_vulcan!([g__.clone(), g__]); r__ }])
}
pub fn case_447(vars: &Vars) -> InferredGoal<DU, DE, Goal<DU, DE>> {
    let x = vars.v[0].clone();
    let y = vars.v[1].clone();
    proto_vulcan!([[y] != x, { let c__: InferredGoal<DU, DE, Goal<DU, DE>> = proto_vulcan_closure!([|yy| { conde { [x == [yy | _], yy == 1], [x == [_, yy | _], yy == 2] } }, |fresh_name_9| { x == y, [y, []] != y, [[]] != P3(_, 1, y) }]); let g__: Goal<DU, DE> = ::proto_vulcan::GoalCast::cast_into(c__); let r__: InferredGoal<DU, DE, Goal<DU, DE>> = proto_vulcan!([g__.clone(), g__]); r__ }])
}
pub fn case_448(vars: &Vars) -> InferredGoal<DU, DE, Goal<DU, DE>> {
    let x = vars.v[0].clone();
    proto_vulcan!([x == [[], 1, x], match x { 'b' => [matche x { [z, [_, z | _]] => conde { [z, _ | x] == x, [] }, [[x, t, 2], h] => match x { Named { a: [_, []], b: [x] } => [1, x, 'a'] != x, P3(2, _, y) | _ => [append(h, x, [1, 2]), [1 | x] != P3([3, 3], [x, h], x)], 2 => { t == [x, _, [1, 1]] }, }, _ => { |t| { x == 1, x == _ } }, }, x != x], [[1, []] | x] | _ => , }, [matche x { [[]] => [x == x, false], h | [[z, h, 2] | y] => [conde { false, append(x, h, [3, 2]), true }, match x { P3(h, [2], 3) => { (3, [h, _]) == [_, [h, x], [[], h] | h] }, }], [[2, y, _ | _]] => [y == x, match [] { _ => { x == 7, x == 8 }, [[z, 1, h] | _] => member(h, []), }], }, P3([3, []], 1, [[]]) == x, |y| { matche x { [[t], true, [y] | z] => y != [y], } }]])
}
pub fn case_449(vars: &Vars) -> InferredGoal<DU, DE, Goal<DU, DE>> {
    let x = vars.v[0].clone();
    proto_vulcan!([x == [[], 1, x], match x { 'b' => [matche x { [z, [_, z | _]] => conde { [z, _ | x] == x, [] }, [[x, t, 2], h] => match x { Named { a: [_, []], b: [x] } => [1, x, 'a'] != x, P3(2, _, y) | _ => [append(h, x, [1, 2]), [1 | x] != P3([3, 3], [x, h], x)], 2 => { t == [x, _, [1, 1]] }, }, _ => { |t| { x == 1, x == _ } }, }, x != x], [[1, []] | x] | _ => , }, [matche x { [[]] => [x == x, false], h | [[z, h, 2] | y] => [conde { false, append(x, h, [3, 2]), true }, match x { P3(h, [2], 3) => { (3, [h, _]) == [_, [h, x], [[], h] | h] }, }], [[2, fresh_name_9, _ | _]] => [fresh_name_9 == x, match [] { _ => { x == 7, x == 8 }, [[z, 1, h] | _] => member(h, []), }], }, P3([3, []], 1, [[]]) == x, |y| { matche x { [[t], true, [y] | z] => y != [y], } }]])
}
pub fn case_450(vars: &Vars) -> InferredGoal<DU, DE, Goal<DU, DE>> {
    let x = vars.v[0].clone();
    proto_vulcan!([match [] { P3(_, _, y) => [[[member(x, [1, 3, 1])], conde { |tz| { tz == [2, 3], [1, 3 | tz] != [1, 3, 2, 3] }, [y] == y, true }]], [[2]] => { (x, _) == x }, }, [[|t| { x != x }, |t, x| { [true, x, 'b'] == x }, [x != x, [[2, [], x], [x, 2 | 'b'], [[], _, 1]] == (_, []), member(x, [2, 2])]], |y| { |x| { false } }, matche x { _ => { (x, []) == [x] }, [["a", "a"], [t, t, 2]] | _ => , }]])
}
pub fn case_451(vars: &Vars) -> InferredGoal<DU, DE, Goal<DU, DE>> {
    let x = vars.v[0].clone();
    proto_vulcan!([match [] { P3(_, _, y) => [[[member(x, [1, 3, 1])], conde { |fresh_name_9| { fresh_name_9 == [2, 3], [1, 3 | fresh_name_9] != [1, 3, 2, 3] }, [y] == y, true }]], [[2]] => { (x, _) == x }, }, [[|t| { x != x }, |t, x| { [true, x, 'b'] == x }, [x != x, [[2, [], x], [x, 2 | 'b'], [[], _, 1]] == (_, []), member(x, [2, 2])]], |y| { |x| { false } }, matche x { _ => { (x, []) == [x] }, [["a", "a"], [t, t, 2]] | _ => , }]])
}
pub fn case_452(vars: &Vars) -> InferredGoal<DU, DE, Goal<DU, DE>> {
    let q = vars.v[0].clone();
    let x = vars.v[1].clone();
    proto_vulcan!([P3([q, x], [_, q], q) == x, |y| { q == 'a', |t, h| { conde { y == [y, x, 3 | t], [[3] == h, [1] == y], [] } } }])
}
pub fn case_453(vars: &Vars) -> InferredGoal<DU, DE, Goal<DU, DE>> {
    let q = vars.v[0].clone();
    let x = vars.v[1].clone();
    proto_vulcan!([P3([q, x], [_, q], q) == x, |y| { q == 'a', |t, fresh_name_9| { conde { y == [y, x, 3 | t], [[3] == fresh_name_9, [1] == y], [] } } }])
}
pub fn case_454(vars: &Vars) -> InferredGoal<DU, DE, Goal<DU, DE>> {
    let x = vars.v[0].clone();
    let y = vars.v[1].clone();
    proto_vulcan!([match [3, x] { [[x]] => [[[], []] == x, [2, 1 | x] != x], }, [[3 | y], x] == y, ['b', [x, y, x | y], 2] == 1])
}
pub fn case_455(vars: &Vars) -> InferredGoal<DU, DE, Goal<DU, DE>> {
    let x = vars.v[0].clone();
    let y = vars.v[1].clone();
    proto_vulcan!([match [3, x] { [[fresh_name_9]] => [[[], []] == fresh_name_9, [2, 1 | fresh_name_9] != fresh_name_9], }, [[3 | y], x] == y, ['b', [x, y, x | y], 2] == 1])
}
pub fn case_456(vars: &Vars) -> InferredGoal<DU, DE, Goal<DU, DE>> {
    let x = vars.v[0].clone();
    proto_vulcan!([|y| { x == ([[], _], 2), matche y { P3(x, [z], [1, 3]) => [[3] == x, matche z { y => { append(y, x, []), [1, y] == [[_], [y, 2, z | x], [3, 2 | y] | z] }, [[z, "bc" | _], [t] | _] => z == P3([t], y, [[], t]), h => , }], Named { a: [2], b: _ } | _ => { conde { y == [[], y, false], [true, [false, x, []] == x], [[1, 1, "a"] == y, y == [y, x, y]] }, |z| { "a" == y } }, [1, [2], [1, 2, z]] => , } }, x == P3(3, 2, [_, []]), _ != 'a'])
}
pub fn case_457(vars: &Vars) -> InferredGoal<DU, DE, Goal<DU, DE>> {
    let x = vars.v[0].clone();
    proto_vulcan!([|y| { x == ([[], _], 2), matche y { P3(x, [z], [1, 3]) => [[3] == x, matche z { y => { append(y, x, []), [1, y] == [[_], [y, 2, z | x], [3, 2 | y] | z] }, [[z, "bc" | _], [t] | _] => z == P3([t], y, [[], t]), fresh_name_9 => , }], Named { a: [2], b: _ } | _ => { conde { y == [[], y, false], [true, [false, x, []] == x], [[1, 1, "a"] == y, y == [y, x, y]] }, |z| { "a" == y } }, [1, [2], [1, 2, z]] => , } }, x == P3(3, 2, [_, []]), _ != 'a'])
}
pub fn case_458(vars: &Vars) -> InferredGoal<DU, DE, Goal<DU, DE>> {
    let x = vars.v[0].clone();
    let y = vars.v[1].clone();
    proto_vulcan!([match [[], 2, 1] { 3 => { [[1, _, x], x, [x, false, 2] | x] == y }, }, { let c__: InferredGoal<DU, DE, Goal<DU, DE>> = proto_vulcan_closure!(|yy| { conde { [x == [yy | _], yy == 1], [x == [_, yy | _], yy == 2] } }); let g__: Goal<DU, DE> = ::proto_vulcan::GoalCast::cast_into(c__); let r__: InferredGoal<DU, DE, Goal<DU, DE>> = proto_vulcan!([g__.clone(), g__]); r__ }])
}
pub fn case_459(vars: &Vars) -> InferredGoal<DU, DE, Goal<DU, DE>> {
    let x = vars.v[0].clone();
    let y = vars.v[1].clone();
    proto_vulcan!([match [[], 2, 1] { 3 => { [[1, _, x], x, [x, false, 2] | x] == y }, }, { let c__: InferredGoal<DU, DE, Goal<DU, DE>> = proto_vulcan_closure!(|fresh_name_9| { conde { [x == [fresh_name_9 | _], fresh_name_9 == 1], [x == [_, fresh_name_9 | _], fresh_name_9 == 2] } }); let g__: Goal<DU, DE> = ::proto_vulcan::GoalCast::cast_into(c__); let r__: InferredGoal<DU, DE, Goal<DU, DE>> = proto_vulcan!([g__.clone(), g__]); r__ }])
}
pub fn case_460(vars: &Vars) -> InferredGoal<DU, DE, Goal<DU, DE>> {
    let x = vars.v[0].clone();
    let y = vars.v[1].clone();
    proto_vulcan!([matche y { z => [3 == z, z == [2]], [z, 2] => { x != z }, }, [[|x, t| {  }, true, y == [y, y]], y != P3(_, 2, [1])], |t| { x == [y, x] }, { let c__: InferredGoal<DU, DE, Goal<DU, DE>> = proto_vulcan_closure!([|yy| { conde { [x == [yy | _], yy == 1], [x == [_, yy | _], yy == 2] } }, [y, x, 1] != y]); let g__: Goal<DU, DE> = ::proto_vulcan::GoalCast::cast_into(c__); let r__: InferredGoal<DU, DE, Goal<DU, DE>> = proto_vulcan!([g__.clone(), g__]); r__ }])
}
pub fn case_461(vars: &Vars) -> InferredGoal<DU, DE, Goal<DU, DE>> {
    let x = vars.v[0].clone();
    let y = vars.v[1].clone();
    proto_vulcan!([matche y { z => [3 == z, z == [2]], [z, 2] => { x != z }, }, [[|x, t| {  }, true, y == [y, y]], y != P3(_, 2, [1])], |fresh_name_9| { x == [y, x] }, { let c__: InferredGoal<DU, DE, Goal<DU, DE>> = proto_vulcan_closure!([|yy| { conde { [x == [yy | _], yy == 1], [x == [_, yy | _], yy == 2] } }, [y, x, 1] != y]); let g__: Goal<DU, DE> = ::proto_vulcan::GoalCast::cast_into(c__); let r__: InferredGoal<DU, DE, Goal<DU, DE>> = proto_vulcan!([g__.clone(), g__]); r__ }])
}
pub fn case_462(vars: &Vars) -> InferredGoal<DU, DE, Goal<DU, DE>> {
    let q = vars.v[0].clone();
    let x = vars.v[1].clone();
    proto_vulcan!([true, |x| { conde { match x { 3 | [[3, "a"]] => [1 != x, x == P3(x, [], [x, 3])], [["bc", t, z | y], [t, h, 'a' | h]] => , [] => , }, [|t| { q == [[[] | 2], x, [3, 1, []] | 3], q == [[3], [x], [_] | x], append(x, q, []) }, matche q { 2 => { |tz| { tz == [1], [1, 1, 1] != [1, 1 | tz] } }, _ | [[_, y | t], ['b'], [x, "a", _]] => { q == (_, _) }, }] }, match q { t => , }, |t| { P3([t, q], [], _) == x, |tz| { tz == [1, 3], [1, 3, 1, 3] != [1, 3 | tz] } } }, x == P3(q, 3, [3, 3])])
}
pub fn case_463(vars: &Vars) -> InferredGoal<DU, DE, Goal<DU, DE>> {
    let q = vars.v[0].clone();
    let x = vars.v[1].clone();
    proto_vulcan!([true, |x| { conde { match x { 3 | [[3, "a"]] => [1 != x, x == P3(x, [], [x, 3])], [["bc", t, z | y], [t, h, 'a' | h]] => , [] => , }, [|t| { q == [[[] | 2], x, [3, 1, []] | 3], q == [[3], [x], [_] | x], append(x, q, []) }, matche q { 2 => { |tz| { tz == [1], [1, 1, 1] != [1, 1 | tz] } }, _ | [[_, y | t], ['b'], [x, "a", _]] => { q == (_, _) }, }] }, match q { fresh_name_9 => , }, |t| { P3([t, q], [], _) == x, |tz| { tz == [1, 3], [1, 3, 1, 3] != [1, 3 | tz] } } }, x == P3(q, 3, [3, 3])])
}
pub fn case_464(vars: &Vars) -> InferredGoal<DU, DE, Goal<DU, DE>> {
    let q = vars.v[0].clone();
    let x = vars.v[1].clone();
    proto_vulcan!([q == 2, { let c__: InferredGoal<DU, DE, Goal<DU, DE>> = proto_vulcan_closure!(|yy| { conde { [q == [yy | _], yy == 1], [q == [_, yy | _], yy == 2] } }); let g__: Goal<DU, DE> = ::proto_vulcan::GoalCast::cast_into(c__); let r__: InferredGoal<DU, DE, Goal<DU, DE>> = proto_vulcan!([g__.clone(), g__]); r__ }])
}
pub fn case_465(vars: &Vars) -> InferredGoal<DU, DE, Goal<DU, DE>> {
    let q = vars.v[0].clone();
    let x = vars.v[1].clone();
    proto_vulcan!([q == 2, { let c__: InferredGoal<DU, DE, Goal<DU, DE>> = proto_vulcan_closure!(|fresh_name_9| { conde { [q == [fresh_name_9 | _], fresh_name_9 == 1], [q == [_, fresh_name_9 | _], fresh_name_9 == 2] } }); let g__: Goal<DU, DE> = ::proto_vulcan::GoalCast::cast_into(c__); let r__: InferredGoal<DU, DE, Goal<DU, DE>> = proto_vulcan!([g__.clone(), g__]); r__ }])
}
pub fn case_466(vars: &Vars) -> InferredGoal<DU, DE, Goal<DU, DE>> {
    let x = vars.v[0].clone();
    proto_vulcan!([conde { [[match x { _ | [[false | y], [z, y, z]] => , 1 => , }, x == [[1, x, _ | x] | x]], |tz| { [3, 3 | tz] != [3, 3, 2], tz == [2] }], [[[1 | x] == x]], x == x }, P3(_, 3, x) == x, [[matche x { h | [t, [2, y, "bc"], z] => { P3(1, _, x) == (x, 2), member(x, [1, 1, 1]) }, [1, [x, h, false | 2]] => , }, match x { [[t, [], true], [[], x, h]] => { false, [[]] == t }, }], conde { [1 == x, x == (x, [])], x == (3, 3), [|y, h| { false }, P3(1, _, _) == x] }]])
}
pub fn case_467(vars: &Vars) -> InferredGoal<DU, DE, Goal<DU, DE>> {
    let x = vars.v[0].clone();
    proto_vulcan!([conde { [[match x { _ | [[false | y], [z, y, z]] => , 1 => , }, x == [[1, x, _ | x] | x]], |tz| { [3, 3 | tz] != [3, 3, 2], tz == [2] }], [[[1 | x] == x]], x == x }, P3(_, 3, x) == x, [[matche x { h | [t, [2, y, "bc"], z] => { P3(1, _, x) == (x, 2), member(x, [1, 1, 1]) }, [1, [x, h, false | 2]] => , }, match x { [[t, [], true], [[], fresh_name_9, h]] => { false, [[]] == t }, }], conde { [1 == x, x == (x, [])], x == (3, 3), [|y, h| { false }, P3(1, _, _) == x] }]])
}
pub fn case_468(vars: &Vars) -> InferredGoal<DU, DE, Goal<DU, DE>> {
    let q = vars.v[0].clone();
    let x = vars.v[1].clone();
    proto_vulcan!([|z, h| { [false, 2 == x], true, x == 1 }, closure { [x == q, [matche x { _ => , [[] | 1] => { |tz| { tz == [1], [1, 3 | tz] != [1, 3, 1] } }, z => { [2, q, q] == z, z == [[2, q, x], ['b', q, _] | z] }, }, x == [q, 'a']]] }])
}
pub fn case_469(vars: &Vars) -> InferredGoal<DU, DE, Goal<DU, DE>> {
    let q = vars.v[0].clone();
    let x = vars.v[1].clone();
    proto_vulcan!([|z, h| { [false, 2 == x], true, x == 1 }, closure { [x == q, [matche x { _ => , [[] | 1] => { |tz| { tz == [1], [1, 3 | tz] != [1, 3, 1] } }, fresh_name_9 => { [2, q, q] == fresh_name_9, fresh_name_9 == [[2, q, x], ['b', q, _] | fresh_name_9] }, }, x == [q, 'a']]] }])
}
pub fn case_470(vars: &Vars) -> InferredGoal<DU, DE, Goal<DU, DE>> {
    let q = vars.v[0].clone();
    let x = vars.v[1].clone();
    proto_vulcan!([[match x { [[y, false | h]] => , _ => { |h, y| { |tz| { [2, 3] != [2 | tz], tz == [3] }, q == [_, _, q], true }, |z, y| { false } }, }, q == [q], conde { [conde { "a" == P3([_], [2, q], q), (x, []) == q, |tz| { tz == [3], [2 | tz] != [2, 3] } }, q == [x | q]], [[P3(3, [[], q], q) != x, x == [q | x], x == [[_], [3, q | q], [q, true, 1] | x]]] }], closure { [match x { [[y], ['a'], [z]] => [conde { true }, member(y, [1, 3])], _ => { |z| { |tz| { tz == [2], [2, 2, 2] != [2, 2 | tz] } }, match [1, x] { [1, [h, x | y]] | [[1], []] => , [1] => { q != 1, x == q }, } }, }, |y| { 2 == q }] }])
}
pub fn case_471(vars: &Vars) -> InferredGoal<DU, DE, Goal<DU, DE>> {
    let q = vars.v[0].clone();
    let x = vars.v[1].clone();
    proto_vulcan!([[match x { [[y, false | h]] => , _ => { |h, y| { |tz| { [2, 3] != [2 | tz], tz == [3] }, q == [_, _, q], true }, |z, y| { false } }, }, q == [q], conde { [conde { "a" == P3([_], [2, q], q), (x, []) == q, |tz| { tz == [3], [2 | tz] != [2, 3] } }, q == [x | q]], [[P3(3, [[], q], q) != x, x == [q | x], x == [[_], [3, q | q], [q, true, 1] | x]]] }], closure { [match x { [[fresh_name_9], ['a'], [z]] => [conde { true }, member(fresh_name_9, [1, 3])], _ => { |z| { |tz| { tz == [2], [2, 2, 2] != [2, 2 | tz] } }, match [1, x] { [1, [h, x | y]] | [[1], []] => , [1] => { q != 1, x == q }, } }, }, |y| { 2 == q }] }])
}
pub fn case_472(vars: &Vars) -> InferredGoal<DU, DE, Goal<DU, DE>> {
    let x = vars.v[0].clone();
    let y = vars.v[1].clone();
    proto_vulcan!([matche y { [[3, y], [2, true, 2 | z], [_]] => { |tz| { tz == [2], [1, 2] != [1 | tz] } }, [[2, y], h, [t, _, _ | t]] => [[[true], conde { [2, y, 2] != t, true, [] }, h == []], y == [[t, 1], [y, 3], y]], [3, ["a" | _], _] | [[x, 3, 2], false] => , }])
}
pub fn case_473(vars: &Vars) -> InferredGoal<DU, DE, Goal<DU, DE>> {
    let x = vars.v[0].clone();
    let y = vars.v[1].clone();
    proto_vulcan!([matche y { [[3, fresh_name_9], [2, true, 2 | z], [_]] => { |tz| { tz == [2], [1, 2] != [1 | tz] } }, [[2, y], h, [t, _, _ | t]] => [[[true], conde { [2, y, 2] != t, true, [] }, h == []], y == [[t, 1], [y, 3], y]], [3, ["a" | _], _] | [[x, 3, 2], false] => , }])
}
pub fn case_474(vars: &Vars) -> InferredGoal<DU, DE, Goal<DU, DE>> {
    let x = vars.v[0].clone();
    proto_vulcan!([|t, z| { [2, []] != x }, { let c__: InferredGoal<DU, DE, Goal<DU, DE>> = proto_vulcan_closure!([|yy| { conde { [x == [yy | _], yy == 1], [x == [_, yy | _], yy == 2] } }, [x, 1 | x] == x]); let g__: Goal<DU, DE> = ::proto_vulcan::GoalCast::cast_into(c__); let r__: InferredGoal<DU, DE, Goal<DU, DE>> = proto_vulcan!([g__.clone(), g__]); r__ }])
}
pub fn case_475(vars: &Vars) -> InferredGoal<DU, DE, Goal<DU, DE>> {
    let x = vars.v[0].clone();
    proto_vulcan!([|fresh_name_9, z| { [2, []] != x }, { let c__: InferredGoal<DU, DE, Goal<DU, DE>> = proto_vulcan_closure!([|yy| { conde { [x == [yy | _], yy == 1], [x == [_, yy | _], yy == 2] } }, [x, 1 | x] == x]); let g__: Goal<DU, DE> = ::proto_vulcan::GoalCast::cast_into(c__); let r__: InferredGoal<DU, DE, Goal<DU, DE>> = proto_vulcan!([g__.clone(), g__]); r__ }])
}
pub fn case_476(vars: &Vars) -> InferredGoal<DU, DE, Goal<DU, DE>> {
    let q = vars.v[0].clone();
    let x = vars.v[1].clone();
    proto_vulcan!([|h| { h != ["bc", x, "a"] }, P3(1, x, _) == q, x == q, closure { [[2, [_, 1, 2 | x], 3] != x, matche q { "bc" => , _ => x != [2, x], [x, [3, 2], [[], 2] | x] => [[_ == q, 1 == x, false]], }] }])
}
pub fn case_477(vars: &Vars) -> InferredGoal<DU, DE, Goal<DU, DE>> {
    let q = vars.v[0].clone();
    let x = vars.v[1].clone();
    proto_vulcan!([|h| { h != ["bc", x, "a"] }, P3(1, x, _) == q, x == q, closure { [[2, [_, 1, 2 | x], 3] != x, matche q { "bc" => , _ => x != [2, x], [fresh_name_9, [3, 2], [[], 2] | fresh_name_9] => [[_ == q, 1 == fresh_name_9, false]], }] }])
}
pub fn case_478(vars: &Vars) -> InferredGoal<DU, DE, Goal<DU, DE>> {
    let x = vars.v[0].clone();
    proto_vulcan!([x != [[x, x, 3], [2, true, 3]], matche x { [[3], [[], [], h | _] | 2] => { [2 | h] != x }, [[z, h, y], [t, 3 | _]] => { match y { P3(3, 1, 2) | [[z, x, _], 1] => { [2, h, []] != t }, 2 => , }, [matche t { _ => ([2], _) == P3(3, [h], _), [[3 | t], [z], [2, 2 | y]] => [[[3, [], h | x]] == [z, [[], 'b'] | z], [2 | t] == t], P3(2, 3, []) => { z == [_ | x] }, }] }, }])
}
pub fn case_479(vars: &Vars) -> InferredGoal<DU, DE, Goal<DU, DE>> {
    let x = vars.v[0].clone();
    proto_vulcan!([x != [[x, x, 3], [2, true, 3]], matche x { [[3], [[], [], h | _] | 2] => { [2 | h] != x }, [[z, h, y], [t, 3 | _]] => { match y { P3(3, 1, 2) | [[z, x, _], 1] => { [2, h, []] != t }, 2 => , }, [matche t { _ => ([2], _) == P3(3, [h], _), [[3 | fresh_name_9], [z], [2, 2 | y]] => [[[3, [], h | x]] == [z, [[], 'b'] | z], [2 | fresh_name_9] == fresh_name_9], P3(2, 3, []) => { z == [_ | x] }, }] }, }])
}
pub fn case_480(vars: &Vars) -> InferredGoal<DU, DE, Goal<DU, DE>> {
    let x = vars.v[0].clone();
    proto_vulcan!([P3(x, 3, []) == x, { let c__: InferredGoal<DU, DE, Goal<DU, DE>> = proto_vulcan_closure!([|yy| { conde { [x == [yy | _], yy == 1], [x == [_, yy | _], yy == 2] } }, |t| { t != t, member(x, [1, 1, 2]), [x, [1, t, []], ["a", "a" | x]] != t }]); let g__: Goal<DU, DE> = ::proto_vulcan::GoalCast::cast_into(c__); let r__: InferredGoal<DU, DE, Goal<DU, DE>> = proto_vulcan!([g__.clone(), g__]); r__ }])
}
pub fn case_481(vars: &Vars) -> InferredGoal<DU, DE, Goal<DU, DE>> {
    let x = vars.v[0].clone();
    proto_vulcan!([P3(x, 3, []) == x, { let c__: InferredGoal<DU, DE, Goal<DU, DE>> = proto_vulcan_closure!([|yy| { conde { [x == [yy | _], yy == 1], [x == [_, yy | _], yy == 2] } }, |fresh_name_9| { fresh_name_9 != fresh_name_9, member(x, [1, 1, 2]), [x, [1, fresh_name_9, []], ["a", "a" | x]] != fresh_name_9 }]); let g__: Goal<DU, DE> = ::proto_vulcan::GoalCast::cast_into(c__); let r__: InferredGoal<DU, DE, Goal<DU, DE>> = proto_vulcan!([g__.clone(), g__]); r__ }])
}
pub fn case_482(vars: &Vars) -> InferredGoal<DU, DE, Goal<DU, DE>> {
    let x = vars.v[0].clone();
    proto_vulcan!([[3, 1] != x, conde { (x, []) != x, |x| { [x == P3([3], [], [3, []]), true] }, [x == [2, 'b' | x], conde { [([x, []], x) == x, [["bc", 1 | x]] != 1], [[x != (x, []), x != [1 | x]]] }] }, matche x { _ => , _ => , }])
}
pub fn case_483(vars: &Vars) -> InferredGoal<DU, DE, Goal<DU, DE>> {
    let x = vars.v[0].clone();
    proto_vulcan!([[3, 1] != x, conde { (x, []) != x, |fresh_name_9| { [fresh_name_9 == P3([3], [], [3, []]), true] }, [x == [2, 'b' | x], conde { [([x, []], x) == x, [["bc", 1 | x]] != 1], [[x != (x, []), x != [1 | x]]] }] }, matche x { _ => , _ => , }])
}
pub fn case_484(vars: &Vars) -> InferredGoal<DU, DE, Goal<DU, DE>> {
    let x = vars.v[0].clone();
    proto_vulcan!([|x| { member(x, [1]), [[[], x, x | x]] != x, |x| { [x == ([_], _), 1 == x] } }, x == _, { let c__: InferredGoal<DU, DE, Goal<DU, DE>> = proto_vulcan_closure!(|yy| { conde { [x == [yy | _], yy == 1], [x == [_, yy | _], yy == 2] } }); let g__: Goal<DU, DE> = ::proto_vulcan::GoalCast::cast_into(c__); let r__: InferredGoal<DU, DE, Goal<DU, DE>> = proto_vulcan!([g__.clone(), g__]); r__ }])
}
pub fn case_485(vars: &Vars) -> InferredGoal<DU, DE, Goal<DU, DE>> {
    let x = vars.v[0].clone();
    proto_vulcan!([|fresh_name_9| { member(fresh_name_9, [1]), [[[], fresh_name_9, fresh_name_9 | fresh_name_9]] != fresh_name_9, |x| { [x == ([_], _), 1 == x] } }, x == _, { let c__: InferredGoal<DU, DE, Goal<DU, DE>> = proto_vulcan_closure!(|yy| { conde { [x == [yy | _], yy == 1], [x == [_, yy | _], yy == 2] } }); let g__: Goal<DU, DE> = ::proto_vulcan::GoalCast::cast_into(c__); let r__: InferredGoal<DU, DE, Goal<DU, DE>> = proto_vulcan!([g__.clone(), g__]); r__ }])
}
pub fn case_486(vars: &Vars) -> InferredGoal<DU, DE, Goal<DU, DE>> {
    let q = vars.v[0].clone();
    let x = vars.v[1].clone();
    proto_vulcan!([|y, x| { |tz| { [1, 2 | tz] != [1, 2, 2], tz == [2] } }, [[[]]] == [[], 1]])
}
pub fn case_487(vars: &Vars) -> InferredGoal<DU, DE, Goal<DU, DE>> {
    let q = vars.v[0].clone();
    let x = vars.v[1].clone();
    proto_vulcan!([|fresh_name_9, x| { |tz| { [1, 2 | tz] != [1, 2, 2], tz == [2] } }, [[[]]] == [[], 1]])
}
pub fn case_488(vars: &Vars) -> InferredGoal<DU, DE, Goal<DU, DE>> {
    let x = vars.v[0].clone();
    proto_vulcan!([|x, y| {  }, matche x { [x] => , }, matche x { h => [h == ([h], 2), |h, y| { |x| { h != 1 }, match h { Named { a: [], b: 2 } | _ => { true }, 2 | [[2, t], [y | _] | false] => , }, [y == []] }], [[x]] => , Named { a: 2, b: [2] } => , }, closure { [[|t| { t != [[x, x, t]] }, false]] }])
}
pub fn case_489(vars: &Vars) -> InferredGoal<DU, DE, Goal<DU, DE>> {
    let x = vars.v[0].clone();
    proto_vulcan!([|x, y| {  }, matche x { [fresh_name_9] => , }, matche x { h => [h == ([h], 2), |h, y| { |x| { h != 1 }, match h { Named { a: [], b: 2 } | _ => { true }, 2 | [[2, t], [y | _] | false] => , }, [y == []] }], [[x]] => , Named { a: 2, b: [2] } => , }, closure { [[|t| { t != [[x, x, t]] }, false]] }])
}
pub fn case_490(vars: &Vars) -> InferredGoal<DU, DE, Goal<DU, DE>> {
    let q = vars.v[0].clone();
    let x = vars.v[1].clone();
    proto_vulcan!([true, append(x, x, [2]), conde { [matche [q, true, q] { y | h => , [h] => match q { P3(y, [1], t) => |tz| { [3 | tz] != [3, 2], tz == [2] }, }, }, true], [q != (x, _), _ == x], [] }])
}
pub fn case_491(vars: &Vars) -> InferredGoal<DU, DE, Goal<DU, DE>> {
    let q = vars.v[0].clone();
    let x = vars.v[1].clone();
    proto_vulcan!([true, append(x, x, [2]), conde { [matche [q, true, q] { y | h => , [h] => match q { P3(y, [1], t) => |fresh_name_9| { [3 | fresh_name_9] != [3, 2], fresh_name_9 == [2] }, }, }, true], [q != (x, _), _ == x], [] }])
}
pub fn case_492(vars: &Vars) -> InferredGoal<DU, DE, Goal<DU, DE>> {
    let x = vars.v[0].clone();
    proto_vulcan!([matche x { _ => [x == 7, x == 8], [y, [_]] | [[h], [x, [], []], true | _] => , }, closure { [x == (_, 3), [|y, x| { P3([_], 2, [3]) != [false, [1 | x], x], member(y, [2, 1]), P3(2, 2, x) == x }, match [x, true] { true => , [[_, t] | _] => { [[x, 3, x | x] | t] == ["a", [[] | t], 'b'] }, }]] }])
}
pub fn case_493(vars: &Vars) -> InferredGoal<DU, DE, Goal<DU, DE>> {
    let x = vars.v[0].clone();
    proto_vulcan!([matche x { _ => [x == 7, x == 8], [y, [_]] | [[h], [x, [], []], true | _] => , }, closure { [x == (_, 3), [|y, fresh_name_9| { P3([_], 2, [3]) != [false, [1 | fresh_name_9], fresh_name_9], member(y, [2, 1]), P3(2, 2, fresh_name_9) == fresh_name_9 }, match [x, true] { true => , [[_, t] | _] => { [[x, 3, x | x] | t] == ["a", [[] | t], 'b'] }, }]] }])
}
pub fn case_494(vars: &Vars) -> InferredGoal<DU, DE, Goal<DU, DE>> {
    let q = vars.v[0].clone();
    let x = vars.v[1].clone();
    proto_vulcan!([matche "bc" { _ => [|tz| { [2, 3 | tz] != [2, 3, 3], tz == [3] }, |tz| { tz == [3], [2, 3] != [2 | tz] }], [[3, t], []] => member(x, [1, 3]), _ | Named { a: 3, b: 3 } => { [], match q { 'a' | 3 => [x == [[x, 1, _]], x == x], [[2, 2, 2 | 'b'] | h] => , } }, }, match [2, "bc" | _] { P3([], _, 3) => , y => [_ != x, P3(_, 3, q) == x], [[3, []]] | [y] => , }, |tz| { tz == [3], [3, 3] != [3 | tz] }, closure { match [2] { [[2] | y] => , "a" | [] => , } }])
}
pub fn case_495(vars: &Vars) -> InferredGoal<DU, DE, Goal<DU, DE>> {
    let q = vars.v[0].clone();
    let x = vars.v[1].clone();
    proto_vulcan!([matche "bc" { _ => [|tz| { [2, 3 | tz] != [2, 3, 3], tz == [3] }, |tz| { tz == [3], [2, 3] != [2 | tz] }], [[3, t], []] => member(x, [1, 3]), _ | Named { a: 3, b: 3 } => { [], match q { 'a' | 3 => [x == [[x, 1, _]], x == x], [[2, 2, 2 | 'b'] | h] => , } }, }, match [2, "bc" | _] { P3([], _, 3) => , fresh_name_9 => [_ != x, P3(_, 3, q) == x], [[3, []]] | [y] => , }, |tz| { tz == [3], [3, 3] != [3 | tz] }, closure { match [2] { [[2] | y] => , "a" | [] => , } }])
}
pub fn case_496(vars: &Vars) -> InferredGoal<DU, DE, Goal<DU, DE>> {
    let x = vars.v[0].clone();
    let y = vars.v[1].clone();
    proto_vulcan!([y != [_, y, x], |h| { (_, y) == h, matche 3 { _ => , } }, y == [1, [], 1]])
}
pub fn case_497(vars: &Vars) -> InferredGoal<DU, DE, Goal<DU, DE>> {
    let x = vars.v[0].clone();
    let y = vars.v[1].clone();
    proto_vulcan!([y != [_, y, x], |fresh_name_9| { (_, y) == fresh_name_9, matche 3 { _ => , } }, y == [1, [], 1]])
}
pub fn case_498(vars: &Vars) -> InferredGoal<DU, DE, Goal<DU, DE>> {
    let x = vars.v[0].clone();
    let y = vars.v[1].clone();
    proto_vulcan!([conde { [], |tz| { [2, 3, 3] != [2 | tz], tz == [3, 3] }, [|z, h| { x == [2, z | y], z == _, z == [_, y | _] }, x == y] }])
}
pub fn case_499(vars: &Vars) -> InferredGoal<DU, DE, Goal<DU, DE>> {
    let x = vars.v[0].clone();
    let y = vars.v[1].clone();
    proto_vulcan!([conde { [], |tz| { [2, 3, 3] != [2 | tz], tz == [3, 3] }, [|z, fresh_name_9| { x == [2, z | y], z == _, z == [_, y | _] }, x == y] }])
}
pub fn case_500(vars: &Vars) -> InferredGoal<DU, DE, Goal<DU, DE>> {
    let x = vars.v[0].clone();
    proto_vulcan!([|x| { [_, x | x] == [[[], x], [_, 1], ['a', x] | x] }, |t| { conde { [_ == x, |z, y| { (_, _) == P3(t, 3, []), [x] == y, y == ([1], [1]) }] }, x == 2 }, { let c__: InferredGoal<DU, DE, Goal<DU, DE>> = proto_vulcan_closure!(|yy| { conde { [x == [yy | _], yy == 1], [x == [_, yy | _], yy == 2] } }); let g__: Goal<DU, DE> = ::proto_vulcan::GoalCast::cast_into(c__); let r__: InferredGoal<DU, DE, Goal<DU, DE>> = proto_vulcan!([g__.clone(), g__]); r__ }])
}
pub fn case_501(vars: &Vars) -> InferredGoal<DU, DE, Goal<DU, DE>> {
    let x = vars.v[0].clone();
    proto_vulcan!([|x| { [_, x | x] == [[[], x], [_, 1], ['a', x] | x] }, |t| { conde { [_ == x, |z, fresh_name_9| { (_, _) == P3(t, 3, []), [x] == fresh_name_9, fresh_name_9 == ([1], [1]) }] }, x == 2 }, { let c__: InferredGoal<DU, DE, Goal<DU, DE>> = proto_vulcan_closure!(|yy| { conde { [x == [yy | _], yy == 1], [x == [_, yy | _], yy == 2] } }); let g__: Goal<DU, DE> = ::proto_vulcan::GoalCast::cast_into(c__); let r__: InferredGoal<DU, DE, Goal<DU, DE>> = proto_vulcan!([g__.clone(), g__]); r__ }])
}
pub fn case_502(vars: &Vars) -> InferredGoal<DU, DE, Goal<DU, DE>> {
    let x = vars.v[0].clone();
    proto_vulcan!([x == [[2, x], x, 3], 3 == x, _ == (1, []), { let c__: InferredGoal<DU, DE, Goal<DU, DE>> = proto_vulcan_closure!(|yy| { conde { [x == [yy | _], yy == 1], [x == [_, yy | _], yy == 2] } }); let g__: Goal<DU, DE> = ::proto_vulcan::GoalCast::cast_into(c__); let r__: InferredGoal<DU, DE, Goal<DU, DE>> = proto_vulcan!([g__.clone(), g__]); r__ }])
}
pub fn case_503(vars: &Vars) -> InferredGoal<DU, DE, Goal<DU, DE>> {
    let x = vars.v[0].clone();
    proto_vulcan!([x == [[2, x], x, 3], 3 == x, _ == (1, []), { let c__: InferredGoal<DU, DE, Goal<DU, DE>> = proto_vulcan_closure!(|fresh_name_9| { conde { [x == [fresh_name_9 | _], fresh_name_9 == 1], [x == [_, fresh_name_9 | _], fresh_name_9 == 2] } }); let g__: Goal<DU, DE> = ::proto_vulcan::GoalCast::cast_into(c__); let r__: InferredGoal<DU, DE, Goal<DU, DE>> = proto_vulcan!([g__.clone(), g__]); r__ }])
}
pub fn case_504(vars: &Vars) -> InferredGoal<DU, DE, Goal<DU, DE>> {
    let x = vars.v[0].clone();
    let y = vars.v[1].clone();
    proto_vulcan!([x == 2, x == _, { let c__: InferredGoal<DU, DE, Goal<DU, DE>> = proto_vulcan_closure!([|yy| { conde { [x == [yy | _], yy == 1], [x == [_, yy | _], yy == 2] } }, |z, t| { 1 == [z, [], [x, _, z]], t != [z, 2, []] }]); let g__: Goal<DU, DE> = ::proto_vulcan::GoalCast::cast_into(c__); let r__: InferredGoal<DU, DE, Goal<DU, DE>> = proto_vulcan!([g__.clone(), g__]); r__ }])
}
pub fn case_505(vars: &Vars) -> InferredGoal<DU, DE, Goal<DU, DE>> {
    let x = vars.v[0].clone();
    let y = vars.v[1].clone();
    proto_vulcan!([x == 2, x == _, { let c__: InferredGoal<DU, DE, Goal<DU, DE>> = proto_vulcan_closure!([|fresh_name_9| { conde { [x == [fresh_name_9 | _], fresh_name_9 == 1], [x == [_, fresh_name_9 | _], fresh_name_9 == 2] } }, |z, t| { 1 == [z, [], [x, _, z]], t != [z, 2, []] }]); let g__: Goal<DU, DE> = ::proto_vulcan::GoalCast::cast_into(c__); let r__: InferredGoal<DU, DE, Goal<DU, DE>> = proto_vulcan!([g__.clone(), g__]); r__ }])
}
pub fn case_506(vars: &Vars) -> InferredGoal<DU, DE, Goal<DU, DE>> {
    let x = vars.v[0].clone();
    proto_vulcan!([[x, 'a', 1] == x, true, { let c__: InferredGoal<DU, DE, Goal<DU, DE>> = proto_vulcan_closure!(|yy| { conde { [x == [yy | _], yy == 1], [x == [_, yy | _], yy == 2] } }); let g__: Goal<DU, DE> = ::proto_vulcan::GoalCast::cast_into(c__); let r__: InferredGoal<DU, DE, Goal<DU, DE>> = proto_vulcan!([g__.clone(), g__]); r__ }])
}
pub fn case_507(vars: &Vars) -> InferredGoal<DU, DE, Goal<DU, DE>> {
    let x = vars.v[0].clone();
    proto_vulcan!([[x, 'a', 1] == x, true, { let c__: InferredGoal<DU, DE, Goal<DU, DE>> = proto_vulcan_closure!(|fresh_name_9| { conde { [x == [fresh_name_9 | _], fresh_name_9 == 1], [x == [_, fresh_name_9 | _], fresh_name_9 == 2] } }); let g__: Goal<DU, DE> = ::proto_vulcan::GoalCast::cast_into(c__); let r__: InferredGoal<DU, DE, Goal<DU, DE>> = proto_vulcan!([g__.clone(), g__]); r__ }])
}
pub fn case_508(vars: &Vars) -> InferredGoal<DU, DE, Goal<DU, DE>> {
    let q = vars.v[0].clone();
    let x = vars.v[1].clone();
    proto_vulcan!([conde { matche x { [false, [_, 1]] => (q, q) == q, [_, 3, x] => { match x { "a" => { [_ | 1] != x, P3([x], x, []) == q }, _ => [x == 7, x == 8], _ => { append(x, q, [1]), x != P3([], [2, 1], 1) }, }, |t| { [x] == [[q, t], x, []] } }, }, |x, t| { match t { [[[]], 2] | _ => { x != [[], 3 | 3] }, [[2, 'b', z | 1], [h | t]] | Named { a: [], b: 1 } => [[x, [x, 3, q], [] | false] != x, false], } }, [x == [1 | q], conde { [conde { [[]] == q, [q != [q | x], [q, [q, false, "a"] | x] == [[] | q]], [q == q, [1, x | q] == q] }, [x == [q | q]]], [[x != true, q == [2], [_, 'b', 'b' | _] == q], |tz| { [3, 3 | tz] != [3, 3, 2], tz == [2] }], [x == x, [x == [true], q == [1, 3, 2]]] }] }, match ['b', x] { [_] | _ => { [|tz| { tz == [1, 3], [2 | tz] != [2, 1, 3] }, x == _, match x { _ => [x == 7, x == 8], }] }, }, q == [[], 3]])
}
pub fn case_509(vars: &Vars) -> InferredGoal<DU, DE, Goal<DU, DE>> {
    let q = vars.v[0].clone();
    let x = vars.v[1].clone();
    proto_vulcan!([conde { matche x { [false, [_, 1]] => (q, q) == q, [_, 3, x] => { match x { "a" => { [_ | 1] != x, P3([x], x, []) == q }, _ => [x == 7, x == 8], _ => { append(x, q, [1]), x != P3([], [2, 1], 1) }, }, |t| { [x] == [[q, t], x, []] } }, }, |x, fresh_name_9| { match fresh_name_9 { [[[]], 2] | _ => { x != [[], 3 | 3] }, [[2, 'b', z | 1], [h | t]] | Named { a: [], b: 1 } => [[x, [x, 3, q], [] | false] != x, false], } }, [x == [1 | q], conde { [conde { [[]] == q, [q != [q | x], [q, [q, false, "a"] | x] == [[] | q]], [q == q, [1, x | q] == q] }, [x == [q | q]]], [[x != true, q == [2], [_, 'b', 'b' | _] == q], |tz| { [3, 3 | tz] != [3, 3, 2], tz == [2] }], [x == x, [x == [true], q == [1, 3, 2]]] }] }, match ['b', x] { [_] | _ => { [|tz| { tz == [1, 3], [2 | tz] != [2, 1, 3] }, x == _, match x { _ => [x == 7, x == 8], }] }, }, q == [[], 3]])
}
pub fn case_510(vars: &Vars) -> InferredGoal<DU, DE, Goal<DU, DE>> {
    let x = vars.v[0].clone();
    let y = vars.v[1].clone();
    proto_vulcan!([P3([], x, 1) == y, |z, t| {  }, []])
}
pub fn case_511(vars: &Vars) -> InferredGoal<DU, DE, Goal<DU, DE>> {
    let x = vars.v[0].clone();
    let y = vars.v[1].clone();
    proto_vulcan!([P3([], x, 1) == y, |fresh_name_9, t| {  }, []])
}
pub fn case_512(vars: &Vars) -> InferredGoal<DU, DE, Goal<DU, DE>> {
    let q = vars.v[0].clone();
    let x = vars.v[1].clone();
    proto_vulcan!([matche [q, q, [] | q] { t => , }, [] == x, closure { [[q, 2, 3], _ | x] == q }])
}
pub fn case_513(vars: &Vars) -> InferredGoal<DU, DE, Goal<DU, DE>> {
    let q = vars.v[0].clone();
    let x = vars.v[1].clone();
    proto_vulcan!([matche [q, q, [] | q] { fresh_name_9 => , }, [] == x, closure { [[q, 2, 3], _ | x] == q }])
}
pub fn case_514(vars: &Vars) -> InferredGoal<DU, DE, Goal<DU, DE>> {
    let q = vars.v[0].clone();
    let x = vars.v[1].clone();
    proto_vulcan!([|y, t| { true, t == [2, _] }])
}
pub fn case_515(vars: &Vars) -> InferredGoal<DU, DE, Goal<DU, DE>> {
    let q = vars.v[0].clone();
    let x = vars.v[1].clone();
    proto_vulcan!([|fresh_name_9, t| { true, t == [2, _] }])
}
pub fn case_516(vars: &Vars) -> InferredGoal<DU, DE, Goal<DU, DE>> {
    let x = vars.v[0].clone();
    let y = vars.v[1].clone();
    proto_vulcan!([[[y, 3, x | _], y, ['a', false | y]] != y, x == "bc", |y, z| { [[], 1] == z, y == 3 }])
}
pub fn case_517(vars: &Vars) -> InferredGoal<DU, DE, Goal<DU, DE>> {
    let x = vars.v[0].clone();
    let y = vars.v[1].clone();
    proto_vulcan!([[[y, 3, x | _], y, ['a', false | y]] != y, x == "bc", |fresh_name_9, z| { [[], 1] == z, fresh_name_9 == 3 }])
}
pub fn case_518(vars: &Vars) -> InferredGoal<DU, DE, Goal<DU, DE>> {
    let x = vars.v[0].clone();
    proto_vulcan!([|h, x| {  }])
}
pub fn case_519(vars: &Vars) -> InferredGoal<DU, DE, Goal<DU, DE>> {
    let x = vars.v[0].clone();
    proto_vulcan!([|h, fresh_name_9| {  }])
}
pub fn case_520(vars: &Vars) -> InferredGoal<DU, DE, Goal<DU, DE>> {
    let q = vars.v[0].clone();
    let x = vars.v[1].clone();
    proto_vulcan!([[|x| { false }, |tz| { [1 | tz] != [1, 3], tz == [3] }, [matche q { [[[], z, x | _], [[]]] => { |tz| { [2, 1] != [2 | tz], tz == [1] } }, [[[]], 3] => append(x, x, [1, 3]), [[x, [], t], [t], [h, x | _]] => true, }]], ['b', 2 | q] == x])
}
pub fn case_521(vars: &Vars) -> InferredGoal<DU, DE, Goal<DU, DE>> {
    let q = vars.v[0].clone();
    let x = vars.v[1].clone();
    proto_vulcan!([[|x| { false }, |tz| { [1 | tz] != [1, 3], tz == [3] }, [matche q { [[[], fresh_name_9, x | _], [[]]] => { |tz| { [2, 1] != [2 | tz], tz == [1] } }, [[[]], 3] => append(x, x, [1, 3]), [[x, [], t], [t], [h, x | _]] => true, }]], ['b', 2 | q] == x])
}
pub fn case_522(vars: &Vars) -> InferredGoal<DU, DE, Goal<DU, DE>> {
    let x = vars.v[0].clone();
    let y = vars.v[1].clone();
    proto_vulcan!([member(y, [3, 1, 3]), matche y { h | [1] => |y, z| { |t| { x == 3 } }, Named { a: 3, b: 3 } => [x == [true, _], member(x, [])], [2, z, [y, 1, _]] | Named { a: [], b: [] } => x == [_, []], }, conde { x != [x], [[match x { [_, [_, x, 2]] => [x == [x, false, 3], [x, true] == y], z => [z != [y, y], (_, 1) == x], }], _ == (_, 1)], [] }, closure { 1 != x }])
}
pub fn case_523(vars: &Vars) -> InferredGoal<DU, DE, Goal<DU, DE>> {
    let x = vars.v[0].clone();
    let y = vars.v[1].clone();
    proto_vulcan!([member(y, [3, 1, 3]), matche y { h | [1] => |y, fresh_name_9| { |t| { x == 3 } }, Named { a: 3, b: 3 } => [x == [true, _], member(x, [])], [2, z, [y, 1, _]] | Named { a: [], b: [] } => x == [_, []], }, conde { x != [x], [[match x { [_, [_, x, 2]] => [x == [x, false, 3], [x, true] == y], z => [z != [y, y], (_, 1) == x], }], _ == (_, 1)], [] }, closure { 1 != x }])
}
pub fn case_524(vars: &Vars) -> InferredGoal<DU, DE, Goal<DU, DE>> {
    let x = vars.v[0].clone();
    let y = vars.v[1].clone();
    proto_vulcan!([|t| { [2, [y]] == x }, |tz| { tz == [3], [1, 3] != [1 | tz] }, closure { [P3([x, 1], [], 1) == y, [] == x] }])
}
pub fn case_525(vars: &Vars) -> InferredGoal<DU, DE, Goal<DU, DE>> {
    let x = vars.v[0].clone();
    let y = vars.v[1].clone();
    proto_vulcan!([|t| { [2, [y]] == x }, |fresh_name_9| { fresh_name_9 == [3], [1, 3] != [1 | fresh_name_9] }, closure { [P3([x, 1], [], 1) == y, [] == x] }])
}
pub fn case_526(vars: &Vars) -> InferredGoal<DU, DE, Goal<DU, DE>> {
    let x = vars.v[0].clone();
    let y = vars.v[1].clone();
    proto_vulcan!([|x, t| { 1 == (x, x), [y] == y }, append(y, x, [1, 1]), [|t, h| { [x, _, x] == t, matche h { [[h, 1 | z], [x, _, h]] => { y == 2 }, } }]])
}
pub fn case_527(vars: &Vars) -> InferredGoal<DU, DE, Goal<DU, DE>> {
    let x = vars.v[0].clone();
    let y = vars.v[1].clone();
    proto_vulcan!([|x, fresh_name_9| { 1 == (x, x), [y] == y }, append(y, x, [1, 1]), [|t, h| { [x, _, x] == t, matche h { [[h, 1 | z], [x, _, h]] => { y == 2 }, } }]])
}
pub fn case_528(vars: &Vars) -> InferredGoal<DU, DE, Goal<DU, DE>> {
    let x = vars.v[0].clone();
    proto_vulcan!([[x == x, |t| { [t, 2, t] == t, conde { [1 != P3(3, [], x), false], [2, x] == t } }, [[] == x, [x, [], x] == x]], |z, x| {  }, |t, h| { true }, { let c__: InferredGoal<DU, DE, Goal<DU, DE>> = proto_vulcan_closure!([|yy| { conde { [x == [yy | _], yy == 1], [x == [_, yy | _], yy == 2] } }, matche x { Named { a: [], b: z } => { [2, z] == x, append(z, x, [2]) }, [[z, 1, x], [3], x | _] => false, }]); let g__: Goal<DU, DE> = ::proto_vulcan::GoalCast::cast_into(c__); let r__: InferredGoal<DU, DE, Goal<DU, DE>> = proto_vulcan!([g__.clone(), g__]); r__ }])
}
pub fn case_529(vars: &Vars) -> InferredGoal<DU, DE, Goal<DU, DE>> {
    let x = vars.v[0].clone();
    proto_vulcan!([[x == x, |t| { [t, 2, t] == t, conde { [1 != P3(3, [], x), false], [2, x] == t } }, [[] == x, [x, [], x] == x]], |fresh_name_9, x| {  }, |t, h| { true }, { let c__: InferredGoal<DU, DE, Goal<DU, DE>> = proto_vulcan_closure!([|yy| { conde { [x == [yy | _], yy == 1], [x == [_, yy | _], yy == 2] } }, matche x { Named { a: [], b: z } => { [2, z] == x, append(z, x, [2]) }, [[z, 1, x], [3], x | _] => false, }]); let g__: Goal<DU, DE> = ::proto_vulcan::GoalCast::cast_into(c__); let r__: InferredGoal<DU, DE, Goal<DU, DE>> = proto_vulcan!([g__.clone(), g__]); r__ }])
}
pub fn case_530(vars: &Vars) -> InferredGoal<DU, DE, Goal<DU, DE>> {
    let x = vars.v[0].clone();
    let y = vars.v[1].clone();
    proto_vulcan!([_ == x, [[conde { [[y, _, 2] == x, ([], _) != x] }, y == x], conde { [], |h, x| { append(y, h, [3, 1]) } }], y == [x, []]])
}
pub fn case_531(vars: &Vars) -> InferredGoal<DU, DE, Goal<DU, DE>> {
    let x = vars.v[0].clone();
    let y = vars.v[1].clone();
    proto_vulcan!([_ == x, [[conde { [[y, _, 2] == x, ([], _) != x] }, y == x], conde { [], |h, fresh_name_9| { append(y, h, [3, 1]) } }], y == [x, []]])
}
pub fn case_532(vars: &Vars) -> InferredGoal<DU, DE, Goal<DU, DE>> {
    let q = vars.v[0].clone();
    let x = vars.v[1].clone();
    proto_vulcan!([|x, h| { |h, x| { |t| { [[], [_, _ | x]] == [[x | h], [x | x], 'b' | h], x == _ } } }, |t, z| { P3([], _, t) == x, x == (x, x) }])
}
pub fn case_533(vars: &Vars) -> InferredGoal<DU, DE, Goal<DU, DE>> {
    let q = vars.v[0].clone();
    let x = vars.v[1].clone();
    proto_vulcan!([|x, h| { |fresh_name_9, x| { |t| { [[], [_, _ | x]] == [[x | fresh_name_9], [x | x], 'b' | fresh_name_9], x == _ } } }, |t, z| { P3([], _, t) == x, x == (x, x) }])
}
pub fn case_534(vars: &Vars) -> InferredGoal<DU, DE, Goal<DU, DE>> {
    let x = vars.v[0].clone();
    proto_vulcan!([true, matche x { Named { a: y, b: z } => [[y, 2] == z, z == y], _ | [[[]], x, 2] => , }, match x { [[2, y, 3 | t], [1], 'a'] | t => false, _ => { |z, t| { |tz| { tz == [3, 3], [3, 1, 3, 3] != [3, 1 | tz] } }, 3 == (x, [x, 3]) }, }])
}
pub fn case_535(vars: &Vars) -> InferredGoal<DU, DE, Goal<DU, DE>> {
    let x = vars.v[0].clone();
    proto_vulcan!([true, matche x { Named { a: y, b: z } => [[y, 2] == z, z == y], _ | [[[]], x, 2] => , }, match x { [[2, y, 3 | t], [1], 'a'] | t => false, _ => { |fresh_name_9, t| { |tz| { tz == [3, 3], [3, 1, 3, 3] != [3, 1 | tz] } }, 3 == (x, [x, 3]) }, }])
}
pub fn case_536(vars: &Vars) -> InferredGoal<DU, DE, Goal<DU, DE>> {
    let x = vars.v[0].clone();
    proto_vulcan!([[1 != x, conde { conde { [x == 'b', |tz| { tz == [3], [2, 3 | tz] != [2, 3, 3] }], [[x, [], 1] == x, false] }, [], |t| { true, t == t, t != t } }, x != 2], match x { [1 | _] => [x == P3(2, x, _), [[3, x, 1 | x], x, _] == [2, [x] | x]], }, x != [x, 1, 1], closure { [[x == [x], x == [[]]], [member(x, [2]), conde { [], [[x, [], []] != x, [] != x], |tz| { tz == [3], [3 | tz] != [3, 3] } }, x == [x, x]]] }])
}
pub fn case_537(vars: &Vars) -> InferredGoal<DU, DE, Goal<DU, DE>> {
    let x = vars.v[0].clone();
    proto_vulcan!([[1 != x, conde { conde { [x == 'b', |tz| { tz == [3], [2, 3 | tz] != [2, 3, 3] }], [[x, [], 1] == x, false] }, [], |fresh_name_9| { true, fresh_name_9 == fresh_name_9, fresh_name_9 != fresh_name_9 } }, x != 2], match x { [1 | _] => [x == P3(2, x, _), [[3, x, 1 | x], x, _] == [2, [x] | x]], }, x != [x, 1, 1], closure { [[x == [x], x == [[]]], [member(x, [2]), conde { [], [[x, [], []] != x, [] != x], |tz| { tz == [3], [3 | tz] != [3, 3] } }, x == [x, x]]] }])
}
pub fn case_538(vars: &Vars) -> InferredGoal<DU, DE, Goal<DU, DE>> {
    let x = vars.v[0].clone();
    let y = vars.v[1].clone();
    proto_vulcan!([[2, y, []] == y, [y, y, x] == x, |y, z| { y != [] }, { let c__: InferredGoal<DU, DE, Goal<DU, DE>> = proto_vulcan_closure!(|yy| { conde { [y == [yy | _], yy == 1], [y == [_, yy | _], yy == 2] } }); let g__: Goal<DU, DE> = ::proto_vulcan::GoalCast::cast_into(c__); let r__: InferredGoal<DU, DE, Goal<DU, DE>> = proto_vulcan!([g__.clone(), g__]); r__ }])
}
pub fn case_539(vars: &Vars) -> InferredGoal<DU, DE, Goal<DU, DE>> {
    let x = vars.v[0].clone();
    let y = vars.v[1].clone();
    proto_vulcan!([[2, y, []] == y, [y, y, x] == x, |y, z| { y != [] }, { let c__: InferredGoal<DU, DE, Goal<DU, DE>> = proto_vulcan_closure!(|fresh_name_9| { conde { [y == [fresh_name_9 | _], fresh_name_9 == 1], [y == [_, fresh_name_9 | _], fresh_name_9 == 2] } }); let g__: Goal<DU, DE> = ::proto_vulcan::GoalCast::cast_into(c__); let r__: InferredGoal<DU, DE, Goal<DU, DE>> = proto_vulcan!([g__.clone(), g__]); r__ }])
}
pub fn case_540(vars: &Vars) -> InferredGoal<DU, DE, Goal<DU, DE>> {
    let x = vars.v[0].clone();
    let y = vars.v[1].clone();
    proto_vulcan!([match y { [h, [y], y | x] => { |x| { conde { append(y, x, [1, 3]), [x == false, y == ([[]], [_])], [2 != x, y == 3] } } }, Named { a: _, b: [] } => , }, false, ([], 3) == x])
}
pub fn case_541(vars: &Vars) -> InferredGoal<DU, DE, Goal<DU, DE>> {
    let x = vars.v[0].clone();
    let y = vars.v[1].clone();
    proto_vulcan!([match y { [h, [fresh_name_9], fresh_name_9 | x] => { |x| { conde { append(fresh_name_9, x, [1, 3]), [x == false, fresh_name_9 == ([[]], [_])], [2 != x, fresh_name_9 == 3] } } }, Named { a: _, b: [] } => , }, false, ([], 3) == x])
}
pub fn case_542(vars: &Vars) -> InferredGoal<DU, DE, Goal<DU, DE>> {
    let x = vars.v[0].clone();
    proto_vulcan!([[1, x, [2 | x]] == x, P3([], 1, x) != [x | _], |h, t| { match [t | t] { [[[], h, 'b'], [3, [], t | t], "a"] => { false, |h, z| {  } }, _ => , }, false }, closure { 2 == x }])
}
pub fn case_543(vars: &Vars) -> InferredGoal<DU, DE, Goal<DU, DE>> {
    let x = vars.v[0].clone();
    proto_vulcan!([[1, x, [2 | x]] == x, P3([], 1, x) != [x | _], |h, t| { match [t | t] { [[[], h, 'b'], [3, [], t | t], "a"] => { false, |h, fresh_name_9| {  } }, _ => , }, false }, closure { 2 == x }])
}
pub fn case_544(vars: &Vars) -> InferredGoal<DU, DE, Goal<DU, DE>> {
    let q = vars.v[0].clone();
    let x = vars.v[1].clone();
    proto_vulcan!([conde { |t| { match t { [[2] | z] => , P3(2, x, [_, h]) => { [] != x }, } }, (1, 3) == ([2, 3], 1) }, closure { |x| {  } }])
}
pub fn case_545(vars: &Vars) -> InferredGoal<DU, DE, Goal<DU, DE>> {
    let q = vars.v[0].clone();
    let x = vars.v[1].clone();
    proto_vulcan!([conde { |t| { match t { [[2] | fresh_name_9] => , P3(2, x, [_, h]) => { [] != x }, } }, (1, 3) == ([2, 3], 1) }, closure { |x| {  } }])
}
pub fn case_546(vars: &Vars) -> InferredGoal<DU, DE, Goal<DU, DE>> {
    let x = vars.v[0].clone();
    proto_vulcan!([false, matche x { _ => { [x == P3([2, 2], 2, 3), |t| { append(t, x, [3]), t == (3, [t, 2]), t == P3([], x, [_, 2]) }, matche x { [_, [1, z, []], [t]] => , Named { a: 2, b: h } => member(x, [3]), }], P3([[], []], x, _) == x }, [z, x] => x == 3, }])
}
pub fn case_547(vars: &Vars) -> InferredGoal<DU, DE, Goal<DU, DE>> {
    let x = vars.v[0].clone();
    proto_vulcan!([false, matche x { _ => { [x == P3([2, 2], 2, 3), |t| { append(t, x, [3]), t == (3, [t, 2]), t == P3([], x, [_, 2]) }, matche x { [_, [1, z, []], [t]] => , Named { a: 2, b: h } => member(x, [3]), }], P3([[], []], x, _) == x }, [fresh_name_9, x] => x == 3, }])
}
pub fn case_548(vars: &Vars) -> InferredGoal<DU, DE, Goal<DU, DE>> {
    let x = vars.v[0].clone();
    proto_vulcan!([|tz| { tz == [1], [2, 1] != [2 | tz] }, false, closure { match [true, 2, x | x] { [[z, y], [], 3] | P3(h, z, h) => { [x, 2 | x] == [x, [_, 3]] }, P3(_, [_, 2], []) => , } }])
}
pub fn case_549(vars: &Vars) -> InferredGoal<DU, DE, Goal<DU, DE>> {
    let x = vars.v[0].clone();
    proto_vulcan!([|fresh_name_9| { fresh_name_9 == [1], [2, 1] != [2 | fresh_name_9] }, false, closure { match [true, 2, x | x] { [[z, y], [], 3] | P3(h, z, h) => { [x, 2 | x] == [x, [_, 3]] }, P3(_, [_, 2], []) => , } }])
}
pub fn case_550(vars: &Vars) -> InferredGoal<DU, DE, Goal<DU, DE>> {
    let x = vars.v[0].clone();
    let y = vars.v[1].clone();
    proto_vulcan!([x == [y, y], |tz| { tz == [3], [3, 3] != [3 | tz] }])
}
pub fn case_551(vars: &Vars) -> InferredGoal<DU, DE, Goal<DU, DE>> {
    let x = vars.v[0].clone();
    let y = vars.v[1].clone();
    proto_vulcan!([x == [y, y], |fresh_name_9| { fresh_name_9 == [3], [3, 3] != [3 | fresh_name_9] }])
}
pub fn case_552(vars: &Vars) -> InferredGoal<DU, DE, Goal<DU, DE>> {
    let x = vars.v[0].clone();
    let y = vars.v[1].clone();
    proto_vulcan!([[|z| { 3 == z }, conde { [], [[[], x] == _, x != 'a'] }, x == 2], |tz| { tz == [1, 2], [3, 1, 2] != [3 | tz] }, true, closure { [false == x, [2, y] == y] }])
}
pub fn case_553(vars: &Vars) -> InferredGoal<DU, DE, Goal<DU, DE>> {
    let x = vars.v[0].clone();
    let y = vars.v[1].clone();
    proto_vulcan!([[|z| { 3 == z }, conde { [], [[[], x] == _, x != 'a'] }, x == 2], |fresh_name_9| { fresh_name_9 == [1, 2], [3, 1, 2] != [3 | fresh_name_9] }, true, closure { [false == x, [2, y] == y] }])
}
pub fn case_554(vars: &Vars) -> InferredGoal<DU, DE, Goal<DU, DE>> {
    let x = vars.v[0].clone();
    let y = vars.v[1].clone();
    proto_vulcan!([match x { P3([3], 3, z) => { y == y }, }, |tz| { [1, 3 | tz] != [1, 3, 2], tz == [2] }, conde { true, [matche y { [[x, 1, 3]] | [[h]] => { |y| { (y, _) != y, ([y], 1) == y } }, "a" => { 2 != [], [y] == x }, 2 => , }, matche x { [[h, z | y], [2]] => { true, false }, P3(2, h, [x, x]) => [match x { Named { a: [], b: [] } => , [[y] | 1] | _ => [x == [2, [_, x, h]], true], }, [x, [], x | y] == x], }], [[] | x] == x }])
}
pub fn case_555(vars: &Vars) -> InferredGoal<DU, DE, Goal<DU, DE>> {
    let x = vars.v[0].clone();
    let y = vars.v[1].clone();
    proto_vulcan!([match x { P3([3], 3, fresh_name_9) => { y == y }, }, |tz| { [1, 3 | tz] != [1, 3, 2], tz == [2] }, conde { true, [matche y { [[x, 1, 3]] | [[h]] => { |y| { (y, _) != y, ([y], 1) == y } }, "a" => { 2 != [], [y] == x }, 2 => , }, matche x { [[h, z | y], [2]] => { true, false }, P3(2, h, [x, x]) => [match x { Named { a: [], b: [] } => , [[y] | 1] | _ => [x == [2, [_, x, h]], true], }, [x, [], x | y] == x], }], [[] | x] == x }])
}
pub fn case_556(vars: &Vars) -> InferredGoal<DU, DE, Goal<DU, DE>> {
    let x = vars.v[0].clone();
    proto_vulcan!([|t| { conde { _ == x, matche t { P3(3, x, _) => [true, ["a", 2, false] == [[_, t, t], [x, _, x | x], [x, x, t]]], }, [match t { [h] | [[1], [false, 'a'], [2, []] | 3] => , }, [3, t, 2 | "bc"] != x] }, conde { [], x == [[], t, 'a'], [] }, t == P3(_, [3], [2]) }])
}
pub fn case_557(vars: &Vars) -> InferredGoal<DU, DE, Goal<DU, DE>> {
    let x = vars.v[0].clone();
    proto_vulcan!([|t| { conde { _ == x, matche t { P3(3, fresh_name_9, _) => [true, ["a", 2, false] == [[_, t, t], [fresh_name_9, _, fresh_name_9 | fresh_name_9], [fresh_name_9, fresh_name_9, t]]], }, [match t { [h] | [[1], [false, 'a'], [2, []] | 3] => , }, [3, t, 2 | "bc"] != x] }, conde { [], x == [[], t, 'a'], [] }, t == P3(_, [3], [2]) }])
}
pub fn case_558(vars: &Vars) -> InferredGoal<DU, DE, Goal<DU, DE>> {
    let x = vars.v[0].clone();
    proto_vulcan!([x == P3([1, x], [], x), [] == x, { let c__: InferredGoal<DU, DE, Goal<DU, DE>> = proto_vulcan_closure!([|yy| { conde { [x == [yy | _], yy == 1], [x == [_, yy | _], yy == 2] } }, true == x]); let g__: Goal<DU, DE> = ::proto_vulcan::GoalCast::cast_into(c__); let r__: InferredGoal<DU, DE, Goal<DU, DE>> = proto_vulcan!([g__.clone(), g__]); r__ }])
}
pub fn case_559(vars: &Vars) -> InferredGoal<DU, DE, Goal<DU, DE>> {
    let x = vars.v[0].clone();
    proto_vulcan!([x == P3([1, x], [], x), [] == x, { let c__: InferredGoal<DU, DE, Goal<DU, DE>> = proto_vulcan_closure!([|fresh_name_9| { conde { [x == [fresh_name_9 | _], fresh_name_9 == 1], [x == [_, fresh_name_9 | _], fresh_name_9 == 2] } }, true == x]); let g__: Goal<DU, DE> = ::proto_vulcan::GoalCast::cast_into(c__); let r__: InferredGoal<DU, DE, Goal<DU, DE>> = proto_vulcan!([g__.clone(), g__]); r__ }])
}
pub fn case_560(vars: &Vars) -> InferredGoal<DU, DE, Goal<DU, DE>> {
    let q = vars.v[0].clone();
    let x = vars.v[1].clone();
    proto_vulcan!([[(x, x) == x, match q { [_, [h, z, t], 1] | [2] => { [[2 | q]] == x }, _ => { match x { _ => [x == 7, x == 8], } }, [[2, "a"], z, [3]] => [[2 | z] == z, [z] == z], }, _ == x], q == x, closure { match 1 { 2 | [t, [2], 3] => , P3(3, 2, _) | [] => { P3(_, 3, x) == x }, } }])
}
pub fn case_561(vars: &Vars) -> InferredGoal<DU, DE, Goal<DU, DE>> {
    let q = vars.v[0].clone();
    let x = vars.v[1].clone();
    proto_vulcan!([[(x, x) == x, match q { [_, [h, z, t], 1] | [2] => { [[2 | q]] == x }, _ => { match x { _ => [x == 7, x == 8], } }, [[2, "a"], fresh_name_9, [3]] => [[2 | fresh_name_9] == fresh_name_9, [fresh_name_9] == fresh_name_9], }, _ == x], q == x, closure { match 1 { 2 | [t, [2], 3] => , P3(3, 2, _) | [] => { P3(_, 3, x) == x }, } }])
}
pub fn case_562(vars: &Vars) -> InferredGoal<DU, DE, Goal<DU, DE>> {
    let x = vars.v[0].clone();
    let y = vars.v[1].clone();
    proto_vulcan!([(_, [y, []]) == x, match x { [[2, 'a', y | 1]] => , }, member(y, [])])
}
pub fn case_563(vars: &Vars) -> InferredGoal<DU, DE, Goal<DU, DE>> {
    let x = vars.v[0].clone();
    let y = vars.v[1].clone();
    proto_vulcan!([(_, [y, []]) == x, match x { [[2, 'a', fresh_name_9 | 1]] => , }, member(y, [])])
}
pub fn case_564(vars: &Vars) -> InferredGoal<DU, DE, Goal<DU, DE>> {
    let x = vars.v[0].clone();
    proto_vulcan!([conde { [|y, h| {  }, x != [x | x]], x == P3([_], [x], _), _ == x }, x == [_], conde { |tz| { tz == [3], [3, 3, 3] != [3, 3 | tz] } }])
}
pub fn case_565(vars: &Vars) -> InferredGoal<DU, DE, Goal<DU, DE>> {
    let x = vars.v[0].clone();
    proto_vulcan!([conde { [|fresh_name_9, h| {  }, x != [x | x]], x == P3([_], [x], _), _ == x }, x == [_], conde { |tz| { tz == [3], [3, 3, 3] != [3, 3 | tz] } }])
}
pub fn case_566(vars: &Vars) -> InferredGoal<DU, DE, Goal<DU, DE>> {
    let x = vars.v[0].clone();
    let y = vars.v[1].clone();
    proto_vulcan!([|h| { matche x { z => { member(y, [2, 1, 1]) }, h | [h] => [true, _ == h], [3, 2, [[], 1 | 1] | x] | 3 => { matche y { P3([3], _, x) => [[3, y | h] != h, |tz| { tz == [1, 3], [2, 3, 1, 3] != [2, 3 | tz] }], }, y == h }, } }, match x { [1, x, y] => { true }, [[2]] => matche x { ['b', [false | _] | y] => , }, Named { a: _, b: 3 } | [] => , }, { let c__: InferredGoal<DU, DE, Goal<DU, DE>> = proto_vulcan_closure!([|yy| { conde { [x == [yy | _], yy == 1], [x == [_, yy | _], yy == 2] } }, [x] == x]); let g__: Goal<DU, DE> = ::proto_vulcan::GoalCast::cast_into(c__); let r__: InferredGoal<DU, DE, Goal<DU, DE>> = proto_vulcan!([g__.clone(), g__]); r__ }])
}
pub fn case_567(vars: &Vars) -> InferredGoal<DU, DE, Goal<DU, DE>> {
    let x = vars.v[0].clone();
    let y = vars.v[1].clone();
    proto_vulcan!([|h| { matche x { z => { member(y, [2, 1, 1]) }, h | [h] => [true, _ == h], [3, 2, [[], 1 | 1] | x] | 3 => { matche y { P3([3], _, x) => [[3, y | h] != h, |tz| { tz == [1, 3], [2, 3, 1, 3] != [2, 3 | tz] }], }, y == h }, } }, match x { [1, x, fresh_name_9] => { true }, [[2]] => matche x { ['b', [false | _] | y] => , }, Named { a: _, b: 3 } | [] => , }, { let c__: InferredGoal<DU, DE, Goal<DU, DE>> = proto_vulcan_closure!([|yy| { conde { [x == [yy | _], yy == 1], [x == [_, yy | _], yy == 2] } }, [x] == x]); let g__: Goal<DU, DE> = ::proto_vulcan::GoalCast::cast_into(c__); let r__: InferredGoal<DU, DE, Goal<DU, DE>> = proto_vulcan!([g__.clone(), g__]); r__ }])
}
pub fn case_568(vars: &Vars) -> InferredGoal<DU, DE, Goal<DU, DE>> {
    let x = vars.v[0].clone();
    let y = vars.v[1].clone();
    proto_vulcan!([match x { [_, [] | _] => { |z, x| { P3([], [1], []) == x, |y| { (2, [_, 1]) != y, x != (y, [[]]) } }, |z| { y == y } }, [2, x] => , [[3, y, 1] | x] => { [y == x] }, }, { let c__: InferredGoal<DU, DE, Goal<DU, DE>> = proto_vulcan_closure!(|yy| { conde { [x == [yy | _], yy == 1], [x == [_, yy | _], yy == 2] } }); let g__: Goal<DU, DE> = ::proto_vulcan::GoalCast::cast_into(c__); let r__: InferredGoal<DU, DE, Goal<DU, DE>> = proto_vulcan!([g__.clone(), g__]); r__ }])
}
pub fn case_569(vars: &Vars) -> InferredGoal<DU, DE, Goal<DU, DE>> {
    let x = vars.v[0].clone();
    let y = vars.v[1].clone();
    proto_vulcan!([match x { [_, [] | _] => { |fresh_name_9, x| { P3([], [1], []) == x, |y| { (2, [_, 1]) != y, x != (y, [[]]) } }, |z| { y == y } }, [2, x] => , [[3, y, 1] | x] => { [y == x] }, }, { let c__: InferredGoal<DU, DE, Goal<DU, DE>> = proto_vulcan_closure!(|yy| { conde { [x == [yy | _], yy == 1], [x == [_, yy | _], yy == 2] } }); let g__: Goal<DU, DE> = ::proto_vulcan::GoalCast::cast_into(c__); let r__: InferredGoal<DU, DE, Goal<DU, DE>> = proto_vulcan!([g__.clone(), g__]); r__ }])
}
pub fn case_570(vars: &Vars) -> InferredGoal<DU, DE, Goal<DU, DE>> {
    let x = vars.v[0].clone();
    proto_vulcan!([matche x { _ => "bc" == x, x => [x != (x, [1, _]), 2 == x], Named { a: 2, b: 3 } => { match [_, x, "a" | 3] { [[[], h, 1], 2] | _ => [match x { t => [2 == x, x == [[1, 2 | 2] | t]], }, []], }, |y, x| { |y| { (1, y) == 2, [[x, 3, 2]] != y, P3([x, x], y, 2) == y }, _ == 2 } }, }])
}
pub fn case_571(vars: &Vars) -> InferredGoal<DU, DE, Goal<DU, DE>> {
    let x = vars.v[0].clone();
    proto_vulcan!([matche x { _ => "bc" == x, x => [x != (x, [1, _]), 2 == x], Named { a: 2, b: 3 } => { match [_, x, "a" | 3] { [[[], h, 1], 2] | _ => [match x { t => [2 == x, x == [[1, 2 | 2] | t]], }, []], }, |y, fresh_name_9| { |y| { (1, y) == 2, [[fresh_name_9, 3, 2]] != y, P3([fresh_name_9, fresh_name_9], y, 2) == y }, _ == 2 } }, }])
}
pub fn case_572(vars: &Vars) -> InferredGoal<DU, DE, Goal<DU, DE>> {
    let x = vars.v[0].clone();
    proto_vulcan!([[x, 1, [] | x] == x, closure { match x { [[_, t, []], 3, [1, _, _]] => , [[3, 1, _]] | [[_, h, 3], [1 | _] | h] => [match x { [[false, [], "a"] | x] | [[1, x], [t, 2, _] | t] => [x == [[x, "a" | x]], x != [[]]], y => , [2, 2, 3] | _ => { x == x }, }, x == ([[]], _)], } }])
}
pub fn case_573(vars: &Vars) -> InferredGoal<DU, DE, Goal<DU, DE>> {
    let x = vars.v[0].clone();
    proto_vulcan!([[x, 1, [] | x] == x, closure { match x { [[_, t, []], 3, [1, _, _]] => , [[3, 1, _]] | [[_, h, 3], [1 | _] | h] => [match x { [[false, [], "a"] | x] | [[1, x], [t, 2, _] | t] => [x == [[x, "a" | x]], x != [[]]], fresh_name_9 => , [2, 2, 3] | _ => { x == x }, }, x == ([[]], _)], } }])
}
pub fn case_574(vars: &Vars) -> InferredGoal<DU, DE, Goal<DU, DE>> {
    let x = vars.v[0].clone();
    let y = vars.v[1].clone();
    proto_vulcan!([|h| {  }, x == y])
}
pub fn case_575(vars: &Vars) -> InferredGoal<DU, DE, Goal<DU, DE>> {
    let x = vars.v[0].clone();
    let y = vars.v[1].clone();
    proto_vulcan!([|fresh_name_9| {  }, x == y])
}
pub fn case_576(vars: &Vars) -> InferredGoal<DU, DE, Goal<DU, DE>> {
    let x = vars.v[0].clone();
    let y = vars.v[1].clone();
    proto_vulcan!([|tz| { [2 | tz] != [2, 3], tz == [3] }])
}
pub fn case_577(vars: &Vars) -> InferredGoal<DU, DE, Goal<DU, DE>> {
    let x = vars.v[0].clone();
    let y = vars.v[1].clone();
    proto_vulcan!([|fresh_name_9| { [2 | fresh_name_9] != [2, 3], fresh_name_9 == [3] }])
}
pub fn case_578(vars: &Vars) -> InferredGoal<DU, DE, Goal<DU, DE>> {
    let x = vars.v[0].clone();
    proto_vulcan!([2 == x, [], [|h| { match x { Named { a: t, b: [] } => , [3, [true | z], [_ | x]] => false, } }, [false], P3(_, x, []) == x]])
}
pub fn case_579(vars: &Vars) -> InferredGoal<DU, DE, Goal<DU, DE>> {
    let x = vars.v[0].clone();
    proto_vulcan!([2 == x, [], [|h| { match x { Named { a: fresh_name_9, b: [] } => , [3, [true | z], [_ | x]] => false, } }, [false], P3(_, x, []) == x]])
}
pub fn case_580(vars: &Vars) -> InferredGoal<DU, DE, Goal<DU, DE>> {
    let q = vars.v[0].clone();
    let x = vars.v[1].clone();
    proto_vulcan!([matche x { [[1 | x]] => [matche x { h => [[_, 1], [q, _, _ | h]] == h, }, |y, h| { [] }], 2 => { q == 3 }, }, |y| { conde { [], [[]] }, match q { [[[]], 2 | y] | [h] => [|y| { member(q, []), [true, 2, true] == x }, [[1], [q, q | false], [2]] != [[]]], } }, { let c__: InferredGoal<DU, DE, Goal<DU, DE>> = proto_vulcan_closure!([|yy| { conde { [q == [yy | _], yy == 1], [q == [_, yy | _], yy == 2] } }, |z| { false, 1 == [], q != _ }]); let g__: Goal<DU, DE> = ::proto_vulcan::GoalCast::cast_into(c__); let r__: InferredGoal<DU, DE, Goal<DU, DE>> = proto_vulcan!([g__.clone(), g__]); r__ }])
}
pub fn case_581(vars: &Vars) -> InferredGoal<DU, DE, Goal<DU, DE>> {
    let q = vars.v[0].clone();
    let x = vars.v[1].clone();
    proto_vulcan!([matche x { [[1 | fresh_name_9]] => [matche fresh_name_9 { h => [[_, 1], [q, _, _ | h]] == h, }, |y, h| { [] }], 2 => { q == 3 }, }, |y| { conde { [], [[]] }, match q { [[[]], 2 | y] | [h] => [|y| { member(q, []), [true, 2, true] == x }, [[1], [q, q | false], [2]] != [[]]], } }, { let c__: InferredGoal<DU, DE, Goal<DU, DE>> = proto_vulcan_closure!([|yy| { conde { [q == [yy | _], yy == 1], [q == [_, yy | _], yy == 2] } }, |z| { false, 1 == [], q != _ }]); let g__: Goal<DU, DE> = ::proto_vulcan::GoalCast::cast_into(c__); let r__: InferredGoal<DU, DE, Goal<DU, DE>> = proto_vulcan!([g__.clone(), g__]); r__ }])
}
pub fn case_582(vars: &Vars) -> InferredGoal<DU, DE, Goal<DU, DE>> {
    let x = vars.v[0].clone();
    proto_vulcan!([append(x, x, []), match x { _ => [|tz| { tz == [3], [1, 3 | tz] != [1, 3, 3] }, []], _ => member(x, [1, 2, 3]), }, { let c__: InferredGoal<DU, DE, Goal<DU, DE>> = proto_vulcan_closure!([|yy| { conde { [x == [yy | _], yy == 1], [x == [_, yy | _], yy == 2] } }, append(x, x, [2, 1])]); let g__: Goal<DU, DE> = ::proto_vulcan::GoalCast::cast_into(c__); let r__: InferredGoal<DU, DE, Goal<DU, DE>> = proto_vulcan!([g__.clone(), g__]); r__ }])
}
pub fn case_583(vars: &Vars) -> InferredGoal<DU, DE, Goal<DU, DE>> {
    let x = vars.v[0].clone();
    proto_vulcan!([append(x, x, []), match x { _ => [|fresh_name_9| { fresh_name_9 == [3], [1, 3 | fresh_name_9] != [1, 3, 3] }, []], _ => member(x, [1, 2, 3]), }, { let c__: InferredGoal<DU, DE, Goal<DU, DE>> = proto_vulcan_closure!([|yy| { conde { [x == [yy | _], yy == 1], [x == [_, yy | _], yy == 2] } }, append(x, x, [2, 1])]); let g__: Goal<DU, DE> = ::proto_vulcan::GoalCast::cast_into(c__); let r__: InferredGoal<DU, DE, Goal<DU, DE>> = proto_vulcan!([g__.clone(), g__]); r__ }])
}
pub fn case_584(vars: &Vars) -> InferredGoal<DU, DE, Goal<DU, DE>> {
    let q = vars.v[0].clone();
    let x = vars.v[1].clone();
    proto_vulcan!([matche x { _ => { |y| { [P3([_], _, 2) != y, append(y, x, [3, 2]), y == [q, y, y | q]], [[false, q], [x, q, _]] == P3(q, 3, x) }, matche q { Named { a: [z, y], b: [] } => , [z, [3]] | P3(1, [t], y) => , 1 => , } }, [[3 | z]] => q == P3(x, [x, x], [3]), [y, ['b']] => , }])
}
pub fn case_585(vars: &Vars) -> InferredGoal<DU, DE, Goal<DU, DE>> {
    let q = vars.v[0].clone();
    let x = vars.v[1].clone();
    proto_vulcan!([matche x { _ => { |y| { [P3([_], _, 2) != y, append(y, x, [3, 2]), y == [q, y, y | q]], [[false, q], [x, q, _]] == P3(q, 3, x) }, matche q { Named { a: [z, y], b: [] } => , [z, [3]] | P3(1, [t], y) => , 1 => , } }, [[3 | z]] => q == P3(x, [x, x], [3]), [fresh_name_9, ['b']] => , }])
}
pub fn case_586(vars: &Vars) -> InferredGoal<DU, DE, Goal<DU, DE>> {
    let q = vars.v[0].clone();
    let x = vars.v[1].clone();
    proto_vulcan!([q == [], |tz| { [2, 3, 1] != [2 | tz], tz == [3, 1] }, |x| { x != [2, q], [1, 2] == x }])
}
pub fn case_587(vars: &Vars) -> InferredGoal<DU, DE, Goal<DU, DE>> {
    let q = vars.v[0].clone();
    let x = vars.v[1].clone();
    proto_vulcan!([q == [], |tz| { [2, 3, 1] != [2 | tz], tz == [3, 1] }, |fresh_name_9| { fresh_name_9 != [2, q], [1, 2] == fresh_name_9 }])
}
pub fn case_588(vars: &Vars) -> InferredGoal<DU, DE, Goal<DU, DE>> {
    let q = vars.v[0].clone();
    let x = vars.v[1].clone();
    proto_vulcan!([|z, y| { [true, |z| { [_, [x], [x, x, 2]] != z }], z == ([3, []], _) }, { let c__: InferredGoal<DU, DE, Goal<DU, DE>> = proto_vulcan_closure!([|yy| { conde { [x == [yy | _], yy == 1], [x == [_, yy | _], yy == 2] } }, |z, x| { [] == q, z == P3(2, 2, _) }]); let g__: Goal<DU, DE> = ::proto_vulcan::GoalCast::cast_into(c__); let r__: InferredGoal<DU, DE, Goal<DU, DE>> = proto_vulcan!([g__.clone(), g__]); r__ }])
}
pub fn case_589(vars: &Vars) -> InferredGoal<DU, DE, Goal<DU, DE>> {
    let q = vars.v[0].clone();
    let x = vars.v[1].clone();
    proto_vulcan!([|z, y| { [true, |z| { [_, [x], [x, x, 2]] != z }], z == ([3, []], _) }, { let c__: InferredGoal<DU, DE, Goal<DU, DE>> = proto_vulcan_closure!([|yy| { conde { [x == [yy | _], yy == 1], [x == [_, yy | _], yy == 2] } }, |z, fresh_name_9| { [] == q, z == P3(2, 2, _) }]); let g__: Goal<DU, DE> = ::proto_vulcan::GoalCast::cast_into(c__); let r__: InferredGoal<DU, DE, Goal<DU, DE>> = proto_vulcan!([g__.clone(), g__]); r__ }])
}
pub fn case_590(vars: &Vars) -> InferredGoal<DU, DE, Goal<DU, DE>> {
    let x = vars.v[0].clone();
    proto_vulcan!([[conde { [matche x { Named { a: _, b: [y] } | Named { a: y, b: h } => [y == [[2, _], [1 | x], y], append(x, x, [])], [[], [_ | z] | x] | [x, 1, [3]] => 'a' == x, }, [x, x, x] != x], [false, x != x], [|tz| { [1, 1] != [1 | tz], tz == [1] }, [x == [x | x], x == [x, 2, _], x == []]] }, x != [_, [false, _, 1 | x]], matche x { true => , 2 => { match x { [] | [[1, 2, h] | _] => , y => { y == "bc", _ == y }, }, conde { [true, [x | x] == [[1, 1, x], [x, 1]]] } }, _ => , }], match _ { Named { a: [], b: _ } => [match x { _ | _ => [[1], x | x] == x, [[y, z]] | [[y], [3 | _], [h | 'b']] => { (1, []) == y, conde { [], [3 == x, _ != y] } }, }, x == 3], Named { a: [], b: [] } => , }, [[2, x]] == x])
}
pub fn case_591(vars: &Vars) -> InferredGoal<DU, DE, Goal<DU, DE>> {
    let x = vars.v[0].clone();
    proto_vulcan!([[conde { [matche x { Named { a: _, b: [y] } | Named { a: y, b: h } => [y == [[2, _], [1 | x], y], append(x, x, [])], [[], [_ | z] | x] | [x, 1, [3]] => 'a' == x, }, [x, x, x] != x], [false, x != x], [|fresh_name_9| { [1, 1] != [1 | fresh_name_9], fresh_name_9 == [1] }, [x == [x | x], x == [x, 2, _], x == []]] }, x != [_, [false, _, 1 | x]], matche x { true => , 2 => { match x { [] | [[1, 2, h] | _] => , y => { y == "bc", _ == y }, }, conde { [true, [x | x] == [[1, 1, x], [x, 1]]] } }, _ => , }], match _ { Named { a: [], b: _ } => [match x { _ | _ => [[1], x | x] == x, [[y, z]] | [[y], [3 | _], [h | 'b']] => { (1, []) == y, conde { [], [3 == x, _ != y] } }, }, x == 3], Named { a: [], b: [] } => , }, [[2, x]] == x])
}
pub fn case_592(vars: &Vars) -> InferredGoal<DU, DE, Goal<DU, DE>> {
    let q = vars.v[0].clone();
    let x = vars.v[1].clone();
    proto_vulcan!([[] == q, |h| { x == [h], match q { 1 => [[1], ["a", "bc", q], []] == [true, 2], [true, [_, 1, z | x]] => , Named { a: 1, b: h } => { |x| {  }, false }, }, [] }, |z| { q == 1 }, closure { x == [_] }])
}
pub fn case_593(vars: &Vars) -> InferredGoal<DU, DE, Goal<DU, DE>> {
    let q = vars.v[0].clone();
    let x = vars.v[1].clone();
    proto_vulcan!([[] == q, |h| { x == [h], match q { 1 => [[1], ["a", "bc", q], []] == [true, 2], [true, [_, 1, z | x]] => , Named { a: 1, b: h } => { |fresh_name_9| {  }, false }, }, [] }, |z| { q == 1 }, closure { x == [_] }])
}
pub fn case_594(vars: &Vars) -> InferredGoal<DU, DE, Goal<DU, DE>> {
    let x = vars.v[0].clone();
    proto_vulcan!([matche x { 2 => [|x, t| { |t| { [_, 'a' | 1] == x, t == [t, 3 | 1], x == ['a'] }, [[x | x]] == x, |y| { _ == x, x != P3([[]], 1, _) } }, (x, 2) == ([2, 1], [_])], 'b' => [[x, [], "bc" | x] == (2, 3), matche x { t | [[3 | z]] => , _ => member(x, [1, 2, 3]), x => { x == [2, 1, _], [2 == [x, x, _]] }, }], 2 => [|h| { [], x == P3([3, h], [[], 1], []), [h == x] }, |h, t| { false, matche h { Named { a: y, b: x } => , }, |z| {  } }], }, x != [x]])
}
pub fn case_595(vars: &Vars) -> InferredGoal<DU, DE, Goal<DU, DE>> {
    let x = vars.v[0].clone();
    proto_vulcan!([matche x { 2 => [|fresh_name_9, t| { |t| { [_, 'a' | 1] == fresh_name_9, t == [t, 3 | 1], fresh_name_9 == ['a'] }, [[fresh_name_9 | fresh_name_9]] == fresh_name_9, |y| { _ == fresh_name_9, fresh_name_9 != P3([[]], 1, _) } }, (x, 2) == ([2, 1], [_])], 'b' => [[x, [], "bc" | x] == (2, 3), matche x { t | [[3 | z]] => , _ => member(x, [1, 2, 3]), x => { x == [2, 1, _], [2 == [x, x, _]] }, }], 2 => [|h| { [], x == P3([3, h], [[], 1], []), [h == x] }, |h, t| { false, matche h { Named { a: y, b: x } => , }, |z| {  } }], }, x != [x]])
}
pub fn case_596(vars: &Vars) -> InferredGoal<DU, DE, Goal<DU, DE>> {
    let q = vars.v[0].clone();
    let x = vars.v[1].clone();
    proto_vulcan!([|tz| { [3, 2 | tz] != [3, 2, 3, 3], tz == [3, 3] }, ([[]], [1]) == q, closure { [1, q, x] == 2 }])
}
pub fn case_597(vars: &Vars) -> InferredGoal<DU, DE, Goal<DU, DE>> {
    let q = vars.v[0].clone();
    let x = vars.v[1].clone();
    proto_vulcan!([|fresh_name_9| { [3, 2 | fresh_name_9] != [3, 2, 3, 3], fresh_name_9 == [3, 3] }, ([[]], [1]) == q, closure { [1, q, x] == 2 }])
}
pub fn case_598(vars: &Vars) -> InferredGoal<DU, DE, Goal<DU, DE>> {
    let x = vars.v[0].clone();
    proto_vulcan!([[[], ["a", "bc", _], [x, [], []]] != x, |z, x| { matche [1 | x] { "bc" => { |z, x| { false, z == [1 | z] }, match x { [[y, 3, x], ['b', y, []] | y] => , } }, z | _ => { |t, y| { P3(x, _, x) == t, x != x } }, } }, _ == [x]])
}
pub fn case_599(vars: &Vars) -> InferredGoal<DU, DE, Goal<DU, DE>> {
    let x = vars.v[0].clone();
    proto_vulcan!([[[], ["a", "bc", _], [x, [], []]] != x, |z, x| { matche [1 | x] { "bc" => { |z, x| { false, z == [1 | z] }, match x { [[y, 3, fresh_name_9], ['b', y, []] | y] => , } }, z | _ => { |t, y| { P3(x, _, x) == t, x != x } }, } }, _ == [x]])
}
pub fn case_600(vars: &Vars) -> InferredGoal<DU, DE, Goal<DU, DE>> {
    let x = vars.v[0].clone();
    let y = vars.v[1].clone();
    proto_vulcan!([|z, h| { [matche h { x => , [y, [2, 3, y] | t] | h => [member(z, [1, 2]), [_, x] == z], }, |tz| { [3, 2 | tz] != [3, 2, 3], tz == [3] }], z == z }, [] == x, |y, t| { matche x { [[t] | h] => , P3(z, _, z) => { conde { [true, [1] != z], [(3, [z]) != x, true] }, match x { "bc" => , } }, _ => , } }, closure { |h, x| { x == [[]], [[1], x | _] == 2, false } }])
}
pub fn case_601(vars: &Vars) -> InferredGoal<DU, DE, Goal<DU, DE>> {
    let x = vars.v[0].clone();
    let y = vars.v[1].clone();
    proto_vulcan!([|z, h| { [matche h { x => , [y, [2, 3, y] | t] | h => [member(z, [1, 2]), [_, x] == z], }, |tz| { [3, 2 | tz] != [3, 2, 3], tz == [3] }], z == z }, [] == x, |y, t| { matche x { [[t] | h] => , P3(fresh_name_9, _, fresh_name_9) => { conde { [true, [1] != fresh_name_9], [(3, [fresh_name_9]) != x, true] }, match x { "bc" => , } }, _ => , } }, closure { |h, x| { x == [[]], [[1], x | _] == 2, false } }])
}
pub fn case_602(vars: &Vars) -> InferredGoal<DU, DE, Goal<DU, DE>> {
    let x = vars.v[0].clone();
    proto_vulcan!([conde { [], [x == 2, [x] == x], true }, P3([], [], 2) == x, { let c__: InferredGoal<DU, DE, Goal<DU, DE>> = proto_vulcan_closure!(|yy| { conde { [x == [yy | _], yy == 1], [x == [_, yy | _], yy == 2] } }); let g__: Goal<DU, DE> = ::proto_vulcan::GoalCast::cast_into(c__); let r__: InferredGoal<DU, DE, Goal<DU, DE>> = proto_vulcan!([g__.clone(), g__]); r__ }])
}
pub fn case_603(vars: &Vars) -> InferredGoal<DU, DE, Goal<DU, DE>> {
    let x = vars.v[0].clone();
    proto_vulcan!([conde { [], [x == 2, [x] == x], true }, P3([], [], 2) == x, { let c__: InferredGoal<DU, DE, Goal<DU, DE>> = proto_vulcan_closure!(|fresh_name_9| { conde { [x == [fresh_name_9 | _], fresh_name_9 == 1], [x == [_, fresh_name_9 | _], fresh_name_9 == 2] } }); let g__: Goal<DU, DE> = ::proto_vulcan::GoalCast::cast_into(c__); let r__: InferredGoal<DU, DE, Goal<DU, DE>> = proto_vulcan!([g__.clone(), g__]); r__ }])
}
pub fn case_604(vars: &Vars) -> InferredGoal<DU, DE, Goal<DU, DE>> {
    let x = vars.v[0].clone();
    let y = vars.v[1].clone();
    proto_vulcan!([|h| { [[y == [2 | h], true != y]], |h| {  }, matche y { _ => [h == 7, h == 8], } }])
}
pub fn case_605(vars: &Vars) -> InferredGoal<DU, DE, Goal<DU, DE>> {
    let x = vars.v[0].clone();
    let y = vars.v[1].clone();
    proto_vulcan!([|h| { [[y == [2 | h], true != y]], |fresh_name_9| {  }, matche y { _ => [h == 7, h == 8], } }])
}
pub fn case_606(vars: &Vars) -> InferredGoal<DU, DE, Goal<DU, DE>> {
    let x = vars.v[0].clone();
    proto_vulcan!([matche "bc" { P3([], h, x) => , [] | _ => { matche x { [[], t] => , [2, [1 | y]] | _ => { match x { [[1, 3 | _], [], [z, _]] | Named { a: 3, b: 3 } => { x != [x, x | 1], x != [[2], [x, x, x]] }, Named { a: _, b: [_, t] } => { [[x], 1] == x, member(t, [2, 3]) }, }, [[x, 2 | x]] != [[x], [x, 3]] }, }, match [x, [] | x] { [t, [x, h] | y] => , [] => { conde { P3(x, 3, [[], 2]) == x, x == [["bc"], [x, x]] } }, } }, }, [x == x, |z| { x == [3, "bc", z | z], append(x, z, [1, 1]), member(x, [3, 3]) }, [|z, h| { _ == [[3, z], 2, [[], "bc"]] }, x == P3(2, 3, 2)]], [2 == x]])
}
pub fn case_607(vars: &Vars) -> InferredGoal<DU, DE, Goal<DU, DE>> {
    let x = vars.v[0].clone();
    proto_vulcan!([matche "bc" { P3([], h, x) => , [] | _ => { matche x { [[], t] => , [2, [1 | y]] | _ => { match x { [[1, 3 | _], [], [z, _]] | Named { a: 3, b: 3 } => { x != [x, x | 1], x != [[2], [x, x, x]] }, Named { a: _, b: [_, t] } => { [[x], 1] == x, member(t, [2, 3]) }, }, [[x, 2 | x]] != [[x], [x, 3]] }, }, match [x, [] | x] { [t, [x, h] | y] => , [] => { conde { P3(x, 3, [[], 2]) == x, x == [["bc"], [x, x]] } }, } }, }, [x == x, |z| { x == [3, "bc", z | z], append(x, z, [1, 1]), member(x, [3, 3]) }, [|z, fresh_name_9| { _ == [[3, z], 2, [[], "bc"]] }, x == P3(2, 3, 2)]], [2 == x]])
}
pub fn case_608(vars: &Vars) -> InferredGoal<DU, DE, Goal<DU, DE>> {
    let x = vars.v[0].clone();
    proto_vulcan!([|h, t| { (t, _) == h }, conde { [([x, x], _) != x, x != [1, 2, 3 | 'b']], [] }, closure { conde { [x] == x, 2 == [2, x], [|y| { member(y, [3, 2]), true }, true] } }])
}
pub fn case_609(vars: &Vars) -> InferredGoal<DU, DE, Goal<DU, DE>> {
    let x = vars.v[0].clone();
    proto_vulcan!([|fresh_name_9, t| { (t, _) == fresh_name_9 }, conde { [([x, x], _) != x, x != [1, 2, 3 | 'b']], [] }, closure { conde { [x] == x, 2 == [2, x], [|y| { member(y, [3, 2]), true }, true] } }])
}
pub fn case_610(vars: &Vars) -> InferredGoal<DU, DE, Goal<DU, DE>> {
    let x = vars.v[0].clone();
    proto_vulcan!([[3] == x, match x { [["a"], 3, [y, y]] => { member(x, [2, 3]), P3([2, _], y, y) != x }, [t, t, h] => [[t, ['a' | t]] == (1, t), |tz| { [1, 1, 1, 3] != [1, 1 | tz], tz == [1, 3] }], }, |tz| { [1, 2 | tz] != [1, 2, 3, 1], tz == [3, 1] }])
}
pub fn case_611(vars: &Vars) -> InferredGoal<DU, DE, Goal<DU, DE>> {
    let x = vars.v[0].clone();
    proto_vulcan!([[3] == x, match x { [["a"], 3, [y, y]] => { member(x, [2, 3]), P3([2, _], y, y) != x }, [t, t, h] => [[t, ['a' | t]] == (1, t), |fresh_name_9| { [1, 1, 1, 3] != [1, 1 | fresh_name_9], fresh_name_9 == [1, 3] }], }, |tz| { [1, 2 | tz] != [1, 2, 3, 1], tz == [3, 1] }])
}
pub fn case_612(vars: &Vars) -> InferredGoal<DU, DE, Goal<DU, DE>> {
    let x = vars.v[0].clone();
    proto_vulcan!([member(x, [1, 1]), 2 != [2], [|tz| { [1, 3 | tz] != [1, 3, 2, 2], tz == [2, 2] }, [x, x | x] == x]])
}
pub fn case_613(vars: &Vars) -> InferredGoal<DU, DE, Goal<DU, DE>> {
    let x = vars.v[0].clone();
    proto_vulcan!([member(x, [1, 1]), 2 != [2], [|fresh_name_9| { [1, 3 | fresh_name_9] != [1, 3, 2, 2], fresh_name_9 == [2, 2] }, [x, x | x] == x]])
}
pub fn case_614(vars: &Vars) -> InferredGoal<DU, DE, Goal<DU, DE>> {
    let x = vars.v[0].clone();
    let y = vars.v[1].clone();
    proto_vulcan!([|x| { match [x, 1, "bc"] { P3([3, []], _, [_]) | _ => { [|tz| { tz == [1], [1, 1 | tz] != [1, 1, 1] }] }, }, conde { |z| { append(x, x, [2]) }, [true, [] == x] } }])
}
pub fn case_615(vars: &Vars) -> InferredGoal<DU, DE, Goal<DU, DE>> {
    let x = vars.v[0].clone();
    let y = vars.v[1].clone();
    proto_vulcan!([|x| { match [x, 1, "bc"] { P3([3, []], _, [_]) | _ => { [|fresh_name_9| { fresh_name_9 == [1], [1, 1 | fresh_name_9] != [1, 1, 1] }] }, }, conde { |z| { append(x, x, [2]) }, [true, [] == x] } }])
}
pub fn case_616(vars: &Vars) -> InferredGoal<DU, DE, Goal<DU, DE>> {
    let x = vars.v[0].clone();
    proto_vulcan!([[], |h, t| { conde { append(x, t, [3]) }, _ == h, P3([[]], 3, 3) != x }])
}
pub fn case_617(vars: &Vars) -> InferredGoal<DU, DE, Goal<DU, DE>> {
    let x = vars.v[0].clone();
    proto_vulcan!([[], |h, fresh_name_9| { conde { append(x, fresh_name_9, [3]) }, _ == h, P3([[]], 3, 3) != x }])
}
pub const NCASES: usize = 618;
pub fn case(i: usize, vars: &Vars) -> Goal<DU, DE> {
    match i {
        0 => case_0(vars).goal,
        1 => case_1(vars).goal,
        2 => case_2(vars).goal,
        3 => case_3(vars).goal,
        4 => case_4(vars).goal,
        5 => case_5(vars).goal,
        6 => case_6(vars).goal,
        7 => case_7(vars).goal,
        8 => case_8(vars).goal,
        9 => case_9(vars).goal,
        10 => case_10(vars).goal,
        11 => case_11(vars).goal,
        12 => case_12(vars).goal,
        13 => case_13(vars).goal,
        14 => case_14(vars).goal,
        15 => case_15(vars).goal,
        16 => case_16(vars).goal,
        17 => case_17(vars).goal,
        18 => case_18(vars).goal,
        19 => case_19(vars).goal,
        20 => case_20(vars).goal,
        21 => case_21(vars).goal,
        22 => case_22(vars).goal,
        23 => case_23(vars).goal,
        24 => case_24(vars).goal,
        25 => case_25(vars).goal,
        26 => case_26(vars).goal,
        27 => case_27(vars).goal,
        28 => case_28(vars).goal,
        29 => case_29(vars).goal,
        30 => case_30(vars).goal,
        31 => case_31(vars).goal,
        32 => case_32(vars).goal,
        33 => case_33(vars).goal,
        34 => case_34(vars).goal,
        35 => case_35(vars).goal,
        36 => case_36(vars).goal,
        37 => case_37(vars).goal,
        38 => case_38(vars).goal,
        39 => case_39(vars).goal,
        40 => case_40(vars).goal,
        41 => case_41(vars).goal,
        42 => case_42(vars).goal,
        43 => case_43(vars).goal,
        44 => case_44(vars).goal,
        45 => case_45(vars).goal,
        46 => case_46(vars).goal,
        47 => case_47(vars).goal,
        48 => case_48(vars).goal,
        49 => case_49(vars).goal,
        50 => case_50(vars).goal,
        51 => case_51(vars).goal,
        52 => case_52(vars).goal,
        53 => case_53(vars).goal,
        54 => case_54(vars).goal,
        55 => case_55(vars).goal,
        56 => case_56(vars).goal,
        57 => case_57(vars).goal,
        58 => case_58(vars).goal,
        59 => case_59(vars).goal,
        60 => case_60(vars).goal,
        61 => case_61(vars).goal,
        62 => case_62(vars).goal,
        63 => case_63(vars).goal,
        64 => case_64(vars).goal,
        65 => case_65(vars).goal,
        66 => case_66(vars).goal,
        67 => case_67(vars).goal,
        68 => case_68(vars).goal,
        69 => case_69(vars).goal,
        70 => case_70(vars).goal,
        71 => case_71(vars).goal,
        72 => case_72(vars).goal,
        73 => case_73(vars).goal,
        74 => case_74(vars).goal,
        75 => case_75(vars).goal,
        76 => case_76(vars).goal,
        77 => case_77(vars).goal,
        78 => case_78(vars).goal,
        79 => case_79(vars).goal,
        80 => case_80(vars).goal,
        81 => case_81(vars).goal,
        82 => case_82(vars).goal,
        83 => case_83(vars).goal,
        84 => case_84(vars).goal,
        85 => case_85(vars).goal,
        86 => case_86(vars).goal,
        87 => case_87(vars).goal,
        88 => case_88(vars).goal,
        89 => case_89(vars).goal,
        90 => case_90(vars).goal,
        91 => case_91(vars).goal,
        92 => case_92(vars).goal,
        93 => case_93(vars).goal,
        94 => case_94(vars).goal,
        95 => case_95(vars).goal,
        96 => case_96(vars).goal,
        97 => case_97(vars).goal,
        98 => case_98(vars).goal,
        99 => case_99(vars).goal,
        100 => case_100(vars).goal,
        101 => case_101(vars).goal,
        102 => case_102(vars).goal,
        103 => case_103(vars).goal,
        104 => case_104(vars).goal,
        105 => case_105(vars).goal,
        106 => case_106(vars).goal,
        107 => case_107(vars).goal,
        108 => case_108(vars).goal,
        109 => case_109(vars).goal,
        110 => case_110(vars).goal,
        111 => case_111(vars).goal,
        112 => case_112(vars).goal,
        113 => case_113(vars).goal,
        114 => case_114(vars).goal,
        115 => case_115(vars).goal,
        116 => case_116(vars).goal,
        117 => case_117(vars).goal,
        118 => case_118(vars).goal,
        119 => case_119(vars).goal,
        120 => case_120(vars).goal,
        121 => case_121(vars).goal,
        122 => case_122(vars).goal,
        123 => case_123(vars).goal,
        124 => case_124(vars).goal,
        125 => case_125(vars).goal,
        126 => case_126(vars).goal,
        127 => case_127(vars).goal,
        128 => case_128(vars).goal,
        129 => case_129(vars).goal,
        130 => case_130(vars).goal,
        131 => case_131(vars).goal,
        132 => case_132(vars).goal,
        133 => case_133(vars).goal,
        134 => case_134(vars).goal,
        135 => case_135(vars).goal,
        136 => case_136(vars).goal,
        137 => case_137(vars).goal,
        138 => case_138(vars).goal,
        139 => case_139(vars).goal,
        140 => case_140(vars).goal,
        141 => case_141(vars).goal,
        142 => case_142(vars).goal,
        143 => case_143(vars).goal,
        144 => case_144(vars).goal,
        145 => case_145(vars).goal,
        146 => case_146(vars).goal,
        147 => case_147(vars).goal,
        148 => case_148(vars).goal,
        149 => case_149(vars).goal,
        150 => case_150(vars).goal,
        151 => case_151(vars).goal,
        152 => case_152(vars).goal,
        153 => case_153(vars).goal,
        154 => case_154(vars).goal,
        155 => case_155(vars).goal,
        156 => case_156(vars).goal,
        157 => case_157(vars).goal,
        158 => case_158(vars).goal,
        159 => case_159(vars).goal,
        160 => case_160(vars).goal,
        161 => case_161(vars).goal,
        162 => case_162(vars).goal,
        163 => case_163(vars).goal,
        164 => case_164(vars).goal,
        165 => case_165(vars).goal,
        166 => case_166(vars).goal,
        167 => case_167(vars).goal,
        168 => case_168(vars).goal,
        169 => case_169(vars).goal,
        170 => case_170(vars).goal,
        171 => case_171(vars).goal,
        172 => case_172(vars).goal,
        173 => case_173(vars).goal,
        174 => case_174(vars).goal,
        175 => case_175(vars).goal,
        176 => case_176(vars).goal,
        177 => case_177(vars).goal,
        178 => case_178(vars).goal,
        179 => case_179(vars).goal,
        180 => case_180(vars).goal,
        181 => case_181(vars).goal,
        182 => case_182(vars).goal,
        183 => case_183(vars).goal,
        184 => case_184(vars).goal,
        185 => case_185(vars).goal,
        186 => case_186(vars).goal,
        187 => case_187(vars).goal,
        188 => case_188(vars).goal,
        189 => case_189(vars).goal,
        190 => case_190(vars).goal,
        191 => case_191(vars).goal,
        192 => case_192(vars).goal,
        193 => case_193(vars).goal,
        194 => case_194(vars).goal,
        195 => case_195(vars).goal,
        196 => case_196(vars).goal,
        197 => case_197(vars).goal,
        198 => case_198(vars).goal,
        199 => case_199(vars).goal,
        200 => case_200(vars).goal,
        201 => case_201(vars).goal,
        202 => case_202(vars).goal,
        203 => case_203(vars).goal,
        204 => case_204(vars).goal,
        205 => case_205(vars).goal,
        206 => case_206(vars).goal,
        207 => case_207(vars).goal,
        208 => case_208(vars).goal,
        209 => case_209(vars).goal,
        210 => case_210(vars).goal,
        211 => case_211(vars).goal,
        212 => case_212(vars).goal,
        213 => case_213(vars).goal,
        214 => case_214(vars).goal,
        215 => case_215(vars).goal,
        216 => case_216(vars).goal,
        217 => case_217(vars).goal,
        218 => case_218(vars).goal,
        219 => case_219(vars).goal,
        220 => case_220(vars).goal,
        221 => case_221(vars).goal,
        222 => case_222(vars).goal,
        223 => case_223(vars).goal,
        224 => case_224(vars).goal,
        225 => case_225(vars).goal,
        226 => case_226(vars).goal,
        227 => case_227(vars).goal,
        228 => case_228(vars).goal,
        229 => case_229(vars).goal,
        230 => case_230(vars).goal,
        231 => case_231(vars).goal,
        232 => case_232(vars).goal,
        233 => case_233(vars).goal,
        234 => case_234(vars).goal,
        235 => case_235(vars).goal,
        236 => case_236(vars).goal,
        237 => case_237(vars).goal,
        238 => case_238(vars).goal,
        239 => case_239(vars).goal,
        240 => case_240(vars).goal,
        241 => case_241(vars).goal,
        242 => case_242(vars).goal,
        243 => case_243(vars).goal,
        244 => case_244(vars).goal,
        245 => case_245(vars).goal,
        246 => case_246(vars).goal,
        247 => case_247(vars).goal,
        248 => case_248(vars).goal,
        249 => case_249(vars).goal,
        250 => case_250(vars).goal,
        251 => case_251(vars).goal,
        252 => case_252(vars).goal,
        253 => case_253(vars).goal,
        254 => case_254(vars).goal,
        255 => case_255(vars).goal,
        256 => case_256(vars).goal,
        257 => case_257(vars).goal,
        258 => case_258(vars).goal,
        259 => case_259(vars).goal,
        260 => case_260(vars).goal,
        261 => case_261(vars).goal,
        262 => case_262(vars).goal,
        263 => case_263(vars).goal,
        264 => case_264(vars).goal,
        265 => case_265(vars).goal,
        266 => case_266(vars).goal,
        267 => case_267(vars).goal,
        268 => case_268(vars).goal,
        269 => case_269(vars).goal,
        270 => case_270(vars).goal,
        271 => case_271(vars).goal,
        272 => case_272(vars).goal,
        273 => case_273(vars).goal,
        274 => case_274(vars).goal,
        275 => case_275(vars).goal,
        276 => case_276(vars).goal,
        277 => case_277(vars).goal,
        278 => case_278(vars).goal,
        279 => case_279(vars).goal,
        280 => case_280(vars).goal,
        281 => case_281(vars).goal,
        282 => case_282(vars).goal,
        283 => case_283(vars).goal,
        284 => case_284(vars).goal,
        285 => case_285(vars).goal,
        286 => case_286(vars).goal,
        287 => case_287(vars).goal,
        288 => case_288(vars).goal,
        289 => case_289(vars).goal,
        290 => case_290(vars).goal,
        291 => case_291(vars).goal,
        292 => case_292(vars).goal,
        293 => case_293(vars).goal,
        294 => case_294(vars).goal,
        295 => case_295(vars).goal,
        296 => case_296(vars).goal,
        297 => case_297(vars).goal,
        298 => case_298(vars).goal,
        299 => case_299(vars).goal,
        300 => case_300(vars).goal,
        301 => case_301(vars).goal,
        302 => case_302(vars).goal,
        303 => case_303(vars).goal,
        304 => case_304(vars).goal,
        305 => case_305(vars).goal,
        306 => case_306(vars).goal,
        307 => case_307(vars).goal,
        308 => case_308(vars).goal,
        309 => case_309(vars).goal,
        310 => case_310(vars).goal,
        311 => case_311(vars).goal,
        312 => case_312(vars).goal,
        313 => case_313(vars).goal,
        314 => case_314(vars).goal,
        315 => case_315(vars).goal,
        316 => case_316(vars).goal,
        317 => case_317(vars).goal,
        318 => case_318(vars).goal,
        319 => case_319(vars).goal,
        320 => case_320(vars).goal,
        321 => case_321(vars).goal,
        322 => case_322(vars).goal,
        323 => case_323(vars).goal,
        324 => case_324(vars).goal,
        325 => case_325(vars).goal,
        326 => case_326(vars).goal,
        327 => case_327(vars).goal,
        328 => case_328(vars).goal,
        329 => case_329(vars).goal,
        330 => case_330(vars).goal,
        331 => case_331(vars).goal,
        332 => case_332(vars).goal,
        333 => case_333(vars).goal,
        334 => case_334(vars).goal,
        335 => case_335(vars).goal,
        336 => case_336(vars).goal,
        337 => case_337(vars).goal,
        338 => case_338(vars).goal,
        339 => case_339(vars).goal,
        340 => case_340(vars).goal,
        341 => case_341(vars).goal,
        342 => case_342(vars).goal,
        343 => case_343(vars).goal,
        344 => case_344(vars).goal,
        345 => case_345(vars).goal,
        346 => case_346(vars).goal,
        347 => case_347(vars).goal,
        348 => case_348(vars).goal,
        349 => case_349(vars).goal,
        350 => case_350(vars).goal,
        351 => case_351(vars).goal,
        352 => case_352(vars).goal,
        353 => case_353(vars).goal,
        354 => case_354(vars).goal,
        355 => case_355(vars).goal,
        356 => case_356(vars).goal,
        357 => case_357(vars).goal,
        358 => case_358(vars).goal,
        359 => case_359(vars).goal,
        360 => case_360(vars).goal,
        361 => case_361(vars).goal,
        362 => case_362(vars).goal,
        363 => case_363(vars).goal,
        364 => case_364(vars).goal,
        365 => case_365(vars).goal,
        366 => case_366(vars).goal,
        367 => case_367(vars).goal,
        368 => case_368(vars).goal,
        369 => case_369(vars).goal,
        370 => case_370(vars).goal,
        371 => case_371(vars).goal,
        372 => case_372(vars).goal,
        373 => case_373(vars).goal,
        374 => case_374(vars).goal,
        375 => case_375(vars).goal,
        376 => case_376(vars).goal,
        377 => case_377(vars).goal,
        378 => case_378(vars).goal,
        379 => case_379(vars).goal,
        380 => case_380(vars).goal,
        381 => case_381(vars).goal,
        382 => case_382(vars).goal,
        383 => case_383(vars).goal,
        384 => case_384(vars).goal,
        385 => case_385(vars).goal,
        386 => case_386(vars).goal,
        387 => case_387(vars).goal,
        388 => case_388(vars).goal,
        389 => case_389(vars).goal,
        390 => case_390(vars).goal,
        391 => case_391(vars).goal,
        392 => case_392(vars).goal,
        393 => case_393(vars).goal,
        394 => case_394(vars).goal,
        395 => case_395(vars).goal,
        396 => case_396(vars).goal,
        397 => case_397(vars).goal,
        398 => case_398(vars).goal,
        399 => case_399(vars).goal,
        400 => case_400(vars).goal,
        401 => case_401(vars).goal,
        402 => case_402(vars).goal,
        403 => case_403(vars).goal,
        404 => case_404(vars).goal,
        405 => case_405(vars).goal,
        406 => case_406(vars).goal,
        407 => case_407(vars).goal,
        408 => case_408(vars).goal,
        409 => case_409(vars).goal,
        410 => case_410(vars).goal,
        411 => case_411(vars).goal,
        412 => case_412(vars).goal,
        413 => case_413(vars).goal,
        414 => case_414(vars).goal,
        415 => case_415(vars).goal,
        416 => case_416(vars).goal,
        417 => case_417(vars).goal,
        418 => case_418(vars).goal,
        419 => case_419(vars).goal,
        420 => case_420(vars).goal,
        421 => case_421(vars).goal,
        422 => case_422(vars).goal,
        423 => case_423(vars).goal,
        424 => case_424(vars).goal,
        425 => case_425(vars).goal,
        426 => case_426(vars).goal,
        427 => case_427(vars).goal,
        428 => case_428(vars).goal,
        429 => case_429(vars).goal,
        430 => case_430(vars).goal,
        431 => case_431(vars).goal,
        432 => case_432(vars).goal,
        433 => case_433(vars).goal,
        434 => case_434(vars).goal,
        435 => case_435(vars).goal,
        436 => case_436(vars).goal,
        437 => case_437(vars).goal,
        438 => case_438(vars).goal,
        439 => case_439(vars).goal,
        440 => case_440(vars).goal,
        441 => case_441(vars).goal,
        442 => case_442(vars).goal,
        443 => case_443(vars).goal,
        444 => case_444(vars).goal,
        445 => case_445(vars).goal,
        446 => case_446(vars).goal,
        447 => case_447(vars).goal,
        448 => case_448(vars).goal,
        449 => case_449(vars).goal,
        450 => case_450(vars).goal,
        451 => case_451(vars).goal,
        452 => case_452(vars).goal,
        453 => case_453(vars).goal,
        454 => case_454(vars).goal,
        455 => case_455(vars).goal,
        456 => case_456(vars).goal,
        457 => case_457(vars).goal,
        458 => case_458(vars).goal,
        459 => case_459(vars).goal,
        460 => case_460(vars).goal,
        461 => case_461(vars).goal,
        462 => case_462(vars).goal,
        463 => case_463(vars).goal,
        464 => case_464(vars).goal,
        465 => case_465(vars).goal,
        466 => case_466(vars).goal,
        467 => case_467(vars).goal,
        468 => case_468(vars).goal,
        469 => case_469(vars).goal,
        470 => case_470(vars).goal,
        471 => case_471(vars).goal,
        472 => case_472(vars).goal,
        473 => case_473(vars).goal,
        474 => case_474(vars).goal,
        475 => case_475(vars).goal,
        476 => case_476(vars).goal,
        477 => case_477(vars).goal,
        478 => case_478(vars).goal,
        479 => case_479(vars).goal,
        480 => case_480(vars).goal,
        481 => case_481(vars).goal,
        482 => case_482(vars).goal,
        483 => case_483(vars).goal,
        484 => case_484(vars).goal,
        485 => case_485(vars).goal,
        486 => case_486(vars).goal,
        487 => case_487(vars).goal,
        488 => case_488(vars).goal,
        489 => case_489(vars).goal,
        490 => case_490(vars).goal,
        491 => case_491(vars).goal,
        492 => case_492(vars).goal,
        493 => case_493(vars).goal,
        494 => case_494(vars).goal,
        495 => case_495(vars).goal,
        496 => case_496(vars).goal,
        497 => case_497(vars).goal,
        498 => case_498(vars).goal,
        499 => case_499(vars).goal,
        500 => case_500(vars).goal,
        501 => case_501(vars).goal,
        502 => case_502(vars).goal,
        503 => case_503(vars).goal,
        504 => case_504(vars).goal,
        505 => case_505(vars).goal,
        506 => case_506(vars).goal,
        507 => case_507(vars).goal,
        508 => case_508(vars).goal,
        509 => case_509(vars).goal,
        510 => case_510(vars).goal,
        511 => case_511(vars).goal,
        512 => case_512(vars).goal,
        513 => case_513(vars).goal,
        514 => case_514(vars).goal,
        515 => case_515(vars).goal,
        516 => case_516(vars).goal,
        517 => case_517(vars).goal,
        518 => case_518(vars).goal,
        519 => case_519(vars).goal,
        520 => case_520(vars).goal,
        521 => case_521(vars).goal,
        522 => case_522(vars).goal,
        523 => case_523(vars).goal,
        524 => case_524(vars).goal,
        525 => case_525(vars).goal,
        526 => case_526(vars).goal,
        527 => case_527(vars).goal,
        528 => case_528(vars).goal,
        529 => case_529(vars).goal,
        530 => case_530(vars).goal,
        531 => case_531(vars).goal,
        532 => case_532(vars).goal,
        533 => case_533(vars).goal,
        534 => case_534(vars).goal,
        535 => case_535(vars).goal,
        536 => case_536(vars).goal,
        537 => case_537(vars).goal,
        538 => case_538(vars).goal,
        539 => case_539(vars).goal,
        540 => case_540(vars).goal,
        541 => case_541(vars).goal,
        542 => case_542(vars).goal,
        543 => case_543(vars).goal,
        544 => case_544(vars).goal,
        545 => case_545(vars).goal,
        546 => case_546(vars).goal,
        547 => case_547(vars).goal,
        548 => case_548(vars).goal,
        549 => case_549(vars).goal,
        550 => case_550(vars).goal,
        551 => case_551(vars).goal,
        552 => case_552(vars).goal,
        553 => case_553(vars).goal,
        554 => case_554(vars).goal,
        555 => case_555(vars).goal,
        556 => case_556(vars).goal,
        557 => case_557(vars).goal,
        558 => case_558(vars).goal,
        559 => case_559(vars).goal,
        560 => case_560(vars).goal,
        561 => case_561(vars).goal,
        562 => case_562(vars).goal,
        563 => case_563(vars).goal,
        564 => case_564(vars).goal,
        565 => case_565(vars).goal,
        566 => case_566(vars).goal,
        567 => case_567(vars).goal,
        568 => case_568(vars).goal,
        569 => case_569(vars).goal,
        570 => case_570(vars).goal,
        571 => case_571(vars).goal,
        572 => case_572(vars).goal,
        573 => case_573(vars).goal,
        574 => case_574(vars).goal,
        575 => case_575(vars).goal,
        576 => case_576(vars).goal,
        577 => case_577(vars).goal,
        578 => case_578(vars).goal,
        579 => case_579(vars).goal,
        580 => case_580(vars).goal,
        581 => case_581(vars).goal,
        582 => case_582(vars).goal,
        583 => case_583(vars).goal,
        584 => case_584(vars).goal,
        585 => case_585(vars).goal,
        586 => case_586(vars).goal,
        587 => case_587(vars).goal,
        588 => case_588(vars).goal,
        589 => case_589(vars).goal,
        590 => case_590(vars).goal,
        591 => case_591(vars).goal,
        592 => case_592(vars).goal,
        593 => case_593(vars).goal,
        594 => case_594(vars).goal,
        595 => case_595(vars).goal,
        596 => case_596(vars).goal,
        597 => case_597(vars).goal,
        598 => case_598(vars).goal,
        599 => case_599(vars).goal,
        600 => case_600(vars).goal,
        601 => case_601(vars).goal,
        602 => case_602(vars).goal,
        603 => case_603(vars).goal,
        604 => case_604(vars).goal,
        605 => case_605(vars).goal,
        606 => case_606(vars).goal,
        607 => case_607(vars).goal,
        608 => case_608(vars).goal,
        609 => case_609(vars).goal,
        610 => case_610(vars).goal,
        611 => case_611(vars).goal,
        612 => case_612(vars).goal,
        613 => case_613(vars).goal,
        614 => case_614(vars).goal,
        615 => case_615(vars).goal,
        616 => case_616(vars).goal,
        617 => case_617(vars).goal,
        _ => unreachable!(),
    }
}
