pub fn case_0(vars: &Vars) -> InferredGoal<DU, DE, Goal<DU, DE>> {
    let qa = vars.v[0].clone();
    let qb = vars.v[1].clone();
    let coll0: LT = LT::from_vec(vec![lterm!(2), lterm!([2]), lterm!([1])]);
    proto_vulcan!([for e in &coll0 { |x| { [[3 | qa] | qb] == 3, [true, _] != qb, x == 1 } }])
}
pub fn case_1(vars: &Vars) -> InferredGoal<DU, DE, Goal<DU, DE>> {
    let qa = vars.v[0].clone();
    let qb = vars.v[1].clone();
    let coll0: Vec<LT> = vec![lterm!([2]), lterm!(2)];
    proto_vulcan!([|t| { [t, []] == qb, qb == _ }, for e in &coll0 { append(qb, qa, [3, 3]) }])
}
pub fn case_2(vars: &Vars) -> InferredGoal<DU, DE, Goal<DU, DE>> {
    let qa = vars.v[0].clone();
    let qb = vars.v[1].clone();
    let coll0: Vec<LT> = vec![lterm!(3), lterm!(2)];
    proto_vulcan!([for e in &coll0 { member(qa, [1]), |h| { h == [1, 1, []], _ != [[false, []], [3, e, _], 3] } }])
}
pub fn case_3(vars: &Vars) -> InferredGoal<DU, DE, Goal<DU, DE>> {
    let qa = vars.v[0].clone();
    let qb = vars.v[1].clone();
    let coll0: LT = LT::from_vec(vec![lterm!(1)]);
    proto_vulcan!([for e in &coll0 { 3 != [[1], 1, [[], [], 3 | e] | _] }])
}
pub fn case_4(vars: &Vars) -> InferredGoal<DU, DE, Goal<DU, DE>> {
    let qa = vars.v[0].clone();
    let qb = vars.v[1].clone();
    let coll0: Vec<LT> = vec![];
    proto_vulcan!([qb == [_, 1 | qb], for e in &coll0 { |z| { z == qb, false, qb != qa } }])
}
pub fn case_5(vars: &Vars) -> InferredGoal<DU, DE, Goal<DU, DE>> {
    let qa = vars.v[0].clone();
    let qb = vars.v[1].clone();
    let coll0: LT = LT::from_vec(vec![lterm!(3)]);
    proto_vulcan!([for e in &coll0 { |z, x| { false, [2, z] != [[3, qb, [] | qb], qb, [qb, x, 'b']] }, qb == [2, 2] }])
}
pub fn case_6(vars: &Vars) -> InferredGoal<DU, DE, Goal<DU, DE>> {
    let qa = vars.v[0].clone();
    let qb = vars.v[1].clone();
    let coll0: Vec<LT> = vec![];
    proto_vulcan!([|tz| { [2, 2, 2] != [2, 2 | tz], tz == [2] }, for e in &coll0 { qb == [1, 3], _ == [[qb, _, qb], qb, e] }])
}
pub fn case_7(vars: &Vars) -> InferredGoal<DU, DE, Goal<DU, DE>> {
    let qa = vars.v[0].clone();
    let qb = vars.v[1].clone();
    let coll0: LT = LT::from_vec(vec![lterm!(3)]);
    proto_vulcan!([for e in &coll0 { ["a", e | qa] == [2, [e, [], []]] }])
}
pub fn case_8(vars: &Vars) -> InferredGoal<DU, DE, Goal<DU, DE>> {
    let qa = vars.v[0].clone();
    let qb = vars.v[1].clone();
    let coll0: LT = LT::from_vec(vec![lterm!(3), lterm!(3), qa.clone()]);
    proto_vulcan!([for e in &coll0 { member(qa, [3, 1, 1]), [3, false | _] == e }])
}
pub fn case_9(vars: &Vars) -> InferredGoal<DU, DE, Goal<DU, DE>> {
    let qa = vars.v[0].clone();
    let qb = vars.v[1].clone();
    let coll0: LT = LT::from_vec(vec![qb.clone(), lterm!(3), lterm!(1)]);
    proto_vulcan!([[append(qb, qb, [1, 2]), |tz| { tz == [2, 3], [1 | tz] != [1, 2, 3] }, qb == [1, qb, []]], for e in &coll0 { 'b' == [["bc" | _], [e, e] | qb], |t| { [2, [e]] == [3, "a", [] | e], [e, [_, e] | t] == false } }])
}
pub fn case_10(vars: &Vars) -> InferredGoal<DU, DE, Goal<DU, DE>> {
    let qa = vars.v[0].clone();
    let qb = vars.v[1].clone();
    let coll0: Vec<LT> = vec![lterm!(3), lterm!(3)];
    proto_vulcan!([for e in &coll0 { conde { [qa == [2, _, []], e == [[qa, 2, qb], []]], [e == e, qa == [qb, false, 1]] } }])
}
pub fn case_11(vars: &Vars) -> InferredGoal<DU, DE, Goal<DU, DE>> {
    let qa = vars.v[0].clone();
    let qb = vars.v[1].clone();
    let coll0: LT = LT::from_vec(vec![lterm!(2)]);
    proto_vulcan!([for e in &coll0 { e == [2, 1, [] | 1] }])
}
pub fn case_12(vars: &Vars) -> InferredGoal<DU, DE, Goal<DU, DE>> {
    let qa = vars.v[0].clone();
    let qb = vars.v[1].clone();
    let coll0: Vec<LT> = vec![lterm!([1]), qb.clone()];
    proto_vulcan!([conde { [qa == [1], qa == [qb]] }, for e in &coll0 { |t| { [qb | qa] == t, true } }])
}
pub fn case_13(vars: &Vars) -> InferredGoal<DU, DE, Goal<DU, DE>> {
    let qa = vars.v[0].clone();
    let qb = vars.v[1].clone();
    let coll0: Vec<LT> = vec![lterm!(2), lterm!(1)];
    proto_vulcan!([|y| { append(qb, qa, [2]), [qb] == qb }, for e in &coll0 { qb == qb }])
}
pub fn case_14(vars: &Vars) -> InferredGoal<DU, DE, Goal<DU, DE>> {
    let qa = vars.v[0].clone();
    let qb = vars.v[1].clone();
    let coll0: Vec<LT> = vec![];
    proto_vulcan!([[], for e in &coll0 { qa == qa }])
}
pub fn case_15(vars: &Vars) -> InferredGoal<DU, DE, Goal<DU, DE>> {
    let qa = vars.v[0].clone();
    let qb = vars.v[1].clone();
    let coll0: Vec<LT> = vec![lterm!(2), qa.clone()];
    proto_vulcan!([for e in &coll0 { |y| { [2, []] == qb, y != 'a' } }])
}
pub fn case_16(vars: &Vars) -> InferredGoal<DU, DE, Goal<DU, DE>> {
    let qa = vars.v[0].clone();
    let qb = vars.v[1].clone();
    let coll0: Vec<LT> = vec![];
    proto_vulcan!([for e in &coll0 { |x, t| { e == [3, t], [[2], [] | x] != t, member(qa, []) } }])
}
pub fn case_17(vars: &Vars) -> InferredGoal<DU, DE, Goal<DU, DE>> {
    let qa = vars.v[0].clone();
    let qb = vars.v[1].clone();
    let coll0: LT = LT::from_vec(vec![qa.clone()]);
    proto_vulcan!([for e in &coll0 { |z| { [[1], [qb | qb], [e]] == [qa, 2] } }])
}
pub fn case_18(vars: &Vars) -> InferredGoal<DU, DE, Goal<DU, DE>> {
    let qa = vars.v[0].clone();
    let qb = vars.v[1].clone();
    let coll0: Vec<LT> = vec![qa.clone(), qb.clone()];
    proto_vulcan!([for e in &coll0 { qb == [[qa, 2 | qb]] }])
}
pub fn case_19(vars: &Vars) -> InferredGoal<DU, DE, Goal<DU, DE>> {
    let qa = vars.v[0].clone();
    let qb = vars.v[1].clone();
    let coll0: Vec<LT> = vec![lterm!(2), lterm!(3)];
    proto_vulcan!([for e in &coll0 { [e == [qa, qb, qb], qb != e, [e, 1] == e] }])
}
pub fn case_20(vars: &Vars) -> InferredGoal<DU, DE, Goal<DU, DE>> {
    let qa = vars.v[0].clone();
    let qb = vars.v[1].clone();
    let coll0: Vec<LT> = vec![];
    proto_vulcan!(["bc" == qb, for e in &coll0 { conde { [qb | e] != qb, false } }])
}
pub fn case_21(vars: &Vars) -> InferredGoal<DU, DE, Goal<DU, DE>> {
    let qa = vars.v[0].clone();
    let qb = vars.v[1].clone();
    let coll0: Vec<LT> = vec![lterm!([2]), qa.clone()];
    proto_vulcan!([for e in &coll0 { qa == [[], e, qa], _ == e }])
}
pub fn case_22(vars: &Vars) -> InferredGoal<DU, DE, Goal<DU, DE>> {
    let qa = vars.v[0].clone();
    let qb = vars.v[1].clone();
    let coll0: Vec<LT> = vec![];
    proto_vulcan!([for e in &coll0 { [_] == qa }])
}
pub fn case_23(vars: &Vars) -> InferredGoal<DU, DE, Goal<DU, DE>> {
    let qa = vars.v[0].clone();
    let qb = vars.v[1].clone();
    let coll0: Vec<LT> = vec![lterm!(3), lterm!(1)];
    proto_vulcan!([1 != qb, for e in &coll0 { |y| { e != [y] } }])
}
pub fn case_24(vars: &Vars) -> InferredGoal<DU, DE, Goal<DU, DE>> {
    let qa = vars.v[0].clone();
    let qb = vars.v[1].clone();
    let coll0: LT = LT::from_vec(vec![lterm!(3)]);
    proto_vulcan!([for e in &coll0 { qa == 2 }])
}
pub fn case_25(vars: &Vars) -> InferredGoal<DU, DE, Goal<DU, DE>> {
    let qa = vars.v[0].clone();
    let qb = vars.v[1].clone();
    let coll0: Vec<LT> = vec![lterm!(1), qa.clone()];
    proto_vulcan!([qa != qa, for e in &coll0 { |h, t| { e == [[], []] }, |y, t| { t == 'a' } }])
}
pub fn case_26(vars: &Vars) -> InferredGoal<DU, DE, Goal<DU, DE>> {
    let qa = vars.v[0].clone();
    let qb = vars.v[1].clone();
    let coll0: Vec<LT> = vec![lterm!(3), qa.clone()];
    proto_vulcan!([qa == [qb, _, 1], for e in &coll0 { ["bc" | qa] == qb }])
}
pub fn case_27(vars: &Vars) -> InferredGoal<DU, DE, Goal<DU, DE>> {
    let qa = vars.v[0].clone();
    let qb = vars.v[1].clone();
    let coll0: LT = LT::from_vec(vec![lterm!([2]), lterm!([1]), lterm!(2)]);
    proto_vulcan!([[[qa, 1, qa], 1, 2] == qb, for e in &coll0 { qa != [qa, [2, qa, e] | 3], conde { append(qb, qb, [3, 3]) } }])
}
pub fn case_28(vars: &Vars) -> InferredGoal<DU, DE, Goal<DU, DE>> {
    let qa = vars.v[0].clone();
    let qb = vars.v[1].clone();
    let coll0: LT = LT::from_vec(vec![qa.clone(), qa.clone(), qb.clone()]);
    proto_vulcan!([for e in &coll0 { 1 != e }])
}
pub fn case_29(vars: &Vars) -> InferredGoal<DU, DE, Goal<DU, DE>> {
    let qa = vars.v[0].clone();
    let qb = vars.v[1].clone();
    let coll0: Vec<LT> = vec![lterm!([1]), lterm!(2)];
    proto_vulcan!([for e in &coll0 { qa == [[2], 3] }])
}
pub fn case_30(vars: &Vars) -> InferredGoal<DU, DE, Goal<DU, DE>> {
    let qa = vars.v[0].clone();
    let qb = vars.v[1].clone();
    let coll0: LT = LT::from_vec(vec![lterm!(1), qb.clone(), lterm!(3)]);
    proto_vulcan!([[2, qb, qa | qb] == [qa, _, ['a' | qa]], for e in &coll0 { qb != ['b', 2, 1], qb == [[qb]] }])
}
pub fn case_31(vars: &Vars) -> InferredGoal<DU, DE, Goal<DU, DE>> {
    let qa = vars.v[0].clone();
    let qb = vars.v[1].clone();
    let coll0: LT = LT::from_vec(vec![lterm!([1])]);
    proto_vulcan!([for e in &coll0 { conde { [2, "a", 2] != qa, [[], e] == qb, [_ == qb, member(qa, [1])] }, e != _ }])
}
pub fn case_32(vars: &Vars) -> InferredGoal<DU, DE, Goal<DU, DE>> {
    let qa = vars.v[0].clone();
    let qb = vars.v[1].clone();
    let coll0: LT = LT::from_vec(vec![qb.clone(), qb.clone(), lterm!(1)]);
    proto_vulcan!([qb == qa, for e in &coll0 { conde { qa == qb, |tz| { tz == [1, 2], [2, 1, 2] != [2 | tz] }, [qa == 1, member(e, [2])] } }])
}
pub fn case_33(vars: &Vars) -> InferredGoal<DU, DE, Goal<DU, DE>> {
    let qa = vars.v[0].clone();
    let qb = vars.v[1].clone();
    let coll0: LT = LT::from_vec(vec![lterm!(3), lterm!([2]), qa.clone()]);
    proto_vulcan!([['b', [qa, 3 | qa], [1, 2 | qa]] == qa, for e in &coll0 { qb == _, false }])
}
pub fn case_34(vars: &Vars) -> InferredGoal<DU, DE, Goal<DU, DE>> {
    let qa = vars.v[0].clone();
    let qb = vars.v[1].clone();
    let coll0: LT = LT::from_vec(vec![qb.clone()]);
    proto_vulcan!([for e in &coll0 { qa == [[qb, qa, qa], _], conde { [e, ["bc"], [[] | 'a']] == e, [true, [qb, 2, "a"] == e] } }])
}
pub fn case_35(vars: &Vars) -> InferredGoal<DU, DE, Goal<DU, DE>> {
    let qa = vars.v[0].clone();
    let qb = vars.v[1].clone();
    let coll0: Vec<LT> = vec![];
    proto_vulcan!([for e in &coll0 { conde { [[[qa, 3 | qa], [_, qa, qa | e], qb] == e, true], [e != qb, 3 == e], [[[1], 1, [true, qa]] != [qa], qa == [[], _]] }, true }])
}
pub fn case_36(vars: &Vars) -> InferredGoal<DU, DE, Goal<DU, DE>> {
    let qa = vars.v[0].clone();
    let qb = vars.v[1].clone();
    let coll0: LT = LT::from_vec(vec![qa.clone(), qb.clone(), lterm!([2])]);
    proto_vulcan!([[_, _] == qb, for e in &coll0 { 2 == e, [_ == qa, [2 | qa] == qa, [] == e] }])
}
pub fn case_37(vars: &Vars) -> InferredGoal<DU, DE, Goal<DU, DE>> {
    let qa = vars.v[0].clone();
    let qb = vars.v[1].clone();
    let coll0: LT = LT::from_vec(vec![lterm!([1])]);
    proto_vulcan!([conde { [true, |tz| { [3, 1 | tz] != [3, 1, 3, 2], tz == [3, 2] }], [[qa, 2, 2]] != [1, 2, true], [[qb, qa] != qb, [[]] == qb] }, for e in &coll0 { "a" == qb }])
}
pub fn case_38(vars: &Vars) -> InferredGoal<DU, DE, Goal<DU, DE>> {
    let qa = vars.v[0].clone();
    let qb = vars.v[1].clone();
    let coll0: Vec<LT> = vec![qb.clone(), lterm!([2])];
    proto_vulcan!([for e in &coll0 { |y, x| { append(x, e, [3]), [[], 1] == e, y == e } }])
}
pub fn case_39(vars: &Vars) -> InferredGoal<DU, DE, Goal<DU, DE>> {
    let qa = vars.v[0].clone();
    let qb = vars.v[1].clone();
    let coll0: LT = LT::from_vec(vec![lterm!([2])]);
    proto_vulcan!([for e in &coll0 { qb != [e, 1, e], qa == 1 }])
}
pub fn case_40(vars: &Vars) -> InferredGoal<DU, DE, Goal<DU, DE>> {
    let qa = vars.v[0].clone();
    let qb = vars.v[1].clone();
    let coll0: Vec<LT> = vec![];
    proto_vulcan!([[2, 2] == [[1, 2]], for e in &coll0 { 2 == e, qa != e }])
}
pub fn case_41(vars: &Vars) -> InferredGoal<DU, DE, Goal<DU, DE>> {
    let qa = vars.v[0].clone();
    let qb = vars.v[1].clone();
    let coll0: LT = LT::from_vec(vec![qa.clone(), lterm!(3), lterm!([2])]);
    proto_vulcan!([[[false, qb, qb], _ | qa] == qb, for e in &coll0 { qb == _, [qa, qa | qb] == qb }])
}
pub fn case_42(vars: &Vars) -> InferredGoal<DU, DE, Goal<DU, DE>> {
    let qa = vars.v[0].clone();
    let qb = vars.v[1].clone();
    let coll0: LT = LT::from_vec(vec![lterm!([2])]);
    proto_vulcan!([[2 == [[1]], qb == 2], for e in &coll0 { e == [e, _, 3 | 2], |x| { member(e, [3, 1, 1]), |tz| { [1, 1, 2, 1] != [1, 1 | tz], tz == [2, 1] }, [_] == x } }])
}
pub fn case_43(vars: &Vars) -> InferredGoal<DU, DE, Goal<DU, DE>> {
    let qa = vars.v[0].clone();
    let qb = vars.v[1].clone();
    let coll0: Vec<LT> = vec![];
    proto_vulcan!([for e in &coll0 { 2 == e }])
}
pub fn case_44(vars: &Vars) -> InferredGoal<DU, DE, Goal<DU, DE>> {
    let qa = vars.v[0].clone();
    let qb = vars.v[1].clone();
    let coll0: Vec<LT> = vec![lterm!(1), lterm!(2)];
    proto_vulcan!([for e in &coll0 { append(qb, qa, [1]) }])
}
pub fn case_45(vars: &Vars) -> InferredGoal<DU, DE, Goal<DU, DE>> {
    let qa = vars.v[0].clone();
    let qb = vars.v[1].clone();
    let coll0: LT = LT::from_vec(vec![lterm!(3), lterm!(3), lterm!(3)]);
    proto_vulcan!([2 == qa, for e in &coll0 { [qb == [e, 3], qb == e, qa == e] }])
}
pub fn case_46(vars: &Vars) -> InferredGoal<DU, DE, Goal<DU, DE>> {
    let qa = vars.v[0].clone();
    let qb = vars.v[1].clone();
    let coll0: Vec<LT> = vec![];
    proto_vulcan!([for e in &coll0 { conde { qb == e, [] }, [] }])
}
pub fn case_47(vars: &Vars) -> InferredGoal<DU, DE, Goal<DU, DE>> {
    let qa = vars.v[0].clone();
    let qb = vars.v[1].clone();
    let coll0: LT = LT::from_vec(vec![lterm!(2)]);
    proto_vulcan!([for e in &coll0 { qa == [[1, e | qa], [qb, qb | e] | 1] }])
}
pub fn case_48(vars: &Vars) -> InferredGoal<DU, DE, Goal<DU, DE>> {
    let qa = vars.v[0].clone();
    let qb = vars.v[1].clone();
    let coll0: Vec<LT> = vec![qa.clone(), qa.clone()];
    proto_vulcan!([for e in &coll0 { "a" == [_, [[], 'b']], e == [[2, e, 1], 1, e] }])
}
pub fn case_49(vars: &Vars) -> InferredGoal<DU, DE, Goal<DU, DE>> {
    let qa = vars.v[0].clone();
    let qb = vars.v[1].clone();
    let coll0: LT = LT::from_vec(vec![lterm!(3), qa.clone(), qb.clone()]);
    proto_vulcan!([for e in &coll0 { member(qa, []) }])
}
pub fn case_50(vars: &Vars) -> InferredGoal<DU, DE, Goal<DU, DE>> {
    let qa = vars.v[0].clone();
    let qb = vars.v[1].clone();
    let coll0: LT = LT::from_vec(vec![lterm!(2)]);
    proto_vulcan!([for e in &coll0 { [3, [], [[], qa] | e] == 'b', |x, t| { [[_], [1], [qb] | qa] == qa, [['a' | qa], 2 | qb] == _ } }])
}
pub fn case_51(vars: &Vars) -> InferredGoal<DU, DE, Goal<DU, DE>> {
    let qa = vars.v[0].clone();
    let qb = vars.v[1].clone();
    let coll0: Vec<LT> = vec![];
    proto_vulcan!([for e in &coll0 { [[], 3, 3] != e }])
}
pub fn case_52(vars: &Vars) -> InferredGoal<DU, DE, Goal<DU, DE>> {
    let qa = vars.v[0].clone();
    let qb = vars.v[1].clone();
    let coll0: Vec<LT> = vec![];
    proto_vulcan!([for e in &coll0 { e == [_, 1] }])
}
pub fn case_53(vars: &Vars) -> InferredGoal<DU, DE, Goal<DU, DE>> {
    let qa = vars.v[0].clone();
    let qb = vars.v[1].clone();
    let coll0: Vec<LT> = vec![qa.clone(), qa.clone()];
    proto_vulcan!([qb == qa, for e in &coll0 { [[false, []]] != [[_, "bc" | qb], [_, qb], [_] | e], [["a", _, qa] != e, [[qa] | qb] != qa, false] }])
}
pub fn case_54(vars: &Vars) -> InferredGoal<DU, DE, Goal<DU, DE>> {
    let qa = vars.v[0].clone();
    let qb = vars.v[1].clone();
    let coll0: Vec<LT> = vec![];
    proto_vulcan!([qb == [qb, [], qb | qb], for e in &coll0 { |t, h| { h == [true, qb, 1 | h], 1 == t }, qa == [[]] }])
}
pub fn case_55(vars: &Vars) -> InferredGoal<DU, DE, Goal<DU, DE>> {
    let qa = vars.v[0].clone();
    let qb = vars.v[1].clone();
    let coll0: Vec<LT> = vec![];
    proto_vulcan!([for e in &coll0 { 'a' == [qa] }])
}
pub fn case_56(vars: &Vars) -> InferredGoal<DU, DE, Goal<DU, DE>> {
    let qa = vars.v[0].clone();
    let qb = vars.v[1].clone();
    let coll0: Vec<LT> = vec![lterm!([2]), lterm!([1])];
    proto_vulcan!([[[] | qb] == qb, for e in &coll0 { [1, _] == e, [[1], [qa] | qa] != [1] }])
}
pub fn case_57(vars: &Vars) -> InferredGoal<DU, DE, Goal<DU, DE>> {
    let qa = vars.v[0].clone();
    let qb = vars.v[1].clone();
    let coll0: Vec<LT> = vec![lterm!(2), qb.clone()];
    proto_vulcan!([for e in &coll0 { conde { [e != [[], 1, 2], false], qa == [[2]], [[_, qb, qa] == e, [qb, qb | qb] != qa] } }])
}
pub fn case_58(vars: &Vars) -> InferredGoal<DU, DE, Goal<DU, DE>> {
    let qa = vars.v[0].clone();
    let qb = vars.v[1].clone();
    let coll0: Vec<LT> = vec![lterm!([1]), qa.clone()];
    proto_vulcan!([for e in &coll0 { [qa, qb] == e }])
}
pub fn case_59(vars: &Vars) -> InferredGoal<DU, DE, Goal<DU, DE>> {
    let qa = vars.v[0].clone();
    let qb = vars.v[1].clone();
    let coll0: Vec<LT> = vec![];
    proto_vulcan!([|z| { _ != qa, z == z, [[]] == z }, for e in &coll0 { 3 != e }])
}
pub fn case_60(vars: &Vars) -> InferredGoal<DU, DE, Goal<DU, DE>> {
    let qa = vars.v[0].clone();
    let qb = vars.v[1].clone();
    let coll0: LT = LT::from_vec(vec![lterm!([2]), lterm!(1), lterm!(2)]);
    proto_vulcan!([for e in &coll0 { qb == [[]], [[], 'b', 1] == e }])
}
pub fn case_61(vars: &Vars) -> InferredGoal<DU, DE, Goal<DU, DE>> {
    let qa = vars.v[0].clone();
    let qb = vars.v[1].clone();
    let coll0: LT = LT::from_vec(vec![qa.clone(), qa.clone(), lterm!(2)]);
    proto_vulcan!([for e in &coll0 { conde { [e == qb, true], [true, e != [2]], true } }])
}
pub fn case_62(vars: &Vars) -> InferredGoal<DU, DE, Goal<DU, DE>> {
    let qa = vars.v[0].clone();
    let qb = vars.v[1].clone();
    let coll0: LT = LT::from_vec(vec![lterm!(1), lterm!(3), lterm!([1])]);
    proto_vulcan!([qa != [2], for e in &coll0 { [], qb != ["bc"] }])
}
pub fn case_63(vars: &Vars) -> InferredGoal<DU, DE, Goal<DU, DE>> {
    let qa = vars.v[0].clone();
    let qb = vars.v[1].clone();
    let coll0: LT = LT::from_vec(vec![lterm!([2])]);
    proto_vulcan!([for e in &coll0 { [e, 1] == qb, [[e | _], 3] == e }])
}
pub fn case_64(vars: &Vars) -> InferredGoal<DU, DE, Goal<DU, DE>> {
    let qa = vars.v[0].clone();
    let qb = vars.v[1].clone();
    let coll0: LT = LT::from_vec(vec![lterm!([2])]);
    proto_vulcan!([for e in &coll0 { qa == [e | qa] }])
}
pub fn case_65(vars: &Vars) -> InferredGoal<DU, DE, Goal<DU, DE>> {
    let qa = vars.v[0].clone();
    let qb = vars.v[1].clone();
    let coll0: LT = LT::from_vec(vec![qb.clone()]);
    proto_vulcan!([for e in &coll0 { [[[]] == e, qb == [qa, [], qb], qb != [2]] }])
}
pub fn case_66(vars: &Vars) -> InferredGoal<DU, DE, Goal<DU, DE>> {
    let qa = vars.v[0].clone();
    let qb = vars.v[1].clone();
    let coll0: Vec<LT> = vec![lterm!(1), qb.clone()];
    proto_vulcan!([for e in &coll0 { e == [qa, 2] }])
}
pub fn case_67(vars: &Vars) -> InferredGoal<DU, DE, Goal<DU, DE>> {
    let qa = vars.v[0].clone();
    let qb = vars.v[1].clone();
    let coll0: LT = LT::from_vec(vec![qa.clone()]);
    proto_vulcan!([for e in &coll0 { |z, t| { true != qb, [e, e, qb] == qb } }])
}
pub fn case_68(vars: &Vars) -> InferredGoal<DU, DE, Goal<DU, DE>> {
    let qa = vars.v[0].clone();
    let qb = vars.v[1].clone();
    let coll0: Vec<LT> = vec![qb.clone(), qb.clone()];
    proto_vulcan!([for e in &coll0 { |h| { false, append(qb, qb, [2, 2]), true } }])
}
pub fn case_69(vars: &Vars) -> InferredGoal<DU, DE, Goal<DU, DE>> {
    let qa = vars.v[0].clone();
    let qb = vars.v[1].clone();
    let coll0: Vec<LT> = vec![lterm!(1), lterm!([1])];
    proto_vulcan!([[[qb, 2, _ | 'a'] | 3] != qb, for e in &coll0 { [[qa, qa, 3] != e, [e, e, _] == e] }])
}
pub fn case_70(vars: &Vars) -> InferredGoal<DU, DE, Goal<DU, DE>> {
    let qa = vars.v[0].clone();
    let qb = vars.v[1].clone();
    let coll0: LT = LT::from_vec(vec![lterm!([2])]);
    proto_vulcan!([[[] == _], for e in &coll0 { qa == [false, [1, "bc"], []] }])
}
pub fn case_71(vars: &Vars) -> InferredGoal<DU, DE, Goal<DU, DE>> {
    let qa = vars.v[0].clone();
    let qb = vars.v[1].clone();
    let coll0: Vec<LT> = vec![qb.clone(), lterm!(3)];
    proto_vulcan!([for e in &coll0 { [_] == e }])
}
pub fn case_72(vars: &Vars) -> InferredGoal<DU, DE, Goal<DU, DE>> {
    let qa = vars.v[0].clone();
    let qb = vars.v[1].clone();
    let coll0: LT = LT::from_vec(vec![qb.clone()]);
    proto_vulcan!([for e in &coll0 { |y, h| { false }, qa == qa }])
}
pub fn case_73(vars: &Vars) -> InferredGoal<DU, DE, Goal<DU, DE>> {
    let qa = vars.v[0].clone();
    let qb = vars.v[1].clone();
    let coll0: Vec<LT> = vec![];
    proto_vulcan!([for e in &coll0 { conde { [[e] == qb, e == _] } }])
}
pub fn case_74(vars: &Vars) -> InferredGoal<DU, DE, Goal<DU, DE>> {
    let qa = vars.v[0].clone();
    let qb = vars.v[1].clone();
    let coll0: LT = LT::from_vec(vec![lterm!([2])]);
    proto_vulcan!([[[]] != qb, for e in &coll0 { qb == [qa, [qb | qa], [e, qb | _]], [member(qb, []), false] }])
}
pub fn case_75(vars: &Vars) -> InferredGoal<DU, DE, Goal<DU, DE>> {
    let qa = vars.v[0].clone();
    let qb = vars.v[1].clone();
    let coll0: Vec<LT> = vec![];
    proto_vulcan!([false, for e in &coll0 { conde { qa == [[1, qb | 2], [1] | qb], member(qb, [2, 1, 3]) }, true }])
}
pub fn case_76(vars: &Vars) -> InferredGoal<DU, DE, Goal<DU, DE>> {
    let qa = vars.v[0].clone();
    let qb = vars.v[1].clone();
    let coll0: Vec<LT> = vec![lterm!(3), lterm!(2)];
    proto_vulcan!([for e in &coll0 { e != _ }])
}
pub fn case_77(vars: &Vars) -> InferredGoal<DU, DE, Goal<DU, DE>> {
    let qa = vars.v[0].clone();
    let qb = vars.v[1].clone();
    let coll0: Vec<LT> = vec![];
    proto_vulcan!([|tz| { [1, 3 | tz] != [1, 3, 2], tz == [2] }, for e in &coll0 { [e, 3] != [_, qb, false | qb], 2 == [qb, e] }])
}
pub fn case_78(vars: &Vars) -> InferredGoal<DU, DE, Goal<DU, DE>> {
    let qa = vars.v[0].clone();
    let qb = vars.v[1].clone();
    let coll0: Vec<LT> = vec![lterm!(1), lterm!(3)];
    proto_vulcan!([for e in &coll0 { conde { qb == e, 2 == [[2, 2, qa], qa] } }])
}
pub fn case_79(vars: &Vars) -> InferredGoal<DU, DE, Goal<DU, DE>> {
    let qa = vars.v[0].clone();
    let qb = vars.v[1].clone();
    let coll0: LT = LT::from_vec(vec![lterm!(3)]);
    proto_vulcan!([for e in &coll0 { [e, "bc" | e] == qb, qa != [e, e, qa] }])
}
pub fn case_80(vars: &Vars) -> InferredGoal<DU, DE, Goal<DU, DE>> {
    let qa = vars.v[0].clone();
    let qb = vars.v[1].clone();
    let coll0: Vec<LT> = vec![];
    proto_vulcan!([conde { [qa != [_], qb == [[qb, qa], [qa, 2, []]]], [] }, for e in &coll0 { [e == [qa, "a", qb | qb], qb != [2]], [1, 2 | qb] != qb }])
}
pub fn case_81(vars: &Vars) -> InferredGoal<DU, DE, Goal<DU, DE>> {
    let qa = vars.v[0].clone();
    let qb = vars.v[1].clone();
    let coll0: Vec<LT> = vec![];
    proto_vulcan!([conde { [[2 | qa] == qb, qa == []], [[2, [[], 1]] == [qb, [qb, "bc", 2 | qb], [qa] | _], [1, _ | qb] == qa] }, for e in &coll0 { conde { [e != 'b', 2 == e], [qa, _] != _ } }])
}
pub fn case_82(vars: &Vars) -> InferredGoal<DU, DE, Goal<DU, DE>> {
    let qa = vars.v[0].clone();
    let qb = vars.v[1].clone();
    let coll0: Vec<LT> = vec![];
    proto_vulcan!([for e in &coll0 { [qa | qa] == qa, conde { [member(e, [1, 3, 3]), 1 != e], false } }])
}
pub fn case_83(vars: &Vars) -> InferredGoal<DU, DE, Goal<DU, DE>> {
    let qa = vars.v[0].clone();
    let qb = vars.v[1].clone();
    let coll0: LT = LT::from_vec(vec![qa.clone()]);
    proto_vulcan!([|x| {  }, for e in &coll0 { |t| { ["bc", e] == t }, conde { qa == [['b'], qb], [qa, _, "bc" | qb] != e, [[qa] == [[qa, 2, qb | _], [2, qb, 3 | e]], false] } }])
}
pub fn case_84(vars: &Vars) -> InferredGoal<DU, DE, Goal<DU, DE>> {
    let qa = vars.v[0].clone();
    let qb = vars.v[1].clone();
    let coll0: LT = LT::from_vec(vec![lterm!(2), lterm!([1]), qa.clone()]);
    proto_vulcan!([[2, 2, qa] != qa, for e in &coll0 { [[], e] == qa }])
}
pub fn case_85(vars: &Vars) -> InferredGoal<DU, DE, Goal<DU, DE>> {
    let qa = vars.v[0].clone();
    let qb = vars.v[1].clone();
    let coll0: Vec<LT> = vec![];
    proto_vulcan!([for e in &coll0 { [[qb], 3] == true }])
}
pub fn case_86(vars: &Vars) -> InferredGoal<DU, DE, Goal<DU, DE>> {
    let qa = vars.v[0].clone();
    let qb = vars.v[1].clone();
    let coll0: Vec<LT> = vec![lterm!(3), lterm!([2])];
    proto_vulcan!([for e in &coll0 { [[] | qa] == qa }])
}
pub fn case_87(vars: &Vars) -> InferredGoal<DU, DE, Goal<DU, DE>> {
    let qa = vars.v[0].clone();
    let qb = vars.v[1].clone();
    let coll0: LT = LT::from_vec(vec![lterm!(1)]);
    proto_vulcan!([for e in &coll0 { conde { false, [e] == e, [qa == 3, true] }, [append(qb, e, [2, 1])] }])
}
pub fn case_88(vars: &Vars) -> InferredGoal<DU, DE, Goal<DU, DE>> {
    let qa = vars.v[0].clone();
    let qb = vars.v[1].clone();
    let coll0: LT = LT::from_vec(vec![lterm!(3)]);
    proto_vulcan!([for e in &coll0 { |x| { qa != [qa], e != 2, append(e, e, [3, 3]) } }])
}
pub fn case_89(vars: &Vars) -> InferredGoal<DU, DE, Goal<DU, DE>> {
    let qa = vars.v[0].clone();
    let qb = vars.v[1].clone();
    let coll0: LT = LT::from_vec(vec![qa.clone()]);
    proto_vulcan!([true != qa, for e in &coll0 { conde { [qa == qa, |tz| { tz == [3, 1], [2, 2 | tz] != [2, 2, 3, 1] }] }, |x| { e == 2 } }])
}
pub fn case_90(vars: &Vars) -> InferredGoal<DU, DE, Goal<DU, DE>> {
    let qa = vars.v[0].clone();
    let qb = vars.v[1].clone();
    let coll0: LT = LT::from_vec(vec![qa.clone(), lterm!(1), lterm!([2])]);
    proto_vulcan!([for e in &coll0 { qb != 2, [e == [1, true, 3 | qb], [qb] == ["a", ["a"], e]] }])
}
pub fn case_91(vars: &Vars) -> InferredGoal<DU, DE, Goal<DU, DE>> {
    let qa = vars.v[0].clone();
    let qb = vars.v[1].clone();
    let coll0: Vec<LT> = vec![];
    proto_vulcan!([for e in &coll0 { qb != [e, 3 | e] }])
}
pub fn case_92(vars: &Vars) -> InferredGoal<DU, DE, Goal<DU, DE>> {
    let qa = vars.v[0].clone();
    let qb = vars.v[1].clone();
    let coll0: LT = LT::from_vec(vec![lterm!([2])]);
    proto_vulcan!([qb == [qa | qa], for e in &coll0 { [2] != qb, qa != qa }])
}
pub fn case_93(vars: &Vars) -> InferredGoal<DU, DE, Goal<DU, DE>> {
    let qa = vars.v[0].clone();
    let qb = vars.v[1].clone();
    let coll0: Vec<LT> = vec![];
    proto_vulcan!([for e in &coll0 { true, qb == [qb, 'a' | e] }])
}
pub fn case_94(vars: &Vars) -> InferredGoal<DU, DE, Goal<DU, DE>> {
    let qa = vars.v[0].clone();
    let qb = vars.v[1].clone();
    let coll0: Vec<LT> = vec![];
    proto_vulcan!([|x, y| {  }, for e in &coll0 { false, ["a" | qb] == [[_, _]] }])
}
pub fn case_95(vars: &Vars) -> InferredGoal<DU, DE, Goal<DU, DE>> {
    let qa = vars.v[0].clone();
    let qb = vars.v[1].clone();
    let coll0: Vec<LT> = vec![];
    proto_vulcan!([[qb, qa] == qa, for e in &coll0 { [append(qa, qa, [2])] }])
}
pub fn case_96(vars: &Vars) -> InferredGoal<DU, DE, Goal<DU, DE>> {
    let qa = vars.v[0].clone();
    let qb = vars.v[1].clone();
    let coll0: Vec<LT> = vec![];
    proto_vulcan!([|h| { h == h }, for e in &coll0 { qb != [[3, 1, 1] | qb], [qa == [['a', _], qb, []]] }])
}
pub fn case_97(vars: &Vars) -> InferredGoal<DU, DE, Goal<DU, DE>> {
    let qa = vars.v[0].clone();
    let qb = vars.v[1].clone();
    let coll0: LT = LT::from_vec(vec![lterm!(2), qb.clone(), lterm!(1)]);
    proto_vulcan!([qb == [qa, qa, 1], for e in &coll0 { |tz| { [3 | tz] != [3, 1], tz == [1] }, [[2, 2, 2 | "a"]] != e }])
}
pub fn case_98(vars: &Vars) -> InferredGoal<DU, DE, Goal<DU, DE>> {
    let qa = vars.v[0].clone();
    let qb = vars.v[1].clone();
    let coll0: LT = LT::from_vec(vec![lterm!(2)]);
    proto_vulcan!([for e in &coll0 { [[e, 2 | _] == qa, qb == [qa]] }])
}
pub fn case_99(vars: &Vars) -> InferredGoal<DU, DE, Goal<DU, DE>> {
    let qa = vars.v[0].clone();
    let qb = vars.v[1].clone();
    let coll0: Vec<LT> = vec![];
    proto_vulcan!([[[1, _, _], [2, true], [3, false, _]] == qa, for e in &coll0 { conde { [_ | e] == qa, [member(qb, []), 2 == e], [[e, "bc" | e] == e, [[e, _]] == qb] } }])
}
pub fn case_100(vars: &Vars) -> InferredGoal<DU, DE, Goal<DU, DE>> {
    let qa = vars.v[0].clone();
    let qb = vars.v[1].clone();
    let coll0: LT = LT::from_vec(vec![lterm!(1)]);
    proto_vulcan!([for e in &coll0 { [append(qa, qb, [1]), 'b' == qa, 2 == qa] }])
}
pub fn case_101(vars: &Vars) -> InferredGoal<DU, DE, Goal<DU, DE>> {
    let qa = vars.v[0].clone();
    let qb = vars.v[1].clone();
    let coll0: LT = LT::from_vec(vec![lterm!([1]), lterm!(2), lterm!(3)]);
    proto_vulcan!([[] == qa, for e in &coll0 { e == [], [2, 3, e] == e }])
}
pub fn case_102(vars: &Vars) -> InferredGoal<DU, DE, Goal<DU, DE>> {
    let qa = vars.v[0].clone();
    let qb = vars.v[1].clone();
    let coll0: Vec<LT> = vec![];
    proto_vulcan!([|z| {  }, for e in &coll0 { |x| { x == qb, |tz| { [1, 1 | tz] != [1, 1, 1, 1], tz == [1, 1] }, [_, qb, 2] != e } }])
}
pub fn case_103(vars: &Vars) -> InferredGoal<DU, DE, Goal<DU, DE>> {
    let qa = vars.v[0].clone();
    let qb = vars.v[1].clone();
    let coll0: LT = LT::from_vec(vec![qb.clone(), lterm!(1), qb.clone()]);
    proto_vulcan!([for e in &coll0 { 3 == qa }])
}
pub fn case_104(vars: &Vars) -> InferredGoal<DU, DE, Goal<DU, DE>> {
    let qa = vars.v[0].clone();
    let qb = vars.v[1].clone();
    let coll0: Vec<LT> = vec![lterm!([1]), lterm!(2)];
    proto_vulcan!([for e in &coll0 { |z| { qa == [e, z], qa == [] }, member(e, [3, 3]) }])
}
pub fn case_105(vars: &Vars) -> InferredGoal<DU, DE, Goal<DU, DE>> {
    let qa = vars.v[0].clone();
    let qb = vars.v[1].clone();
    let coll0: LT = LT::from_vec(vec![lterm!(2), lterm!(3), qb.clone()]);
    proto_vulcan!([qa == [2], for e in &coll0 { qb != qa, |h| { [1, "a", 2 | qa] == h } }])
}
pub fn case_106(vars: &Vars) -> InferredGoal<DU, DE, Goal<DU, DE>> {
    let qa = vars.v[0].clone();
    let qb = vars.v[1].clone();
    let coll0: LT = LT::from_vec(vec![lterm!(3), lterm!(1), lterm!([2])]);
    proto_vulcan!([qa == [qb, qa], for e in &coll0 { qa == [[3], [1 | e] | e], [qb] == qa }])
}
pub fn case_107(vars: &Vars) -> InferredGoal<DU, DE, Goal<DU, DE>> {
    let qa = vars.v[0].clone();
    let qb = vars.v[1].clone();
    let coll0: LT = LT::from_vec(vec![lterm!(2)]);
    proto_vulcan!([[1, 1, "a"] == qa, for e in &coll0 { member(qa, [1]), [] != e }])
}
pub fn case_108(vars: &Vars) -> InferredGoal<DU, DE, Goal<DU, DE>> {
    let qa = vars.v[0].clone();
    let qb = vars.v[1].clone();
    let coll0: Vec<LT> = vec![];
    proto_vulcan!([for e in &coll0 { false }])
}
pub fn case_109(vars: &Vars) -> InferredGoal<DU, DE, Goal<DU, DE>> {
    let qa = vars.v[0].clone();
    let qb = vars.v[1].clone();
    let coll0: Vec<LT> = vec![];
    proto_vulcan!([|y, t| { member(qa, [1, 2, 2]), y == 2 }, for e in &coll0 { qb == [3, [[]], [[], [], 3 | qa]] }])
}
pub fn case_110(vars: &Vars) -> InferredGoal<DU, DE, Goal<DU, DE>> {
    let qa = vars.v[0].clone();
    let qb = vars.v[1].clone();
    let coll0: Vec<LT> = vec![];
    proto_vulcan!([for e in &coll0 { qb != e }])
}
pub fn case_111(vars: &Vars) -> InferredGoal<DU, DE, Goal<DU, DE>> {
    let qa = vars.v[0].clone();
    let qb = vars.v[1].clone();
    let coll0: Vec<LT> = vec![lterm!(3), lterm!(2)];
    proto_vulcan!([for e in &coll0 { [2, _, [e]] != 3, qb == e }])
}
pub fn case_112(vars: &Vars) -> InferredGoal<DU, DE, Goal<DU, DE>> {
    let qa = vars.v[0].clone();
    let qb = vars.v[1].clone();
    let coll0: Vec<LT> = vec![lterm!(1), lterm!(2)];
    proto_vulcan!([for e in &coll0 { [2, qb, qb] == qb }])
}
pub fn case_113(vars: &Vars) -> InferredGoal<DU, DE, Goal<DU, DE>> {
    let qa = vars.v[0].clone();
    let qb = vars.v[1].clone();
    let coll0: LT = LT::from_vec(vec![qa.clone()]);
    proto_vulcan!([for e in &coll0 { [2, 2 | qb] == e }])
}
pub fn case_114(vars: &Vars) -> InferredGoal<DU, DE, Goal<DU, DE>> {
    let qa = vars.v[0].clone();
    let qb = vars.v[1].clone();
    let coll0: LT = LT::from_vec(vec![lterm!([1])]);
    proto_vulcan!([for e in &coll0 { [[e] | e] == e }])
}
pub fn case_115(vars: &Vars) -> InferredGoal<DU, DE, Goal<DU, DE>> {
    let qa = vars.v[0].clone();
    let qb = vars.v[1].clone();
    let coll0: LT = LT::from_vec(vec![lterm!(3)]);
    proto_vulcan!([false, for e in &coll0 { [qa, "a"] == e }])
}
pub fn case_116(vars: &Vars) -> InferredGoal<DU, DE, Goal<DU, DE>> {
    let qa = vars.v[0].clone();
    let qb = vars.v[1].clone();
    let coll0: Vec<LT> = vec![];
    proto_vulcan!([for e in &coll0 { |z, x| { x == qb, |tz| { [3, 1 | tz] != [3, 1, 1], tz == [1] }, qb == [] }, [1, e, [] | e] == e }])
}
pub fn case_117(vars: &Vars) -> InferredGoal<DU, DE, Goal<DU, DE>> {
    let qa = vars.v[0].clone();
    let qb = vars.v[1].clone();
    let coll0: Vec<LT> = vec![];
    proto_vulcan!([for e in &coll0 { conde { [], [e, 1] == qa, [qb == 2, [] == qb] }, [1, 1, 1 | 'b'] != qb }])
}
pub fn case_118(vars: &Vars) -> InferredGoal<DU, DE, Goal<DU, DE>> {
    let qa = vars.v[0].clone();
    let qb = vars.v[1].clone();
    let coll0: Vec<LT> = vec![];
    proto_vulcan!([_ == qb, for e in &coll0 { e == [], conde { [], member(qb, [2, 1, 2]), true } }])
}
pub fn case_119(vars: &Vars) -> InferredGoal<DU, DE, Goal<DU, DE>> {
    let qa = vars.v[0].clone();
    let qb = vars.v[1].clone();
    let coll0: LT = LT::from_vec(vec![lterm!([1])]);
    proto_vulcan!([for e in &coll0 { qb == [[]] }])
}
pub fn case_120(vars: &Vars) -> InferredGoal<DU, DE, Goal<DU, DE>> {
    let qa = vars.v[0].clone();
    let qb = vars.v[1].clone();
    let coll0: LT = LT::from_vec(vec![lterm!(3)]);
    proto_vulcan!([for e in &coll0 { [] == qb, 2 == e }])
}
pub fn case_121(vars: &Vars) -> InferredGoal<DU, DE, Goal<DU, DE>> {
    let qa = vars.v[0].clone();
    let qb = vars.v[1].clone();
    let coll0: LT = LT::from_vec(vec![lterm!(3)]);
    proto_vulcan!([for e in &coll0 { _ == [[qa, true | true], [[], 2], []] }])
}
pub fn case_122(vars: &Vars) -> InferredGoal<DU, DE, Goal<DU, DE>> {
    let qa = vars.v[0].clone();
    let qb = vars.v[1].clone();
    let coll0: LT = LT::from_vec(vec![lterm!(2)]);
    proto_vulcan!([for e in &coll0 { append(qb, qa, []), [[[], _], qb, [qa, 1, []]] != _ }])
}
pub fn case_123(vars: &Vars) -> InferredGoal<DU, DE, Goal<DU, DE>> {
    let qa = vars.v[0].clone();
    let qb = vars.v[1].clone();
    let coll0: LT = LT::from_vec(vec![lterm!([1])]);
    proto_vulcan!([qb != ["bc", 1, 3 | qb], for e in &coll0 { false == [qb, 1] }])
}
pub fn case_124(vars: &Vars) -> InferredGoal<DU, DE, Goal<DU, DE>> {
    let qa = vars.v[0].clone();
    let qb = vars.v[1].clone();
    let coll0: Vec<LT> = vec![lterm!(1), lterm!([2])];
    proto_vulcan!(['a' == 1, for e in &coll0 { member(e, []), [e == qb, e == qb] }])
}
pub fn case_125(vars: &Vars) -> InferredGoal<DU, DE, Goal<DU, DE>> {
    let qa = vars.v[0].clone();
    let qb = vars.v[1].clone();
    let coll0: Vec<LT> = vec![qa.clone(), qb.clone()];
    proto_vulcan!([for e in &coll0 { [2, 3, qb] == qb }])
}
pub fn case_126(vars: &Vars) -> InferredGoal<DU, DE, Goal<DU, DE>> {
    let qa = vars.v[0].clone();
    let qb = vars.v[1].clone();
    let coll0: LT = LT::from_vec(vec![lterm!(2)]);
    proto_vulcan!([[2] != qb, for e in &coll0 { true, qa == [1, e] }])
}
pub fn case_127(vars: &Vars) -> InferredGoal<DU, DE, Goal<DU, DE>> {
    let qa = vars.v[0].clone();
    let qb = vars.v[1].clone();
    let coll0: LT = LT::from_vec(vec![lterm!(3), qb.clone(), qb.clone()]);
    proto_vulcan!([for e in &coll0 { conde { [append(e, qb, []), false] } }])
}
pub fn case_128(vars: &Vars) -> InferredGoal<DU, DE, Goal<DU, DE>> {
    let qa = vars.v[0].clone();
    let qb = vars.v[1].clone();
    let coll0: Vec<LT> = vec![];
    proto_vulcan!([for e in &coll0 { qb == [], conde { [], [[[2, qb | qa], [qb, 'a'], e | qb] == e, [true, []] == qa] } }])
}
pub fn case_129(vars: &Vars) -> InferredGoal<DU, DE, Goal<DU, DE>> {
    let qa = vars.v[0].clone();
    let qb = vars.v[1].clone();
    let coll0: Vec<LT> = vec![];
    proto_vulcan!([|t, x| { append(t, qb, [3, 2]), qa != qb }, for e in &coll0 { |h, z| { |tz| { [3, 3 | tz] != [3, 3, 3], tz == [3] }, qa != 2, [[3 | qa], [e]] == [_, qb] }, |tz| { [2, 2] != [2 | tz], tz == [2] } }])
}
pub fn case_130(vars: &Vars) -> InferredGoal<DU, DE, Goal<DU, DE>> {
    let qa = vars.v[0].clone();
    let qb = vars.v[1].clone();
    let coll0: LT = LT::from_vec(vec![lterm!(3), lterm!([2]), qa.clone()]);
    proto_vulcan!([conde { [true, qb == [[3, qa, qb]]], [qa == [_, 'b', qb], [qb, 'a', 3 | _] != qa] }, for e in &coll0 { [], e != [e, 2, 1] }])
}
pub fn case_131(vars: &Vars) -> InferredGoal<DU, DE, Goal<DU, DE>> {
    let qa = vars.v[0].clone();
    let qb = vars.v[1].clone();
    let coll0: LT = LT::from_vec(vec![lterm!(3), qb.clone(), lterm!(3)]);
    proto_vulcan!([qb == qb, for e in &coll0 { conde { [2, 2 | qb] != qb }, |x, h| { qb == [[1, h | x], [2, qa, x]], [] != qa, [] == qa } }])
}
pub fn case_132(vars: &Vars) -> InferredGoal<DU, DE, Goal<DU, DE>> {
    let qa = vars.v[0].clone();
    let qb = vars.v[1].clone();
    let coll0: Vec<LT> = vec![];
    proto_vulcan!([qa != [3, qa, 3 | qb], for e in &coll0 { |tz| { tz == [1, 1], [1 | tz] != [1, 1, 1] } }])
}
pub fn case_133(vars: &Vars) -> InferredGoal<DU, DE, Goal<DU, DE>> {
    let qa = vars.v[0].clone();
    let qb = vars.v[1].clone();
    let coll0: LT = LT::from_vec(vec![lterm!(3), lterm!(3), lterm!(3)]);
    proto_vulcan!([for e in &coll0 { [[qa, e | qa] == e, |tz| { [1, 3 | tz] != [1, 3, 2, 2], tz == [2, 2] }], [qa, _, qb] == qa }])
}
pub fn case_134(vars: &Vars) -> InferredGoal<DU, DE, Goal<DU, DE>> {
    let qa = vars.v[0].clone();
    let qb = vars.v[1].clone();
    let coll0: Vec<LT> = vec![];
    proto_vulcan!([for e in &coll0 { append(qb, qa, []), qb == e }])
}
pub fn case_135(vars: &Vars) -> InferredGoal<DU, DE, Goal<DU, DE>> {
    let qa = vars.v[0].clone();
    let qb = vars.v[1].clone();
    let coll0: LT = LT::from_vec(vec![lterm!(2)]);
    proto_vulcan!([for e in &coll0 { [[[_], [e, 2]] == [2, [qb, 'b', _]], false] }])
}
pub fn case_136(vars: &Vars) -> InferredGoal<DU, DE, Goal<DU, DE>> {
    let qa = vars.v[0].clone();
    let qb = vars.v[1].clone();
    let coll0: LT = LT::from_vec(vec![qa.clone(), lterm!(1), lterm!(3)]);
    proto_vulcan!([[append(qa, qb, []), [] == qa], for e in &coll0 { qa != "bc" }])
}
pub fn case_137(vars: &Vars) -> InferredGoal<DU, DE, Goal<DU, DE>> {
    let qa = vars.v[0].clone();
    let qb = vars.v[1].clone();
    let coll0: LT = LT::from_vec(vec![lterm!([1]), lterm!(1), lterm!([1])]);
    proto_vulcan!([|tz| { [2 | tz] != [2, 1, 1], tz == [1, 1] }, for e in &coll0 { 'a' == [2], [] }])
}
pub fn case_138(vars: &Vars) -> InferredGoal<DU, DE, Goal<DU, DE>> {
    let qa = vars.v[0].clone();
    let qb = vars.v[1].clone();
    let coll0: LT = LT::from_vec(vec![lterm!([1])]);
    proto_vulcan!([for e in &coll0 { conde { true, append(e, qb, []) } }])
}
pub fn case_139(vars: &Vars) -> InferredGoal<DU, DE, Goal<DU, DE>> {
    let qa = vars.v[0].clone();
    let qb = vars.v[1].clone();
    let coll0: LT = LT::from_vec(vec![lterm!([2])]);
    proto_vulcan!([for e in &coll0 { |z, y| { false }, [qb, 1 | e] == e }])
}
pub fn case_140(vars: &Vars) -> InferredGoal<DU, DE, Goal<DU, DE>> {
    let x = vars.v[0].clone();
    proto_vulcan!([match x { [x | _] => x == 1, }])
}
pub fn case_141(vars: &Vars) -> InferredGoal<DU, DE, Goal<DU, DE>> {
    let x = vars.v[0].clone();
    let y = vars.v[1].clone();
    proto_vulcan!([match x { [h, h] => h == y, }])
}
pub fn case_142(vars: &Vars) -> InferredGoal<DU, DE, Goal<DU, DE>> {
    let x = vars.v[0].clone();
    proto_vulcan!([match x { [] | [_] => , [_, _ | t] => t == [], }])
}
pub fn case_143(vars: &Vars) -> InferredGoal<DU, DE, Goal<DU, DE>> {
    let x = vars.v[0].clone();
    let y = vars.v[1].clone();
    proto_vulcan!([member(x, [1, 2]), matcha x { 1 => y == 10, _ => y == 20, }])
}
pub fn case_144(vars: &Vars) -> InferredGoal<DU, DE, Goal<DU, DE>> {
    let x = vars.v[0].clone();
    let y = vars.v[1].clone();
    proto_vulcan!([matchu [x, y] { [h, _] => member(h, [1, 2]), _ => , }])
}
pub fn case_145(vars: &Vars) -> InferredGoal<DU, DE, Goal<DU, DE>> {
    let x = vars.v[0].clone();
    proto_vulcan!([matche x { _ | [[[], z, t | h]] => , }])
}
pub fn case_146(vars: &Vars) -> InferredGoal<DU, DE, Goal<DU, DE>> {
    let q = vars.v[0].clone();
    let x = vars.v[1].clone();
    proto_vulcan!([[x == q], match q { [[2 | x], t, [y, z, x | y]] => , [] => [|t| { t == 2 }, 'b' == x], }])
}
pub fn case_147(vars: &Vars) -> InferredGoal<DU, DE, Goal<DU, DE>> {
    let x = vars.v[0].clone();
    let y = vars.v[1].clone();
    proto_vulcan!([matchu x { [[1, _, 3], [[], x, [] | t]] | [1, [2]] => , [2, [2]] => , }])
}
pub fn case_148(vars: &Vars) -> InferredGoal<DU, DE, Goal<DU, DE>> {
    let x = vars.v[0].clone();
    proto_vulcan!([matcha x { [[t, 2] | _] => , [[t, y | _] | 2] | [[z, h, h] | 2] => , }])
}
pub fn case_149(vars: &Vars) -> InferredGoal<DU, DE, Goal<DU, DE>> {
    let x = vars.v[0].clone();
    let y = vars.v[1].clone();
    proto_vulcan!([[y != 3], match x { _ => { y == 7, y == 8 }, [[[], []], 'b', [t]] => { x == 2, false }, }])
}
pub fn case_150(vars: &Vars) -> InferredGoal<DU, DE, Goal<DU, DE>> {
    let q = vars.v[0].clone();
    let x = vars.v[1].clone();
    proto_vulcan!([match 3 { _ => [_] == q, }])
}
pub fn case_151(vars: &Vars) -> InferredGoal<DU, DE, Goal<DU, DE>> {
    let x = vars.v[0].clone();
    proto_vulcan!([match x { [[false, t | y]] | 1 => [[], conda { [[2] == [[3, []], [[] | x]], member(x, [1, 2])] }], [t, [y, z, 1], [t]] => [["bc", 1] == t, conde { _ != x }], [_, [1, y, 1 | 2]] => , }])
}
pub fn case_152(vars: &Vars) -> InferredGoal<DU, DE, Goal<DU, DE>> {
    let x = vars.v[0].clone();
    let y = vars.v[1].clone();
    proto_vulcan!([|t, h| { t == [[[], false, _], 1], member(t, []) }, match y { x => { x == [x | _] }, }])
}
pub fn case_153(vars: &Vars) -> InferredGoal<DU, DE, Goal<DU, DE>> {
    let x = vars.v[0].clone();
    let y = vars.v[1].clone();
    proto_vulcan!([y == [], match x { [] => matchu y { [2 | z] => { [2, []] == [['a', x], [x, 3]], [_, 3] == z }, }, 2 | _ => conde { y == 2, 2 == _ }, }])
}
pub fn case_154(vars: &Vars) -> InferredGoal<DU, DE, Goal<DU, DE>> {
    let x = vars.v[0].clone();
    let y = vars.v[1].clone();
    proto_vulcan!([matcha y { _ => [x == [['b', y, 1 | y] | y], |y| { x != y, [1 | y] == [[x, []], 2, y] }], [[h], [h, true | _]] => [matchu y { [1] => [x != [h, y | x], x == [[]]], }, |x| { [x, 1 | x] == h, y == [], x == [x, x | _] }], }])
}
pub fn case_155(vars: &Vars) -> InferredGoal<DU, DE, Goal<DU, DE>> {
    let x = vars.v[0].clone();
    proto_vulcan!([|tz| { tz == [3], [1 | tz] != [1, 3] }, matcha [2, _, x] { ["bc"] | [h, [_, 1], 3] => , [x] | ["a" | 3] => , }])
}
pub fn case_156(vars: &Vars) -> InferredGoal<DU, DE, Goal<DU, DE>> {
    let x = vars.v[0].clone();
    proto_vulcan!([condu { [[x, x, 3 | x] == x, x == 1], member(x, []), member(x, [3, 2, 2]) }, matche x { z | x => , }])
}
pub fn case_157(vars: &Vars) -> InferredGoal<DU, DE, Goal<DU, DE>> {
    let x = vars.v[0].clone();
    proto_vulcan!([matchu x { y => { [1 | x] == x, match 3 { [2, [1, 1, true] | t] => |tz| { [1, 2] != [1 | tz], tz == [2] }, [[3, x, z | _], [1, 2, _], [t]] => , } }, [[], [t, _, y]] => { t == [t | 1], conde { [member(y, [1, 1]), |tz| { tz == [3, 2], [2, 3, 2] != [2 | tz] }], false } }, }])
}
pub fn case_158(vars: &Vars) -> InferredGoal<DU, DE, Goal<DU, DE>> {
    let q = vars.v[0].clone();
    let x = vars.v[1].clone();
    proto_vulcan!([|t| { q == t, x != _, 3 != q }, matche x { t => , _ => onceo { [q, [], x] == q }, }])
}
pub fn case_159(vars: &Vars) -> InferredGoal<DU, DE, Goal<DU, DE>> {
    let x = vars.v[0].clone();
    proto_vulcan!([match x { 'a' => { |tz| { tz == [2], [1, 2] != [1 | tz] }, x == 1 }, [[t], [2, _], [3, t, x] | y] => , [3 | _] => [onceo { |tz| { tz == [1, 1], [3, 1, 1, 1] != [3, 1 | tz] } }, x == [_]], }])
}
pub fn case_160(vars: &Vars) -> InferredGoal<DU, DE, Goal<DU, DE>> {
    let q = vars.v[0].clone();
    let x = vars.v[1].clone();
    proto_vulcan!([matcha q { _ => { x == 7, x == 8 }, [[_], [_, _, h], _] => , }])
}
pub fn case_161(vars: &Vars) -> InferredGoal<DU, DE, Goal<DU, DE>> {
    let x = vars.v[0].clone();
    let y = vars.v[1].clone();
    proto_vulcan!([matcha x { _ => member(y, [1, 2, 3]), _ => , }])
}
pub fn case_162(vars: &Vars) -> InferredGoal<DU, DE, Goal<DU, DE>> {
    let q = vars.v[0].clone();
    let x = vars.v[1].clone();
    proto_vulcan!([matcha q { _ => { q == 7, q == 8 }, y | [h, [], 2] => 2 == x, [[t, x | _]] => , }])
}
pub fn case_163(vars: &Vars) -> InferredGoal<DU, DE, Goal<DU, DE>> {
    let x = vars.v[0].clone();
    let y = vars.v[1].clone();
    proto_vulcan!([conde { [x == [1, x, 1 | "a"], x == [[]]], [y != x, [3] == x] }, matche 3 { [[h, x, 2], [[], z, 1 | h], 2] => , [[1, y, z], [_, 'b', 3]] => , [2] => 1 == x, }])
}
pub fn case_164(vars: &Vars) -> InferredGoal<DU, DE, Goal<DU, DE>> {
    let q = vars.v[0].clone();
    let x = vars.v[1].clone();
    proto_vulcan!([match [q, 3] { [[y | _] | z] | _ => { matchu x { [[t], x, [1]] | 'a' => [[1 | q] == q, false], _ => [q == 7, q == 8], [] | 2 => { [] == x }, } }, [2, [_, z]] => , y | [_] => [q == _, [|tz| { tz == [3], [3 | tz] != [3, 3] }, [_ | x] == q]], }])
}
pub fn case_165(vars: &Vars) -> InferredGoal<DU, DE, Goal<DU, DE>> {
    let q = vars.v[0].clone();
    let x = vars.v[1].clone();
    proto_vulcan!([[['a'] != x, q == x], matcha x { t => , [[y, 2 | y], [z, 2, 3 | _], y | x] => { x == z, conde { [[[z, 1], _, [[], 3 | x]] == _, x != z], q != x, [z == 'a', y == [3, x]] } }, }])
}
pub fn case_166(vars: &Vars) -> InferredGoal<DU, DE, Goal<DU, DE>> {
    let q = vars.v[0].clone();
    let x = vars.v[1].clone();
    proto_vulcan!([matche x { [[z | h], [t | _], [t, t]] => , ["a", [_, _ | x]] => , _ => { q == 7, q == 8 }, }])
}
pub fn case_167(vars: &Vars) -> InferredGoal<DU, DE, Goal<DU, DE>> {
    let x = vars.v[0].clone();
    proto_vulcan!([[x | x] != x, matchu x { _ => [x == 7, x == 8], t => [matcha [3, t, t | t] { 2 => , }, ['b'] == x], _ => { member(x, [1, 2, 3]) }, }])
}
pub fn case_168(vars: &Vars) -> InferredGoal<DU, DE, Goal<DU, DE>> {
    let q = vars.v[0].clone();
    let x = vars.v[1].clone();
    proto_vulcan!([matchu x { [[false]] | [z] => append(q, q, [1]), [y] => { false, append(q, x, []) }, }])
}
pub fn case_169(vars: &Vars) -> InferredGoal<DU, DE, Goal<DU, DE>> {
    let x = vars.v[0].clone();
    let y = vars.v[1].clone();
    proto_vulcan!([matche x { 1 => [|h| { h != [[_] | x], member(h, [3]) }, 3 == x], [[x, "a"], [h], [2, y]] => [onceo { false }, matche h { y | [1] => , }], }])
}
pub fn case_170(vars: &Vars) -> InferredGoal<DU, DE, Goal<DU, DE>> {
    let x = vars.v[0].clone();
    let y = vars.v[1].clone();
    proto_vulcan!([conde { x == _, [true != y, _ == y] }, matche [_, true, _] { x => { |h, y| { member(h, [1]), [x | y] == x } }, [[z, h | h]] => [|h| {  }, conde { [h, []] == y, [] }], 2 | [[x, y, _ | true], 'a', [z, 'b', 3 | x]] => , }])
}
pub fn case_171(vars: &Vars) -> InferredGoal<DU, DE, Goal<DU, DE>> {
    let x = vars.v[0].clone();
    proto_vulcan!([onceo { x == [x] }, matcha x { [[2 | y]] => { |x| { [[_, x, [] | x], [x, x]] == [_ | 2], y == [2, _, x], [x, x, y] == x } }, 1 => { [member(x, []), [x] == x], [] }, }])
}
pub fn case_172(vars: &Vars) -> InferredGoal<DU, DE, Goal<DU, DE>> {
    let x = vars.v[0].clone();
    let y = vars.v[1].clone();
    proto_vulcan!([matchu [2] { [[z, x], 2] => , }])
}
pub fn case_173(vars: &Vars) -> InferredGoal<DU, DE, Goal<DU, DE>> {
    let q = vars.v[0].clone();
    let x = vars.v[1].clone();
    proto_vulcan!([matcha q { _ => member(x, [1, 2, 3]), }])
}
pub fn case_174(vars: &Vars) -> InferredGoal<DU, DE, Goal<DU, DE>> {
    let x = vars.v[0].clone();
    proto_vulcan!([conde { true, [x == [1, x | x], 3 != x] }, matche _ { _ | _ => |h| { x == [2, 2 | h] }, }])
}
pub fn case_175(vars: &Vars) -> InferredGoal<DU, DE, Goal<DU, DE>> {
    let q = vars.v[0].clone();
    let x = vars.v[1].clone();
    proto_vulcan!([match q { [h, [2, 3, x | _]] => { |tz| { [1, 1 | tz] != [1, 1, 1, 2], tz == [1, 2] }, |t| { true } }, [z] => conde { q != [['a', "a" | x] | z], [x != [[2], 1, x | q], true], [] }, }])
}
pub fn case_176(vars: &Vars) -> InferredGoal<DU, DE, Goal<DU, DE>> {
    let q = vars.v[0].clone();
    let x = vars.v[1].clone();
    proto_vulcan!([|z| { q == z, _ == [q] }, matche x { [[x, _ | y], []] => [onceo { 1 == x }, onceo { [2, y, x | x] != x }], z => , [y, [t, h, []]] => , }])
}
pub fn case_177(vars: &Vars) -> InferredGoal<DU, DE, Goal<DU, DE>> {
    let q = vars.v[0].clone();
    let x = vars.v[1].clone();
    proto_vulcan!([[q, 2, [] | q] == q, matchu x { _ | _ => member(x, [1, 2, 3]), _ | 1 => x != [q], }])
}
pub fn case_178(vars: &Vars) -> InferredGoal<DU, DE, Goal<DU, DE>> {
    let q = vars.v[0].clone();
    let x = vars.v[1].clone();
    proto_vulcan!([matcha q { [1] => { x == [x, [1, q], [[], q] | q] }, }])
}
pub fn case_179(vars: &Vars) -> InferredGoal<DU, DE, Goal<DU, DE>> {
    let x = vars.v[0].clone();
    let y = vars.v[1].clone();
    proto_vulcan!([matchu [2, []] { _ => , [_, 1, [1, t] | x] => , }])
}
pub fn case_180(vars: &Vars) -> InferredGoal<DU, DE, Goal<DU, DE>> {
    let x = vars.v[0].clone();
    let y = vars.v[1].clone();
    proto_vulcan!([[[2, x] == x], match x { _ | [[]] => [true, x == [y, [y, 2, 3], [3, x]]], _ => { x == 7, x == 8 }, _ => { y == ['b', 1, 2], false }, }])
}
pub fn case_181(vars: &Vars) -> InferredGoal<DU, DE, Goal<DU, DE>> {
    let x = vars.v[0].clone();
    let y = vars.v[1].clone();
    proto_vulcan!([matche x { h => , [[h], [y]] => [y, y, 1] == y, [[_, 2 | y], _] => { |h| { [_, 3, y] == x }, matchu [y, [], y] { [3, [x], [_, 2] | _] => , [[], [_, 2, 2]] => , _ => , } }, }])
}
pub fn case_182(vars: &Vars) -> InferredGoal<DU, DE, Goal<DU, DE>> {
    let q = vars.v[0].clone();
    let x = vars.v[1].clone();
    proto_vulcan!([q == q, match [3, 2] { _ => [[q, [] | q] == [[[], _, _]], |t, x| { 2 == t, q == [3], "bc" == q }], [[3 | _] | 2] => , }])
}
pub fn case_183(vars: &Vars) -> InferredGoal<DU, DE, Goal<DU, DE>> {
    let x = vars.v[0].clone();
    proto_vulcan!([x == x, matcha ["a", x] { 2 => [conde { [x == ["a", 1], x == [1, x]], [] }, x == "bc"], z => { [|tz| { tz == [3], [1, 3 | tz] != [1, 3, 3] }, [] == z], conde { [], false } }, [["a", 2, []] | _] => [matche x { [[h, [], y | z]] => [[x, []], [y, _], "a"] == z, [2, []] | _ => { append(x, x, [1, 2]), append(x, x, [3, 2]) }, }, true], }])
}
pub fn case_184(vars: &Vars) -> InferredGoal<DU, DE, Goal<DU, DE>> {
    let x = vars.v[0].clone();
    let y = vars.v[1].clone();
    proto_vulcan!([matcha y { [[h, t, 3], 1 | h] => , }])
}
pub fn case_185(vars: &Vars) -> InferredGoal<DU, DE, Goal<DU, DE>> {
    let x = vars.v[0].clone();
    let y = vars.v[1].clone();
    proto_vulcan!([matche x { [h, [1, z | t]] => [onceo { t != t }, matche t { _ | _ => , }], [[3, 1, z | t], ['a', t, t], [3, 2, false] | _] => , }])
}
pub fn case_186(vars: &Vars) -> InferredGoal<DU, DE, Goal<DU, DE>> {
    let x = vars.v[0].clone();
    let y = vars.v[1].clone();
    proto_vulcan!([match y { [1, [t, t | _], [z]] => { [], conde { [append(z, y, [1, 3]), x == t], y == 2, append(x, x, [1, 2]) } }, }])
}
pub fn case_187(vars: &Vars) -> InferredGoal<DU, DE, Goal<DU, DE>> {
    let x = vars.v[0].clone();
    let y = vars.v[1].clone();
    proto_vulcan!([condu { [["bc"] == y, x == [[], 'b', y]] }, match x { [[2], _, [t, y | h]] => , _ | x => , }])
}
pub fn case_188(vars: &Vars) -> InferredGoal<DU, DE, Goal<DU, DE>> {
    let x = vars.v[0].clone();
    proto_vulcan!([[x == [[], _], |tz| { [2, 1, 3, 1] != [2, 1 | tz], tz == [3, 1] }], matchu [x | x] { [[[], h], [_ | x], true] => { append(x, h, []) }, _ => { x == 7, x == 8 }, _ | 3 => [[append(x, x, []), [x | x] != x, append(x, x, [])], match x { _ => [["a", 1, 1] == [], member(x, [2, 2])], }], }])
}
pub fn case_189(vars: &Vars) -> InferredGoal<DU, DE, Goal<DU, DE>> {
    let x = vars.v[0].clone();
    proto_vulcan!([|h| { x != [2, x], h == [x, h] }, matcha x { _ => , }])
}
pub fn case_190(vars: &Vars) -> InferredGoal<DU, DE, Goal<DU, DE>> {
    let x = vars.v[0].clone();
    let y = vars.v[1].clone();
    proto_vulcan!([matchu y { [["bc", x, _ | _], [x, 3 | _]] => { matchu y { _ => { |tz| { tz == [2, 1], [1, 2, 1] != [1 | tz] }, [[x], ["a", y] | x] != y }, [y, [2], 2 | _] => x != [], }, x == x }, _ => , _ => { member(y, [1, 2, 3]) }, }])
}
pub fn case_191(vars: &Vars) -> InferredGoal<DU, DE, Goal<DU, DE>> {
    let x = vars.v[0].clone();
    let y = vars.v[1].clone();
    proto_vulcan!([matchu y { [_, z | z] => [[[3 | x]] == x, |tz| { tz == [3], [2, 3] != [2 | tz] }], z => { |tz| { tz == [1], [3, 2 | tz] != [3, 2, 1] } }, _ | [[z, h, 1], [[], h], [2, 3, []]] => [matchu x { _ => { member(y, [1, 2, 3]) }, }, |x, z| { x == [y, true, x], z != [[z, 2, 2], ["bc", x, 3], [y, 2, x | x]], [y, _] != [[y, _, z], [false, false, x], [2]] }], }])
}
pub fn case_192(vars: &Vars) -> InferredGoal<DU, DE, Goal<DU, DE>> {
    let x = vars.v[0].clone();
    proto_vulcan!([matche [x] { _ => [|h, y| { h == _ }, [append(x, x, [2])]], _ => { member(x, [1, 2, 3]) }, _ => [|t| { true == x, [1 | t] == [1, t], |tz| { tz == [2], [1 | tz] != [1, 2] } }, |h| { x == [[], [3, h | x], 3 | h], false }], }])
}
pub fn case_193(vars: &Vars) -> InferredGoal<DU, DE, Goal<DU, DE>> {
    let x = vars.v[0].clone();
    proto_vulcan!([onceo { |tz| { [3, 3 | tz] != [3, 3, 1], tz == [1] } }, match [[]] { [[y, [], x | _], [t, y | y]] => { conde { x == [x, 'b', x | 1], x == y }, |tz| { [3, 1, 1] != [3 | tz], tz == [1, 1] } }, }])
}
pub fn case_194(vars: &Vars) -> InferredGoal<DU, DE, Goal<DU, DE>> {
    let q = vars.v[0].clone();
    let x = vars.v[1].clone();
    proto_vulcan!([matcha x { [[x, 1, h] | x] => { |t, y| { q == t, q != 2, member(x, [2, 2, 1]) } }, }])
}
pub fn case_195(vars: &Vars) -> InferredGoal<DU, DE, Goal<DU, DE>> {
    let x = vars.v[0].clone();
    proto_vulcan!([match x { [[h, 2], [3, []]] | [[], x | _] => , 2 => { match [3 | 2] { _ => , [[3, h | y]] => { |tz| { [3, 3 | tz] != [3, 3, 2], tz == [2] }, [false, y, 2] == x }, y => , }, |z, t| { [1] == [], [['a']] == x } }, }])
}
pub fn case_196(vars: &Vars) -> InferredGoal<DU, DE, Goal<DU, DE>> {
    let x = vars.v[0].clone();
    proto_vulcan!([matche x { 2 => , }])
}
pub fn case_197(vars: &Vars) -> InferredGoal<DU, DE, Goal<DU, DE>> {
    let q = vars.v[0].clone();
    let x = vars.v[1].clone();
    proto_vulcan!([|x, t| {  }, matche [2, q] { [] => , }])
}
pub fn case_198(vars: &Vars) -> InferredGoal<DU, DE, Goal<DU, DE>> {
    let x = vars.v[0].clone();
    let y = vars.v[1].clone();
    proto_vulcan!([y == y, match y { h => { y == 1, [y] != y }, 1 => , }])
}
pub fn case_199(vars: &Vars) -> InferredGoal<DU, DE, Goal<DU, DE>> {
    let q = vars.v[0].clone();
    let x = vars.v[1].clone();
    proto_vulcan!([matchu q { _ | 3 => { conda { [q == 3, q == [3]] } }, z => x == [[x, _, _], [q], [q, 3, q | q]], }])
}
pub fn case_200(vars: &Vars) -> InferredGoal<DU, DE, Goal<DU, DE>> {
    let q = vars.v[0].clone();
    let x = vars.v[1].clone();
    proto_vulcan!([q == [1, q | q], matche q { [_] => { x == [[1, q, [] | q], x] }, }])
}
pub fn case_201(vars: &Vars) -> InferredGoal<DU, DE, Goal<DU, DE>> {
    let x = vars.v[0].clone();
    proto_vulcan!([matchu x { [[t, _, x], true] => , }])
}
pub fn case_202(vars: &Vars) -> InferredGoal<DU, DE, Goal<DU, DE>> {
    let x = vars.v[0].clone();
    let y = vars.v[1].clone();
    proto_vulcan!([[2, []] == x, matcha y { _ | _ => { y == 7, y == 8 }, }])
}
pub fn case_203(vars: &Vars) -> InferredGoal<DU, DE, Goal<DU, DE>> {
    let x = vars.v[0].clone();
    let y = vars.v[1].clone();
    proto_vulcan!([matchu x { y | x => , _ => { x == 7, x == 8 }, [[3, z, [] | _], 3, t | z] | [[2, 1], _ | _] => { [2] == y }, }])
}
pub fn case_204(vars: &Vars) -> InferredGoal<DU, DE, Goal<DU, DE>> {
    let q = vars.v[0].clone();
    let x = vars.v[1].clone();
    proto_vulcan!([|h| { h != [[], 2, 2], 1 != q, 1 != x }, matchu [[], _, x | 1] { "a" => { conde { x != q, [1 != x, ['a', x, x] != [[false], [x, q], [x]]] }, false }, 2 | [true, [x, h, 1]] => , z => , }])
}
pub fn case_205(vars: &Vars) -> InferredGoal<DU, DE, Goal<DU, DE>> {
    let q = vars.v[0].clone();
    let x = vars.v[1].clone();
    proto_vulcan!([matchu [true, 'b' | q] { [2 | 2] => , 'b' => , [[y], x | x] | [[[], 3, 'b'], y, [1, 1]] => { |y| { false, y == y }, y == [y, q] }, }])
}
pub fn case_206(vars: &Vars) -> InferredGoal<DU, DE, Goal<DU, DE>> {
    let x = vars.v[0].clone();
    proto_vulcan!([onceo { x == x }, matcha x { z | [[z | h]] => , }])
}
pub fn case_207(vars: &Vars) -> InferredGoal<DU, DE, Goal<DU, DE>> {
    let q = vars.v[0].clone();
    let x = vars.v[1].clone();
    proto_vulcan!([matchu q { [h] => append(q, h, [2, 1]), [x, [x, t, [] | h]] => { _ == [x, t, h], conde { [[2, t] == h, x != [x, _, "a"]] } }, }])
}
pub fn case_208(vars: &Vars) -> InferredGoal<DU, DE, Goal<DU, DE>> {
    let x = vars.v[0].clone();
    proto_vulcan!([false, matchu x { [x] => { matche x { [["a" | t], [2, y], [1 | y] | y] => , [x, [_, h | h] | 1] => { false, member(x, [2]) }, } }, [[1, [] | _], [2 | h], t | y] => { [[y] == t, append(t, y, []), false], |y| { y == t, member(t, [2, 2]), append(x, y, []) } }, }])
}
pub fn case_209(vars: &Vars) -> InferredGoal<DU, DE, Goal<DU, DE>> {
    let q = vars.v[0].clone();
    let x = vars.v[1].clone();
    proto_vulcan!([|y, t| {  }, match [3, x | 3] { x => { |z, x| { append(z, x, [1]), [2, 2 | x] == x, x == [2, 1, _ | z] }, false }, [[[], 2]] => , _ | [[2, "bc"], [h, 3, h], [x]] => , }])
}
pub fn case_210(vars: &Vars) -> InferredGoal<DU, DE, Goal<DU, DE>> {
    let q = vars.v[0].clone();
    let x = vars.v[1].clone();
    proto_vulcan!([|y| { q == [y | y], q == 2 }, match q { _ | [[1, 2, x], 'a', [z, "a", 'a'] | x] => |t, y| { [y, q] != y, [t | q] != [y, [_, 1], [q, 3, 2]], |tz| { [3, 1 | tz] != [3, 1, 2], tz == [2] } }, }])
}
pub fn case_211(vars: &Vars) -> InferredGoal<DU, DE, Goal<DU, DE>> {
    let q = vars.v[0].clone();
    let x = vars.v[1].clone();
    proto_vulcan!([[[x, x, q] != x, [[x, q, false], 1 | q] == q, [1, x, [] | x] == [q]], match q { [z, [1, _, "a"], t] => { matche "a" { _ => [z == 7, z == 8], _ => { append(q, z, [1, 3]) }, ["bc", [[], 2, 1] | t] => { member(t, [1, 1]) }, } }, }])
}
pub fn case_212(vars: &Vars) -> InferredGoal<DU, DE, Goal<DU, DE>> {
    let x = vars.v[0].clone();
    let y = vars.v[1].clone();
    proto_vulcan!([x != [2, y], matchu y { _ => , }])
}
pub fn case_213(vars: &Vars) -> InferredGoal<DU, DE, Goal<DU, DE>> {
    let x = vars.v[0].clone();
    let y = vars.v[1].clone();
    proto_vulcan!([[[y] == y, y != 1], matcha y { [1] => |x, h| { x == x, append(h, h, []) }, }])
}
pub fn case_214(vars: &Vars) -> InferredGoal<DU, DE, Goal<DU, DE>> {
    let x = vars.v[0].clone();
    proto_vulcan!([matcha x { [1, h] => [[[]] == h], [[2], _ | 3] => , }])
}
pub fn case_215(vars: &Vars) -> InferredGoal<DU, DE, Goal<DU, DE>> {
    let q = vars.v[0].clone();
    let x = vars.v[1].clone();
    proto_vulcan!([matche x { [[[], 2], 3, [3, z, 2] | x] => { [2] == x, [q] == x }, }])
}
pub fn case_216(vars: &Vars) -> InferredGoal<DU, DE, Goal<DU, DE>> {
    let x = vars.v[0].clone();
    proto_vulcan!([matche x { _ => [x == 7, x == 8], _ | [h, [z, "bc", x | t]] => , [] | [[[]], y] => [condu { x == [[_], x, [x]], x == x, |tz| { [1, 3, 3] != [1, 3 | tz], tz == [3] } }, x == 1], }])
}
pub fn case_217(vars: &Vars) -> InferredGoal<DU, DE, Goal<DU, DE>> {
    let x = vars.v[0].clone();
    let y = vars.v[1].clone();
    proto_vulcan!([matcha y { [3 | z] | _ => , }])
}
pub fn case_218(vars: &Vars) -> InferredGoal<DU, DE, Goal<DU, DE>> {
    let q = vars.v[0].clone();
    let x = vars.v[1].clone();
    proto_vulcan!([true, match x { _ => [append(q, q, [3]), matchu q { [[3, h | h]] => [2, [], []] == q, }], ['a' | y] | 2 => { true, |z| { false } }, [2] => [x] == x, }])
}
pub fn case_219(vars: &Vars) -> InferredGoal<DU, DE, Goal<DU, DE>> {
    let q = vars.v[0].clone();
    let x = vars.v[1].clone();
    proto_vulcan!([matche x { [[y, _, t] | x] => , 1 | [h] => { |z| { z != 1, [2, q] == x, x == q }, [] }, [[1, _], h | y] => { 2 != q, [] == q }, }])
}
pub fn case_220(vars: &Vars) -> InferredGoal<DU, DE, Goal<DU, DE>> {
    let x = vars.v[0].clone();
    let y = vars.v[1].clone();
    proto_vulcan!([matche x { [[[], "bc" | t], x, ['b', y, []]] | [[h, t | z]] => , }])
}
pub fn case_221(vars: &Vars) -> InferredGoal<DU, DE, Goal<DU, DE>> {
    let q = vars.v[0].clone();
    let x = vars.v[1].clone();
    proto_vulcan!([x != "bc", matcha [_, "bc"] { h | [x, [y | y]] => false, y => [true], }])
}
pub fn case_222(vars: &Vars) -> InferredGoal<DU, DE, Goal<DU, DE>> {
    let q = vars.v[0].clone();
    let x = vars.v[1].clone();
    proto_vulcan!([x == q, matcha [3 | x] { [[_, _ | _], h] | _ => |t| { q == [[]], x == t }, x => conde { [_ != x, append(q, x, [3])] }, }])
}
pub fn case_223(vars: &Vars) -> InferredGoal<DU, DE, Goal<DU, DE>> {
    let x = vars.v[0].clone();
    proto_vulcan!([matchu x { _ => , }])
}
pub fn case_224(vars: &Vars) -> InferredGoal<DU, DE, Goal<DU, DE>> {
    let q = vars.v[0].clone();
    let x = vars.v[1].clone();
    proto_vulcan!([|y, z| { false, x == [x, z, y] }, matche x { _ | 'a' => { condu { append(x, q, [3]), [q != [1, _, x | x], q == [[false | q], 3, x | q]] } }, 1 => { condu { 2 == q }, append(x, q, []) }, _ | [1, [1]] => , }])
}
pub fn case_225(vars: &Vars) -> InferredGoal<DU, DE, Goal<DU, DE>> {
    let x = vars.v[0].clone();
    proto_vulcan!([matche [2, 'a', _ | x] { [h, [z] | x] | [[3], [y]] => , }])
}
pub fn case_226(vars: &Vars) -> InferredGoal<DU, DE, Goal<DU, DE>> {
    let x = vars.v[0].clone();
    proto_vulcan!([[2, 2, x] == x, matche x { [x, [z] | t] | 2 => , x => [x == [x, [], x], false], [[y, 1, [] | z], t, [[], x, h]] => { |t| { [z, [3, x | 3]] != y, [x, 2] != t } }, }])
}
pub fn case_227(vars: &Vars) -> InferredGoal<DU, DE, Goal<DU, DE>> {
    let x = vars.v[0].clone();
    proto_vulcan!([|x| { x == x, true, x == [] }, matche x { [[t, 2, y], [_ | 1], ["bc", x]] => , }])
}
pub fn case_228(vars: &Vars) -> InferredGoal<DU, DE, Goal<DU, DE>> {
    let x = vars.v[0].clone();
    proto_vulcan!([match x { y | _ => { onceo { append(x, x, []) } }, [2, [_, t, _], [[], [], _]] => |y, h| { _ == [_], [[y, 2], [1, 1], _] == t }, [[z, 2 | h]] | 2 => , }])
}
pub fn case_229(vars: &Vars) -> InferredGoal<DU, DE, Goal<DU, DE>> {
    let x = vars.v[0].clone();
    let y = vars.v[1].clone();
    proto_vulcan!([[], matchu y { [t, 1, 'a' | h] => { [[x, 2] == x], x != [y] }, _ => { member(x, [1, 2, 3]) }, }])
}
pub fn case_230(vars: &Vars) -> InferredGoal<DU, DE, Goal<DU, DE>> {
    let q = vars.v[0].clone();
    let x = vars.v[1].clone();
    proto_vulcan!([|x| { 3 == 'a', x == [[], x, _], x == [[x]] }, match [[], x] { [2, _] | [] => [true != [[], [], 1], x != q], }])
}
pub fn case_231(vars: &Vars) -> InferredGoal<DU, DE, Goal<DU, DE>> {
    let x = vars.v[0].clone();
    let y = vars.v[1].clone();
    proto_vulcan!([append(y, x, []), matche 2 { [_, [[], "bc"], z] => [append(y, x, []), [z, z, [] | x] == y], [t, [], [h, []]] => [member(t, [2, 1]), [[true] == x, t != [x, h, 3], y == 1]], }])
}
pub fn case_232(vars: &Vars) -> InferredGoal<DU, DE, Goal<DU, DE>> {
    let x = vars.v[0].clone();
    let y = vars.v[1].clone();
    proto_vulcan!([matche x { _ => { member(x, [1, 2, 3]) }, _ => [y == 7, y == 8], }])
}
pub fn case_233(vars: &Vars) -> InferredGoal<DU, DE, Goal<DU, DE>> {
    let x = vars.v[0].clone();
    let y = vars.v[1].clone();
    proto_vulcan!([matchu x { [h, 2] => [|z, t| { false, y == [z], false }, |tz| { tz == [2, 3], [1 | tz] != [1, 2, 3] }], }])
}
pub fn case_234(vars: &Vars) -> InferredGoal<DU, DE, Goal<DU, DE>> {
    let x = vars.v[0].clone();
    proto_vulcan!([[x, x, 2 | x] == x, match x { h => |h| { true, member(x, [3]), true }, _ | _ => , [[h | y], t] => matcha x { [[z, x, "bc"], ["bc" | y], t] => { 1 == h }, }, }])
}
pub fn case_235(vars: &Vars) -> InferredGoal<DU, DE, Goal<DU, DE>> {
    let x = vars.v[0].clone();
    let y = vars.v[1].clone();
    proto_vulcan!([[x | x] == y, match [2 | y] { x => , [x, h, [t, 1, x]] => [match h { [2, [_, z]] => { h != _, false }, }, matche [[] | y] { [3, t, t | x] => _ == [], [3, [z, h, _ | _], [1]] => [t == [_, [], 3], y != t], }], }])
}
pub fn case_236(vars: &Vars) -> InferredGoal<DU, DE, Goal<DU, DE>> {
    let x = vars.v[0].clone();
    let y = vars.v[1].clone();
    proto_vulcan!([matchu [y] { [3, y, []] | _ => [] == x, [[z, z, y] | _] => , [[[], _, _ | _], 2, 2] => { |x| { true, 'a' == x, |tz| { [2, 1 | tz] != [2, 1, 3, 3], tz == [3, 3] } } }, }])
}
pub fn case_237(vars: &Vars) -> InferredGoal<DU, DE, Goal<DU, DE>> {
    let x = vars.v[0].clone();
    let y = vars.v[1].clone();
    proto_vulcan!([matchu x { [] => { matchu y { [[[], _], t] => { [1, x] == x }, _ => { [[], x, 2 | x] == x }, }, _ == y }, [] => { |y, x| { |tz| { [3, 1, 1, 1] != [3, 1 | tz], tz == [1, 1] }, [_, []] == y, y == [[3, _ | x]] } }, t => onceo { [t] != t }, }])
}
pub fn case_238(vars: &Vars) -> InferredGoal<DU, DE, Goal<DU, DE>> {
    let x = vars.v[0].clone();
    proto_vulcan!([member(x, [3, 2, 3]), match x { _ | [[3], [[]]] => [onceo { x == [x, x, _ | x] }, x != [[], 'a', x | x]], 2 => { matchu x { [[h, 2, [] | _], [1, _ | x], [1, 1] | _] | 1 => , [] => { x != x }, } }, _ => { x == [1] }, }])
}
pub fn case_239(vars: &Vars) -> InferredGoal<DU, DE, Goal<DU, DE>> {
    let q = vars.v[0].clone();
    let x = vars.v[1].clone();
    proto_vulcan!([match x { "a" | _ => [_ == x, [[q] != x]], [] => { q == "bc" }, _ => [[], q != x], }])
}
pub fn case_240(vars: &Vars) -> InferredGoal<DU, DE, Goal<DU, DE>> {
    let q = vars.v[0].clone();
    let x = vars.v[1].clone();
    proto_vulcan!([matchu x { x | _ => { member(q, []), member(q, [3, 2]) }, [[[]], [1, t, []], h | h] | _ => , _ => [conda { q != [[] | q], [[2, _ | x] == x, q == [q]] }, condu { true, [q == x, false] }], }])
}
pub fn case_241(vars: &Vars) -> InferredGoal<DU, DE, Goal<DU, DE>> {
    let q = vars.v[0].clone();
    let x = vars.v[1].clone();
    proto_vulcan!([matcha x { _ => [q == 7, q == 8], [1, [y, _, []], [1]] => [x, y, 3] == q, y | _ => , }])
}
pub fn case_242(vars: &Vars) -> InferredGoal<DU, DE, Goal<DU, DE>> {
    let x = vars.v[0].clone();
    let y = vars.v[1].clone();
    proto_vulcan!([y == [2, x | 'a'], match x { [[z | y], _] | [x] => , }])
}
pub fn case_243(vars: &Vars) -> InferredGoal<DU, DE, Goal<DU, DE>> {
    let x = vars.v[0].clone();
    let y = vars.v[1].clone();
    proto_vulcan!([|z| { true }, matcha [1, _] { 2 => [match false { z => , y => , }, conde { y == [x], append(y, x, [2]), y == [[], x, _ | y] }], 3 => , }])
}
pub fn case_244(vars: &Vars) -> InferredGoal<DU, DE, Goal<DU, DE>> {
    let q = vars.v[0].clone();
    let x = vars.v[1].clone();
    proto_vulcan!([matchu x { [[3], 3] | _ => { [[1 | q], [x, 1, []], x] == [[1, 2, 'b'], [x], x] }, }])
}
pub fn case_245(vars: &Vars) -> InferredGoal<DU, DE, Goal<DU, DE>> {
    let x = vars.v[0].clone();
    let y = vars.v[1].clone();
    proto_vulcan!([matcha x { [2, [[], [], 2]] => [x, [], x] == y, _ => [y == 7, y == 8], }])
}
pub fn case_246(vars: &Vars) -> InferredGoal<DU, DE, Goal<DU, DE>> {
    let x = vars.v[0].clone();
    let y = vars.v[1].clone();
    proto_vulcan!([x == [x, x], match x { [["bc", _, x]] => { matche [true, 1, 'b'] { [[1, h] | _] | y => { true }, _ | [z, [h | _], 2] => { true }, [[y, 1, x | t], false] | _ => , }, false }, y | y => { |t| { y == t, |tz| { [3 | tz] != [3, 3, 3], tz == [3, 3] } } }, [[2] | false] => [matcha x { 1 => { false }, }, x == [y, y, x]], }])
}
pub fn case_247(vars: &Vars) -> InferredGoal<DU, DE, Goal<DU, DE>> {
    let x = vars.v[0].clone();
    let y = vars.v[1].clone();
    proto_vulcan!([matche y { h => { |x, h| { true, x != [2, 2 | x], h == [y] } }, 2 => x == 3, [2, 1, [t | 1] | _] => [x == [], y == [2, [x, y], [y]]], }])
}
pub fn case_248(vars: &Vars) -> InferredGoal<DU, DE, Goal<DU, DE>> {
    let x = vars.v[0].clone();
    let y = vars.v[1].clone();
    proto_vulcan!([matcha x { y => { matche x { [1, 1, [t]] => , _ | [[x], x] => { 'b' == y }, } }, }])
}
pub fn case_249(vars: &Vars) -> InferredGoal<DU, DE, Goal<DU, DE>> {
    let x = vars.v[0].clone();
    let y = vars.v[1].clone();
    proto_vulcan!([match [x] { [] => , [[_, t, 2], [[], 3, 1 | z]] => , }])
}
pub fn case_250(vars: &Vars) -> InferredGoal<DU, DE, Goal<DU, DE>> {
    let x = vars.v[0].clone();
    proto_vulcan!([matcha x { [[z | 2], true] | 3 => { |tz| { [3, 1, 1] != [3, 1 | tz], tz == [1] }, conda { x == x } }, }])
}
pub fn case_251(vars: &Vars) -> InferredGoal<DU, DE, Goal<DU, DE>> {
    let x = vars.v[0].clone();
    proto_vulcan!([x == [x], match x { _ => { false }, 2 => { matchu x { [1, [y], [false | "bc"]] => , } }, _ => { x == [1, [], 'b' | x], 1 == x }, }])
}
pub fn case_252(vars: &Vars) -> InferredGoal<DU, DE, Goal<DU, DE>> {
    let x = vars.v[0].clone();
    let y = vars.v[1].clone();
    proto_vulcan!([conde { [1 == x, y == [y]] }, matcha [true, [], y] { t => conda { |tz| { [3, 3, 3, 3] != [3, 3 | tz], tz == [3, 3] }, |tz| { tz == [2], [3, 1, 2] != [3, 1 | tz] } }, 1 => { true, |h, x| { y == [2], [2, 2 | x] == x, false } }, }])
}
pub fn case_253(vars: &Vars) -> InferredGoal<DU, DE, Goal<DU, DE>> {
    let x = vars.v[0].clone();
    proto_vulcan!([matcha x { 3 | _ => { 2 == [[x, x, x], [x, 'a', x], [[], _] | x], x != [x, x, 2] }, [[3 | 1] | y] | [[_, "bc"]] => conde { [], [x == x, append(x, x, [3, 3])], [append(x, x, [1, 3]), x == [[1, true], 2, [x, [], x] | _]] }, [[[], 3, t]] => , }])
}
pub fn case_254(vars: &Vars) -> InferredGoal<DU, DE, Goal<DU, DE>> {
    let q = vars.v[0].clone();
    let x = vars.v[1].clone();
    proto_vulcan!([conde { true, [q == [[q, q, []], [q, 3 | x]], true] }, matche x { ["a", [_, y, t | _], h] => , _ => member(x, [1, 2, 3]), }])
}
pub fn case_255(vars: &Vars) -> InferredGoal<DU, DE, Goal<DU, DE>> {
    let x = vars.v[0].clone();
    proto_vulcan!([matcha _ { [[x, 2, y]] => { [[] == y] }, }])
}
pub fn case_256(vars: &Vars) -> InferredGoal<DU, DE, Goal<DU, DE>> {
    let x = vars.v[0].clone();
    let y = vars.v[1].clone();
    proto_vulcan!([match x { 3 => , }])
}
pub fn case_257(vars: &Vars) -> InferredGoal<DU, DE, Goal<DU, DE>> {
    let x = vars.v[0].clone();
    proto_vulcan!([[member(x, [3, 1, 1]), x == [x]], matchu [2, 2, 1] { [[x, []], z, []] | [2, 3, [h]] => , }])
}
pub fn case_258(vars: &Vars) -> InferredGoal<DU, DE, Goal<DU, DE>> {
    let x = vars.v[0].clone();
    let y = vars.v[1].clone();
    proto_vulcan!([|tz| { tz == [3, 2], [2, 1, 3, 2] != [2, 1 | tz] }, matche y { [[_], _, [] | t] => { t == [], |h| { append(t, x, [2]), [] != 2 } }, }])
}
pub fn case_259(vars: &Vars) -> InferredGoal<DU, DE, Goal<DU, DE>> {
    let q = vars.v[0].clone();
    let x = vars.v[1].clone();
    proto_vulcan!([matchu x { [x, [[], 1, 2]] => { [x == [[1, 3] | x]], |x| { [1, "bc"] == x, x == [[]] } }, }])
}
pub fn case_260(vars: &Vars) -> InferredGoal<DU, DE, Goal<DU, DE>> {
    let q = vars.v[0].clone();
    let x = vars.v[1].clone();
    proto_vulcan!([matche x { [[2, y | y], h] => , [[h, x], [y, z]] => [condu { append(x, x, [3]) }, [[x]] == q], [[z], 1, y] | [[x, "bc"], 3] => { match q { [[t, _, y]] => [3 == y, y == q], z | [[], x, [y]] => append(q, q, []), _ | _ => { false }, } }, }])
}
pub fn case_261(vars: &Vars) -> InferredGoal<DU, DE, Goal<DU, DE>> {
    let x = vars.v[0].clone();
    let y = vars.v[1].clone();
    proto_vulcan!([x == x, matchu y { [_, [t, 1, y | _], [true, t] | t] => { conda { t == true } }, }])
}
pub fn case_262(vars: &Vars) -> InferredGoal<DU, DE, Goal<DU, DE>> {
    let x = vars.v[0].clone();
    let y = vars.v[1].clone();
    proto_vulcan!([matche y { [] => |tz| { tz == [2], [2, 3, 2] != [2, 3 | tz] }, "a" => [matchu x { [[], y, [x, y, _]] => { append(x, y, [3]) }, }, true != 1], _ => [x == 7, x == 8], }])
}
pub fn case_263(vars: &Vars) -> InferredGoal<DU, DE, Goal<DU, DE>> {
    let q = vars.v[0].clone();
    let x = vars.v[1].clone();
    proto_vulcan!([|x, z| { |tz| { tz == [3], [1 | tz] != [1, 3] }, true }, matchu q { _ => { matchu [1, "a" | q] { [[false, 2 | _]] | [[[], 2, 1], z] => [[1] != q, true], [[x, 2, 2] | h] | [[], 1 | h] => { h == h }, [[t, _, true], [3], [_, true]] | _ => { true }, } }, }])
}
pub fn case_264(vars: &Vars) -> InferredGoal<DU, DE, Goal<DU, DE>> {
    let q = vars.v[0].clone();
    let x = vars.v[1].clone();
    proto_vulcan!([[x] != q, matchu q { _ => , }])
}
pub fn case_265(vars: &Vars) -> InferredGoal<DU, DE, Goal<DU, DE>> {
    let x = vars.v[0].clone();
    proto_vulcan!([matcha x { [['a', []], [_, 1, h] | z] => { h == [x, h | z], [[1] == h, x == 'b', z == []] }, }])
}
pub fn case_266(vars: &Vars) -> InferredGoal<DU, DE, Goal<DU, DE>> {
    let x = vars.v[0].clone();
    proto_vulcan!([true, matcha x { [_, [h, h], [[], t] | h] => { matche [t] { [] => member(h, [3]), [2, []] | 3 => { [_, [], "a" | x] == x, member(x, [2]) }, [[t, 1, false], y] | 1 => [append(h, x, [1, 2]), x != [2, x, []]], }, conda { h == [2, [], h | t] } }, [_, [z, h], y] => { conde { x == h, [[_, x | h] != x, y == [1, ['a', []], _]], [h == y, z != [[x]]] } }, t => { conde { [[x, [], t | t] == t, [[] | t] == t], [_, x] != t } }, }])
}
pub fn case_267(vars: &Vars) -> InferredGoal<DU, DE, Goal<DU, DE>> {
    let q = vars.v[0].clone();
    let x = vars.v[1].clone();
    proto_vulcan!([q == x, matchu q { [[2, [], x], [t]] => , _ | [t, [_, false, z]] => , }])
}
pub fn case_268(vars: &Vars) -> InferredGoal<DU, DE, Goal<DU, DE>> {
    let x = vars.v[0].clone();
    let y = vars.v[1].clone();
    proto_vulcan!([|tz| { tz == [3, 2], [2, 3, 2] != [2 | tz] }, match y { [x, 2] | _ => , [h | x] | z => { condu { [append(y, y, [2]), member(y, [2, 2])], y == y, [true, y == [y, 3, []]] } }, [[h]] => { |x| { |tz| { tz == [3, 2], [1, 2 | tz] != [1, 2, 3, 2] } } }, }])
}
pub fn case_269(vars: &Vars) -> InferredGoal<DU, DE, Goal<DU, DE>> {
    let x = vars.v[0].clone();
    proto_vulcan!([matchu x { _ => { |t| { x == [_, ["a" | t]], 'b' != x, [x | x] != t } }, }])
}
pub fn case_270(vars: &Vars) -> InferredGoal<DU, DE, Goal<DU, DE>> {
    let x = vars.v[0].clone();
    let y = vars.v[1].clone();
    proto_vulcan!([match x { [2] => , }])
}
pub fn case_271(vars: &Vars) -> InferredGoal<DU, DE, Goal<DU, DE>> {
    let q = vars.v[0].clone();
    let x = vars.v[1].clone();
    proto_vulcan!([matchu x { [] | 2 => { _ == q, conde { [member(x, [3, 2, 1]), q != 3], 'a' == [[1, 'b' | x], [q] | x], [[q, x, x | x]] != 2 } }, [] | y => , }])
}
pub fn case_272(vars: &Vars) -> InferredGoal<DU, DE, Goal<DU, DE>> {
    let x = vars.v[0].clone();
    let y = vars.v[1].clone();
    proto_vulcan!([matche x { t | x => , [[[], [], _], [x, _, 3 | x], z] => [|tz| { [1, 1] != [1 | tz], tz == [1] }, [3] == true], z => [true, [[3 | z], [1, 3]] == x], }])
}
pub fn case_273(vars: &Vars) -> InferredGoal<DU, DE, Goal<DU, DE>> {
    let x = vars.v[0].clone();
    proto_vulcan!([|t, z| { [x] == x }, matchu x { [[1], 1] => [x != x, conda { [[x, 1] == x, x == x] }], }])
}
pub fn case_274(vars: &Vars) -> InferredGoal<DU, DE, Goal<DU, DE>> {
    let x = vars.v[0].clone();
    proto_vulcan!([x != [_, x], match 2 { [[y, z, []], [1] | z] | [[2, 1, 3]] => x != x, [_] => |y| { |tz| { tz == [2, 2], [1, 2, 2] != [1 | tz] }, [x, 2 | 1] != x, [y, y, y] == x }, }])
}
pub fn case_275(vars: &Vars) -> InferredGoal<DU, DE, Goal<DU, DE>> {
    let x = vars.v[0].clone();
    let y = vars.v[1].clone();
    proto_vulcan!([|t| { [t, [x, 'a' | y]] == [[2, 3, t], 1 | x], append(x, x, [1]) }, matcha x { [[y] | _] => { condu { [[3, 3, _ | y] == y, y == [2, 2, x]] } }, _ => { x == 7, x == 8 }, z => { matcha y { [2] | h => { x == y }, h => , } }, }])
}
pub fn case_276(vars: &Vars) -> InferredGoal<DU, DE, Goal<DU, DE>> {
    let q = vars.v[0].clone();
    let x = vars.v[1].clone();
    proto_vulcan!([q == x, matcha [2, 1] { [2] => [[2, q | q] == x, [_, _, 1] == x], [[x], [h, 'b'], [2, t]] | 1 => [q == 1, [3, q] == q], }])
}
pub fn case_277(vars: &Vars) -> InferredGoal<DU, DE, Goal<DU, DE>> {
    let x = vars.v[0].clone();
    proto_vulcan!([x != _, match x { [[z]] => { z == _ }, [2, _] => [[x == x], member(x, [])], [[true, 1, 2], [1, true, x]] => [member(x, [2, 3]), matchu x { ['a'] => { [x, x] != x, false }, [[2, 3], 3] => , _ | [_ | h] => [x == "bc", _ != x], }], }])
}
pub fn case_278(vars: &Vars) -> InferredGoal<DU, DE, Goal<DU, DE>> {
    let q = vars.v[0].clone();
    let x = vars.v[1].clone();
    proto_vulcan!([match 1 { [[3, z | z], [t, x, 3 | h], [2]] => , [] => { x != [q, true, 2] }, }])
}
pub fn case_279(vars: &Vars) -> InferredGoal<DU, DE, Goal<DU, DE>> {
    let x = vars.v[0].clone();
    proto_vulcan!([matche x { [[3 | h]] => [h == x, onceo { 1 == x }], }])
}
pub fn case_280(vars: &Vars) -> InferredGoal<DU, DE, Goal<DU, DE>> {
    let q = vars.v[0].clone();
    let x = vars.v[1].clone();
    proto_vulcan!([false, match [2, 1, 2] { [3, [t, 1] | _] | 1 => , }])
}
pub fn case_281(vars: &Vars) -> InferredGoal<DU, DE, Goal<DU, DE>> {
    let x = vars.v[0].clone();
    proto_vulcan!([|tz| { [1, 2, 2] != [1 | tz], tz == [2, 2] }, matchu [x, 2, 2] { [[z, _], 2, [t | _] | _] | [z] => , [[[]], [2], t] => , 2 => { matcha x { _ => , [x] => [x == [x, 1, [[], 2, x] | x], false], 'b' => { false, 2 == x }, }, x == 3 }, }])
}
pub fn case_282(vars: &Vars) -> InferredGoal<DU, DE, Goal<DU, DE>> {
    let x = vars.v[0].clone();
    proto_vulcan!([x == x, matcha x { 2 => , }])
}
pub fn case_283(vars: &Vars) -> InferredGoal<DU, DE, Goal<DU, DE>> {
    let x = vars.v[0].clone();
    proto_vulcan!([true, match x { [[_, y, 'b']] => { matchu x { [] | [["bc"], _, []] => , _ | [[[], 1 | h] | 1] => { x == y }, [2] | [[t, 1, 2], [_, 2], [_, y, 'b'] | z] => true, } }, }])
}
pub fn case_284(vars: &Vars) -> InferredGoal<DU, DE, Goal<DU, DE>> {
    let x = vars.v[0].clone();
    proto_vulcan!([x != _, matche [1 | x] { 1 => , [3, [[], t | _], x | h] => , }])
}
pub fn case_285(vars: &Vars) -> InferredGoal<DU, DE, Goal<DU, DE>> {
    let x = vars.v[0].clone();
    let y = vars.v[1].clone();
    proto_vulcan!([x == [1, [2, _] | y], y != []])
}
pub fn case_286(vars: &Vars) -> InferredGoal<DU, DE, Goal<DU, DE>> {
    let x = vars.v[0].clone();
    proto_vulcan!([conde { x == 'a', [x == "bc", true], false }])
}
pub fn case_287(vars: &Vars) -> InferredGoal<DU, DE, Goal<DU, DE>> {
    let q = vars.v[0].clone();
    let x = vars.v[1].clone();
    proto_vulcan!([|x| { x == 1, q == [x, true] }])
}
pub fn case_288(vars: &Vars) -> InferredGoal<DU, DE, Goal<DU, DE>> {
    let x = vars.v[0].clone();
    proto_vulcan!([closure { [x == 1, conde { true, true }] }])
}
pub fn case_289(vars: &Vars) -> InferredGoal<DU, DE, Goal<DU, DE>> {
    let x = vars.v[0].clone();
    let y = vars.v[1].clone();
    proto_vulcan!([[] == x, y == [[]]])
}
pub fn case_290(vars: &Vars) -> InferredGoal<DU, DE, Goal<DU, DE>> {
    let q = vars.v[0].clone();
    let x = vars.v[1].clone();
    proto_vulcan!([member(x, []), [q != 2, x == [q | x]]])
}
pub fn case_291(vars: &Vars) -> InferredGoal<DU, DE, Goal<DU, DE>> {
    let q = vars.v[0].clone();
    let x = vars.v[1].clone();
    proto_vulcan!([|y| { [2] == y, [q != 3, |y| {  }, conde { x == y }], member(q, [3, 3]) }, x != 2])
}
pub fn case_292(vars: &Vars) -> InferredGoal<DU, DE, Goal<DU, DE>> {
    let q = vars.v[0].clone();
    let x = vars.v[1].clone();
    proto_vulcan!([conde { [[[], [], q | q] != x, q == [3, 3]], [conde { [q == [[2, 2, 1], [2]], [] == q], onceo { true } }, |y| { conde { member(x, [2]), [x != 2, 3 == y], y == _ }, |t| { [t, y] != y, append(t, y, [3]), member(y, [1, 1, 1]) } }] }, [q, q, 2 | q] == x, |tz| { [1, 1, 1, 3] != [1, 1 | tz], tz == [1, 3] }, closure { condu { [[q, q], x] == 1, [onceo { [] != [x, x] }, |y, x| { member(q, [3]), [[], y, [1, x, 1] | 1] == [[1, q, x], [y, 3, x | 2]], [[x]] == [[_ | x], [x, y, []]] }] } }])
}
pub fn case_293(vars: &Vars) -> InferredGoal<DU, DE, Goal<DU, DE>> {
    let x = vars.v[0].clone();
    let y = vars.v[1].clone();
    proto_vulcan!([conda { [1 == 1, |z, x| { [_, z] == _, |tz| { [1, 2, 2] != [1 | tz], tz == [2, 2] } }], |tz| { tz == [1, 3], [2, 2, 1, 3] != [2, 2 | tz] } }])
}
pub fn case_294(vars: &Vars) -> InferredGoal<DU, DE, Goal<DU, DE>> {
    let x = vars.v[0].clone();
    let y = vars.v[1].clone();
    proto_vulcan!([condu { [[x, y, x | y], x] == [y, x] }, condu { y == _ }, [x == [x | y], x == x], closure { [] }])
}
pub fn case_295(vars: &Vars) -> InferredGoal<DU, DE, Goal<DU, DE>> {
    let x = vars.v[0].clone();
    let y = vars.v[1].clone();
    proto_vulcan!([[_, x, [_ | y]] == [[] | x], conde { ['b', _] == x, [y, 3, 3] != 2, 1 == y }])
}
pub fn case_296(vars: &Vars) -> InferredGoal<DU, DE, Goal<DU, DE>> {
    let q = vars.v[0].clone();
    let x = vars.v[1].clone();
    proto_vulcan!([[1 | q] == [_, 2, q]])
}
pub fn case_297(vars: &Vars) -> InferredGoal<DU, DE, Goal<DU, DE>> {
    let x = vars.v[0].clone();
    let y = vars.v[1].clone();
    proto_vulcan!([|y| { |h| {  } }, closure { [2, x] == x }])
}
pub fn case_298(vars: &Vars) -> InferredGoal<DU, DE, Goal<DU, DE>> {
    let x = vars.v[0].clone();
    proto_vulcan!([conda { [append(x, x, [1]), []], [conda { [|tz| { [2, 1 | tz] != [2, 1, 1, 3], tz == [1, 3] }, |tz| { [3 | tz] != [3, 2], tz == [2] }], [conde { [1 == x, member(x, [1, 2])], [x == 1, false] }, [[x, x, x] | x] == x] }, [[1, false | x] == x, x == [[_, x, x | x], [[], 3, 1 | x], [x, 3]]]], x == 3 }, [[x, x, x] | _] == x, closure { x != 2 }])
}
pub fn case_299(vars: &Vars) -> InferredGoal<DU, DE, Goal<DU, DE>> {
    let x = vars.v[0].clone();
    proto_vulcan!([x != x, onceo { [1, 1] == x }, conda { |x, h| { conde { h == 2 }, x == x, x == x } }])
}
pub fn case_300(vars: &Vars) -> InferredGoal<DU, DE, Goal<DU, DE>> {
    let q = vars.v[0].clone();
    let x = vars.v[1].clone();
    proto_vulcan!([[x, _, [[], true]] == x, [false], |z| { |x| { condu { x == [_, z], [[z, false] == [q], x == x], q != [[], _, []] }, [_, "a", 1 | q] == z } }])
}
pub fn case_301(vars: &Vars) -> InferredGoal<DU, DE, Goal<DU, DE>> {
    let x = vars.v[0].clone();
    proto_vulcan!([|y| {  }, x == x, closure { conde { [member(x, [2, 3, 1]), x != 1], [[_, 1] | x] == x, |z| { |tz| { [1, 3 | tz] != [1, 3, 3, 3], tz == [3, 3] } } } }])
}
pub fn case_302(vars: &Vars) -> InferredGoal<DU, DE, Goal<DU, DE>> {
    let x = vars.v[0].clone();
    let y = vars.v[1].clone();
    proto_vulcan!([[[1, _], [x, x, x]] != [['a', [], false]], [_ == y], |x| { |h| { [x == 3, [h, true | 3] == h] }, conde { |x| { |tz| { tz == [2], [1 | tz] != [1, 2] } }, member(x, [3, 3, 3]), [x == [y], y == 2] } }, closure { [|t, z| { conde { [append(z, t, [3, 2]), t != y], y == 2 } }, conde { y == [_ | x], [|tz| { tz == [3], [1, 3] != [1 | tz] }, [|tz| { tz == [2, 1], [1 | tz] != [1, 2, 1] }, [2, y] == y, |tz| { [1, 1 | tz] != [1, 1, 2, 1], tz == [2, 1] }]], [y == [2], [2] == x, x != [x, y, 1]] }] }])
}
pub fn case_303(vars: &Vars) -> InferredGoal<DU, DE, Goal<DU, DE>> {
    let x = vars.v[0].clone();
    let y = vars.v[1].clone();
    proto_vulcan!([x != 'b', y != [y, [x, _]]])
}
pub fn case_304(vars: &Vars) -> InferredGoal<DU, DE, Goal<DU, DE>> {
    let x = vars.v[0].clone();
    let y = vars.v[1].clone();
    proto_vulcan!([x == x, y != y])
}
pub fn case_305(vars: &Vars) -> InferredGoal<DU, DE, Goal<DU, DE>> {
    let x = vars.v[0].clone();
    let y = vars.v[1].clone();
    proto_vulcan!([[x] == y, conde { |y| { member(x, []), [[] == y] }, [[[x], [x, _, 2], [[]]] == 3], |z| { [x, [[] | x], [1] | y] == x } }])
}
pub fn case_306(vars: &Vars) -> InferredGoal<DU, DE, Goal<DU, DE>> {
    let q = vars.v[0].clone();
    let x = vars.v[1].clone();
    proto_vulcan!([conda { x != [2, x, _ | 3] }, condu { |y| { conde { [|tz| { tz == [3, 3], [3 | tz] != [3, 3, 3] }, |tz| { tz == [3, 1], [2, 1 | tz] != [2, 1, 3, 1] }], [3 | y] == q, 'b' != [[x | x], [2, 2]] }, q == [3, _, "bc" | y] } }, 1 == q])
}
pub fn case_307(vars: &Vars) -> InferredGoal<DU, DE, Goal<DU, DE>> {
    let x = vars.v[0].clone();
    proto_vulcan!([true, |y, t| { _ == [[1, 3, 1], [3, t, t], _ | 2] }, x != [3]])
}
pub fn case_308(vars: &Vars) -> InferredGoal<DU, DE, Goal<DU, DE>> {
    let x = vars.v[0].clone();
    let y = vars.v[1].clone();
    proto_vulcan!([|tz| { tz == [3, 1], [3 | tz] != [3, 3, 1] }, [x, [2 | y]] == y, closure { |h| { 3 == h } }])
}
pub fn case_309(vars: &Vars) -> InferredGoal<DU, DE, Goal<DU, DE>> {
    let x = vars.v[0].clone();
    proto_vulcan!([2 == x, closure { [|t, h| { [t, [h, "a", h], [t, [] | h] | t] == [[], h] }, |h, z| { 1 == [_, true], conda { [true, z == 1], h == [[1] | h] }, conda { append(h, x, [3, 3]), [] == z, [z == [false, false, false], [h | z] == 2] } }] }])
}
pub fn case_310(vars: &Vars) -> InferredGoal<DU, DE, Goal<DU, DE>> {
    let q = vars.v[0].clone();
    let x = vars.v[1].clone();
    proto_vulcan!([[[[2], [x], [x]] != x, conde { [] == x, [q != x, false], [onceo { [1, q, 1 | x] == x }, x == q] }, 1 == q], x != [[2, x], _], x == x])
}
pub fn case_311(vars: &Vars) -> InferredGoal<DU, DE, Goal<DU, DE>> {
    let x = vars.v[0].clone();
    let y = vars.v[1].clone();
    proto_vulcan!([true == 2])
}
pub fn case_312(vars: &Vars) -> InferredGoal<DU, DE, Goal<DU, DE>> {
    let q = vars.v[0].clone();
    let x = vars.v[1].clone();
    proto_vulcan!([conde { [], [[2, x | q] == x, onceo { [append(x, x, []), x != [_], x != x] }], [[[q, x, 1], 1] == 3, condu { q != x, [[x] == [[2, x], [_, [] | x]], q == 2] }] }, q == x])
}
pub fn case_313(vars: &Vars) -> InferredGoal<DU, DE, Goal<DU, DE>> {
    let q = vars.v[0].clone();
    let x = vars.v[1].clone();
    proto_vulcan!([true, conde { conde { q == 2, [true, [1] == [1, 2 | 2]], [[["bc"], [2, 'a', x | x], ['b']] != x, x != q] }, [[true], conde { [[[[q, _]] == q, x == [x, x], [1, 1] == q], |x| { q == [[], x | q], append(x, x, [3]) }], [false, [|tz| { [1 | tz] != [1, 1, 3], tz == [1, 3] }]] }], [_, 3] == x }])
}
pub fn case_314(vars: &Vars) -> InferredGoal<DU, DE, Goal<DU, DE>> {
    let q = vars.v[0].clone();
    let x = vars.v[1].clone();
    proto_vulcan!([conde { [member(x, [1]), [|tz| { tz == [3], [1, 1 | tz] != [1, 1, 3] }, _ == x], [2, q, 'a' | q] != x], x == q, |z, y| { |t| { [[[], 2], [q] | x] == [[t, 2], [], 2], member(x, [2, 3, 3]), false }, member(x, [1]) } }, x == [x], closure { x == [[x]] }])
}
pub fn case_315(vars: &Vars) -> InferredGoal<DU, DE, Goal<DU, DE>> {
    let x = vars.v[0].clone();
    let y = vars.v[1].clone();
    proto_vulcan!([append(x, y, [2]), |z| { append(x, x, []), z == x, |x| { |tz| { [3, 2 | tz] != [3, 2, 3], tz == [3] } } }, conde { x != [1], y == _ }, closure { [1 == x, conde { [[]] == x, conde { x == [3, 3], [y == [2], y == [_, 3, x | x]], x == [false, 2, 'a' | y] } }] }])
}
pub fn case_316(vars: &Vars) -> InferredGoal<DU, DE, Goal<DU, DE>> {
    let q = vars.v[0].clone();
    let x = vars.v[1].clone();
    proto_vulcan!([|x| { [x == _, x == x, 3 == [[q, 2, _], [1, 2, _], [1, []] | q]], [q == x, q == [2, x], x == 2], x == [] }, condu { |x| { |y| { [y, ["a"]] == q, q != q } }, [[conde { x == _ }, [[[1, "a"] | q] == 2]], |z| { q == ["a", []], [[[_, []], [q, 1, 3], [z | x]] == z, [[]] != [z]] }] }, closure { conde { |t, z| { member(x, []) }, true } }])
}
pub fn case_317(vars: &Vars) -> InferredGoal<DU, DE, Goal<DU, DE>> {
    let x = vars.v[0].clone();
    proto_vulcan!([|h| { [|y, z| { [y | x] == y, [y] == h, [] != h }, [[2, [], 2 | 2], [_, 1, "bc"], _] == h], [conde { x == [x, [], [h, [], x]] }, [[]] == x] }, closure { [|z| { x == 3, z == z, |t, z| { |tz| { [1, 2 | tz] != [1, 2, 1], tz == [1] }, x == z, |tz| { tz == [1, 2], [2, 1, 2] != [2 | tz] } } }, [2, 1, _ | x] == x] }])
}
pub fn case_318(vars: &Vars) -> InferredGoal<DU, DE, Goal<DU, DE>> {
    let x = vars.v[0].clone();
    let y = vars.v[1].clone();
    proto_vulcan!([|tz| { [1, 1, 3] != [1 | tz], tz == [1, 3] }])
}
pub fn case_319(vars: &Vars) -> InferredGoal<DU, DE, Goal<DU, DE>> {
    let q = vars.v[0].clone();
    let x = vars.v[1].clone();
    proto_vulcan!([conde { |t| { append(q, q, [2, 2]) }, [member(q, []), conde { |tz| { [2, 1, 3, 3] != [2, 1 | tz], tz == [3, 3] }, [condu { x != [] }, [3, q, 1 | _] == x] }] }, |tz| { tz == [1], [3, 3 | tz] != [3, 3, 1] }, |x| { [x, q, _ | x] == x, [1] == x, x == 1 }])
}
pub fn case_320(vars: &Vars) -> InferredGoal<DU, DE, Goal<DU, DE>> {
    let x = vars.v[0].clone();
    let y = vars.v[1].clone();
    proto_vulcan!([x == true, y == y, [['a'], [x, 1, 2], 1] == y])
}
pub fn case_321(vars: &Vars) -> InferredGoal<DU, DE, Goal<DU, DE>> {
    let x = vars.v[0].clone();
    let y = vars.v[1].clone();
    proto_vulcan!([true, conde { |z, t| { t == [], y == [[_, 1, 1], [t, 1 | 2] | "bc"] }, false }, |t| { [conde { [], [y, _, x] == y }, t != x, onceo { |tz| { tz == [2, 1], [3, 2, 1] != [3 | tz] } }] }, closure { [[x != x, true], y == x] }])
}
pub fn case_322(vars: &Vars) -> InferredGoal<DU, DE, Goal<DU, DE>> {
    let q = vars.v[0].clone();
    let x = vars.v[1].clone();
    proto_vulcan!([conde { |t, z| { z != [_, [1, 2]], conde { [[1] == t, t == [[], t, q]], [t == t, t == [_, 1, _ | z]] } }, [|t| { t == [_] }, conda { [x == 2, true] }] }])
}
pub fn case_323(vars: &Vars) -> InferredGoal<DU, DE, Goal<DU, DE>> {
    let x = vars.v[0].clone();
    let y = vars.v[1].clone();
    proto_vulcan!([[|tz| { tz == [1, 1], [1, 2, 1, 1] != [1, 2 | tz] }, conde { |tz| { [1 | tz] != [1, 3, 3], tz == [3, 3] }, [|tz| { [2 | tz] != [2, 2, 1], tz == [2, 1] }, y != x] }, [[[y, x, x | y] == x, [[1, "a", y], y, 1 | 1] == y, |tz| { tz == [1, 2], [1, 1 | tz] != [1, 1, 1, 2] }], x != y, member(x, [2, 1])]], onceo { [conde { append(x, x, [3]), [[2], [1, 1, y]] == x }, [2 | y] == x, |y| { member(x, [3]) }] }])
}
pub fn case_324(vars: &Vars) -> InferredGoal<DU, DE, Goal<DU, DE>> {
    let x = vars.v[0].clone();
    proto_vulcan!([conde { [false, x == 'b'], [[x == [2, _ | x], x == 2], |z| { [_ | x] == z, [x, _, "a" | x] == x }], [[x] == x, conde { [x != _, conde { 2 == x, [|tz| { [1, 1] != [1 | tz], tz == [1] }, [2] == x], false }], [x != x, |tz| { [1, 1 | tz] != [1, 1, 2, 2], tz == [2, 2] }], [true] }] }, [2, x] == x, closure { conde { [conda { [false, [x, [2, x, x | x] | x] == [[x, x, _], [[] | x]]], x == [[1, x], [x, 3, x], [x, [] | 2]], [] == x }, [x == 1, |tz| { [2, 3, 3, 3] != [2, 3 | tz], tz == [3, 3] }]], [|z, x| { [2, []] == z }, |z| { z == 1, x == [_, false] }], [x, [], x] != x } }])
}
pub fn case_325(vars: &Vars) -> InferredGoal<DU, DE, Goal<DU, DE>> {
    let q = vars.v[0].clone();
    let x = vars.v[1].clone();
    proto_vulcan!([q == q, [[[[x, 1] == q]], conde { [], [false, |h| {  }] }], closure { [member(q, [2, 3]), [|z| { 2 == [false, z, q], q == [q], [3, 3, q | 1] == q }, |h| { x == _, q != [h, 1], [h, 1, 1 | h] != x }]] }])
}
pub fn case_326(vars: &Vars) -> InferredGoal<DU, DE, Goal<DU, DE>> {
    let x = vars.v[0].clone();
    proto_vulcan!([[_, [2, 1 | x], x] == ["bc", x, [[]]], |h, t| { 1 == h, t == t }, [x, 3] == x])
}
pub fn case_327(vars: &Vars) -> InferredGoal<DU, DE, Goal<DU, DE>> {
    let x = vars.v[0].clone();
    let y = vars.v[1].clone();
    proto_vulcan!([|h| { append(y, h, []) }, 1 == ["a"], closure { [y == y, [x, 3, 2] == [x]] }])
}
pub fn case_328(vars: &Vars) -> InferredGoal<DU, DE, Goal<DU, DE>> {
    let x = vars.v[0].clone();
    proto_vulcan!([x != [3, [], x], [[x]] == [2, x | x], |z, h| { h == h, [3, h, _] == z }, closure { [[x == [_, "bc"], x != 1, true], [2, 3, x | x] == x] }])
}
pub fn case_329(vars: &Vars) -> InferredGoal<DU, DE, Goal<DU, DE>> {
    let q = vars.v[0].clone();
    let x = vars.v[1].clone();
    proto_vulcan!([[[[q != 1], |z| { member(x, []), 1 != q }], true, |h, z| { h == 3, [2, 2, h] == x, z == [3, 'b', 1 | z] }], |tz| { [3 | tz] != [3, 2, 3], tz == [2, 3] }, q == x])
}
pub fn case_330(vars: &Vars) -> InferredGoal<DU, DE, Goal<DU, DE>> {
    let x = vars.v[0].clone();
    proto_vulcan!([[x] == x])
}
pub fn case_331(vars: &Vars) -> InferredGoal<DU, DE, Goal<DU, DE>> {
    let q = vars.v[0].clone();
    let x = vars.v[1].clone();
    proto_vulcan!([conda { |tz| { tz == [1], [3, 3 | tz] != [3, 3, 1] }, [[[q, q] == x, condu { [q] == x }, q == [2, [], x]], x == [[x, 1], 2, [x]]] }, |x, t| { onceo { |t, z| { append(q, z, [3]), false, [[t, 2], [_, x | 'b'], 3 | t] == [[_, x, 1], 2 | q] } } }, [x] == [['b', 2], [_], _ | q]])
}
pub fn case_332(vars: &Vars) -> InferredGoal<DU, DE, Goal<DU, DE>> {
    let q = vars.v[0].clone();
    let x = vars.v[1].clone();
    proto_vulcan!([|h| { [], 1 == q, x != [1, 'a' | h] }])
}
pub fn case_333(vars: &Vars) -> InferredGoal<DU, DE, Goal<DU, DE>> {
    let x = vars.v[0].clone();
    proto_vulcan!([conde { conde { 1 != _, [true, x == [x, _ | 3]], [|h| { [1, x | h] == x, [x, x, h] == x, x != _ }, true] } }, conda { [append(x, x, [2, 3]), |tz| { [1, 1 | tz] != [1, 1, 2, 3], tz == [2, 3] }] }, [] == x, closure { [1, 2] != [3, [_, 'a' | x], [[], x, x | x]] }])
}
pub fn case_334(vars: &Vars) -> InferredGoal<DU, DE, Goal<DU, DE>> {
    let x = vars.v[0].clone();
    let y = vars.v[1].clone();
    proto_vulcan!([conde { [conde { [], [x == x, conde { [], false, [y != [x, x, true], |tz| { [3 | tz] != [3, 2, 3], tz == [2, 3] }] }] }, condu { conde { member(x, [3, 3]), [[], 1, [x, 2, 2] | y] == [_], |tz| { tz == [2], [2, 2] != [2 | tz] } }, |h, t| { [x, 1] == t, [[t], [2 | y]] != h, "a" == h } }] }])
}
pub fn case_335(vars: &Vars) -> InferredGoal<DU, DE, Goal<DU, DE>> {
    let q = vars.v[0].clone();
    let x = vars.v[1].clone();
    proto_vulcan!([|tz| { tz == [3, 3], [3, 1 | tz] != [3, 1, 3, 3] }, conde { [x == 1, conde { [_] != q, |tz| { [1, 3] != [1 | tz], tz == [3] } }], onceo { onceo { member(x, [1]) } } }, |t, x| { conde { |y, x| { q == [[x, 1], [2], [true]], [[], 1, _] == q }, append(x, q, [3, 2]) }, q != [["bc", 3, true | x], ['b', q | q], [1, 1, x]] }, closure { [|tz| { tz == [2], [1, 2] != [1 | tz] }, [q == [[], _, 1]]] }])
}
pub fn case_336(vars: &Vars) -> InferredGoal<DU, DE, Goal<DU, DE>> {
    let x = vars.v[0].clone();
    let y = vars.v[1].clone();
    proto_vulcan!([|h, t| { h == [[_, _, _], [[], false, 2], [[], 3 | h]], member(y, [1, 1]) }, closure { [x == 2, []] }])
}
pub fn case_337(vars: &Vars) -> InferredGoal<DU, DE, Goal<DU, DE>> {
    let q = vars.v[0].clone();
    let x = vars.v[1].clone();
    proto_vulcan!([[1, 1, 2] != x, onceo { [1, 1 | x] != q }])
}
pub fn case_338(vars: &Vars) -> InferredGoal<DU, DE, Goal<DU, DE>> {
    let x = vars.v[0].clone();
    proto_vulcan!([|z| { [] }, closure { conde { |tz| { tz == [3], [1 | tz] != [1, 3] }, ["a", [[], 1], [[]]] == x } }])
}
pub fn case_339(vars: &Vars) -> InferredGoal<DU, DE, Goal<DU, DE>> {
    let x = vars.v[0].clone();
    let y = vars.v[1].clone();
    proto_vulcan!([|y| { [["bc"], [y | y], [_, y, x] | y] == y, y == 'b' }, y == y, [[x, 2, y], [y, x, 1] | 2] == [x, _, x]])
}
pub fn case_340(vars: &Vars) -> InferredGoal<DU, DE, Goal<DU, DE>> {
    let q = vars.v[0].clone();
    let x = vars.v[1].clone();
    proto_vulcan!([|tz| { tz == [2], [3, 2, 2] != [3, 2 | tz] }])
}
pub fn case_341(vars: &Vars) -> InferredGoal<DU, DE, Goal<DU, DE>> {
    let q = vars.v[0].clone();
    let x = vars.v[1].clone();
    proto_vulcan!([q != x])
}
pub fn case_342(vars: &Vars) -> InferredGoal<DU, DE, Goal<DU, DE>> {
    let q = vars.v[0].clone();
    let x = vars.v[1].clone();
    proto_vulcan!([x == [], q != [2], onceo { onceo { x == [q] } }, closure { q == [false, 2, 3] }])
}
pub fn case_343(vars: &Vars) -> InferredGoal<DU, DE, Goal<DU, DE>> {
    let x = vars.v[0].clone();
    let y = vars.v[1].clone();
    proto_vulcan!([[y, [x, 1, 3] | x] == y, append(x, x, []), onceo { [|tz| { [3, 2, 1, 2] != [3, 2 | tz], tz == [1, 2] }, [[y | x]] == x, onceo { y == y }] }])
}
pub fn case_344(vars: &Vars) -> InferredGoal<DU, DE, Goal<DU, DE>> {
    let x = vars.v[0].clone();
    let y = vars.v[1].clone();
    proto_vulcan!([y == _, x != x, x == [x, 1], closure { [y == 2, conda { [y | x] != [[x, y, 1 | y] | y], [['b'] == y, [x, x] == [2, 1, false]], [|h| { ["bc", [y, false, h | x]] == x, y != h, [x | y] == y }, onceo { [x, [], 1 | y] == x }] }] }])
}
pub fn case_345(vars: &Vars) -> InferredGoal<DU, DE, Goal<DU, DE>> {
    let x = vars.v[0].clone();
    proto_vulcan!([true])
}
pub fn case_346(vars: &Vars) -> InferredGoal<DU, DE, Goal<DU, DE>> {
    let x = vars.v[0].clone();
    proto_vulcan!([[[], 1, 2] == x])
}
pub fn case_347(vars: &Vars) -> InferredGoal<DU, DE, Goal<DU, DE>> {
    let x = vars.v[0].clone();
    let y = vars.v[1].clone();
    proto_vulcan!([1 == y, |tz| { tz == [2], [3, 2] != [3 | tz] }])
}
pub fn case_348(vars: &Vars) -> InferredGoal<DU, DE, Goal<DU, DE>> {
    let q = vars.v[0].clone();
    let x = vars.v[1].clone();
    proto_vulcan!([|x, z| { z == [[], 1], |y, x| {  } }, [[q, q, q]] == q])
}
pub fn case_349(vars: &Vars) -> InferredGoal<DU, DE, Goal<DU, DE>> {
    let q = vars.v[0].clone();
    let x = vars.v[1].clone();
    proto_vulcan!([x != [2], q == 1])
}
pub fn case_350(vars: &Vars) -> InferredGoal<DU, DE, Goal<DU, DE>> {
    let x = vars.v[0].clone();
    proto_vulcan!([x != x, [x, [x, x, x]] == [1]])
}
pub fn case_351(vars: &Vars) -> InferredGoal<DU, DE, Goal<DU, DE>> {
    let x = vars.v[0].clone();
    proto_vulcan!(['a' == x, x == [_], |z| { |tz| { [1, 3] != [1 | tz], tz == [3] } }, closure { [[x | x] == x, |y, x| { conde { ["a" == x, _ != y], x == x, [false, [[1, 3, []], [_]] != [[3 | x] | x]] } }] }])
}
pub fn case_352(vars: &Vars) -> InferredGoal<DU, DE, Goal<DU, DE>> {
    let q = vars.v[0].clone();
    let x = vars.v[1].clone();
    proto_vulcan!([|tz| { [3 | tz] != [3, 1, 1], tz == [1, 1] }, x == [3 | x]])
}
pub fn case_353(vars: &Vars) -> InferredGoal<DU, DE, Goal<DU, DE>> {
    let x = vars.v[0].clone();
    proto_vulcan!([|x| { |t| { [t, _, 2] == [[2, t, t | t], 1], t != [[x, []]] }, [x == 'b', x != x, x == ["a", x, 2 | x]] }, [[true, false, x | 1], [1, x], [x, x]] == x, |x, z| { x != [[]] }])
}
pub fn case_354(vars: &Vars) -> InferredGoal<DU, DE, Goal<DU, DE>> {
    let x = vars.v[0].clone();
    proto_vulcan!([x == [[1, x]], conde { [conde { x == [], [|y| { member(x, [2, 2]), |tz| { tz == [2, 2], [3 | tz] != [3, 2, 2] } }, 3 != x], [|h| { 3 == x }, [_, 2] == x] }, [|h| { append(h, h, [3]), [2, 1] == h, h == h }, _ != x]], true }])
}
pub fn case_355(vars: &Vars) -> InferredGoal<DU, DE, Goal<DU, DE>> {
    let x = vars.v[0].clone();
    proto_vulcan!([x == x, _ == 1, closure { ["bc" == x, conde { x == [[[], x, x] | x] }] }])
}
pub fn case_356(vars: &Vars) -> InferredGoal<DU, DE, Goal<DU, DE>> {
    let x = vars.v[0].clone();
    let y = vars.v[1].clone();
    proto_vulcan!([[[], false, 1] == y, [] == x, y == 1, closure { onceo { [y != ["a", x, false | x], append(y, y, [])] } }])
}
pub fn case_357(vars: &Vars) -> InferredGoal<DU, DE, Goal<DU, DE>> {
    let x = vars.v[0].clone();
    proto_vulcan!([conde { [_, 2, []] != x, [2 == x, member(x, [])], x == x }, x == [_, 3, 'b']])
}
pub fn case_358(vars: &Vars) -> InferredGoal<DU, DE, Goal<DU, DE>> {
    let x = vars.v[0].clone();
    let y = vars.v[1].clone();
    proto_vulcan!([y == [2, 'b', "a" | x], member(y, [2]), [|tz| { tz == [3, 1], [3 | tz] != [3, 3, 1] }, |t| {  }, [] == y]])
}
pub fn case_359(vars: &Vars) -> InferredGoal<DU, DE, Goal<DU, DE>> {
    let x = vars.v[0].clone();
    proto_vulcan!([x == [3 | x], |x, t| { t != [[1, 1, t] | t], |z| { |x, t| { member(t, [1, 1, 3]) }, x != [x], z == z } }])
}
pub fn case_360(vars: &Vars) -> InferredGoal<DU, DE, Goal<DU, DE>> {
    let x = vars.v[0].clone();
    proto_vulcan!([1 == x])
}
pub fn case_361(vars: &Vars) -> InferredGoal<DU, DE, Goal<DU, DE>> {
    let x = vars.v[0].clone();
    proto_vulcan!([|tz| { tz == [3], [1, 3, 3] != [1, 3 | tz] }, [[], |t| { |z| { true }, [t, "a", x | _] == t }, member(x, [2, 3, 3])]])
}
pub fn case_362(vars: &Vars) -> InferredGoal<DU, DE, Goal<DU, DE>> {
    let x = vars.v[0].clone();
    let y = vars.v[1].clone();
    proto_vulcan!([|t| { |x| { y != y, [[_, 3] == x, append(x, t, [])], onceo { 2 == t } }, [["bc", 1, x | y]] == x }])
}
pub fn case_363(vars: &Vars) -> InferredGoal<DU, DE, Goal<DU, DE>> {
    let q = vars.v[0].clone();
    let x = vars.v[1].clone();
    proto_vulcan!([|h| { conde { [conda { [h == [_], true], [[true, 3 | h], [1 | x], 3 | h] == x, [false, h == 2] }, [[false] != q, [q, 1] != [q], 1 == q]], [], [false, x == h] } }, append(q, x, [2]), [x] != q])
}
pub fn case_364(vars: &Vars) -> InferredGoal<DU, DE, Goal<DU, DE>> {
    let q = vars.v[0].clone();
    let x = vars.v[1].clone();
    proto_vulcan!([|t| { [x == x, |h, y| { t == [t, 1 | h], [q, t | q] == h, t == [y, y] }], |x, h| { x != "bc" }, conde { [], [q == [[x]], [1, true] == q] } }, onceo { x == [q, q, q | 2] }, conde { [x != [q, x, 1 | q], [[[]], [3]] == q], [|t, x| { |h, t| { 1 == h, member(x, [3]) }, condu { [2 == x, q == q], x == [[q, x, _], 1, [x | q] | x], member(q, []) }, [[[], 1] == x] }, [1] == "bc"] }])
}
pub fn case_365(vars: &Vars) -> InferredGoal<DU, DE, Goal<DU, DE>> {
    let q = vars.v[0].clone();
    let x = vars.v[1].clone();
    proto_vulcan!([conde { [x == x, |y| { onceo { false }, [1 == x, q != y, [q, y, 2] == x], q == q }], [[['b', 2], x, [q]] == x, [[2, q, q], [], q] == x], [] }, closure { [[["a"], []] == q, x == x] }])
}
pub fn case_366(vars: &Vars) -> InferredGoal<DU, DE, Goal<DU, DE>> {
    let x = vars.v[0].clone();
    let y = vars.v[1].clone();
    proto_vulcan!([[[1, 1, 1 | y], 1, [1, _, 1] | y] == x, |tz| { tz == [2, 1], [3, 2, 1] != [3 | tz] }])
}
pub fn case_367(vars: &Vars) -> InferredGoal<DU, DE, Goal<DU, DE>> {
    let q = vars.v[0].clone();
    let x = vars.v[1].clone();
    proto_vulcan!([[[condu { q == [[1, 3, x], [2], true], [q == [1, x, [q]], true], [2 != q, append(q, x, [])] }], x != [2, [] | x], |x| { x != [1, q, 3], q == [], conde { [false, q == ["a", [_, [], x] | q]], [], [x] == q } }], [x, x, q] == q])
}
pub fn case_368(vars: &Vars) -> InferredGoal<DU, DE, Goal<DU, DE>> {
    let x = vars.v[0].clone();
    proto_vulcan!([[] == x, [[x, [], 2], [x, 3, 2] | x] == [[], [], _ | x], x == [_ | _]])
}
pub fn case_369(vars: &Vars) -> InferredGoal<DU, DE, Goal<DU, DE>> {
    let x = vars.v[0].clone();
    proto_vulcan!([x != true, closure { onceo { conde { append(x, x, [2]) } } }])
}
pub fn case_370(vars: &Vars) -> InferredGoal<DU, DE, Goal<DU, DE>> {
    let x = vars.v[0].clone();
    proto_vulcan!([false, [conda { 'a' == x, [|t, x| { append(t, t, [2, 1]), false }, 2 == x] }]])
}
pub fn case_371(vars: &Vars) -> InferredGoal<DU, DE, Goal<DU, DE>> {
    let q = vars.v[0].clone();
    let x = vars.v[1].clone();
    proto_vulcan!([[[3, _] == x, conde { [|tz| { tz == [3, 2], [1, 1 | tz] != [1, 1, 3, 2] }, |y| { y != [q | q], q == [[], 2, y | x], [1, 2] != x }], [[q | x] == [1 | x], q == x] }]])
}
pub fn case_372(vars: &Vars) -> InferredGoal<DU, DE, Goal<DU, DE>> {
    let x = vars.v[0].clone();
    let y = vars.v[1].clone();
    proto_vulcan!([[y == [x], [] != 1]])
}
pub fn case_373(vars: &Vars) -> InferredGoal<DU, DE, Goal<DU, DE>> {
    let x = vars.v[0].clone();
    let y = vars.v[1].clone();
    proto_vulcan!([x == x, [["a", 2, [] | y], [2, [], x], [y, [], 2]] != x, |tz| { tz == [3], [2 | tz] != [2, 3] }])
}
pub fn case_374(vars: &Vars) -> InferredGoal<DU, DE, Goal<DU, DE>> {
    let q = vars.v[0].clone();
    let x = vars.v[1].clone();
    proto_vulcan!([conda { append(x, x, [2]), [[1, _, x] == q, 1 == q], |z| {  } }, 1 == [q | q], [q, q, q] == x])
}
pub fn case_375(vars: &Vars) -> InferredGoal<DU, DE, Goal<DU, DE>> {
    let q = vars.v[0].clone();
    let x = vars.v[1].clone();
    proto_vulcan!([true, |h, x| { x == x, [[], 3, 1] == h }, [2, 2, 1] == x])
}
pub fn case_376(vars: &Vars) -> InferredGoal<DU, DE, Goal<DU, DE>> {
    let x = vars.v[0].clone();
    let y = vars.v[1].clone();
    proto_vulcan!([1 != y])
}
pub fn case_377(vars: &Vars) -> InferredGoal<DU, DE, Goal<DU, DE>> {
    let x = vars.v[0].clone();
    proto_vulcan!([[[x, 1, x] == x, |tz| { tz == [1, 3], [3, 1, 3] != [3 | tz] }, [] != x], x == [2, x, _ | x]])
}
pub fn case_378(vars: &Vars) -> InferredGoal<DU, DE, Goal<DU, DE>> {
    let q = vars.v[0].clone();
    let x = vars.v[1].clone();
    proto_vulcan!([['b' | q] == x, [q, 'a' | 1] != q, x == q])
}
pub fn case_379(vars: &Vars) -> InferredGoal<DU, DE, Goal<DU, DE>> {
    let x = vars.v[0].clone();
    let y = vars.v[1].clone();
    proto_vulcan!([onceo { append(x, y, [3, 3]) }, [y != [], y != x, x == [[1, [], y | x]]]])
}
pub fn case_380(vars: &Vars) -> InferredGoal<DU, DE, Goal<DU, DE>> {
    let x = vars.v[0].clone();
    proto_vulcan!([|h, y| { [] == [[_, h]], [x, [y, 2, _], [x | x] | y] == [1, x, 2] }, conde { [x != _, |y, x| {  }], [[_ | x] != x, conde { [], x == [3, x, x | x] }] }])
}
pub fn case_381(vars: &Vars) -> InferredGoal<DU, DE, Goal<DU, DE>> {
    let x = vars.v[0].clone();
    proto_vulcan!([x != x, x == x])
}
pub fn case_382(vars: &Vars) -> InferredGoal<DU, DE, Goal<DU, DE>> {
    let x = vars.v[0].clone();
    let y = vars.v[1].clone();
    proto_vulcan!([append(y, x, [2, 3]), [y, y, _] == x, [y != y]])
}
pub fn case_383(vars: &Vars) -> InferredGoal<DU, DE, Goal<DU, DE>> {
    let x = vars.v[0].clone();
    let y = vars.v[1].clone();
    proto_vulcan!([false, |t, z| { onceo { conde { |tz| { tz == [1], [2, 1] != [2 | tz] }, [x != 1, [] == x], [[false, ['a', 1]] == t, z == x] } }, [x, y] != t, z == [x, 3] }, ["a", [], true] == x])
}
pub fn case_384(vars: &Vars) -> InferredGoal<DU, DE, Goal<DU, DE>> {
    let x = vars.v[0].clone();
    proto_vulcan!([x != x])
}
pub fn case_385(vars: &Vars) -> InferredGoal<DU, DE, Goal<DU, DE>> {
    let x = vars.v[0].clone();
    proto_vulcan!([conda { [x == [[x, x, x] | 1], onceo { conde { true, x == 1 } }], [1 == 3, [x | x] == [_, x | x]] }, closure { x == 2 }])
}
pub fn case_386(vars: &Vars) -> InferredGoal<DU, DE, Goal<DU, DE>> {
    let q = vars.v[0].clone();
    let x = vars.v[1].clone();
    proto_vulcan!([x == [[x], [] | q], conde { [x == [], x != x], [_, x] == x }, x == q])
}
pub fn case_387(vars: &Vars) -> InferredGoal<DU, DE, Goal<DU, DE>> {
    let x = vars.v[0].clone();
    proto_vulcan!([member(x, [3, 1]), |tz| { [1, 2 | tz] != [1, 2, 3, 2], tz == [3, 2] }, onceo { conde { conde { [member(x, [3, 2, 1]), |tz| { tz == [1], [3, 1] != [3 | tz] }], [[x, []] == x, |tz| { [2, 2, 1] != [2, 2 | tz], tz == [1] }], [x != [3, x, false], [[3, true], 2, [x, x, x | x] | x] == [_]] }, x == [[[], "bc", true | x], [_ | x]] } }, closure { |h, t| { 3 == h, h == h, |z| { 1 == t } } }])
}
pub fn case_388(vars: &Vars) -> InferredGoal<DU, DE, Goal<DU, DE>> {
    let q = vars.v[0].clone();
    let x = vars.v[1].clone();
    proto_vulcan!([q == [2, 3], |h, t| { [|h, x| { q == [x, 1], false }], [1, [] | 1] == x }, |tz| { [3 | tz] != [3, 1, 1], tz == [1, 1] }])
}
pub fn case_389(vars: &Vars) -> InferredGoal<DU, DE, Goal<DU, DE>> {
    let q = vars.v[0].clone();
    let x = vars.v[1].clone();
    proto_vulcan!([[[1, true, x]] == [], conde { [] }, q == q])
}
pub fn case_390(vars: &Vars) -> InferredGoal<DU, DE, Goal<DU, DE>> {
    let q = vars.v[0].clone();
    let x = vars.v[1].clone();
    proto_vulcan!([[_ | q] == x, [q, [[], x, 1 | q], x | q] == ["a" | q], condu { [x != q, 1 == x], [onceo { append(q, q, [3, 2]) }, conde { |x| { [q, q] == [[3, _], [1, []] | x], [q, [q, x | q], [q, 1, x] | q] == [q, 1, []] }, conda { q == 3 } }], [[x, [x, []], q] != x, [[1, false | q] | 1] == [1, 'b']] }, closure { x == 2 }])
}
pub fn case_391(vars: &Vars) -> InferredGoal<DU, DE, Goal<DU, DE>> {
    let x = vars.v[0].clone();
    proto_vulcan!([x != x, x != x, x == [[x, "a"], 3 | x], closure { [[[[], true], [x], [[]] | 1] == x, onceo { 3 == x }] }])
}
pub fn case_392(vars: &Vars) -> InferredGoal<DU, DE, Goal<DU, DE>> {
    let x = vars.v[0].clone();
    proto_vulcan!([|y| { conde { [x == y, [] == 2, append(y, x, [2, 1])] }, [[2 | x], [x, 1]] == x }, condu { onceo { x == [x] }, [conda { [[[1 | x] == x, x == [3, _ | x]], |y, h| { member(h, [3]) }], [x | x] == x }, [_, 2] == x] }, condu { x == x, [conde { conde { [true, [x | 2] == x], false }, [3 != [[x, x, _ | x] | x], conde { x == [[true, x, 3 | x] | x] }] }, x == []], [|h| { [] == h, [[_, x, 3]] == [[_], [3]] }, |t, y| { [[[], 1], [y], []] != [[t, t, 2], 1], condu { [[[_], ['a', _], [x, y, _ | y]] != [y], member(t, [])], [y != t, [_, false, 1] == x], true } }] }])
}
pub fn case_393(vars: &Vars) -> InferredGoal<DU, DE, Goal<DU, DE>> {
    let q = vars.v[0].clone();
    let x = vars.v[1].clone();
    proto_vulcan!([false, closure { x == [q, [], x] }])
}
pub fn case_394(vars: &Vars) -> InferredGoal<DU, DE, Goal<DU, DE>> {
    let q = vars.v[0].clone();
    let x = vars.v[1].clone();
    proto_vulcan!([append(x, x, [2]), closure { |h| { conde { [], [], q != [[x, h], 3 | q] } } }])
}
pub fn case_395(vars: &Vars) -> InferredGoal<DU, DE, Goal<DU, DE>> {
    let x = vars.v[0].clone();
    let y = vars.v[1].clone();
    proto_vulcan!([|tz| { [2, 2, 1] != [2, 2 | tz], tz == [1] }, closure { [x == x, false] }])
}
pub fn case_396(vars: &Vars) -> InferredGoal<DU, DE, Goal<DU, DE>> {
    let q = vars.v[0].clone();
    let x = vars.v[1].clone();
    proto_vulcan!([conde { |x, t| { |z, h| { [t, _, t] != t, [[], x, 'b'] == _, true }, q != [x], [false, append(t, q, []), false] }, 1 == q, |z, h| { conde { [h] != [[1, q] | q], [[[z]] == [[h, x, z], [], q], z == x], _ != q } } }, [false, q, q] == q, closure { append(x, q, [1]) }])
}
pub fn case_397(vars: &Vars) -> InferredGoal<DU, DE, Goal<DU, DE>> {
    let x = vars.v[0].clone();
    proto_vulcan!([[] != x, [x, [3]] == x])
}
pub fn case_398(vars: &Vars) -> InferredGoal<DU, DE, Goal<DU, DE>> {
    let x = vars.v[0].clone();
    let y = vars.v[1].clone();
    proto_vulcan!([y == 1, y == [y], ["a"] != x, closure { conde { x == 1, [[[1, "bc"], 1] == x, y == y] } }])
}
pub fn case_399(vars: &Vars) -> InferredGoal<DU, DE, Goal<DU, DE>> {
    let q = vars.v[0].clone();
    let x = vars.v[1].clone();
    proto_vulcan!([[x] == q, |y| { conde { onceo { [] == y }, [|t, h| { t == ['a', 2, _] }, |y, t| { member(y, [1]) }], x == 'b' }, q == [] }, [|z| { onceo { true }, conde { [x == 2, [[q, q, q | q], "bc"] == z], 3 == [z, _ | x], 2 == [[q], [2, 1, []], [[], [], z | 2]] } }], closure { [[[false, 'a'], [_, "a"]] != q, x == 2] }])
}
pub fn case_400(vars: &Vars) -> InferredGoal<DU, DE, Goal<DU, DE>> {
    let x = vars.v[0].clone();
    let y = vars.v[1].clone();
    proto_vulcan!([x == [[3 | y], [_], 3], conde { [|tz| { tz == [1], [1, 2, 1] != [1, 2 | tz] }, y == [[_, [], 'b'] | x]], [[], append(y, y, [1])] }])
}
pub fn case_401(vars: &Vars) -> InferredGoal<DU, DE, Goal<DU, DE>> {
    let x = vars.v[0].clone();
    proto_vulcan!([[1, x, 3] == [x, [_, 'a', 2]]])
}
pub fn case_402(vars: &Vars) -> InferredGoal<DU, DE, Goal<DU, DE>> {
    let q = vars.v[0].clone();
    let x = vars.v[1].clone();
    proto_vulcan!([[[q | x], [[], [] | _], [x, q, [] | x]] != [_, x], q == x, x != 1])
}
pub fn case_403(vars: &Vars) -> InferredGoal<DU, DE, Goal<DU, DE>> {
    let x = vars.v[0].clone();
    proto_vulcan!([_ == x, [condu { [1, true] != x, [|t, z| { member(z, [1, 2]), t != [false | x], [] == x }, |x, t| { true, x == x }], [_, x] == 1 }], x == [2, [x, x, 2 | x], x], closure { |tz| { tz == [2], [3 | tz] != [3, 2] } }])
}
pub fn case_404(vars: &Vars) -> InferredGoal<DU, DE, Goal<DU, DE>> {
    let x = vars.v[0].clone();
    proto_vulcan!([x != [[x, x, 3], _ | x], x == 2, [[], _] == x])
}
pub fn case_405(vars: &Vars) -> InferredGoal<DU, DE, Goal<DU, DE>> {
    let x = vars.v[0].clone();
    let y = vars.v[1].clone();
    proto_vulcan!([x == _, |x, y| { conde { [], conde { |tz| { [1, 2, 2] != [1 | tz], tz == [2, 2] }, [[]] == y } } }])
}
pub fn case_406(vars: &Vars) -> InferredGoal<DU, DE, Goal<DU, DE>> {
    let x = vars.v[0].clone();
    proto_vulcan!([conde { [[], append(x, x, [2])], [_ == x, [[1 | x], [2, x | x] | x] == [[x], [x, 2] | x]], conde { [conde { false, x == [1], [[2, x, 2 | x] == x, [[_, 'a'], [], [x, 2] | x] != x] }, |h, y| { 2 == x, member(h, [1, 3]), y != x }], [|t| { t == [[[]]], t == [_, [x, t | t], [t]], [x, 3 | _] == x }, |tz| { [2 | tz] != [2, 2], tz == [2] }] } }, |t| { x != t }, |tz| { [1, 2, 3] != [1 | tz], tz == [2, 3] }])
}
pub fn case_407(vars: &Vars) -> InferredGoal<DU, DE, Goal<DU, DE>> {
    let q = vars.v[0].clone();
    let x = vars.v[1].clone();
    proto_vulcan!([conde { [q == 2, [false, [[[x, 3] | 2] == x], [[q] != q]]], [onceo { [1, x] == x }, conda { ['a' == x, |t, z| { _ == x, q == t }], [[|tz| { tz == [1], [2, 1 | tz] != [2, 1, 1] }, q != 3], q == [[x, 2], [3, false] | 2]] }] }, [q, _] == 2, true == x])
}
pub fn case_408(vars: &Vars) -> InferredGoal<DU, DE, Goal<DU, DE>> {
    let x = vars.v[0].clone();
    let y = vars.v[1].clone();
    proto_vulcan!([[x, 3, 1 | y] != y])
}
pub fn case_409(vars: &Vars) -> InferredGoal<DU, DE, Goal<DU, DE>> {
    let x = vars.v[0].clone();
    proto_vulcan!([[["bc", 1, _], _, [x | x] | x] == x, conda { [conde { conde { [] }, [|y| {  }, |t| { t != x }], [conde { x == [3], [[x] == x, [[x, 1], [_, x] | x] == [[[]], 3, [_] | x]] }, conde { ["a" == [x | x], 2 != x], [[x, 1] != x, 2 == x], [[x, x], ['a', [], 1 | x]] == [[true, 1, 1], [], 1] }] }, false], [x == x, member(x, [])], conde { [x == [x, [[] | x], [_]], conde { x == [x, x, 1 | 1], x != x, true }], [[x == [x, x, 3], x == x], [x == x]] } }, conde { false }, closure { [member(x, [2, 2, 3]), x != []] }])
}
pub fn case_410(vars: &Vars) -> InferredGoal<DU, DE, Goal<DU, DE>> {
    let q = vars.v[0].clone();
    let x = vars.v[1].clone();
    proto_vulcan!([[[x | x] == x, |tz| { tz == [3], [3, 3] != [3 | tz] }], [] == q])
}
pub fn case_411(vars: &Vars) -> InferredGoal<DU, DE, Goal<DU, DE>> {
    let q = vars.v[0].clone();
    let x = vars.v[1].clone();
    proto_vulcan!([member(q, [])])
}
pub fn case_412(vars: &Vars) -> InferredGoal<DU, DE, Goal<DU, DE>> {
    let x = vars.v[0].clone();
    proto_vulcan!([x == x, [x, x, x] != x, x != [x], closure { 1 == [['a', [], x], 2] }])
}
pub fn case_413(vars: &Vars) -> InferredGoal<DU, DE, Goal<DU, DE>> {
    let x = vars.v[0].clone();
    let y = vars.v[1].clone();
    proto_vulcan!([conde { conde { [], [2, x | x] != x, |h, x| { 2 == x, 1 == x } }, [x, y, x | y] == y }, [x, [y, 3, 1]] != x, closure { [y == [[]], x == [[]]] }])
}
pub fn case_414(vars: &Vars) -> InferredGoal<DU, DE, Goal<DU, DE>> {
    let x = vars.v[0].clone();
    proto_vulcan!([conde { [x | true] != 3 }])
}
pub fn case_415(vars: &Vars) -> InferredGoal<DU, DE, Goal<DU, DE>> {
    let x = vars.v[0].clone();
    let y = vars.v[1].clone();
    proto_vulcan!([false, x == x, closure { [conde { [|x| { |tz| { tz == [3], [2, 3 | tz] != [2, 3, 3] } }, [[2, 3], [1, 'a' | x], [_ | y] | x] == x], [member(x, [2, 1]), member(x, [3])] }, [2, y] != x] }])
}
pub fn case_416(vars: &Vars) -> InferredGoal<DU, DE, Goal<DU, DE>> {
    let x = vars.v[0].clone();
    proto_vulcan!([[[], x, _ | 'b'] == ["a", [x | x]], [x, false, 1 | x] == x])
}
pub fn case_417(vars: &Vars) -> InferredGoal<DU, DE, Goal<DU, DE>> {
    let q = vars.v[0].clone();
    let x = vars.v[1].clone();
    proto_vulcan!([|tz| { [1, 3 | tz] != [1, 3, 1], tz == [1] }, onceo { true }, conda { [|h, t| {  }, [2] == x], q == x, false }, closure { [onceo { |z, y| { x == _, |tz| { tz == [3, 3], [3, 3, 3] != [3 | tz] } } }, |x, z| { onceo { [z, false, q] != z }, |tz| { tz == [1, 1], [2, 2, 1, 1] != [2, 2 | tz] }, |y, h| { x != true, false == z, z == h } }] }])
}
pub fn case_418(vars: &Vars) -> InferredGoal<DU, DE, Goal<DU, DE>> {
    let x = vars.v[0].clone();
    let y = vars.v[1].clone();
    proto_vulcan!([|h, x| {  }])
}
pub fn case_419(vars: &Vars) -> InferredGoal<DU, DE, Goal<DU, DE>> {
    let x = vars.v[0].clone();
    proto_vulcan!([|tz| { tz == [1], [2, 3, 1] != [2, 3 | tz] }, [|t| { |y| { t == [3] }, t == _ }, 2 != x]])
}
pub fn case_420(vars: &Vars) -> InferredGoal<DU, DE, Goal<DU, DE>> {
    let x = vars.v[0].clone();
    let y = vars.v[1].clone();
    proto_vulcan!([[3, x] == [[y, _ | y]], false, |x, y| { y == x, |tz| { [3, 2, 1] != [3, 2 | tz], tz == [1] } }])
}
pub fn case_421(vars: &Vars) -> InferredGoal<DU, DE, Goal<DU, DE>> {
    let x = vars.v[0].clone();
    let y = vars.v[1].clone();
    proto_vulcan!([conde { [x == 'a', x != [[], y, x | 2]], y == [] }])
}
pub fn case_422(vars: &Vars) -> InferredGoal<DU, DE, Goal<DU, DE>> {
    let x = vars.v[0].clone();
    proto_vulcan!([|y| { true }, [1 | x] == [[_, [], 2], 2]])
}
pub fn case_423(vars: &Vars) -> InferredGoal<DU, DE, Goal<DU, DE>> {
    let x = vars.v[0].clone();
    proto_vulcan!([[[['b', 2, 1]] == x]])
}
pub fn case_424(vars: &Vars) -> InferredGoal<DU, DE, Goal<DU, DE>> {
    let x = vars.v[0].clone();
    let y = vars.v[1].clone();
    proto_vulcan!([true, x == [[y, []]], x == [2, y | 2], closure { [conde { [condu { |tz| { [3, 3] != [3 | tz], tz == [3] }, [[_, [], x], 3, [2, [], x | x]] == [3] }, [[2]] == y], [_, _, y] == y, [y == [x], 1 != y] }, x == ['b']] }])
}
pub fn case_425(vars: &Vars) -> InferredGoal<DU, DE, Goal<DU, DE>> {
    let q = vars.v[0].clone();
    let x = vars.v[1].clone();
    proto_vulcan!([conde { [|tz| { tz == [1], [2, 1, 1] != [2, 1 | tz] }, |tz| { tz == [2], [2, 2 | tz] != [2, 2, 2] }] }, |x, t| { onceo { |x, h| { true, false } }, q == 3, [q != q, [[[], x, x], [x, 3], [q] | x] != x, t != [[2, q, x]]] }, [1, q, 3] == q])
}
pub fn case_426(vars: &Vars) -> InferredGoal<DU, DE, Goal<DU, DE>> {
    let q = vars.v[0].clone();
    let x = vars.v[1].clone();
    proto_vulcan!([conde { [q == q, [q, 3, 'b'] == x], [|z| { 3 != q, |x| { [] == x, false, [[2, [], q | z] | x] != [2] } }, true] }, onceo { [] == x }])
}
pub fn case_427(vars: &Vars) -> InferredGoal<DU, DE, Goal<DU, DE>> {
    let x = vars.v[0].clone();
    let y = vars.v[1].clone();
    proto_vulcan!([|z| { [2, x, x] == x }, [|x, t| { conda { [[1, t, x | t] == y, _ != t], 1 != x, [t == [t, [], x], [3, [1 | x], 1] == [2, 1, x]] }, x != x, conda { [member(t, [2, 3, 1]), member(y, [])], false, [[y, [], y] == y, t != [[]]] } }, [[x != [3 | x], append(x, x, [1]), |tz| { tz == [1], [3 | tz] != [3, 1] }]]], y == [y, _], closure { [|h| { x == h, ['a' | x] != x, [x == x, x != [1], append(h, x, [1, 2])] }, y != _] }])
}
pub fn case_428(vars: &Vars) -> InferredGoal<DU, DE, Goal<DU, DE>> {
    let q = vars.v[0].clone();
    let x = vars.v[1].clone();
    proto_vulcan!([|x| { |tz| { tz == [1, 2], [1, 1, 2] != [1 | tz] }, x == q, x == [[x, x], [x | q] | x] }, conda { [[[], x, []] == [3], q == 'a'] }, _ != q, closure { ["bc" == [x, 2], true] }])
}
pub fn case_429(vars: &Vars) -> InferredGoal<DU, DE, Goal<DU, DE>> {
    let x = vars.v[0].clone();
    let y = vars.v[1].clone();
    proto_vulcan!([conda { [[[y, x | y], "a"] == [], condu { member(y, []), conda { [true, y == [3]] } }], [|y| { conde { [], [y != y, y == 'a'] } }, 3 != x] }, y == [x, "a", 3 | y]])
}
pub fn case_430(vars: &Vars) -> InferredGoal<DU, DE, Goal<DU, DE>> {
    let x = vars.v[0].clone();
    let y = vars.v[1].clone();
    proto_vulcan!([true, [[[], 2], 'a'] != y, matche y { [[t | _], [t | h], x] => , [[x, 3, z | _], 'a'] | [[2, 2], [[], 3, t | _] | z] => [[y == y], z == y], [2, [2, 1], [] | _] => , }])
}
pub fn case_431(vars: &Vars) -> InferredGoal<DU, DE, Goal<DU, DE>> {
    let x = vars.v[0].clone();
    let y = vars.v[1].clone();
    proto_vulcan!([true, [[[], 2], 'a'] != y, matche y { [[fresh_name_9 | _], [fresh_name_9 | h], x] => , [[x, 3, z | _], 'a'] | [[2, 2], [[], 3, t | _] | z] => [[y == y], z == y], [2, [2, 1], [] | _] => , }])
}
pub fn case_432(vars: &Vars) -> InferredGoal<DU, DE, Goal<DU, DE>> {
    let x = vars.v[0].clone();
    let y = vars.v[1].clone();
    proto_vulcan!([matche [3, "a" | y] { [] | y => , t | [[1 | _]] => , _ => { x == 7, x == 8 }, }, matche [3, x, x | y] { [[], [t, x]] | z => [true, match y { [[[], _], [z]] => , [[_ | t], [2 | _]] | _ => { append(y, y, []) }, }], [h, 1] => , }, matche y { [[[], x], [2 | 3], [_, h, t] | z] | [_, [t, 1, t], [y, z, []]] => [] != z, [[false | 1], [], y | _] | h => { conde { [conde { append(x, x, [3]) }, |tz| { [3, 3, 2, 2] != [3, 3 | tz], tz == [2, 2] }], matche x { [[3, x | true]] => , [[3], false] => , }, matche x { [y, [2], h] => [y != [], ['b', 2, []] == y], _ => [2] != x, _ => { x == 7, x == 8 }, } }, member(x, []) }, [_] => match y { [[h, 3, h | _] | 1] => [x == [], [_, 2 | 2] == x], [[_, x | _], [2, z], [] | _] => { [y != [[], x, _]], |z| { 1 == z } }, [[2, [], h | _]] | _ => , }, }, closure { [true, |z| { match x { _ => z == x, 2 => , } }] }])
}
pub fn case_433(vars: &Vars) -> InferredGoal<DU, DE, Goal<DU, DE>> {
    let x = vars.v[0].clone();
    let y = vars.v[1].clone();
    proto_vulcan!([matche [3, "a" | y] { [] | y => , t | [[1 | _]] => , _ => { x == 7, x == 8 }, }, matche [3, x, x | y] { [[], [t, x]] | z => [true, match y { [[[], _], [z]] => , [[_ | t], [2 | _]] | _ => { append(y, y, []) }, }], [h, 1] => , }, matche y { [[[], x], [2 | 3], [_, h, t] | z] | [_, [t, 1, t], [y, z, []]] => [] != z, [[false | 1], [], y | _] | h => { conde { [conde { append(x, x, [3]) }, |tz| { [3, 3, 2, 2] != [3, 3 | tz], tz == [2, 2] }], matche x { [[3, fresh_name_9 | true]] => , [[3], false] => , }, matche x { [y, [2], h] => [y != [], ['b', 2, []] == y], _ => [2] != x, _ => { x == 7, x == 8 }, } }, member(x, []) }, [_] => match y { [[h, 3, h | _] | 1] => [x == [], [_, 2 | 2] == x], [[_, x | _], [2, z], [] | _] => { [y != [[], x, _]], |z| { 1 == z } }, [[2, [], h | _]] | _ => , }, }, closure { [true, |z| { match x { _ => z == x, 2 => , } }] }])
}
pub fn case_434(vars: &Vars) -> InferredGoal<DU, DE, Goal<DU, DE>> {
    let x = vars.v[0].clone();
    proto_vulcan!([match x { h => , 1 | [h, [y, 2], [] | 1] => , }, match x { _ => [conde { [x == [x], x != x], member(x, [3, 1, 2]) }, match x { x => , h => x == [x, 1], }, [2, 1] == x], }])
}
pub fn case_435(vars: &Vars) -> InferredGoal<DU, DE, Goal<DU, DE>> {
    let x = vars.v[0].clone();
    proto_vulcan!([match x { h => , 1 | [h, [y, 2], [] | 1] => , }, match x { _ => [conde { [x == [x], x != x], member(x, [3, 1, 2]) }, match x { fresh_name_9 => , h => x == [x, 1], }, [2, 1] == x], }])
}
pub fn case_436(vars: &Vars) -> InferredGoal<DU, DE, Goal<DU, DE>> {
    let q = vars.v[0].clone();
    let x = vars.v[1].clone();
    proto_vulcan!([1 == q, |t, y| { matche y { [["a", y, 2] | 2] => y != [[2 | y], [[]]], _ => [y == 7, y == 8], }, matche q { [[] | t] | [true | h] => [q == [2, []], 2 == x], } }, [[x] | _] != q])
}
pub fn case_437(vars: &Vars) -> InferredGoal<DU, DE, Goal<DU, DE>> {
    let q = vars.v[0].clone();
    let x = vars.v[1].clone();
    proto_vulcan!([1 == q, |t, fresh_name_9| { matche fresh_name_9 { [["a", y, 2] | 2] => y != [[2 | y], [[]]], _ => [fresh_name_9 == 7, fresh_name_9 == 8], }, matche q { [[] | t] | [true | h] => [q == [2, []], 2 == x], } }, [[x] | _] != q])
}
pub fn case_438(vars: &Vars) -> InferredGoal<DU, DE, Goal<DU, DE>> {
    let x = vars.v[0].clone();
    proto_vulcan!([|h| { |t| { t == h, x == [] }, |x| { member(h, [3]) }, conde { [x != x, h == [3, h, 1 | x]], |t| { x == 3, x == 2 } } }, [2] == x, closure { [x == _, ['b', 1, 3] == x] }])
}
pub fn case_439(vars: &Vars) -> InferredGoal<DU, DE, Goal<DU, DE>> {
    let x = vars.v[0].clone();
    proto_vulcan!([|h| { |t| { t == h, x == [] }, |fresh_name_9| { member(h, [3]) }, conde { [x != x, h == [3, h, 1 | x]], |t| { x == 3, x == 2 } } }, [2] == x, closure { [x == _, ['b', 1, 3] == x] }])
}
pub fn case_440(vars: &Vars) -> InferredGoal<DU, DE, Goal<DU, DE>> {
    let x = vars.v[0].clone();
    let y = vars.v[1].clone();
    proto_vulcan!([match x { 1 => { |y| { [[y, ['a', _, 2]] != 3, [y, x] == y], [x != [y], |tz| { [1, 2, 3] != [1 | tz], tz == [2, 3] }, [_ | x] == y] } }, }, match [3, []] { t => , [[h, _, 2 | z] | _] => { [matche x { _ => { [[], h] == y, h == 2 }, [[false, 1, false | 1], [[]]] | [[1, 'b' | 2], [y]] => , }, match h { [[[], 2, [] | _]] | _ => , }, h == [h, 2, 'b']], x != [h, [3, 'b' | y], h] }, [y, [], [2, 3, _]] => { ['a'] == y, y == [x] }, }])
}
pub fn case_441(vars: &Vars) -> InferredGoal<DU, DE, Goal<DU, DE>> {
    let x = vars.v[0].clone();
    let y = vars.v[1].clone();
    proto_vulcan!([match x { 1 => { |y| { [[y, ['a', _, 2]] != 3, [y, x] == y], [x != [y], |tz| { [1, 2, 3] != [1 | tz], tz == [2, 3] }, [_ | x] == y] } }, }, match [3, []] { t => , [[fresh_name_9, _, 2 | z] | _] => { [matche x { _ => { [[], fresh_name_9] == y, fresh_name_9 == 2 }, [[false, 1, false | 1], [[]]] | [[1, 'b' | 2], [y]] => , }, match fresh_name_9 { [[[], 2, [] | _]] | _ => , }, fresh_name_9 == [fresh_name_9, 2, 'b']], x != [fresh_name_9, [3, 'b' | y], fresh_name_9] }, [y, [], [2, 3, _]] => { ['a'] == y, y == [x] }, }])
}
pub fn case_442(vars: &Vars) -> InferredGoal<DU, DE, Goal<DU, DE>> {
    let q = vars.v[0].clone();
    let x = vars.v[1].clone();
    proto_vulcan!([match x { [1, [3]] => { |tz| { [3, 2 | tz] != [3, 2, 3], tz == [3] }, [q, _] == q }, }])
}
pub fn case_443(vars: &Vars) -> InferredGoal<DU, DE, Goal<DU, DE>> {
    let q = vars.v[0].clone();
    let x = vars.v[1].clone();
    proto_vulcan!([match x { [1, [3]] => { |fresh_name_9| { [3, 2 | fresh_name_9] != [3, 2, 3], fresh_name_9 == [3] }, [q, _] == q }, }])
}
pub fn case_444(vars: &Vars) -> InferredGoal<DU, DE, Goal<DU, DE>> {
    let q = vars.v[0].clone();
    let x = vars.v[1].clone();
    proto_vulcan!([conde { [|y| { [[q], 3] != [] }, []], [[x, q, 3] == 2, x == [2, []]] }, [1, 3, 2] == x, closure { [|t| { t == [3] }] }])
}
pub fn case_445(vars: &Vars) -> InferredGoal<DU, DE, Goal<DU, DE>> {
    let q = vars.v[0].clone();
    let x = vars.v[1].clone();
    proto_vulcan!([conde { [|fresh_name_9| { [[q], 3] != [] }, []], [[x, q, 3] == 2, x == [2, []]] }, [1, 3, 2] == x, closure { [|t| { t == [3] }] }])
}
pub fn case_446(vars: &Vars) -> InferredGoal<DU, DE, Goal<DU, DE>> {
    let q = vars.v[0].clone();
    let x = vars.v[1].clone();
    proto_vulcan!([matche q { 1 => { member(x, [3, 2, 1]), |x, t| { conde { false, false, false } } }, [_] | ['a'] => , }, conde { |tz| { tz == [3], [3, 2, 3] != [3, 2 | tz] }, append(q, x, [2]), x == [_, [] | x] }])
}
pub fn case_447(vars: &Vars) -> InferredGoal<DU, DE, Goal<DU, DE>> {
    let q = vars.v[0].clone();
    let x = vars.v[1].clone();
    proto_vulcan!([matche q { 1 => { member(x, [3, 2, 1]), |x, t| { conde { false, false, false } } }, [_] | ['a'] => , }, conde { |fresh_name_9| { fresh_name_9 == [3], [3, 2, 3] != [3, 2 | fresh_name_9] }, append(q, x, [2]), x == [_, [] | x] }])
}
pub fn case_448(vars: &Vars) -> InferredGoal<DU, DE, Goal<DU, DE>> {
    let x = vars.v[0].clone();
    proto_vulcan!([match [[], 2] { y => { append(y, x, [2]), conde { [[y != x], x == x], y == [_] } }, [[h, y, 2], [], x] | _ => , }])
}
pub fn case_449(vars: &Vars) -> InferredGoal<DU, DE, Goal<DU, DE>> {
    let x = vars.v[0].clone();
    proto_vulcan!([match [[], 2] { fresh_name_9 => { append(fresh_name_9, x, [2]), conde { [[fresh_name_9 != x], x == x], fresh_name_9 == [_] } }, [[h, y, 2], [], x] | _ => , }])
}
pub fn case_450(vars: &Vars) -> InferredGoal<DU, DE, Goal<DU, DE>> {
    let q = vars.v[0].clone();
    let x = vars.v[1].clone();
    proto_vulcan!([x == [[_, q]], _ == q, conde { |y| { q != q, append(x, q, [3, 3]) }, [], conde { [|z| { q == x, |tz| { [2 | tz] != [2, 3, 2], tz == [3, 2] } }, |h| { append(h, q, []) }], |x, y| { y == q } } }, closure { x == [q, q, [] | q] }])
}
pub fn case_451(vars: &Vars) -> InferredGoal<DU, DE, Goal<DU, DE>> {
    let q = vars.v[0].clone();
    let x = vars.v[1].clone();
    proto_vulcan!([x == [[_, q]], _ == q, conde { |y| { q != q, append(x, q, [3, 3]) }, [], conde { [|z| { q == x, |tz| { [2 | tz] != [2, 3, 2], tz == [3, 2] } }, |h| { append(h, q, []) }], |fresh_name_9, y| { y == q } } }, closure { x == [q, q, [] | q] }])
}
pub fn case_452(vars: &Vars) -> InferredGoal<DU, DE, Goal<DU, DE>> {
    let q = vars.v[0].clone();
    let x = vars.v[1].clone();
    proto_vulcan!([member(x, [2, 1, 2]), |t, z| { [_ | x] == [[3], [2]], match t { [true, [1, z | _]] => , [z, [1, 1, 2], [h] | t] => { [1] != z }, }, match x { 2 => , [[h]] => , [1, h] | _ => t == t, } }])
}
pub fn case_453(vars: &Vars) -> InferredGoal<DU, DE, Goal<DU, DE>> {
    let q = vars.v[0].clone();
    let x = vars.v[1].clone();
    proto_vulcan!([member(x, [2, 1, 2]), |fresh_name_9, z| { [_ | x] == [[3], [2]], match fresh_name_9 { [true, [1, z | _]] => , [z, [1, 1, 2], [h] | t] => { [1] != z }, }, match x { 2 => , [[h]] => , [1, h] | _ => fresh_name_9 == fresh_name_9, } }])
}
pub fn case_454(vars: &Vars) -> InferredGoal<DU, DE, Goal<DU, DE>> {
    let x = vars.v[0].clone();
    proto_vulcan!([conde { [matche x { [[3, [] | z]] => { [[z] == z, [[z, z, 'a'], [[], 3, x]] == [x]], |x, h| { 1 == [z], _ == [z], [['b', x | z], []] != z } }, _ => matche x { [3, y, z | z] | t => { member(x, [2, 2, 1]), x == [x, x, _] }, [x, 1 | y] => [append(x, x, [3, 3]), [3, y, _] == y], [1, _, [z, [], h | y]] => { z == [2 | z] }, }, [[3, 1], x | x] => { |t, h| { x == x, false } }, }, [[2, 1, []], [x, x], [x, 3 | x]] != x], [x == ["bc"], |tz| { tz == [1], [3, 1] != [3 | tz] }] }, |t| { |t, x| { matche x { t | [[t], 1, [1, _, h] | h] => [[3, t] == t, false], }, t == x }, x == "bc" }])
}
pub fn case_455(vars: &Vars) -> InferredGoal<DU, DE, Goal<DU, DE>> {
    let x = vars.v[0].clone();
    proto_vulcan!([conde { [matche x { [[3, [] | z]] => { [[z] == z, [[z, z, 'a'], [[], 3, x]] == [x]], |x, h| { 1 == [z], _ == [z], [['b', x | z], []] != z } }, _ => matche x { [3, y, z | z] | t => { member(x, [2, 2, 1]), x == [x, x, _] }, [x, 1 | y] => [append(x, x, [3, 3]), [3, y, _] == y], [1, _, [z, [], h | fresh_name_9]] => { z == [2 | z] }, }, [[3, 1], x | x] => { |t, h| { x == x, false } }, }, [[2, 1, []], [x, x], [x, 3 | x]] != x], [x == ["bc"], |tz| { tz == [1], [3, 1] != [3 | tz] }] }, |t| { |t, x| { matche x { t | [[t], 1, [1, _, h] | h] => [[3, t] == t, false], }, t == x }, x == "bc" }])
}
pub fn case_456(vars: &Vars) -> InferredGoal<DU, DE, Goal<DU, DE>> {
    let q = vars.v[0].clone();
    let x = vars.v[1].clone();
    proto_vulcan!([|t| { matche x { _ => { member(x, [1, 2, 3]) }, _ => { member(t, [1, 2, 3]) }, }, |t| { _ != t, [true], x != [["a", [], _] | 'a'] }, _ == "a" }, [_, q] == x, |tz| { tz == [3], [2 | tz] != [2, 3] }])
}
pub fn case_457(vars: &Vars) -> InferredGoal<DU, DE, Goal<DU, DE>> {
    let q = vars.v[0].clone();
    let x = vars.v[1].clone();
    proto_vulcan!([|t| { matche x { _ => { member(x, [1, 2, 3]) }, _ => { member(t, [1, 2, 3]) }, }, |fresh_name_9| { _ != fresh_name_9, [true], x != [["a", [], _] | 'a'] }, _ == "a" }, [_, q] == x, |tz| { tz == [3], [2 | tz] != [2, 3] }])
}
pub fn case_458(vars: &Vars) -> InferredGoal<DU, DE, Goal<DU, DE>> {
    let x = vars.v[0].clone();
    proto_vulcan!([x == [_], |tz| { [1 | tz] != [1, 3], tz == [3] }, closure { match x { [false, [z, [], 3 | h], [[], 2]] | [["bc" | _], true | h] => , [y, h] => { |h| { false, false } }, [[]] => { conde { [x != x, x == []] }, [append(x, x, [1]), false] }, } }])
}
pub fn case_459(vars: &Vars) -> InferredGoal<DU, DE, Goal<DU, DE>> {
    let x = vars.v[0].clone();
    proto_vulcan!([x == [_], |tz| { [1 | tz] != [1, 3], tz == [3] }, closure { match x { [false, [z, [], 3 | h], [[], 2]] | [["bc" | _], true | h] => , [fresh_name_9, h] => { |h| { false, false } }, [[]] => { conde { [x != x, x == []] }, [append(x, x, [1]), false] }, } }])
}
pub fn case_460(vars: &Vars) -> InferredGoal<DU, DE, Goal<DU, DE>> {
    let q = vars.v[0].clone();
    let x = vars.v[1].clone();
    proto_vulcan!([|t, y| { [matche t { [[t, h, z], [[]], 3] => { y == t, member(x, [2, 2]) }, [[y, _, 3 | _]] | y => { x == "bc", append(y, t, []) }, [3 | 3] => [[[y, y]] == t, true == t], }], matche q { _ | _ => , [z, [h, x], [[], z, x]] | [[[], y], [1, 1], [h, h]] => , }, [] }, [[x], 3] == x, x == q])
}
pub fn case_461(vars: &Vars) -> InferredGoal<DU, DE, Goal<DU, DE>> {
    let q = vars.v[0].clone();
    let x = vars.v[1].clone();
    proto_vulcan!([|t, y| { [matche t { [[t, fresh_name_9, z], [[]], 3] => { y == t, member(x, [2, 2]) }, [[y, _, 3 | _]] | y => { x == "bc", append(y, t, []) }, [3 | 3] => [[[y, y]] == t, true == t], }], matche q { _ | _ => , [z, [h, x], [[], z, x]] | [[[], y], [1, 1], [h, h]] => , }, [] }, [[x], 3] == x, x == q])
}
pub fn case_462(vars: &Vars) -> InferredGoal<DU, DE, Goal<DU, DE>> {
    let x = vars.v[0].clone();
    let y = vars.v[1].clone();
    proto_vulcan!([_ == y, |y| { conde { x != y, conde { [[x, []]] == 3, [y != y, x == [y | y]] }, y == [y, y, []] }, [false, [[_, y, x], x] != []], |h, y| {  } }, [y == x, |z| { |h| { z == [[3, _, []], ['b'], [y | z]], z == x, h == y } }]])
}
pub fn case_463(vars: &Vars) -> InferredGoal<DU, DE, Goal<DU, DE>> {
    let x = vars.v[0].clone();
    let y = vars.v[1].clone();
    proto_vulcan!([_ == y, |y| { conde { x != y, conde { [[x, []]] == 3, [y != y, x == [y | y]] }, y == [y, y, []] }, [false, [[_, y, x], x] != []], |h, y| {  } }, [y == x, |z| { |fresh_name_9| { z == [[3, _, []], ['b'], [y | z]], z == x, fresh_name_9 == y } }]])
}
pub fn case_464(vars: &Vars) -> InferredGoal<DU, DE, Goal<DU, DE>> {
    let x = vars.v[0].clone();
    proto_vulcan!([[[2], [_, x, 2], [2]] == [x, 3, []], append(x, x, [2, 1]), |tz| { [2, 3 | tz] != [2, 3, 3, 3], tz == [3, 3] }, closure { true }])
}
pub fn case_465(vars: &Vars) -> InferredGoal<DU, DE, Goal<DU, DE>> {
    let x = vars.v[0].clone();
    proto_vulcan!([[[2], [_, x, 2], [2]] == [x, 3, []], append(x, x, [2, 1]), |fresh_name_9| { [2, 3 | fresh_name_9] != [2, 3, 3, 3], fresh_name_9 == [3, 3] }, closure { true }])
}
pub fn case_466(vars: &Vars) -> InferredGoal<DU, DE, Goal<DU, DE>> {
    let q = vars.v[0].clone();
    let x = vars.v[1].clone();
    proto_vulcan!([match q { _ | [[1, h, 2 | h], [t, 1]] => |z| { _ != q }, }])
}
pub fn case_467(vars: &Vars) -> InferredGoal<DU, DE, Goal<DU, DE>> {
    let q = vars.v[0].clone();
    let x = vars.v[1].clone();
    proto_vulcan!([match q { _ | [[1, h, 2 | h], [t, 1]] => |fresh_name_9| { _ != q }, }])
}
pub fn case_468(vars: &Vars) -> InferredGoal<DU, DE, Goal<DU, DE>> {
    let x = vars.v[0].clone();
    proto_vulcan!([match [x, 2] { _ | [x, y | h] => , [2, [_], [t, 2, z]] | _ => [[["bc", 1 | x]] == x, |y| { |z| { x == [z, y, 2] }, [true] }], [[x], 1, [t]] => x == [[x, _, 3], "bc"], }, [_ | x] != x, closure { [matche ["bc"] { 1 => [[1] | x] == x, [[], z | t] => , [[3, 2, z], [[], x, _]] | x => , }, matche [x, x, 2] { "bc" => { conde { [member(x, [1]), [2] == x], x == [x, 1, 1 | x], [] }, x == x }, }] }])
}
pub fn case_469(vars: &Vars) -> InferredGoal<DU, DE, Goal<DU, DE>> {
    let x = vars.v[0].clone();
    proto_vulcan!([match [x, 2] { _ | [x, y | h] => , [2, [_], [t, 2, z]] | _ => [[["bc", 1 | x]] == x, |y| { |z| { x == [z, y, 2] }, [true] }], [[fresh_name_9], 1, [t]] => fresh_name_9 == [[fresh_name_9, _, 3], "bc"], }, [_ | x] != x, closure { [matche ["bc"] { 1 => [[1] | x] == x, [[], z | t] => , [[3, 2, z], [[], x, _]] | x => , }, matche [x, x, 2] { "bc" => { conde { [member(x, [1]), [2] == x], x == [x, 1, 1 | x], [] }, x == x }, }] }])
}
pub fn case_470(vars: &Vars) -> InferredGoal<DU, DE, Goal<DU, DE>> {
    let q = vars.v[0].clone();
    let x = vars.v[1].clone();
    proto_vulcan!([conde { q == x, [matche q { _ => , [[x] | _] | _ => , }, |t, h| { x == [t, x], matche [_, h | x] { [_, [t, 1], [x, 3, z]] => { member(t, [3, 1, 3]), 1 != 2 }, ['a', [true, y, []], _ | z] => [[2, [1, 'b', _ | h], [3 | q] | y] == 1, [] == z], }, 3 == t }] }, closure { matche x { [[[] | _]] => , } }])
}
pub fn case_471(vars: &Vars) -> InferredGoal<DU, DE, Goal<DU, DE>> {
    let q = vars.v[0].clone();
    let x = vars.v[1].clone();
    proto_vulcan!([conde { q == x, [matche q { _ => , [[x] | _] | _ => , }, |t, fresh_name_9| { x == [t, x], matche [_, fresh_name_9 | x] { [_, [t, 1], [x, 3, z]] => { member(t, [3, 1, 3]), 1 != 2 }, ['a', [true, y, []], _ | z] => [[2, [1, 'b', _ | fresh_name_9], [3 | q] | y] == 1, [] == z], }, 3 == t }] }, closure { matche x { [[[] | _]] => , } }])
}
pub fn case_472(vars: &Vars) -> InferredGoal<DU, DE, Goal<DU, DE>> {
    let q = vars.v[0].clone();
    let x = vars.v[1].clone();
    proto_vulcan!([1 == q, append(q, q, [2]), closure { |x| {  } }])
}
pub fn case_473(vars: &Vars) -> InferredGoal<DU, DE, Goal<DU, DE>> {
    let q = vars.v[0].clone();
    let x = vars.v[1].clone();
    proto_vulcan!([1 == q, append(q, q, [2]), closure { |fresh_name_9| {  } }])
}
pub fn case_474(vars: &Vars) -> InferredGoal<DU, DE, Goal<DU, DE>> {
    let q = vars.v[0].clone();
    let x = vars.v[1].clone();
    proto_vulcan!([|x, z| { ["a"] == x, |z, x| { [[1], ['a' | x], []] == x, match z { 2 | [[y, 3, _] | t] => { x == [1 | x], q != [true, q] }, [["a", _], z | 1] | _ => , }, match [x, _] { x | [[1 | t], 2] => [[z, q | q] == z, z == [z, 3]], } } }, [q] == q, q == [q | q]])
}
pub fn case_475(vars: &Vars) -> InferredGoal<DU, DE, Goal<DU, DE>> {
    let q = vars.v[0].clone();
    let x = vars.v[1].clone();
    proto_vulcan!([|x, fresh_name_9| { ["a"] == x, |z, x| { [[1], ['a' | x], []] == x, match z { 2 | [[y, 3, _] | t] => { x == [1 | x], q != [true, q] }, [["a", _], z | 1] | _ => , }, match [x, _] { x | [[1 | t], 2] => [[z, q | q] == z, z == [z, 3]], } } }, [q] == q, q == [q | q]])
}
pub fn case_476(vars: &Vars) -> InferredGoal<DU, DE, Goal<DU, DE>> {
    let q = vars.v[0].clone();
    let x = vars.v[1].clone();
    proto_vulcan!([[x == q, |t, x| { |t, h| { true, x == [[1 | t]], |tz| { tz == [1], [2 | tz] != [2, 1] } }, [member(t, [3, 1, 1]), t == 1], matche x { _ => { q == 7, q == 8 }, [[], [] | y] => { x == 2, 1 != [[[], _, t | x] | x] }, [y, [1, true | 1], false] => [[3] == y, [[2, x, 1], y] == t], } }, false], x == 'b'])
}
pub fn case_477(vars: &Vars) -> InferredGoal<DU, DE, Goal<DU, DE>> {
    let q = vars.v[0].clone();
    let x = vars.v[1].clone();
    proto_vulcan!([[x == q, |t, x| { |t, h| { true, x == [[1 | t]], |tz| { tz == [1], [2 | tz] != [2, 1] } }, [member(t, [3, 1, 1]), t == 1], matche x { _ => { q == 7, q == 8 }, [[], [] | y] => { x == 2, 1 != [[[], _, t | x] | x] }, [fresh_name_9, [1, true | 1], false] => [[3] == fresh_name_9, [[2, x, 1], fresh_name_9] == t], } }, false], x == 'b'])
}
pub fn case_478(vars: &Vars) -> InferredGoal<DU, DE, Goal<DU, DE>> {
    let x = vars.v[0].clone();
    proto_vulcan!([x == [_, x, x], |z, x| { z == 3, [x] == x }, |x| { [x, []] != x, [[x, 2], _] == x, x == 1 }])
}
pub fn case_479(vars: &Vars) -> InferredGoal<DU, DE, Goal<DU, DE>> {
    let x = vars.v[0].clone();
    proto_vulcan!([x == [_, x, x], |fresh_name_9, x| { fresh_name_9 == 3, [x] == x }, |x| { [x, []] != x, [[x, 2], _] == x, x == 1 }])
}
pub fn case_480(vars: &Vars) -> InferredGoal<DU, DE, Goal<DU, DE>> {
    let x = vars.v[0].clone();
    let y = vars.v[1].clone();
    proto_vulcan!([conde { [], |x| { [y == [[]]], [x] == x, [y == [_, _, x | x]] }, x == 2 }, conde { [x == 1, |h, t| {  }], x == x }, x == [x, true | x]])
}
pub fn case_481(vars: &Vars) -> InferredGoal<DU, DE, Goal<DU, DE>> {
    let x = vars.v[0].clone();
    let y = vars.v[1].clone();
    proto_vulcan!([conde { [], |x| { [y == [[]]], [x] == x, [y == [_, _, x | x]] }, x == 2 }, conde { [x == 1, |fresh_name_9, t| {  }], x == x }, x == [x, true | x]])
}
pub fn case_482(vars: &Vars) -> InferredGoal<DU, DE, Goal<DU, DE>> {
    let q = vars.v[0].clone();
    let x = vars.v[1].clone();
    proto_vulcan!([x != 1, x == q, closure { conde { |x, z| { member(x, []) }, match [_, x] { h => q == x, [h, [y, t, 1], ['b']] => [x == true, member(h, [3, 2])], _ => { append(x, q, []), [3, [q] | q] == [[[]], x] }, } } }])
}
pub fn case_483(vars: &Vars) -> InferredGoal<DU, DE, Goal<DU, DE>> {
    let q = vars.v[0].clone();
    let x = vars.v[1].clone();
    proto_vulcan!([x != 1, x == q, closure { conde { |x, z| { member(x, []) }, match [_, x] { h => q == x, [fresh_name_9, [y, t, 1], ['b']] => [x == true, member(fresh_name_9, [3, 2])], _ => { append(x, q, []), [3, [q] | q] == [[[]], x] }, } } }])
}
pub fn case_484(vars: &Vars) -> InferredGoal<DU, DE, Goal<DU, DE>> {
    let x = vars.v[0].clone();
    proto_vulcan!([x == x, matche x { [[2, z, z], [2, 2, 2 | _], y] => { true }, _ => { member(x, [1, 2, 3]) }, [3] => , }])
}
pub fn case_485(vars: &Vars) -> InferredGoal<DU, DE, Goal<DU, DE>> {
    let x = vars.v[0].clone();
    proto_vulcan!([x == x, matche x { [[2, fresh_name_9, fresh_name_9], [2, 2, 2 | _], y] => { true }, _ => { member(x, [1, 2, 3]) }, [3] => , }])
}
pub fn case_486(vars: &Vars) -> InferredGoal<DU, DE, Goal<DU, DE>> {
    let x = vars.v[0].clone();
    let y = vars.v[1].clone();
    proto_vulcan!([[[[], y | x]] == [1, 'a'], matche y { [false, [t, z], [1] | h] => [matche [1] { [[3, t]] => append(x, y, [3]), }, |t| { member(z, []) }], [[z, _, y | x] | _] => { [y, x | 3] == y }, _ => { member(y, [1, 2, 3]) }, }, [[y | x]] == y])
}
pub fn case_487(vars: &Vars) -> InferredGoal<DU, DE, Goal<DU, DE>> {
    let x = vars.v[0].clone();
    let y = vars.v[1].clone();
    proto_vulcan!([[[[], y | x]] == [1, 'a'], matche y { [false, [t, z], [1] | h] => [matche [1] { [[3, t]] => append(x, y, [3]), }, |fresh_name_9| { member(z, []) }], [[z, _, y | x] | _] => { [y, x | 3] == y }, _ => { member(y, [1, 2, 3]) }, }, [[y | x]] == y])
}
pub fn case_488(vars: &Vars) -> InferredGoal<DU, DE, Goal<DU, DE>> {
    let q = vars.v[0].clone();
    let x = vars.v[1].clone();
    proto_vulcan!([matche q { h => [[_, 2] == x, x == [h, ["bc", q], [h, h | x]]], [[1, 3, h]] => , }])
}
pub fn case_489(vars: &Vars) -> InferredGoal<DU, DE, Goal<DU, DE>> {
    let q = vars.v[0].clone();
    let x = vars.v[1].clone();
    proto_vulcan!([matche q { h => [[_, 2] == x, x == [h, ["bc", q], [h, h | x]]], [[1, 3, fresh_name_9]] => , }])
}
pub fn case_490(vars: &Vars) -> InferredGoal<DU, DE, Goal<DU, DE>> {
    let x = vars.v[0].clone();
    let y = vars.v[1].clone();
    proto_vulcan!([x != [y, y, y | 3], x == x, closure { [x == [], [matche x { [y, "a", [1, h]] => { h != x }, }]] }])
}
pub fn case_491(vars: &Vars) -> InferredGoal<DU, DE, Goal<DU, DE>> {
    let x = vars.v[0].clone();
    let y = vars.v[1].clone();
    proto_vulcan!([x != [y, y, y | 3], x == x, closure { [x == [], [matche x { [fresh_name_9, "a", [1, h]] => { h != x }, }]] }])
}
pub fn case_492(vars: &Vars) -> InferredGoal<DU, DE, Goal<DU, DE>> {
    let x = vars.v[0].clone();
    let y = vars.v[1].clone();
    proto_vulcan!([|h, t| { h == [1 | x], [t == [], |t| { [[h, 1]] != [[_, y], [1, 1, 1], [3, y, "a" | h] | h], y == t }, |y| { 1 != h }] }, y != [[], 1, 3 | x], y != [[x] | x], closure { [[['b', "a", "bc" | x]] == _, matche y { [y, z] => , }, append(y, x, [3])] }])
}
pub fn case_493(vars: &Vars) -> InferredGoal<DU, DE, Goal<DU, DE>> {
    let x = vars.v[0].clone();
    let y = vars.v[1].clone();
    proto_vulcan!([|fresh_name_9, t| { fresh_name_9 == [1 | x], [t == [], |t| { [[fresh_name_9, 1]] != [[_, y], [1, 1, 1], [3, y, "a" | fresh_name_9] | fresh_name_9], y == t }, |y| { 1 != fresh_name_9 }] }, y != [[], 1, 3 | x], y != [[x] | x], closure { [[['b', "a", "bc" | x]] == _, matche y { [y, z] => , }, append(y, x, [3])] }])
}
pub fn case_494(vars: &Vars) -> InferredGoal<DU, DE, Goal<DU, DE>> {
    let x = vars.v[0].clone();
    let y = vars.v[1].clone();
    proto_vulcan!([|tz| { tz == [1], [2, 3, 1] != [2, 3 | tz] }, conde { [], [y == [y, 3, 2], match x { [[_, 1, [] | t]] => , 2 => , _ => matche y { [[[], []], [[], 3, []]] => [y == [y, x], [[2, 2], [2, 2 | x] | x] != y], y | [[z, 2, "a"] | z] => { "bc" == x, x != [2] }, }, }] }, [y != ["a"], |h| { |h, z| { h == [y, 1], h != h, h == [[_, 2], [z | h], [[] | z] | z] }, matche h { true => [y == [[x, [], 2], [[], 2 | 1]], h != [[]]], _ => member(h, [1, 2, 3]), } }]])
}
pub fn case_495(vars: &Vars) -> InferredGoal<DU, DE, Goal<DU, DE>> {
    let x = vars.v[0].clone();
    let y = vars.v[1].clone();
    proto_vulcan!([|fresh_name_9| { fresh_name_9 == [1], [2, 3, 1] != [2, 3 | fresh_name_9] }, conde { [], [y == [y, 3, 2], match x { [[_, 1, [] | t]] => , 2 => , _ => matche y { [[[], []], [[], 3, []]] => [y == [y, x], [[2, 2], [2, 2 | x] | x] != y], y | [[z, 2, "a"] | z] => { "bc" == x, x != [2] }, }, }] }, [y != ["a"], |h| { |h, z| { h == [y, 1], h != h, h == [[_, 2], [z | h], [[] | z] | z] }, matche h { true => [y == [[x, [], 2], [[], 2 | 1]], h != [[]]], _ => member(h, [1, 2, 3]), } }]])
}
pub fn case_496(vars: &Vars) -> InferredGoal<DU, DE, Goal<DU, DE>> {
    let x = vars.v[0].clone();
    let y = vars.v[1].clone();
    proto_vulcan!([[true, x | y] == y, conde { [[member(y, [3, 2, 3])], y == x], conde { [x == [[x | x]], x == _], |z, y| { |tz| { tz == [3], [1, 1 | tz] != [1, 1, 3] }, [_, 'b'] == x }, x == [y, [], x | x] } }, [2 == y, match x { [[t, false, _ | _], 2 | y] => [matche x { _ => { x == 7, x == 8 }, ["a"] => { y != [true | t] }, [z, 2] => , }, matche y { [[x], [2, x] | x] => x == [1, x], }], }], closure { match x { [z] | [[y | 2] | h] => { member(x, [2, 1]), matche 2 { [y, [h, t, 2]] => , [["a"], [y]] => , [[3, 1], [2] | t] | [[z | _], h, 3 | x] => , } }, [x, z, [h, _]] => { [false, y == ['b', z | x]], [member(h, [1, 3]), z == [z, [z, x | x]], true != [[x], [_], [3]]] }, _ => { y == [_, [], y | y], append(y, y, [2]) }, } }])
}
pub fn case_497(vars: &Vars) -> InferredGoal<DU, DE, Goal<DU, DE>> {
    let x = vars.v[0].clone();
    let y = vars.v[1].clone();
    proto_vulcan!([[true, x | y] == y, conde { [[member(y, [3, 2, 3])], y == x], conde { [x == [[x | x]], x == _], |z, y| { |tz| { tz == [3], [1, 1 | tz] != [1, 1, 3] }, [_, 'b'] == x }, x == [y, [], x | x] } }, [2 == y, match x { [[t, false, _ | _], 2 | y] => [matche x { _ => { x == 7, x == 8 }, ["a"] => { y != [true | t] }, [z, 2] => , }, matche y { [[x], [2, x] | x] => x == [1, x], }], }], closure { match x { [z] | [[y | 2] | h] => { member(x, [2, 1]), matche 2 { [fresh_name_9, [h, t, 2]] => , [["a"], [y]] => , [[3, 1], [2] | t] | [[z | _], h, 3 | x] => , } }, [x, z, [h, _]] => { [false, y == ['b', z | x]], [member(h, [1, 3]), z == [z, [z, x | x]], true != [[x], [_], [3]]] }, _ => { y == [_, [], y | y], append(y, y, [2]) }, } }])
}
pub fn case_498(vars: &Vars) -> InferredGoal<DU, DE, Goal<DU, DE>> {
    let q = vars.v[0].clone();
    let x = vars.v[1].clone();
    proto_vulcan!([matche q { _ => { |z| { x == [3, z] } }, [[1 | x]] => { x == [2, []] }, [[2, [] | z], t | _] => { x == [z, 2, q | z] }, }])
}
pub fn case_499(vars: &Vars) -> InferredGoal<DU, DE, Goal<DU, DE>> {
    let q = vars.v[0].clone();
    let x = vars.v[1].clone();
    proto_vulcan!([matche q { _ => { |z| { x == [3, z] } }, [[1 | x]] => { x == [2, []] }, [[2, [] | fresh_name_9], t | _] => { x == [fresh_name_9, 2, q | fresh_name_9] }, }])
}
pub fn case_500(vars: &Vars) -> InferredGoal<DU, DE, Goal<DU, DE>> {
    let x = vars.v[0].clone();
    let y = vars.v[1].clone();
    proto_vulcan!([x == y, |z| { append(y, x, [3]) }, |tz| { [2, 1, 2] != [2, 1 | tz], tz == [2] }])
}
pub fn case_501(vars: &Vars) -> InferredGoal<DU, DE, Goal<DU, DE>> {
    let x = vars.v[0].clone();
    let y = vars.v[1].clone();
    proto_vulcan!([x == y, |fresh_name_9| { append(y, x, [3]) }, |tz| { [2, 1, 2] != [2, 1 | tz], tz == [2] }])
}
pub fn case_502(vars: &Vars) -> InferredGoal<DU, DE, Goal<DU, DE>> {
    let q = vars.v[0].clone();
    let x = vars.v[1].clone();
    proto_vulcan!([conde { |x| { q == 'b', 3 == q, conde { [[1, 3, x] == q, member(x, [])], [x, 2, 2] == q, [[[], x | x], true, 1] == [2, false] } }, [member(q, [2])], x == [x | x] }, matche q { [[_, []]] => [q == [1], x == 2], t => { x == 3 }, 'b' => { [[true != [q, 'a' | _], [1, [[], _, x] | true] == x], member(x, [1, 2]), q != [true, q, q]] }, }, [[q] == x, q == q, [] != _]])
}
pub fn case_503(vars: &Vars) -> InferredGoal<DU, DE, Goal<DU, DE>> {
    let q = vars.v[0].clone();
    let x = vars.v[1].clone();
    proto_vulcan!([conde { |fresh_name_9| { q == 'b', 3 == q, conde { [[1, 3, fresh_name_9] == q, member(fresh_name_9, [])], [fresh_name_9, 2, 2] == q, [[[], fresh_name_9 | fresh_name_9], true, 1] == [2, false] } }, [member(q, [2])], x == [x | x] }, matche q { [[_, []]] => [q == [1], x == 2], t => { x == 3 }, 'b' => { [[true != [q, 'a' | _], [1, [[], _, x] | true] == x], member(x, [1, 2]), q != [true, q, q]] }, }, [[q] == x, q == q, [] != _]])
}
pub fn case_504(vars: &Vars) -> InferredGoal<DU, DE, Goal<DU, DE>> {
    let x = vars.v[0].clone();
    proto_vulcan!([|tz| { tz == [3, 3], [3 | tz] != [3, 3, 3] }, [[], 1] != x])
}
pub fn case_505(vars: &Vars) -> InferredGoal<DU, DE, Goal<DU, DE>> {
    let x = vars.v[0].clone();
    proto_vulcan!([|fresh_name_9| { fresh_name_9 == [3, 3], [3 | fresh_name_9] != [3, 3, 3] }, [[], 1] != x])
}
pub fn case_506(vars: &Vars) -> InferredGoal<DU, DE, Goal<DU, DE>> {
    let x = vars.v[0].clone();
    proto_vulcan!([x == [[x, x, []], x, x | x], x == [x, _], x == [x], closure { [[|z, h| {  }], |t| { [_, 1] == t, [_, _] == t, [[t, x] == x, t == [2, x]] }] }])
}
pub fn case_507(vars: &Vars) -> InferredGoal<DU, DE, Goal<DU, DE>> {
    let x = vars.v[0].clone();
    proto_vulcan!([x == [[x, x, []], x, x | x], x == [x, _], x == [x], closure { [[|fresh_name_9, h| {  }], |t| { [_, 1] == t, [_, _] == t, [[t, x] == x, t == [2, x]] }] }])
}
pub fn case_508(vars: &Vars) -> InferredGoal<DU, DE, Goal<DU, DE>> {
    let x = vars.v[0].clone();
    let y = vars.v[1].clone();
    proto_vulcan!([match [[], "bc" | x] { _ => { x == 7, x == 8 }, [[[], 2, 2 | 1], [y, 1]] | [z] => , [[_, 2], "bc", [z, y, x]] => { x == [2, 1, 2] }, }, x != [3, x, _ | 2], [false, false]])
}
pub fn case_509(vars: &Vars) -> InferredGoal<DU, DE, Goal<DU, DE>> {
    let x = vars.v[0].clone();
    let y = vars.v[1].clone();
    proto_vulcan!([match [[], "bc" | x] { _ => { x == 7, x == 8 }, [[[], 2, 2 | 1], [y, 1]] | [z] => , [[_, 2], "bc", [z, y, fresh_name_9]] => { fresh_name_9 == [2, 1, 2] }, }, x != [3, x, _ | 2], [false, false]])
}
pub fn case_510(vars: &Vars) -> InferredGoal<DU, DE, Goal<DU, DE>> {
    let q = vars.v[0].clone();
    let x = vars.v[1].clone();
    proto_vulcan!([[[q | 2], true | x] == [x, 2, 2], member(x, [1, 3]), conde { [conde { matche q { [[[], _, z], t] => [x == _, member(x, [2, 1, 1])], }, [|y| { |tz| { tz == [1, 2], [1 | tz] != [1, 1, 2] }, [2, _] != _, false }, [q == x]] }, [match x { 3 => , z | [3] => member(x, []), }, matche x { _ => { member(x, [1, 2, 3]) }, }]], x == x }, closure { [x == [_, q], q == _] }])
}
pub fn case_511(vars: &Vars) -> InferredGoal<DU, DE, Goal<DU, DE>> {
    let q = vars.v[0].clone();
    let x = vars.v[1].clone();
    proto_vulcan!([[[q | 2], true | x] == [x, 2, 2], member(x, [1, 3]), conde { [conde { matche q { [[[], _, fresh_name_9], t] => [x == _, member(x, [2, 1, 1])], }, [|y| { |tz| { tz == [1, 2], [1 | tz] != [1, 1, 2] }, [2, _] != _, false }, [q == x]] }, [match x { 3 => , z | [3] => member(x, []), }, matche x { _ => { member(x, [1, 2, 3]) }, }]], x == x }, closure { [x == [_, q], q == _] }])
}
pub fn case_512(vars: &Vars) -> InferredGoal<DU, DE, Goal<DU, DE>> {
    let q = vars.v[0].clone();
    let x = vars.v[1].clone();
    proto_vulcan!([conde { match q { [[1, _, []], [x | x], [1] | t] => { [x, 2] == q }, [[z, _, 3], 3, 2] => , }, [conde { matche 1 { [z] | [[y | _]] => _ != q, [["a", 1], t, y | _] => true, }, [[x] == x, matche x { [h] | y => { x != [1, 3, 2] }, y => , _ => [q == 7, q == 8], }], [|t| {  }, x != [[q]]] }, match x { [[x, 3, 1], [x, 1 | y]] => { match x { [[x, x, y]] => , _ => { q == 7, q == 8 }, } }, 1 => , }] }, match x { [] | [[h, y, true | 'b'], 2, [y, h]] => { x == q, x == 1 }, [[_], y, [1] | z] => , }])
}
pub fn case_513(vars: &Vars) -> InferredGoal<DU, DE, Goal<DU, DE>> {
    let q = vars.v[0].clone();
    let x = vars.v[1].clone();
    proto_vulcan!([conde { match q { [[1, _, []], [fresh_name_9 | fresh_name_9], [1] | t] => { [fresh_name_9, 2] == q }, [[z, _, 3], 3, 2] => , }, [conde { matche 1 { [z] | [[y | _]] => _ != q, [["a", 1], t, y | _] => true, }, [[x] == x, matche x { [h] | y => { x != [1, 3, 2] }, y => , _ => [q == 7, q == 8], }], [|t| {  }, x != [[q]]] }, match x { [[x, 3, 1], [x, 1 | y]] => { match x { [[x, x, y]] => , _ => { q == 7, q == 8 }, } }, 1 => , }] }, match x { [] | [[h, y, true | 'b'], 2, [y, h]] => { x == q, x == 1 }, [[_], y, [1] | z] => , }])
}
pub fn case_514(vars: &Vars) -> InferredGoal<DU, DE, Goal<DU, DE>> {
    let q = vars.v[0].clone();
    let x = vars.v[1].clone();
    proto_vulcan!([|tz| { tz == [2, 2], [2, 3, 2, 2] != [2, 3 | tz] }, [match q { [[1 | x], 3, h] => |t, x| { x == [], [q, 1] == h }, [] => , }, append(x, x, [1]), [[[], x, x], [] | x] == q], closure { [true, |h| {  }] }])
}
pub fn case_515(vars: &Vars) -> InferredGoal<DU, DE, Goal<DU, DE>> {
    let q = vars.v[0].clone();
    let x = vars.v[1].clone();
    proto_vulcan!([|tz| { tz == [2, 2], [2, 3, 2, 2] != [2, 3 | tz] }, [match q { [[1 | x], 3, h] => |t, x| { x == [], [q, 1] == h }, [] => , }, append(x, x, [1]), [[[], x, x], [] | x] == q], closure { [true, |fresh_name_9| {  }] }])
}
pub fn case_516(vars: &Vars) -> InferredGoal<DU, DE, Goal<DU, DE>> {
    let x = vars.v[0].clone();
    let y = vars.v[1].clone();
    proto_vulcan!([|z| { conde { |z, t| { [z, 2] == [[], [[]], [[], 2]], [[], t, 3] != y, t == 1 }, 1 != y } }])
}
pub fn case_517(vars: &Vars) -> InferredGoal<DU, DE, Goal<DU, DE>> {
    let x = vars.v[0].clone();
    let y = vars.v[1].clone();
    proto_vulcan!([|z| { conde { |z, fresh_name_9| { [z, 2] == [[], [[]], [[], 2]], [[], fresh_name_9, 3] != y, fresh_name_9 == 1 }, 1 != y } }])
}
pub fn case_518(vars: &Vars) -> InferredGoal<DU, DE, Goal<DU, DE>> {
    let x = vars.v[0].clone();
    proto_vulcan!([conde { [[[2], [x], [] | x] == x, match x { x => , }], [matche x { [2, [false, x | 2]] => , y => , }, [x] == x], [x == [x, [], x | x], x != "bc"] }, closure { [matche x { [2, z | _] | [y, 1, [[], 2]] => [x] == x, }, matche [x] { [[2, 1], h, []] => { h == [x | x], |x, t| { member(t, [1, 1]), t == x, [[h | x], 'a', [] | h] == t } }, }] }])
}
pub fn case_519(vars: &Vars) -> InferredGoal<DU, DE, Goal<DU, DE>> {
    let x = vars.v[0].clone();
    proto_vulcan!([conde { [[[2], [x], [] | x] == x, match x { x => , }], [matche x { [2, [false, x | 2]] => , y => , }, [x] == x], [x == [x, [], x | x], x != "bc"] }, closure { [matche x { [2, z | _] | [y, 1, [[], 2]] => [x] == x, }, matche [x] { [[2, 1], fresh_name_9, []] => { fresh_name_9 == [x | x], |x, t| { member(t, [1, 1]), t == x, [[fresh_name_9 | x], 'a', [] | fresh_name_9] == t } }, }] }])
}
pub fn case_520(vars: &Vars) -> InferredGoal<DU, DE, Goal<DU, DE>> {
    let q = vars.v[0].clone();
    let x = vars.v[1].clone();
    proto_vulcan!([[|tz| { [2 | tz] != [2, 2, 3], tz == [2, 3] }], conde { [], [false, [q, ['b', q, 1 | q], [x] | q] != q] }])
}
pub fn case_521(vars: &Vars) -> InferredGoal<DU, DE, Goal<DU, DE>> {
    let q = vars.v[0].clone();
    let x = vars.v[1].clone();
    proto_vulcan!([[|fresh_name_9| { [2 | fresh_name_9] != [2, 2, 3], fresh_name_9 == [2, 3] }], conde { [], [false, [q, ['b', q, 1 | q], [x] | q] != q] }])
}
pub fn case_522(vars: &Vars) -> InferredGoal<DU, DE, Goal<DU, DE>> {
    let q = vars.v[0].clone();
    let x = vars.v[1].clone();
    proto_vulcan!([|x| { |z, y| { q != x, [[x] == x, true, [x, 2, y] == q], conde { [[2, []], 'b'] == z } }, append(x, x, [3]), 1 == q }, x == q, closure { [[], [1]] == [2, [], x | "a"] }])
}
pub fn case_523(vars: &Vars) -> InferredGoal<DU, DE, Goal<DU, DE>> {
    let q = vars.v[0].clone();
    let x = vars.v[1].clone();
    proto_vulcan!([|x| { |fresh_name_9, y| { q != x, [[x] == x, true, [x, 2, y] == q], conde { [[2, []], 'b'] == fresh_name_9 } }, append(x, x, [3]), 1 == q }, x == q, closure { [[], [1]] == [2, [], x | "a"] }])
}
pub fn case_524(vars: &Vars) -> InferredGoal<DU, DE, Goal<DU, DE>> {
    let x = vars.v[0].clone();
    proto_vulcan!([[x, [], _] == x, |t, h| { |t, z| { |z| { append(x, z, [1, 3]) }, |z| { h == t, true, [t | t] == t }, t != [x, [], 1 | z] }, 1 == t }, |h, t| { t == h, h == x, match t { [[_, 3, z], _ | y] => [[[1, _, h], [2, false, 2 | h]] == [[1 | x], [t, x]], [h, y, 'a'] != h], } }, closure { [1, x, []] == x }])
}
pub fn case_525(vars: &Vars) -> InferredGoal<DU, DE, Goal<DU, DE>> {
    let x = vars.v[0].clone();
    proto_vulcan!([[x, [], _] == x, |t, h| { |t, z| { |z| { append(x, z, [1, 3]) }, |z| { h == t, true, [t | t] == t }, t != [x, [], 1 | z] }, 1 == t }, |h, t| { t == h, h == x, match t { [[_, 3, fresh_name_9], _ | y] => [[[1, _, h], [2, false, 2 | h]] == [[1 | x], [t, x]], [h, y, 'a'] != h], } }, closure { [1, x, []] == x }])
}
pub fn case_526(vars: &Vars) -> InferredGoal<DU, DE, Goal<DU, DE>> {
    let x = vars.v[0].clone();
    let y = vars.v[1].clone();
    proto_vulcan!([y != [_, _], conde { |y, z| { true, x == y, y == [y] }, [1, x | y] == [[], [2, 2, []]], _ == x }])
}
pub fn case_527(vars: &Vars) -> InferredGoal<DU, DE, Goal<DU, DE>> {
    let x = vars.v[0].clone();
    let y = vars.v[1].clone();
    proto_vulcan!([y != [_, _], conde { |y, fresh_name_9| { true, x == y, y == [y] }, [1, x | y] == [[], [2, 2, []]], _ == x }])
}
pub fn case_528(vars: &Vars) -> InferredGoal<DU, DE, Goal<DU, DE>> {
    let x = vars.v[0].clone();
    proto_vulcan!([[1] != [[1, x], [_, 1] | x], match x { [[3 | _] | z] => conde { _ == x, |y, x| { append(y, x, [2, 3]), append(x, x, [3, 3]) } }, [[2], z | _] => x == [], [3, [y, 3], [h, t, 2]] => { |x, h| { matche y { [["a", t | x], 2] => , y | 2 => true, [[1], [2, h], [z, 2]] => , }, h == h }, [conde { [[x, x | y], [x], [3, y]] == y, true, [[]] != h }, [h, [y, t, [] | t] | h] == [[2, h] | y]] }, }])
}
pub fn case_529(vars: &Vars) -> InferredGoal<DU, DE, Goal<DU, DE>> {
    let x = vars.v[0].clone();
    proto_vulcan!([[1] != [[1, x], [_, 1] | x], match x { [[3 | _] | z] => conde { _ == x, |y, x| { append(y, x, [2, 3]), append(x, x, [3, 3]) } }, [[2], z | _] => x == [], [3, [y, 3], [h, fresh_name_9, 2]] => { |x, h| { matche y { [["a", t | x], 2] => , y | 2 => true, [[1], [2, h], [z, 2]] => , }, h == h }, [conde { [[x, x | y], [x], [3, y]] == y, true, [[]] != h }, [h, [y, fresh_name_9, [] | fresh_name_9] | h] == [[2, h] | y]] }, }])
}
pub fn case_530(vars: &Vars) -> InferredGoal<DU, DE, Goal<DU, DE>> {
    let q = vars.v[0].clone();
    let x = vars.v[1].clone();
    proto_vulcan!([conde { [[x, false], [1, x, x]] == [false, x | true], [|y| { [[[], [], y | q], 1, [y, x | y]] == y }, q == [[[] | x]]], x == q }])
}
pub fn case_531(vars: &Vars) -> InferredGoal<DU, DE, Goal<DU, DE>> {
    let q = vars.v[0].clone();
    let x = vars.v[1].clone();
    proto_vulcan!([conde { [[x, false], [1, x, x]] == [false, x | true], [|fresh_name_9| { [[[], [], fresh_name_9 | q], 1, [fresh_name_9, x | fresh_name_9]] == fresh_name_9 }, q == [[[] | x]]], x == q }])
}
pub fn case_532(vars: &Vars) -> InferredGoal<DU, DE, Goal<DU, DE>> {
    let x = vars.v[0].clone();
    let y = vars.v[1].clone();
    proto_vulcan!([false, matche y { [[x, "bc" | 1]] | [[3] | x] => [x, x | x] == x, [[t, _], [z, 2 | _], [h | 2] | z] => 2 == h, t => { y == [t] }, }])
}
pub fn case_533(vars: &Vars) -> InferredGoal<DU, DE, Goal<DU, DE>> {
    let x = vars.v[0].clone();
    let y = vars.v[1].clone();
    proto_vulcan!([false, matche y { [[x, "bc" | 1]] | [[3] | x] => [x, x | x] == x, [[t, _], [z, 2 | _], [h | 2] | z] => 2 == h, fresh_name_9 => { y == [fresh_name_9] }, }])
}
pub fn case_534(vars: &Vars) -> InferredGoal<DU, DE, Goal<DU, DE>> {
    let q = vars.v[0].clone();
    let x = vars.v[1].clone();
    proto_vulcan!([|y| { x == [x, _], y == x, matche x { 1 => , [h, y] => { matche q { _ | [[_ | y], y, 1] => { true, [_] == h }, _ => { [1] == q }, [x, [true | x]] => , }, y != q }, } }, conde { q == _, [|t| { [[1, false, [_, x]] == t], append(q, q, [3, 2]), match t { _ => { member(t, [1, 2, 3]) }, _ => { [2, q] == t }, true => , } }, ['a' | x] == q], [x == [false, _, q], [1, 1, q] == x] }, [] == _])
}
pub fn case_535(vars: &Vars) -> InferredGoal<DU, DE, Goal<DU, DE>> {
    let q = vars.v[0].clone();
    let x = vars.v[1].clone();
    proto_vulcan!([|y| { x == [x, _], y == x, matche x { 1 => , [h, y] => { matche q { _ | [[_ | y], y, 1] => { true, [_] == h }, _ => { [1] == q }, [x, [true | x]] => , }, y != q }, } }, conde { q == _, [|fresh_name_9| { [[1, false, [_, x]] == fresh_name_9], append(q, q, [3, 2]), match fresh_name_9 { _ => { member(fresh_name_9, [1, 2, 3]) }, _ => { [2, q] == fresh_name_9 }, true => , } }, ['a' | x] == q], [x == [false, _, q], [1, 1, q] == x] }, [] == _])
}
pub fn case_536(vars: &Vars) -> InferredGoal<DU, DE, Goal<DU, DE>> {
    let x = vars.v[0].clone();
    proto_vulcan!([|y| { false, matche x { [[[], 3], [], [2, [] | _] | h] => , ["bc", [x, 1, 1], 3] | _ => , } }, [x != [2, "a"], [member(x, [2, 2, 3]), 3 == x], false], []])
}
pub fn case_537(vars: &Vars) -> InferredGoal<DU, DE, Goal<DU, DE>> {
    let x = vars.v[0].clone();
    proto_vulcan!([|fresh_name_9| { false, matche x { [[[], 3], [], [2, [] | _] | h] => , ["bc", [x, 1, 1], 3] | _ => , } }, [x != [2, "a"], [member(x, [2, 2, 3]), 3 == x], false], []])
}
pub fn case_538(vars: &Vars) -> InferredGoal<DU, DE, Goal<DU, DE>> {
    let q = vars.v[0].clone();
    let x = vars.v[1].clone();
    proto_vulcan!([q != 1, |x| { |tz| { tz == [1], [1, 3 | tz] != [1, 3, 1] }, match x { [2, 1 | t] => match [1, 3, q] { _ => { 2 == q, member(x, []) }, }, 2 => , _ | _ => [[] != [q, []], false], }, |z| { false, [_, z, x] != [[1, 3, x | q], [[], z], [_, 3, 1]], conde { z != x, true, [_ == [x | z], true] } } }, |z| { |h| { [x, 'a', x | 1] == x }, z == [x] }])
}
pub fn case_539(vars: &Vars) -> InferredGoal<DU, DE, Goal<DU, DE>> {
    let q = vars.v[0].clone();
    let x = vars.v[1].clone();
    proto_vulcan!([q != 1, |x| { |tz| { tz == [1], [1, 3 | tz] != [1, 3, 1] }, match x { [2, 1 | t] => match [1, 3, q] { _ => { 2 == q, member(x, []) }, }, 2 => , _ | _ => [[] != [q, []], false], }, |z| { false, [_, z, x] != [[1, 3, x | q], [[], z], [_, 3, 1]], conde { z != x, true, [_ == [x | z], true] } } }, |fresh_name_9| { |h| { [x, 'a', x | 1] == x }, fresh_name_9 == [x] }])
}
pub fn case_540(vars: &Vars) -> InferredGoal<DU, DE, Goal<DU, DE>> {
    let q = vars.v[0].clone();
    let x = vars.v[1].clone();
    proto_vulcan!([[2, _, 'b'] == [[q, x, []], true, [[], 'a']], closure { [matche q { _ | [[x], [y, 3, []]] => [[[_, 3] | q] == [1], _ == [q, [_, 1] | q]], [[_, h], [_, 3]] => [[2, q, 1] != x, true], [[_, 1, []], [2, [], _]] => { member(q, []) }, }, q != "a", match x { _ => { x == 7, x == 8 }, }] }])
}
pub fn case_541(vars: &Vars) -> InferredGoal<DU, DE, Goal<DU, DE>> {
    let q = vars.v[0].clone();
    let x = vars.v[1].clone();
    proto_vulcan!([[2, _, 'b'] == [[q, x, []], true, [[], 'a']], closure { [matche q { _ | [[x], [y, 3, []]] => [[[_, 3] | q] == [1], _ == [q, [_, 1] | q]], [[_, fresh_name_9], [_, 3]] => [[2, q, 1] != x, true], [[_, 1, []], [2, [], _]] => { member(q, []) }, }, q != "a", match x { _ => { x == 7, x == 8 }, }] }])
}
pub fn case_542(vars: &Vars) -> InferredGoal<DU, DE, Goal<DU, DE>> {
    let x = vars.v[0].clone();
    proto_vulcan!([x == x, closure { [[2] == x, |t| { |tz| { tz == [3, 1], [3, 2, 3, 1] != [3, 2 | tz] } }] }])
}
pub fn case_543(vars: &Vars) -> InferredGoal<DU, DE, Goal<DU, DE>> {
    let x = vars.v[0].clone();
    proto_vulcan!([x == x, closure { [[2] == x, |t| { |fresh_name_9| { fresh_name_9 == [3, 1], [3, 2, 3, 1] != [3, 2 | fresh_name_9] } }] }])
}
pub fn case_544(vars: &Vars) -> InferredGoal<DU, DE, Goal<DU, DE>> {
    let q = vars.v[0].clone();
    let x = vars.v[1].clone();
    proto_vulcan!([|z| { false, match x { [[1, 1, 2], 1, [y, 2 | _]] => { |y| { 2 == x, y != y, [q, 2, _ | y] == y }, [] }, _ => { q == 7, q == 8 }, } }, _ == q, [[[]], 1 | q] == x])
}
pub fn case_545(vars: &Vars) -> InferredGoal<DU, DE, Goal<DU, DE>> {
    let q = vars.v[0].clone();
    let x = vars.v[1].clone();
    proto_vulcan!([|z| { false, match x { [[1, 1, 2], 1, [fresh_name_9, 2 | _]] => { |y| { 2 == x, y != y, [q, 2, _ | y] == y }, [] }, _ => { q == 7, q == 8 }, } }, _ == q, [[[]], 1 | q] == x])
}
pub fn case_546(vars: &Vars) -> InferredGoal<DU, DE, Goal<DU, DE>> {
    let x = vars.v[0].clone();
    let y = vars.v[1].clone();
    proto_vulcan!([[1, 1] != x, matche x { 3 => |tz| { tz == [2], [2, 1, 2] != [2, 1 | tz] }, }])
}
pub fn case_547(vars: &Vars) -> InferredGoal<DU, DE, Goal<DU, DE>> {
    let x = vars.v[0].clone();
    let y = vars.v[1].clone();
    proto_vulcan!([[1, 1] != x, matche x { 3 => |fresh_name_9| { fresh_name_9 == [2], [2, 1, 2] != [2, 1 | fresh_name_9] }, }])
}
pub fn case_548(vars: &Vars) -> InferredGoal<DU, DE, Goal<DU, DE>> {
    let x = vars.v[0].clone();
    proto_vulcan!([matche x { [[[]], [false, 1, 3]] | [z, y, [t | z]] => { |x, h| { conde { 2 == h }, |tz| { [2, 2, 2] != [2 | tz], tz == [2, 2] }, member(x, [3, 2]) } }, 1 | [[2], ["bc", "a", 2]] => , }, |y| { conde { append(y, y, [2, 1]), [[[y], [x, x, y] | y] == x, append(y, y, [2, 2])], |x, t| { x != y } }, |t| { [[] == x, 2 == y], y == [y], x == 3 }, x == [1, x, x | x] }, conde { [3, [], x] != x, [] == x }])
}
pub fn case_549(vars: &Vars) -> InferredGoal<DU, DE, Goal<DU, DE>> {
    let x = vars.v[0].clone();
    proto_vulcan!([matche x { [[[]], [false, 1, 3]] | [z, y, [t | z]] => { |x, h| { conde { 2 == h }, |tz| { [2, 2, 2] != [2 | tz], tz == [2, 2] }, member(x, [3, 2]) } }, 1 | [[2], ["bc", "a", 2]] => , }, |y| { conde { append(y, y, [2, 1]), [[[y], [x, x, y] | y] == x, append(y, y, [2, 2])], |x, t| { x != y } }, |fresh_name_9| { [[] == x, 2 == y], y == [y], x == 3 }, x == [1, x, x | x] }, conde { [3, [], x] != x, [] == x }])
}
pub fn case_550(vars: &Vars) -> InferredGoal<DU, DE, Goal<DU, DE>> {
    let x = vars.v[0].clone();
    proto_vulcan!([|h| { x == [false], _ == [_, h] }, conde { [true, x == [x, x, 1]], conde { [|t, x| { [x, t, t] != x, false }, |t| { [true] == t, x != [[2, x]] }], |t, h| { h == [_, h, 'b' | t], h != [[t], [2], x | t], |tz| { [2, 1 | tz] != [2, 1, 2], tz == [2] } }, |x| { _ == x, x == x } }, [[|tz| { tz == [1, 2], [3, 2, 1, 2] != [3, 2 | tz] }], |tz| { tz == [3], [2, 3] != [2 | tz] }] }, conde { [|tz| { tz == [3, 1], [3 | tz] != [3, 3, 1] }, x == true], [false, match 'a' { _ => [x == 7, x == 8], 'a' | _ => { match x { _ => [x == 7, x == 8], [] => [[] == x, x == [3]], [[_, [], "a"], [false, _ | y]] => , }, |t| { 1 == x, append(t, t, [1, 1]) } }, [y, [3]] => , }], [] }])
}
pub fn case_551(vars: &Vars) -> InferredGoal<DU, DE, Goal<DU, DE>> {
    let x = vars.v[0].clone();
    proto_vulcan!([|h| { x == [false], _ == [_, h] }, conde { [true, x == [x, x, 1]], conde { [|t, fresh_name_9| { [fresh_name_9, t, t] != fresh_name_9, false }, |t| { [true] == t, x != [[2, x]] }], |t, h| { h == [_, h, 'b' | t], h != [[t], [2], x | t], |tz| { [2, 1 | tz] != [2, 1, 2], tz == [2] } }, |x| { _ == x, x == x } }, [[|tz| { tz == [1, 2], [3, 2, 1, 2] != [3, 2 | tz] }], |tz| { tz == [3], [2, 3] != [2 | tz] }] }, conde { [|tz| { tz == [3, 1], [3 | tz] != [3, 3, 1] }, x == true], [false, match 'a' { _ => [x == 7, x == 8], 'a' | _ => { match x { _ => [x == 7, x == 8], [] => [[] == x, x == [3]], [[_, [], "a"], [false, _ | y]] => , }, |t| { 1 == x, append(t, t, [1, 1]) } }, [y, [3]] => , }], [] }])
}
pub fn case_552(vars: &Vars) -> InferredGoal<DU, DE, Goal<DU, DE>> {
    let x = vars.v[0].clone();
    proto_vulcan!([conde { [1 == x, x == [1, 2, [3, 2 | x] | x]], |tz| { [1, 3, 1] != [1, 3 | tz], tz == [1] }, [["bc", 'a'] != x, true] }, x != x])
}
pub fn case_553(vars: &Vars) -> InferredGoal<DU, DE, Goal<DU, DE>> {
    let x = vars.v[0].clone();
    proto_vulcan!([conde { [1 == x, x == [1, 2, [3, 2 | x] | x]], |fresh_name_9| { [1, 3, 1] != [1, 3 | fresh_name_9], fresh_name_9 == [1] }, [["bc", 'a'] != x, true] }, x != x])
}
pub fn case_554(vars: &Vars) -> InferredGoal<DU, DE, Goal<DU, DE>> {
    let q = vars.v[0].clone();
    let x = vars.v[1].clone();
    proto_vulcan!([match x { 'a' => [|y| { q == x, q == [y | x], |h, t| { x == [h, q | 1], true, true } }, q == [q | 1]], _ | _ => [] == [[2, q, q | x]], _ => [[x, [q], [x]] == 1, [] != x], }, x == [_, 2, x], q == 2])
}
pub fn case_555(vars: &Vars) -> InferredGoal<DU, DE, Goal<DU, DE>> {
    let q = vars.v[0].clone();
    let x = vars.v[1].clone();
    proto_vulcan!([match x { 'a' => [|y| { q == x, q == [y | x], |h, fresh_name_9| { x == [h, q | 1], true, true } }, q == [q | 1]], _ | _ => [] == [[2, q, q | x]], _ => [[x, [q], [x]] == 1, [] != x], }, x == [_, 2, x], q == 2])
}
pub fn case_556(vars: &Vars) -> InferredGoal<DU, DE, Goal<DU, DE>> {
    let x = vars.v[0].clone();
    let y = vars.v[1].clone();
    proto_vulcan!([match y { [["a", _ | h], [z, t, y], [2, 1 | _]] | x => , [[1 | z]] => [[conde { [1] == y }, match z { _ => , _ | 2 => [z != 1, append(z, z, [2])], }, conde { [false, false], [[x] == z, x != [x, z, y | 1]], member(x, [1, 2, 1]) }], y == [[], _ | 1]], }, closure { match y { y | [[1] | _] => { [[_ | x], [x, x, 1], [x, x] | x] != x, member(x, [3, 2]) }, x => { x == [[3], [2], ["bc", 2 | y]] }, } }])
}
pub fn case_557(vars: &Vars) -> InferredGoal<DU, DE, Goal<DU, DE>> {
    let x = vars.v[0].clone();
    let y = vars.v[1].clone();
    proto_vulcan!([match y { [["a", _ | h], [z, t, y], [2, 1 | _]] | x => , [[1 | fresh_name_9]] => [[conde { [1] == y }, match fresh_name_9 { _ => , _ | 2 => [fresh_name_9 != 1, append(fresh_name_9, fresh_name_9, [2])], }, conde { [false, false], [[x] == fresh_name_9, x != [x, fresh_name_9, y | 1]], member(x, [1, 2, 1]) }], y == [[], _ | 1]], }, closure { match y { y | [[1] | _] => { [[_ | x], [x, x, 1], [x, x] | x] != x, member(x, [3, 2]) }, x => { x == [[3], [2], ["bc", 2 | y]] }, } }])
}
pub fn case_558(vars: &Vars) -> InferredGoal<DU, DE, Goal<DU, DE>> {
    let x = vars.v[0].clone();
    let y = vars.v[1].clone();
    proto_vulcan!([conde { x == ['a', []], [|x, h| { [], matche x { _ => [x != [_, [_], 1 | y], [[h, [], 1], [[], _, _]] == [x | h]], [[x | z]] => { append(x, x, [1, 1]) }, _ => , }, matche y { h => |tz| { tz == [2], [2 | tz] != [2, 2] }, [[[], 1, false], [_, x | t], _] => [[x] == h, t == h], y | t => { member(x, []), 2 == [x, h, false] }, } }, x != y] }, |tz| { [3 | tz] != [3, 3], tz == [3] }, match [y] { [[3], [z, [], _ | _], [z, z | y]] => , }])
}
pub fn case_559(vars: &Vars) -> InferredGoal<DU, DE, Goal<DU, DE>> {
    let x = vars.v[0].clone();
    let y = vars.v[1].clone();
    proto_vulcan!([conde { x == ['a', []], [|fresh_name_9, h| { [], matche fresh_name_9 { _ => [fresh_name_9 != [_, [_], 1 | y], [[h, [], 1], [[], _, _]] == [fresh_name_9 | h]], [[x | z]] => { append(x, x, [1, 1]) }, _ => , }, matche y { h => |tz| { tz == [2], [2 | tz] != [2, 2] }, [[[], 1, false], [_, x | t], _] => [[x] == h, t == h], y | t => { member(fresh_name_9, []), 2 == [fresh_name_9, h, false] }, } }, x != y] }, |tz| { [3 | tz] != [3, 3], tz == [3] }, match [y] { [[3], [z, [], _ | _], [z, z | y]] => , }])
}
pub fn case_560(vars: &Vars) -> InferredGoal<DU, DE, Goal<DU, DE>> {
    let x = vars.v[0].clone();
    let y = vars.v[1].clone();
    proto_vulcan!([[x != y, true == y, [[2, 1, y], [x, x, _ | y]] == x], y == x, |y, h| { [h, h] == y }, closure { [[|h, x| { true == _ }, [3, 2, y] == y], |y| {  }] }])
}
pub fn case_561(vars: &Vars) -> InferredGoal<DU, DE, Goal<DU, DE>> {
    let x = vars.v[0].clone();
    let y = vars.v[1].clone();
    proto_vulcan!([[x != y, true == y, [[2, 1, y], [x, x, _ | y]] == x], y == x, |y, h| { [h, h] == y }, closure { [[|h, x| { true == _ }, [3, 2, y] == y], |fresh_name_9| {  }] }])
}
pub fn case_562(vars: &Vars) -> InferredGoal<DU, DE, Goal<DU, DE>> {
    let x = vars.v[0].clone();
    let y = vars.v[1].clone();
    proto_vulcan!([y == x, [_, x | y] == y, |tz| { [2, 2, 3] != [2, 2 | tz], tz == [3] }])
}
pub fn case_563(vars: &Vars) -> InferredGoal<DU, DE, Goal<DU, DE>> {
    let x = vars.v[0].clone();
    let y = vars.v[1].clone();
    proto_vulcan!([y == x, [_, x | y] == y, |fresh_name_9| { [2, 2, 3] != [2, 2 | fresh_name_9], fresh_name_9 == [3] }])
}
pub fn case_564(vars: &Vars) -> InferredGoal<DU, DE, Goal<DU, DE>> {
    let q = vars.v[0].clone();
    let x = vars.v[1].clone();
    proto_vulcan!([["bc"] == q, match q { [1 | _] | [3, [[], h]] => [matche x { _ | _ => { |y| { member(y, [1, 2]), [[_, 1], [], [y]] != y } }, [[1 | _], [], [3, 1]] | [[_, _], [y]] => { [member(x, [3]), append(q, x, [1]), member(x, [])] }, [[t, 1, _], [1, false], _ | t] => |tz| { [3, 1 | tz] != [3, 1, 2, 3], tz == [2, 3] }, }, x == [2, [], x]], [[2 | x], _] => { conde { false, q == 1 } }, }, conde { x == q, conde { [[x, true, 1] == x, conde { 2 == q, false, member(x, [3]) }], [true] == x } }, closure { [matche q { 2 => , [z, [t, h], [true, 3]] => { conde { x == 1, z == z }, false }, }, member(q, [2])] }])
}
pub fn case_565(vars: &Vars) -> InferredGoal<DU, DE, Goal<DU, DE>> {
    let q = vars.v[0].clone();
    let x = vars.v[1].clone();
    proto_vulcan!([["bc"] == q, match q { [1 | _] | [3, [[], h]] => [matche x { _ | _ => { |y| { member(y, [1, 2]), [[_, 1], [], [y]] != y } }, [[1 | _], [], [3, 1]] | [[_, _], [y]] => { [member(x, [3]), append(q, x, [1]), member(x, [])] }, [[t, 1, _], [1, false], _ | t] => |tz| { [3, 1 | tz] != [3, 1, 2, 3], tz == [2, 3] }, }, x == [2, [], x]], [[2 | x], _] => { conde { false, q == 1 } }, }, conde { x == q, conde { [[x, true, 1] == x, conde { 2 == q, false, member(x, [3]) }], [true] == x } }, closure { [matche q { 2 => , [fresh_name_9, [t, h], [true, 3]] => { conde { x == 1, fresh_name_9 == fresh_name_9 }, false }, }, member(q, [2])] }])
}
pub fn case_566(vars: &Vars) -> InferredGoal<DU, DE, Goal<DU, DE>> {
    let x = vars.v[0].clone();
    let y = vars.v[1].clone();
    proto_vulcan!([conde { [], x != y, [[x, y, y] == x, matche y { [1, ['b'] | x] => , }] }, |tz| { [2 | tz] != [2, 3], tz == [3] }, matche y { y => y != 1, 3 => [[[y, 1, y], 2] == [x, x], x == 2, match y { x | [[x, y, z], [t, 2 | _]] => , [1] | _ => { true }, }], }, closure { [matche 1 { [[1]] => { |x| { x == [y, [_ | 1], [[], 2 | "a"]], y == 2 }, [y == [1 | x]] }, }, |x, t| { [[y, [3, _, x] | y] == [[x, x, "bc" | x]], x == y, [x, 1, y | x] == y] }] }])
}
pub fn case_567(vars: &Vars) -> InferredGoal<DU, DE, Goal<DU, DE>> {
    let x = vars.v[0].clone();
    let y = vars.v[1].clone();
    proto_vulcan!([conde { [], x != y, [[x, y, y] == x, matche y { [1, ['b'] | x] => , }] }, |tz| { [2 | tz] != [2, 3], tz == [3] }, matche y { y => y != 1, 3 => [[[y, 1, y], 2] == [x, x], x == 2, match y { x | [[x, y, z], [t, 2 | _]] => , [1] | _ => { true }, }], }, closure { [matche 1 { [[1]] => { |x| { x == [y, [_ | 1], [[], 2 | "a"]], y == 2 }, [y == [1 | x]] }, }, |fresh_name_9, t| { [[y, [3, _, fresh_name_9] | y] == [[fresh_name_9, fresh_name_9, "bc" | fresh_name_9]], fresh_name_9 == y, [fresh_name_9, 1, y | fresh_name_9] == y] }] }])
}
pub fn case_568(vars: &Vars) -> InferredGoal<DU, DE, Goal<DU, DE>> {
    let q = vars.v[0].clone();
    let x = vars.v[1].clone();
    proto_vulcan!([[match x { _ => [q == 7, q == 8], 2 => [[x, q, 1]] == x, }, q == [q, 2, 1 | q], false == x], closure { [conde { [matche [_, x, "bc" | q] { [[[]], _, _ | _] => , [[_ | _]] | [[_, 2 | _], 2, [2, []] | h] => [append(x, q, [3, 2]), x == x], }, match q { [1 | y] => [[[q], [false, y, [] | q], 1] == y, [2 | 2] == q], [[2 | y], [_ | y] | 2] => { true != x, y == [3] }, }], [_ == q, matche x { [2 | z] | [[y, _, t], [h, 1 | 'b'], [y, x]] => , [_] | 3 => |tz| { tz == [2, 2], [2 | tz] != [2, 2, 2] }, z | [[z], t] => , }] }, conde { q != [[2, 2 | q], [x], [1 | q]], 2 == q }] }])
}
pub fn case_569(vars: &Vars) -> InferredGoal<DU, DE, Goal<DU, DE>> {
    let q = vars.v[0].clone();
    let x = vars.v[1].clone();
    proto_vulcan!([[match x { _ => [q == 7, q == 8], 2 => [[x, q, 1]] == x, }, q == [q, 2, 1 | q], false == x], closure { [conde { [matche [_, x, "bc" | q] { [[[]], _, _ | _] => , [[_ | _]] | [[_, 2 | _], 2, [2, []] | h] => [append(x, q, [3, 2]), x == x], }, match q { [1 | fresh_name_9] => [[[q], [false, fresh_name_9, [] | q], 1] == fresh_name_9, [2 | 2] == q], [[2 | y], [_ | y] | 2] => { true != x, y == [3] }, }], [_ == q, matche x { [2 | z] | [[y, _, t], [h, 1 | 'b'], [y, x]] => , [_] | 3 => |tz| { tz == [2, 2], [2 | tz] != [2, 2, 2] }, z | [[z], t] => , }] }, conde { q != [[2, 2 | q], [x], [1 | q]], 2 == q }] }])
}
pub fn case_570(vars: &Vars) -> InferredGoal<DU, DE, Goal<DU, DE>> {
    let q = vars.v[0].clone();
    let x = vars.v[1].clone();
    proto_vulcan!([match x { _ => member(q, [1, 2, 3]), }, closure { [|z, y| {  }, 2 == x] }])
}
pub fn case_571(vars: &Vars) -> InferredGoal<DU, DE, Goal<DU, DE>> {
    let q = vars.v[0].clone();
    let x = vars.v[1].clone();
    proto_vulcan!([match x { _ => member(q, [1, 2, 3]), }, closure { [|fresh_name_9, y| {  }, 2 == x] }])
}
pub fn case_572(vars: &Vars) -> InferredGoal<DU, DE, Goal<DU, DE>> {
    let x = vars.v[0].clone();
    let y = vars.v[1].clone();
    proto_vulcan!([conde { [y == y, match y { [1 | y] => |t| { true, x == [t | t] }, true => { conde { [x, y] == [_, 1, x], [false, _ == y], [2, y, x] == x }, [2, x] == y }, }], [1, [], 2] != _ }, closure { [|y| { matche y { [[z]] => { [y, y | y] == [[2, 2, "bc" | y], [1, z]] }, }, x != [[], 2, y] }, _ != x] }])
}
pub fn case_573(vars: &Vars) -> InferredGoal<DU, DE, Goal<DU, DE>> {
    let x = vars.v[0].clone();
    let y = vars.v[1].clone();
    proto_vulcan!([conde { [y == y, match y { [1 | y] => |t| { true, x == [t | t] }, true => { conde { [x, y] == [_, 1, x], [false, _ == y], [2, y, x] == x }, [2, x] == y }, }], [1, [], 2] != _ }, closure { [|fresh_name_9| { matche fresh_name_9 { [[z]] => { [fresh_name_9, fresh_name_9 | fresh_name_9] == [[2, 2, "bc" | fresh_name_9], [1, z]] }, }, x != [[], 2, fresh_name_9] }, _ != x] }])
}
pub fn case_574(vars: &Vars) -> InferredGoal<DU, DE, Goal<DU, DE>> {
    let x = vars.v[0].clone();
    proto_vulcan!([|t| { false, match x { [t, false] => t == [[t, x], t | t], [[x], x] => { |tz| { [1, 3, 1] != [1, 3 | tz], tz == [1] } }, }, [[3], [3, t, t]] == [x, 1] }, [match x { [h, y] | 2 => , [[h], 1, [_, 'b' | 1]] | [h, [y | z], [_ | _]] => , }, x != x, [1] == x]])
}
pub fn case_575(vars: &Vars) -> InferredGoal<DU, DE, Goal<DU, DE>> {
    let x = vars.v[0].clone();
    proto_vulcan!([|t| { false, match x { [fresh_name_9, false] => fresh_name_9 == [[fresh_name_9, x], fresh_name_9 | fresh_name_9], [[x], x] => { |tz| { [1, 3, 1] != [1, 3 | tz], tz == [1] } }, }, [[3], [3, t, t]] == [x, 1] }, [match x { [h, y] | 2 => , [[h], 1, [_, 'b' | 1]] | [h, [y | z], [_ | _]] => , }, x != x, [1] == x]])
}
pub fn case_576(vars: &Vars) -> InferredGoal<DU, DE, Goal<DU, DE>> {
    let q = vars.v[0].clone();
    let x = vars.v[1].clone();
    proto_vulcan!([|z| {  }, true, match q { [[t, _] | _] => |y| { y != [[] | t] }, [[2, h, h | z], [[], 'a', _], x] => , _ => |x| { q != x }, }])
}
pub fn case_577(vars: &Vars) -> InferredGoal<DU, DE, Goal<DU, DE>> {
    let q = vars.v[0].clone();
    let x = vars.v[1].clone();
    proto_vulcan!([|z| {  }, true, match q { [[t, _] | _] => |y| { y != [[] | t] }, [[2, fresh_name_9, fresh_name_9 | z], [[], 'a', _], x] => , _ => |x| { q != x }, }])
}
pub fn case_578(vars: &Vars) -> InferredGoal<DU, DE, Goal<DU, DE>> {
    let x = vars.v[0].clone();
    let y = vars.v[1].clone();
    proto_vulcan!([matche [2 | x] { [[3 | z]] => , _ => member(x, [1, 2, 3]), _ | _ => [y == 7, y == 8], }, match x { [[_, _]] => { matche x { _ => conde { 2 == x }, x => , } }, }, false])
}
pub fn case_579(vars: &Vars) -> InferredGoal<DU, DE, Goal<DU, DE>> {
    let x = vars.v[0].clone();
    let y = vars.v[1].clone();
    proto_vulcan!([matche [2 | x] { [[3 | z]] => , _ => member(x, [1, 2, 3]), _ | _ => [y == 7, y == 8], }, match x { [[_, _]] => { matche x { _ => conde { 2 == x }, fresh_name_9 => , } }, }, false])
}
pub fn case_580(vars: &Vars) -> InferredGoal<DU, DE, Goal<DU, DE>> {
    let x = vars.v[0].clone();
    proto_vulcan!([false, conde { [match [[], 3 | x] { [[_, h | _], t | y] => [append(x, x, []), t == [h | y]], 1 => { [x, [], 2] == x }, }, matche x { [2, [2 | z], h] => , 2 => { x == _, x == x }, [[t, t, 2]] => , }, match [x, x] { [[2, 1], [t, "bc", 2]] => { t == [1, "bc", 2] }, z => { z != 2 }, }] }])
}
pub fn case_581(vars: &Vars) -> InferredGoal<DU, DE, Goal<DU, DE>> {
    let x = vars.v[0].clone();
    proto_vulcan!([false, conde { [match [[], 3 | x] { [[_, h | _], fresh_name_9 | y] => [append(x, x, []), fresh_name_9 == [h | y]], 1 => { [x, [], 2] == x }, }, matche x { [2, [2 | z], h] => , 2 => { x == _, x == x }, [[t, t, 2]] => , }, match [x, x] { [[2, 1], [t, "bc", 2]] => { t == [1, "bc", 2] }, z => { z != 2 }, }] }])
}
pub fn case_582(vars: &Vars) -> InferredGoal<DU, DE, Goal<DU, DE>> {
    let q = vars.v[0].clone();
    let x = vars.v[1].clone();
    proto_vulcan!([|h| { x == [q, h, q], |tz| { [1 | tz] != [1, 1], tz == [1] } }, [3 | q] == q, closure { [conde { [|z| { x == [['b']] }, append(q, x, [])], [matche x { 2 => [member(x, [1, 3, 2]), 2 != q], 1 | t => [false, |tz| { [3, 1, 1] != [3 | tz], tz == [1, 1] }], _ => [q == 7, q == 8], }, |y| { x != 2 }] }, matche x { h => , 2 => { |tz| { [1, 3] != [1 | tz], tz == [3] } }, [_, [h, 'a']] => member(x, [2, 1]), }] }])
}
pub fn case_583(vars: &Vars) -> InferredGoal<DU, DE, Goal<DU, DE>> {
    let q = vars.v[0].clone();
    let x = vars.v[1].clone();
    proto_vulcan!([|fresh_name_9| { x == [q, fresh_name_9, q], |tz| { [1 | tz] != [1, 1], tz == [1] } }, [3 | q] == q, closure { [conde { [|z| { x == [['b']] }, append(q, x, [])], [matche x { 2 => [member(x, [1, 3, 2]), 2 != q], 1 | t => [false, |tz| { [3, 1, 1] != [3 | tz], tz == [1, 1] }], _ => [q == 7, q == 8], }, |y| { x != 2 }] }, matche x { h => , 2 => { |tz| { [1, 3] != [1 | tz], tz == [3] } }, [_, [h, 'a']] => member(x, [2, 1]), }] }])
}
pub fn case_584(vars: &Vars) -> InferredGoal<DU, DE, Goal<DU, DE>> {
    let x = vars.v[0].clone();
    proto_vulcan!([match x { [] => , y => , _ => [x == 7, x == 8], }, match x { [y, [], [h, 2, _]] => { |x, h| { "bc" == x, matche x { z | _ => , [[1, x, h], _, [2, h, z | h]] => , _ => x == [[]], } }, [|z| {  }, conde { [], 1 != y, false }] }, [[x, t, 3]] => , 2 | false => x == x, }, closure { [|z| { z != [2, _, []] }, match x { [['a' | y]] => { |tz| { [3 | tz] != [3, 2, 1], tz == [2, 1] } }, t => , }] }])
}
pub fn case_585(vars: &Vars) -> InferredGoal<DU, DE, Goal<DU, DE>> {
    let x = vars.v[0].clone();
    proto_vulcan!([match x { [] => , fresh_name_9 => , _ => [x == 7, x == 8], }, match x { [y, [], [h, 2, _]] => { |x, h| { "bc" == x, matche x { z | _ => , [[1, x, h], _, [2, h, z | h]] => , _ => x == [[]], } }, [|z| {  }, conde { [], 1 != y, false }] }, [[x, t, 3]] => , 2 | false => x == x, }, closure { [|z| { z != [2, _, []] }, match x { [['a' | y]] => { |tz| { [3 | tz] != [3, 2, 1], tz == [2, 1] } }, t => , }] }])
}
pub fn case_586(vars: &Vars) -> InferredGoal<DU, DE, Goal<DU, DE>> {
    let x = vars.v[0].clone();
    proto_vulcan!([x != [x, x, 'a'], |h, x| {  }])
}
pub fn case_587(vars: &Vars) -> InferredGoal<DU, DE, Goal<DU, DE>> {
    let x = vars.v[0].clone();
    proto_vulcan!([x != [x, x, 'a'], |h, fresh_name_9| {  }])
}
pub fn case_588(vars: &Vars) -> InferredGoal<DU, DE, Goal<DU, DE>> {
    let x = vars.v[0].clone();
    proto_vulcan!(['a' != x, |y| { [conde { [x, [y]] == x, [y == [true, x, x], [[y, 2 | y], 'a', [y, x, [] | 'a'] | x] == []] }, x == [y]], y == [1, _] }])
}
pub fn case_589(vars: &Vars) -> InferredGoal<DU, DE, Goal<DU, DE>> {
    let x = vars.v[0].clone();
    proto_vulcan!(['a' != x, |fresh_name_9| { [conde { [x, [fresh_name_9]] == x, [fresh_name_9 == [true, x, x], [[fresh_name_9, 2 | fresh_name_9], 'a', [fresh_name_9, x, [] | 'a'] | x] == []] }, x == [fresh_name_9]], fresh_name_9 == [1, _] }])
}
pub fn case_590(vars: &Vars) -> InferredGoal<DU, DE, Goal<DU, DE>> {
    let q = vars.v[0].clone();
    let x = vars.v[1].clone();
    proto_vulcan!([|x, y| { |h, x| { |tz| { tz == [1], [3 | tz] != [3, 1] }, match 1 { 'b' => , t => { [x, x, t | h] != x }, }, |y| { 2 == y, append(x, x, []), member(h, [3]) } }, 1 == x, 1 != [[y | q], [q, 2, 1], [1, _]] }, x == [[] | q]])
}
pub fn case_591(vars: &Vars) -> InferredGoal<DU, DE, Goal<DU, DE>> {
    let q = vars.v[0].clone();
    let x = vars.v[1].clone();
    proto_vulcan!([|x, y| { |h, x| { |tz| { tz == [1], [3 | tz] != [3, 1] }, match 1 { 'b' => , fresh_name_9 => { [x, x, fresh_name_9 | h] != x }, }, |y| { 2 == y, append(x, x, []), member(h, [3]) } }, 1 == x, 1 != [[y | q], [q, 2, 1], [1, _]] }, x == [[] | q]])
}
pub fn case_592(vars: &Vars) -> InferredGoal<DU, DE, Goal<DU, DE>> {
    let x = vars.v[0].clone();
    proto_vulcan!([matche x { [[3, z, [] | x], t, [2, 'b']] => { match z { 2 | z => x == [x, [2, 1, []], _], }, [t, _, 1] == x }, _ | [[h], t] => { ['b', x] == x, x == _ }, 3 => { conde { conde { |tz| { tz == [3], [1 | tz] != [1, 3] } }, |y| { member(y, [3]) } }, 1 != x }, }, closure { [member(x, [3, 2, 1]), [1, x, []] == x] }])
}
pub fn case_593(vars: &Vars) -> InferredGoal<DU, DE, Goal<DU, DE>> {
    let x = vars.v[0].clone();
    proto_vulcan!([matche x { [[3, z, [] | x], fresh_name_9, [2, 'b']] => { match z { 2 | z => x == [x, [2, 1, []], _], }, [fresh_name_9, _, 1] == x }, _ | [[h], t] => { ['b', x] == x, x == _ }, 3 => { conde { conde { |tz| { tz == [3], [1 | tz] != [1, 3] } }, |y| { member(y, [3]) } }, 1 != x }, }, closure { [member(x, [3, 2, 1]), [1, x, []] == x] }])
}
pub fn case_594(vars: &Vars) -> InferredGoal<DU, DE, Goal<DU, DE>> {
    let x = vars.v[0].clone();
    proto_vulcan!([x != [1, x, x], x == [x, x, x], |tz| { [3, 1, 3] != [3 | tz], tz == [1, 3] }])
}
pub fn case_595(vars: &Vars) -> InferredGoal<DU, DE, Goal<DU, DE>> {
    let x = vars.v[0].clone();
    proto_vulcan!([x != [1, x, x], x == [x, x, x], |fresh_name_9| { [3, 1, 3] != [3 | fresh_name_9], fresh_name_9 == [1, 3] }])
}
pub fn case_596(vars: &Vars) -> InferredGoal<DU, DE, Goal<DU, DE>> {
    let x = vars.v[0].clone();
    proto_vulcan!([|h, y| { [_, x] == y }, [[[], x, x] | x] == [_, 2, x]])
}
pub fn case_597(vars: &Vars) -> InferredGoal<DU, DE, Goal<DU, DE>> {
    let x = vars.v[0].clone();
    proto_vulcan!([|h, fresh_name_9| { [_, x] == fresh_name_9 }, [[[], x, x] | x] == [_, 2, x]])
}
pub fn case_598(vars: &Vars) -> InferredGoal<DU, DE, Goal<DU, DE>> {
    let x = vars.v[0].clone();
    let y = vars.v[1].clone();
    proto_vulcan!([|h| { [[2, 1, _ | h], x, 2] != x, |tz| { [3, 1 | tz] != [3, 1, 3], tz == [3] } }, true, match [[], [] | x] { [[z, h], h, 1] => { match y { 1 => { [[y, h | x] == x, z == y, x == [h, 'b' | x]] }, _ | [t] => , _ => [h == 7, h == 8], } }, 2 => { conde { 'b' != y }, match x { [2] => , } }, [[h, [], []], [x, 1, "a" | h]] => { _ == x, append(x, x, [1]) }, }])
}
pub fn case_599(vars: &Vars) -> InferredGoal<DU, DE, Goal<DU, DE>> {
    let x = vars.v[0].clone();
    let y = vars.v[1].clone();
    proto_vulcan!([|h| { [[2, 1, _ | h], x, 2] != x, |tz| { [3, 1 | tz] != [3, 1, 3], tz == [3] } }, true, match [[], [] | x] { [[z, h], h, 1] => { match y { 1 => { [[y, h | x] == x, z == y, x == [h, 'b' | x]] }, _ | [t] => , _ => [h == 7, h == 8], } }, 2 => { conde { 'b' != y }, match x { [2] => , } }, [[fresh_name_9, [], []], [x, 1, "a" | fresh_name_9]] => { _ == x, append(x, x, [1]) }, }])
}
pub fn case_600(vars: &Vars) -> InferredGoal<DU, DE, Goal<DU, DE>> {
    let q = vars.v[0].clone();
    let x = vars.v[1].clone();
    proto_vulcan!([|t, z| { t == [] }, [3 | 2] != x])
}
pub fn case_601(vars: &Vars) -> InferredGoal<DU, DE, Goal<DU, DE>> {
    let q = vars.v[0].clone();
    let x = vars.v[1].clone();
    proto_vulcan!([|t, fresh_name_9| { t == [] }, [3 | 2] != x])
}
pub fn case_602(vars: &Vars) -> InferredGoal<DU, DE, Goal<DU, DE>> {
    let q = vars.v[0].clone();
    let x = vars.v[1].clone();
    proto_vulcan!([true, closure { [[matche q { [[2], 1] | [[], [[], 3, h], [_, y, [] | t]] => [true, [q, [[], _, x]] == x], [["a", 1, 1], [], 'b'] | _ => { q == x }, }, matche 1 { [3 | _] => [[x, x | q] == x, true], }], match [_] { h => { member(x, [2]), h != x }, [[h, 'a'], [h, z | y] | 1] | [[y, t]] => { [x, y] == q, [[1, 3]] == x }, }] }])
}
pub fn case_603(vars: &Vars) -> InferredGoal<DU, DE, Goal<DU, DE>> {
    let q = vars.v[0].clone();
    let x = vars.v[1].clone();
    proto_vulcan!([true, closure { [[matche q { [[2], 1] | [[], [[], 3, h], [_, y, [] | t]] => [true, [q, [[], _, x]] == x], [["a", 1, 1], [], 'b'] | _ => { q == x }, }, matche 1 { [3 | _] => [[x, x | q] == x, true], }], match [_] { fresh_name_9 => { member(x, [2]), fresh_name_9 != x }, [[h, 'a'], [h, z | y] | 1] | [[y, t]] => { [x, y] == q, [[1, 3]] == x }, }] }])
}
pub fn case_604(vars: &Vars) -> InferredGoal<DU, DE, Goal<DU, DE>> {
    let q = vars.v[0].clone();
    let x = vars.v[1].clone();
    proto_vulcan!([[[match q { _ => [|tz| { [1, 3 | tz] != [1, 3, 2, 3], tz == [2, 3] }, [true | q] == [_]], }], q == q]])
}
pub fn case_605(vars: &Vars) -> InferredGoal<DU, DE, Goal<DU, DE>> {
    let q = vars.v[0].clone();
    let x = vars.v[1].clone();
    proto_vulcan!([[[match q { _ => [|fresh_name_9| { [1, 3 | fresh_name_9] != [1, 3, 2, 3], fresh_name_9 == [2, 3] }, [true | q] == [_]], }], q == q]])
}
pub fn case_606(vars: &Vars) -> InferredGoal<DU, DE, Goal<DU, DE>> {
    let x = vars.v[0].clone();
    proto_vulcan!([|t| { |t| { |x| {  } }, [_, 3] == t, |h, x| { ['b', [_, _, t]] == 2 } }, |y| {  }, closure { [x, 1 | x] == x }])
}
pub fn case_607(vars: &Vars) -> InferredGoal<DU, DE, Goal<DU, DE>> {
    let x = vars.v[0].clone();
    proto_vulcan!([|t| { |fresh_name_9| { |x| {  } }, [_, 3] == t, |h, x| { ['b', [_, _, t]] == 2 } }, |y| {  }, closure { [x, 1 | x] == x }])
}
pub fn case_608(vars: &Vars) -> InferredGoal<DU, DE, Goal<DU, DE>> {
    let x = vars.v[0].clone();
    let y = vars.v[1].clone();
    proto_vulcan!([|x| { conde { [[|tz| { tz == [1], [2, 1, 1] != [2, 1 | tz] }, 1 != x, |tz| { [3 | tz] != [3, 3, 2], tz == [3, 2] }], matche y { 1 => [[2, 1, x | 2] == y, |tz| { [1 | tz] != [1, 1, 2], tz == [1, 2] }], _ | t => { [x] == y, [[x], [[] | false], [x, 2, 2] | y] == y }, 2 => , }], [match y { _ | _ => { y == 7, y == 8 }, [[[], t, h], x, [] | _] => { _ == y }, [y, 2, [3, 3] | y] => [|tz| { tz == [3, 2], [2, 1, 3, 2] != [2, 1 | tz] }, x == [[], 3, []]], }, matche x { [[_]] | _ => , }], [[x, 1, []] == y, x == [2, []]] } }, |y| { conde { [], y == 3, [conde { y != x, [2 == [x, _ | x], y == [y]] }, |y, x| { y == [_, [2, 'b' | y] | x] }] }, true, |z| { |tz| { [2, 3, 2] != [2 | tz], tz == [3, 2] }, z == [2, x | y] } }, |tz| { [1, 2 | tz] != [1, 2, 3], tz == [3] }])
}
pub fn case_609(vars: &Vars) -> InferredGoal<DU, DE, Goal<DU, DE>> {
    let x = vars.v[0].clone();
    let y = vars.v[1].clone();
    proto_vulcan!([|x| { conde { [[|tz| { tz == [1], [2, 1, 1] != [2, 1 | tz] }, 1 != x, |tz| { [3 | tz] != [3, 3, 2], tz == [3, 2] }], matche y { 1 => [[2, 1, x | 2] == y, |tz| { [1 | tz] != [1, 1, 2], tz == [1, 2] }], _ | t => { [x] == y, [[x], [[] | false], [x, 2, 2] | y] == y }, 2 => , }], [match y { _ | _ => { y == 7, y == 8 }, [[[], t, h], x, [] | _] => { _ == y }, [y, 2, [3, 3] | y] => [|tz| { tz == [3, 2], [2, 1, 3, 2] != [2, 1 | tz] }, x == [[], 3, []]], }, matche x { [[_]] | _ => , }], [[x, 1, []] == y, x == [2, []]] } }, |y| { conde { [], y == 3, [conde { y != x, [2 == [x, _ | x], y == [y]] }, |y, x| { y == [_, [2, 'b' | y] | x] }] }, true, |fresh_name_9| { |tz| { [2, 3, 2] != [2 | tz], tz == [3, 2] }, fresh_name_9 == [2, x | y] } }, |tz| { [1, 2 | tz] != [1, 2, 3], tz == [3] }])
}
pub fn case_610(vars: &Vars) -> InferredGoal<DU, DE, Goal<DU, DE>> {
    let x = vars.v[0].clone();
    let y = vars.v[1].clone();
    proto_vulcan!([|y| { [], append(y, x, [1, 1]) }, |y, t| { |y| { y != [], conde { [y != _, 1 != x] }, match t { [1, y, h | _] => { true }, } } }])
}
pub fn case_611(vars: &Vars) -> InferredGoal<DU, DE, Goal<DU, DE>> {
    let x = vars.v[0].clone();
    let y = vars.v[1].clone();
    proto_vulcan!([|y| { [], append(y, x, [1, 1]) }, |y, t| { |fresh_name_9| { fresh_name_9 != [], conde { [fresh_name_9 != _, 1 != x] }, match t { [1, y, h | _] => { true }, } } }])
}
pub fn case_612(vars: &Vars) -> InferredGoal<DU, DE, Goal<DU, DE>> {
    let x = vars.v[0].clone();
    proto_vulcan!([[] == x, |y| { y == _ }, closure { [x == x, [1, [], []] == x] }])
}
pub fn case_613(vars: &Vars) -> InferredGoal<DU, DE, Goal<DU, DE>> {
    let x = vars.v[0].clone();
    proto_vulcan!([[] == x, |fresh_name_9| { fresh_name_9 == _ }, closure { [x == x, [1, [], []] == x] }])
}
pub fn case_614(vars: &Vars) -> InferredGoal<DU, DE, Goal<DU, DE>> {
    let x = vars.v[0].clone();
    let y = vars.v[1].clone();
    proto_vulcan!([conde { conde { [x == y, x != _], y != [y, 3], [y == [3, 3, []], 2 == x] }, [], [[2, y] != [[y], x], |y| { y != y, y == y }] }, closure { x != 3 }])
}
pub fn case_615(vars: &Vars) -> InferredGoal<DU, DE, Goal<DU, DE>> {
    let x = vars.v[0].clone();
    let y = vars.v[1].clone();
    proto_vulcan!([conde { conde { [x == y, x != _], y != [y, 3], [y == [3, 3, []], 2 == x] }, [], [[2, y] != [[y], x], |fresh_name_9| { fresh_name_9 != fresh_name_9, fresh_name_9 == fresh_name_9 }] }, closure { x != 3 }])
}
pub const NCASES: usize = 616;
pub fn case(i: usize, vars: &Vars) -> Goal<DU, DE> {
    match i {
        0 => case_0(vars).goal,
        1 => case_1(vars).goal,
        2 => case_2(vars).goal,
        3 => case_3(vars).goal,
        4 => case_4(vars).goal,
        5 => case_5(vars).goal,
        6 => case_6(vars).goal,
        7 => case_7(vars).goal,
        8 => case_8(vars).goal,
        9 => case_9(vars).goal,
        10 => case_10(vars).goal,
        11 => case_11(vars).goal,
        12 => case_12(vars).goal,
        13 => case_13(vars).goal,
        14 => case_14(vars).goal,
        15 => case_15(vars).goal,
        16 => case_16(vars).goal,
        17 => case_17(vars).goal,
        18 => case_18(vars).goal,
        19 => case_19(vars).goal,
        20 => case_20(vars).goal,
        21 => case_21(vars).goal,
        22 => case_22(vars).goal,
        23 => case_23(vars).goal,
        24 => case_24(vars).goal,
        25 => case_25(vars).goal,
        26 => case_26(vars).goal,
        27 => case_27(vars).goal,
        28 => case_28(vars).goal,
        29 => case_29(vars).goal,
        30 => case_30(vars).goal,
        31 => case_31(vars).goal,
        32 => case_32(vars).goal,
        33 => case_33(vars).goal,
        34 => case_34(vars).goal,
        35 => case_35(vars).goal,
        36 => case_36(vars).goal,
        37 => case_37(vars).goal,
        38 => case_38(vars).goal,
        39 => case_39(vars).goal,
        40 => case_40(vars).goal,
        41 => case_41(vars).goal,
        42 => case_42(vars).goal,
        43 => case_43(vars).goal,
        44 => case_44(vars).goal,
        45 => case_45(vars).goal,
        46 => case_46(vars).goal,
        47 => case_47(vars).goal,
        48 => case_48(vars).goal,
        49 => case_49(vars).goal,
        50 => case_50(vars).goal,
        51 => case_51(vars).goal,
        52 => case_52(vars).goal,
        53 => case_53(vars).goal,
        54 => case_54(vars).goal,
        55 => case_55(vars).goal,
        56 => case_56(vars).goal,
        57 => case_57(vars).goal,
        58 => case_58(vars).goal,
        59 => case_59(vars).goal,
        60 => case_60(vars).goal,
        61 => case_61(vars).goal,
        62 => case_62(vars).goal,
        63 => case_63(vars).goal,
        64 => case_64(vars).goal,
        65 => case_65(vars).goal,
        66 => case_66(vars).goal,
        67 => case_67(vars).goal,
        68 => case_68(vars).goal,
        69 => case_69(vars).goal,
        70 => case_70(vars).goal,
        71 => case_71(vars).goal,
        72 => case_72(vars).goal,
        73 => case_73(vars).goal,
        74 => case_74(vars).goal,
        75 => case_75(vars).goal,
        76 => case_76(vars).goal,
        77 => case_77(vars).goal,
        78 => case_78(vars).goal,
        79 => case_79(vars).goal,
        80 => case_80(vars).goal,
        81 => case_81(vars).goal,
        82 => case_82(vars).goal,
        83 => case_83(vars).goal,
        84 => case_84(vars).goal,
        85 => case_85(vars).goal,
        86 => case_86(vars).goal,
        87 => case_87(vars).goal,
        88 => case_88(vars).goal,
        89 => case_89(vars).goal,
        90 => case_90(vars).goal,
        91 => case_91(vars).goal,
        92 => case_92(vars).goal,
        93 => case_93(vars).goal,
        94 => case_94(vars).goal,
        95 => case_95(vars).goal,
        96 => case_96(vars).goal,
        97 => case_97(vars).goal,
        98 => case_98(vars).goal,
        99 => case_99(vars).goal,
        100 => case_100(vars).goal,
        101 => case_101(vars).goal,
        102 => case_102(vars).goal,
        103 => case_103(vars).goal,
        104 => case_104(vars).goal,
        105 => case_105(vars).goal,
        106 => case_106(vars).goal,
        107 => case_107(vars).goal,
        108 => case_108(vars).goal,
        109 => case_109(vars).goal,
        110 => case_110(vars).goal,
        111 => case_111(vars).goal,
        112 => case_112(vars).goal,
        113 => case_113(vars).goal,
        114 => case_114(vars).goal,
        115 => case_115(vars).goal,
        116 => case_116(vars).goal,
        117 => case_117(vars).goal,
        118 => case_118(vars).goal,
        119 => case_119(vars).goal,
        120 => case_120(vars).goal,
        121 => case_121(vars).goal,
        122 => case_122(vars).goal,
        123 => case_123(vars).goal,
        124 => case_124(vars).goal,
        125 => case_125(vars).goal,
        126 => case_126(vars).goal,
        127 => case_127(vars).goal,
        128 => case_128(vars).goal,
        129 => case_129(vars).goal,
        130 => case_130(vars).goal,
        131 => case_131(vars).goal,
        132 => case_132(vars).goal,
        133 => case_133(vars).goal,
        134 => case_134(vars).goal,
        135 => case_135(vars).goal,
        136 => case_136(vars).goal,
        137 => case_137(vars).goal,
        138 => case_138(vars).goal,
        139 => case_139(vars).goal,
        140 => case_140(vars).goal,
        141 => case_141(vars).goal,
        142 => case_142(vars).goal,
        143 => case_143(vars).goal,
        144 => case_144(vars).goal,
        145 => case_145(vars).goal,
        146 => case_146(vars).goal,
        147 => case_147(vars).goal,
        148 => case_148(vars).goal,
        149 => case_149(vars).goal,
        150 => case_150(vars).goal,
        151 => case_151(vars).goal,
        152 => case_152(vars).goal,
        153 => case_153(vars).goal,
        154 => case_154(vars).goal,
        155 => case_155(vars).goal,
        156 => case_156(vars).goal,
        157 => case_157(vars).goal,
        158 => case_158(vars).goal,
        159 => case_159(vars).goal,
        160 => case_160(vars).goal,
        161 => case_161(vars).goal,
        162 => case_162(vars).goal,
        163 => case_163(vars).goal,
        164 => case_164(vars).goal,
        165 => case_165(vars).goal,
        166 => case_166(vars).goal,
        167 => case_167(vars).goal,
        168 => case_168(vars).goal,
        169 => case_169(vars).goal,
        170 => case_170(vars).goal,
        171 => case_171(vars).goal,
        172 => case_172(vars).goal,
        173 => case_173(vars).goal,
        174 => case_174(vars).goal,
        175 => case_175(vars).goal,
        176 => case_176(vars).goal,
        177 => case_177(vars).goal,
        178 => case_178(vars).goal,
        179 => case_179(vars).goal,
        180 => case_180(vars).goal,
        181 => case_181(vars).goal,
        182 => case_182(vars).goal,
        183 => case_183(vars).goal,
        184 => case_184(vars).goal,
        185 => case_185(vars).goal,
        186 => case_186(vars).goal,
        187 => case_187(vars).goal,
        188 => case_188(vars).goal,
        189 => case_189(vars).goal,
        190 => case_190(vars).goal,
        191 => case_191(vars).goal,
        192 => case_192(vars).goal,
        193 => case_193(vars).goal,
        194 => case_194(vars).goal,
        195 => case_195(vars).goal,
        196 => case_196(vars).goal,
        197 => case_197(vars).goal,
        198 => case_198(vars).goal,
        199 => case_199(vars).goal,
        200 => case_200(vars).goal,
        201 => case_201(vars).goal,
        202 => case_202(vars).goal,
        203 => case_203(vars).goal,
        204 => case_204(vars).goal,
        205 => case_205(vars).goal,
        206 => case_206(vars).goal,
        207 => case_207(vars).goal,
        208 => case_208(vars).goal,
        209 => case_209(vars).goal,
        210 => case_210(vars).goal,
        211 => case_211(vars).goal,
        212 => case_212(vars).goal,
        213 => case_213(vars).goal,
        214 => case_214(vars).goal,
        215 => case_215(vars).goal,
        216 => case_216(vars).goal,
        217 => case_217(vars).goal,
        218 => case_218(vars).goal,
        219 => case_219(vars).goal,
        220 => case_220(vars).goal,
        221 => case_221(vars).goal,
        222 => case_222(vars).goal,
        223 => case_223(vars).goal,
        224 => case_224(vars).goal,
        225 => case_225(vars).goal,
        226 => case_226(vars).goal,
        227 => case_227(vars).goal,
        228 => case_228(vars).goal,
        229 => case_229(vars).goal,
        230 => case_230(vars).goal,
        231 => case_231(vars).goal,
        232 => case_232(vars).goal,
        233 => case_233(vars).goal,
        234 => case_234(vars).goal,
        235 => case_235(vars).goal,
        236 => case_236(vars).goal,
        237 => case_237(vars).goal,
        238 => case_238(vars).goal,
        239 => case_239(vars).goal,
        240 => case_240(vars).goal,
        241 => case_241(vars).goal,
        242 => case_242(vars).goal,
        243 => case_243(vars).goal,
        244 => case_244(vars).goal,
        245 => case_245(vars).goal,
        246 => case_246(vars).goal,
        247 => case_247(vars).goal,
        248 => case_248(vars).goal,
        249 => case_249(vars).goal,
        250 => case_250(vars).goal,
        251 => case_251(vars).goal,
        252 => case_252(vars).goal,
        253 => case_253(vars).goal,
        254 => case_254(vars).goal,
        255 => case_255(vars).goal,
        256 => case_256(vars).goal,
        257 => case_257(vars).goal,
        258 => case_258(vars).goal,
        259 => case_259(vars).goal,
        260 => case_260(vars).goal,
        261 => case_261(vars).goal,
        262 => case_262(vars).goal,
        263 => case_263(vars).goal,
        264 => case_264(vars).goal,
        265 => case_265(vars).goal,
        266 => case_266(vars).goal,
        267 => case_267(vars).goal,
        268 => case_268(vars).goal,
        269 => case_269(vars).goal,
        270 => case_270(vars).goal,
        271 => case_271(vars).goal,
        272 => case_272(vars).goal,
        273 => case_273(vars).goal,
        274 => case_274(vars).goal,
        275 => case_275(vars).goal,
        276 => case_276(vars).goal,
        277 => case_277(vars).goal,
        278 => case_278(vars).goal,
        279 => case_279(vars).goal,
        280 => case_280(vars).goal,
        281 => case_281(vars).goal,
        282 => case_282(vars).goal,
        283 => case_283(vars).goal,
        284 => case_284(vars).goal,
        285 => case_285(vars).goal,
        286 => case_286(vars).goal,
        287 => case_287(vars).goal,
        288 => case_288(vars).goal,
        289 => case_289(vars).goal,
        290 => case_290(vars).goal,
        291 => case_291(vars).goal,
        292 => case_292(vars).goal,
        293 => case_293(vars).goal,
        294 => case_294(vars).goal,
        295 => case_295(vars).goal,
        296 => case_296(vars).goal,
        297 => case_297(vars).goal,
        298 => case_298(vars).goal,
        299 => case_299(vars).goal,
        300 => case_300(vars).goal,
        301 => case_301(vars).goal,
        302 => case_302(vars).goal,
        303 => case_303(vars).goal,
        304 => case_304(vars).goal,
        305 => case_305(vars).goal,
        306 => case_306(vars).goal,
        307 => case_307(vars).goal,
        308 => case_308(vars).goal,
        309 => case_309(vars).goal,
        310 => case_310(vars).goal,
        311 => case_311(vars).goal,
        312 => case_312(vars).goal,
        313 => case_313(vars).goal,
        314 => case_314(vars).goal,
        315 => case_315(vars).goal,
        316 => case_316(vars).goal,
        317 => case_317(vars).goal,
        318 => case_318(vars).goal,
        319 => case_319(vars).goal,
        320 => case_320(vars).goal,
        321 => case_321(vars).goal,
        322 => case_322(vars).goal,
        323 => case_323(vars).goal,
        324 => case_324(vars).goal,
        325 => case_325(vars).goal,
        326 => case_326(vars).goal,
        327 => case_327(vars).goal,
        328 => case_328(vars).goal,
        329 => case_329(vars).goal,
        330 => case_330(vars).goal,
        331 => case_331(vars).goal,
        332 => case_332(vars).goal,
        333 => case_333(vars).goal,
        334 => case_334(vars).goal,
        335 => case_335(vars).goal,
        336 => case_336(vars).goal,
        337 => case_337(vars).goal,
        338 => case_338(vars).goal,
        339 => case_339(vars).goal,
        340 => case_340(vars).goal,
        341 => case_341(vars).goal,
        342 => case_342(vars).goal,
        343 => case_343(vars).goal,
        344 => case_344(vars).goal,
        345 => case_345(vars).goal,
        346 => case_346(vars).goal,
        347 => case_347(vars).goal,
        348 => case_348(vars).goal,
        349 => case_349(vars).goal,
        350 => case_350(vars).goal,
        351 => case_351(vars).goal,
        352 => case_352(vars).goal,
        353 => case_353(vars).goal,
        354 => case_354(vars).goal,
        355 => case_355(vars).goal,
        356 => case_356(vars).goal,
        357 => case_357(vars).goal,
        358 => case_358(vars).goal,
        359 => case_359(vars).goal,
        360 => case_360(vars).goal,
        361 => case_361(vars).goal,
        362 => case_362(vars).goal,
        363 => case_363(vars).goal,
        364 => case_364(vars).goal,
        365 => case_365(vars).goal,
        366 => case_366(vars).goal,
        367 => case_367(vars).goal,
        368 => case_368(vars).goal,
        369 => case_369(vars).goal,
        370 => case_370(vars).goal,
        371 => case_371(vars).goal,
        372 => case_372(vars).goal,
        373 => case_373(vars).goal,
        374 => case_374(vars).goal,
        375 => case_375(vars).goal,
        376 => case_376(vars).goal,
        377 => case_377(vars).goal,
        378 => case_378(vars).goal,
        379 => case_379(vars).goal,
        380 => case_380(vars).goal,
        381 => case_381(vars).goal,
        382 => case_382(vars).goal,
        383 => case_383(vars).goal,
        384 => case_384(vars).goal,
        385 => case_385(vars).goal,
        386 => case_386(vars).goal,
        387 => case_387(vars).goal,
        388 => case_388(vars).goal,
        389 => case_389(vars).goal,
        390 => case_390(vars).goal,
        391 => case_391(vars).goal,
        392 => case_392(vars).goal,
        393 => case_393(vars).goal,
        394 => case_394(vars).goal,
        395 => case_395(vars).goal,
        396 => case_396(vars).goal,
        397 => case_397(vars).goal,
        398 => case_398(vars).goal,
        399 => case_399(vars).goal,
        400 => case_400(vars).goal,
        401 => case_401(vars).goal,
        402 => case_402(vars).goal,
        403 => case_403(vars).goal,
        404 => case_404(vars).goal,
        405 => case_405(vars).goal,
        406 => case_406(vars).goal,
        407 => case_407(vars).goal,
        408 => case_408(vars).goal,
        409 => case_409(vars).goal,
        410 => case_410(vars).goal,
        411 => case_411(vars).goal,
        412 => case_412(vars).goal,
        413 => case_413(vars).goal,
        414 => case_414(vars).goal,
        415 => case_415(vars).goal,
        416 => case_416(vars).goal,
        417 => case_417(vars).goal,
        418 => case_418(vars).goal,
        419 => case_419(vars).goal,
        420 => case_420(vars).goal,
        421 => case_421(vars).goal,
        422 => case_422(vars).goal,
        423 => case_423(vars).goal,
        424 => case_424(vars).goal,
        425 => case_425(vars).goal,
        426 => case_426(vars).goal,
        427 => case_427(vars).goal,
        428 => case_428(vars).goal,
        429 => case_429(vars).goal,
        430 => case_430(vars).goal,
        431 => case_431(vars).goal,
        432 => case_432(vars).goal,
        433 => case_433(vars).goal,
        434 => case_434(vars).goal,
        435 => case_435(vars).goal,
        436 => case_436(vars).goal,
        437 => case_437(vars).goal,
        438 => case_438(vars).goal,
        439 => case_439(vars).goal,
        440 => case_440(vars).goal,
        441 => case_441(vars).goal,
        442 => case_442(vars).goal,
        443 => case_443(vars).goal,
        444 => case_444(vars).goal,
        445 => case_445(vars).goal,
        446 => case_446(vars).goal,
        447 => case_447(vars).goal,
        448 => case_448(vars).goal,
        449 => case_449(vars).goal,
        450 => case_450(vars).goal,
        451 => case_451(vars).goal,
        452 => case_452(vars).goal,
        453 => case_453(vars).goal,
        454 => case_454(vars).goal,
        455 => case_455(vars).goal,
        456 => case_456(vars).goal,
        457 => case_457(vars).goal,
        458 => case_458(vars).goal,
        459 => case_459(vars).goal,
        460 => case_460(vars).goal,
        461 => case_461(vars).goal,
        462 => case_462(vars).goal,
        463 => case_463(vars).goal,
        464 => case_464(vars).goal,
        465 => case_465(vars).goal,
        466 => case_466(vars).goal,
        467 => case_467(vars).goal,
        468 => case_468(vars).goal,
        469 => case_469(vars).goal,
        470 => case_470(vars).goal,
        471 => case_471(vars).goal,
        472 => case_472(vars).goal,
        473 => case_473(vars).goal,
        474 => case_474(vars).goal,
        475 => case_475(vars).goal,
        476 => case_476(vars).goal,
        477 => case_477(vars).goal,
        478 => case_478(vars).goal,
        479 => case_479(vars).goal,
        480 => case_480(vars).goal,
        481 => case_481(vars).goal,
        482 => case_482(vars).goal,
        483 => case_483(vars).goal,
        484 => case_484(vars).goal,
        485 => case_485(vars).goal,
        486 => case_486(vars).goal,
        487 => case_487(vars).goal,
        488 => case_488(vars).goal,
        489 => case_489(vars).goal,
        490 => case_490(vars).goal,
        491 => case_491(vars).goal,
        492 => case_492(vars).goal,
        493 => case_493(vars).goal,
        494 => case_494(vars).goal,
        495 => case_495(vars).goal,
        496 => case_496(vars).goal,
        497 => case_497(vars).goal,
        498 => case_498(vars).goal,
        499 => case_499(vars).goal,
        500 => case_500(vars).goal,
        501 => case_501(vars).goal,
        502 => case_502(vars).goal,
        503 => case_503(vars).goal,
        504 => case_504(vars).goal,
        505 => case_505(vars).goal,
        506 => case_506(vars).goal,
        507 => case_507(vars).goal,
        508 => case_508(vars).goal,
        509 => case_509(vars).goal,
        510 => case_510(vars).goal,
        511 => case_511(vars).goal,
        512 => case_512(vars).goal,
        513 => case_513(vars).goal,
        514 => case_514(vars).goal,
        515 => case_515(vars).goal,
        516 => case_516(vars).goal,
        517 => case_517(vars).goal,
        518 => case_518(vars).goal,
        519 => case_519(vars).goal,
        520 => case_520(vars).goal,
        521 => case_521(vars).goal,
        522 => case_522(vars).goal,
        523 => case_523(vars).goal,
        524 => case_524(vars).goal,
        525 => case_525(vars).goal,
        526 => case_526(vars).goal,
        527 => case_527(vars).goal,
        528 => case_528(vars).goal,
        529 => case_529(vars).goal,
        530 => case_530(vars).goal,
        531 => case_531(vars).goal,
        532 => case_532(vars).goal,
        533 => case_533(vars).goal,
        534 => case_534(vars).goal,
        535 => case_535(vars).goal,
        536 => case_536(vars).goal,
        537 => case_537(vars).goal,
        538 => case_538(vars).goal,
        539 => case_539(vars).goal,
        540 => case_540(vars).goal,
        541 => case_541(vars).goal,
        542 => case_542(vars).goal,
        543 => case_543(vars).goal,
        544 => case_544(vars).goal,
        545 => case_545(vars).goal,
        546 => case_546(vars).goal,
        547 => case_547(vars).goal,
        548 => case_548(vars).goal,
        549 => case_549(vars).goal,
        550 => case_550(vars).goal,
        551 => case_551(vars).goal,
        552 => case_552(vars).goal,
        553 => case_553(vars).goal,
        554 => case_554(vars).goal,
        555 => case_555(vars).goal,
        556 => case_556(vars).goal,
        557 => case_557(vars).goal,
        558 => case_558(vars).goal,
        559 => case_559(vars).goal,
        560 => case_560(vars).goal,
        561 => case_561(vars).goal,
        562 => case_562(vars).goal,
        563 => case_563(vars).goal,
        564 => case_564(vars).goal,
        565 => case_565(vars).goal,
        566 => case_566(vars).goal,
        567 => case_567(vars).goal,
        568 => case_568(vars).goal,
        569 => case_569(vars).goal,
        570 => case_570(vars).goal,
        571 => case_571(vars).goal,
        572 => case_572(vars).goal,
        573 => case_573(vars).goal,
        574 => case_574(vars).goal,
        575 => case_575(vars).goal,
        576 => case_576(vars).goal,
        577 => case_577(vars).goal,
        578 => case_578(vars).goal,
        579 => case_579(vars).goal,
        580 => case_580(vars).goal,
        581 => case_581(vars).goal,
        582 => case_582(vars).goal,
        583 => case_583(vars).goal,
        584 => case_584(vars).goal,
        585 => case_585(vars).goal,
        586 => case_586(vars).goal,
        587 => case_587(vars).goal,
        588 => case_588(vars).goal,
        589 => case_589(vars).goal,
        590 => case_590(vars).goal,
        591 => case_591(vars).goal,
        592 => case_592(vars).goal,
        593 => case_593(vars).goal,
        594 => case_594(vars).goal,
        595 => case_595(vars).goal,
        596 => case_596(vars).goal,
        597 => case_597(vars).goal,
        598 => case_598(vars).goal,
        599 => case_599(vars).goal,
        600 => case_600(vars).goal,
        601 => case_601(vars).goal,
        602 => case_602(vars).goal,
        603 => case_603(vars).goal,
        604 => case_604(vars).goal,
        605 => case_605(vars).goal,
        606 => case_606(vars).goal,
        607 => case_607(vars).goal,
        608 => case_608(vars).goal,
        609 => case_609(vars).goal,
        610 => case_610(vars).goal,
        611 => case_611(vars).goal,
        612 => case_612(vars).goal,
        613 => case_613(vars).goal,
        614 => case_614(vars).goal,
        615 => case_615(vars).goal,
        _ => unreachable!(),
    }
}
